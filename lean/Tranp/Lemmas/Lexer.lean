/-
  Helper lemmas for property C13 (tokenizer). Property theorems are in Tranp/Props/C13.lean.
-/
import Tranp.Model.Lexer

namespace Tranp.Lexer
open Tranp

/-! ### slices -/

theorem slice_zero (s : Str) (e : Nat) : slice s 0 e = s.take e := by simp [slice]

theorem take_eq_take_append_slice (s : Str) {b e : Nat} (h : b ≤ e) : s.take e = s.take b ++ slice s b e := by
  unfold slice
  have h1 : (s.take e).take b = s.take b := by rw [List.take_take]; congr 1; omega
  rw [← h1, List.take_append_drop]

theorem slice_append_drop (s : Str) {b e : Nat} (h : b ≤ e) : slice s b e ++ s.drop e = s.drop b := by
  unfold slice
  conv => rhs; rw [← List.take_append_drop e s]
  rw [List.drop_append]
  congr 1
  by_cases hb : b ≤ s.length
  · have : b - (List.take e s).length = 0 := by simp; omega
    rw [this]; simp
  · have : s.drop e = [] := by apply List.drop_eq_nil_of_le; omega
    rw [this]; simp

theorem slice_split (s : Str) {a b c : Nat} (h1 : a ≤ b) (h2 : b ≤ c) : slice s a c = slice s a b ++ slice s b c := by
  unfold slice
  have e1 : s.take b = (s.take c).take b := by rw [List.take_take]; congr 1; omega
  rw [e1]
  generalize s.take c = t
  conv => lhs; rw [← List.take_append_drop b t]
  rw [List.drop_append]
  by_cases hb : a ≤ t.length
  · have : a - (List.take b t).length = 0 := by simp; omega
    rw [this]; simp
  · have : t.drop b = [] := by apply List.drop_eq_nil_of_le; omega
    rw [this]; simp

theorem slice_length (s : Str) {b e : Nat} (h : e ≤ s.length) : (slice s b e).length = e - b := by
  simp [slice]; omega

/-! ### startsWith / find -/

theorem startsWith_length : ∀ (s p : Str), Str.startsWith s p = true → p.length ≤ s.length
  | _, [], _ => by simp
  | [], _ :: _, h => by simp [Str.startsWith] at h
  | c :: cs, q :: qs, h => by
    simp [Str.startsWith] at h
    have := startsWith_length cs qs h.2
    simp; omega

theorem startsWith_take : ∀ (s p : Str), Str.startsWith s p = true → s.take p.length = p
  | _, [], _ => by simp
  | [], _ :: _, h => by simp [Str.startsWith] at h
  | c :: cs, q :: qs, h => by
    simp [Str.startsWith] at h
    simp [h.1, startsWith_take cs qs h.2]

theorem startsWithAt_bound {s p : Str} {i : Nat} (h : startsWithAt s p i = true) : i + p.length ≤ s.length := by
  simp [startsWithAt] at h
  have := startsWith_length _ _ h.2
  simp at this; omega

theorem findSub_bound (p : Str) : ∀ (s : Str) (i : Nat), findSub p s = some i → i + p.length ≤ s.length
  | [], i, h => by
    simp [findSub] at h
    obtain ⟨h1, h2⟩ := h
    subst h1 h2; simp
  | c :: cs, i, h => by
    simp only [findSub] at h
    split at h
    · rename_i hs
      injection h with h; subst h
      have := startsWith_length _ _ hs
      simpa using this
    · cases hf : findSub p cs with
      | none => simp [hf] at h
      | some j =>
        simp [hf] at h; subst h
        have := findSub_bound p cs j hf
        simp; omega

theorem findFrom_bound {s p : Str} {i idx : Nat} (h : findFrom s p i = some idx) : i ≤ idx ∧ idx + p.length ≤ s.length := by
  unfold findFrom at h
  split at h
  · rename_i hi
    cases hf : findSub p (s.drop i) with
    | none => simp [hf] at h
    | some j =>
      simp [hf] at h; subst h
      have := findSub_bound p _ j hf
      simp at this
      omega
  · simp at h

/-! ### spanLen -/

theorem takeWhile_length_le (f : Char → Bool) : ∀ l : Str, (l.takeWhile f).length ≤ l.length
  | [] => by simp
  | c :: cs => by
    have := takeWhile_length_le f cs
    cases h : f c <;> simp [List.takeWhile, h]; omega

theorem take_takeWhile_length (f : Char → Bool) : ∀ l : Str, l.take (l.takeWhile f).length = l.takeWhile f
  | [] => by simp
  | c :: cs => by
    cases h : f c <;> simp [List.takeWhile, h, take_takeWhile_length f cs]

theorem takeWhile_all (f : Char → Bool) : ∀ (l : Str) (c : Char), c ∈ l.takeWhile f → f c = true
  | [], c, h => by simp at h
  | x :: xs, c, h => by
    cases hx : f x
    · simp [List.takeWhile, hx] at h
    · simp only [List.takeWhile, hx, List.mem_cons] at h
      cases h with
      | inl h => rw [h]; exact hx
      | inr h => exact takeWhile_all f xs c h

theorem spanLen_le (a s : Str) (b : Nat) : b + spanLen a s b ≤ max b s.length := by
  unfold spanLen
  have := takeWhile_length_le (fun c => a.contains c) (s.drop b)
  simp only [List.length_drop] at this
  omega

theorem drop_eq_cons_of_getElem? {s : Str} {b : Nat} {c : Char} (hc : s[b]? = some c) : s.drop b = c :: s.drop (b + 1) := by
  have h := List.getElem?_eq_some_iff.mp hc
  obtain ⟨hb, he⟩ := h
  rw [List.drop_eq_getElem_cons hb, he]

theorem spanLen_pos {a s : Str} {b : Nat} {c : Char} (hc : s[b]? = some c) (ha : a.contains c = true) : 0 < spanLen a s b := by
  unfold spanLen
  rw [drop_eq_cons_of_getElem? hc]
  simp only [List.takeWhile, ha]
  simp

theorem slice_spanLen (a s : Str) (b : Nat) : slice s b (b + spanLen a s b) = (s.drop b).takeWhile (fun c => a.contains c) := by
  unfold slice spanLen
  rw [List.drop_take]
  have : b + ((s.drop b).takeWhile (fun c => a.contains c)).length - b = ((s.drop b).takeWhile (fun c => a.contains c)).length := by omega
  rw [this]
  exact take_takeWhile_length _ _

/-- every character of the scanned slice is in the alphabet -/
theorem spanLen_all (a s : Str) (b : Nat) : ∀ c ∈ slice s b (b + spanLen a s b), a.contains c = true := by
  intro c hc
  rw [slice_spanLen] at hc
  exact takeWhile_all _ _ c hc

/-! ### specification vocabulary -/

/-- the source text a raw token stands for: its string, except that the unary-minus marker stands for `-` -/
def rawText (t : Token) : Str :=
  if t.type = T.minus ∧ t.string = Special.opUnaryMinus then ['-'] else t.string

/-- what one sub-parser call must deliver: progress, stays inside the source, text = the consumed slice, map of that slice -/
structure StepOK (src : Str) (b e : Nat) (t : Token) : Prop where
  lt : b < e
  le : e ≤ src.length
  text : rawText t = slice src b e
  map : t.map = mkMap src b e

/-- finite side conditions on a definition (decided for the generated definitions) -/
def wf (d : TokenDef) : Bool :=
  d.comment.all (fun p => !p.1.isEmpty) &&
  d.quote.all (fun p => !p.1.isEmpty && !p.2.isEmpty) &&
  !d.whiteSpace.contains '\\' &&
  d.symbol[15]? == some '-'

theorem rawText_of_ne {t : Token} (h : t.type ≠ T.minus) : rawText t = t.string := by
  simp [rawText, h]

theorem countSubAux_zero (a : Char) (p : Str) : ∀ (s : Str) (k : Nat), a ∉ s → countSubAux (a :: p) k s = 0
  | [], k, _ => by cases k <;> simp [countSubAux]
  | c :: cs, k, h => by
    have hc : ¬ a = c := fun e => h (by simp [e])
    have hcs : a ∉ cs := fun e => h (by simp [e])
    cases k with
    | succ k => simp [countSubAux, countSubAux_zero a p cs k hcs]
    | zero =>
      have : Str.startsWith (c :: cs) (a :: p) = false := by
        simp [Str.startsWith]; intro e; exact absurd e.symm hc
      simp [countSubAux, this, countSubAux_zero a p cs 0 hcs]

theorem charIn_ok {a s : Str} {b : Nat} (h : charIn a s b = .ok true) : ∃ c, s[b]? = some c ∧ a.contains c = true := by
  unfold charIn charAt at h
  cases hc : s[b]? with
  | none => rw [hc] at h; cases h
  | some c =>
    rw [hc] at h
    refine ⟨c, rfl, ?_⟩
    cases hh : a.contains c
    · rw [show (do let c ← (Except.ok c : Except Err Char); pure (a.contains c)) = Except.ok (a.contains c) from rfl, hh] at h
      cases h
    · rfl

theorem getElem?_lt {s : Str} {b : Nat} {c : Char} (h : s[b]? = some c) : b < s.length :=
  (List.getElem?_eq_some_iff.mp h).1

theorem parseWhiteSpace_ok {d : TokenDef} (hw : wf d = true) {src : Str} {b e : Nat} {t : Token}
    (ha : charIn d.whiteSpace src b = .ok true) (h : parseWhiteSpace d src b = .ok (e, t)) : StepOK src b e t := by
  obtain ⟨c, hc, hin⟩ := charIn_ok ha
  have hb := getElem?_lt hc
  have hpos := spanLen_pos hc hin
  have hle := spanLen_le d.whiteSpace src b
  have hbs : '\\' ∉ d.whiteSpace := by
    simp [wf] at hw; exact hw.1.2
  have hno : '\\' ∉ slice src b (b + spanLen d.whiteSpace src b) := by
    intro hm
    have := spanLen_all d.whiteSpace src b _ hm
    simp at this; exact hbs this
  have hz := countSubAux_zero '\\' ['\n'] _ 0 hno
  unfold parseWhiteSpace at h
  simp only [hz, Nat.lt_irrefl, ↓reduceIte] at h
  split at h <;> (injection h with h; injection h with h1 h2; subst h1 h2)
  · exact ⟨by omega, by omega, rawText_of_ne (by simp [T.whiteSpace, T.minus]), rfl⟩
  · exact ⟨by omega, by omega, rawText_of_ne (by simp [T.lineBreak, T.minus]), rfl⟩

theorem parseNumber_ok {d : TokenDef} {src : Str} {b e : Nat} {t : Token}
    (ha : charIn d.number src b = .ok true) (h : parseNumber d src b = .ok (e, t)) : StepOK src b e t := by
  obtain ⟨c, hc, hin⟩ := charIn_ok ha
  have hb := getElem?_lt hc
  have hpos := spanLen_pos hc hin
  have hle := spanLen_le d.number src b
  unfold parseNumber at h
  injection h with h; injection h with h1 h2; subst h1 h2
  refine ⟨by omega, by omega, rawText_of_ne ?_, rfl⟩
  simp only []
  split <;> simp [T.decimal, T.digit, T.minus]

theorem parseIdentifier_ok {d : TokenDef} {src : Str} {b e : Nat} {t : Token}
    (ha : charIn d.identifier src b = .ok true) (h : parseIdentifier d src b = .ok (e, t)) : StepOK src b e t := by
  obtain ⟨c, hc, hin⟩ := charIn_ok ha
  have hb := getElem?_lt hc
  have hpos := spanLen_pos hc hin
  have hle := spanLen_le d.identifier src b
  unfold parseIdentifier at h
  injection h with h; injection h with h1 h2; subst h1 h2
  exact ⟨by omega, by omega, rawText_of_ne (by simp [T.name, T.minus]), rfl⟩

theorem firstOpen_ok {pairs : List (Str × Str)} {src : Str} {b : Nat} {p : Str × Str}
    (h : firstOpen pairs src b = .ok p) : p ∈ pairs ∧ startsWithAt src p.1 b = true := by
  unfold firstOpen at h
  cases hf : pairs.find? (fun p => startsWithAt src p.1 b) with
  | none => rw [hf] at h; cases h
  | some q =>
    rw [hf] at h; injection h with h; subst h
    exact ⟨List.mem_of_find?_eq_some hf, by simpa using List.find?_some hf⟩

theorem wf_comment {d : TokenDef} (hw : wf d = true) {p : Str × Str} (hp : p ∈ d.comment) : 0 < p.1.length := by
  simp [wf] at hw
  have := hw.1.1.1 p.1 p.2 hp
  exact List.length_pos_iff.mpr this

theorem wf_quote {d : TokenDef} (hw : wf d = true) {p : Str × Str} (hp : p ∈ d.quote) : 0 < p.1.length ∧ 0 < p.2.length := by
  simp [wf] at hw
  have := hw.1.1.2 p.1 p.2 hp
  exact ⟨List.length_pos_iff.mpr this.1, List.length_pos_iff.mpr this.2⟩

theorem parseComment_ok {d : TokenDef} (hw : wf d = true) {src : Str} {b e : Nat} {t : Token}
    (hb : b < src.length) (h : parseComment d src b = .ok (e, t)) : StepOK src b e t := by
  unfold parseComment at h
  cases hf : firstOpen d.comment src b with
  | error er => rw [hf] at h; cases h
  | ok pair =>
    rw [hf] at h
    obtain ⟨hp, hs⟩ := firstOpen_ok hf
    have hlen := wf_comment hw hp
    have hbound := startsWithAt_bound hs
    simp only [bind, Except.bind] at h
    split at h
    · rename_i idx hidx
      have := findFrom_bound hidx
      injection h with h; injection h with h1 h2; subst h1 h2
      refine ⟨?_, ?_, rawText_of_ne (by simp [T.comment, T.minus]), rfl⟩
      · split <;> omega
      · split <;> omega
    · injection h with h; injection h with h1 h2; subst h1 h2
      exact ⟨hb, Nat.le_refl _, rawText_of_ne (by simp [T.comment, T.minus]), rfl⟩

/-- the quote loop stays inside the source and never exhausts a fuel of at least `len - e` -/
theorem quoteLoop_ok {src close : Str} (hc : 0 < close.length) (body : Nat) : ∀ (fuel e : Nat), e ≤ src.length → src.length - e ≤ fuel →
    ∃ e', quoteLoop src close body fuel e = .ok e' ∧ e ≤ e' ∧ e' ≤ src.length
  | fuel, e, hle, hf => by
    unfold quoteLoop
    split
    · rename_i hlt
      cases fuel with
      | zero => omega
      | succ f =>
        simp only []
        cases hfind : findFrom src close e with
        | none => exact ⟨e, rfl, Nat.le_refl _, hle⟩
        | some idx =>
          have hb := findFrom_bound hfind
          simp only []
          split
          · obtain ⟨e', h1, h2, h3⟩ := quoteLoop_ok (src := src) hc body f (idx + 1) (by omega) (by omega)
            exact ⟨e', h1, by omega, h3⟩
          · exact ⟨_, rfl, by omega, hb.2⟩
    · exact ⟨e, rfl, Nat.le_refl _, hle⟩

theorem parseQuote_ok {d : TokenDef} (hw : wf d = true) {src : Str} {b e : Nat} {t : Token}
    (h : parseQuote d src b = .ok (e, t)) : StepOK src b e t := by
  unfold parseQuote at h
  cases hf : firstOpen d.quote src b with
  | error er => rw [hf] at h; cases h
  | ok pair =>
    rw [hf] at h
    obtain ⟨hp, hs⟩ := firstOpen_ok hf
    have hlen := wf_quote hw hp
    have hbound := startsWithAt_bound hs
    obtain ⟨e', hq, h1, h2⟩ := quoteLoop_ok (src := src) hlen.2 (b + pair.1.length) src.length (b + pair.1.length) hbound (by omega)
    simp only [bind, Except.bind, hq] at h
    split at h
    · cases h
    · rename_i c cs hv
      injection h with h; injection h with h3 h4; subst h3 h4
      refine ⟨by omega, h2, ?_, rfl⟩
      apply rawText_of_ne
      simp only []; split <;> simp [T.regexp, T.string, T.minus]

theorem typeOf_ok {d : TokenDef} {n ty : Nat} (h : typeOf d n = .ok ty) : ty = n := by
  unfold typeOf at h
  split at h
  · injection h with h; exact h.symm
  · cases h

theorem combined_ok {d : TokenDef} {src : Str} {b w e : Nat} {t : Token} (hwid : 0 < w)
    (h : combined d src b w = .ok (some (e, t))) : StepOK src b e t := by
  unfold combined at h
  simp only [] at h
  split at h
  · cases h
  · rename_i hlt
    split at h
    · cases h
    · rename_i off hoff
      cases hty : typeOf d (T.beginCombine + off) with
      | error er => rw [hty] at h; cases h
      | ok ty =>
        rw [hty] at h
        have := typeOf_ok hty
        simp only [bind, Except.bind, pure, Except.pure] at h
        injection h with h; injection h with h; injection h with h1 h2; subst h1 h2
        refine ⟨by omega, by omega, rawText_of_ne ?_, rfl⟩
        simp only [this, T.beginCombine, T.minus]; omega

theorem indexOf?_getElem? {α : Type} [DecidableEq α] (x : α) : ∀ (l : List α) (i : Nat), indexOf? x l = some i → l[i]? = some x
  | [], i, h => by simp [indexOf?] at h
  | y :: ys, i, h => by
    simp only [indexOf?] at h
    split at h
    · rename_i hy; injection h with h; subst h; simp [hy]
    · cases hr : indexOf? x ys with
      | none => simp [hr] at h
      | some j =>
        simp [hr] at h; subst h
        simpa using indexOf?_getElem? x ys j hr

theorem slice_one {src : Str} {b : Nat} {c : Char} (h : src[b]? = some c) : slice src b (b + 1) = [c] := by
  unfold slice
  rw [List.drop_take, drop_eq_cons_of_getElem? h]
  simp

theorem charAt_ok {s : Str} {b : Nat} {c : Char} (h : charAt s b = .ok c) : s[b]? = some c := by
  unfold charAt at h
  cases hc : s[b]? with
  | none => rw [hc] at h; cases h
  | some x => rw [hc] at h; injection h with h; rw [h]

theorem wf_minus {d : TokenDef} (hw : wf d = true) : d.symbol[15]? = some '-' := by
  simp [wf] at hw; exact hw.2

theorem parseSymbol_ok {d : TokenDef} (hw : wf d = true) {src : Str} {b e : Nat} {t : Token}
    (h : parseSymbol d src b = .ok (e, t)) : StepOK src b e t := by
  unfold parseSymbol at h
  cases h3 : combined d src b 3 with
  | error er => rw [h3] at h; cases h
  | ok r3 =>
    rw [h3] at h
    simp only [bind, Except.bind] at h
    cases r3 with
    | some r =>
      simp only [pure, Except.pure] at h
      injection h with h; subst h
      exact combined_ok (by omega) h3
    | none =>
      simp only [] at h
      cases h2 : combined d src b 2 with
      | error er => rw [h2] at h; cases h
      | ok r2 =>
        rw [h2] at h
        cases r2 with
        | some r =>
          simp only [pure, Except.pure] at h
          injection h with h; subst h
          exact combined_ok (by omega) h2
        | none =>
          simp only [] at h
          cases hv : charAt src b with
          | error er => rw [hv] at h; cases h
          | ok value =>
            rw [hv] at h
            have hget := charAt_ok hv
            have hb := getElem?_lt hget
            have hs1 := slice_one hget
            simp only [] at h
            split at h
            · cases h
            · rename_i off hoff
              cases hty : typeOf d (Dom.symbol * 16 + off) with
              | error er => rw [hty] at h; cases h
              | ok ty =>
                rw [hty] at h
                have htyv := typeOf_ok hty
                simp only [] at h
                split at h
                · rename_i hminus
                  -- the symbol at offset 15 is the minus sign
                  have hoff15 : off = 15 := by
                    rw [hminus] at htyv; simp [T.minus, Dom.symbol] at htyv; omega
                  have hval : value = '-' := by
                    have h1 := indexOf?_getElem? value d.symbol off hoff
                    rw [hoff15, wf_minus hw] at h1
                    injection h1 with h1; exact h1.symm
                  split at h
                  · cases hws : charIn d.whiteSpace src (b + 1) with
                    | error er => rw [hws] at h; cases h
                    | ok ws =>
                      rw [hws] at h
                      simp only [] at h
                      split at h
                      · simp only [pure, Except.pure] at h
                        injection h with h; injection h with h1 h2; subst h1 h2
                        refine ⟨by omega, by omega, ?_, rfl⟩
                        rw [hs1, hval]
                        simp [rawText, Token.opUnaryMinus]
                      · simp only [pure, Except.pure] at h
                        injection h with h; injection h with h1 h2; subst h1 h2
                        refine ⟨by omega, by omega, ?_, rfl⟩
                        rw [hs1]
                        simp [rawText, Special.opUnaryMinus]
                  · simp only [pure, Except.pure] at h
                    injection h with h; injection h with h1 h2; subst h1 h2
                    refine ⟨by omega, by omega, ?_, rfl⟩
                    rw [hs1]
                    simp [rawText, Special.opUnaryMinus]
                · rename_i hnm
                  simp only [pure, Except.pure] at h
                  injection h with h; injection h with h1 h2; subst h1 h2
                  exact ⟨by omega, by omega, by rw [hs1]; exact rawText_of_ne hnm, rfl⟩

theorem analyzeGo_sound {d : TokenDef} {src : Str} {b : Nat} : ∀ (order : List Nat) (dom : Nat),
    analyzeGo d src b order = .ok dom → analyzer d dom src b = .ok true
  | [], dom, h => by cases h
  | x :: rest, dom, h => by
    unfold analyzeGo at h
    cases ha : analyzer d x src b with
    | error er => rw [ha] at h; cases h
    | ok r =>
      rw [ha] at h
      simp only [bind, Except.bind] at h
      cases r with
      | true =>
        simp only [↓reduceIte, pure, Except.pure] at h
        injection h with h; subst h; exact ha
      | false =>
        simp only [Bool.false_eq_true, ↓reduceIte] at h
        exact analyzeGo_sound rest dom h

/-- one dispatch + sub-parser call of the main loop delivers a `StepOK` -/
theorem parser_ok {d : TokenDef} (hw : wf d = true) {src : Str} {b e dom : Nat} {t : Token} (hb : b < src.length)
    (hd : analyzeDomain d src b = .ok dom) (h : parser d dom src b = .ok (e, t)) : StepOK src b e t := by
  have ha := analyzeGo_sound _ _ hd
  unfold parser at h
  unfold analyzer at ha
  split at h
  · rename_i h0; simp only [h0, ↓reduceIte] at ha; exact parseWhiteSpace_ok hw ha h
  · rename_i h0
    split at h
    · exact parseComment_ok hw hb h
    · split at h
      · exact parseQuote_ok hw h
      · rename_i h1 h2
        split at h
        · rename_i h3; simp only [h3, ↓reduceIte] at ha; exact parseNumber_ok ha h
        · split at h
          · rename_i h3 h4; simp only [h4, ↓reduceIte] at ha; exact parseIdentifier_ok ha h
          · split at h
            · exact parseSymbol_ok hw h
            · cases h

theorem charIn_fuel {a s : Str} {b : Nat} : charIn a s b ≠ .error .fuel := by
  unfold charIn charAt
  cases s[b]? <;> intro h <;> cases h

theorem analyzeGo_fuel {d : TokenDef} {src : Str} {b : Nat} : ∀ (order : List Nat), analyzeGo d src b order ≠ .error .fuel
  | [] => by intro h; cases h
  | x :: rest => by
    unfold analyzeGo
    cases ha : analyzer d x src b with
    | error er =>
      intro h; simp only [bind, Except.bind] at h
      injection h with h; subst h
      unfold analyzer at ha
      repeat' split at ha
      all_goals first | exact charIn_fuel ha | cases ha
    | ok r =>
      simp only [bind, Except.bind]
      cases r with
      | true => intro h; cases h
      | false => simpa using analyzeGo_fuel rest

theorem analyzeDomain_fuel {d : TokenDef} {src : Str} {b : Nat} (h : analyzeDomain d src b = .error .fuel) : False :=
  analyzeGo_fuel _ h

theorem typeOf_fuel {d : TokenDef} {n : Nat} : typeOf d n ≠ .error .fuel := by
  unfold typeOf; split <;> intro h <;> cases h

theorem combined_fuel {d : TokenDef} {src : Str} {b w : Nat} : combined d src b w ≠ .error .fuel := by
  unfold combined
  simp only []
  split
  · intro h; cases h
  · split
    · intro h; cases h
    · rename_i off _
      cases hty : typeOf d (T.beginCombine + off) with
      | error er =>
        intro h; simp only [bind, Except.bind] at h
        injection h with h; subst h; exact typeOf_fuel hty
      | ok ty => intro h; cases h

theorem parseSymbol_fuel {d : TokenDef} {src : Str} {b : Nat} : parseSymbol d src b ≠ .error .fuel := by
  unfold parseSymbol
  cases h3 : combined d src b 3 with
  | error er => intro h; simp only [bind, Except.bind] at h; injection h with h; subst h; exact combined_fuel h3
  | ok r3 =>
    simp only [bind, Except.bind]
    cases r3 with
    | some r => intro h; cases h
    | none =>
      simp only []
      cases h2 : combined d src b 2 with
      | error er => intro h; simp only [] at h; injection h with h; subst h; exact combined_fuel h2
      | ok r2 =>
        cases r2 with
        | some r => intro h; cases h
        | none =>
          simp only []
          cases hv : charAt src b with
          | error er =>
            intro h; simp only [] at h; injection h with h; subst h
            unfold charAt at hv; cases hg : src[b]? <;> rw [hg] at hv <;> cases hv
          | ok value =>
            simp only []
            split
            · intro h; cases h
            · rename_i off _
              cases hty : typeOf d (Dom.symbol * 16 + off) with
              | error er => intro h; simp only [] at h; injection h with h; subst h; exact typeOf_fuel hty
              | ok ty =>
                simp only []
                split
                · split
                  · cases hws : charIn d.whiteSpace src (b + 1) with
                    | error er => intro h; simp only [] at h; injection h with h; subst h; exact charIn_fuel hws
                    | ok ws => simp only []; split <;> intro h <;> cases h
                  · intro h; cases h
                · intro h; cases h

theorem firstOpen_fuel {pairs : List (Str × Str)} {src : Str} {b : Nat} : firstOpen pairs src b ≠ .error .fuel := by
  unfold firstOpen; split <;> intro h <;> cases h

theorem parseComment_fuel {d : TokenDef} {src : Str} {b : Nat} : parseComment d src b ≠ .error .fuel := by
  unfold parseComment
  cases hf : firstOpen d.comment src b with
  | error er => intro h; simp only [bind, Except.bind] at h; injection h with h; subst h; exact firstOpen_fuel hf
  | ok pair => simp only [bind, Except.bind]; split <;> intro h <;> cases h

theorem parseQuote_fuel {d : TokenDef} (hw : wf d = true) {src : Str} {b : Nat} : parseQuote d src b ≠ .error .fuel := by
  unfold parseQuote
  cases hf : firstOpen d.quote src b with
  | error er => intro h; simp only [bind, Except.bind] at h; injection h with h; subst h; exact firstOpen_fuel hf
  | ok pair =>
    obtain ⟨hp, hs⟩ := firstOpen_ok hf
    have hlen := wf_quote hw hp
    have hbound := startsWithAt_bound hs
    obtain ⟨e', hq, h1, h2⟩ := quoteLoop_ok (src := src) hlen.2 (b + pair.1.length) src.length (b + pair.1.length) hbound (by omega)
    simp only [bind, Except.bind, hq]
    split <;> intro h <;> cases h

theorem parser_fuel {d : TokenDef} (hw : wf d = true) {src : Str} {b dom : Nat} (h : parser d dom src b = .error .fuel) : False := by
  unfold parser at h
  split at h
  · unfold parseWhiteSpace at h; simp only [] at h; repeat' split at h
    all_goals cases h
  · split at h
    · exact parseComment_fuel h
    · split at h
      · exact parseQuote_fuel hw h
      · split at h
        · cases h
        · split at h
          · cases h
          · split at h
            · exact parseSymbol_fuel h
            · cases h

/-- everything the main loop guarantees about its output, for any fuel: the raw texts tile `src[i:]`, and every token
    carries the source map of the slice it stands for -/
theorem parseLoop_ok {d : TokenDef} (hw : wf d = true) {src : Str} : ∀ (fuel i : Nat) (toks : List Token),
    i ≤ src.length → parseLoop d src fuel i = .ok toks →
    (toks.map rawText).flatten = src.drop i ∧
    ∀ t ∈ toks, ∃ b e, b ≤ e ∧ e ≤ src.length ∧ rawText t = slice src b e ∧ t.map = mkMap src b e
  | fuel, i, toks, hi, h => by
    unfold parseLoop at h
    split at h
    · rename_i hlt
      cases fuel with
      | zero => cases h
      | succ f =>
        simp only [] at h
        cases hd : analyzeDomain d src i with
        | error er => rw [hd] at h; cases h
        | ok dom =>
          rw [hd] at h
          simp only [bind, Except.bind] at h
          cases hp : parser d dom src i with
          | error er => rw [hp] at h; cases h
          | ok r =>
            obtain ⟨e, t⟩ := r
            rw [hp] at h
            simp only [] at h
            cases hr : parseLoop d src f e with
            | error er => rw [hr] at h; cases h
            | ok rest =>
              rw [hr] at h
              simp only [pure, Except.pure] at h
              injection h with h; subst h
              have hs := parser_ok hw hlt hd hp
              obtain ⟨ih1, ih2⟩ := parseLoop_ok hw f e rest hs.le hr
              constructor
              · simp only [List.map_cons, List.flatten_cons, ih1, hs.text]
                exact slice_append_drop src (Nat.le_of_lt hs.lt)
              · intro t' ht'
                simp only [List.mem_cons] at ht'
                cases ht' with
                | inl h1 => subst h1; exact ⟨i, e, Nat.le_of_lt hs.lt, hs.le, hs.text, hs.map⟩
                | inr h1 => exact ih2 t' h1
    · rename_i hge
      injection h with h; subst h
      have : src.drop i = [] := List.drop_eq_nil_of_le (by omega)
      simp [this]

/-- with the decided side conditions the loop never exhausts a fuel of at least `len - i` -/
theorem parseLoop_fuel {d : TokenDef} (hw : wf d = true) {src : Str} : ∀ (fuel i : Nat),
    src.length - i ≤ fuel → parseLoop d src fuel i ≠ .error .fuel
  | fuel, i, hf => by
    unfold parseLoop
    split
    · rename_i hlt
      cases fuel with
      | zero => omega
      | succ f =>
        simp only []
        cases hd : analyzeDomain d src i with
        | error er =>
          -- the only source of `.fuel` below the loop is the quote loop, excluded by `parser_fuel`
          intro h; simp only [bind, Except.bind] at h
          injection h with h; subst h
          exact analyzeDomain_fuel hd
        | ok dom =>
          simp only [bind, Except.bind]
          cases hp : parser d dom src i with
          | error er =>
            intro h; simp only [] at h
            injection h with h; subst h
            exact parser_fuel hw hp
          | ok r =>
            obtain ⟨e, t⟩ := r
            simp only []
            have hs := parser_ok hw hlt hd hp
            have ih := parseLoop_fuel hw (src := src) f e (by have := hs.lt; omega)
            cases hr : parseLoop d src f e with
            | error er =>
              intro h; simp only [] at h
              injection h with h; subst h
              exact ih hr
            | ok rest => intro h; cases h
    · intro h; cases h

/-! ### line/column ↔ offset arithmetic (`Token.SourceMap.make`) -/

/-- offset at which line `n` (0-based) of `s` starts: one past the `n`-th newline -/
def lineStart : Str → Nat → Nat
  | _, 0 => 0
  | [], _ + 1 => 0
  | c :: cs, n + 1 => 1 + (if c = '\n' then lineStart cs n else lineStart cs (n + 1))

/-- the slice of `src` a source map addresses -/
def addressed (src : Str) (m : SourceMap) : Str :=
  slice src (lineStart src m.bl.toNat + m.bc.toNat) (lineStart src m.el.toNat + m.ec.toNat)

theorem count_cons (c x : Char) (xs : Str) : Str.count c (x :: xs) = (if x = c then 1 else 0) + Str.count c xs := by
  simp only [Str.count, List.filter_cons]
  by_cases hx : x = c <;> simp [hx]; omega

theorem count_append (c : Char) (p q : Str) : Str.count c (p ++ q) = Str.count c p + Str.count c q := by
  simp [Str.count, List.filter_append]

theorem rfindChar_none_iff (c : Char) : ∀ s : Str, rfindChar c s = none ↔ Str.count c s = 0
  | [] => by simp [rfindChar, Str.count]
  | x :: xs => by
    have ih := rfindChar_none_iff c xs
    rw [count_cons]
    simp only [rfindChar]
    cases hr : rfindChar c xs with
    | some i =>
      have : Str.count c xs ≠ 0 := fun h => by rw [ih.mpr h] at hr; cases hr
      constructor
      · intro h; cases h
      · intro h; omega
    | none =>
      have := ih.mp hr
      by_cases hx : x = c
      · simp [hx]
      · simp [hx, this]

theorem rfindChar_lt (c : Char) : ∀ (s : Str) (i : Nat), rfindChar c s = some i → i < s.length
  | [], i, h => by simp [rfindChar] at h
  | x :: xs, i, h => by
    simp only [rfindChar] at h
    cases hr : rfindChar c xs with
    | some j => rw [hr] at h; injection h with h; subst h; have := rfindChar_lt c xs j hr; simp; omega
    | none =>
      rw [hr] at h
      by_cases hx : x = c
      · simp [hx] at h; subst h; simp
      · simp [hx] at h

theorem lastLineStart_le (p : Str) : lastLineStart p ≤ p.length := by
  unfold lastLineStart
  cases h : rfindChar '\n' p with
  | none => simp
  | some i => have := rfindChar_lt _ p i h; simp; omega

/-- the line counted by `count '\n'` over a prefix starts where `rfind '\n'` over that prefix says -/
theorem lineStart_prefix : ∀ (p q : Str), lineStart (p ++ q) (Str.count '\n' p) = lastLineStart p
  | [], q => by simp [Str.count, lineStart, lastLineStart, rfindChar]
  | c :: p, q => by
    have ih := lineStart_prefix p q
    rw [count_cons]
    unfold lastLineStart at ih ⊢
    simp only [rfindChar, List.cons_append]
    by_cases hc : c = '\n'
    · simp only [hc, ↓reduceIte]
      rw [Nat.add_comm 1 (Str.count '\n' p)]
      simp only [lineStart, ↓reduceIte]
      rw [ih]
      cases hr : rfindChar '\n' p <;> simp <;> omega
    · simp only [hc, ↓reduceIte, Nat.zero_add]
      cases hr : rfindChar '\n' p with
      | none =>
        have hz := (rfindChar_none_iff '\n' p).mp hr
        rw [hz]; simp [lineStart]
      | some i =>
        rw [hr] at ih
        have hnz : Str.count '\n' p ≠ 0 := fun h => by rw [(rfindChar_none_iff '\n' p).mpr h] at hr; cases hr
        obtain ⟨n, hn⟩ := Nat.exists_eq_succ_of_ne_zero hnz
        rw [hn] at ih ⊢
        simp only [lineStart, hc, ↓reduceIte]
        rw [ih]; simp; omega

theorem rfindChar_append (c : Char) : ∀ (p q : Str), rfindChar c (p ++ q) =
    match rfindChar c q with
    | some i => some (p.length + i)
    | none => rfindChar c p
  | [], q => by cases h : rfindChar c q <;> simp [rfindChar, h]
  | x :: p, q => by
    have ih := rfindChar_append c p q
    simp only [List.cons_append, rfindChar, ih]
    cases hq : rfindChar c q with
    | some i => simp; omega
    | none => simp

/-- no newline after the start of the last line -/
theorem rfindChar_drop_lastLineStart : ∀ p : Str, rfindChar '\n' (p.drop (lastLineStart p)) = none
  | [] => by simp [rfindChar]
  | x :: xs => by
    have ih := rfindChar_drop_lastLineStart xs
    unfold lastLineStart at ih ⊢
    simp only [rfindChar]
    cases hr : rfindChar '\n' xs with
    | some i =>
      rw [hr] at ih
      simpa using ih
    | none =>
      rw [hr] at ih
      by_cases hx : x = '\n'
      · simp [hx, hr]
      · simp [hx, rfindChar, hr]

/-- `SourceMap.make` inverts: the (line, column) pairs it records address exactly the offsets it was given -/
theorem mkMap_addresses (src : Str) {b e : Nat} (hbe : b ≤ e) (he : e ≤ src.length) :
    0 ≤ (mkMap src b e).bl ∧ 0 ≤ (mkMap src b e).bc ∧ 0 ≤ (mkMap src b e).el ∧ 0 ≤ (mkMap src b e).ec ∧
    lineStart src (mkMap src b e).bl.toNat + (mkMap src b e).bc.toNat = b ∧
    lineStart src (mkMap src b e).el.toNat + (mkMap src b e).ec.toNat = e := by
  have hb : b ≤ src.length := Nat.le_trans hbe he
  -- begin side
  have hls_b : lineStart src (Str.count '\n' (src.take b)) = lastLineStart (src.take b) := by
    have := lineStart_prefix (src.take b) (src.drop b)
    rwa [List.take_append_drop] at this
  have hbls : lastLineStart (src.take b) ≤ b := by
    have := lastLineStart_le (src.take b); simp at this; omega
  -- end side
  have hls_e : lineStart src (Str.count '\n' (src.take e)) = lastLineStart (src.take e) := by
    have := lineStart_prefix (src.take e) (src.drop e)
    rwa [List.take_append_drop] at this
  have hcount : Str.count '\n' (src.take e) = Str.count '\n' (src.take b) + Str.count '\n' (slice src b e) := by
    rw [take_eq_take_append_slice src hbe, count_append]
  -- the end line start, as the model computes it
  have hels : endLineStart src (lastLineStart (src.take b)) e = lastLineStart (src.take e) := by
    have hsplit : slice src (lastLineStart (src.take b)) e = slice src (lastLineStart (src.take b)) b ++ slice src b e :=
      slice_split src hbls hbe
    have hmid : rfindChar '\n' (slice src (lastLineStart (src.take b)) b) = none := by
      unfold slice; exact rfindChar_drop_lastLineStart _
    have hmidlen : (slice src (lastLineStart (src.take b)) b).length = b - lastLineStart (src.take b) := slice_length src hb
    have hlen_b : (src.take b).length = b := by simp; omega
    unfold endLineStart
    rw [hsplit, rfindChar_append]
    conv => rhs; unfold lastLineStart; rw [take_eq_take_append_slice src hbe, rfindChar_append]
    cases hq : rfindChar '\n' (slice src b e) with
    | some i => simp only [hmidlen, hlen_b]; omega
    | none => simp only [hmid]; rfl
  have helsle : lastLineStart (src.take e) ≤ e := by
    have := lastLineStart_le (src.take e); simp at this; omega
  simp only [mkMap, slice_zero, hels]
  refine ⟨by omega, by omega, by omega, by omega, ?_, ?_⟩
  · have h1 : ((Str.count '\n' (src.take b) : Nat) : Int).toNat = Str.count '\n' (src.take b) := by simp
    have h2 : ((b : Int) - (lastLineStart (src.take b) : Nat)).toNat = b - lastLineStart (src.take b) := by omega
    rw [h1, h2, hls_b]; omega
  · have h1 : ((Str.count '\n' (src.take b) : Int) + (Str.count '\n' (slice src b e) : Nat)).toNat = Str.count '\n' (src.take e) := by
      rw [hcount]; omega
    have h2 : ((e : Int) - (lastLineStart (src.take e) : Nat)).toNat = e - lastLineStart (src.take e) := by omega
    rw [h1, h2, hls_e]; omega

/-! ### INDENT / DEDENT accounting of `_rebuild` -/

def countType (ty : Nat) (ts : List Token) : Nat := (ts.filter (fun t => t.type = ty)).length

/-- ghost: the sizes of the indentation increases `_rebuild` sees (in nest units), in order -/
def jumps : Ctx → Nat → List Token → List Nat
  | _, _, [] => []
  | c, k + 1, _ :: ts => jumps c k ts
  | c, 0, t :: ts =>
    if t.domain = Dom.whiteSpace then
      match handleWhiteSpace c t with
      | .ok (adv, c', _) => (if c.nest < c'.nest then [c'.nest - c.nest] else []) ++ jumps c' (adv - 1) ts
      | .error _ => []
    else if t.domain = Dom.symbol then jumps (handleSymbol c t) 0 ts
    else jumps c 0 ts

/-- ghost: the nest depth still open when `_rebuild` reaches the end of the list (0 after an EOF outside brackets) -/
def finalNest : Ctx → Nat → List Token → Nat
  | c, _, [] => c.nest
  | c, k + 1, _ :: ts => finalNest c k ts
  | c, 0, t :: ts =>
    if t.domain = Dom.whiteSpace then
      match handleWhiteSpace c t with
      | .ok (adv, c', _) => finalNest c' (adv - 1) ts
      | .error _ => c.nest
    else if t.domain = Dom.symbol then finalNest (handleSymbol c t) 0 ts
    else finalNest c 0 ts

theorem countType_append (ty : Nat) (a b : List Token) : countType ty (a ++ b) = countType ty a + countType ty b := by
  simp [countType, List.filter_append]

theorem countType_cons (ty : Nat) (t : Token) (ts : List Token) :
    countType ty (t :: ts) = (if t.type = ty then 1 else 0) + countType ty ts := by
  unfold countType
  simp only [List.filter_cons]
  by_cases h : t.type = ty
  · simp [h]; omega
  · simp [h]

theorem countType_replicate (ty : Nat) (n : Nat) (t : Token) :
    countType ty (List.replicate n t) = if t.type = ty then n else 0 := by
  induction n with
  | zero => simp [countType]
  | succ n ih =>
    rw [List.replicate_succ, countType_cons, ih]
    split <;> omega

theorem countType_nil (ty : Nat) : countType ty [] = 0 := rfl

theorem toNewLine_type {t nl : Token} (h : t.toNewLine = .ok nl) : nl.type = T.newLine := by
  unfold Token.toNewLine at h; split at h
  · injection h with h; subst h; rfl
  · cases h
theorem toIndent_type {t x : Token} (h : t.toIndent = .ok x) : x.type = T.indent := by
  unfold Token.toIndent at h; split at h
  · injection h with h; subst h; rfl
  · cases h
theorem toDedent_type {t x : Token} (h : t.toDedent = .ok x) : x.type = T.dedent := by
  unfold Token.toDedent at h; split at h
  · injection h with h; subst h; rfl
  · cases h

theorem toNest_nest (c : Ctx) (n : Nat) : (c.toNest n).1.nest = c.nest := by
  unfold Ctx.toNest
  split
  · rfl
  · split <;> rfl

/-- what one white-space-domain token contributes: one INDENT iff the nest grows, `old - new` DEDENTs -/
theorem handleWhiteSpace_counts {c c' : Ctx} {t : Token} {adv : Nat} {out : List Token}
    (h : handleWhiteSpace c t = .ok (adv, c', out)) :
    countType T.indent out = (if c.nest < c'.nest then 1 else 0) ∧ countType T.dedent out = c.nest - c'.nest := by
  unfold handleWhiteSpace at h
  split at h
  · injection h with h; injection h with _ h; injection h with h1 h2; subst h1 h2
    simp [countType]
  · split at h
    · injection h with h; injection h with _ h; injection h with h1 h2; subst h1 h2
      simp [countType]
    · split at h
      · cases hd : t.toDedent with
        | error er => rw [hd] at h; cases h
        | ok dd =>
          cases hn : t.toNewLine with
          | error er => rw [hd, hn] at h; cases h
          | ok nl =>
            rw [hd, hn] at h
            simp only [bind, Except.bind, pure, Except.pure] at h
            injection h with h; injection h with _ h; injection h with h1 h2; subst h1 h2
            have e1 := toNewLine_type hn
            have e2 := toDedent_type hd
            simp only [countType_cons, countType_replicate, e1, e2]
            simp [T.newLine, T.indent, T.dedent]
      · split at h
        · cases h
        · simp only [] at h
          have hnest := toNest_nest c (lastLineLen t.string)
          generalize c.toNest (lastLineLen t.string) = r at h hnest
          obtain ⟨c1, next⟩ := r
          simp only [] at h hnest
          split at h
          · rename_i hlt
            cases hn : t.toNewLine with
            | error er => rw [hn] at h; cases h
            | ok nl =>
              cases hi : t.toIndent with
              | error er => rw [hn, hi] at h; cases h
              | ok ind =>
                rw [hn, hi] at h
                simp only [bind, Except.bind, pure, Except.pure] at h
                injection h with h; injection h with _ h; injection h with h1 h2; subst h1 h2
                have e1 := toNewLine_type hn
                have e2 := toIndent_type hi
                simp only [countType_cons, countType_nil, e1, e2]
                simp [T.newLine, T.indent, T.dedent]
                omega
          · split at h
            · rename_i hgt
              cases hd : t.toDedent with
              | error er => rw [hd] at h; cases h
              | ok dd =>
                cases hn : t.toNewLine with
                | error er => rw [hd, hn] at h; cases h
                | ok nl =>
                  rw [hd, hn] at h
                  simp only [bind, Except.bind, pure, Except.pure] at h
                  injection h with h; injection h with _ h; injection h with h1 h2; subst h1 h2
                  have e1 := toNewLine_type hn
                  have e2 := toDedent_type hd
                  simp only [countType_cons, countType_replicate, e1, e2]
                  simp [T.newLine, T.indent, T.dedent]
                  omega
            · cases hn : t.toNewLine with
              | error er => rw [hn] at h; cases h
              | ok nl =>
                rw [hn] at h
                simp only [bind, Except.bind, pure, Except.pure] at h
                injection h with h; injection h with _ h; injection h with h1 h2; subst h1 h2
                have e1 := toNewLine_type hn
                simp only [countType_cons, countType_nil, e1]
                simp [T.newLine, T.indent, T.dedent]
                omega

theorem domain_of_indent {t : Token} (h : t.type = T.indent) : t.domain = Dom.whiteSpace := by
  simp [Token.domain, h, T.indent, Dom.whiteSpace, Dom.max]
theorem domain_of_dedent {t : Token} (h : t.type = T.dedent) : t.domain = Dom.whiteSpace := by
  simp [Token.domain, h, T.dedent, Dom.whiteSpace, Dom.max]

/-- the accounting invariant of the `_rebuild` loop, from any context -/
theorem rebuildLoop_counts : ∀ (toks : List Token) (c : Ctx) (k : Nat) (out : List Token),
    rebuildLoop c k toks = .ok out →
    countType T.indent out = (jumps c k toks).length ∧
    countType T.dedent out + finalNest c k toks = c.nest + (jumps c k toks).sum
  | [], c, k, out, h => by
    unfold rebuildLoop at h
    injection h with h; subst h
    simp [countType, jumps, finalNest]
  | t :: ts, c, k + 1, out, h => by
    unfold rebuildLoop at h
    have := rebuildLoop_counts ts c k out h
    simpa [jumps, finalNest] using this
  | t :: ts, c, 0, out, h => by
    unfold rebuildLoop at h
    unfold jumps finalNest
    split at h
    · rename_i hws
      simp only [hws, ↓reduceIte]
      cases hh : handleWhiteSpace c t with
      | error er => rw [hh] at h; cases h
      | ok r =>
        obtain ⟨adv, c', o⟩ := r
        rw [hh] at h
        simp only [bind, Except.bind] at h
        split at h
        · cases h
        · cases hr : rebuildLoop c' (adv - 1) ts with
          | error er => rw [hr] at h; cases h
          | ok rest =>
            rw [hr] at h
            simp only [pure, Except.pure] at h
            injection h with h; subst h
            obtain ⟨i1, i2⟩ := rebuildLoop_counts ts c' (adv - 1) rest hr
            obtain ⟨w1, w2⟩ := handleWhiteSpace_counts hh
            simp only [countType_append, w1, w2, i1]
            by_cases hlt : c.nest < c'.nest
            · rw [if_pos hlt, if_pos hlt]
              simp only [List.length_append, List.length_cons, List.length_nil, List.sum_append, List.sum_cons, List.sum_nil]
              refine ⟨?_, ?_⟩ <;> (try trivial) <;> omega
            · rw [if_neg hlt, if_neg hlt]
              simp only [List.nil_append]
              refine ⟨?_, ?_⟩ <;> (try trivial) <;> omega
    · rename_i hws
      simp only [hws, ↓reduceIte]
      have hni : t.type ≠ T.indent := fun e => hws (domain_of_indent e)
      have hnd : t.type ≠ T.dedent := fun e => hws (domain_of_dedent e)
      split at h
      · rename_i hsym
        simp only [hsym, ↓reduceIte]
        cases hr : rebuildLoop (handleSymbol c t) 0 ts with
        | error er => rw [hr] at h; cases h
        | ok rest =>
          rw [hr] at h
          simp only [bind, Except.bind, pure, Except.pure] at h
          injection h with h; subst h
          obtain ⟨i1, i2⟩ := rebuildLoop_counts ts (handleSymbol c t) 0 rest hr
          have hn : (handleSymbol c t).nest = c.nest := by
            unfold handleSymbol; split
            · rfl
            · split <;> rfl
          simp only [countType_cons, hni, hnd, ↓reduceIte, Nat.zero_add, i1]
          refine ⟨?_, ?_⟩ <;> (try trivial) <;> omega
      · rename_i hsym
        simp only [hsym, ↓reduceIte]
        cases hr : rebuildLoop c 0 ts with
        | error er => rw [hr] at h; cases h
        | ok rest =>
          rw [hr] at h
          simp only [bind, Except.bind, pure, Except.pure] at h
          injection h with h; subst h
          obtain ⟨i1, i2⟩ := rebuildLoop_counts ts c 0 rest hr
          simp only [countType_cons, hni, hnd, ↓reduceIte, Nat.zero_add, i1]
          refine ⟨?_, ?_⟩ <;> (try trivial) <;> omega

/-- every recorded jump is a genuine increase -/
theorem jumps_pos : ∀ (toks : List Token) (c : Ctx) (k : Nat), ∀ j ∈ jumps c k toks, 1 ≤ j
  | [], c, k => by simp [jumps]
  | t :: ts, c, k + 1 => by simpa [jumps] using jumps_pos ts c k
  | t :: ts, c, 0 => by
    unfold jumps
    split
    · cases hh : handleWhiteSpace c t with
      | error er => simp
      | ok r =>
        obtain ⟨adv, c', o⟩ := r
        simp only []
        intro j hj
        simp only [List.mem_append] at hj
        cases hj with
        | inl hj =>
          split at hj
          · simp at hj; omega
          · simp at hj
        | inr hj => exact jumps_pos ts c' (adv - 1) j hj
    · split
      · exact jumps_pos ts _ 0
      · exact jumps_pos ts _ 0

theorem sum_eq_length_iff : ∀ (l : List Nat), (∀ j ∈ l, 1 ≤ j) → (l.sum = l.length ↔ ∀ j ∈ l, j = 1)
  | [], _ => by simp
  | x :: xs, h => by
    have hx : 1 ≤ x := h x (by simp)
    have hxs : ∀ j ∈ xs, 1 ≤ j := fun j hj => h j (by simp [hj])
    have ih := sum_eq_length_iff xs hxs
    have hge : xs.length ≤ xs.sum := by
      clear ih h
      induction xs with
      | nil => simp
      | cons y ys ihy =>
        have := hxs y (by simp)
        have := ihy (fun j hj => hxs j (by simp [hj]))
        simp; omega
    simp only [List.sum_cons, List.length_cons, List.mem_cons, forall_eq_or_imp]
    constructor
    · intro he
      have : x = 1 ∧ xs.sum = xs.length := by omega
      exact ⟨this.1, ih.mp this.2⟩
    · intro ⟨h1, h2⟩
      have := ih.mpr h2
      omega

/-! ### width invariance of `_rebuild` -/

/-- `Token.simplify` (token.py:160-162) -/
def simplify (t : Token) : Nat × Str := (t.type, t.string)

/-- `t'` is `t` with a line break's last-line width rescaled from a multiple of `u` to the same multiple of `u'`
    (every other token keeps type and string; source maps are free) -/
def Rescaled (u u' : Nat) (t t' : Token) : Prop :=
  t.type = t'.type ∧
  (if t.type = T.lineBreak then ∃ m, lastLineLen t.string = m * u ∧ lastLineLen t'.string = m * u' else t.string = t'.string)

/-- contexts that agree up to the same rescaling of the detected indentation unit -/
def CtxRel (u u' : Nat) (c c' : Ctx) : Prop :=
  c.nest = c'.nest ∧ c.enclosure = c'.enclosure ∧
  ((c.unit = none ∧ c'.unit = none) ∨ ∃ k, 0 < k ∧ c.unit = some (k * u) ∧ c'.unit = some (k * u'))

theorem toNest_rel {u u' : Nat} (hu : 0 < u) (hu' : 0 < u') {c c' : Ctx} (hc : CtxRel u u' c c') (m : Nat) :
    (c.toNest (m * u)).2 = (c'.toNest (m * u')).2 ∧ CtxRel u u' (c.toNest (m * u)).1 (c'.toNest (m * u')).1 := by
  obtain ⟨h1, h2, h3⟩ := hc
  unfold Ctx.toNest
  by_cases hm : m = 0
  · subst hm; simp; exact ⟨h1, h2, h3⟩
  · have hm0 : 0 < m := Nat.pos_of_ne_zero hm
    have e1 : ¬ m * u = 0 := by
      intro h; cases Nat.mul_eq_zero.mp h <;> omega
    have e2 : ¬ m * u' = 0 := by
      intro h; cases Nat.mul_eq_zero.mp h <;> omega
    simp only [e1, e2, ↓reduceIte]
    cases h3 with
    | inl h3 =>
      rw [h3.1, h3.2]
      simp only []
      refine ⟨?_, h1, h2, Or.inr ⟨m, hm0, rfl, rfl⟩⟩
      rw [Nat.div_self (Nat.pos_of_ne_zero e1), Nat.div_self (Nat.pos_of_ne_zero e2)]
    | inr h3 =>
      obtain ⟨k, hk, hk1, hk2⟩ := h3
      rw [hk1, hk2]
      simp only []
      refine ⟨?_, h1, h2, Or.inr ⟨k, hk, hk1, hk2⟩⟩
      rw [Nat.mul_div_mul_right _ _ hu, Nat.mul_div_mul_right _ _ hu']

theorem domain_ws_of_type {t : Token} (h : t.type = T.eof ∨ t.type = T.lineBreak) : t.domain = Dom.whiteSpace := by
  cases h with
  | inl h => simp [Token.domain, h, T.eof, Dom.whiteSpace, Dom.max]
  | inr h => simp [Token.domain, h, T.lineBreak, Dom.whiteSpace, Dom.max]

/-- `handle_white_space` on rescaled tokens in related contexts: same error, or same advance, related contexts and the
    same output up to source maps -/
theorem hws_rel {u u' : Nat} (hu : 0 < u) (hu' : 0 < u') {c c' : Ctx} {t t' : Token}
    (hc : CtxRel u u' c c') (ht : Rescaled u u' t t') :
    (∃ e, handleWhiteSpace c t = .error e ∧ handleWhiteSpace c' t' = .error e) ∨
    (∃ a c1 c1' o o', handleWhiteSpace c t = .ok (a, c1, o) ∧ handleWhiteSpace c' t' = .ok (a, c1', o') ∧
      CtxRel u u' c1 c1' ∧ o.map simplify = o'.map simplify) := by
  obtain ⟨hty, hstr⟩ := ht
  have hc' := hc
  obtain ⟨h1, h2, h3⟩ := hc
  unfold handleWhiteSpace
  rw [← hty]
  by_cases he : c.enclosure > 0
  · have he' : c'.enclosure > 0 := h2 ▸ he
    simp only [he, he', ↓reduceIte]
    exact Or.inr ⟨1, c, c', [], [], rfl, rfl, hc', rfl⟩
  · have he' : ¬ c'.enclosure > 0 := h2 ▸ he
    simp only [he, he', ↓reduceIte]
    by_cases hws : t.type = T.whiteSpace
    · simp only [hws, ↓reduceIte]
      exact Or.inr ⟨1, c, c', [], [], rfl, rfl, hc', rfl⟩
    · simp only [hws, ↓reduceIte]
      by_cases heof : t.type = T.eof
      · have hd := domain_ws_of_type (Or.inl heof)
        have hd' : t'.domain = Dom.whiteSpace := domain_ws_of_type (Or.inl (hty ▸ heof))
        have hne : t.type ≠ T.lineBreak := by rw [heof]; simp [T.eof, T.lineBreak]
        simp only [hne, ↓reduceIte] at hstr
        simp only [heof, ↓reduceIte, Token.toDedent, Token.toNewLine, hd, hd', bind, Except.bind, pure, Except.pure]
        rw [← hstr]
        exact Or.inr ⟨_, _, _, _, _, rfl, rfl, ⟨rfl, h2, h3⟩, by simp [simplify, h1]⟩
      · simp only [heof, ↓reduceIte]
        by_cases hlb : t.type = T.lineBreak
        · have hd := domain_ws_of_type (Or.inr hlb)
          have hd' : t'.domain = Dom.whiteSpace := domain_ws_of_type (Or.inr (hty ▸ hlb))
          simp only [hlb, ↓reduceIte] at hstr
          obtain ⟨m, hm1, hm2⟩ := hstr
          obtain ⟨hn, hr⟩ := toNest_rel hu hu' hc' m
          have n1 := toNest_nest c (m * u)
          have n2 := toNest_nest c' (m * u')
          simp only [hlb, ne_eq, not_true_eq_false, ↓reduceIte, hm1, hm2]
          generalize c.toNest (m * u) = r at hn hr n1
          generalize c'.toNest (m * u') = r' at hn hr n2
          obtain ⟨c1, next⟩ := r
          obtain ⟨c1', next'⟩ := r'
          simp only [] at hn hr n1 n2
          subst hn
          have hnn : c1.nest = c1'.nest := by omega
          obtain ⟨_, r2, r3⟩ := hr
          simp only [Token.toDedent, Token.toNewLine, Token.toIndent, hd, hd', ↓reduceIte, bind, Except.bind, pure, Except.pure]
          rw [← hnn]
          by_cases hlt : c1.nest < next
          · simp only [hlt, ↓reduceIte]
            exact Or.inr ⟨_, _, _, _, _, rfl, rfl, ⟨rfl, r2, r3⟩, by simp [simplify]⟩
          · simp only [hlt, ↓reduceIte]
            by_cases hgt : c1.nest > next
            · simp only [hgt, ↓reduceIte]
              exact Or.inr ⟨_, _, _, _, _, rfl, rfl, ⟨rfl, r2, r3⟩, by simp [simplify]⟩
            · simp only [hgt, ↓reduceIte]
              exact Or.inr ⟨_, _, _, _, _, rfl, rfl, ⟨hnn, r2, r3⟩, by simp [simplify]⟩
        · simp only [hlb, ne_eq, not_false_eq_true, ↓reduceIte]
          exact Or.inl ⟨_, rfl, rfl⟩

theorem handleSymbol_rel {u u' : Nat} {c c' : Ctx} {t t' : Token} (hc : CtxRel u u' c c') (hty : t.type = t'.type) :
    CtxRel u u' (handleSymbol c t) (handleSymbol c' t') := by
  obtain ⟨h1, h2, h3⟩ := hc
  unfold handleSymbol
  rw [← hty]
  split
  · exact ⟨h1, by simp [h2], h3⟩
  · split
    · exact ⟨h1, by simp [h2], h3⟩
    · exact ⟨h1, h2, h3⟩

/-- two lists related element by element -/
inductive AllRel {α : Type} (R : α → α → Prop) : List α → List α → Prop
  | nil : AllRel R [] []
  | cons {a b : α} {as bs : List α} : R a b → AllRel R as bs → AllRel R (a :: as) (b :: bs)

/-- the `_rebuild` loop on rescaled token lists, from related contexts -/
theorem rebuildLoop_rel {u u' : Nat} (hu : 0 < u) (hu' : 0 < u') {ts ts' : List Token} (hall : AllRel (Rescaled u u') ts ts') :
    ∀ (c c' : Ctx) (k : Nat), CtxRel u u' c c' →
    (rebuildLoop c k ts).map (List.map simplify) = (rebuildLoop c' k ts').map (List.map simplify) := by
  induction hall with
  | nil => intro c c' k _; simp [rebuildLoop]
  | @cons t t' ts ts' ht hrest ihall =>
      intro c c' k hc
      cases k with
      | succ k =>
        unfold rebuildLoop
        exact ihall c c' k hc
      | zero =>
        have hty := ht.1
        have hdom : t.domain = t'.domain := by simp [Token.domain, hty]
        unfold rebuildLoop
        rw [← hdom]
        by_cases hws : t.domain = Dom.whiteSpace
        · simp only [hws, ↓reduceIte]
          cases hws_rel hu hu' hc ht with
          | inl h =>
            obtain ⟨e, e1, e2⟩ := h
            simp [e1, e2, bind, Except.bind, Except.map]
          | inr h =>
            obtain ⟨a, c1, c1', o, o', e1, e2, hc1, ho⟩ := h
            simp only [e1, e2, bind, Except.bind]
            by_cases ha : a = 0
            · simp [ha, Except.map]
            · simp only [ha, ↓reduceIte]
              have ih := ihall c1 c1' (a - 1) hc1
              cases r1 : rebuildLoop c1 (a - 1) ts <;> cases r2 : rebuildLoop c1' (a - 1) ts' <;>
                simp [r1, r2, Except.map, pure, Except.pure] at ih ⊢
              · exact ih
              · simp [ho, ih]
        · simp only [hws, ↓reduceIte]
          have hsimp : simplify t = simplify t' := by
            have : t.type ≠ T.lineBreak := by
              intro e; exact hws (domain_ws_of_type (Or.inr e))
            have hs := ht.2
            simp only [this, ↓reduceIte] at hs
            simp [simplify, hty, hs]
          by_cases hsym : t.domain = Dom.symbol
          · simp only [hsym, ↓reduceIte]
            have ih := ihall _ _ 0 (handleSymbol_rel hc hty)
            cases r1 : rebuildLoop (handleSymbol c t) 0 ts <;> cases r2 : rebuildLoop (handleSymbol c' t') 0 ts' <;>
              simp [r1, r2, Except.map, bind, Except.bind, pure, Except.pure] at ih ⊢
            · exact ih
            · simp [hsimp, ih]
          · simp only [hsym, ↓reduceIte]
            have ih := ihall c c' 0 hc
            cases r1 : rebuildLoop c 0 ts <;> cases r2 : rebuildLoop c' 0 ts' <;>
              simp [r1, r2, Except.map, bind, Except.bind, pure, Except.pure] at ih ⊢
            · exact ih
            · simp [hsimp, ih]

/-! ### `post_filter` on a single logical line (no line break tokens) -/

theorem isLB_false_of_ne {t : Token} (h : t.type ≠ T.lineBreak) : isLB (some t) = false := by
  simp [isLB, h]

/-- a pass leaves a list without tokens of its type alone -/
theorem filterPass_id (ty : Nat) (f : Filter) : ∀ (right left : List Token), (∀ t ∈ right, t.type ≠ ty) →
    filterPass ty f left right = left.reverse ++ right
  | [], left, _ => by simp [filterPass]
  | cur :: right, left, h => by
    have hc : cur.type ≠ ty := h cur (by simp)
    have hr : ∀ t ∈ right, t.type ≠ ty := fun t ht => h t (by simp [ht])
    unfold filterPass
    simp only [hc, ne_eq, not_false_eq_true, decide_true, Bool.true_or, ↓reduceIte]
    rw [filterPass_id ty f right (cur :: left) hr]
    simp

/-- an unconditional (`'*'`) pass on a list without line breaks just deletes the tokens of its type -/
theorem filterPass_all_noLB (ty : Nat) : ∀ (right left : List Token),
    (∀ t ∈ left, t.type ≠ T.lineBreak) → (∀ t ∈ right, t.type ≠ T.lineBreak) →
    filterPass ty .all left right = left.reverse ++ right.filter (fun t => t.type ≠ ty)
  | [], left, _, _ => by simp [filterPass]
  | cur :: right, left, hl, hr => by
    have hcur : cur.type ≠ T.lineBreak := hr cur (by simp)
    have hr' : ∀ t ∈ right, t.type ≠ T.lineBreak := fun t ht => hr t (by simp [ht])
    unfold filterPass
    by_cases hc : cur.type = ty
    · simp only [hc, ne_eq, not_true_eq_false, decide_false, toEmpty, Bool.not_true, Bool.or_self, Bool.false_eq_true, ↓reduceIte]
      have ih := filterPass_all_noLB ty right left hl hr'
      cases left with
      | nil =>
        cases right with
        | nil => simp [hc]
        | cons r rs =>
          have hrr : r.type ≠ T.lineBreak := hr' r (by simp)
          simp only [isLB_false_of_ne hrr, Bool.false_eq_true, ↓reduceIte]
          rw [ih]; simp [hc]
      | cons l ls =>
        have hll : l.type ≠ T.lineBreak := hl l (by simp)
        cases right with
        | nil => simp [isLB_false_of_ne hll, hc]
        | cons r rs =>
          simp only [isLB_false_of_ne hll, Bool.false_and, Bool.false_eq_true, ↓reduceIte]
          rw [ih]; simp [hc]
    · simp only [hc, ne_eq, not_false_eq_true, decide_true, Bool.true_or, ↓reduceIte]
      have hl' : ∀ t ∈ cur :: left, t.type ≠ T.lineBreak := by
        intro t ht; simp only [List.mem_cons] at ht
        cases ht with
        | inl h => rw [h]; exact hcur
        | inr h => exact hl t h
      rw [filterPass_all_noLB ty right (cur :: left) hl' hr']
      simp [hc]

/-- the post filter list `TokenDefinition` ships: drop comments, drop white space, the line-continuation regex, first/last line break -/
def ShippedFilters (d : TokenDef) : Prop :=
  ∃ r, d.postFilters = [(T.comment, .all), (T.whiteSpace, .all), (T.lineBreak, .regex r), (T.lineBreak, .beginOrEnd)]

/-- the significant part of a raw token list: everything but comments and white space -/
def significant (ts : List Token) : List Token := ts.filter (fun t => t.type ≠ T.comment && t.type ≠ T.whiteSpace)

theorem postFilter_noLB {d : TokenDef} (hd : ShippedFilters d) {ts : List Token} (h : ∀ t ∈ ts, t.type ≠ T.lineBreak) :
    postFilter d ts = significant ts := by
  obtain ⟨r, hr⟩ := hd
  unfold postFilter significant
  rw [hr]
  simp only [List.foldl]
  rw [filterPass_all_noLB T.comment ts [] (by simp) h]
  have h1 : ∀ t ∈ ([] : List Token).reverse ++ ts.filter (fun t => t.type ≠ T.comment), t.type ≠ T.lineBreak := by
    intro t ht; simp at ht; exact h t ht.1
  rw [filterPass_all_noLB T.whiteSpace _ [] (by simp) h1]
  have h2 : ∀ t ∈ ([] : List Token).reverse ++ (([] : List Token).reverse ++ ts.filter (fun t => t.type ≠ T.comment)).filter (fun t => t.type ≠ T.whiteSpace),
      t.type ≠ T.lineBreak := by
    intro t ht; simp at ht; exact h t ht.1
  rw [filterPass_id T.lineBreak _ _ [] h2]
  have h3 : ∀ t ∈ ([] : List Token).reverse ++ (([] : List Token).reverse ++ (([] : List Token).reverse ++ ts.filter (fun t => t.type ≠ T.comment)).filter (fun t => t.type ≠ T.whiteSpace)),
      t.type ≠ T.lineBreak := by
    intro t ht; simp at ht; exact h t ht.1
  rw [filterPass_id T.lineBreak _ _ [] h3]
  simp [List.filter_filter, Bool.and_comm]

/-! ### totality over the definition's alphabet -/

/-- a character some analyzer accepts on its own: a member of an alphabet or a one-character opener -/
def alphaChar (d : TokenDef) (c : Char) : Bool :=
  d.whiteSpace.contains c || d.number.contains c || d.identifier.contains c || d.symbol.contains c ||
  d.quote.any (fun p => p.1 == [c]) || d.comment.any (fun p => p.1 == [c])

/-- side conditions for totality: the analyse order lists exactly known domains and all six of them; every type value the
    symbol parser can compute exists in `TokenTypes` -/
def wfTotal (d : TokenDef) : Bool :=
  d.analyzeOrder.all (fun x => x ≤ 5) &&
  [Dom.whiteSpace, Dom.comment, Dom.quote, Dom.number, Dom.identifier, Dom.symbol].all (fun x => d.analyzeOrder.contains x) &&
  (List.range d.combinedSymbols.length).all (fun off => d.typeValues.contains (T.beginCombine + off)) &&
  (List.range d.symbol.length).all (fun off => d.typeValues.contains (Dom.symbol * 16 + off))

theorem charIn_eq {a s : Str} {b : Nat} {c : Char} (h : s[b]? = some c) : charIn a s b = .ok (a.contains c) := by
  unfold charIn charAt; rw [h]; rfl

theorem analyzer_noerr {d : TokenDef} {src : Str} {b : Nat} {c : Char} (hc : src[b]? = some c) {dom : Nat} (hd : dom ≤ 5) :
    ∃ r, analyzer d dom src b = .ok r := by
  unfold analyzer
  simp only [charIn_eq hc, Dom.whiteSpace, Dom.comment, Dom.quote, Dom.number, Dom.identifier, Dom.symbol]
  repeat' split
  all_goals first | exact ⟨_, rfl⟩ | omega

theorem analyzeGo_total {d : TokenDef} {src : Str} {b : Nat} : ∀ (order : List Nat),
    (∀ x ∈ order, ∃ r, analyzer d x src b = .ok r) → (∃ x ∈ order, analyzer d x src b = .ok true) →
    ∃ dom, analyzeGo d src b order = .ok dom
  | [], _, h => by obtain ⟨x, hx, _⟩ := h; simp at hx
  | x :: rest, hall, hex => by
    unfold analyzeGo
    obtain ⟨r, hr⟩ := hall x (by simp)
    rw [hr]
    simp only [bind, Except.bind]
    cases r with
    | true => exact ⟨x, rfl⟩
    | false =>
      simp only [Bool.false_eq_true, ↓reduceIte]
      apply analyzeGo_total rest (fun y hy => hall y (by simp [hy]))
      obtain ⟨y, hy, hy2⟩ := hex
      simp only [List.mem_cons] at hy
      cases hy with
      | inl h => subst h; rw [hr] at hy2; cases hy2
      | inr h => exact ⟨y, h, hy2⟩

theorem startsWithAt_single {src : Str} {b : Nat} {c : Char} (hc : src[b]? = some c) : startsWithAt src [c] b = true := by
  have hb := getElem?_lt hc
  unfold startsWithAt
  rw [drop_eq_cons_of_getElem? hc]
  simp [Str.startsWith]; omega

theorem analyzeDomain_total {d : TokenDef} (hw : wfTotal d = true) {src : Str} {b : Nat} {c : Char}
    (hc : src[b]? = some c) (ha : alphaChar d c = true) : ∃ dom, analyzeDomain d src b = .ok dom := by
  simp only [wfTotal, Bool.and_eq_true, List.all_eq_true, decide_eq_true_eq] at hw
  obtain ⟨⟨⟨h1, h2⟩, _⟩, _⟩ := hw
  unfold analyzeDomain
  apply analyzeGo_total
  · intro x hx; exact analyzer_noerr hc (h1 x hx)
  · have mem : ∀ x ∈ [Dom.whiteSpace, Dom.comment, Dom.quote, Dom.number, Dom.identifier, Dom.symbol], x ∈ d.analyzeOrder := by
      intro x hx; have := h2 x hx; simpa using this
    simp only [alphaChar, Bool.or_eq_true] at ha
    rcases ha with ((((h | h) | h) | h) | h) | h
    · exact ⟨Dom.whiteSpace, mem _ (by simp), by simp [analyzer, charIn_eq hc]; simpa using h⟩
    · exact ⟨Dom.number, mem _ (by simp), by simp [analyzer, charIn_eq hc, Dom.number, Dom.whiteSpace, Dom.comment, Dom.quote]; simpa using h⟩
    · exact ⟨Dom.identifier, mem _ (by simp), by simp [analyzer, charIn_eq hc, Dom.number, Dom.whiteSpace, Dom.comment, Dom.quote, Dom.identifier]; simpa using h⟩
    · exact ⟨Dom.symbol, mem _ (by simp), by simp [analyzer, charIn_eq hc, Dom.number, Dom.whiteSpace, Dom.comment, Dom.quote, Dom.identifier, Dom.symbol]; simpa using h⟩
    · refine ⟨Dom.quote, mem _ (by simp), ?_⟩
      simp only [List.any_eq_true, beq_iff_eq] at h
      obtain ⟨p, hp, hp1⟩ := h
      have : anyOpen d.quote src b = true := by
        simp only [anyOpen, List.any_eq_true]; exact ⟨p, hp, by rw [hp1]; exact startsWithAt_single hc⟩
      simp [analyzer, this, Dom.whiteSpace, Dom.comment, Dom.quote]
    · refine ⟨Dom.comment, mem _ (by simp), ?_⟩
      simp only [List.any_eq_true, beq_iff_eq] at h
      obtain ⟨p, hp, hp1⟩ := h
      have : anyOpen d.comment src b = true := by
        simp only [anyOpen, List.any_eq_true]; exact ⟨p, hp, by rw [hp1]; exact startsWithAt_single hc⟩
      simp [analyzer, this, Dom.whiteSpace, Dom.comment]

theorem firstOpen_of_any {pairs : List (Str × Str)} {src : Str} {b : Nat} (h : anyOpen pairs src b = true) :
    ∃ p, firstOpen pairs src b = .ok p := by
  unfold firstOpen
  cases hf : pairs.find? (fun p => startsWithAt src p.1 b) with
  | some p => exact ⟨p, rfl⟩
  | none =>
    simp only [anyOpen, List.any_eq_true] at h
    obtain ⟨p, hp, hp1⟩ := h
    have := List.find?_eq_none.mp hf p hp
    simp [hp1] at this

theorem indexOf?_lt {α : Type} [DecidableEq α] (x : α) : ∀ (l : List α) (i : Nat), indexOf? x l = some i → i < l.length
  | [], i, h => by simp [indexOf?] at h
  | y :: ys, i, h => by
    simp only [indexOf?] at h
    split at h
    · injection h with h; subst h; simp
    · cases hr : indexOf? x ys with
      | none => simp [hr] at h
      | some j => simp [hr] at h; subst h; have := indexOf?_lt x ys j hr; simp; omega

theorem indexOf?_of_mem {α : Type} [DecidableEq α] (x : α) : ∀ (l : List α), x ∈ l → ∃ i, indexOf? x l = some i
  | [], h => by simp at h
  | y :: ys, h => by
    simp only [indexOf?]
    by_cases hy : y = x
    · exact ⟨0, by simp [hy]⟩
    · simp only [hy, ↓reduceIte]
      have : x ∈ ys := by
        simp only [List.mem_cons] at h
        cases h with
        | inl h => exact absurd h.symm hy
        | inr h => exact h
      obtain ⟨i, hi⟩ := indexOf?_of_mem x ys this
      exact ⟨i + 1, by simp [hi]⟩

theorem typeOf_total {d : TokenDef} {n : Nat} (h : d.typeValues.contains n = true) : typeOf d n = .ok n := by
  have h' : n ∈ d.typeValues := by simpa using h
  simp [typeOf, h']

theorem combined_total {d : TokenDef} (hw : wfTotal d = true) (src : Str) (b w : Nat) : ∃ r, combined d src b w = .ok r := by
  simp only [wfTotal, Bool.and_eq_true, List.all_eq_true, decide_eq_true_eq] at hw
  obtain ⟨⟨_, h3⟩, _⟩ := hw
  unfold combined
  simp only []
  split
  · exact ⟨_, rfl⟩
  · split
    · exact ⟨_, rfl⟩
    · rename_i off hoff
      have hlt := indexOf?_lt _ _ _ hoff
      have := h3 off (by simpa using hlt)
      rw [typeOf_total this]
      exact ⟨_, rfl⟩

/-- under the side conditions the dispatched sub-parser succeeds at every position whose character is in the alphabet -/
theorem parser_total {d : TokenDef} (hw : wf d = true) (hwt : wfTotal d = true) {src : Str} {b dom : Nat}
    (hd : analyzeDomain d src b = .ok dom) : ∃ r, parser d dom src b = .ok r := by
  have ha := analyzeGo_sound _ _ hd
  unfold analyzer at ha
  unfold parser
  split
  · unfold parseWhiteSpace; simp only []; repeat' split
    all_goals exact ⟨_, rfl⟩
  · rename_i h0
    simp only [h0, ↓reduceIte] at ha
    split
    · rename_i h1
      simp only [h1, ↓reduceIte] at ha
      injection ha with ha
      obtain ⟨p, hp⟩ := firstOpen_of_any ha
      unfold parseComment
      rw [hp]
      simp only [bind, Except.bind]
      split <;> exact ⟨_, rfl⟩
    · rename_i h1
      simp only [h1, ↓reduceIte] at ha
      split
      · rename_i h2
        simp only [h2, ↓reduceIte] at ha
        injection ha with ha
        obtain ⟨p, hp⟩ := firstOpen_of_any ha
        obtain ⟨hmem, hs⟩ := firstOpen_ok hp
        have hlen := wf_quote hw hmem
        have hbound := startsWithAt_bound hs
        obtain ⟨e', hq, q1, q2⟩ := quoteLoop_ok (src := src) hlen.2 (b + p.1.length) src.length (b + p.1.length) hbound (by omega)
        unfold parseQuote
        rw [hp]
        simp only [bind, Except.bind, hq]
        have hne : (slice src b e').length = e' - b := slice_length src q2
        split
        · rename_i hv; rw [hv] at hne; simp at hne; omega
        · exact ⟨_, rfl⟩
      · split
        · exact ⟨_, rfl⟩
        · split
          · exact ⟨_, rfl⟩
          · rename_i h2 h3 h4
            simp only [h2, h3, h4, ↓reduceIte] at ha
            split
            · rename_i h5
              simp only [h5, ↓reduceIte] at ha
              obtain ⟨c, hc, hin⟩ := charIn_ok ha
              obtain ⟨r3, hr3⟩ := combined_total hwt src b 3
              obtain ⟨r2, hr2⟩ := combined_total hwt src b 2
              unfold parseSymbol
              rw [hr3]
              simp only [bind, Except.bind]
              cases r3 with
              | some r => exact ⟨_, rfl⟩
              | none =>
                simp only [hr2]
                cases r2 with
                | some r => exact ⟨_, rfl⟩
                | none =>
                  have hcat : charAt src b = .ok c := by unfold charAt; rw [hc]
                  simp only [hcat]
                  have hmem : c ∈ d.symbol := by simpa using hin
                  obtain ⟨off, hoff⟩ := indexOf?_of_mem c d.symbol hmem
                  have hofflt := indexOf?_lt _ _ _ hoff
                  simp only [wfTotal, Bool.and_eq_true, List.all_eq_true, decide_eq_true_eq] at hwt
                  have hty := typeOf_total (hwt.2 off (by simpa using hofflt))
                  simp only [hoff, hty]
                  split
                  · split
                    · rename_i hnext
                      have hget : src[b + 1]? = some (src[b + 1]'hnext) := List.getElem?_eq_getElem hnext
                      rw [charIn_eq hget]
                      simp only []
                      split <;> exact ⟨_, rfl⟩
                    · exact ⟨_, rfl⟩
                  · exact ⟨_, rfl⟩
            · rename_i h5
              simp only [h5, ↓reduceIte] at ha
              cases ha

/-- the main loop accepts every source over the alphabet -/
theorem parseLoop_total {d : TokenDef} (hw : wf d = true) (hwt : wfTotal d = true) {src : Str}
    (halpha : ∀ c ∈ src, alphaChar d c = true) :
    ∀ (fuel i : Nat), src.length - i ≤ fuel → ∃ toks, parseLoop d src fuel i = .ok toks
  | fuel, i, hf => by
    unfold parseLoop
    split
    · rename_i hlt
      cases fuel with
      | zero => omega
      | succ f =>
        simp only []
        have hget : src[i]? = some (src[i]'hlt) := List.getElem?_eq_getElem hlt
        have hal := halpha _ (List.getElem_mem hlt)
        obtain ⟨dom, hd⟩ := analyzeDomain_total hwt hget hal
        obtain ⟨r, hr⟩ := parser_total hw hwt hd
        obtain ⟨e, t⟩ := r
        have hs := parser_ok hw hlt hd hr
        obtain ⟨rest, hrest⟩ := parseLoop_total hw hwt halpha f e (by have := hs.lt; omega)
        simp only [hd, hr, hrest, bind, Except.bind, pure, Except.pure]
        exact ⟨_, rfl⟩
    · exact ⟨[], rfl⟩

/-! ### shape of raw token lists (for the statement of `layout_tokens`) -/

def isSpaceTok (t : Token) : Bool := t.type = T.whiteSpace || t.type = T.lineBreak

/-- a raw token as the lexer makes it: not one of the synthetic kinds, and white space holds white space only -/
def rawTokOK (d : TokenDef) (t : Token) : Bool :=
  !(t.type = T.eof || t.type = T.newLine || t.type = T.indent || t.type = T.dedent) &&
  (!isSpaceTok t || (!t.string.isEmpty && t.string.all (fun c => d.whiteSpace.contains c)))

/-- the shape maximal munch gives a raw token list: two white-space-domain tokens are never adjacent and a comment is
    followed by a line break or by nothing -/
def lexShaped (d : TokenDef) : List Token → Bool
  | [] => true
  | [t] => rawTokOK d t
  | a :: b :: rest =>
    rawTokOK d a && !(isSpaceTok a && isSpaceTok b) && (a.type != T.comment || b.type == T.lineBreak) && lexShaped d (b :: rest)

theorem Rescaled.of_eq {u u' : Nat} {t t' : Token} (hne : t.type ≠ T.lineBreak) (hty : t.type = t'.type)
    (hs : t.string = t'.string) : Rescaled u u' t t' := by
  refine ⟨hty, ?_⟩; simp [hne, hs]

theorem Rescaled.lb {u u' : Nat} {t t' : Token} (m : Nat) (h1 : t.type = T.lineBreak) (h2 : t'.type = T.lineBreak)
    (w1 : lastLineLen t.string = m * u) (w2 : lastLineLen t'.string = m * u') : Rescaled u u' t t' := by
  refine ⟨by rw [h1, h2], ?_⟩; simp only [h1, ↓reduceIte]; exact ⟨m, w1, w2⟩

theorem CtxRel.init (u u' : Nat) : CtxRel u u' Ctx.init Ctx.init := ⟨rfl, rfl, Or.inl ⟨rfl, rfl⟩⟩

/-! ### closed form of `post_filter` (across line breaks) -/

def isLBt (t : Token) : Bool := t.type = T.lineBreak

theorem isLB_some (t : Token) : isLB (some t) = isLBt t := rfl

theorem joined_type (a b : Token) : (a.joined b).type = a.type := rfl

theorem joined_isLBt (a b : Token) : isLBt (a.joined b) = isLBt a := rfl

theorem joined_assoc (p a b : Token) : (p.joined a).joined b = p.joined (a.joined b) := by
  simp [Token.joined, List.append_assoc]

/-- collapse every run of consecutive line breaks into one (left-associated `joined`), `pend` = the run in progress -/
def mergeGo : Option Token → List Token → List Token
  | none, [] => []
  | some p, [] => [p]
  | none, t :: ts => if isLBt t then mergeGo (some t) ts else t :: mergeGo none ts
  | some p, t :: ts => if isLBt t then mergeGo (some (p.joined t)) ts else p :: t :: mergeGo none ts

def mergeLB (ts : List Token) : List Token := mergeGo none ts

def dropLeadLB : List Token → List Token
  | [] => []
  | t :: ts => if isLBt t then ts else t :: ts

def dropTrailLB : List Token → List Token
  | [] => []
  | [t] => if isLBt t then [] else [t]
  | t :: u :: r => t :: dropTrailLB (u :: r)

def trimLB (ts : List Token) : List Token := dropTrailLB (dropLeadLB ts)

/-- what `post_filter` computes on well-shaped raw token lists: the significant tokens, runs of line breaks merged, no
    line break first or last -/
def norm (ts : List Token) : List Token := trimLB (mergeLB (significant ts))

theorem dropTrailLB_cons_of_not {t : Token} (h : isLBt t = false) (z : List Token) :
    dropTrailLB (t :: z) = t :: dropTrailLB z := by
  cases z with
  | nil => simp [dropTrailLB, h]
  | cons u r => rfl

theorem trim_comm : ∀ x : List Token, dropLeadLB (dropTrailLB x) = dropTrailLB (dropLeadLB x)
  | [] => rfl
  | [t] => by cases h : isLBt t <;> simp [dropTrailLB, dropLeadLB, h]
  | t :: u :: r => by
    cases h : isLBt t
    · simp only [dropTrailLB, dropLeadLB, h, Bool.false_eq_true, ↓reduceIte]
    · simp [dropTrailLB, dropLeadLB, h]

/-- a pending run contributes one line break at the front, whatever it is -/
theorem dropLead_mergeGo_some : ∀ (y : List Token) (p q : Token), isLBt p = true → isLBt q = true →
    dropLeadLB (mergeGo (some p) y) = dropLeadLB (mergeGo (some q) y)
  | [], p, q, hp, hq => by simp [mergeGo, dropLeadLB, hp, hq]
  | t :: ts, p, q, hp, hq => by
    cases h : isLBt t
    · simp [mergeGo, h, dropLeadLB, hp, hq]
    · simp only [mergeGo, h, ↓reduceIte]
      exact dropLead_mergeGo_some ts _ _ (by rw [joined_isLBt]; exact hp) (by rw [joined_isLBt]; exact hq)

theorem dropLead_mergeGo : ∀ (y : List Token) (p : Token), isLBt p = true →
    dropLeadLB (mergeGo (some p) y) = dropLeadLB (mergeGo none y)
  | [], p, hp => by simp [mergeGo, dropLeadLB, hp]
  | t :: ts, p, hp => by
    cases h : isLBt t
    · simp [mergeGo, h, dropLeadLB, hp]
    · simp only [mergeGo, h, ↓reduceIte]
      exact dropLead_mergeGo_some ts _ _ (by rw [joined_isLBt]; exact hp) h

/-- M1: a line break in front of everything does not matter -/
theorem norm_lead (r : Token) (hr : isLBt r = true) (y : List Token) : trimLB (mergeLB (r :: y)) = trimLB (mergeLB y) := by
  unfold trimLB mergeLB
  simp only [mergeGo, hr, ↓reduceIte]
  rw [dropLead_mergeGo y r hr]

def pendOK : Option Token → Prop
  | none => True
  | some p => isLBt p = true

/-- M2: a line break behind everything does not matter -/
theorem dropTrail_mergeGo_snoc (l : Token) (hl : isLBt l = true) : ∀ (y : List Token) (pend : Option Token), pendOK pend →
    dropTrailLB (mergeGo pend (y ++ [l])) = dropTrailLB (mergeGo pend y)
  | [], none, _ => by simp [mergeGo, hl, dropTrailLB]
  | [], some p, hp => by
    have : isLBt (p.joined l) = true := by rw [joined_isLBt]; exact hp
    simp [mergeGo, hl, dropTrailLB, this, show isLBt p = true from hp]
  | t :: ts, none, _ => by
    cases h : isLBt t
    · simp only [List.cons_append, mergeGo, h, Bool.false_eq_true, ↓reduceIte]
      rw [dropTrailLB_cons_of_not h, dropTrailLB_cons_of_not h, dropTrail_mergeGo_snoc l hl ts none trivial]
    · simp only [List.cons_append, mergeGo, h, ↓reduceIte]
      exact dropTrail_mergeGo_snoc l hl ts (some t) h
  | t :: ts, some p, hp => by
    cases h : isLBt t
    · simp only [List.cons_append, mergeGo, h, Bool.false_eq_true, ↓reduceIte]
      simp only [dropTrailLB]
      rw [dropTrailLB_cons_of_not h, dropTrailLB_cons_of_not h, dropTrail_mergeGo_snoc l hl ts none trivial]
    · simp only [List.cons_append, mergeGo, h, ↓reduceIte]
      exact dropTrail_mergeGo_snoc l hl ts (some (p.joined t)) (by show isLBt (p.joined t) = true; rw [joined_isLBt]; exact hp)

theorem norm_trail (l : Token) (hl : isLBt l = true) (y : List Token) : trimLB (mergeLB (y ++ [l])) = trimLB (mergeLB y) := by
  unfold trimLB mergeLB
  rw [← trim_comm, ← trim_comm, dropTrail_mergeGo_snoc l hl y none trivial]

/-- M3: two adjacent line breaks may be joined beforehand -/
theorem mergeGo_join (a b : Token) (ha : isLBt a = true) (hb : isLBt b = true) (q : List Token) :
    ∀ (p : List Token) (pend : Option Token), mergeGo pend (p ++ a :: b :: q) = mergeGo pend (p ++ a.joined b :: q)
  | [], none => by simp [mergeGo, ha, hb, joined_isLBt]
  | [], some x => by simp [mergeGo, ha, hb, joined_isLBt, joined_assoc]
  | t :: ts, none => by
    cases h : isLBt t <;> simp [mergeGo, h, mergeGo_join a b ha hb q ts]
  | t :: ts, some x => by
    cases h : isLBt t <;> simp [mergeGo, h, mergeGo_join a b ha hb q ts]

theorem significant_append (a b : List Token) : significant (a ++ b) = significant a ++ significant b := by
  simp [significant]

theorem significant_cons_drop {t : Token} (h : t.type = T.comment ∨ t.type = T.whiteSpace) (ts : List Token) :
    significant (t :: ts) = significant ts := by
  cases h with
  | inl h => simp [significant, h]
  | inr h => simp [significant, h, T.whiteSpace, T.comment]

theorem significant_cons_keep {t : Token} (h : isLBt t = true) (ts : List Token) :
    significant (t :: ts) = t :: significant ts := by
  have : t.type = T.lineBreak := by simpa [isLBt] using h
  simp [significant, this, T.lineBreak, T.comment, T.whiteSpace]

/-- An unconditional pass over comments (or over white space) never changes `norm` of the list it works on — for every
    token list and every zipper state. -/
theorem pass_norm (ty : Nat) (hty : ty = T.comment ∨ ty = T.whiteSpace) : ∀ (rest left : List Token),
    norm (filterPass ty .all left rest) = norm (left.reverse ++ rest)
  | [], left => by simp [filterPass]
  | cur :: right, left => by
    unfold filterPass
    by_cases hc : cur.type = ty
    · have hdrop : cur.type = T.comment ∨ cur.type = T.whiteSpace := by rw [hc]; exact hty
      simp only [hc, ne_eq, not_true_eq_false, decide_false, toEmpty, Bool.not_true, Bool.or_self, Bool.false_eq_true, ↓reduceIte]
      have hsig : ∀ (a b : List Token), significant (a ++ cur :: b) = significant (a ++ b) := by
        intro a b; rw [significant_append, significant_cons_drop hdrop, ← significant_append]
      cases left with
      | nil =>
        cases right with
        | nil => simp [norm, significant_cons_drop hdrop]
        | cons r rs =>
          simp only [isLB_some]
          by_cases hr : isLBt r = true
          rotate_left
          · simp only [hr, Bool.false_eq_true, ↓reduceIte]
            rw [pass_norm ty hty (r :: rs) []]
            simp only [List.reverse_nil, List.nil_append]
            unfold norm; rw [significant_cons_drop hdrop]
          · simp only [hr, ↓reduceIte]
            rw [pass_norm ty hty rs []]
            simp only [List.reverse_nil, List.nil_append]
            unfold norm
            rw [significant_cons_drop hdrop, significant_cons_keep hr, norm_lead r hr]
      | cons l ls =>
        cases right with
        | nil =>
          simp only [isLB_some]
          by_cases hl : isLBt l = true
          rotate_left
          · simp only [hl, Bool.false_eq_true, ↓reduceIte]
            unfold norm; rw [hsig]; simp
          · simp only [hl, ↓reduceIte]
            unfold norm
            rw [hsig]
            simp only [List.reverse_cons, List.append_nil, significant_append]
            rw [show significant [l] = [l] from by rw [significant_cons_keep hl]; rfl, norm_trail l hl]
        | cons r rs =>
          simp only [isLB_some]
          by_cases hlr : (isLBt l && isLBt r) = true
          · simp only [hlr, ↓reduceIte]
            have hl : isLBt l = true := by simp at hlr; exact hlr.1
            have hr : isLBt r = true := by simp at hlr; exact hlr.2
            rw [pass_norm ty hty rs (l.joined r :: ls)]
            unfold norm
            rw [hsig]
            simp only [List.reverse_cons, List.append_assoc, List.singleton_append, significant_append]
            rw [significant_cons_keep hl, significant_cons_keep hr,
              significant_cons_keep (show isLBt (l.joined r) = true from by rw [joined_isLBt]; exact hl)]
            unfold mergeLB
            rw [mergeGo_join l r hl hr]
          · simp only [hlr, Bool.false_eq_true, ↓reduceIte]
            rw [pass_norm ty hty (r :: rs) (l :: ls)]
            unfold norm; rw [hsig]
    · simp only [hc, ne_eq, not_false_eq_true, decide_true, Bool.true_or, ↓reduceIte]
      rw [pass_norm ty hty right (cur :: left)]
      simp

/-! ### shape invariants of the passes -/

set_option linter.unusedSimpArgs false

def headLB : List Token → Bool
  | [] => false
  | t :: _ => isLBt t

/-- no two adjacent line break tokens -/
def noAdj : List Token → Bool
  | [] => true
  | t :: ts => !(isLBt t && headLB ts) && noAdj ts

theorem headLB_nil : headLB [] = false := rfl
theorem headLB_cons (t : Token) (ts : List Token) : headLB (t :: ts) = isLBt t := rfl
theorem noAdj_nil : noAdj [] = true := rfl
theorem noAdj_cons (t : Token) (ts : List Token) : noAdj (t :: ts) = (!(isLBt t && headLB ts) && noAdj ts) := rfl

theorem noAdj_reverseAux : ∀ (l r : List Token),
    noAdj (List.reverseAux l r) = (noAdj l && noAdj r && !(headLB l && headLB r))
  | [], r => by simp [List.reverseAux, noAdj_nil, headLB_nil]
  | t :: ts, r => by
    rw [List.reverseAux, noAdj_reverseAux ts (t :: r)]
    have e1 : headLB (t :: r) = isLBt t := rfl
    have e2 : noAdj (t :: r) = (!(isLBt t && headLB r) && noAdj r) := rfl
    have e3 : noAdj (t :: ts) = (!(isLBt t && headLB ts) && noAdj ts) := rfl
    have e4 : headLB (t :: ts) = isLBt t := rfl
    rw [e1, e2, e3, e4]
    generalize isLBt t = a; generalize headLB ts = b; generalize headLB r = c
    generalize noAdj ts = x; generalize noAdj r = y
    cases a <;> cases b <;> cases c <;> cases x <;> cases y <;> rfl

theorem noAdj_reverse (l : List Token) (h : noAdj l = true) : noAdj l.reverse = true := by
  show noAdj (List.reverseAux l []) = true
  rw [noAdj_reverseAux l []]
  simp [h, noAdj_nil, headLB_nil]

/-- the zipper invariant: no adjacent line breaks on either side nor across the cursor -/
def zipOK (l r : List Token) : Bool := noAdj l && noAdj r && !(headLB l && headLB r)

/-- an unconditional pass over a type other than LineBreak keeps "no two adjacent line breaks" -/
theorem pass_noAdj (ty : Nat) (hty : ty ≠ T.lineBreak) : ∀ (rest left : List Token), zipOK left rest = true →
    noAdj (filterPass ty .all left rest) = true
  | [], left, h => by
    simp only [zipOK, Bool.and_eq_true] at h
    simp only [filterPass]; exact noAdj_reverse left h.1.1
  | cur :: right, left, h => by
    unfold filterPass
    by_cases hc : cur.type = ty
    · have hcur : isLBt cur = false := by simp [isLBt, hc, hty]
      simp only [hc, ne_eq, not_true_eq_false, decide_false, toEmpty, Bool.not_true, Bool.or_self, Bool.false_eq_true, ↓reduceIte]
      simp only [zipOK, noAdj_cons, noAdj_nil, headLB_cons, headLB_nil, hcur, Bool.false_and, Bool.not_false, Bool.true_and, Bool.and_false, Bool.and_true, Bool.and_eq_true] at h
      cases left with
      | nil =>
        cases right with
        | nil => simp [noAdj_nil]
        | cons r rs =>
          simp only [isLB_some]
          simp only [noAdj_cons, noAdj_nil, Bool.and_eq_true] at h
          by_cases hr : isLBt r = true
          · simp only [hr, ↓reduceIte]
            exact pass_noAdj ty hty rs [] (by simp [zipOK, noAdj_cons, noAdj_nil, headLB_cons, headLB_nil, h.2.2])
          · simp only [hr, Bool.false_eq_true, ↓reduceIte]
            exact pass_noAdj ty hty (r :: rs) [] (by simp [zipOK, noAdj_cons, noAdj_nil, headLB_cons, headLB_nil, h.2.1, h.2.2])
      | cons l ls =>
        simp only [noAdj_cons, noAdj_nil, Bool.and_eq_true] at h
        cases right with
        | nil =>
          simp only [isLB_some]
          by_cases hl : isLBt l = true
          · simp only [hl, ↓reduceIte]; exact noAdj_reverse ls h.1.2
          · simp only [hl, Bool.false_eq_true, ↓reduceIte]
            exact noAdj_reverse (l :: ls) (by simp [noAdj_cons, h.1.1, h.1.2])
        | cons r rs =>
          simp only [isLB_some]
          simp only [noAdj_cons, noAdj_nil, Bool.and_eq_true] at h
          by_cases hlr : (isLBt l && isLBt r) = true
          · simp only [hlr, ↓reduceIte]
            have hl : isLBt l = true := by simp at hlr; exact hlr.1
            have hr : isLBt r = true := by simp at hlr; exact hlr.2
            apply pass_noAdj ty hty rs (l.joined r :: ls)
            have h1 := h.1.1; have h2 := h.2.1
            simp only [hl, hr, Bool.true_and, Bool.not_eq_true'] at h1 h2
            simp [zipOK, noAdj_cons, noAdj_nil, headLB_cons, headLB_nil, joined_isLBt, hl, h1, h2, h.1.2, h.2.2]
          · simp only [hlr, Bool.false_eq_true, ↓reduceIte]
            apply pass_noAdj ty hty (r :: rs) (l :: ls)
            simp only [Bool.not_eq_true] at hlr
            simp [zipOK, noAdj_cons, noAdj_nil, headLB_cons, headLB_nil, h.1.1, h.1.2, h.2.1, h.2.2, hlr]
    · simp only [hc, ne_eq, not_false_eq_true, decide_true, Bool.true_or, ↓reduceIte]
      apply pass_noAdj ty hty right (cur :: left)
      simp only [zipOK, noAdj_cons, noAdj_nil, headLB_cons, headLB_nil, Bool.and_eq_true] at h ⊢
      obtain ⟨⟨h1, h2, h3⟩, h4⟩ := h
      refine ⟨⟨⟨?_, h1⟩, h3⟩, h2⟩
      simpa [Bool.and_comm] using h4

/-- every token a pass returns satisfies `P`, when `P` holds for all input tokens and is closed under `joined` -/
theorem pass_all (ty : Nat) (f : Filter) (P : Token → Prop)
    (hj : ∀ a b, isLBt a = true → isLBt b = true → P a → P b → P (a.joined b)) :
    ∀ (rest left : List Token), (∀ t ∈ left, P t) → (∀ t ∈ rest, P t) → ∀ t ∈ filterPass ty f left rest, P t
  | [], left, hl, _ => by simpa [filterPass] using hl
  | cur :: right, left, hl, hr => by
    have hr' : ∀ t ∈ right, P t := fun t ht => hr t (by simp [ht])
    have hcur : P cur := hr cur (by simp)
    unfold filterPass
    split
    · apply pass_all ty f P hj right (cur :: left) _ hr'
      intro t ht
      simp only [List.mem_cons] at ht
      cases ht with
      | inl h => rw [h]; exact hcur
      | inr h => exact hl t h
    · cases left with
      | nil =>
        cases right with
        | nil => simp
        | cons r rs =>
          have hrs : ∀ t ∈ rs, P t := fun t ht => hr' t (by simp [ht])
          simp only []
          split
          · exact pass_all ty f P hj rs [] hl hrs
          · exact pass_all ty f P hj (r :: rs) [] hl hr'
      | cons l ls =>
        have hls : ∀ t ∈ ls, P t := fun t ht => hl t (by simp [ht])
        cases right with
        | nil =>
          simp only []
          split
          · intro t ht; exact hls t (List.mem_reverse.mp ht)
          · intro t ht; exact hl t (List.mem_reverse.mp ht)
        | cons r rs =>
          have hrs : ∀ t ∈ rs, P t := fun t ht => hr' t (by simp [ht])
          simp only []
          split
          · rename_i hlr
            simp only [isLB_some, Bool.and_eq_true] at hlr
            apply pass_all ty f P hj rs (l.joined r :: ls) _ hrs
            intro t ht
            simp only [List.mem_cons] at ht
            cases ht with
            | inl h => rw [h]; exact hj l r hlr.1 hlr.2 (hl l (by simp)) (hr' r (by simp))
            | inr h => exact hls t h
          · exact pass_all ty f P hj (r :: rs) (l :: ls) hl hr'

/-- an unconditional pass over a type other than LineBreak leaves no token of that type -/
theorem pass_removes (ty : Nat) (hty : ty ≠ T.lineBreak) : ∀ (rest left : List Token), (∀ t ∈ left, t.type ≠ ty) →
    ∀ t ∈ filterPass ty .all left rest, t.type ≠ ty
  | [], left, hl => by simpa [filterPass] using hl
  | cur :: right, left, hl => by
    unfold filterPass
    by_cases hc : cur.type = ty
    · simp only [hc, ne_eq, not_true_eq_false, decide_false, toEmpty, Bool.not_true, Bool.or_self, Bool.false_eq_true, ↓reduceIte]
      cases left with
      | nil =>
        cases right with
        | nil => simp
        | cons r rs =>
          simp only []
          split
          · exact pass_removes ty hty rs [] hl
          · exact pass_removes ty hty (r :: rs) [] hl
      | cons l ls =>
        have hls : ∀ t ∈ ls, t.type ≠ ty := fun t ht => hl t (by simp [ht])
        cases right with
        | nil =>
          simp only []
          split
          · intro t ht; exact hls t (List.mem_reverse.mp ht)
          · intro t ht; exact hl t (List.mem_reverse.mp ht)
        | cons r rs =>
          simp only []
          split
          · rename_i hlr
            apply pass_removes ty hty rs (l.joined r :: ls)
            intro t ht
            simp only [List.mem_cons] at ht
            cases ht with
            | inl h => rw [h, joined_type]; exact hl l (by simp)
            | inr h => exact hls t h
          · exact pass_removes ty hty (r :: rs) (l :: ls) hl
    · simp only [hc, ne_eq, not_false_eq_true, decide_true, Bool.true_or, ↓reduceIte]
      apply pass_removes ty hty right (cur :: left)
      intro t ht
      simp only [List.mem_cons] at ht
      cases ht with
      | inl h => rw [h]; exact hc
      | inr h => exact hl t h

/-! ### the regex pass and the first/last pass on well-shaped lists -/

theorem starLoop_none (m : Char → Bool) (k : Str → Option Str) (a : Str) (hk : ∀ s : Str, (∀ c ∈ s, c ∈ a) → k s = none) :
    ∀ s : Str, (∀ c ∈ s, c ∈ a) → starLoop m k s = none
  | [], hs => by simp [starLoop, hk [] hs]
  | c :: cs, hs => by
    have hcs : ∀ x ∈ cs, x ∈ a := fun x hx => hs x (by simp [hx])
    simp only [starLoop, starLoop_none m k a hk cs hcs, hk (c :: cs) hs]
    split <;> rfl

/-- a pattern with a mandatory item that matches no character of the alphabet `a` matches nowhere in strings over `a` -/
theorem matchItems_none (a : Str) : ∀ (items : List RItem), (∃ it ∈ items, it.q = .one ∧ ∀ c ∈ a, it.matches c = false) →
    ∀ s : Str, (∀ c ∈ s, c ∈ a) → matchItems items s = none
  | [], h, _, _ => by obtain ⟨it, hit, _⟩ := h; simp at hit
  | it0 :: rest, h, s, hs => by
    obtain ⟨it, hit, hq, hblind⟩ := h
    simp only [List.mem_cons] at hit
    cases hit with
    | inl h0 =>
      subst h0
      unfold matchItems
      rw [hq]
      cases s with
      | nil => rfl
      | cons c cs => simp [hblind c (hs c (by simp))]
    | inr hin =>
      have ih := matchItems_none a rest ⟨it, hin, hq, hblind⟩
      unfold matchItems
      cases hq0 : it0.q with
      | one =>
        cases s with
        | nil => rfl
        | cons c cs =>
          simp only []
          split
          · exact ih cs (fun x hx => hs x (by simp [hx]))
          · rfl
      | opt =>
        cases s with
        | nil => exact ih [] hs
        | cons c cs =>
          simp only []
          rw [ih cs (fun x hx => hs x (by simp [hx])), ih (c :: cs) hs]
          split <;> rfl
      | star => exact starLoop_none _ _ a ih s hs

theorem removeMatches_id (items : List RItem) (a : Str) (hm : ∀ s : Str, (∀ c ∈ s, c ∈ a) → matchItems items s = none) :
    ∀ (fuel : Nat) (s : Str), (∀ c ∈ s, c ∈ a) → removeMatches items fuel s = s
  | _, [], _ => by simp [removeMatches]
  | 0, c :: cs, _ => by simp [removeMatches]
  | f + 1, c :: cs, hs => by
    simp only [removeMatches, hm (c :: cs) hs]
    rw [removeMatches_id items a hm f cs (fun x hx => hs x (by simp [hx]))]

/-- a pass whose filter empties none of its tokens is the identity -/
theorem filterPass_noop (ty : Nat) (f : Filter) : ∀ (rest left : List Token),
    (∀ t ∈ rest, t.type = ty → ∀ b1 b2, toEmpty f t b1 b2 = false) → filterPass ty f left rest = left.reverse ++ rest
  | [], left, _ => by simp [filterPass]
  | cur :: right, left, h => by
    have hr : ∀ t ∈ right, t.type = ty → ∀ b1 b2, toEmpty f t b1 b2 = false := fun t ht => h t (by simp [ht])
    unfold filterPass
    by_cases hc : cur.type = ty
    · simp only [hc, ne_eq, not_true_eq_false, decide_false, h cur (by simp) hc, Bool.not_false, Bool.or_true, ↓reduceIte]
      rw [filterPass_noop ty f right (cur :: left) hr]; simp
    · simp only [hc, ne_eq, not_false_eq_true, decide_true, Bool.true_or, ↓reduceIte]
      rw [filterPass_noop ty f right (cur :: left) hr]; simp

/-- the raw-token condition the regex pass needs: a line break token is non-empty white space -/
def lbStrOK (d : TokenDef) (t : Token) : Prop := isLBt t = true → t.string ≠ [] ∧ ∀ c ∈ t.string, c ∈ d.whiteSpace

theorem lbStrOK_joined (d : TokenDef) (a b : Token) (ha : isLBt a = true) (hb : isLBt b = true)
    (pa : lbStrOK d a) (pb : lbStrOK d b) : lbStrOK d (a.joined b) := by
  intro _
  obtain ⟨a1, a2⟩ := pa ha
  obtain ⟨_, b2⟩ := pb hb
  refine ⟨by simp [Token.joined, a1], ?_⟩
  intro c hc
  simp only [Token.joined, List.mem_append] at hc
  cases hc with
  | inl h => exact a2 c h
  | inr h => exact b2 c h

/-- side condition on the definition: every regex post filter has a mandatory item that matches no white space character
    (the shipped `[ \t\f]*\[ \t\f]*\r?\n` needs a literal `[`), so it can never empty a lexer-made line break -/
def regexBlind (d : TokenDef) : Bool :=
  d.postFilters.all (fun pf => match pf.2 with
    | .regex items => items.any (fun it => it.q = .one && d.whiteSpace.all (fun c => !it.matches c))
    | _ => true)

theorem toEmpty_regex_false {d : TokenDef} {items : List RItem}
    (hb : items.any (fun it => it.q = .one && d.whiteSpace.all (fun c => !it.matches c)) = true)
    {t : Token} (ht : isLBt t = true) (hok : lbStrOK d t) (b1 b2 : Bool) : toEmpty (.regex items) t b1 b2 = false := by
  obtain ⟨h1, h2⟩ := hok ht
  simp only [List.any_eq_true, Bool.and_eq_true, decide_eq_true_eq, List.all_eq_true, Bool.not_eq_true'] at hb
  obtain ⟨it, hit, hq, hbl⟩ := hb
  have hm := matchItems_none d.whiteSpace items ⟨it, hit, hq, hbl⟩
  simp only [toEmpty]
  rw [removeMatches_id items d.whiteSpace hm _ _ h2]
  cases hs : t.string with
  | nil => exact absurd hs h1
  | cons c cs => rfl

/-- on a list without adjacent line breaks (and past its first element) the first/last pass only drops a trailing line break -/
theorem pass4_tail : ∀ (rest left : List Token), left ≠ [] → zipOK left rest = true →
    filterPass T.lineBreak .beginOrEnd left rest = left.reverse ++ dropTrailLB rest
  | [], left, _, _ => by simp [filterPass, dropTrailLB]
  | [cur], left, hne, hz => by
    unfold filterPass
    cases left with
    | nil => exact absurd rfl hne
    | cons l ls =>
      by_cases hc : isLBt cur = true
      · have hct : cur.type = T.lineBreak := by simpa [isLBt] using hc
        have hl : isLBt l = false := by
          simp only [zipOK, noAdj_cons, noAdj_nil, headLB_cons, headLB_nil, hc, Bool.and_eq_true] at hz
          simpa using hz.2
        simp [hct, toEmpty, isLB_some, hl, dropTrailLB, hc]
      · have hct : cur.type ≠ T.lineBreak := by simpa [isLBt] using hc
        simp [hct, filterPass, dropTrailLB, hc]
  | cur :: u :: r, left, hne, hz => by
    unfold filterPass
    cases left with
    | nil => exact absurd rfl hne
    | cons l ls =>
      have hstep : (decide (cur.type ≠ T.lineBreak) || !toEmpty .beginOrEnd cur (l :: ls).isEmpty (u :: r).isEmpty) = true := by
        simp [toEmpty]
      simp only [hstep, ↓reduceIte]
      rw [pass4_tail (u :: r) (cur :: l :: ls) (by simp)]
      · simp [dropTrailLB]
      · simp only [zipOK, noAdj_cons, headLB_cons, Bool.and_eq_true] at hz ⊢
        obtain ⟨⟨⟨h1, h2⟩, h3, h4⟩, h5⟩ := hz
        refine ⟨⟨⟨?_, h1, h2⟩, h4⟩, h3⟩
        simpa [Bool.and_comm] using h5

/-- … and from the start it is exactly `trimLB` -/
theorem pass4_trim : ∀ (x : List Token), noAdj x = true → filterPass T.lineBreak .beginOrEnd [] x = trimLB x
  | [], _ => by simp [filterPass, trimLB, dropLeadLB, dropTrailLB]
  | [t], _ => by
    unfold filterPass
    by_cases hc : isLBt t = true
    · have hct : t.type = T.lineBreak := by simpa [isLBt] using hc
      simp [hct, toEmpty, trimLB, dropLeadLB, dropTrailLB, hc]
    · have hct : t.type ≠ T.lineBreak := by simpa [isLBt] using hc
      simp [hct, filterPass, trimLB, dropLeadLB, dropTrailLB, hc]
  | t :: u :: r, h => by
    simp only [noAdj_cons, headLB_cons, Bool.and_eq_true] at h
    obtain ⟨h1, h2, h3⟩ := h
    unfold filterPass
    by_cases hc : isLBt t = true
    · have hct : t.type = T.lineBreak := by simpa [isLBt] using hc
      have hu : isLBt u = false := by simpa [hc] using h1
      have hut : u.type ≠ T.lineBreak := by simpa [isLBt] using hu
      simp only [hct, ne_eq, not_true_eq_false, decide_false, toEmpty, List.isEmpty_nil, Bool.true_or, Bool.not_true,
        Bool.or_self, Bool.false_eq_true, ↓reduceIte, isLB_some, hu]
      unfold filterPass
      simp only [hut, ne_eq, not_false_eq_true, decide_true, Bool.true_or, ↓reduceIte]
      rw [pass4_tail r [u] (by simp) (by simp [zipOK, noAdj_cons, noAdj_nil, headLB_cons, headLB_nil, h2, h3])]
      simp [trimLB, dropLeadLB, hc, dropTrailLB_cons_of_not hu]
    · have hct : t.type ≠ T.lineBreak := by simpa [isLBt] using hc
      have hc' : isLBt t = false := by simpa using hc
      simp only [hct, ne_eq, not_false_eq_true, decide_true, Bool.true_or, ↓reduceIte]
      rw [pass4_tail (u :: r) [t] (by simp) (by simp [zipOK, noAdj_cons, noAdj_nil, headLB_cons, headLB_nil, hc', h2, h3])]
      simp [trimLB, dropLeadLB, hc', dropTrailLB]

theorem significant_id : ∀ (x : List Token), (∀ t ∈ x, t.type ≠ T.comment) → (∀ t ∈ x, t.type ≠ T.whiteSpace) → significant x = x := by
  intro x h1 h2
  unfold significant
  apply List.filter_eq_self.mpr
  intro t ht
  simp [h1 t ht, h2 t ht]

theorem mergeGo_id : ∀ (x : List Token), noAdj x = true →
    mergeGo none x = x ∧ ∀ p, isLBt p = true → headLB x = false → mergeGo (some p) x = p :: x
  | [], _ => by simp [mergeGo]
  | t :: ts, h => by
    simp only [noAdj_cons, Bool.and_eq_true] at h
    obtain ⟨h1, h2⟩ := h
    obtain ⟨i1, i2⟩ := mergeGo_id ts h2
    constructor
    · by_cases ht : isLBt t = true
      · have : headLB ts = false := by simpa [ht] using h1
        simp [mergeGo, ht, i2 t ht this]
      · simp [mergeGo, ht, i1]
    · intro p hp hh
      have ht : isLBt t = false := by simpa [headLB_cons] using hh
      simp [mergeGo, ht, i1]

/-- the side conditions on a raw token list under which `post_filter` has its closed form: no two adjacent line break
    tokens, every line break token is non-empty white space (both hold for what the lexer produces) -/
def filterable (d : TokenDef) (ts : List Token) : Prop := noAdj ts = true ∧ ∀ t ∈ ts, lbStrOK d t

/-- `post_filter` in closed form: the significant tokens, line breaks separated only by comments merged, no line break
    first or last. -/
theorem postFilter_norm {d : TokenDef} (hd : ShippedFilters d) (hb : regexBlind d = true) {ts : List Token}
    (h : filterable d ts) : postFilter d ts = norm ts := by
  obtain ⟨r, hr⟩ := hd
  obtain ⟨hadj, hok⟩ := h
  have hbr : r.any (fun it => it.q = .one && d.whiteSpace.all (fun c => !it.matches c)) = true := by
    simp only [regexBlind, hr, List.all_cons, List.all_nil, Bool.and_true, Bool.true_and] at hb
    exact hb
  unfold postFilter
  rw [hr]
  simp only [List.foldl]
  -- pass 1 and pass 2
  let x1 := filterPass T.comment .all [] ts
  let x2 := filterPass T.whiteSpace .all [] x1
  have n1 : norm x1 = norm ts := by simpa using pass_norm T.comment (Or.inl rfl) ts []
  have n2 : norm x2 = norm x1 := by simpa using pass_norm T.whiteSpace (Or.inr rfl) x1 []
  have a1 : noAdj x1 = true := pass_noAdj T.comment (by decide) ts [] (by simp [zipOK, hadj, noAdj_nil, headLB_nil])
  have a2 : noAdj x2 = true := pass_noAdj T.whiteSpace (by decide) x1 [] (by simp [zipOK, a1, noAdj_nil, headLB_nil])
  have k1 : ∀ t ∈ x1, lbStrOK d t := pass_all _ _ (lbStrOK d) (lbStrOK_joined d) ts [] (by simp) hok
  have k2 : ∀ t ∈ x2, lbStrOK d t := pass_all _ _ (lbStrOK d) (lbStrOK_joined d) x1 [] (by simp) k1
  have c1 : ∀ t ∈ x1, t.type ≠ T.comment := pass_removes T.comment (by decide) ts [] (by simp)
  have c2 : ∀ t ∈ x2, t.type ≠ T.comment :=
    pass_all _ _ (fun t => t.type ≠ T.comment) (fun a b _ _ ha _ => by rw [joined_type]; exact ha) x1 [] (by simp) c1
  have w2 : ∀ t ∈ x2, t.type ≠ T.whiteSpace := pass_removes T.whiteSpace (by decide) x1 [] (by simp)
  -- pass 3 is the identity, pass 4 trims
  have p3 : filterPass T.lineBreak (.regex r) [] x2 = x2 := by
    rw [filterPass_noop]
    · simp
    · intro t ht hty b1 b2
      exact toEmpty_regex_false hbr (by simpa [isLBt] using hty) (k2 t ht) b1 b2
  show filterPass T.lineBreak .beginOrEnd [] (filterPass T.lineBreak (.regex r) [] x2) = norm ts
  rw [p3, pass4_trim x2 a2, ← n1, ← n2]
  unfold norm mergeLB
  rw [significant_id x2 c2 w2, (mergeGo_id x2 a2).1]

/-! ### line breaks up to their last-line width -/

/-- same token up to source map, where a line break only has to keep its last-line width -/
abbrev LBsame : Token → Token → Prop := Rescaled 1 1

theorem LBsame.refl (t : Token) : LBsame t t := by
  refine ⟨rfl, ?_⟩
  split
  · exact ⟨lastLineLen t.string, by simp, by simp⟩
  · rfl

theorem LBsame.lb {t t' : Token} (h1 : t.type = T.lineBreak) (h2 : t'.type = T.lineBreak)
    (w : lastLineLen t.string = lastLineLen t'.string) : LBsame t t' :=
  Rescaled.lb (lastLineLen t.string) h1 h2 (by simp) (by simp [w])

theorem LBsame.width {t t' : Token} (h : LBsame t t') (hl : isLBt t = true) : lastLineLen t.string = lastLineLen t'.string := by
  have hty : t.type = T.lineBreak := by simpa [isLBt] using hl
  obtain ⟨_, h2⟩ := h
  simp only [hty, ↓reduceIte] at h2
  obtain ⟨m, m1, m2⟩ := h2
  omega

theorem LBsame.lbt_eq {t t' : Token} (h : LBsame t t') : isLBt t = isLBt t' := by
  simp [isLBt, h.1]

theorem AllRel.refl {α : Type} {R : α → α → Prop} (hr : ∀ a, R a a) : ∀ l : List α, AllRel R l l
  | [] => .nil
  | a :: as => .cons (hr a) (AllRel.refl hr as)

theorem AllRel.append {α : Type} {R : α → α → Prop} {a a' b b' : List α} (h1 : AllRel R a a') (h2 : AllRel R b b') :
    AllRel R (a ++ b) (a' ++ b') := by
  induction h1 with
  | nil => exact h2
  | cons h _ ih => exact .cons h ih

theorem splitOn_ne_nil (d : Char) : ∀ s : Str, Str.splitOn d s ≠ []
  | [] => by simp [Str.splitOn]
  | c :: cs => by
    simp only [Str.splitOn]
    split
    · simp
    · split <;> simp

theorem splitOn_two (d : Char) : ∀ s : Str, d ∈ s → ∃ p q r, Str.splitOn d s = p :: q :: r
  | [], h => by simp at h
  | c :: cs, h => by
    simp only [Str.splitOn]
    by_cases hc : c = d
    · simp only [hc, ↓reduceIte]
      cases hs : Str.splitOn d cs with
      | nil => exact absurd hs (splitOn_ne_nil d cs)
      | cons q r => exact ⟨[], q, r, rfl⟩
    · simp only [hc, ↓reduceIte]
      have hin : d ∈ cs := by
        simp only [List.mem_cons] at h
        cases h with
        | inl h => exact absurd h.symm hc
        | inr h => exact h
      obtain ⟨p, q, r, hpqr⟩ := splitOn_two d cs hin
      rw [hpqr]
      exact ⟨c :: p, q, r, rfl⟩

def lastLine (s : Str) : Str := (Str.splitOn '\n' s).getLastD []

theorem lastLine_cons (c : Char) (s : Str) (h : '\n' ∈ s) : lastLine (c :: s) = lastLine s := by
  obtain ⟨p, q, r, hpqr⟩ := splitOn_two '\n' s h
  unfold lastLine
  simp only [Str.splitOn, hpqr]
  split <;> simp [List.getLastD]

theorem lastLine_append (x y : Str) (h : '\n' ∈ y) : lastLine (x ++ y) = lastLine y := by
  induction x with
  | nil => rfl
  | cons c cs ih =>
    rw [List.cons_append, lastLine_cons c _ (by simp [h]), ih]

theorem lastLineLen_append (x y : Str) (h : '\n' ∈ y) : lastLineLen (x ++ y) = lastLineLen y := by
  have := lastLine_append x y h
  unfold lastLine at this
  unfold lastLineLen
  rw [this]

/-- a line break token contains a newline (true of every lexer-made one) -/
def lbNL (t : Token) : Prop := isLBt t = true → '\n' ∈ t.string

theorem LBsame.joined {a a' b b' : Token} (ha : LBsame a a') (hb : LBsame b b') (hla : isLBt a = true) (hlb : isLBt b = true)
    (nb : lbNL b) (nb' : lbNL b') : LBsame (a.joined b) (a'.joined b') := by
  have ta : a.type = T.lineBreak := by simpa [isLBt] using hla
  have ta' : a'.type = T.lineBreak := by rw [← ha.1]; exact ta
  have hlb' : isLBt b' = true := by rw [← hb.lbt_eq]; exact hlb
  apply LBsame.lb (by rw [joined_type]; exact ta) (by rw [joined_type]; exact ta')
  simp only [Token.joined]
  rw [lastLineLen_append _ _ (nb hlb), lastLineLen_append _ _ (nb' hlb')]
  exact hb.width hlb

theorem lbNL_joined (a b : Token) (hb : isLBt b = true) (nb : lbNL b) : lbNL (a.joined b) := by
  intro _; simp [Token.joined, nb hb]

theorem significant_rel {ts ts' : List Token} (h : AllRel LBsame ts ts') : AllRel LBsame (significant ts) (significant ts') := by
  induction h with
  | nil => exact .nil
  | @cons a b as bs hab _ ih =>
    unfold significant at ih ⊢
    simp only [List.filter_cons, ← hab.1]
    split
    · exact .cons hab ih
    · exact ih

def pendRel : Option Token → Option Token → Prop
  | none, none => True
  | some p, some p' => LBsame p p' ∧ isLBt p = true ∧ lbNL p ∧ lbNL p'
  | _, _ => False

theorem mergeGo_rel {ts ts' : List Token} (h : AllRel LBsame ts ts') (n : ∀ t ∈ ts, lbNL t) (n' : ∀ t ∈ ts', lbNL t) :
    ∀ (pend pend' : Option Token), pendRel pend pend' → AllRel LBsame (mergeGo pend ts) (mergeGo pend' ts') := by
  induction h with
  | nil =>
    intro pend pend' hp
    cases pend <;> cases pend' <;> simp only [pendRel] at hp
    · exact .nil
    · exact .cons hp.1 .nil
  | @cons a b as bs hab _ ih =>
    have na : lbNL a := n a (by simp)
    have nb : lbNL b := n' b (by simp)
    have ih' := ih (fun t ht => n t (by simp [ht])) (fun t ht => n' t (by simp [ht]))
    intro pend pend' hp
    have hty := hab.lbt_eq
    cases pend <;> cases pend' <;> simp only [pendRel] at hp
    · simp only [mergeGo, ← hty]
      split
      · rename_i hl; exact ih' _ _ ⟨hab, hl, na, nb⟩
      · exact .cons hab (ih' none none trivial)
    · rename_i p p'
      simp only [mergeGo, ← hty]
      split
      · rename_i hl
        refine ih' _ _ ⟨LBsame.joined hp.1 hab hp.2.1 hl na nb, ?_, lbNL_joined p a hl na, lbNL_joined p' b (hty ▸ hl) nb⟩
        rw [joined_isLBt]; exact hp.2.1
      · exact .cons hp.1 (.cons hab (ih' none none trivial))

theorem dropLeadLB_rel {x x' : List Token} (h : AllRel LBsame x x') : AllRel LBsame (dropLeadLB x) (dropLeadLB x') := by
  cases h with
  | nil => exact .nil
  | cons hab hr =>
    simp only [dropLeadLB, ← hab.lbt_eq]
    split
    · exact hr
    · exact .cons hab hr

theorem dropTrailLB_rel {x x' : List Token} (h : AllRel LBsame x x') : AllRel LBsame (dropTrailLB x) (dropTrailLB x') := by
  induction h with
  | nil => exact .nil
  | @cons a b as bs hab hr ih =>
    cases hr with
    | nil =>
      simp only [dropTrailLB, ← hab.lbt_eq]
      split
      · exact .nil
      · exact .cons hab .nil
    | cons h2 hr2 =>
      simp only [dropTrailLB]
      exact .cons hab ih

/-- `norm` respects "same up to last-line widths" -/
theorem norm_rel {ts ts' : List Token} (h : AllRel LBsame ts ts') (n : ∀ t ∈ ts, lbNL t) (n' : ∀ t ∈ ts', lbNL t) :
    AllRel LBsame (norm ts) (norm ts') := by
  unfold norm trimLB mergeLB
  apply dropTrailLB_rel
  apply dropLeadLB_rel
  apply mergeGo_rel (significant_rel h) _ _ none none trivial
  · intro t ht; exact n t ((List.mem_filter.mp ht).1)
  · intro t ht; exact n' t ((List.mem_filter.mp ht).1)

theorem rebuild_LBsame {x x' : List Token} (h : AllRel LBsame x x') :
    (rebuild (x ++ [Token.mkEOF])).map (List.map simplify) = (rebuild (x' ++ [Token.mkEOF])).map (List.map simplify) :=
  rebuildLoop_rel (by decide) (by decide) (AllRel.append h (.cons (LBsame.refl _) .nil)) Ctx.init Ctx.init 0 (CtxRel.init 1 1)

theorem rawTokOK_lbStrOK {d : TokenDef} {t : Token} (h : rawTokOK d t = true) : lbStrOK d t := by
  intro hl
  have hs : isSpaceTok t = true := by
    have : t.type = T.lineBreak := by simpa [isLBt] using hl
    simp [isSpaceTok, this]
  simp only [rawTokOK, hs, Bool.not_true, Bool.false_or, Bool.and_eq_true, Bool.not_eq_true', List.all_eq_true] at h
  refine ⟨?_, ?_⟩
  · intro e; rw [e] at h; simp at h
  · intro c hc; simpa using h.2.2 c hc

/-- the lexer's shape implies the side conditions of the closed form -/
theorem lexShaped_filterable {d : TokenDef} : ∀ (ts : List Token), lexShaped d ts = true → filterable d ts
  | [], _ => ⟨rfl, by simp⟩
  | [t], h => by
    simp only [lexShaped] at h
    exact ⟨by simp [noAdj_cons, noAdj_nil, headLB_nil], by intro x hx; simp at hx; subst hx; exact rawTokOK_lbStrOK h⟩
  | a :: b :: rest, h => by
    simp only [lexShaped, Bool.and_eq_true] at h
    obtain ⟨⟨⟨h1, h2⟩, _⟩, h4⟩ := h
    obtain ⟨i1, i2⟩ := lexShaped_filterable (b :: rest) h4
    refine ⟨?_, ?_⟩
    · simp only [noAdj_cons, headLB_cons, Bool.and_eq_true] at i1 ⊢
      refine ⟨?_, i1⟩
      simp only [isSpaceTok, Bool.not_eq_true', Bool.and_eq_false_iff] at h2
      simp only [Bool.not_eq_true', Bool.and_eq_false_iff, isLBt]
      cases h2 with
      | inl h => left; simp at h ⊢; exact h.2
      | inr h => right; simp at h ⊢; exact h.2
    · intro x hx
      simp only [List.mem_cons] at hx
      cases hx with
      | inl h => subst h; exact rawTokOK_lbStrOK h1
      | inr h => exact i2 x (by simpa using h)

/-! ### suffix locality: lexing from an offset only looks at the rest of the source -/

theorem drop_shift (pre s : Str) (j : Nat) : (pre ++ s).drop (pre.length + j) = s.drop j := by
  rw [List.drop_append]; simp

theorem slice_shift (pre s : Str) (b e : Nat) : slice (pre ++ s) (pre.length + b) (pre.length + e) = slice s b e := by
  unfold slice
  rw [List.take_append, List.drop_append]
  simp

theorem getElem?_shift (pre s : Str) (j : Nat) : (pre ++ s)[pre.length + j]? = s[j]? := by
  rw [List.getElem?_append_right (by omega)]; simp

theorem charAt_shift (pre s : Str) (j : Nat) : charAt (pre ++ s) (pre.length + j) = charAt s j := by
  unfold charAt; rw [getElem?_shift]

theorem charIn_shift (a pre s : Str) (j : Nat) : charIn a (pre ++ s) (pre.length + j) = charIn a s j := by
  unfold charIn; rw [charAt_shift]

theorem startsWithAt_shift (pre s p : Str) (j : Nat) : startsWithAt (pre ++ s) p (pre.length + j) = startsWithAt s p j := by
  unfold startsWithAt
  rw [drop_shift]
  congr 1
  simp

theorem findFrom_shift (pre s p : Str) (j : Nat) : findFrom (pre ++ s) p (pre.length + j) = (findFrom s p j).map (pre.length + ·) := by
  unfold findFrom
  rw [drop_shift]
  by_cases h : j ≤ s.length
  · have : pre.length + j ≤ (pre ++ s).length := by simp; omega
    simp only [this, h, ↓reduceIte, Option.map_map]
    congr 1; funext x; simp; omega
  · simp [h]

theorem spanLen_shift (a pre s : Str) (j : Nat) : spanLen a (pre ++ s) (pre.length + j) = spanLen a s j := by
  unfold spanLen; rw [drop_shift]

theorem anyOpen_shift (pairs : List (Str × Str)) (pre s : Str) (j : Nat) :
    anyOpen pairs (pre ++ s) (pre.length + j) = anyOpen pairs s j := by
  unfold anyOpen; simp [startsWithAt_shift]

theorem firstOpen_shift (pairs : List (Str × Str)) (pre s : Str) (j : Nat) :
    firstOpen pairs (pre ++ s) (pre.length + j) = firstOpen pairs s j := by
  unfold firstOpen; simp [startsWithAt_shift]

theorem analyzeDomain_shift (d : TokenDef) (pre s : Str) (j : Nat) :
    analyzeDomain d (pre ++ s) (pre.length + j) = analyzeDomain d s j := by
  unfold analyzeDomain
  generalize d.analyzeOrder = order
  induction order with
  | nil => rfl
  | cons x rest ih =>
    unfold analyzeGo
    have : analyzer d x (pre ++ s) (pre.length + j) = analyzer d x s j := by
      unfold analyzer; simp [charIn_shift, anyOpen_shift]
    rw [this, ih]

/-- what a sub-parser result says up to the offset `n` and the source map -/
def viewR (n : Nat) (r : Except Err (Nat × Token)) : Except Err (Nat × Nat × Str) :=
  r.map (fun x => (x.1 - n, x.2.type, x.2.string))

theorem escapeRun_fuel (src : Str) (body index : Nat) : ∀ (f f' esc : Nat), index - body - esc ≤ f → index - body - esc ≤ f' →
    escapeRun src body index f esc = escapeRun src body index f' esc
  | 0, 0, _, _, _ => rfl
  | 0, f' + 1, esc, h, _ => by
    have : ¬ index - esc > body := by omega
    simp [escapeRun, this]
  | f + 1, 0, esc, _, h => by
    have : ¬ index - esc > body := by omega
    simp [escapeRun, this]
  | f + 1, f' + 1, esc, h, h' => by
    simp only [escapeRun]
    split
    · exact escapeRun_fuel src body index f f' (esc + 1) (by omega) (by omega)
    · rfl

theorem escapeRun_shift (pre s : Str) (body index : Nat) : ∀ (f esc : Nat),
    escapeRun (pre ++ s) (pre.length + body) (pre.length + index) f esc = escapeRun s body index f esc
  | 0, _ => rfl
  | f + 1, esc => by
    simp only [escapeRun]
    by_cases h : index - esc > body
    · have h' : pre.length + index - esc > pre.length + body := by omega
      have e : pre.length + index - esc - 1 = pre.length + (index - esc - 1) := by omega
      simp only [h, h', decide_true, Bool.true_and, e, getElem?_shift]
      split
      · exact escapeRun_shift pre s body index f (esc + 1)
      · rfl
    · have h' : ¬ pre.length + index - esc > pre.length + body := by omega
      simp [h, h']

theorem quoteLoop_shift (pre s close : Str) (body : Nat) : ∀ (fuel e : Nat),
    quoteLoop (pre ++ s) close (pre.length + body) fuel (pre.length + e) = (quoteLoop s close body fuel e).map (pre.length + ·)
  | fuel, e => by
    unfold quoteLoop
    have hlt : (pre.length + e < (pre ++ s).length) = (e < s.length) := by simp
    simp only [hlt]
    split
    · cases fuel with
      | zero => rfl
      | succ f =>
        simp only [findFrom_shift]
        cases hf : findFrom s close e with
        | none => rfl
        | some idx =>
          simp only [Option.map_some]
          have hb := findFrom_bound hf
          rw [escapeRun_fuel (pre ++ s) (pre.length + body) (pre.length + idx) (pre.length + idx + 1) (idx + 1) 0 (by omega) (by omega),
            escapeRun_shift]
          split
          · have := quoteLoop_shift pre s close body f (idx + 1)
            rw [← this, Nat.add_assoc]
          · simp [Except.map]; omega
    · rfl

theorem quoteLoop_fuel_indep {src close : Str} (hc : 0 < close.length) (body : Nat) : ∀ (fuel fuel' e : Nat),
    src.length - e ≤ fuel → src.length - e ≤ fuel' → quoteLoop src close body fuel e = quoteLoop src close body fuel' e
  | fuel, fuel', e, h, h' => by
    unfold quoteLoop
    split
    · rename_i hlt
      cases fuel with
      | zero => omega
      | succ f =>
        cases fuel' with
        | zero => omega
        | succ f' =>
          simp only []
          cases hf : findFrom src close e with
          | none => rfl
          | some idx =>
            have hb := findFrom_bound hf
            simp only []
            split
            · exact quoteLoop_fuel_indep hc body f f' (idx + 1) (by omega) (by omega)
            · rfl
    · rfl

variable (d : TokenDef) (pre s : Str) (j : Nat)

theorem parseWhiteSpace_shift :
    viewR pre.length (parseWhiteSpace d (pre ++ s) (pre.length + j)) = viewR 0 (parseWhiteSpace d s j) := by
  unfold parseWhiteSpace
  simp only [spanLen_shift, Nat.add_assoc, slice_shift]
  repeat' split
  all_goals (simp [viewR, Except.map] <;> try omega)

theorem parseNumber_shift :
    viewR pre.length (parseNumber d (pre ++ s) (pre.length + j)) = viewR 0 (parseNumber d s j) := by
  unfold parseNumber
  simp only [spanLen_shift, Nat.add_assoc, slice_shift]
  simp [viewR, Except.map]

theorem parseIdentifier_shift :
    viewR pre.length (parseIdentifier d (pre ++ s) (pre.length + j)) = viewR 0 (parseIdentifier d s j) := by
  unfold parseIdentifier
  simp only [spanLen_shift, Nat.add_assoc, slice_shift]
  simp [viewR, Except.map]

theorem parseComment_shift :
    viewR pre.length (parseComment d (pre ++ s) (pre.length + j)) = viewR 0 (parseComment d s j) := by
  unfold parseComment
  rw [firstOpen_shift]
  cases hf : firstOpen d.comment s j with
  | error e => rfl
  | ok pair =>
    simp only [bind, Except.bind, Nat.add_assoc, findFrom_shift]
    cases hfind : findFrom s pair.2 (j + pair.1.length) with
    | none =>
      simp only [Option.map_none, pure, Except.pure, viewR, Except.map]
      have : (pre ++ s).length = pre.length + s.length := by simp
      rw [this, slice_shift]; simp
    | some idx =>
      simp only [Option.map_some, pure, Except.pure, viewR, Except.map, Nat.add_assoc, slice_shift]
      simp

theorem parseQuote_shift (hw : wf d = true) :
    viewR pre.length (parseQuote d (pre ++ s) (pre.length + j)) = viewR 0 (parseQuote d s j) := by
  unfold parseQuote
  rw [firstOpen_shift]
  cases hf : firstOpen d.quote s j with
  | error e => rfl
  | ok pair =>
    obtain ⟨hmem, hs⟩ := firstOpen_ok hf
    have hlen := wf_quote hw hmem
    have hbound := startsWithAt_bound hs
    simp only [bind, Except.bind, Nat.add_assoc]
    have hq : quoteLoop (pre ++ s) pair.2 (pre.length + (j + pair.1.length)) (pre ++ s).length (pre.length + (j + pair.1.length))
        = (quoteLoop s pair.2 (j + pair.1.length) s.length (j + pair.1.length)).map (pre.length + ·) := by
      rw [← quoteLoop_shift]
      apply quoteLoop_fuel_indep hlen.2 <;> simp <;> omega
    rw [hq]
    cases hr : quoteLoop s pair.2 (j + pair.1.length) s.length (j + pair.1.length) with
    | error e => rfl
    | ok e =>
      simp only [Except.map, slice_shift]
      split
      · rfl
      · simp [viewR, Except.map, pure, Except.pure]

theorem combined_shift (w : Nat) (hwid : 0 < w) :
    (combined d (pre ++ s) (pre.length + j) w).map (Option.map (fun x => (x.1 - pre.length, x.2.type, x.2.string)))
      = (combined d s j w).map (Option.map (fun x => (x.1, x.2.type, x.2.string))) := by
  unfold combined
  simp only [Nat.add_assoc, slice_shift]
  have : (pre.length + (j + w) - 1 ≥ (pre ++ s).length) = (j + w - 1 ≥ s.length) := by
    simp only [List.length_append, ge_iff_le, eq_iff_iff]; omega
  simp only [this]
  split
  · rfl
  · split
    · rfl
    · rename_i off _
      cases typeOf d (T.beginCombine + off) with
      | error e => rfl
      | ok ty => simp [bind, Except.bind, pure, Except.pure, Except.map]

theorem parseSymbol_shift :
    viewR pre.length (parseSymbol d (pre ++ s) (pre.length + j)) = viewR 0 (parseSymbol d s j) := by
  have h3 := combined_shift d pre s j 3 (by omega)
  have h2 := combined_shift d pre s j 2 (by omega)
  unfold parseSymbol
  cases c3 : combined d s j 3 with
  | error e =>
    cases c3' : combined d (pre ++ s) (pre.length + j) 3 with
    | error e' => rw [c3, c3'] at h3; simp [Except.map] at h3; subst h3; rfl
    | ok r => rw [c3, c3'] at h3; simp [Except.map] at h3
  | ok r3 =>
    cases c3' : combined d (pre ++ s) (pre.length + j) 3 with
    | error e' => rw [c3, c3'] at h3; simp [Except.map] at h3
    | ok r3' =>
      rw [c3, c3'] at h3
      simp only [Except.map, Except.ok.injEq] at h3
      simp only [bind, Except.bind]
      cases r3 with
      | some r =>
        cases r3' with
        | none => simp at h3
        | some r' =>
          simp only [Option.map_some, Option.some.injEq, Prod.mk.injEq] at h3
          simp [viewR, Except.map, pure, Except.pure, h3]
      | none =>
        cases r3' with
        | some r' => simp at h3
        | none =>
          simp only []
          cases c2 : combined d s j 2 with
          | error e =>
            cases c2' : combined d (pre ++ s) (pre.length + j) 2 with
            | error e' => rw [c2, c2'] at h2; simp [Except.map] at h2; subst h2; rfl
            | ok r => rw [c2, c2'] at h2; simp [Except.map] at h2
          | ok r2 =>
            cases c2' : combined d (pre ++ s) (pre.length + j) 2 with
            | error e' => rw [c2, c2'] at h2; simp [Except.map] at h2
            | ok r2' =>
              rw [c2, c2'] at h2
              simp only [Except.map, Except.ok.injEq] at h2
              cases r2 with
              | some r =>
                cases r2' with
                | none => simp at h2
                | some r' =>
                  simp only [Option.map_some, Option.some.injEq, Prod.mk.injEq] at h2
                  simp [viewR, Except.map, pure, Except.pure, h2]
              | none =>
                cases r2' with
                | some r' => simp at h2
                | none =>
                  simp only [charAt_shift]
                  cases charAt s j with
                  | error e => rfl
                  | ok value =>
                    simp only []
                    split
                    · rfl
                    · rename_i off _
                      cases typeOf d (Dom.symbol * 16 + off) with
                      | error e => rfl
                      | ok ty =>
                        simp only [Nat.add_assoc, charIn_shift]
                        have hl : (pre.length + (j + 1) < (pre ++ s).length) = (j + 1 < s.length) := by simp
                        simp only [hl]
                        split
                        · split
                          · cases charIn d.whiteSpace s (j + 1) with
                            | error e => rfl
                            | ok ws =>
                              simp only []
                              split <;> simp [viewR, Except.map, pure, Except.pure, Token.opUnaryMinus] <;> try omega
                          · simp [viewR, Except.map, pure, Except.pure] <;> try omega
                        · simp [viewR, Except.map, pure, Except.pure] <;> try omega

theorem parser_shift (hw : wf d = true) (dom : Nat) :
    viewR pre.length (parser d dom (pre ++ s) (pre.length + j)) = viewR 0 (parser d dom s j) := by
  unfold parser
  split
  · exact parseWhiteSpace_shift d pre s j
  · split
    · exact parseComment_shift d pre s j
    · split
      · exact parseQuote_shift d pre s j hw
      · split
        · exact parseNumber_shift d pre s j
        · split
          · exact parseIdentifier_shift d pre s j
          · split
            · exact parseSymbol_shift d pre s j
            · rfl

def viewL (r : Except Err (List Token)) : Except Err (List (Nat × Str)) := r.map (List.map simplify)

theorem parseLoop_fuel_indep {d : TokenDef} (hw : wf d = true) {src : Str} : ∀ (fuel fuel' i : Nat),
    src.length - i ≤ fuel → src.length - i ≤ fuel' → parseLoop d src fuel i = parseLoop d src fuel' i
  | fuel, fuel', i, h, h' => by
    unfold parseLoop
    split
    · rename_i hlt
      cases fuel with
      | zero => omega
      | succ f =>
        cases fuel' with
        | zero => omega
        | succ f' =>
          simp only []
          cases hd : analyzeDomain d src i with
          | error e => rfl
          | ok dom =>
            simp only [bind, Except.bind]
            cases hp : parser d dom src i with
            | error e => rfl
            | ok r =>
              obtain ⟨e, t⟩ := r
              have hs := parser_ok hw hlt hd hp
              simp only []
              rw [parseLoop_fuel_indep hw (src := src) f f' e (by have := hs.lt; omega) (by have := hs.lt; omega)]
    · rfl

theorem parseLoop_shift {d : TokenDef} (hw : wf d = true) (pre s : Str) : ∀ (fuel j : Nat),
    viewL (parseLoop d (pre ++ s) fuel (pre.length + j)) = viewL (parseLoop d s fuel j)
  | fuel, j => by
    unfold parseLoop
    have hlt : (pre.length + j < (pre ++ s).length) = (j < s.length) := by simp
    simp only [hlt]
    split
    · rename_i hj
      cases fuel with
      | zero => rfl
      | succ f =>
        simp only [analyzeDomain_shift]
        cases hd : analyzeDomain d s j with
        | error e => rfl
        | ok dom =>
          simp only [bind, Except.bind]
          have hv := parser_shift d pre s j hw dom
          have hd' : analyzeDomain d (pre ++ s) (pre.length + j) = .ok dom := by rw [analyzeDomain_shift]; exact hd
          cases hp : parser d dom s j with
          | error e =>
            cases hp' : parser d dom (pre ++ s) (pre.length + j) with
            | error e' => rw [hp, hp'] at hv; simp [viewR, Except.map] at hv; subst hv; rfl
            | ok r => rw [hp, hp'] at hv; simp [viewR, Except.map] at hv
          | ok r =>
            cases hp' : parser d dom (pre ++ s) (pre.length + j) with
            | error e' => rw [hp, hp'] at hv; simp [viewR, Except.map] at hv
            | ok r' =>
              obtain ⟨e, t⟩ := r
              obtain ⟨e', t'⟩ := r'
              rw [hp, hp'] at hv
              simp only [viewR, Except.map, Except.ok.injEq, Prod.mk.injEq, Nat.sub_zero] at hv
              have hs' := parser_ok hw (by simp; omega) hd' hp'
              have he : e' = pre.length + e := by have := hs'.lt; omega
              subst he
              have ih := parseLoop_shift hw pre s f e
              simp only []
              cases r1 : parseLoop d (pre ++ s) f (pre.length + e) <;> cases r2 : parseLoop d s f e <;>
                simp [r1, r2, viewL, Except.map, pure, Except.pure] at ih ⊢
              · exact ih
              · simp [simplify, hv.2.1, hv.2.2, ih]
    · rfl

/-- the first token of a (non-empty) rest of the source -/
def step (d : TokenDef) (s : Str) : Except Err (Nat × Token) := do
  let dom ← analyzeDomain d s 0
  parser d dom s 0

/-- `parse_impl` up to source maps -/
def lexS (d : TokenDef) (s : Str) : Except Err (List (Nat × Str)) := viewL (parseImpl d s)

theorem lexS_nil (d : TokenDef) : lexS d [] = .ok [] := by
  simp [lexS, viewL, parseImpl, parseLoop, Except.map]

/-- `parse_impl` is a left-to-right scanner: the first token, then the same on what is left — nothing depends on the
    text already consumed (only the source maps do). -/
theorem lexS_unfold {d : TokenDef} (hw : wf d = true) (s : Str) (hne : s ≠ []) :
    lexS d s = match step d s with
      | .error e => .error e
      | .ok (e, t) => (lexS d (s.drop e)).map (fun rest => simplify t :: rest) := by
  have hpos : 0 < s.length := List.length_pos_iff.mpr hne
  unfold lexS parseImpl step
  obtain ⟨f, hf⟩ : ∃ f, s.length = f + 1 := ⟨s.length - 1, by omega⟩
  rw [hf]
  conv => lhs; unfold parseLoop
  simp only [hf, Nat.zero_lt_succ, ↓reduceIte]
  cases hd : analyzeDomain d s 0 with
  | error e => rfl
  | ok dom =>
    simp only [bind, Except.bind]
    cases hp : parser d dom s 0 with
    | error e => rfl
    | ok r =>
      obtain ⟨e, t⟩ := r
      have hs := parser_ok hw hpos hd hp
      simp only []
      have hle := hs.le
      have hlt := hs.lt
      generalize hr : s.drop e = r
      have hrl : r.length = s.length - e := by rw [← hr]; simp
      have hsplit : s.take e ++ r = s := by rw [← hr]; exact List.take_append_drop e s
      have hlen : (s.take e).length = e := by simp; omega
      have h1 := parseLoop_shift hw (s.take e) r f 0
      rw [hsplit, hlen, Nat.add_zero] at h1
      have h2 : parseLoop d r f 0 = parseLoop d r r.length 0 :=
        parseLoop_fuel_indep hw f _ 0 (by omega) (by omega)
      rw [h2] at h1
      cases r1 : parseLoop d s f e <;> cases r2 : parseLoop d r r.length 0 <;>
        simp [r1, r2, viewL, Except.map, pure, Except.pure] at h1 ⊢
      · exact h1
      · exact h1

/-! ### how far the first token looks: primitives on `x ++ r` -/

set_option linter.unusedSimpArgs false

def headIn (a : Str) : Str → Bool
  | [] => false
  | c :: _ => a.contains c

theorem slice_left (x r : Str) (w : Nat) (h : w ≤ x.length) : slice (x ++ r) 0 w = x.take w := by
  unfold slice
  rw [List.take_append_of_le_length h]; simp

theorem slice_left_all (x r : Str) : slice (x ++ r) 0 x.length = x := by
  rw [slice_left x r x.length (Nat.le_refl _)]; simp

theorem takeWhile_append_stop (f : Char → Bool) : ∀ (x r : Str), (∀ c ∈ x, f c = true) → (match r with | [] => true | c :: _ => !f c) = true →
    (x ++ r).takeWhile f = x
  | [], [], _, _ => rfl
  | [], c :: cs, _, h => by simp at h; simp [List.takeWhile, h]
  | a :: as, r, hx, h => by
    have ha : f a = true := hx a (by simp)
    simp only [List.cons_append, List.takeWhile, ha]
    rw [takeWhile_append_stop f as r (fun c hc => hx c (by simp [hc])) h]

theorem takeWhile_eq_prefix (f : Char → Bool) : ∀ (x r : Str), ((x ++ r).takeWhile f).length = x.length →
    (∀ c ∈ x, f c = true) ∧ (match r with | [] => true | c :: _ => !f c) = true
  | [], [], _ => by simp
  | [], c :: cs, h => by
    cases hc : f c
    · simp [hc]
    · simp [List.takeWhile, hc] at h
  | a :: as, r, h => by
    cases ha : f a
    · simp [List.takeWhile, ha] at h
    · simp only [List.cons_append, List.takeWhile, ha, List.length_cons, Nat.add_right_cancel_iff] at h
      obtain ⟨h1, h2⟩ := takeWhile_eq_prefix f as r h
      refine ⟨?_, h2⟩
      intro c hc
      simp only [List.mem_cons] at hc
      cases hc with
      | inl e => rw [e]; exact ha
      | inr e => exact h1 c e

theorem headIn_match (a : Str) (r : Str) : (match r with | [] => true | c :: _ => !(a.contains c)) = !headIn a r := by
  cases r <;> rfl

/-- a run token: `spanLen` stops exactly at `|x|` iff `x` is inside the alphabet and what follows does not start in it -/
theorem spanLen_prefix_iff (a x r : Str) :
    spanLen a (x ++ r) 0 = x.length ↔ ((∀ c ∈ x, a.contains c = true) ∧ headIn a r = false) := by
  unfold spanLen
  simp only [List.drop_zero]
  constructor
  · intro h
    obtain ⟨h1, h2⟩ := takeWhile_eq_prefix (fun c => a.contains c) x r h
    rw [headIn_match] at h2
    exact ⟨h1, by simpa using h2⟩
  · intro ⟨h1, h2⟩
    rw [takeWhile_append_stop (fun c => a.contains c) x r h1 (by rw [headIn_match]; simp [h2])]

theorem startsWith_iff_prefix : ∀ (s p : Str), Str.startsWith s p = true ↔ ∃ t, s = p ++ t
  | _, [] => by simp [Str.startsWith]
  | [], q :: qs => by simp [Str.startsWith]
  | c :: cs, q :: qs => by
    simp only [Str.startsWith, Bool.and_eq_true, decide_eq_true_eq, startsWith_iff_prefix cs qs, List.cons_append, List.cons.injEq]
    constructor
    · rintro ⟨h1, t, h2⟩; exact ⟨t, h1, h2⟩
    · rintro ⟨t, h1, h2⟩; exact ⟨h1, t, h2⟩

/-- a blank-free pattern that matches `x ++ c ++ r0'` (where `r0'` is empty or starts with a white space character) already
    matches `x ++ c ++ r0` -/
theorem startsWith_transfer (ws x c r0 r0' p : Str) (hp : ∀ ch ∈ p, ws.contains ch = false)
    (h0 : r0' = [] ∨ headIn ws r0' = true) (h : Str.startsWith (x ++ c ++ r0') p = true) :
    Str.startsWith (x ++ c ++ r0) p = true := by
  rw [startsWith_iff_prefix] at h ⊢
  obtain ⟨t, ht⟩ := h
  by_cases hl : p.length ≤ (x ++ c).length
  · -- the match lies inside `x ++ c`
    have h1 : (x ++ c ++ r0').take p.length = p := by rw [ht]; simp
    rw [List.take_append_of_le_length hl] at h1
    refine ⟨(x ++ c).drop p.length ++ r0, ?_⟩
    rw [← List.append_assoc]
    have h2 : (x ++ c).take p.length ++ (x ++ c).drop p.length = x ++ c := List.take_append_drop _ _
    rw [h1] at h2
    rw [h2]
  · -- it would have to contain the first character of `r0'`
    exfalso
    have hlen : (x ++ c).length < p.length := by omega
    cases h0 with
    | inl h0 =>
      subst h0
      have : (x ++ c ++ []).length = (p ++ t).length := by rw [ht]
      simp at this; simp at hlen; omega
    | inr h0 =>
      cases r0' with
      | nil => simp [headIn] at h0
      | cons ch rest =>
        simp only [headIn] at h0
        have h1 : (x ++ c ++ ch :: rest)[(x ++ c).length]? = some ch := by
          rw [List.getElem?_append_right (Nat.le_refl _)]; simp
        rw [ht, List.getElem?_append_left hlen] at h1
        have hmem : ch ∈ p := List.mem_of_getElem? h1
        have := hp ch hmem
        rw [this] at h0; cases h0

theorem startsWith_left (a b p : Str) (h : p.length ≤ a.length) : Str.startsWith (a ++ b) p = Str.startsWith a p := by
  induction p generalizing a with
  | nil => simp [Str.startsWith]
  | cons q qs ih =>
    cases a with
    | nil => simp at h
    | cons c cs =>
      simp only [List.cons_append, Str.startsWith]
      rw [ih cs (by simpa using h)]

/-- a match found inside `a` is found at the same place whatever follows `a` -/
theorem findSub_left (p : Str) : ∀ (a b b' : Str) (i : Nat), findSub p (a ++ b) = some i → i + p.length ≤ a.length →
    findSub p (a ++ b') = some i
  | [], b, b', i, h, hl => by
    have hp : p = [] := by cases p with | nil => rfl | cons _ _ => simp at hl
    have hi : i = 0 := by simp at hl; omega
    subst hp hi
    cases b' <;> simp [findSub, Str.startsWith]
  | c :: cs, b, b', i, h, hl => by
    simp only [List.cons_append, findSub] at h ⊢
    by_cases hs : Str.startsWith (c :: (cs ++ b)) p = true
    · simp only [hs, ↓reduceIte, Option.some.injEq] at h
      subst h
      have hpl : p.length ≤ (c :: cs).length := by omega
      have := startsWith_left (c :: cs) b p hpl
      have h' := startsWith_left (c :: cs) b' p hpl
      simp only [List.cons_append] at this h'
      rw [h', ← this, hs]; rfl
    · simp only [hs, Bool.false_eq_true, ↓reduceIte] at h
      cases hf : findSub p (cs ++ b) with
      | none => rw [hf] at h; cases h
      | some j =>
        rw [hf] at h
        simp only [Option.map_some, Option.some.injEq] at h
        subst h
        have hpl : p.length ≤ (c :: cs).length := by simp at hl ⊢; omega
        have := startsWith_left (c :: cs) b p hpl
        have h' := startsWith_left (c :: cs) b' p hpl
        simp only [List.cons_append] at this h'
        have hs' : Str.startsWith (c :: (cs ++ b')) p = false := by
          rw [h', ← this]; simpa using hs
        simp only [hs', Bool.false_eq_true, ↓reduceIte]
        rw [findSub_left p cs b b' j hf (by simp at hl; omega)]
        rfl

theorem findSub_single_none (c : Char) : ∀ s : Str, c ∉ s → findSub [c] s = none
  | [], _ => by simp [findSub]
  | x :: xs, h => by
    have hx : ¬ x = c := fun e => h (by simp [e])
    have hxs : c ∉ xs := fun e => h (by simp [e])
    simp [findSub, Str.startsWith, hx, findSub_single_none c xs hxs]

theorem findSub_single_at (c : Char) : ∀ (a b : Str), c ∉ a → findSub [c] (a ++ c :: b) = some a.length
  | [], b, _ => by simp [findSub, Str.startsWith]
  | x :: xs, b, h => by
    have hx : ¬ x = c := fun e => h (by simp [e])
    have hxs : c ∉ xs := fun e => h (by simp [e])
    simp [findSub, Str.startsWith, hx, findSub_single_at c xs b hxs]

theorem findSub_single_some (c : Char) : ∀ (s : Str) (i : Nat), findSub [c] s = some i → c ∉ s.take i ∧ s[i]? = some c
  | [], i, h => by simp [findSub] at h
  | x :: xs, i, h => by
    simp only [findSub, Str.startsWith, Bool.and_true, decide_eq_true_eq] at h
    by_cases hx : x = c
    · simp only [hx, ↓reduceIte, Option.some.injEq] at h
      subst h; simp [hx]
    · simp only [hx, ↓reduceIte] at h
      cases hf : findSub [c] xs with
      | none => rw [hf] at h; cases h
      | some j =>
        rw [hf] at h; simp only [Option.map_some, Option.some.injEq] at h; subst h
        obtain ⟨h1, h2⟩ := findSub_single_some c xs j hf
        refine ⟨?_, by simpa using h2⟩
        simp only [List.take_succ_cons, List.mem_cons, not_or]
        exact ⟨fun e => hx e.symm, h1⟩

theorem findSub_single_none_iff (c : Char) (s : Str) (h : findSub [c] s = none) : c ∉ s := by
  induction s with
  | nil => simp
  | cons x xs ih =>
    simp only [findSub, Str.startsWith, Bool.and_true, decide_eq_true_eq] at h
    by_cases hx : x = c
    · simp [hx] at h
    · simp only [hx, ↓reduceIte] at h
      cases hf : findSub [c] xs with
      | none => simp only [List.mem_cons, not_or]; exact ⟨fun e => hx e.symm, ih hf⟩
      | some j => rw [hf] at h; cases h

theorem escapeRun_left (x r r' : Str) (body index : Nat) (hi : index ≤ x.length) : ∀ (f esc : Nat),
    escapeRun (x ++ r) body index f esc = escapeRun (x ++ r') body index f esc
  | 0, _ => rfl
  | f + 1, esc => by
    simp only [escapeRun]
    by_cases h : index - esc > body
    · have hl : index - esc - 1 < x.length := by omega
      rw [List.getElem?_append_left hl, List.getElem?_append_left hl, escapeRun_left x r r' body index hi f (esc + 1)]
    · simp [h]

/-- ghost: the quote loop ended on an unescaped closing sequence (the string literal is terminated) -/
def quoteLoopC (src close : Str) (body : Nat) : Nat → Nat → Bool
  | fuel, e =>
    if e < src.length then
      match fuel with
      | 0 => false
      | f + 1 =>
        match findFrom src close e with
        | none => false
        | some idx =>
          if escapeRun src body idx (idx + 1) 0 % 2 = 1 then quoteLoopC src close body f (idx + 1) else true
    else false

theorem findFrom_left (x r r' p : Str) (e idx : Nat) (he : e ≤ x.length) (h : findFrom (x ++ r) p e = some idx)
    (hl : idx + p.length ≤ x.length) : findFrom (x ++ r') p e = some idx := by
  unfold findFrom at h ⊢
  have h1 : e ≤ (x ++ r).length := by simp; omega
  have h2 : e ≤ (x ++ r').length := by simp; omega
  simp only [h1, h2, ↓reduceIte] at h ⊢
  rw [List.drop_append_of_le_length he] at h ⊢
  cases hf : findSub p (x.drop e ++ r) with
  | none => rw [hf] at h; cases h
  | some j =>
    rw [hf] at h; simp only [Option.map_some, Option.some.injEq] at h
    rw [findSub_left p (x.drop e) r r' j hf (by simp; omega)]
    simp [h]

/-- a terminated run of the quote loop ends at least one closing sequence after where it started -/
theorem quoteLoop_closed_ge (src close : Str) (body : Nat) : ∀ (fuel e E : Nat),
    quoteLoop src close body fuel e = .ok E → quoteLoopC src close body fuel e = true → e + close.length ≤ E
  | fuel, e, E, h, hC => by
    unfold quoteLoop at h
    unfold quoteLoopC at hC
    split at h
    · rename_i hlt
      simp only [hlt, ↓reduceIte] at hC
      cases fuel with
      | zero => cases h
      | succ f =>
        simp only [] at h hC
        cases hf : findFrom src close e with
        | none => rw [hf] at hC; cases hC
        | some idx =>
          rw [hf] at h hC
          simp only [] at h hC
          have hb := findFrom_bound hf
          by_cases hesc : escapeRun src body idx (idx + 1) 0 % 2 = 1
          · simp only [hesc, ↓reduceIte] at h hC
            have := quoteLoop_closed_ge src close body f (idx + 1) E h hC
            omega
          · simp only [hesc, ↓reduceIte, Except.ok.injEq] at h
            omega
    · rename_i hge
      simp only [hge, ↓reduceIte] at hC
      cases hC

/-- a terminated string literal `x` is read the same whatever follows it -/
theorem quoteLoop_left (x r r' close : Str) (body : Nat) (hc : 0 < close.length) : ∀ (fuel e : Nat), e ≤ x.length →
    quoteLoop (x ++ r) close body fuel e = .ok x.length → quoteLoopC (x ++ r) close body fuel e = true →
    quoteLoop (x ++ r') close body fuel e = .ok x.length
  | fuel, e, he, h, hC => by
    have hge := quoteLoop_closed_ge _ _ _ _ _ _ h hC
    unfold quoteLoop at h ⊢
    unfold quoteLoopC at hC
    split at h
    · rename_i hlt
      simp only [hlt, ↓reduceIte] at hC
      cases fuel with
      | zero => cases h
      | succ f =>
        simp only [] at h hC
        cases hf : findFrom (x ++ r) close e with
        | none => rw [hf] at hC; cases hC
        | some idx =>
          rw [hf] at h hC
          simp only [] at h hC
          have hb := findFrom_bound hf
          by_cases hesc : escapeRun (x ++ r) body idx (idx + 1) 0 % 2 = 1
          · simp only [hesc, ↓reduceIte] at h hC
            have hge2 := quoteLoop_closed_ge _ _ _ _ _ _ h hC
            have hlt' : e < (x ++ r').length := by simp; omega
            have hf' := findFrom_left x r r' close e idx he hf (by omega)
            have hesc' : escapeRun (x ++ r') body idx (idx + 1) 0 % 2 = 1 := by
              rw [← escapeRun_left x r r' body idx (by omega)]; exact hesc
            simp only [hlt', ↓reduceIte, hf', hesc']
            exact quoteLoop_left x r r' close body hc f (idx + 1) (by omega) h hC
          · simp only [hesc, ↓reduceIte, Except.ok.injEq] at h
            have hlt' : e < (x ++ r').length := by simp; omega
            have hf' := findFrom_left x r r' close e idx he hf (by omega)
            have hesc' : ¬ escapeRun (x ++ r') body idx (idx + 1) 0 % 2 = 1 := by
              rw [← escapeRun_left x r r' body idx (by omega)]; exact hesc
            simp only [hlt', ↓reduceIte, hf', hesc', h]
    · rename_i hge'
      simp only [hge', ↓reduceIte] at hC
      cases hC

/-! ### the first token is stable under changes of what follows it -/

def blankFree (d : TokenDef) (p : Str) : Bool := p.all (fun c => !d.whiteSpace.contains c)

/-- side conditions for the character-level layout theorems (decided for the generated definitions): comments end at the
    newline; openers and combined symbols contain no white space; white space characters are in no other alphabet -/
def wfLayout (d : TokenDef) : Bool :=
  d.comment.all (fun p => p.2 == ['\n'] && blankFree d p.1) &&
  d.quote.all (fun p => blankFree d p.1) &&
  d.combinedSymbols.all (blankFree d) &&
  d.whiteSpace.all (fun c => !d.number.contains c && !d.identifier.contains c && !d.symbol.contains c) &&
  d.whiteSpace.contains '\n'

/-- the patterns the lexer looks for beyond the first character: openers and combined symbols -/
def lookPats (d : TokenDef) : List Str := d.comment.map (·.1) ++ d.quote.map (·.1) ++ d.combinedSymbols

/-- every look-ahead pattern that matches `s'` also matches `s` -/
def LookOK (d : TokenDef) (s s' : Str) : Prop := ∀ p ∈ lookPats d, Str.startsWith s' p = true → Str.startsWith s p = true

theorem startsWithAt_zero (s p : Str) : startsWithAt s p 0 = Str.startsWith s p := by simp [startsWithAt]

theorem charIn_zero (a : Str) (c : Char) (cs : Str) : charIn a (c :: cs) 0 = .ok (a.contains c) := by
  simp [charIn, charAt, bind, Except.bind, pure, Except.pure]

theorem anyOpen_transfer {d : TokenDef} {s s' : Str} (pairs : List (Str × Str)) (hsub : ∀ p ∈ pairs, p.1 ∈ lookPats d)
    (hl : LookOK d s s') (h : anyOpen pairs s' 0 = true) : anyOpen pairs s 0 = true := by
  simp only [anyOpen, List.any_eq_true, startsWithAt_zero] at h ⊢
  obtain ⟨p, hp, hm⟩ := h
  exact ⟨p, hp, hl p.1 (hsub p hp) hm⟩

theorem comment_sub (d : TokenDef) : ∀ p ∈ d.comment, p.1 ∈ lookPats d := by
  intro p hp; simp only [lookPats, List.mem_append, List.mem_map]; exact Or.inl (Or.inl ⟨p, hp, rfl⟩)

theorem quote_sub (d : TokenDef) : ∀ p ∈ d.quote, p.1 ∈ lookPats d := by
  intro p hp; simp only [lookPats, List.mem_append, List.mem_map]; exact Or.inl (Or.inr ⟨p, hp, rfl⟩)

/-- analyzers that said "no" on `s` say "no" on `s'` (same first character, no new opener) -/
theorem analyzer_false_transfer {d : TokenDef} {c : Char} {cs cs' : Str} (hl : LookOK d (c :: cs) (c :: cs')) (y : Nat)
    (h : analyzer d y (c :: cs) 0 = .ok false) : analyzer d y (c :: cs') 0 = .ok false := by
  unfold analyzer at h ⊢
  simp only [charIn_zero] at h ⊢
  repeat' split at h
  all_goals simp_all
  · rename_i h1
    cases hb : anyOpen d.comment (c :: cs') 0
    · rfl
    · rw [anyOpen_transfer d.comment (comment_sub d) hl hb] at h; cases h
  · rename_i h1 h2
    cases hb : anyOpen d.quote (c :: cs') 0
    · rfl
    · rw [anyOpen_transfer d.quote (quote_sub d) hl hb] at h; cases h

theorem analyzeGo_transfer {d : TokenDef} {s s' : Str} {dom : Nat}
    (hf : ∀ y, analyzer d y s 0 = .ok false → analyzer d y s' 0 = .ok false)
    (ht : analyzer d dom s' 0 = .ok true) : ∀ (order : List Nat),
    analyzeGo d s 0 order = .ok dom → analyzeGo d s' 0 order = .ok dom
  | [], h => by cases h
  | y :: rest, h => by
    unfold analyzeGo at h ⊢
    cases ha : analyzer d y s 0 with
    | error e => rw [ha] at h; cases h
    | ok b =>
      rw [ha] at h
      simp only [bind, Except.bind] at h ⊢
      cases b with
      | true =>
        simp only [↓reduceIte, pure, Except.pure, Except.ok.injEq] at h
        subst h
        rw [ht]; rfl
      | false =>
        simp only [Bool.false_eq_true, ↓reduceIte] at h
        rw [hf y ha]
        simp only [Bool.false_eq_true, ↓reduceIte]
        exact analyzeGo_transfer hf ht rest h

/-- the first matching pair stays the first matching pair, when its opener lies inside `x` -/
theorem firstOpen_transfer {d : TokenDef} {x r r' : Str} (pairs : List (Str × Str)) (hsub : ∀ p ∈ pairs, p.1 ∈ lookPats d)
    (hl : LookOK d (x ++ r) (x ++ r')) {p0 : Str × Str} (h : firstOpen pairs (x ++ r) 0 = .ok p0) (hlen : p0.1.length ≤ x.length) :
    firstOpen pairs (x ++ r') 0 = .ok p0 := by
  unfold firstOpen at h ⊢
  induction pairs with
  | nil => simp at h
  | cons q qs ih =>
    simp only [List.find?_cons, startsWithAt_zero] at h ⊢
    by_cases hq : Str.startsWith (x ++ r) q.1 = true
    · simp only [hq] at h
      injection h with h; subst h
      have : Str.startsWith (x ++ r') q.1 = true := by
        rw [startsWith_left x r' q.1 hlen, ← startsWith_left x r q.1 hlen]; exact hq
      simp [this]
    · have hq' : Str.startsWith (x ++ r') q.1 = false := by
        cases hb : Str.startsWith (x ++ r') q.1
        · rfl
        · exact absurd (hl q.1 (hsub q (by simp)) hb) hq
      simp only [Bool.not_eq_true] at hq
      simp only [hq, hq'] at h ⊢
      exact ih (fun p hp => hsub p (by simp [hp])) h

theorem viewR_ok {n e : Nat} {t : Token} : viewR n (.ok (e, t)) = .ok (e - n, t.type, t.string) := rfl

theorem parseWhiteSpace_stable (d : TokenDef) (x r r' : Str) (t : Token)
    (h : parseWhiteSpace d (x ++ r) 0 = .ok (x.length, t)) (hh : headIn d.whiteSpace r' = true → headIn d.whiteSpace r = true) :
    viewR 0 (parseWhiteSpace d (x ++ r') 0) = .ok (x.length, t.type, t.string) := by
  have hspan : spanLen d.whiteSpace (x ++ r) 0 = x.length := by
    unfold parseWhiteSpace at h
    simp only [] at h
    repeat' split at h
    all_goals (injection h with h; injection h with h1 _; omega)
  obtain ⟨hx, hr⟩ := (spanLen_prefix_iff _ _ _).mp hspan
  have hr' : headIn d.whiteSpace r' = false := by
    cases hb : headIn d.whiteSpace r'
    · rfl
    · rw [hh hb] at hr; cases hr
  have hspan' : spanLen d.whiteSpace (x ++ r') 0 = x.length := (spanLen_prefix_iff _ _ _).mpr ⟨hx, hr'⟩
  unfold parseWhiteSpace at h ⊢
  simp only [hspan, hspan', Nat.zero_add, slice_left_all] at h ⊢
  repeat' split at h
  all_goals (injection h with h; injection h with _ h2; subst h2; simp_all [viewR, Except.map])

theorem parseNumber_stable (d : TokenDef) (x r r' : Str) (t : Token)
    (h : parseNumber d (x ++ r) 0 = .ok (x.length, t)) (hh : headIn d.number r' = true → headIn d.number r = true) :
    viewR 0 (parseNumber d (x ++ r') 0) = .ok (x.length, t.type, t.string) := by
  have hspan : spanLen d.number (x ++ r) 0 = x.length := by
    unfold parseNumber at h
    injection h with h; injection h with h1 _; omega
  obtain ⟨hx, hr⟩ := (spanLen_prefix_iff _ _ _).mp hspan
  have hr' : headIn d.number r' = false := by
    cases hb : headIn d.number r'
    · rfl
    · rw [hh hb] at hr; cases hr
  have hspan' : spanLen d.number (x ++ r') 0 = x.length := (spanLen_prefix_iff _ _ _).mpr ⟨hx, hr'⟩
  unfold parseNumber at h ⊢
  simp only [hspan, hspan', Nat.zero_add, slice_left_all] at h ⊢
  injection h with h; injection h with _ h2; subst h2
  simp [viewR, Except.map]

theorem parseIdentifier_stable (d : TokenDef) (x r r' : Str) (t : Token)
    (h : parseIdentifier d (x ++ r) 0 = .ok (x.length, t)) (hh : headIn d.identifier r' = true → headIn d.identifier r = true) :
    viewR 0 (parseIdentifier d (x ++ r') 0) = .ok (x.length, t.type, t.string) := by
  have hspan : spanLen d.identifier (x ++ r) 0 = x.length := by
    unfold parseIdentifier at h
    injection h with h; injection h with h1 _; omega
  obtain ⟨hx, hr⟩ := (spanLen_prefix_iff _ _ _).mp hspan
  have hr' : headIn d.identifier r' = false := by
    cases hb : headIn d.identifier r'
    · rfl
    · rw [hh hb] at hr; cases hr
  have hspan' : spanLen d.identifier (x ++ r') 0 = x.length := (spanLen_prefix_iff _ _ _).mpr ⟨hx, hr'⟩
  unfold parseIdentifier at h ⊢
  simp only [hspan, hspan', Nat.zero_add, slice_left_all] at h ⊢
  injection h with h; injection h with _ h2; subst h2
  simp [viewR, Except.map]

def nlOrEnd : Str → Bool
  | [] => true
  | c :: _ => c = '\n'

theorem wfLayout_comment {d : TokenDef} (hw : wfLayout d = true) {p : Str × Str} (hp : p ∈ d.comment) : p.2 = ['\n'] := by
  simp only [wfLayout, Bool.and_eq_true, List.all_eq_true, beq_iff_eq] at hw
  exact (hw.1.1.1.1 p hp).1

theorem parseComment_stable (d : TokenDef) (hw : wfLayout d = true) (x r r' : Str) (t : Token)
    (h : parseComment d (x ++ r) 0 = .ok (x.length, t)) (hl : LookOK d (x ++ r) (x ++ r')) (hn : nlOrEnd r' = true) :
    viewR 0 (parseComment d (x ++ r') 0) = .ok (x.length, t.type, t.string) := by
  unfold parseComment at h
  cases hf : firstOpen d.comment (x ++ r) 0 with
  | error e => rw [hf] at h; cases h
  | ok p0 =>
    rw [hf] at h
    obtain ⟨hmem, hs⟩ := firstOpen_ok hf
    have hclose := wfLayout_comment hw hmem
    have hbound := startsWithAt_bound hs
    simp only [bind, Except.bind, hclose, ↓reduceIte, Nat.zero_add, Nat.add_zero] at h
    -- the opener lies inside x, and x has no newline after it
    have key : p0.1.length ≤ x.length ∧ '\n' ∉ x.drop p0.1.length ∧ t.type = T.comment ∧ t.string = x := by
      cases hfind : findFrom (x ++ r) ['\n'] p0.1.length with
      | some idx =>
        rw [hfind] at h
        simp only [pure, Except.pure, Except.ok.injEq, Prod.mk.injEq] at h
        obtain ⟨h1, h2⟩ := h
        subst h1
        have hb := findFrom_bound hfind
        refine ⟨hb.1, ?_, by rw [← h2], by rw [← h2]; exact slice_left_all x r⟩
        unfold findFrom at hfind
        simp only [show p0.1.length ≤ (x ++ r).length from by simp; omega, ↓reduceIte] at hfind
        rw [List.drop_append_of_le_length hb.1] at hfind
        cases hfs : findSub ['\n'] (x.drop p0.1.length ++ r) with
        | none => rw [hfs] at hfind; cases hfind
        | some j =>
          rw [hfs] at hfind
          simp only [Option.map_some, Option.some.injEq] at hfind
          have hj : j = (x.drop p0.1.length).length := by simp; omega
          have := (findSub_single_some '\n' _ j hfs).1
          rw [hj, List.take_left'] at this
          · exact this
          · rfl
      | none =>
        rw [hfind] at h
        simp only [pure, Except.pure, Except.ok.injEq, Prod.mk.injEq] at h
        obtain ⟨h1, h2⟩ := h
        have hr : r = [] := by
          simp only [List.length_append] at h1
          exact List.eq_nil_of_length_eq_zero (by omega)
        subst hr
        rw [List.append_nil] at hfind h2 hbound
        refine ⟨by omega, ?_, by rw [← h2], by rw [← h2]; simp [slice]⟩
        unfold findFrom at hfind
        have hb2 : p0.1.length ≤ x.length := by omega
        simp only [hb2, ↓reduceIte] at hfind
        cases hfs : findSub ['\n'] (x.drop p0.1.length) with
        | none => exact findSub_single_none_iff '\n' _ hfs
        | some j => rw [hfs] at hfind; cases hfind
    obtain ⟨hk, hnl, hty, hstr⟩ := key
    have hf' := firstOpen_transfer d.comment (comment_sub d) hl hf hk
    unfold parseComment
    rw [hf']
    simp only [bind, Except.bind, hclose, ↓reduceIte, Nat.zero_add, Nat.add_zero]
    have hfind' : findFrom (x ++ r') ['\n'] p0.1.length = if r' = [] then none else some x.length := by
      unfold findFrom
      simp only [show p0.1.length ≤ (x ++ r').length from by simp; omega, ↓reduceIte]
      rw [List.drop_append_of_le_length hk]
      cases r' with
      | nil =>
        simp only [List.append_nil, ↓reduceIte]
        rw [findSub_single_none '\n' _ hnl]; rfl
      | cons c cs =>
        have hc : c = '\n' := by simpa [nlOrEnd] using hn
        subst hc
        rw [findSub_single_at '\n' _ cs hnl]
        simp; omega
    rw [hfind']
    by_cases hr' : r' = []
    · subst hr'
      simp [viewR, Except.map, pure, Except.pure, hty, hstr, slice]
    · simp only [hr', ↓reduceIte, pure, Except.pure, viewR, Except.map, slice_left_all, hty, hstr]
      simp

theorem quoteLoopC_fuel_indep {src close : Str} (hc : 0 < close.length) (body : Nat) : ∀ (fuel fuel' e : Nat),
    src.length - e ≤ fuel → src.length - e ≤ fuel' → quoteLoopC src close body fuel e = quoteLoopC src close body fuel' e
  | fuel, fuel', e, h, h' => by
    unfold quoteLoopC
    split
    · rename_i hlt
      cases fuel with
      | zero => omega
      | succ f =>
        cases fuel' with
        | zero => omega
        | succ f' =>
          simp only []
          cases hf : findFrom src close e with
          | none => rfl
          | some idx =>
            have hb := findFrom_bound hf
            simp only []
            split
            · exact quoteLoopC_fuel_indep hc body f f' (idx + 1) (by omega) (by omega)
            · rfl
    · rfl

/-- ghost: the string literal at the start of `s` is terminated (its quote loop ends on an unescaped closing sequence) -/
def quoteClosed (d : TokenDef) (s : Str) : Bool :=
  match firstOpen d.quote s 0 with
  | .ok p => quoteLoopC s p.2 p.1.length s.length p.1.length
  | .error _ => false

theorem parseQuote_stable (d : TokenDef) (hw : wf d = true) (x r r' : Str) (t : Token)
    (h : parseQuote d (x ++ r) 0 = .ok (x.length, t)) (hcl : quoteClosed d (x ++ r) = true)
    (hl : LookOK d (x ++ r) (x ++ r')) :
    viewR 0 (parseQuote d (x ++ r') 0) = .ok (x.length, t.type, t.string) := by
  unfold parseQuote at h
  unfold quoteClosed at hcl
  cases hf : firstOpen d.quote (x ++ r) 0 with
  | error e => rw [hf] at h; cases h
  | ok p0 =>
    rw [hf] at h hcl
    obtain ⟨hmem, hs⟩ := firstOpen_ok hf
    have hlen := wf_quote hw hmem
    have hbound := startsWithAt_bound hs
    simp only [bind, Except.bind, Nat.zero_add] at h hcl
    cases hq : quoteLoop (x ++ r) p0.2 p0.1.length (x ++ r).length p0.1.length with
    | error e => rw [hq] at h; cases h
    | ok e =>
      rw [hq] at h
      simp only [] at h
      split at h
      · cases h
      · rename_i c cs hv
        simp only [pure, Except.pure, Except.ok.injEq, Prod.mk.injEq] at h
        obtain ⟨he, ht⟩ := h
        subst he
        have hge := quoteLoop_closed_ge _ _ _ _ _ _ hq hcl
        have hk : p0.1.length ≤ x.length := by omega
        have hf' := firstOpen_transfer d.quote (quote_sub d) hl hf hk
        -- align the fuels, move to `x ++ r'`, align back
        let F := x.length + r.length + r'.length
        have q1 : quoteLoop (x ++ r) p0.2 p0.1.length F p0.1.length = .ok x.length := by
          rw [← hq]; apply quoteLoop_fuel_indep hlen.2 <;> simp [F] <;> omega
        have c1 : quoteLoopC (x ++ r) p0.2 p0.1.length F p0.1.length = true := by
          rw [← hcl]; apply quoteLoopC_fuel_indep hlen.2 <;> simp [F] <;> omega
        have q2 := quoteLoop_left x r r' p0.2 p0.1.length hlen.2 F p0.1.length hk q1 c1
        have q3 : quoteLoop (x ++ r') p0.2 p0.1.length (x ++ r').length p0.1.length = .ok x.length := by
          rw [← q2]; apply quoteLoop_fuel_indep hlen.2 <;> simp [F] <;> omega
        unfold parseQuote
        rw [hf']
        simp only [bind, Except.bind, Nat.zero_add, q3, slice_left_all]
        rw [slice_left_all] at hv ht
        subst hv
        simp [pure, Except.pure, viewR, Except.map, ← ht]

def wsOrEnd (a : Str) : Str → Bool
  | [] => true
  | c :: _ => a.contains c

def viewC (r : Except Err (Option (Nat × Token))) : Except Err (Option (Nat × Nat × Str)) :=
  r.map (Option.map (fun y => (y.1, y.2.type, y.2.string)))

theorem combined_sub (d : TokenDef) : ∀ p ∈ d.combinedSymbols, p ∈ lookPats d := by
  intro p hp; simp only [lookPats, List.mem_append]; exact Or.inr hp

theorem indexOf?_mem {α : Type} [DecidableEq α] (x : α) (l : List α) (i : Nat) (h : indexOf? x l = some i) : x ∈ l :=
  List.mem_of_getElem? (indexOf?_getElem? x l i h)

/-- a combined-symbol probe no longer than `x` sees the same text -/
theorem combined_stable_le (d : TokenDef) (x r r' : Str) (w : Nat) (hw : w ≤ x.length) (hpos : 0 < w) :
    viewC (combined d (x ++ r') 0 w) = viewC (combined d (x ++ r) 0 w) := by
  unfold combined
  simp only [Nat.zero_add]
  have g1 : ¬ (w - 1 ≥ (x ++ r).length) := by simp; omega
  have g2 : ¬ (w - 1 ≥ (x ++ r').length) := by simp; omega
  simp only [g1, g2, ↓reduceIte, slice_left x r w hw, slice_left x r' w hw]
  split
  · rfl
  · rename_i off _
    cases typeOf d (T.beginCombine + off) <;> simp [viewC, bind, Except.bind, pure, Except.pure, Except.map]

/-- a probe that found nothing on `s` finds nothing on `s'` -/
theorem combined_none_transfer (d : TokenDef) (s s' : Str) (w : Nat) (hpos : 0 < w) (hl : LookOK d s s')
    (h : combined d s 0 w = .ok none) : combined d s' 0 w = .ok none := by
  unfold combined at h ⊢
  simp only [Nat.zero_add] at h ⊢
  by_cases g' : w - 1 ≥ s'.length
  · simp [g']
  · simp only [g', ↓reduceIte]
    cases hi : indexOf? (slice s' 0 w) d.combinedSymbols with
    | none => rfl
    | some off =>
      exfalso
      have hmem := indexOf?_mem _ _ _ hi
      have hlen : (slice s' 0 w).length = w := by rw [slice_zero]; simp; omega
      have hst : Str.startsWith s' (slice s' 0 w) = true := by
        rw [startsWith_iff_prefix]; exact ⟨s'.drop w, by rw [slice_zero]; exact (List.take_append_drop w s').symm⟩
      have hs := hl _ (combined_sub d _ hmem) hst
      have htake := startsWith_take _ _ hs
      have hlen2 := startsWith_length _ _ hs
      rw [hlen] at htake hlen2
      have g : ¬ (w - 1 ≥ s.length) := by omega
      simp only [g, ↓reduceIte, slice_zero, htake] at h
      rw [← slice_zero, hi] at h
      simp only [] at h
      cases hty : typeOf d (T.beginCombine + off) with
      | error e => rw [hty] at h; cases h
      | ok ty => rw [hty] at h; simp [bind, Except.bind, pure, Except.pure] at h

theorem combined_end {d : TokenDef} {s : Str} {w e : Nat} {t : Token} (h : combined d s 0 w = .ok (some (e, t))) : e = w := by
  unfold combined at h
  simp only [Nat.zero_add] at h
  split at h
  · cases h
  · split at h
    · cases h
    · rename_i off _
      cases hty : typeOf d (T.beginCombine + off) with
      | error er => rw [hty] at h; cases h
      | ok ty =>
        rw [hty] at h
        simp only [bind, Except.bind, pure, Except.pure, Except.ok.injEq, Option.some.injEq, Prod.mk.injEq] at h
        exact h.1.symm

theorem viewC_some {a b : Except Err (Option (Nat × Token))} {e : Nat} {t : Token} (h : viewC a = viewC b) (hb : b = .ok (some (e, t))) :
    ∃ t', a = .ok (some (e, t')) ∧ t'.type = t.type ∧ t'.string = t.string := by
  subst hb
  cases a with
  | error er => simp [viewC, Except.map] at h
  | ok o =>
    cases o with
    | none => simp [viewC, Except.map] at h
    | some y =>
      simp only [viewC, Except.map, Option.map_some, Except.ok.injEq, Option.some.injEq, Prod.mk.injEq] at h
      obtain ⟨h1, h2, h3⟩ := h
      exact ⟨y.2, by rw [← h1], h2, h3⟩

/-- the unary/binary decision of `parse_symbol` for a single-character token at the start of `s` -/
def minusTail (d : TokenDef) (c : Char) (ty : Nat) (s : Str) : Except Err (Nat × Token) :=
  if 1 < s.length then
    Except.bind (charIn d.whiteSpace s 1) (fun ws =>
      if (!ws) = true then pure (1, Token.opUnaryMinus (mkMap s 0 1)) else pure (1, ⟨ty, [c], mkMap s 0 1⟩))
  else pure (1, ⟨ty, [c], mkMap s 0 1⟩)

theorem minus_view (d : TokenDef) (c : Char) (ty : Nat) (r : Str) :
    viewR 0 (minusTail d c ty (c :: r))
      = .ok (1, if wsOrEnd d.whiteSpace r = true then (ty, [c]) else (T.minus, Special.opUnaryMinus)) := by
  unfold minusTail
  cases r with
  | nil => simp [viewR, Except.map, pure, Except.pure, wsOrEnd]
  | cons a rest =>
    have : charIn d.whiteSpace (c :: a :: rest) 1 = .ok (d.whiteSpace.contains a) := by
      simp [charIn, charAt, bind, Except.bind, pure, Except.pure]
    simp only [List.length_cons, this, wsOrEnd, Except.bind]
    by_cases hb : a ∈ d.whiteSpace
    · simp [hb, viewR, Except.map, pure, Except.pure]
    · simp [hb, viewR, Except.map, pure, Except.pure, Token.opUnaryMinus]

theorem parseSymbol_stable (d : TokenDef) (x r r' : Str) (t : Token)
    (h : parseSymbol d (x ++ r) 0 = .ok (x.length, t)) (hl : LookOK d (x ++ r) (x ++ r'))
    (hm : t.type = T.minus → wsOrEnd d.whiteSpace r = wsOrEnd d.whiteSpace r') :
    viewR 0 (parseSymbol d (x ++ r') 0) = .ok (x.length, t.type, t.string) := by
  unfold parseSymbol at h
  cases h3 : combined d (x ++ r) 0 3 with
  | error er => rw [h3] at h; cases h
  | ok r3 =>
    rw [h3] at h
    simp only [bind, Except.bind] at h
    cases r3 with
    | some res =>
      simp only [pure, Except.pure, Except.ok.injEq] at h
      subst h
      have he := combined_end h3
      obtain ⟨t', h3', e1, e2⟩ := viewC_some (combined_stable_le d x r r' 3 (by omega) (by omega)) h3
      unfold parseSymbol
      rw [h3']
      simp [bind, Except.bind, pure, Except.pure, viewR, Except.map, e1, e2]
    | none =>
      simp only [] at h
      have h3' := combined_none_transfer d _ _ 3 (by omega) hl h3
      cases h2 : combined d (x ++ r) 0 2 with
      | error er => rw [h2] at h; cases h
      | ok r2 =>
        rw [h2] at h
        cases r2 with
        | some res =>
          simp only [pure, Except.pure, Except.ok.injEq] at h
          subst h
          have he := combined_end h2
          obtain ⟨t', h2', e1, e2⟩ := viewC_some (combined_stable_le d x r r' 2 (by omega) (by omega)) h2
          unfold parseSymbol
          rw [h3']
          simp only [bind, Except.bind, h2']
          simp [pure, Except.pure, viewR, Except.map, e1, e2]
        | none =>
          simp only [] at h
          have h2' := combined_none_transfer d _ _ 2 (by omega) hl h2
          unfold parseSymbol
          rw [h3']
          simp only [bind, Except.bind, h2']
          -- the single-character path: x is one character
          cases x with
          | nil =>
            exfalso
            cases hv : charAt ([] ++ r) 0 with
            | error er => rw [hv] at h; cases h
            | ok value =>
              rw [hv] at h
              simp only [] at h
              repeat' split at h
              all_goals first | cases h | (cases hw : charIn d.whiteSpace ([] ++ r) (0 + 1) <;> rw [hw] at h <;> simp at h <;> try (split at h <;> simp [pure, Except.pure] at h)) | simp [pure, Except.pure] at h
          | cons c cs =>
            have hv : ∀ rr : Str, charAt (c :: cs ++ rr) 0 = .ok c := fun rr => by simp [charAt]
            rw [hv] at h
            simp only [hv]
            simp only [] at h ⊢
            cases hi : indexOf? c d.symbol with
            | none => rw [hi] at h; cases h
            | some off =>
              rw [hi] at h
              simp only [] at h ⊢
              cases hty : typeOf d (Dom.symbol * 16 + off) with
              | error er => rw [hty] at h; cases h
              | ok ty =>
                rw [hty] at h
                simp only [Nat.zero_add] at h ⊢
                have hcs : cs = [] := by
                  have : (c :: cs).length = 1 := by
                    repeat' split at h
                    all_goals first
                      | (simp only [pure, Except.pure, Except.ok.injEq, Prod.mk.injEq] at h; exact h.1.symm)
                      | cases h
                  simpa using this
                subst hcs
                simp only [List.singleton_append] at h ⊢
                by_cases hmin : ty = T.minus
                · simp only [hmin, ↓reduceIte] at h ⊢
                  have h' : minusTail d c T.minus (c :: r) = .ok ([c].length, t) := h
                  show viewR 0 (minusTail d c T.minus (c :: r')) = _
                  have hview := congrArg (viewR 0) h'
                  rw [minus_view] at hview ⊢
                  simp only [viewR, Except.map, Except.ok.injEq, Prod.mk.injEq, List.length_cons, List.length_nil, Nat.zero_add,
                    Nat.sub_zero, true_and] at hview
                  have htm : t.type = T.minus := by
                    have := congrArg Prod.fst hview
                    simp only [] at this
                    rw [← this]; split <;> rfl
                  rw [← hm htm]
                  simp only [List.length_cons, List.length_nil, Nat.zero_add]
                  rw [hview]
                · simp only [hmin, ↓reduceIte] at h ⊢
                  simp only [pure, Except.pure, Except.ok.injEq, Prod.mk.injEq] at h
                  simp [viewR, Except.map, pure, Except.pure, ← h.2]

theorem parseComment_open {d : TokenDef} {s : Str} {e : Nat} {t : Token} (h : parseComment d s 0 = .ok (e, t)) :
    ∃ p0, firstOpen d.comment s 0 = .ok p0 ∧ p0.1.length ≤ e := by
  unfold parseComment at h
  cases hf : firstOpen d.comment s 0 with
  | error er => rw [hf] at h; cases h
  | ok p0 =>
    rw [hf] at h
    obtain ⟨_, hs⟩ := firstOpen_ok hf
    have hb := startsWithAt_bound hs
    refine ⟨p0, rfl, ?_⟩
    simp only [bind, Except.bind, Nat.zero_add] at h
    split at h
    · rename_i idx hfind
      have := findFrom_bound hfind
      simp only [pure, Except.pure, Except.ok.injEq, Prod.mk.injEq] at h
      omega
    · simp only [pure, Except.pure, Except.ok.injEq, Prod.mk.injEq] at h
      omega

theorem parseQuote_open {d : TokenDef} (hw : wf d = true) {s : Str} {e : Nat} {t : Token} (h : parseQuote d s 0 = .ok (e, t)) :
    ∃ p0, firstOpen d.quote s 0 = .ok p0 ∧ p0.1.length ≤ e := by
  unfold parseQuote at h
  cases hf : firstOpen d.quote s 0 with
  | error er => rw [hf] at h; cases h
  | ok p0 =>
    rw [hf] at h
    obtain ⟨hmem, hs⟩ := firstOpen_ok hf
    have hb := startsWithAt_bound hs
    have hlen := wf_quote hw hmem
    refine ⟨p0, rfl, ?_⟩
    obtain ⟨e', hq, h1, _⟩ := quoteLoop_ok (src := s) hlen.2 (0 + p0.1.length) s.length (0 + p0.1.length) hb (by omega)
    simp only [bind, Except.bind, hq] at h
    split at h
    · cases h
    · simp only [pure, Except.pure, Except.ok.injEq, Prod.mk.injEq] at h
      omega

/-- what the continuation must preserve for the token kind that was dispatched -/
structure HeadOK (d : TokenDef) (dom : Nat) (t : Token) (r r' : Str) : Prop where
  ws : dom = Dom.whiteSpace → headIn d.whiteSpace r' = true → headIn d.whiteSpace r = true
  num : dom = Dom.number → headIn d.number r' = true → headIn d.number r = true
  ident : dom = Dom.identifier → headIn d.identifier r' = true → headIn d.identifier r = true
  comment : dom = Dom.comment → nlOrEnd r' = true
  minus : t.type = T.minus → wsOrEnd d.whiteSpace r = wsOrEnd d.whiteSpace r'

/-- **Stability of the first token.** If the lexer reads the token `x` at the start of `x ++ r`, it reads the same token
    (up to the source map) at the start of `x ++ r'`, provided no look-ahead pattern newly matches, the character after
    the token keeps the role it had for this kind of token, and a string literal is terminated. -/
theorem step_stable {d : TokenDef} (hw : wf d = true) (hwl : wfLayout d = true) (x r r' : Str) (hx : x ≠ []) {dom : Nat} {t : Token}
    (hd : analyzeDomain d (x ++ r) 0 = .ok dom) (hp : parser d dom (x ++ r) 0 = .ok (x.length, t))
    (hl : LookOK d (x ++ r) (x ++ r')) (hh : HeadOK d dom t r r') (hq : dom = Dom.quote → quoteClosed d (x ++ r) = true) :
    analyzeDomain d (x ++ r') 0 = .ok dom ∧ viewR 0 (parser d dom (x ++ r') 0) = .ok (x.length, t.type, t.string) := by
  obtain ⟨c, cs, rfl⟩ : ∃ c cs, x = c :: cs := by
    cases x with
    | nil => exact absurd rfl hx
    | cons c cs => exact ⟨c, cs, rfl⟩
  have ha := analyzeGo_sound _ _ hd
  have hgo : ∀ (ht : analyzer d dom (c :: cs ++ r') 0 = .ok true), analyzeDomain d (c :: cs ++ r') 0 = .ok dom :=
    fun ht => analyzeGo_transfer (fun y => analyzer_false_transfer hl y) ht _ hd
  have hclass : ∀ a : Str, charIn a (c :: cs ++ r) 0 = .ok true → charIn a (c :: cs ++ r') 0 = .ok true := by
    intro a h; simpa only [List.cons_append, charIn_zero] using h
  unfold parser at hp ⊢
  unfold analyzer at ha
  by_cases h0 : dom = Dom.whiteSpace
  · simp only [h0, ↓reduceIte] at hp ha ⊢
    exact ⟨h0 ▸ hgo (by rw [h0]; unfold analyzer; simp only [↓reduceIte]; exact hclass _ ha),
      parseWhiteSpace_stable d _ r r' t hp (hh.ws h0)⟩
  · simp only [h0, ↓reduceIte] at hp ha ⊢
    by_cases h1 : dom = Dom.comment
    · simp only [h1, ↓reduceIte] at hp ha ⊢
      refine ⟨h1 ▸ hgo ?_, parseComment_stable d hwl _ r r' t hp hl (hh.comment h1)⟩
      rw [h1]; unfold analyzer
      simp only [show ¬ Dom.comment = Dom.whiteSpace from by decide, ↓reduceIte]
      obtain ⟨p0, hf, hk⟩ := parseComment_open hp
      have hf' := firstOpen_transfer (x := c :: cs) d.comment (comment_sub d) hl hf hk
      obtain ⟨hm, hs⟩ := firstOpen_ok hf'
      have : anyOpen d.comment (c :: cs ++ r') 0 = true := by
        simp only [anyOpen, List.any_eq_true]; exact ⟨p0, hm, hs⟩
      rw [this]
    · simp only [h1, ↓reduceIte] at hp ha ⊢
      by_cases h2 : dom = Dom.quote
      · simp only [h2, ↓reduceIte] at hp ha ⊢
        refine ⟨h2 ▸ hgo ?_, parseQuote_stable d hw _ r r' t hp (hq h2) hl⟩
        rw [h2]; unfold analyzer
        simp only [show ¬ Dom.quote = Dom.whiteSpace from by decide, show ¬ Dom.quote = Dom.comment from by decide, ↓reduceIte]
        obtain ⟨p0, hf, hk⟩ := parseQuote_open hw hp
        have hf' := firstOpen_transfer (x := c :: cs) d.quote (quote_sub d) hl hf hk
        obtain ⟨hm, hs⟩ := firstOpen_ok hf'
        have : anyOpen d.quote (c :: cs ++ r') 0 = true := by
          simp only [anyOpen, List.any_eq_true]; exact ⟨p0, hm, hs⟩
        rw [this]
      · simp only [h2, ↓reduceIte] at hp ha ⊢
        by_cases h3 : dom = Dom.number
        · simp only [h3, ↓reduceIte] at hp ha ⊢
          refine ⟨h3 ▸ hgo ?_, parseNumber_stable d _ r r' t hp (hh.num h3)⟩
          rw [h3]; unfold analyzer
          simp only [show ¬ Dom.number = Dom.whiteSpace from by decide, show ¬ Dom.number = Dom.comment from by decide,
            show ¬ Dom.number = Dom.quote from by decide, ↓reduceIte]
          exact hclass _ ha
        · simp only [h3, ↓reduceIte] at hp ha ⊢
          by_cases h4 : dom = Dom.identifier
          · simp only [h4, ↓reduceIte] at hp ha ⊢
            refine ⟨h4 ▸ hgo ?_, parseIdentifier_stable d _ r r' t hp (hh.ident h4)⟩
            rw [h4]; unfold analyzer
            simp only [show ¬ Dom.identifier = Dom.whiteSpace from by decide, show ¬ Dom.identifier = Dom.comment from by decide,
              show ¬ Dom.identifier = Dom.quote from by decide, show ¬ Dom.identifier = Dom.number from by decide, ↓reduceIte]
            exact hclass _ ha
          · simp only [h4, ↓reduceIte] at hp ha ⊢
            by_cases h5 : dom = Dom.symbol
            · simp only [h5, ↓reduceIte] at hp ha ⊢
              refine ⟨h5 ▸ hgo ?_, parseSymbol_stable d _ r r' t hp hl hh.minus⟩
              rw [h5]; unfold analyzer
              simp only [show ¬ Dom.symbol = Dom.whiteSpace from by decide, show ¬ Dom.symbol = Dom.comment from by decide,
                show ¬ Dom.symbol = Dom.quote from by decide, show ¬ Dom.symbol = Dom.number from by decide,
                show ¬ Dom.symbol = Dom.identifier from by decide, ↓reduceIte]
              exact hclass _ ha
            · simp only [h5, ↓reduceIte] at hp
              cases hp

/-! ### a prefix of whole tokens is lexed the same when the rest changes -/

theorem parseComment_nl {d : TokenDef} (hwl : wfLayout d = true) {x r : Str} {t : Token}
    (h : parseComment d (x ++ r) 0 = .ok (x.length, t)) : nlOrEnd r = true := by
  unfold parseComment at h
  cases hf : firstOpen d.comment (x ++ r) 0 with
  | error e => rw [hf] at h; cases h
  | ok p0 =>
    rw [hf] at h
    obtain ⟨hmem, hs⟩ := firstOpen_ok hf
    have hclose := wfLayout_comment hwl hmem
    simp only [bind, Except.bind, hclose, ↓reduceIte, Nat.zero_add, Nat.add_zero] at h
    cases hfind : findFrom (x ++ r) ['\n'] p0.1.length with
    | some idx =>
      rw [hfind] at h
      simp only [pure, Except.pure, Except.ok.injEq, Prod.mk.injEq] at h
      have hidx : idx = x.length := h.1
      subst hidx
      have hb := findFrom_bound hfind
      unfold findFrom at hfind
      simp only [show p0.1.length ≤ (x ++ r).length from by simp; omega, ↓reduceIte] at hfind
      rw [List.drop_append_of_le_length hb.1] at hfind
      cases hfs : findSub ['\n'] (x.drop p0.1.length ++ r) with
      | none => rw [hfs] at hfind; cases hfind
      | some j =>
        rw [hfs] at hfind
        simp only [Option.map_some, Option.some.injEq] at hfind
        have hj : j = (x.drop p0.1.length).length := by simp; omega
        have := (findSub_single_some '\n' _ j hfs).2
        rw [hj, List.getElem?_append_right (Nat.le_refl _)] at this
        simp only [Nat.sub_self] at this
        cases r with
        | nil => simp at this
        | cons c cs => simp at this; simp [nlOrEnd, this]
    | none =>
      rw [hfind] at h
      simp only [pure, Except.pure, Except.ok.injEq, Prod.mk.injEq] at h
      have hr : r = [] := by
        have h1 := h.1
        simp only [List.length_append] at h1
        exact List.eq_nil_of_length_eq_zero (by omega)
      subst hr; rfl

theorem headIn_append_of_ne (a c r : Str) (hc : c ≠ []) : headIn a (c ++ r) = headIn a c := by
  cases c with
  | nil => exact absurd rfl hc
  | cons x xs => rfl

theorem nlOrEnd_append_of_ne (c r : Str) (hc : c ≠ []) : nlOrEnd (c ++ r) = nlOrEnd c := by
  cases c with
  | nil => exact absurd rfl hc
  | cons x xs => rfl

theorem wsOrEnd_append_of_ne (a c r : Str) (hc : c ≠ []) : wsOrEnd a (c ++ r) = wsOrEnd a c := by
  cases c with
  | nil => exact absurd rfl hc
  | cons x xs => rfl

theorem wfLayout_pats {d : TokenDef} (hwl : wfLayout d = true) : ∀ p ∈ lookPats d, ∀ ch ∈ p, d.whiteSpace.contains ch = false := by
  simp only [wfLayout, Bool.and_eq_true, List.all_eq_true, blankFree, Bool.not_eq_true'] at hwl
  obtain ⟨⟨⟨⟨h1, h2⟩, h3⟩, _⟩, _⟩ := hwl
  intro p hp ch hch
  simp only [lookPats, List.mem_append, List.mem_map] at hp
  rcases hp with (⟨q, hq, rfl⟩ | ⟨q, hq, rfl⟩) | hp
  · exact (h1 q hq).2 ch hch
  · exact h2 q hq ch hch
  · exact h3 p hp ch hch

/-- how the continuation may change: after a common part `c` the new text is empty or starts with a white space character -/
def Compat (d : TokenDef) (r r' : Str) : Prop :=
  ∃ c r0 r0', r = c ++ r0 ∧ r' = c ++ r0' ∧ (r0' = [] ∨ headIn d.whiteSpace r0' = true)

theorem Compat.lookOK {d : TokenDef} (hwl : wfLayout d = true) {r r' : Str} (hc : Compat d r r') (x : Str) :
    LookOK d (x ++ r) (x ++ r') := by
  obtain ⟨c, r0, r0', rfl, rfl, hws⟩ := hc
  intro p hp hm
  rw [← List.append_assoc] at hm ⊢
  exact startsWith_transfer d.whiteSpace x c r0 r0' p (wfLayout_pats hwl p hp) hws hm

/-- prepending a token text keeps compatibility, now with a non-empty common part -/
theorem Compat.cons {d : TokenDef} {r r' : Str} (hc : Compat d r r') (a : Str) : Compat d (a ++ r) (a ++ r') := by
  obtain ⟨c, r0, r0', rfl, rfl, hws⟩ := hc
  exact ⟨a ++ c, r0, r0', by simp, by simp, hws⟩

/-- `a` consists of whole tokens `ta` when `a ++ r` is lexed; every string literal among them is terminated, and the last
    token tolerates the change of what follows it from `r` to `r'` -/
inductive TokPrefix (d : TokenDef) (r r' : Str) : Str → List (Nat × Str) → Prop
  | nil : TokPrefix d r r' [] []
  | cons {x a : Str} {dom : Nat} {t : Token} {ta : List (Nat × Str)} :
      x ≠ [] → analyzeDomain d (x ++ (a ++ r)) 0 = .ok dom → parser d dom (x ++ (a ++ r)) 0 = .ok (x.length, t) →
      (dom = Dom.quote → quoteClosed d (x ++ (a ++ r)) = true) → (a = [] → HeadOK d dom t r r') →
      TokPrefix d r r' a ta → TokPrefix d r r' (x ++ a) (simplify t :: ta)

theorem step_of {d : TokenDef} {s : Str} {dom e : Nat} {t : Token} (hd : analyzeDomain d s 0 = .ok dom)
    (hp : parser d dom s 0 = .ok (e, t)) : step d s = .ok (e, t) := by
  simp [step, hd, hp, bind, Except.bind]

theorem HeadOK_of_ne {d : TokenDef} (hwl : wfLayout d = true) {dom : Nat} {t : Token} {x a r r' : Str} (ha : a ≠ [])
    (hp : parser d dom (x ++ (a ++ r)) 0 = .ok (x.length, t)) : HeadOK d dom t (a ++ r) (a ++ r') := by
  refine ⟨?_, ?_, ?_, ?_, ?_⟩
  · intro _ h; rw [headIn_append_of_ne _ _ _ ha] at h ⊢; exact h
  · intro _ h; rw [headIn_append_of_ne _ _ _ ha] at h ⊢; exact h
  · intro _ h; rw [headIn_append_of_ne _ _ _ ha] at h ⊢; exact h
  · intro hdom
    have hpc : parseComment d (x ++ (a ++ r)) 0 = .ok (x.length, t) := by
      unfold parser at hp
      simp only [hdom, show ¬ Dom.comment = Dom.whiteSpace from by decide, ↓reduceIte] at hp
      exact hp
    have := parseComment_nl hwl hpc
    rw [nlOrEnd_append_of_ne _ _ ha] at this ⊢; exact this
  · intro _; rw [wsOrEnd_append_of_ne _ _ _ ha, wsOrEnd_append_of_ne _ _ _ ha]

/-- **Prefix congruence.** The whole tokens `a` in front are lexed identically (up to source maps) when what follows them
    changes compatibly. -/
theorem lexS_prefix {d : TokenDef} (hw : wf d = true) (hwl : wfLayout d = true) {r r' : Str} (hc : Compat d r r')
    {a : Str} {ta : List (Nat × Str)} (hp : TokPrefix d r r' a ta) :
    lexS d (a ++ r) = (lexS d r).map (fun rest => ta ++ rest) ∧ lexS d (a ++ r') = (lexS d r').map (fun rest => ta ++ rest) := by
  induction hp with
  | nil =>
    constructor <;> (simp only [List.nil_append]; cases lexS d _ <;> rfl)
  | @cons x a dom t ta hx hd hpar hq hnear _ ih =>
    have hl : LookOK d (x ++ (a ++ r)) (x ++ (a ++ r')) := (hc.cons a).lookOK hwl x
    have hh : HeadOK d dom t (a ++ r) (a ++ r') := by
      by_cases ha : a = []
      · subst ha; simpa using hnear rfl
      · exact HeadOK_of_ne hwl ha hpar
    obtain ⟨hd', hv⟩ := step_stable hw hwl x (a ++ r) (a ++ r') hx hd hpar hl hh hq
    -- the first token on both sides
    have s1 : step d (x ++ (a ++ r)) = .ok (x.length, t) := step_of hd hpar
    cases hpar' : parser d dom (x ++ (a ++ r')) 0 with
    | error e => rw [hpar'] at hv; simp [viewR, Except.map] at hv
    | ok res =>
      obtain ⟨e', t'⟩ := res
      rw [hpar'] at hv
      simp only [viewR, Except.map, Except.ok.injEq, Prod.mk.injEq, Nat.sub_zero] at hv
      obtain ⟨he, hty, hstr⟩ := hv
      subst he
      have s2 : step d (x ++ (a ++ r')) = .ok (x.length, t') := step_of hd' hpar'
      have hsim : simplify t' = simplify t := by simp [simplify, hty, hstr]
      have ne1 : x ++ (a ++ r) ≠ [] := by simp [hx]
      have ne2 : x ++ (a ++ r') ≠ [] := by simp [hx]
      have u1 := lexS_unfold hw _ ne1
      have u2 := lexS_unfold hw _ ne2
      rw [s1] at u1
      rw [s2] at u2
      simp only [List.drop_left] at u1 u2
      rw [List.append_assoc, List.append_assoc, u1, u2, ih.1, ih.2, hsim]
      constructor
      · cases lexS d r <;> simp [Except.map]
      · cases lexS d r' <;> simp [Except.map]

/-! ### shape of what `parse_impl` returns -/

theorem takeWhile_stop (f : Char → Bool) : ∀ (l : Str) (c : Char), l[(l.takeWhile f).length]? = some c → f c = false
  | [], c, h => by simp at h
  | x :: xs, c, h => by
    cases hx : f x
    · simp [List.takeWhile, hx] at h; rw [← h]; exact hx
    · simp only [List.takeWhile, hx, List.length_cons, List.getElem?_cons_succ] at h
      exact takeWhile_stop f xs c h

theorem spanLen_stop (a s : Str) (i : Nat) (c : Char) (h : s[i + spanLen a s i]? = some c) : a.contains c = false := by
  unfold spanLen at h
  have : (s.drop i)[((s.drop i).takeWhile (fun c => a.contains c)).length]? = some c := by
    rw [List.getElem?_drop]; exact h
  exact takeWhile_stop _ _ c this

theorem count_pos_mem (c : Char) (s : Str) (h : Str.count c s ≠ 0) : c ∈ s := by
  unfold Str.count at h
  have : (s.filter (· = c)) ≠ [] := fun e => h (by rw [e]; rfl)
  obtain ⟨x, hx⟩ := List.exists_mem_of_ne_nil _ this
  have := List.mem_filter.mp hx
  simp only [decide_eq_true_eq] at this
  rw [← this.2]; exact this.1

/-- what the white-space parser returns -/
theorem parseWhiteSpace_facts {d : TokenDef} (hw : wf d = true) {src : Str} {i e : Nat} {t : Token}
    (h : parseWhiteSpace d src i = .ok (e, t)) :
    e = i + spanLen d.whiteSpace src i ∧ t.string = slice src i e ∧ (isLBt t = true → '\n' ∈ t.string) := by
  have hbs : '\\' ∉ d.whiteSpace := by simp [wf] at hw; exact hw.1.2
  have hno : '\\' ∉ slice src i (i + spanLen d.whiteSpace src i) := by
    intro hm
    have := spanLen_all d.whiteSpace src i _ hm
    simp at this; exact hbs this
  have hz := countSubAux_zero '\\' ['\n'] _ 0 hno
  unfold parseWhiteSpace at h
  simp only [hz, Nat.lt_irrefl, ↓reduceIte] at h
  split at h
  · injection h with h; injection h with h1 h2; subst h1 h2
    exact ⟨rfl, rfl, by intro hl; simp [isLBt, T.whiteSpace, T.lineBreak] at hl⟩
  · rename_i hcnt
    injection h with h; injection h with h1 h2; subst h1 h2
    exact ⟨rfl, rfl, fun _ => count_pos_mem _ _ hcnt⟩

theorem combined_type {d : TokenDef} {src : Str} {b w e : Nat} {t : Token} (h : combined d src b w = .ok (some (e, t))) :
    80 ≤ t.type := by
  unfold combined at h
  simp only [] at h
  split at h
  · cases h
  · split at h
    · cases h
    · rename_i off _
      cases hty : typeOf d (T.beginCombine + off) with
      | error er => rw [hty] at h; cases h
      | ok ty =>
        rw [hty] at h
        have := typeOf_ok hty
        simp only [bind, Except.bind, pure, Except.pure, Except.ok.injEq, Option.some.injEq, Prod.mk.injEq] at h
        rw [← h.2]; simp only [this, T.beginCombine]; omega

theorem parseSymbol_type {d : TokenDef} {src : Str} {b e : Nat} {t : Token} (h : parseSymbol d src b = .ok (e, t)) :
    80 ≤ t.type := by
  unfold parseSymbol at h
  cases h3 : combined d src b 3 with
  | error er => rw [h3] at h; cases h
  | ok r3 =>
    rw [h3] at h
    simp only [bind, Except.bind] at h
    cases r3 with
    | some r =>
      simp only [pure, Except.pure, Except.ok.injEq] at h
      subst h; exact combined_type h3
    | none =>
      simp only [] at h
      cases h2 : combined d src b 2 with
      | error er => rw [h2] at h; cases h
      | ok r2 =>
        rw [h2] at h
        cases r2 with
        | some r =>
          simp only [pure, Except.pure, Except.ok.injEq] at h
          subst h; exact combined_type h2
        | none =>
          simp only [] at h
          cases hv : charAt src b with
          | error er => rw [hv] at h; cases h
          | ok value =>
            rw [hv] at h
            simp only [] at h
            split at h
            · cases h
            · rename_i off _
              cases hty : typeOf d (Dom.symbol * 16 + off) with
              | error er => rw [hty] at h; cases h
              | ok ty =>
                rw [hty] at h
                have htyv := typeOf_ok hty
                have hge : 80 ≤ ty := by rw [htyv]; simp [Dom.symbol]
                simp only [] at h
                split at h
                · split at h
                  · cases hws : charIn d.whiteSpace src (b + 1) with
                    | error er => rw [hws] at h; cases h
                    | ok ws =>
                      rw [hws] at h
                      simp only [] at h
                      split at h <;> (simp only [pure, Except.pure, Except.ok.injEq, Prod.mk.injEq] at h; rw [← h.2])
                      · simp [Token.opUnaryMinus, T.minus]
                      · exact hge
                  · simp only [pure, Except.pure, Except.ok.injEq, Prod.mk.injEq] at h; rw [← h.2]; exact hge
                · simp only [pure, Except.pure, Except.ok.injEq, Prod.mk.injEq] at h; rw [← h.2]; exact hge

/-- only the white-space parser makes line break tokens -/
theorem parser_lb {d : TokenDef} {dom : Nat} {src : Str} {i e : Nat} {t : Token} (h : parser d dom src i = .ok (e, t))
    (hl : isLBt t = true) : dom = Dom.whiteSpace := by
  have hty : t.type = T.lineBreak := by simpa [isLBt] using hl
  unfold parser at h
  split at h
  · assumption
  · exfalso
    split at h
    · unfold parseComment at h
      cases hf : firstOpen d.comment src i with
      | error er => rw [hf] at h; cases h
      | ok p =>
        rw [hf] at h
        simp only [bind, Except.bind] at h
        split at h <;> (simp only [pure, Except.pure, Except.ok.injEq, Prod.mk.injEq] at h; rw [← h.2] at hty; simp [T.comment, T.lineBreak] at hty)
    · split at h
      · unfold parseQuote at h
        cases hf : firstOpen d.quote src i with
        | error er => rw [hf] at h; cases h
        | ok p =>
          rw [hf] at h
          simp only [bind, Except.bind] at h
          cases hq : quoteLoop src p.2 (i + p.1.length) src.length (i + p.1.length) with
          | error er => rw [hq] at h; cases h
          | ok e' =>
            rw [hq] at h
            simp only [] at h
            split at h
            · cases h
            · simp only [pure, Except.pure, Except.ok.injEq, Prod.mk.injEq] at h
              rw [← h.2] at hty
              simp only [] at hty
              split at hty <;> simp [T.regexp, T.string, T.lineBreak] at hty
      · split at h
        · unfold parseNumber at h
          simp only [Except.ok.injEq, Prod.mk.injEq] at h
          rw [← h.2] at hty
          simp only [] at hty
          split at hty <;> simp [T.decimal, T.digit, T.lineBreak] at hty
        · split at h
          · unfold parseIdentifier at h
            simp only [Except.ok.injEq, Prod.mk.injEq] at h
            rw [← h.2] at hty
            simp [T.name, T.lineBreak] at hty
          · split at h
            · have := parseSymbol_type h
              rw [hty] at this; simp [T.lineBreak] at this
            · cases h

/-- a lexer-made line break: contains a newline, is non-empty white space -/
def lbRawOK (d : TokenDef) (t : Token) : Prop :=
  isLBt t = true → '\n' ∈ t.string ∧ t.string ≠ [] ∧ ∀ c ∈ t.string, c ∈ d.whiteSpace

theorem parseLoop_shape {d : TokenDef} (hw : wf d = true) {src : Str} : ∀ (fuel i : Nat) (toks : List Token),
    parseLoop d src fuel i = .ok toks →
    (∀ t ∈ toks, lbRawOK d t) ∧ noAdj toks = true ∧ (headLB toks = true → charIn d.whiteSpace src i = .ok true)
  | fuel, i, toks, h => by
    unfold parseLoop at h
    split at h
    · rename_i hlt
      cases fuel with
      | zero => cases h
      | succ f =>
        simp only [] at h
        cases hd : analyzeDomain d src i with
        | error er => rw [hd] at h; cases h
        | ok dom =>
          rw [hd] at h
          simp only [bind, Except.bind] at h
          cases hp : parser d dom src i with
          | error er => rw [hp] at h; cases h
          | ok res =>
            obtain ⟨e, t⟩ := res
            rw [hp] at h
            simp only [] at h
            cases hr : parseLoop d src f e with
            | error er => rw [hr] at h; cases h
            | ok rest =>
              rw [hr] at h
              simp only [pure, Except.pure, Except.ok.injEq] at h
              subst h
              obtain ⟨i1, i2, i3⟩ := parseLoop_shape hw f e rest hr
              have hs := parser_ok hw hlt hd hp
              -- facts about `t` when it is a line break
              have hlb : isLBt t = true → dom = Dom.whiteSpace ∧ e = i + spanLen d.whiteSpace src i ∧
                  t.string = slice src i e ∧ '\n' ∈ t.string := by
                intro hl
                have hdom := parser_lb hp hl
                have hpw : parseWhiteSpace d src i = .ok (e, t) := by
                  unfold parser at hp; simpa [hdom] using hp
                obtain ⟨f1, f2, f3⟩ := parseWhiteSpace_facts hw hpw
                exact ⟨hdom, f1, f2, f3 hl⟩
              refine ⟨?_, ?_, ?_⟩
              · intro t' ht'
                simp only [List.mem_cons] at ht'
                cases ht' with
                | inl h1 =>
                  subst h1
                  intro hl
                  obtain ⟨_, f1, f2, f3⟩ := hlb hl
                  refine ⟨f3, ?_, ?_⟩
                  · rw [f2]; intro hnil
                    have := congrArg List.length hnil
                    rw [slice_length src hs.le, List.length_nil] at this
                    have := hs.lt; omega
                  · intro c hc
                    rw [f2, f1] at hc
                    have := spanLen_all d.whiteSpace src i c hc
                    simpa using this
                | inr h1 => exact i1 t' h1
              · rw [noAdj_cons, i2]
                simp only [Bool.and_true, Bool.not_eq_true', Bool.and_eq_false_iff]
                by_cases hl : isLBt t = true
                · right
                  cases hh : headLB rest
                  · rfl
                  · exfalso
                    obtain ⟨_, f1, _, _⟩ := hlb hl
                    have hnext := i3 hh
                    obtain ⟨c, hc, hin⟩ := charIn_ok hnext
                    rw [f1] at hc
                    have := spanLen_stop d.whiteSpace src i c hc
                    rw [this] at hin; cases hin
                · left; simpa using hl
              · intro hh
                rw [headLB_cons] at hh
                obtain ⟨hdom, _⟩ := hlb hh
                have ha := analyzeGo_sound _ _ hd
                unfold analyzer at ha
                simpa [hdom] using ha
    · injection h with h; subst h
      exact ⟨by simp, rfl, by simp [headLB_nil]⟩

theorem parseImpl_shape {d : TokenDef} (hw : wf d = true) {src : Str} {toks : List Token} (h : parseImpl d src = .ok toks) :
    filterable d toks ∧ ∀ t ∈ toks, lbNL t := by
  obtain ⟨h1, h2, _⟩ := parseLoop_shape hw _ _ _ h
  refine ⟨⟨h2, ?_⟩, ?_⟩
  · intro t ht hl; exact (h1 t ht hl).2
  · intro t ht hl; exact (h1 t ht hl).1

/-! ### from raw token lists up to source maps to `Tokenizer.parse` -/

def unsimp (p : Nat × Str) : Token := ⟨p.1, p.2, SourceMap.empty⟩

theorem LBsame.symm {a b : Token} (h : LBsame a b) : LBsame b a := by
  obtain ⟨h1, h2⟩ := h
  refine ⟨h1.symm, ?_⟩
  rw [← h1]
  split
  · rename_i hl
    simp only [hl, ↓reduceIte] at h2
    obtain ⟨m, m1, m2⟩ := h2
    exact ⟨m, m2, m1⟩
  · rename_i hl
    simp only [hl, ↓reduceIte] at h2
    exact h2.symm

theorem LBsame.trans {a b c : Token} (h : LBsame a b) (h' : LBsame b c) : LBsame a c := by
  obtain ⟨h1, h2⟩ := h
  obtain ⟨h3, h4⟩ := h'
  refine ⟨h1.trans h3, ?_⟩
  rw [← h1] at h4
  split
  · rename_i hl
    simp only [hl, ↓reduceIte] at h2 h4
    obtain ⟨m, m1, m2⟩ := h2
    obtain ⟨n, n1, n2⟩ := h4
    exact ⟨m, m1, by omega⟩
  · rename_i hl
    simp only [hl, ↓reduceIte] at h2 h4
    exact h2.trans h4

theorem AllRel.symm' {x y : List Token} (h : AllRel LBsame x y) : AllRel LBsame y x := by
  induction h with
  | nil => exact .nil
  | cons hab _ ih => exact .cons hab.symm ih

theorem AllRel.trans' {x y z : List Token} (h : AllRel LBsame x y) (h' : AllRel LBsame y z) : AllRel LBsame x z := by
  induction h generalizing z with
  | nil => cases h'; exact .nil
  | cons hab _ ih =>
    cases h' with
    | cons hbc hr => exact .cons (hab.trans hbc) (ih hr)

theorem unsimp_rel (ts : List Token) : AllRel LBsame ts ((ts.map simplify).map unsimp) := by
  induction ts with
  | nil => exact .nil
  | cons t ts ih =>
    refine .cons ⟨rfl, ?_⟩ ih
    split
    · exact ⟨lastLineLen t.string, by simp, by simp [unsimp, simplify]⟩
    · rfl

theorem unsimp_lbNL (ts : List Token) (h : ∀ t ∈ ts, lbNL t) : ∀ t ∈ (ts.map simplify).map unsimp, lbNL t := by
  intro t ht
  simp only [List.map_map, List.mem_map, Function.comp] at ht
  obtain ⟨u, hu, rfl⟩ := ht
  intro hl
  exact h u hu hl

/-- `Tokenizer.parse` is determined by `norm` of the raw tokens up to line-break widths and source maps. -/
theorem tokenize_layout {d : TokenDef} (hw : wf d = true) (hd : ShippedFilters d) (hb : regexBlind d = true)
    {s s' : Str} {L L' : List (Nat × Str)} (h1 : lexS d s = .ok L) (h2 : lexS d s' = .ok L')
    (H : AllRel LBsame (norm (L.map unsimp)) (norm (L'.map unsimp))) :
    (tokenize d s).map (List.map simplify) = (tokenize d s').map (List.map simplify) := by
  have key : ∀ (s : Str) (L : List (Nat × Str)), lexS d s = .ok L →
      ∃ ts, parseImpl d s = .ok ts ∧ tokenize d s = rebuild (norm ts ++ [Token.mkEOF]) ∧
        AllRel LBsame (norm ts) (norm (L.map unsimp)) := by
    intro s L h
    unfold lexS viewL at h
    cases hp : parseImpl d s with
    | error e => rw [hp] at h; simp [Except.map] at h
    | ok ts =>
      rw [hp] at h
      simp only [Except.map, Except.ok.injEq] at h
      subst h
      obtain ⟨hf, hn⟩ := parseImpl_shape hw hp
      refine ⟨ts, rfl, ?_, norm_rel (unsimp_rel ts) hn (unsimp_lbNL ts hn)⟩
      simp [tokenize, lexParse, hp, bind, Except.bind, pure, Except.pure, postFilter_norm hd hb hf]
  obtain ⟨ts, _, t1, r1⟩ := key s L h1
  obtain ⟨ts', _, t2, r2⟩ := key s' L' h2
  rw [t1, t2]
  exact rebuild_LBsame ((r1.trans' H).trans' r2.symm')

/-! ### white space runs and comments at the head of the rest -/

set_option linter.unusedSimpArgs false

/-- the analyse order starts with white space, then comments (decided for the generated definitions) -/
def orderOK (d : TokenDef) : Bool :=
  match d.analyzeOrder with
  | a :: b :: _ => a == Dom.whiteSpace && b == Dom.comment
  | _ => false

theorem step_ws {d : TokenDef} (hw : wf d = true) (ho : orderOK d = true) (w r : Str) (hne : w ≠ [])
    (hall : ∀ c ∈ w, d.whiteSpace.contains c = true) (hr : headIn d.whiteSpace r = false) :
    ∃ t, step d (w ++ r) = .ok (w.length, t) ∧ t.string = w ∧
      t.type = (if Str.count '\n' w = 0 then T.whiteSpace else T.lineBreak) := by
  obtain ⟨c, cs, rfl⟩ : ∃ c cs, w = c :: cs := by
    cases w with
    | nil => exact absurd rfl hne
    | cons c cs => exact ⟨c, cs, rfl⟩
  have hc : d.whiteSpace.contains c = true := hall c (by simp)
  have hd : analyzeDomain d (c :: cs ++ r) 0 = .ok Dom.whiteSpace := by
    unfold analyzeDomain
    unfold orderOK at ho
    split at ho
    · rename_i a b rest heq
      simp only [Bool.and_eq_true, beq_iff_eq] at ho
      rw [heq, ho.1]
      unfold analyzeGo analyzer
      have hc' : c ∈ d.whiteSpace := by simpa using hc
      simp [charIn_zero, hc', bind, Except.bind, pure, Except.pure]
    · cases ho
  have hspan : spanLen d.whiteSpace (c :: cs ++ r) 0 = (c :: cs).length := (spanLen_prefix_iff _ _ _).mpr ⟨hall, hr⟩
  have hbs : '\\' ∉ d.whiteSpace := by simp [wf] at hw; exact hw.1.2
  have hno : '\\' ∉ (c :: cs) := by
    intro hm; have := hall _ hm; simp at this; exact hbs this
  have hz := countSubAux_zero '\\' ['\n'] _ 0 hno
  unfold step
  rw [hd]
  simp only [bind, Except.bind]
  unfold parser parseWhiteSpace
  simp only [↓reduceIte, hspan, Nat.zero_add, slice_left_all, hz, Nat.lt_irrefl]
  split
  · rename_i h0; exact ⟨_, rfl, rfl, by simp [h0]⟩
  · rename_i h0; exact ⟨_, rfl, rfl, by simp [h0]⟩

theorem lexS_ws {d : TokenDef} (hw : wf d = true) (ho : orderOK d = true) (w r : Str) (hne : w ≠ [])
    (hall : ∀ c ∈ w, d.whiteSpace.contains c = true) (hr : headIn d.whiteSpace r = false) :
    lexS d (w ++ r) = (lexS d r).map (fun rest =>
      ((if Str.count '\n' w = 0 then T.whiteSpace else T.lineBreak), w) :: rest) := by
  obtain ⟨t, hs, h1, h2⟩ := step_ws hw ho w r hne hall hr
  rw [lexS_unfold hw _ (by simp [hne]), hs]
  simp only [List.drop_left, simplify, h1, h2]

theorem wfLayout_commentFree {d : TokenDef} (hwl : wfLayout d = true) {p : Str × Str} (hp : p ∈ d.comment) :
    ∀ ch ∈ p.1, d.whiteSpace.contains ch = false :=
  wfLayout_pats hwl p.1 (comment_sub d p hp)

theorem step_comment {d : TokenDef} (hw : wf d = true) (hwl : wfLayout d = true) (ho : orderOK d = true)
    (p : Str × Str) (body r : Str) (hf : firstOpen d.comment (p.1 ++ body ++ r) 0 = .ok p) (hb : '\n' ∉ body)
    (hr : nlOrEnd r = true) :
    ∃ t, step d (p.1 ++ body ++ r) = .ok ((p.1 ++ body).length, t) ∧ t.string = p.1 ++ body ∧ t.type = T.comment := by
  obtain ⟨hmem, hs⟩ := firstOpen_ok hf
  have hlen := wf_comment hw hmem
  have hclose := wfLayout_comment hwl hmem
  have hfree := wfLayout_commentFree hwl hmem
  obtain ⟨c, cs, hp1⟩ : ∃ c cs, p.1 = c :: cs := by
    cases h : p.1 with
    | nil => rw [h] at hlen; simp at hlen
    | cons c cs => exact ⟨c, cs, rfl⟩
  have hcws : d.whiteSpace.contains c = false := hfree c (by rw [hp1]; simp)
  have hany : anyOpen d.comment (p.1 ++ body ++ r) 0 = true := by
    simp only [anyOpen, List.any_eq_true]; exact ⟨p, hmem, hs⟩
  have hd : analyzeDomain d (p.1 ++ body ++ r) 0 = .ok Dom.comment := by
    unfold analyzeDomain
    unfold orderOK at ho
    split at ho
    · rename_i a b rest heq
      simp only [Bool.and_eq_true, beq_iff_eq] at ho
      rw [heq, ho.1, ho.2]
      unfold analyzeGo analyzeGo analyzer
      have hcws' : c ∉ d.whiteSpace := by simpa using hcws
      simp only [hp1, List.cons_append, List.append_assoc, charIn_zero] at hany ⊢
      simp [bind, Except.bind, pure, Except.pure, hany, hcws', Dom.comment, Dom.whiteSpace]
    · cases ho
  have hnl : '\n' ∉ (p.1 ++ body).drop p.1.length := by simpa using hb
  have hk : p.1.length ≤ (p.1 ++ body).length := by simp
  have hfind : findFrom (p.1 ++ body ++ r) ['\n'] p.1.length = if r = [] then none else some (p.1 ++ body).length := by
    unfold findFrom
    simp only [show p.1.length ≤ (p.1 ++ body ++ r).length from by simp [Nat.add_assoc], ↓reduceIte]
    rw [List.drop_append_of_le_length hk]
    cases r with
    | nil =>
      simp only [List.append_nil, ↓reduceIte]
      rw [findSub_single_none '\n' _ hnl]; rfl
    | cons ch rest =>
      have hc : ch = '\n' := by simpa [nlOrEnd] using hr
      subst hc
      rw [findSub_single_at '\n' _ rest hnl]
      simp; omega
  unfold step
  rw [hd]
  simp only [bind, Except.bind]
  unfold parser parseComment
  simp only [show ¬ Dom.comment = Dom.whiteSpace from by decide, ↓reduceIte, hf, bind, Except.bind, hclose, Nat.zero_add, Nat.add_zero, hfind]
  by_cases hre : r = []
  · subst hre
    simp only [↓reduceIte, pure, Except.pure, List.append_nil]
    exact ⟨_, rfl, by show slice (p.1 ++ body) 0 (p.1 ++ body).length = _; simp only [slice, List.take_length, List.drop_zero], rfl⟩
  · simp only [hre, ↓reduceIte, pure, Except.pure]
    exact ⟨_, rfl, slice_left_all _ _, rfl⟩

theorem lexS_comment {d : TokenDef} (hw : wf d = true) (hwl : wfLayout d = true) (ho : orderOK d = true)
    (p : Str × Str) (body r : Str) (hf : firstOpen d.comment (p.1 ++ body ++ r) 0 = .ok p) (hb : '\n' ∉ body)
    (hr : nlOrEnd r = true) :
    lexS d (p.1 ++ body ++ r) = (lexS d r).map (fun rest => (T.comment, p.1 ++ body) :: rest) := by
  obtain ⟨t, hs, h1, h2⟩ := step_comment hw hwl ho p body r hf hb hr
  have hne : p.1 ++ body ++ r ≠ [] := by
    have := wf_comment hw (firstOpen_ok hf).1
    intro h; have h' := congrArg List.length h; simp only [List.length_append, List.length_nil] at h'; omega
  rw [lexS_unfold hw _ hne, hs]
  simp only [List.drop_left, simplify, h1, h2]

/-! ### end to end: layout rewrites of the source leave `Tokenizer.parse` unchanged -/

/-- all side conditions on a definition used by the character-level theorems (decided for the generated definitions) -/
def layoutReady (d : TokenDef) : Prop :=
  wf d = true ∧ wfLayout d = true ∧ orderOK d = true ∧ ShippedFilters d ∧ regexBlind d = true

theorem lexS_lbNL {d : TokenDef} (hw : wf d = true) {s : Str} {L : List (Nat × Str)} (h : lexS d s = .ok L) :
    ∀ t ∈ L.map unsimp, lbNL t := by
  unfold lexS viewL at h
  cases hp : parseImpl d s with
  | error e => rw [hp] at h; simp [Except.map] at h
  | ok ts =>
    rw [hp] at h
    simp only [Except.map, Except.ok.injEq] at h
    subst h
    exact unsimp_lbNL ts (parseImpl_shape hw hp).2

/-- the two ways the raw tokens of the rest may differ: only in insignificant tokens, or token by token up to line-break widths -/
def RestRel (X X' : List (Nat × Str)) : Prop :=
  significant (X.map unsimp) = significant (X'.map unsimp) ∨ AllRel LBsame (X.map unsimp) (X'.map unsimp)

/-- the master lemma of the character level: a common prefix of whole tokens, then rests whose raw tokens are related -/
theorem tokenize_of_rest {d : TokenDef} (hr : layoutReady d) {s s' : Str} {ta X X' : List (Nat × Str)}
    (h1 : lexS d s = .ok (ta ++ X)) (h2 : lexS d s' = .ok (ta ++ X')) (hrel : RestRel X X') :
    (tokenize d s).map (List.map simplify) = (tokenize d s').map (List.map simplify) := by
  obtain ⟨hw, _, _, hd, hb⟩ := hr
  apply tokenize_layout hw hd hb h1 h2
  cases hrel with
  | inl hsig =>
    have : norm ((ta ++ X).map unsimp) = norm ((ta ++ X').map unsimp) := by
      unfold norm; simp only [List.map_append, significant_append, hsig]
    rw [this]; exact AllRel.refl LBsame.refl _
  | inr hall =>
    apply norm_rel _ (lexS_lbNL hw h1) (lexS_lbNL hw h2)
    simp only [List.map_append]
    exact AllRel.append (AllRel.refl LBsame.refl _) hall

theorem count_append_zero (c : Char) (a b : Str) : Str.count c (a ++ b) = 0 ↔ Str.count c a = 0 ∧ Str.count c b = 0 := by
  rw [count_append]; omega

theorem not_mem_of_count_zero (c : Char) : ∀ s : Str, Str.count c s = 0 → c ∉ s
  | [], _ => by simp
  | x :: xs, hz => by
    rw [count_cons] at hz
    by_cases hx : x = c
    · simp [hx] at hz
    · simp only [hx, ↓reduceIte, Nat.zero_add] at hz
      simp only [List.mem_cons, not_or]
      exact ⟨fun e => hx e.symm, not_mem_of_count_zero c xs hz⟩

theorem headIn_of_all {a w r : Str} (hne : w ≠ []) (hall : ∀ c ∈ w, a.contains c = true) : headIn a (w ++ r) = true := by
  cases w with
  | nil => exact absurd rfl hne
  | cons c cs => exact hall c (by simp)

theorem significant_ws_cons (s : Str) (X : List (Nat × Str)) :
    significant (((T.whiteSpace, s) :: X).map unsimp) = significant (X.map unsimp) := by
  rw [List.map_cons]
  exact significant_cons_drop (Or.inr rfl) _

/-- **Blanks between tokens / at line ends.** `a` is a sequence of whole tokens, the rest starts with a (possibly empty)
    white space run `run`; inserting white space `w` in front of that run — blanks anywhere, or whole blank lines when the
    run already contains a newline — leaves `Tokenizer.parse` unchanged up to source maps. -/
theorem layout_blank {d : TokenDef} (hr : layoutReady d) (a run r1 w : Str) {ta L1 : List (Nat × Str)}
    (hwne : w ≠ []) (hwall : ∀ c ∈ w, d.whiteSpace.contains c = true) (hwnl : Str.count '\n' w = 0 ∨ Str.count '\n' run ≠ 0)
    (hrun : ∀ c ∈ run, d.whiteSpace.contains c = true) (hr1 : headIn d.whiteSpace r1 = false)
    (hpre : TokPrefix d (run ++ r1) (w ++ (run ++ r1)) a ta) (hL : lexS d r1 = .ok L1) :
    (tokenize d (a ++ (run ++ r1))).map (List.map simplify) =
      (tokenize d (a ++ (w ++ (run ++ r1)))).map (List.map simplify) := by
  obtain ⟨hw, hwl, ho, hd, hb⟩ := hr
  have hc : Compat d (run ++ r1) (w ++ (run ++ r1)) :=
    ⟨[], run ++ r1, w ++ (run ++ r1), rfl, rfl, Or.inr (headIn_of_all hwne hwall)⟩
  obtain ⟨e1, e2⟩ := lexS_prefix hw hwl hc hpre
  -- the rest after the insertion: one white space token `w ++ run`
  have hwr : ∀ c ∈ w ++ run, d.whiteSpace.contains c = true := by
    intro c hc'; simp only [List.mem_append] at hc'
    cases hc' with
    | inl h => exact hwall c h
    | inr h => exact hrun c h
  have l2 : lexS d (w ++ (run ++ r1)) = .ok (((if Str.count '\n' (w ++ run) = 0 then T.whiteSpace else T.lineBreak), w ++ run) :: L1) := by
    rw [← List.append_assoc, lexS_ws hw ho (w ++ run) r1 (by simp [hwne]) hwr hr1, hL]; rfl
  rw [l2] at e2
  simp only [Except.map] at e2
  by_cases hrn : run = []
  · subst hrn
    have hwnl : Str.count '\n' w = 0 := hwnl.resolve_right (by simp [Str.count])
    simp only [List.nil_append, List.append_nil] at e1 e2 l2 ⊢
    rw [hL] at e1
    simp only [Except.map, hwnl, ↓reduceIte] at e1 e2
    apply tokenize_of_rest ⟨hw, hwl, ho, hd, hb⟩ e1 e2
    left; rw [significant_ws_cons]
  · have l1 : lexS d (run ++ r1) = .ok (((if Str.count '\n' run = 0 then T.whiteSpace else T.lineBreak), run) :: L1) := by
      rw [lexS_ws hw ho run r1 hrn hrun hr1, hL]; rfl
    rw [l1] at e1
    simp only [Except.map] at e1
    apply tokenize_of_rest ⟨hw, hwl, ho, hd, hb⟩ e1 e2
    by_cases hnl : Str.count '\n' run = 0
    · have hwnl : Str.count '\n' w = 0 := hwnl.resolve_right (by simp [hnl])
      have : Str.count '\n' (w ++ run) = 0 := (count_append_zero _ _ _).mpr ⟨hwnl, hnl⟩
      left
      simp only [hnl, this, ↓reduceIte]
      rw [significant_ws_cons, significant_ws_cons]
    · have : ¬ Str.count '\n' (w ++ run) = 0 := fun h => hnl ((count_append_zero _ _ _).mp h).2
      right
      simp only [hnl, this, ↓reduceIte, List.map_cons]
      refine .cons (LBsame.lb rfl rfl ?_) (AllRel.refl LBsame.refl _)
      simp only [unsimp]
      rw [lastLineLen_append w run (count_pos_mem _ _ hnl)]

/-- generalisation of `tokenize_of_rest`: the significant raw tokens may first be regrouped by joining adjacent line breaks -/
theorem tokenize_of_merge {d : TokenDef} (hr : layoutReady d) {s s' : Str} {L L' : List (Nat × Str)}
    (h1 : lexS d s = .ok L) (h2 : lexS d s' = .ok L') {Y Y' : List Token}
    (e1 : mergeLB (significant (L.map unsimp)) = mergeLB Y) (e2 : mergeLB (significant (L'.map unsimp)) = mergeLB Y')
    (hrel : AllRel LBsame Y Y') (n : ∀ t ∈ Y, lbNL t) (n' : ∀ t ∈ Y', lbNL t) :
    (tokenize d s).map (List.map simplify) = (tokenize d s').map (List.map simplify) := by
  obtain ⟨hw, _, _, hd, hb⟩ := hr
  apply tokenize_layout hw hd hb h1 h2
  unfold norm trimLB
  rw [e1, e2]
  unfold mergeLB
  exact dropTrailLB_rel (dropLeadLB_rel (mergeGo_rel hrel n n' none none trivial))

theorem significant_comment_cons (s : Str) (X : List (Nat × Str)) :
    significant (((T.comment, s) :: X).map unsimp) = significant (X.map unsimp) := by
  rw [List.map_cons]
  exact significant_cons_drop (Or.inl rfl) _

theorem significant_lb_cons (s : Str) (X : List (Nat × Str)) :
    significant (((T.lineBreak, s) :: X).map unsimp) = unsimp (T.lineBreak, s) :: significant (X.map unsimp) := by
  rw [List.map_cons]
  exact significant_cons_keep rfl _

/-- **Trailing comment.** After the whole tokens `a`, at a line end (`r` is empty or starts with a newline), inserting
    blanks and a comment leaves `Tokenizer.parse` unchanged up to source maps. -/
theorem layout_comment {d : TokenDef} (hr : layoutReady d) (a w body r : Str) (p : Str × Str) {ta L : List (Nat × Str)}
    (hwne : w ≠ []) (hwall : ∀ c ∈ w, d.whiteSpace.contains c = true) (hwnl : Str.count '\n' w = 0)
    (hf : firstOpen d.comment (p.1 ++ body ++ r) 0 = .ok p) (hb : '\n' ∉ body) (hnl : nlOrEnd r = true)
    (hpre : TokPrefix d r (w ++ (p.1 ++ body ++ r)) a ta) (hL : lexS d r = .ok L) :
    (tokenize d (a ++ r)).map (List.map simplify) =
      (tokenize d (a ++ (w ++ (p.1 ++ body ++ r)))).map (List.map simplify) := by
  obtain ⟨hw, hwl, ho, hd, hbl⟩ := hr
  have hc : Compat d r (w ++ (p.1 ++ body ++ r)) := ⟨[], r, _, rfl, rfl, Or.inr (headIn_of_all hwne hwall)⟩
  obtain ⟨e1, e2⟩ := lexS_prefix hw hwl hc hpre
  -- the comment opener is not white space
  obtain ⟨hmem, _⟩ := firstOpen_ok hf
  have hlen := wf_comment hw hmem
  have hcm : headIn d.whiteSpace (p.1 ++ body ++ r) = false := by
    cases h : p.1 with
    | nil => rw [h] at hlen; simp at hlen
    | cons c cs =>
      simp only [List.cons_append, headIn]
      exact wfLayout_commentFree hwl hmem c (by rw [h]; simp)
  have l2 : lexS d (w ++ (p.1 ++ body ++ r)) = .ok ((T.whiteSpace, w) :: (T.comment, p.1 ++ body) :: L) := by
    rw [lexS_ws hw ho w _ hwne hwall hcm, lexS_comment hw hwl ho p body r hf hb hnl, hL]
    simp [Except.map, hwnl]
  rw [hL] at e1
  rw [l2] at e2
  simp only [Except.map] at e1 e2
  apply tokenize_of_rest ⟨hw, hwl, ho, hd, hbl⟩ e1 e2
  left
  rw [significant_ws_cons, significant_comment_cons]

/-- **Comment-only line.** Before a line end (`nlrun` is a white space run containing a newline) inserting a new line
    with any indentation `ind` and a comment leaves `Tokenizer.parse` unchanged up to source maps (the two line breaks
    around the comment are merged by `post_filter`; the merged one keeps the last-line width). -/
theorem layout_comment_line {d : TokenDef} (hr : layoutReady d) (a ind body nlrun r1 : Str) (p : Str × Str) {ta L1 : List (Nat × Str)}
    (hind : ∀ c ∈ ind, d.whiteSpace.contains c = true) (hnlws : d.whiteSpace.contains '\n' = true)
    (hrun : ∀ c ∈ nlrun, d.whiteSpace.contains c = true) (hrnl : nlOrEnd nlrun = true) (hrne : nlrun ≠ [])
    (hr1 : headIn d.whiteSpace r1 = false)
    (hf : firstOpen d.comment (p.1 ++ body ++ (nlrun ++ r1)) 0 = .ok p) (hb : '\n' ∉ body)
    (hpre : TokPrefix d (nlrun ++ r1) (('\n' :: ind) ++ (p.1 ++ body ++ (nlrun ++ r1))) a ta) (hL : lexS d r1 = .ok L1) :
    (tokenize d (a ++ (nlrun ++ r1))).map (List.map simplify) =
      (tokenize d (a ++ (('\n' :: ind) ++ (p.1 ++ body ++ (nlrun ++ r1))))).map (List.map simplify) := by
  obtain ⟨hw, hwl, ho, hd, hbl⟩ := hr
  have hw1 : ∀ c ∈ '\n' :: ind, d.whiteSpace.contains c = true := by
    intro c hc; simp only [List.mem_cons] at hc
    cases hc with
    | inl h => rw [h]; exact hnlws
    | inr h => exact hind c h
  have hc : Compat d (nlrun ++ r1) (('\n' :: ind) ++ (p.1 ++ body ++ (nlrun ++ r1))) :=
    ⟨[], _, _, rfl, rfl, Or.inr (headIn_of_all (by simp) hw1)⟩
  obtain ⟨e1, e2⟩ := lexS_prefix hw hwl hc hpre
  obtain ⟨hmem, _⟩ := firstOpen_ok hf
  have hlen := wf_comment hw hmem
  have hcm : headIn d.whiteSpace (p.1 ++ body ++ (nlrun ++ r1)) = false := by
    cases h : p.1 with
    | nil => rw [h] at hlen; simp at hlen
    | cons c cs =>
      simp only [List.cons_append, headIn]
      exact wfLayout_commentFree hwl hmem c (by rw [h]; simp)
  have hnl1 : nlOrEnd (nlrun ++ r1) = true := by rw [nlOrEnd_append_of_ne _ _ hrne]; exact hrnl
  have hcnt1 : ¬ Str.count '\n' ('\n' :: ind) = 0 := by rw [count_cons]; simp
  have hcnt2 : ¬ Str.count '\n' nlrun = 0 := by
    cases nlrun with
    | nil => exact absurd rfl hrne
    | cons c cs =>
      have : c = '\n' := by simpa [nlOrEnd] using hrnl
      rw [count_cons, this]; simp
  have l1 : lexS d (nlrun ++ r1) = .ok ((T.lineBreak, nlrun) :: L1) := by
    rw [lexS_ws hw ho nlrun r1 hrne hrun hr1, hL]; simp [Except.map, hcnt2]
  have l2 : lexS d (('\n' :: ind) ++ (p.1 ++ body ++ (nlrun ++ r1)))
      = .ok ((T.lineBreak, '\n' :: ind) :: (T.comment, p.1 ++ body) :: (T.lineBreak, nlrun) :: L1) := by
    rw [lexS_ws hw ho ('\n' :: ind) _ (by simp) hw1 hcm, lexS_comment hw hwl ho p body _ hf hb hnl1, l1]
    simp [Except.map, hcnt1]
  rw [l1] at e1
  rw [l2] at e2
  simp only [Except.map] at e1 e2
  -- regroup: the two line breaks around the comment are joined
  let lb1 := unsimp (T.lineBreak, '\n' :: ind)
  let lb2 := unsimp (T.lineBreak, nlrun)
  have n1 := lexS_lbNL hw e1
  have n2 := lexS_lbNL hw e2
  have hlb2nl : '\n' ∈ nlrun := count_pos_mem _ _ hcnt2
  apply tokenize_of_merge ⟨hw, hwl, ho, hd, hbl⟩ e1 e2
    (Y := significant (ta.map unsimp) ++ lb2 :: significant (L1.map unsimp))
    (Y' := significant (ta.map unsimp) ++ lb1.joined lb2 :: significant (L1.map unsimp))
  · simp only [List.map_append, significant_append, significant_lb_cons]; rfl
  · simp only [List.map_append, significant_append, significant_lb_cons, significant_comment_cons]
    unfold mergeLB
    exact mergeGo_join lb1 lb2 rfl rfl _ _ none
  · apply AllRel.append (AllRel.refl LBsame.refl _)
    refine .cons (LBsame.lb rfl rfl ?_) (AllRel.refl LBsame.refl _)
    simp only [lb1, lb2, unsimp, Token.joined]
    rw [lastLineLen_append _ _ hlb2nl]
  · intro t ht
    simp only [List.mem_append, List.mem_cons] at ht
    rcases ht with h | h | h
    · exact n1 t (by simp only [List.map_append, List.mem_append]; exact Or.inl (List.mem_filter.mp h).1)
    · rw [h]; intro _; exact hlb2nl
    · exact n1 t (by simp only [List.map_append, List.mem_append, List.map_cons, List.mem_cons]; exact Or.inr (Or.inr (List.mem_filter.mp h).1))
  · intro t ht
    simp only [List.mem_append, List.mem_cons] at ht
    rcases ht with h | h | h
    · exact n1 t (by simp only [List.map_append, List.mem_append]; exact Or.inl (List.mem_filter.mp h).1)
    · rw [h]; intro _; simp [lb1, lb2, unsimp, Token.joined, hlb2nl]
    · exact n1 t (by simp only [List.map_append, List.mem_append, List.map_cons, List.mem_cons]; exact Or.inr (Or.inr (List.mem_filter.mp h).1))

/-! ### `norm` respects rescaling of line-break widths (general unit) -/

theorem Rescaled.lbt_eq {u u' : Nat} {t t' : Token} (h : Rescaled u u' t t') : isLBt t = isLBt t' := by
  simp [isLBt, h.1]

theorem Rescaled.joined {u u' : Nat} {a a' b b' : Token} (ha : Rescaled u u' a a') (hb : Rescaled u u' b b') (hla : isLBt a = true) (hlb : isLBt b = true)
    (nb : lbNL b) (nb' : lbNL b') : Rescaled u u' (a.joined b) (a'.joined b') := by
  have ta : a.type = T.lineBreak := by simpa [isLBt] using hla
  have ta' : a'.type = T.lineBreak := by rw [← ha.1]; exact ta
  have tb : b.type = T.lineBreak := by simpa [isLBt] using hlb
  have hlb' : isLBt b' = true := by rw [← hb.lbt_eq]; exact hlb
  have h2 := hb.2
  simp only [tb, ↓reduceIte] at h2
  obtain ⟨m, m1, m2⟩ := h2
  apply Rescaled.lb m (by rw [joined_type]; exact ta) (by rw [joined_type]; exact ta')
  · simp only [Token.joined]; rw [lastLineLen_append _ _ (nb hlb)]; exact m1
  · simp only [Token.joined]; rw [lastLineLen_append _ _ (nb' hlb')]; exact m2

theorem significantR_rel {u u' : Nat} {ts ts' : List Token} (h : AllRel (Rescaled u u') ts ts') : AllRel (Rescaled u u') (significant ts) (significant ts') := by
  induction h with
  | nil => exact .nil
  | @cons a b as bs hab _ ih =>
    unfold significant at ih ⊢
    simp only [List.filter_cons, ← hab.1]
    split
    · exact .cons hab ih
    · exact ih

def pendRelR (u u' : Nat) : Option Token → Option Token → Prop
  | none, none => True
  | some p, some p' => Rescaled u u' p p' ∧ isLBt p = true ∧ lbNL p ∧ lbNL p'
  | _, _ => False

theorem mergeGoR_rel {u u' : Nat} {ts ts' : List Token} (h : AllRel (Rescaled u u') ts ts') (n : ∀ t ∈ ts, lbNL t) (n' : ∀ t ∈ ts', lbNL t) :
    ∀ (pend pend' : Option Token), pendRelR u u' pend pend' → AllRel (Rescaled u u') (mergeGo pend ts) (mergeGo pend' ts') := by
  induction h with
  | nil =>
    intro pend pend' hp
    cases pend <;> cases pend' <;> simp only [pendRelR] at hp
    · exact .nil
    · exact .cons hp.1 .nil
  | @cons a b as bs hab _ ih =>
    have na : lbNL a := n a (by simp)
    have nb : lbNL b := n' b (by simp)
    have ih' := ih (fun t ht => n t (by simp [ht])) (fun t ht => n' t (by simp [ht]))
    intro pend pend' hp
    have hty := hab.lbt_eq
    cases pend <;> cases pend' <;> simp only [pendRelR] at hp
    · simp only [mergeGo, ← hty]
      split
      · rename_i hl; exact ih' _ _ ⟨hab, hl, na, nb⟩
      · exact .cons hab (ih' none none trivial)
    · rename_i p p'
      simp only [mergeGo, ← hty]
      split
      · rename_i hl
        refine ih' _ _ ⟨Rescaled.joined hp.1 hab hp.2.1 hl na nb, ?_, lbNL_joined p a hl na, lbNL_joined p' b (hty ▸ hl) nb⟩
        rw [joined_isLBt]; exact hp.2.1
      · exact .cons hp.1 (.cons hab (ih' none none trivial))

theorem dropLeadLBR_rel {u u' : Nat} {x x' : List Token} (h : AllRel (Rescaled u u') x x') : AllRel (Rescaled u u') (dropLeadLB x) (dropLeadLB x') := by
  cases h with
  | nil => exact .nil
  | cons hab hr =>
    simp only [dropLeadLB, ← hab.lbt_eq]
    split
    · exact hr
    · exact .cons hab hr

theorem dropTrailLBR_rel {u u' : Nat} {x x' : List Token} (h : AllRel (Rescaled u u') x x') : AllRel (Rescaled u u') (dropTrailLB x) (dropTrailLB x') := by
  induction h with
  | nil => exact .nil
  | @cons a b as bs hab hr ih =>
    cases hr with
    | nil =>
      simp only [dropTrailLB, ← hab.lbt_eq]
      split
      · exact .nil
      · exact .cons hab .nil
    | cons h2 hr2 =>
      simp only [dropTrailLB]
      exact .cons hab ih

/-- `norm` respects "same up to last-line widths" -/
theorem normR_rel {u u' : Nat} {ts ts' : List Token} (h : AllRel (Rescaled u u') ts ts') (n : ∀ t ∈ ts, lbNL t) (n' : ∀ t ∈ ts', lbNL t) :
    AllRel (Rescaled u u') (norm ts) (norm ts') := by
  unfold norm trimLB mergeLB
  apply dropTrailLBR_rel
  apply dropLeadLBR_rel
  apply mergeGoR_rel (significantR_rel h) _ _ none none trivial
  · intro t ht; exact n t ((List.mem_filter.mp ht).1)
  · intro t ht; exact n' t ((List.mem_filter.mp ht).1)

/-! ### switching the indentation unit, character level -/

theorem splitOn_no (d : Char) : ∀ s : Str, d ∉ s → Str.splitOn d s = [s]
  | [], _ => rfl
  | c :: cs, h => by
    have hc : ¬ c = d := fun e => h (by simp [e])
    have hcs : d ∉ cs := fun e => h (by simp [e])
    simp [Str.splitOn, hc, splitOn_no d cs hcs]

theorem lastLineLen_nl (p ind : Str) (h : '\n' ∉ ind) : lastLineLen (p ++ '\n' :: ind) = ind.length := by
  rw [lastLineLen_append p _ (by simp)]
  unfold lastLineLen
  simp [Str.splitOn, splitOn_no '\n' ind h]

/-- `r'` is `r` with every indentation (the blanks between the last newline of a white space run and the code) changed
    from `m * u` to `m * u'` characters; `L`, `L'` are the raw tokens up to source maps. Every kept token carries the
    facts `step_stable` needs (string literals terminated). -/
inductive Reindent (d : TokenDef) (u u' : Nat) : Str → Str → List (Nat × Str) → List (Nat × Str) → Prop
  | nil : Reindent d u u' [] [] [] []
  | tok {x r r' : Str} {dom : Nat} {t : Token} {L L' : List (Nat × Str)} :
      x ≠ [] → analyzeDomain d (x ++ r) 0 = .ok dom → parser d dom (x ++ r) 0 = .ok (x.length, t) →
      (dom = Dom.quote → quoteClosed d (x ++ r) = true) → t.type ≠ T.lineBreak →
      Reindent d u u' r r' L L' → Reindent d u u' (x ++ r) (x ++ r') (simplify t :: L) (simplify t :: L')
  | lb {p ind ind' r r' : Str} {m : Nat} {L L' : List (Nat × Str)} :
      (∀ c ∈ p, d.whiteSpace.contains c = true) →
      (∀ c ∈ ind, d.whiteSpace.contains c = true) → '\n' ∉ ind → ind.length = m * u →
      (∀ c ∈ ind', d.whiteSpace.contains c = true) → '\n' ∉ ind' → ind'.length = m * u' →
      headIn d.whiteSpace r = false → headIn d.whiteSpace r' = false →
      Reindent d u u' r r' L L' →
      Reindent d u u' (p ++ '\n' :: ind ++ r) (p ++ '\n' :: ind' ++ r')
        ((T.lineBreak, p ++ '\n' :: ind) :: L) ((T.lineBreak, p ++ '\n' :: ind') :: L')

/-- both sides start with the same character (or are both empty) -/
theorem Reindent.heads {d : TokenDef} {u u' : Nat} {r r' : Str} {L L' : List (Nat × Str)} (h : Reindent d u u' r r' L L') :
    (∀ a, headIn a r' = headIn a r) ∧ nlOrEnd r' = nlOrEnd r ∧ (∀ a, wsOrEnd a r' = wsOrEnd a r) := by
  cases h with
  | nil => exact ⟨fun _ => rfl, rfl, fun _ => rfl⟩
  | @tok x r r' _ _ _ _ hx _ _ _ _ _ =>
    refine ⟨fun a => ?_, ?_, fun a => ?_⟩
    · rw [headIn_append_of_ne _ _ _ hx, headIn_append_of_ne _ _ _ hx]
    · rw [nlOrEnd_append_of_ne _ _ hx, nlOrEnd_append_of_ne _ _ hx]
    · rw [wsOrEnd_append_of_ne _ _ _ hx, wsOrEnd_append_of_ne _ _ _ hx]
  | @lb p ind ind' r r' _ _ _ _ _ _ _ _ _ _ _ _ _ =>
    cases p with
    | nil => exact ⟨fun _ => rfl, rfl, fun _ => rfl⟩
    | cons c cs => exact ⟨fun _ => rfl, rfl, fun _ => rfl⟩

theorem Reindent.compat {d : TokenDef} {u u' : Nat} (hu' : 0 < u') {r r' : Str} {L L' : List (Nat × Str)}
    (h : Reindent d u u' r r' L L') : Compat d r r' := by
  induction h with
  | nil => exact ⟨[], [], [], rfl, rfl, Or.inl rfl⟩
  | tok _ _ _ _ _ _ ih => exact ih.cons _
  | @lb p ind ind' r r' m L L' _ hi _ hl hi' _ hl' _ _ _ ih =>
    by_cases hne : ind' = []
    · subst hne
      -- no indentation on the new side: `m = 0`, so none on the old side either
      have hm : m = 0 := by
        simp only [List.length_nil] at hl'
        cases Nat.mul_eq_zero.mp hl'.symm with
        | inl h => exact h
        | inr h => omega
      have hi0 : ind = [] := by
        rw [hm, Nat.zero_mul] at hl; exact List.eq_nil_of_length_eq_zero hl
      subst hi0
      have := ih.cons (p ++ ['\n'])
      simpa using this
    · refine ⟨p ++ ['\n'], ind ++ r, ind' ++ r', by simp, by simp, Or.inr ?_⟩
      exact headIn_of_all hne hi'

theorem HeadOK_of_heads {d : TokenDef} (hwl : wfLayout d = true) {dom : Nat} {t : Token} {x r r' : Str}
    (hh : (∀ a, headIn a r' = headIn a r) ∧ nlOrEnd r' = nlOrEnd r ∧ (∀ a, wsOrEnd a r' = wsOrEnd a r))
    (hp : parser d dom (x ++ r) 0 = .ok (x.length, t)) : HeadOK d dom t r r' := by
  obtain ⟨h1, h2, h3⟩ := hh
  refine ⟨?_, ?_, ?_, ?_, ?_⟩
  · intro _ h; rw [h1] at h; exact h
  · intro _ h; rw [h1] at h; exact h
  · intro _ h; rw [h1] at h; exact h
  · intro hdom
    have hpc : parseComment d (x ++ r) 0 = .ok (x.length, t) := by
      unfold parser at hp
      simp only [hdom, show ¬ Dom.comment = Dom.whiteSpace from by decide, ↓reduceIte] at hp
      exact hp
    rw [h2]; exact parseComment_nl hwl hpc
  · intro _; rw [h3]

/-- a re-indented source lexes to the recorded raw tokens on both sides -/
theorem Reindent.lexS {d : TokenDef} (hw : wf d = true) (hwl : wfLayout d = true) (ho : orderOK d = true) {u u' : Nat} (hu' : 0 < u')
    {r r' : Str} {L L' : List (Nat × Str)} (h : Reindent d u u' r r' L L') :
    Lexer.lexS d r = .ok L ∧ Lexer.lexS d r' = .ok L' := by
  induction h with
  | nil => exact ⟨lexS_nil d, lexS_nil d⟩
  | @tok x r r' dom t L L' hx hd hp hq _ hre ih =>
    have hl : LookOK d (x ++ r) (x ++ r') := (hre.compat hu').lookOK hwl x
    have hh : HeadOK d dom t r r' := HeadOK_of_heads hwl hre.heads hp
    obtain ⟨hd', hv⟩ := step_stable hw hwl x r r' hx hd hp hl hh hq
    cases hp' : parser d dom (x ++ r') 0 with
    | error e => rw [hp'] at hv; simp [viewR, Except.map] at hv
    | ok res =>
      obtain ⟨e', t'⟩ := res
      rw [hp'] at hv
      simp only [viewR, Except.map, Except.ok.injEq, Prod.mk.injEq, Nat.sub_zero] at hv
      obtain ⟨he, hty, hstr⟩ := hv
      subst he
      have hsim : simplify t' = simplify t := by simp [simplify, hty, hstr]
      have u1 := lexS_unfold hw (x ++ r) (by simp [hx])
      have u2 := lexS_unfold hw (x ++ r') (by simp [hx])
      rw [step_of hd hp] at u1
      rw [step_of hd' hp'] at u2
      simp only [List.drop_left] at u1 u2
      rw [u1, u2, ih.1, ih.2, hsim]
      exact ⟨rfl, rfl⟩
  | @lb p ind ind' r r' m L L' hp hi hn _ hi' hn' _ hr hr' _ ih =>
    have key : ∀ (i rr : Str) (LL : List (Nat × Str)), (∀ c ∈ i, d.whiteSpace.contains c = true) → headIn d.whiteSpace rr = false →
        Lexer.lexS d rr = .ok LL → Lexer.lexS d (p ++ '\n' :: i ++ rr) = .ok ((T.lineBreak, p ++ '\n' :: i) :: LL) := by
      intro i rr LL hi hrr hLL
      have hall : ∀ c ∈ p ++ '\n' :: i, d.whiteSpace.contains c = true := by
        intro c hc
        simp only [List.mem_append, List.mem_cons] at hc
        rcases hc with h | h | h
        · exact hp c h
        · rw [h]
          simp only [wfLayout, Bool.and_eq_true] at hwl
          exact hwl.2
        · exact hi c h
      have hcnt : ¬ Str.count '\n' (p ++ '\n' :: i) = 0 := by
        rw [count_append, count_cons]; simp
      rw [lexS_ws hw ho (p ++ '\n' :: i) rr (by simp) hall hrr, hLL]
      simp [Except.map, hcnt]
    exact ⟨key ind r L hi hr ih.1, key ind' r' L' hi' hr' ih.2⟩

/-- … and these raw tokens agree up to the rescaling of the line-break widths -/
theorem Reindent.rel {d : TokenDef} {u u' : Nat} {r r' : Str} {L L' : List (Nat × Str)} (h : Reindent d u u' r r' L L') :
    AllRel (Rescaled u u') (L.map unsimp) (L'.map unsimp) := by
  induction h with
  | nil => exact .nil
  | tok _ _ _ _ hne _ ih =>
    exact .cons (Rescaled.of_eq (by simpa [unsimp, simplify] using hne) rfl rfl) ih
  | @lb p ind ind' r r' m L L' _ _ hn hl _ hn' hl' _ _ _ ih =>
    refine .cons (Rescaled.lb m rfl rfl ?_ ?_) ih
    · simp only [unsimp]; rw [lastLineLen_nl p ind hn]; exact hl
    · simp only [unsimp]; rw [lastLineLen_nl p ind' hn']; exact hl'

theorem Rescaled.comp_left {u u' : Nat} {a b c : Token} (h : LBsame a b) (h' : Rescaled u u' b c) : Rescaled u u' a c := by
  obtain ⟨h1, h2⟩ := h
  obtain ⟨h3, h4⟩ := h'
  refine ⟨h1.trans h3, ?_⟩
  rw [← h1] at h4
  split
  · rename_i hl
    simp only [hl, ↓reduceIte] at h2 h4
    obtain ⟨m, m1, m2⟩ := h2
    obtain ⟨n, n1, n2⟩ := h4
    exact ⟨n, by omega, n2⟩
  · rename_i hl
    simp only [hl, ↓reduceIte] at h2 h4
    exact h2.trans h4

theorem Rescaled.comp_right {u u' : Nat} {a b c : Token} (h : Rescaled u u' a b) (h' : LBsame b c) : Rescaled u u' a c := by
  obtain ⟨h1, h2⟩ := h
  obtain ⟨h3, h4⟩ := h'
  refine ⟨h1.trans h3, ?_⟩
  rw [← h1] at h4
  split
  · rename_i hl
    simp only [hl, ↓reduceIte] at h2 h4
    obtain ⟨m, m1, m2⟩ := h2
    obtain ⟨n, n1, n2⟩ := h4
    exact ⟨m, m1, by omega⟩
  · rename_i hl
    simp only [hl, ↓reduceIte] at h2 h4
    exact h2.trans h4

theorem AllRel.comp3 {u u' : Nat} {w x y z : List Token} (h1 : AllRel LBsame w x) (h2 : AllRel (Rescaled u u') x y)
    (h3 : AllRel LBsame y z) : AllRel (Rescaled u u') w z := by
  induction h1 generalizing y z with
  | nil => cases h2; cases h3; exact .nil
  | cons hab _ ih =>
    cases h2 with
    | cons hbc hr2 =>
      cases h3 with
      | cons hcd hr3 => exact .cons ((Rescaled.comp_left hab hbc).comp_right hcd) (ih hr2 hr3)

/-- `Tokenizer.parse` in terms of `norm` of the raw tokens -/
theorem tokenize_norm {d : TokenDef} (hw : wf d = true) (hd : ShippedFilters d) (hb : regexBlind d = true)
    {s : Str} {L : List (Nat × Str)} (h : Lexer.lexS d s = .ok L) :
    ∃ ts, tokenize d s = rebuild (norm ts ++ [Token.mkEOF]) ∧ AllRel LBsame (norm ts) (norm (L.map unsimp)) := by
  unfold Lexer.lexS viewL at h
  cases hp : parseImpl d s with
  | error e => rw [hp] at h; simp [Except.map] at h
  | ok ts =>
    rw [hp] at h
    simp only [Except.map, Except.ok.injEq] at h
    subst h
    obtain ⟨hf, hn⟩ := parseImpl_shape hw hp
    refine ⟨ts, ?_, norm_rel (unsimp_rel ts) hn (unsimp_lbNL ts hn)⟩
    simp [tokenize, lexParse, hp, bind, Except.bind, pure, Except.pure, postFilter_norm hd hb hf]

/-- **Width, end to end.** Re-indenting a source from unit `u` to unit `u'` (every indentation `m * u` becomes `m * u'`)
    leaves `Tokenizer.parse` unchanged up to source maps. -/
theorem width_chars {d : TokenDef} (hr : layoutReady d) {u u' : Nat} (hu : 0 < u) (hu' : 0 < u') {s s' : Str} {L L' : List (Nat × Str)}
    (h : Reindent d u u' s s' L L') :
    (tokenize d s).map (List.map simplify) = (tokenize d s').map (List.map simplify) := by
  obtain ⟨hw, hwl, ho, hd, hb⟩ := hr
  obtain ⟨l1, l2⟩ := h.lexS hw hwl ho hu'
  obtain ⟨ts, t1, r1⟩ := tokenize_norm hw hd hb l1
  obtain ⟨ts', t2, r2⟩ := tokenize_norm hw hd hb l2
  have hmid := normR_rel h.rel (lexS_lbNL hw l1) (lexS_lbNL hw l2)
  have hall := AllRel.comp3 r1 hmid r2.symm'
  rw [t1, t2]
  exact rebuildLoop_rel hu hu' (AllRel.append hall (.cons (Rescaled.of_eq (by decide) rfl rfl) .nil)) Ctx.init Ctx.init 0 (CtxRel.init u u')

/-! ### declarative closing rule of string literals and comments -/

/-- length of the run of backslashes at the end of `l` -/
def bsRun (l : Str) : Nat := (l.reverse.takeWhile (fun c => c = '\\')).length

/-- the sequence `p` occurs in `src` at offset `idx` -/
def occursAt (src p : Str) (idx : Nat) : Prop := idx ≤ src.length ∧ Str.startsWith (src.drop idx) p = true

/-- `idx` closes the literal whose body starts at `body`: the closing sequence occurs there and the run of backslashes in
    front of it (inside the body) is even -/
def IsCloser (src close : Str) (body idx : Nat) : Prop :=
  body ≤ idx ∧ occursAt src close idx ∧ bsRun (slice src body idx) % 2 = 0

theorem slice_snoc (src : Str) {b k : Nat} {c : Char} (hbk : b ≤ k) (hc : src[k]? = some c) :
    slice src b (k + 1) = slice src b k ++ [c] := by
  rw [slice_split src hbk (Nat.le_succ k), slice_one hc]

theorem escapeRun_eq (src : Str) (body idx : Nat) (hidx : idx ≤ src.length) : ∀ (f esc : Nat), esc ≤ idx - body → idx - body - esc ≤ f →
    escapeRun src body idx f esc = esc + bsRun (slice src body (idx - esc))
  | 0, esc, h1, h2 => by
    have : idx - esc ≤ body := by omega
    have hs : slice src body (idx - esc) = [] := by
      unfold slice; apply List.drop_eq_nil_of_le; simp; omega
    simp [escapeRun, hs, bsRun]
  | f + 1, esc, h1, h2 => by
    simp only [escapeRun]
    by_cases hgt : idx - esc > body
    · have hk : idx - esc - 1 < src.length := by omega
      have hget : src[idx - esc - 1]? = some (src[idx - esc - 1]'hk) := List.getElem?_eq_getElem hk
      have hsn : slice src body (idx - esc) = slice src body (idx - esc - 1) ++ [src[idx - esc - 1]'hk] := by
        have := slice_snoc src (b := body) (k := idx - esc - 1) (by omega) hget
        rwa [show idx - esc - 1 + 1 = idx - esc from by omega] at this
      simp only [hgt, decide_true, Bool.true_and, hget]
      by_cases hc : src[idx - esc - 1]'hk = '\\'
      · simp only [hc, beq_self_eq_true, ↓reduceIte]
        rw [escapeRun_eq src body idx hidx f (esc + 1) (by omega) (by omega), hsn]
        simp only [bsRun, List.reverse_append, List.reverse_cons, List.reverse_nil, List.nil_append, List.cons_append,
          List.takeWhile, hc, decide_true, List.length_cons]
        rw [show idx - (esc + 1) = idx - esc - 1 from by omega]
        omega
      · have : (some (src[idx - esc - 1]'hk) == some '\\') = false := by simp [hc]
        simp only [this, Bool.false_eq_true, ↓reduceIte]
        rw [hsn]
        simp [bsRun, hc]
    · have hs : slice src body (idx - esc) = [] := by
        unfold slice; apply List.drop_eq_nil_of_le; simp; omega
      simp [hgt, hs, bsRun]

theorem findSub_spec (p : Str) : ∀ (s : Str) (i : Nat), findSub p s = some i →
    Str.startsWith (s.drop i) p = true ∧ ∀ j, j < i → Str.startsWith (s.drop j) p = false
  | [], i, h => by
    simp only [findSub] at h
    split at h
    · injection h with h; subst h; rename_i hp; subst hp; simp [Str.startsWith]
    · cases h
  | c :: cs, i, h => by
    simp only [findSub] at h
    by_cases hs : Str.startsWith (c :: cs) p = true
    · simp only [hs, ↓reduceIte, Option.some.injEq] at h
      subst h; exact ⟨by simpa using hs, fun j hj => by omega⟩
    · simp only [hs, Bool.false_eq_true, ↓reduceIte] at h
      cases hf : findSub p cs with
      | none => rw [hf] at h; cases h
      | some k =>
        rw [hf] at h; simp only [Option.map_some, Option.some.injEq] at h; subst h
        obtain ⟨h1, h2⟩ := findSub_spec p cs k hf
        refine ⟨by simpa using h1, ?_⟩
        intro j hj
        cases j with
        | zero => simpa using hs
        | succ j' => simpa using h2 j' (by omega)

theorem findSub_none_spec (p : Str) : ∀ (s : Str), findSub p s = none → ∀ j, j ≤ s.length → Str.startsWith (s.drop j) p = false
  | [], h, j, hj => by
    simp only [findSub] at h
    split at h
    · cases h
    · rename_i hp
      have : j = 0 := by simpa using hj
      subst this
      cases p with
      | nil => exact absurd rfl hp
      | cons q qs => simp [Str.startsWith]
  | c :: cs, h, j, hj => by
    simp only [findSub] at h
    by_cases hs : Str.startsWith (c :: cs) p = true
    · simp [hs] at h
    · simp only [hs, Bool.false_eq_true, ↓reduceIte] at h
      cases hf : findSub p cs with
      | some k => rw [hf] at h; cases h
      | none =>
        cases j with
        | zero => simpa using hs
        | succ j' => simpa using findSub_none_spec p cs hf j' (by simpa using hj)

/-- `find(p, e)`: the least occurrence at or after `e` -/
theorem findFrom_spec {src p : Str} {e idx : Nat} (h : findFrom src p e = some idx) :
    occursAt src p idx ∧ e ≤ idx ∧ ∀ j, e ≤ j → j < idx → ¬ occursAt src p j := by
  have hb := findFrom_bound h
  unfold findFrom at h
  split at h
  · rename_i he
    cases hf : findSub p (src.drop e) with
    | none => rw [hf] at h; cases h
    | some k =>
      rw [hf] at h; simp only [Option.map_some, Option.some.injEq] at h; subst h
      obtain ⟨h1, h2⟩ := findSub_spec p _ k hf
      refine ⟨⟨by omega, ?_⟩, by omega, ?_⟩
      · rw [List.drop_drop] at h1; rwa [Nat.add_comm]
      · intro j hj1 hj2 ⟨_, hocc⟩
        have := h2 (j - e) (by omega)
        rw [List.drop_drop, show e + (j - e) = j from by omega] at this
        rw [this] at hocc; cases hocc
  · cases h

theorem findFrom_none_spec {src p : Str} {e : Nat} (he : e ≤ src.length) (h : findFrom src p e = none) :
    ∀ j, e ≤ j → ¬ occursAt src p j := by
  unfold findFrom at h
  simp only [he, ↓reduceIte] at h
  cases hf : findSub p (src.drop e) with
  | some k => rw [hf] at h; cases h
  | none =>
    intro j hj ⟨hjl, hocc⟩
    have := findSub_none_spec p _ hf (j - e) (by simp; omega)
    rw [List.drop_drop, show e + (j - e) = j from by omega] at this
    rw [this] at hocc; cases hocc

/-- **The closing rule.** The quote loop stops right after the *first* occurrence of the closing sequence (at or after the
    start of the body) that is not preceded, inside the body, by an odd run of backslashes; if there is none, the literal
    is unterminated and the loop stops somewhere inside the source. -/
theorem quoteLoop_spec {src close : Str} (hc : 0 < close.length) (body : Nat) : ∀ (fuel e E : Nat), body ≤ e → e ≤ src.length →
    src.length - e ≤ fuel → (∀ j, body ≤ j → j < e → ¬ IsCloser src close body j) →
    quoteLoop src close body fuel e = .ok E →
    (∃ idx, IsCloser src close body idx ∧ (∀ j, body ≤ j → j < idx → ¬ IsCloser src close body j) ∧ E = idx + close.length) ∨
    ((∀ j, ¬ IsCloser src close body j) ∧ e ≤ E ∧ E ≤ src.length)
  | fuel, e, E, hbe, hel, hf, hinv, h => by
    unfold quoteLoop at h
    split at h
    · rename_i hlt
      cases fuel with
      | zero => omega
      | succ f =>
        simp only [] at h
        cases hfind : findFrom src close e with
        | none =>
          rw [hfind] at h
          simp only [Except.ok.injEq] at h; subst h
          right
          refine ⟨?_, Nat.le_refl _, hel⟩
          intro j ⟨hbj, hocc, _⟩
          by_cases hje : j < e
          · exact hinv j hbj hje ⟨hbj, hocc, by assumption⟩
          · exact findFrom_none_spec hel hfind j (by omega) hocc
        | some idx =>
          rw [hfind] at h
          simp only [] at h
          obtain ⟨hocc, hei, hmin⟩ := findFrom_spec hfind
          have hb := findFrom_bound hfind
          have hrun : escapeRun src body idx (idx + 1) 0 = bsRun (slice src body idx) := by
            rw [escapeRun_eq src body idx (by omega) (idx + 1) 0 (by omega) (by omega)]; simp
          have hnone : ∀ j, body ≤ j → j < idx → ¬ IsCloser src close body j := by
            intro j hbj hji hcl
            by_cases hje : j < e
            · exact hinv j hbj hje hcl
            · exact hmin j (by omega) hji hcl.2.1
          by_cases hesc : escapeRun src body idx (idx + 1) 0 % 2 = 1
          · simp only [hesc, ↓reduceIte] at h
            have hnot : ¬ IsCloser src close body idx := by
              intro ⟨_, _, hev⟩; rw [← hrun] at hev; omega
            have := quoteLoop_spec hc body f (idx + 1) E (by omega) (by omega) (by omega) (by
              intro j hbj hji
              by_cases hj : j = idx
              · subst hj; exact hnot
              · exact hnone j hbj (by omega)) h
            cases this with
            | inl h1 => exact Or.inl h1
            | inr h1 => exact Or.inr ⟨h1.1, by omega, h1.2.2⟩
          · simp only [hesc, ↓reduceIte, Except.ok.injEq] at h
            left
            exact ⟨idx, ⟨by omega, hocc, by rw [← hrun]; omega⟩, hnone, h.symm⟩
    · simp only [Except.ok.injEq] at h; subst h
      right
      refine ⟨?_, Nat.le_refl _, hel⟩
      intro j ⟨hbj, ⟨hjl, hocc⟩, _⟩
      by_cases hje : j < e
      · exact hinv j hbj hje ⟨hbj, ⟨hjl, hocc⟩, by assumption⟩
      · have := startsWith_length _ _ hocc
        simp at this; omega

theorem occursAt_single {src : Str} {c : Char} {j : Nat} : occursAt src [c] j ↔ src[j]? = some c := by
  unfold occursAt
  constructor
  · intro ⟨_, h⟩
    cases hd : src.drop j with
    | nil => rw [hd] at h; simp [Str.startsWith] at h
    | cons x xs =>
      rw [hd] at h
      simp only [Str.startsWith, Bool.and_true, decide_eq_true_eq] at h
      have : (src.drop j)[0]? = some x := by rw [hd]; rfl
      rw [List.getElem?_drop] at this
      simpa [h] using this
  · intro h
    have hlt := getElem?_lt h
    refine ⟨by omega, ?_⟩
    rw [drop_eq_cons_of_getElem? h]
    simp [Str.startsWith]

theorem not_mem_slice {src : Str} {c : Char} {k e : Nat} (h : ∀ j, k ≤ j → j < e → src[j]? ≠ some c) : c ∉ slice src k e := by
  intro hm
  unfold slice at hm
  obtain ⟨i, hi⟩ := List.mem_iff_getElem?.mp hm
  rw [List.getElem?_drop, List.getElem?_take] at hi
  split at hi
  · rename_i hlt; exact h (k + i) (by omega) hlt hi
  · cases hi

/-- **Comment boundary.** A comment token (closing sequence = newline) starts with its opener and extends exactly to the
    first newline at or after the opener's end — or to the end of the source; it never contains that newline. In
    particular an empty comment `#` directly followed by a newline is the one-character token `#`. -/
theorem parseComment_spec {d : TokenDef} (hwl : wfLayout d = true) {src : Str} {b e : Nat} {t : Token}
    (h : parseComment d src b = .ok (e, t)) :
    ∃ pair, firstOpen d.comment src b = .ok pair ∧ t.type = T.comment ∧ t.string = slice src b e ∧
      b + pair.1.length ≤ e ∧ '\n' ∉ slice src (b + pair.1.length) e ∧ (e = src.length ∨ src[e]? = some '\n') := by
  unfold parseComment at h
  cases hf : firstOpen d.comment src b with
  | error er => rw [hf] at h; cases h
  | ok p0 =>
    rw [hf] at h
    obtain ⟨hmem, hs⟩ := firstOpen_ok hf
    have hclose := wfLayout_comment hwl hmem
    have hbound := startsWithAt_bound hs
    simp only [bind, Except.bind, hclose, ↓reduceIte, Nat.add_zero] at h
    refine ⟨p0, rfl, ?_⟩
    cases hfind : findFrom src ['\n'] (b + p0.1.length) with
    | some idx =>
      rw [hfind] at h
      simp only [pure, Except.pure, Except.ok.injEq, Prod.mk.injEq] at h
      obtain ⟨he, ht⟩ := h
      subst he
      obtain ⟨hocc, hle, hmin⟩ := findFrom_spec hfind
      refine ⟨by rw [← ht], by rw [← ht], hle, ?_, Or.inr (occursAt_single.mp hocc)⟩
      exact not_mem_slice (fun j h1 h2 hj => hmin j h1 h2 (occursAt_single.mpr hj))
    | none =>
      rw [hfind] at h
      simp only [pure, Except.pure, Except.ok.injEq, Prod.mk.injEq] at h
      obtain ⟨he, ht⟩ := h
      subst he
      have hno := findFrom_none_spec hbound hfind
      refine ⟨by rw [← ht], by rw [← ht], hbound, ?_, Or.inl rfl⟩
      exact not_mem_slice (fun j h1 _ hj => hno j h1 (occursAt_single.mpr hj))

/-- **String literal boundary.** The literal starts with the first matching opener; it ends right after the first closer
    (`IsCloser`: an occurrence of the closing sequence at or after the body start, preceded inside the body by an even run
    of backslashes) — or, when there is none, it is unterminated and ends somewhere inside the source. -/
theorem parseQuote_spec {d : TokenDef} (hw : wf d = true) {src : Str} {b e : Nat} {t : Token}
    (h : parseQuote d src b = .ok (e, t)) :
    ∃ pair, firstOpen d.quote src b = .ok pair ∧ t.string = slice src b e ∧
      ((∃ idx, IsCloser src pair.2 (b + pair.1.length) idx ∧
          (∀ j, b + pair.1.length ≤ j → j < idx → ¬ IsCloser src pair.2 (b + pair.1.length) j) ∧ e = idx + pair.2.length) ∨
       ((∀ j, ¬ IsCloser src pair.2 (b + pair.1.length) j) ∧ b + pair.1.length ≤ e ∧ e ≤ src.length)) := by
  unfold parseQuote at h
  cases hf : firstOpen d.quote src b with
  | error er => rw [hf] at h; cases h
  | ok p0 =>
    rw [hf] at h
    obtain ⟨hmem, hs⟩ := firstOpen_ok hf
    have hlen := wf_quote hw hmem
    have hbound := startsWithAt_bound hs
    simp only [bind, Except.bind] at h
    cases hq : quoteLoop src p0.2 (b + p0.1.length) src.length (b + p0.1.length) with
    | error er => rw [hq] at h; cases h
    | ok E =>
      rw [hq] at h
      simp only [] at h
      split at h
      · cases h
      · simp only [pure, Except.pure, Except.ok.injEq, Prod.mk.injEq] at h
        obtain ⟨he, ht⟩ := h
        subst he
        refine ⟨p0, rfl, by rw [← ht], ?_⟩
        exact quoteLoop_spec hlen.2 _ _ _ _ (Nat.le_refl _) hbound (by omega) (fun j h1 h2 => by omega) hq

/-! ### one closure theorem over the layout rewrites -/

/-- one layout rewrite step: exactly the situations of the four end-to-end theorems -/
inductive LayoutStep (d : TokenDef) : Str → Str → Prop
  | blank (a run r1 w : Str) (ta L1 : List (Nat × Str)) :
      w ≠ [] → (∀ c ∈ w, d.whiteSpace.contains c = true) → (Str.count '\n' w = 0 ∨ Str.count '\n' run ≠ 0) →
      (∀ c ∈ run, d.whiteSpace.contains c = true) → headIn d.whiteSpace r1 = false →
      TokPrefix d (run ++ r1) (w ++ (run ++ r1)) a ta → lexS d r1 = .ok L1 →
      LayoutStep d (a ++ (run ++ r1)) (a ++ (w ++ (run ++ r1)))
  | comment (a w body r : Str) (p : Str × Str) (ta L : List (Nat × Str)) :
      w ≠ [] → (∀ c ∈ w, d.whiteSpace.contains c = true) → Str.count '\n' w = 0 →
      firstOpen d.comment (p.1 ++ body ++ r) 0 = .ok p → '\n' ∉ body → nlOrEnd r = true →
      TokPrefix d r (w ++ (p.1 ++ body ++ r)) a ta → lexS d r = .ok L →
      LayoutStep d (a ++ r) (a ++ (w ++ (p.1 ++ body ++ r)))
  | commentLine (a ind body nlrun r1 : Str) (p : Str × Str) (ta L1 : List (Nat × Str)) :
      (∀ c ∈ ind, d.whiteSpace.contains c = true) → d.whiteSpace.contains '\n' = true →
      (∀ c ∈ nlrun, d.whiteSpace.contains c = true) → nlOrEnd nlrun = true → nlrun ≠ [] → headIn d.whiteSpace r1 = false →
      firstOpen d.comment (p.1 ++ body ++ (nlrun ++ r1)) 0 = .ok p → '\n' ∉ body →
      TokPrefix d (nlrun ++ r1) (('\n' :: ind) ++ (p.1 ++ body ++ (nlrun ++ r1))) a ta → lexS d r1 = .ok L1 →
      LayoutStep d (a ++ (nlrun ++ r1)) (a ++ (('\n' :: ind) ++ (p.1 ++ body ++ (nlrun ++ r1))))
  | reindent (u u' : Nat) (s s' : Str) (L L' : List (Nat × Str)) :
      0 < u → 0 < u' → Reindent d u u' s s' L L' → LayoutStep d s s'

/-- layout equivalence of sources: any sequence of layout steps, forwards (insert) or backwards (remove) -/
inductive LayoutEq (d : TokenDef) : Str → Str → Prop
  | refl (s : Str) : LayoutEq d s s
  | step {s s' : Str} : LayoutStep d s s' → LayoutEq d s s'
  | symm {s s' : Str} : LayoutEq d s s' → LayoutEq d s' s
  | trans {s s' s'' : Str} : LayoutEq d s s' → LayoutEq d s' s'' → LayoutEq d s s''

theorem LayoutStep.tokenize {d : TokenDef} (hr : layoutReady d) {s s' : Str} (h : LayoutStep d s s') :
    (tokenize d s).map (List.map simplify) = (tokenize d s').map (List.map simplify) := by
  cases h with
  | blank a run r1 w ta L1 h1 h2 h3 h4 h5 h6 h7 => exact layout_blank hr a run r1 w h1 h2 h3 h4 h5 h6 h7
  | comment a w body r p ta L h1 h2 h3 h4 h5 h6 h7 h8 => exact layout_comment hr a w body r p h1 h2 h3 h4 h5 h6 h7 h8
  | commentLine a ind body nlrun r1 p ta L1 h1 h2 h3 h4 h5 h6 h7 h8 h9 h10 =>
    exact layout_comment_line hr a ind body nlrun r1 p h1 h2 h3 h4 h5 h6 h7 h8 h9 h10
  | reindent u u' s s' L L' hu hu' h => exact width_chars hr hu hu' h

/-- **Closure.** Layout-equivalent sources have the same `Tokenizer.parse` up to source maps. -/
theorem LayoutEq.tokenize {d : TokenDef} (hr : layoutReady d) {s s' : Str} (h : LayoutEq d s s') :
    (tokenize d s).map (List.map simplify) = (tokenize d s').map (List.map simplify) := by
  induction h with
  | refl => rfl
  | step h => exact h.tokenize hr
  | symm _ ih => exact ih.symm
  | trans _ _ ih1 ih2 => exact ih1.trans ih2

/-! ### a declarative (maximal munch) specification of the first token -/

/-- the class test of a domain on the rest `s` of the source -/
def accepts (d : TokenDef) (dom : Nat) (s : Str) : Prop :=
  (dom = Dom.whiteSpace ∧ headIn d.whiteSpace s = true) ∨
  (dom = Dom.comment ∧ ∃ p ∈ d.comment, Str.startsWith s p.1 = true) ∨
  (dom = Dom.quote ∧ ∃ p ∈ d.quote, Str.startsWith s p.1 = true) ∨
  (dom = Dom.number ∧ headIn d.number s = true) ∨
  (dom = Dom.identifier ∧ headIn d.identifier s = true) ∨
  (dom = Dom.symbol ∧ headIn d.symbol s = true)

/-- the dispatched domain: the first one in the analyse order whose class test accepts -/
def Dispatch (d : TokenDef) (s : Str) (dom : Nat) : Prop :=
  ∃ pre post, d.analyzeOrder = pre ++ dom :: post ∧ accepts d dom s ∧ ∀ y ∈ pre, ¬ accepts d y s

/-- `s.take e` is the longest prefix of `s` inside the alphabet `a` -/
def LongestRun (a s : Str) (e : Nat) : Prop :=
  e ≤ s.length ∧ (∀ c ∈ s.take e, a.contains c = true) ∧ headIn a (s.drop e) = false

def combinedAt (d : TokenDef) (s : Str) (w : Nat) : Prop := w ≤ s.length ∧ s.take w ∈ d.combinedSymbols

/-- symbols: the longest combined symbol of three, then two characters, else a single symbol character -/
def SymbolMunch (d : TokenDef) (s : Str) (e : Nat) : Prop :=
  (e = 3 ∧ combinedAt d s 3) ∨ (e = 2 ∧ combinedAt d s 2 ∧ ¬ combinedAt d s 3) ∨
  (e = 1 ∧ ¬ combinedAt d s 3 ∧ ¬ combinedAt d s 2 ∧ headIn d.symbol s = true)

theorem headIn_of_charIn {a : Str} {c : Char} {cs : Str} (b : Bool) (h : charIn a (c :: cs) 0 = .ok b) : headIn a (c :: cs) = b := by
  rw [charIn_zero] at h; injection h

theorem anyOpen_iff {pairs : List (Str × Str)} {s : Str} : anyOpen pairs s 0 = true ↔ ∃ p ∈ pairs, Str.startsWith s p.1 = true := by
  simp [anyOpen, startsWithAt_zero]

/-- an analyzer's answer is the class test -/
theorem analyzer_accepts {d : TokenDef} {c : Char} {cs : Str} {y : Nat} {b : Bool} (h : analyzer d y (c :: cs) 0 = .ok b) :
    (b = true ↔ accepts d y (c :: cs)) := by
  unfold analyzer at h
  unfold accepts
  by_cases h0 : y = Dom.whiteSpace
  · subst h0; simp only [↓reduceIte] at h
    have := headIn_of_charIn b h
    simp [this, Dom.whiteSpace, Dom.comment, Dom.quote, Dom.number, Dom.identifier, Dom.symbol]
  · simp only [h0, ↓reduceIte] at h
    by_cases h1 : y = Dom.comment
    · subst h1; simp only [↓reduceIte] at h
      injection h with h
      simp [← h, anyOpen_iff, Dom.whiteSpace, Dom.comment, Dom.quote, Dom.number, Dom.identifier, Dom.symbol]
    · simp only [h1, ↓reduceIte] at h
      by_cases h2 : y = Dom.quote
      · subst h2; simp only [↓reduceIte] at h
        injection h with h
        simp [← h, anyOpen_iff, Dom.whiteSpace, Dom.comment, Dom.quote, Dom.number, Dom.identifier, Dom.symbol]
      · simp only [h2, ↓reduceIte] at h
        by_cases h3 : y = Dom.number
        · subst h3; simp only [↓reduceIte] at h
          have := headIn_of_charIn b h
          simp [this, Dom.whiteSpace, Dom.comment, Dom.quote, Dom.number, Dom.identifier, Dom.symbol]
        · simp only [h3, ↓reduceIte] at h
          by_cases h4 : y = Dom.identifier
          · subst h4; simp only [↓reduceIte] at h
            have := headIn_of_charIn b h
            simp [this, Dom.whiteSpace, Dom.comment, Dom.quote, Dom.number, Dom.identifier, Dom.symbol]
          · simp only [h4, ↓reduceIte] at h
            by_cases h5 : y = Dom.symbol
            · subst h5; simp only [↓reduceIte] at h
              have := headIn_of_charIn b h
              simp [this, Dom.whiteSpace, Dom.comment, Dom.quote, Dom.number, Dom.identifier, Dom.symbol]
            · simp only [h5, ↓reduceIte] at h; cases h

theorem analyzeGo_dispatch {d : TokenDef} {c : Char} {cs : Str} {dom : Nat} : ∀ (order : List Nat),
    analyzeGo d (c :: cs) 0 order = .ok dom →
    ∃ pre post, order = pre ++ dom :: post ∧ accepts d dom (c :: cs) ∧ ∀ y ∈ pre, ¬ accepts d y (c :: cs)
  | [], h => by cases h
  | y :: rest, h => by
    unfold analyzeGo at h
    cases ha : analyzer d y (c :: cs) 0 with
    | error e => rw [ha] at h; cases h
    | ok b =>
      rw [ha] at h
      have hacc := analyzer_accepts ha
      simp only [bind, Except.bind] at h
      cases b with
      | true =>
        simp only [↓reduceIte, pure, Except.pure, Except.ok.injEq] at h
        subst h
        exact ⟨[], rest, rfl, hacc.mp rfl, by simp⟩
      | false =>
        simp only [Bool.false_eq_true, ↓reduceIte] at h
        obtain ⟨pre, post, e1, e2, e3⟩ := analyzeGo_dispatch rest h
        refine ⟨y :: pre, post, by simp [e1], e2, ?_⟩
        intro z hz
        simp only [List.mem_cons] at hz
        cases hz with
        | inl hz => subst hz; intro hh; have := hacc.mpr hh; cases this
        | inr hz => exact e3 z hz

theorem dispatch_of_analyze {d : TokenDef} {s : Str} {dom : Nat} (hne : s ≠ []) (h : analyzeDomain d s 0 = .ok dom) :
    Dispatch d s dom := by
  cases s with
  | nil => exact absurd rfl hne
  | cons c cs => exact analyzeGo_dispatch _ h

theorem headIn_drop_of_stop {a s : Str} {e : Nat} (h : ∀ c, s[e]? = some c → a.contains c = false) : headIn a (s.drop e) = false := by
  cases hd : s.drop e with
  | nil => rfl
  | cons c cs =>
    have : (s.drop e)[0]? = some c := by rw [hd]; rfl
    rw [List.getElem?_drop] at this
    exact h c (by simpa using this)

theorem longestRun_of_span (a s : Str) : LongestRun a s (spanLen a s 0) := by
  have h1 := spanLen_le a s 0
  refine ⟨by simp at h1; omega, ?_, ?_⟩
  · intro c hc
    have := spanLen_all a s 0 c (by simpa [slice] using hc)
    exact this
  · apply headIn_drop_of_stop
    intro c hc
    exact spanLen_stop a s 0 c (by simpa using hc)

theorem indexOf?_none {α : Type} [DecidableEq α] (x : α) : ∀ (l : List α), indexOf? x l = none → x ∉ l
  | [], _ => by simp
  | y :: ys, h => by
    simp only [indexOf?] at h
    split at h
    · cases h
    · rename_i hy
      cases hr : indexOf? x ys with
      | some j => rw [hr] at h; cases h
      | none =>
        simp only [List.mem_cons, not_or]
        exact ⟨fun e => hy e.symm, indexOf?_none x ys hr⟩

theorem combined_none_spec {d : TokenDef} {s : Str} {w : Nat} (hw : 0 < w) (h : combined d s 0 w = .ok none) : ¬ combinedAt d s w := by
  unfold combined at h
  simp only [Nat.zero_add] at h
  intro ⟨hl, hm⟩
  have g : ¬ (w - 1 ≥ s.length) := by omega
  simp only [g, ↓reduceIte, slice_zero] at h
  cases hi : indexOf? (s.take w) d.combinedSymbols with
  | none => exact indexOf?_none _ _ hi hm
  | some off =>
    rw [hi] at h
    simp only [] at h
    cases hty : typeOf d (T.beginCombine + off) with
    | error e => rw [hty] at h; cases h
    | ok ty => rw [hty] at h; simp [bind, Except.bind, pure, Except.pure] at h

theorem combined_some_spec {d : TokenDef} {s : Str} {w e : Nat} {t : Token} (hw : 0 < w) (h : combined d s 0 w = .ok (some (e, t))) :
    e = w ∧ combinedAt d s w := by
  refine ⟨combined_end h, ?_⟩
  unfold combined at h
  simp only [Nat.zero_add] at h
  split at h
  · cases h
  · rename_i g
    split at h
    · cases h
    · rename_i off hi
      rw [slice_zero] at hi
      exact ⟨by omega, indexOf?_mem _ _ _ hi⟩

/-- `parse_symbol` takes the longest combined symbol (three characters, then two), else one symbol character -/
theorem parseSymbol_munch {d : TokenDef} {s : Str} {e : Nat} {t : Token} (h : parseSymbol d s 0 = .ok (e, t)) : SymbolMunch d s e := by
  unfold parseSymbol at h
  cases h3 : combined d s 0 3 with
  | error er => rw [h3] at h; cases h
  | ok r3 =>
    rw [h3] at h
    simp only [bind, Except.bind] at h
    cases r3 with
    | some r =>
      simp only [pure, Except.pure, Except.ok.injEq] at h
      subst h
      obtain ⟨e1, e2⟩ := combined_some_spec (by omega) h3
      exact Or.inl ⟨e1, e2⟩
    | none =>
      simp only [] at h
      have n3 := combined_none_spec (by omega) h3
      cases h2 : combined d s 0 2 with
      | error er => rw [h2] at h; cases h
      | ok r2 =>
        rw [h2] at h
        cases r2 with
        | some r =>
          simp only [pure, Except.pure, Except.ok.injEq] at h
          subst h
          obtain ⟨e1, e2⟩ := combined_some_spec (by omega) h2
          exact Or.inr (Or.inl ⟨e1, e2, n3⟩)
        | none =>
          simp only [] at h
          have n2 := combined_none_spec (by omega) h2
          right; right
          cases hv : charAt s 0 with
          | error er => rw [hv] at h; cases h
          | ok value =>
            rw [hv] at h
            have hget := charAt_ok hv
            simp only [] at h
            split at h
            · cases h
            · rename_i off hoff
              have hmem := indexOf?_mem _ _ _ hoff
              have hhead : headIn d.symbol s = true := by
                cases s with
                | nil => simp at hget
                | cons c cs =>
                  simp only [List.getElem?_cons_zero, Option.some.injEq] at hget
                  subst hget; simpa [headIn] using hmem
              refine ⟨?_, n3, n2, hhead⟩
              cases hty : typeOf d (Dom.symbol * 16 + off) with
              | error er => rw [hty] at h; cases h
              | ok ty =>
                rw [hty] at h
                simp only [Nat.zero_add] at h
                repeat' split at h
                all_goals first
                  | (simp only [pure, Except.pure, Except.ok.injEq, Prod.mk.injEq] at h; exact h.1.symm)
                  | cases h

/-- the declarative description of the first token of `s`: dispatch by the first accepting domain, then maximal munch
    for that kind; `e` characters are consumed and the token stands for exactly that text -/
def TokSpec (d : TokenDef) (s : Str) (e : Nat) (t : Token) : Prop :=
  ∃ dom, Dispatch d s dom ∧ 0 < e ∧ e ≤ s.length ∧ rawText t = s.take e ∧
    ((dom = Dom.whiteSpace ∧ LongestRun d.whiteSpace s e) ∨
     (dom = Dom.number ∧ LongestRun d.number s e) ∨
     (dom = Dom.identifier ∧ LongestRun d.identifier s e ∧ t.type = T.name) ∨
     (dom = Dom.comment ∧ t.type = T.comment ∧ ∃ p, firstOpen d.comment s 0 = .ok p ∧ p.1.length ≤ e ∧
        '\n' ∉ slice s p.1.length e ∧ (e = s.length ∨ s[e]? = some '\n')) ∨
     (dom = Dom.quote ∧ ∃ p, firstOpen d.quote s 0 = .ok p ∧
        ((∃ idx, IsCloser s p.2 p.1.length idx ∧ (∀ j, p.1.length ≤ j → j < idx → ¬ IsCloser s p.2 p.1.length j) ∧ e = idx + p.2.length) ∨
         (∀ j, ¬ IsCloser s p.2 p.1.length j))) ∨
     (dom = Dom.symbol ∧ SymbolMunch d s e))

/-- **The lexer meets the maximal-munch specification.** -/
theorem step_spec {d : TokenDef} (hw : wf d = true) (hwl : wfLayout d = true) {s : Str} (hne : s ≠ []) {e : Nat} {t : Token}
    (h : step d s = .ok (e, t)) : TokSpec d s e t := by
  have hpos : 0 < s.length := List.length_pos_iff.mpr hne
  unfold step at h
  cases hd : analyzeDomain d s 0 with
  | error er => rw [hd] at h; cases h
  | ok dom =>
    rw [hd] at h
    simp only [bind, Except.bind] at h
    have hs := parser_ok hw hpos hd h
    have htext : rawText t = s.take e := by rw [hs.text, slice_zero]
    refine ⟨dom, dispatch_of_analyze hne hd, hs.lt, hs.le, htext, ?_⟩
    unfold parser at h
    split at h
    · rename_i h0
      left
      obtain ⟨f1, _, _⟩ := parseWhiteSpace_facts hw h
      rw [f1, Nat.zero_add]
      exact ⟨h0, longestRun_of_span _ _⟩
    · split at h
      · rename_i h0
        right; right; right; left
        obtain ⟨p, hf, hty, _, hk, hnl, hend⟩ := parseComment_spec hwl h
        simp only [Nat.zero_add] at hk hnl
        exact ⟨h0, hty, p, hf, hk, hnl, hend⟩
      · split at h
        · rename_i h0
          right; right; right; right; left
          obtain ⟨p, hf, _, hcl⟩ := parseQuote_spec hw h
          simp only [Nat.zero_add] at hcl
          refine ⟨h0, p, hf, ?_⟩
          cases hcl with
          | inl hc => exact Or.inl hc
          | inr hc => exact Or.inr hc.1
        · split at h
          · rename_i h0
            right; left
            have : e = spanLen d.number s 0 := by
              unfold parseNumber at h
              simp only [Except.ok.injEq, Prod.mk.injEq] at h; omega
            rw [this]
            exact ⟨h0, longestRun_of_span _ _⟩
          · split at h
            · rename_i h0
              right; right; left
              unfold parseIdentifier at h
              simp only [Except.ok.injEq, Prod.mk.injEq] at h
              have he : e = spanLen d.identifier s 0 := by omega
              rw [he]
              exact ⟨h0, longestRun_of_span _ _, by rw [← h.2]⟩
            · split at h
              · rename_i h0
                right; right; right; right; right
                exact ⟨h0, parseSymbol_munch h⟩
              · cases h

/-- the declarative description of the whole raw token sequence: token by token, each the `TokSpec` of what is left -/
inductive LexSpec (d : TokenDef) : Str → List (Nat × Str) → Prop
  | nil : LexSpec d [] []
  | cons {s : Str} {e : Nat} {t : Token} {L : List (Nat × Str)} :
      s ≠ [] → TokSpec d s e t → LexSpec d (s.drop e) L → LexSpec d s (simplify t :: L)

/-- **lex ⊆ spec.** Whatever `parse_impl` returns (up to source maps) is a token sequence the maximal-munch
    specification describes. -/
theorem lexS_spec {d : TokenDef} (hw : wf d = true) (hwl : wfLayout d = true) : ∀ (n : Nat) (s : Str) (L : List (Nat × Str)),
    s.length ≤ n → lexS d s = .ok L → LexSpec d s L
  | 0, s, L, hn, h => by
    have : s = [] := List.eq_nil_of_length_eq_zero (by omega)
    subst this
    rw [lexS_nil] at h; injection h with h; subst h
    exact .nil
  | n + 1, s, L, hn, h => by
    by_cases hne : s = []
    · subst hne
      rw [lexS_nil] at h; injection h with h; subst h
      exact .nil
    · rw [lexS_unfold hw s hne] at h
      cases hs : step d s with
      | error e => rw [hs] at h; cases h
      | ok res =>
        obtain ⟨e, t⟩ := res
        rw [hs] at h
        simp only [] at h
        cases hr : lexS d (s.drop e) with
        | error er => rw [hr] at h; simp [Except.map] at h
        | ok L' =>
          rw [hr] at h
          simp only [Except.map, Except.ok.injEq] at h
          subst h
          have hspec := step_spec hw hwl hne hs
          obtain ⟨_, _, hpos, _, _, _⟩ := hspec
          exact .cons hne (step_spec hw hwl hne hs) (lexS_spec hw hwl n _ _ (by simp; omega) hr)

/-! ### the specification determines the token sequence (spec ⊆ lex) -/

/-- where an unterminated literal ends: right after the last occurrence of the closing sequence at or after the body start
    (all of them are escaped), or at the body start when there is none -/
def UntermEnd (src close : Str) (body E : Nat) : Prop :=
  (E = body ∧ ∀ j, body ≤ j → ¬ occursAt src close j) ∨
  (∃ idx, body ≤ idx ∧ occursAt src close idx ∧ (∀ j, idx < j → ¬ occursAt src close j) ∧ E = idx + 1)

theorem occursAt_lt {src close : Str} (hc : 0 < close.length) {j : Nat} (h : occursAt src close j) : j < src.length := by
  obtain ⟨_, h2⟩ := h
  have := startsWith_length _ _ h2
  simp at this; omega

theorem quoteLoop_unterm {src close : Str} (hc : 0 < close.length) (body : Nat) (hno : ∀ j, ¬ IsCloser src close body j) :
    ∀ (fuel e E : Nat), body ≤ e → e ≤ src.length → src.length - e ≤ fuel → quoteLoop src close body fuel e = .ok E →
    (E = e ∧ ∀ j, e ≤ j → ¬ occursAt src close j) ∨
    (∃ idx, e ≤ idx ∧ occursAt src close idx ∧ (∀ j, idx < j → ¬ occursAt src close j) ∧ E = idx + 1)
  | fuel, e, E, hbe, hel, hf, h => by
    unfold quoteLoop at h
    split at h
    · rename_i hlt
      cases fuel with
      | zero => omega
      | succ f =>
        simp only [] at h
        cases hfind : findFrom src close e with
        | none =>
          rw [hfind] at h
          simp only [Except.ok.injEq] at h; subst h
          exact Or.inl ⟨rfl, findFrom_none_spec hel hfind⟩
        | some idx =>
          rw [hfind] at h
          simp only [] at h
          obtain ⟨hocc, hei, _⟩ := findFrom_spec hfind
          have hb := findFrom_bound hfind
          have hrun : escapeRun src body idx (idx + 1) 0 = bsRun (slice src body idx) := by
            rw [escapeRun_eq src body idx (by omega) (idx + 1) 0 (by omega) (by omega)]; simp
          by_cases hesc : escapeRun src body idx (idx + 1) 0 % 2 = 1
          · simp only [hesc, ↓reduceIte] at h
            have := quoteLoop_unterm hc body hno f (idx + 1) E (by omega) (by omega) (by omega) h
            right
            cases this with
            | inl h1 => exact ⟨idx, hei, hocc, fun j hj => h1.2 j (by omega), h1.1⟩
            | inr h1 =>
              obtain ⟨i2, a1, a2, a3, a4⟩ := h1
              exact ⟨i2, by omega, a2, a3, a4⟩
          · exfalso
            exact hno idx ⟨by omega, hocc, by rw [← hrun]; omega⟩
    · simp only [Except.ok.injEq] at h; subst h
      exact Or.inl ⟨rfl, fun j hj ho => by have := occursAt_lt hc ho; omega⟩

theorem parseQuote_unterm {d : TokenDef} (hw : wf d = true) {s : Str} {e : Nat} {t : Token} {p : Str × Str}
    (h : parseQuote d s 0 = .ok (e, t)) (hf : firstOpen d.quote s 0 = .ok p) (hno : ∀ j, ¬ IsCloser s p.2 p.1.length j) :
    UntermEnd s p.2 p.1.length e := by
  unfold parseQuote at h
  rw [hf] at h
  obtain ⟨hmem, hs⟩ := firstOpen_ok hf
  have hlen := wf_quote hw hmem
  have hbound := startsWithAt_bound hs
  simp only [bind, Except.bind, Nat.zero_add] at h
  cases hq : quoteLoop s p.2 p.1.length s.length p.1.length with
  | error er => rw [hq] at h; cases h
  | ok E =>
    rw [hq] at h
    simp only [] at h
    split at h
    · cases h
    · simp only [pure, Except.pure, Except.ok.injEq, Prod.mk.injEq] at h
      obtain ⟨he, _⟩ := h
      subst he
      have := quoteLoop_unterm hlen.2 p.1.length hno s.length p.1.length E (Nat.le_refl _) (by omega) (by omega) hq
      cases this with
      | inl h1 => exact Or.inl h1
      | inr h1 => exact Or.inr h1

/-- type and string of the token of kind `dom` that consumes `e` characters of `s` — the table the lexer follows -/
def kindOf (d : TokenDef) (dom : Nat) (s : Str) (e : Nat) : Nat × Str :=
  if dom = Dom.whiteSpace then (if Str.count '\n' (s.take e) = 0 then T.whiteSpace else T.lineBreak, s.take e)
  else if dom = Dom.number then (if Str.count '.' (s.take e) > 0 then T.decimal else T.digit, s.take e)
  else if dom = Dom.identifier then (T.name, s.take e)
  else if dom = Dom.comment then (T.comment, s.take e)
  else if dom = Dom.quote then (if s.head? = some '/' then T.regexp else T.string, s.take e)
  else if e ≥ 2 then (T.beginCombine + ((indexOf? (s.take e) d.combinedSymbols).getD 0), s.take e)
  else
    let ty := Dom.symbol * 16 + ((indexOf? (s.headD ' ') d.symbol).getD 0)
    (ty, if ty = T.minus ∧ wsOrEnd d.whiteSpace (s.drop 1) = false then Special.opUnaryMinus else s.take 1)

set_option linter.unusedSimpArgs false

theorem combined_kind {d : TokenDef} {s : Str} {w e : Nat} {t : Token} (h : combined d s 0 w = .ok (some (e, t))) :
    e = w ∧ t.type = T.beginCombine + ((indexOf? (s.take w) d.combinedSymbols).getD 0) ∧ t.string = s.take w := by
  refine ⟨combined_end h, ?_⟩
  unfold combined at h
  simp only [Nat.zero_add, slice_zero] at h
  split at h
  · cases h
  · split at h
    · cases h
    · rename_i off hi
      cases hty : typeOf d (T.beginCombine + off) with
      | error er => rw [hty] at h; cases h
      | ok ty =>
        rw [hty] at h
        have := typeOf_ok hty
        simp only [bind, Except.bind, pure, Except.pure, Except.ok.injEq, Option.some.injEq, Prod.mk.injEq] at h
        rw [← h.2, hi]; simp [this]

theorem wsOrEnd_drop_one (a : Str) (c : Char) (r : Str) : wsOrEnd a ((c :: r).drop 1) = wsOrEnd a r := rfl

/-- the single-character path of `parse_symbol`, as type and string -/
theorem minusTail_kind (d : TokenDef) (c : Char) (ty : Nat) (r : Str) {e : Nat} {t : Token}
    (h : minusTail d c ty (c :: r) = .ok (e, t)) :
    e = 1 ∧ simplify t = (if wsOrEnd d.whiteSpace r = true then (ty, [c]) else (T.minus, Special.opUnaryMinus)) := by
  have hv := congrArg (viewR 0) h
  rw [minus_view] at hv
  simp only [viewR, Except.map, Except.ok.injEq, Prod.mk.injEq, Nat.sub_zero] at hv
  refine ⟨hv.1.symm, ?_⟩
  simp only [simplify]
  exact hv.2.symm

/-- every sub-parser returns the type and string of the `kindOf` table -/
theorem parser_kind {d : TokenDef} (hw : wf d = true) {s : Str} (hne : s ≠ []) {dom e : Nat} {t : Token}
    (hd : analyzeDomain d s 0 = .ok dom) (hp : parser d dom s 0 = .ok (e, t)) : simplify t = kindOf d dom s e := by
  have hpos : 0 < s.length := List.length_pos_iff.mpr hne
  have hs := parser_ok hw hpos hd hp
  unfold parser at hp
  unfold kindOf
  by_cases h0 : dom = Dom.whiteSpace
  · simp only [h0, ↓reduceIte] at hp ⊢
    have hbs : '\\' ∉ d.whiteSpace := by simp [wf] at hw; exact hw.1.2
    have hno : '\\' ∉ slice s 0 (0 + spanLen d.whiteSpace s 0) := by
      intro hm
      have := spanLen_all d.whiteSpace s 0 _ hm
      simp at this; exact hbs this
    have hz := countSubAux_zero '\\' ['\n'] _ 0 hno
    simp only [Nat.zero_add] at hz
    unfold parseWhiteSpace at hp
    simp only [hz, Nat.lt_irrefl, ↓reduceIte, Nat.zero_add] at hp
    split at hp <;> (rename_i hc; injection hp with hp; injection hp with h1 h2; subst h1 h2; simp only [slice_zero] at hc ⊢; simp [simplify, hc])
  · simp only [h0, ↓reduceIte] at hp ⊢
    by_cases h1 : dom = Dom.comment
    · simp only [h1, ↓reduceIte, show ¬ Dom.comment = Dom.number from by decide, show ¬ Dom.comment = Dom.identifier from by decide]
      simp only [h1, ↓reduceIte] at hp
      unfold parseComment at hp
      cases hf : firstOpen d.comment s 0 with
      | error er => rw [hf] at hp; cases hp
      | ok p =>
        rw [hf] at hp
        simp only [bind, Except.bind] at hp
        split at hp <;> (simp only [pure, Except.pure, Except.ok.injEq, Prod.mk.injEq] at hp; obtain ⟨h1, h2⟩ := hp; subst h1 h2; simp [simplify, slice_zero])
    · simp only [h1, ↓reduceIte] at hp
      by_cases h2 : dom = Dom.quote
      · simp only [h2, ↓reduceIte, show ¬ Dom.quote = Dom.number from by decide, show ¬ Dom.quote = Dom.identifier from by decide,
          show ¬ Dom.quote = Dom.comment from by decide]
        simp only [h2, ↓reduceIte] at hp
        unfold parseQuote at hp
        cases hf : firstOpen d.quote s 0 with
        | error er => rw [hf] at hp; cases hp
        | ok p =>
          rw [hf] at hp
          simp only [bind, Except.bind] at hp
          cases hq : quoteLoop s p.2 (0 + p.1.length) s.length (0 + p.1.length) with
          | error er => rw [hq] at hp; cases hp
          | ok E =>
            rw [hq] at hp
            simp only [] at hp
            split at hp
            · cases hp
            · rename_i c cs hv
              simp only [pure, Except.pure, Except.ok.injEq, Prod.mk.injEq] at hp
              obtain ⟨h1', h2'⟩ := hp
              subst h1' h2'
              rw [slice_zero] at hv
              have hhead : s.head? = some c := by
                cases s with
                | nil => simp at hv
                | cons x xs =>
                  cases E with
                  | zero => simp at hv
                  | succ E' => simp at hv; simp [hv.1]
              simp only [simplify, slice_zero, hhead, Option.some.injEq]
      · simp only [h2, ↓reduceIte] at hp
        by_cases h3 : dom = Dom.number
        · simp only [h3, ↓reduceIte] at hp ⊢
          unfold parseNumber at hp
          simp only [Except.ok.injEq, Prod.mk.injEq] at hp
          obtain ⟨h1', h2'⟩ := hp
          subst h1' h2'
          simp [simplify, slice_zero]
        · simp only [h3, ↓reduceIte] at hp ⊢
          by_cases h4 : dom = Dom.identifier
          · simp only [h4, ↓reduceIte] at hp ⊢
            unfold parseIdentifier at hp
            simp only [Except.ok.injEq, Prod.mk.injEq] at hp
            obtain ⟨h1', h2'⟩ := hp
            subst h1' h2'
            simp [simplify, slice_zero]
          · simp only [h4, ↓reduceIte] at hp ⊢
            simp only [h1, h2, ↓reduceIte]
            by_cases h5 : dom = Dom.symbol
            · simp only [h5, ↓reduceIte] at hp
              have hn0 : ¬ Dom.symbol = Dom.whiteSpace := by decide
              unfold parseSymbol at hp
              cases h3c : combined d s 0 3 with
              | error er => rw [h3c] at hp; cases hp
              | ok r3 =>
                rw [h3c] at hp
                simp only [bind, Except.bind] at hp
                cases r3 with
                | some r =>
                  simp only [pure, Except.pure, Except.ok.injEq] at hp
                  subst hp
                  obtain ⟨e1, e2, e3⟩ := combined_kind h3c
                  subst e1
                  simp [simplify, e2, e3, h5, Dom.symbol, Dom.whiteSpace, Dom.number, Dom.identifier, Dom.comment, Dom.quote]
                | none =>
                  simp only [] at hp
                  cases h2c : combined d s 0 2 with
                  | error er => rw [h2c] at hp; cases hp
                  | ok r2 =>
                    rw [h2c] at hp
                    cases r2 with
                    | some r =>
                      simp only [pure, Except.pure, Except.ok.injEq] at hp
                      subst hp
                      obtain ⟨e1, e2, e3⟩ := combined_kind h2c
                      subst e1
                      simp [simplify, e2, e3, h5, Dom.symbol, Dom.whiteSpace, Dom.number, Dom.identifier, Dom.comment, Dom.quote]
                    | none =>
                      simp only [] at hp
                      cases s with
                      | nil => exact absurd rfl hne
                      | cons c r =>
                        have hv : charAt (c :: r) 0 = .ok c := by simp [charAt]
                        rw [hv] at hp
                        simp only [] at hp
                        cases hi : indexOf? c d.symbol with
                        | none => rw [hi] at hp; cases hp
                        | some off =>
                          rw [hi] at hp
                          simp only [] at hp
                          cases hty : typeOf d (Dom.symbol * 16 + off) with
                          | error er => rw [hty] at hp; cases hp
                          | ok ty =>
                            rw [hty] at hp
                            have htyv := typeOf_ok hty
                            simp only [Nat.zero_add] at hp
                            by_cases hmin : ty = T.minus
                            · simp only [hmin, ↓reduceIte] at hp
                              have hp' : minusTail d c T.minus (c :: r) = .ok (e, t) := hp
                              obtain ⟨e1, e2⟩ := minusTail_kind d c T.minus r hp'
                              subst e1
                              rw [e2]
                              have hty2 : Dom.symbol * 16 + off = T.minus := by rw [← htyv]; exact hmin
                              simp only [h5, hi, Option.getD_some, List.headD_cons, hty2, List.drop_one, List.tail_cons, true_and,
                                show ¬ (1 ≥ 2) from by omega, ↓reduceIte, List.take_succ_cons, List.take_zero,
                                show ¬ Dom.symbol = Dom.whiteSpace from by decide, show ¬ Dom.symbol = Dom.number from by decide,
                                show ¬ Dom.symbol = Dom.identifier from by decide, show ¬ Dom.symbol = Dom.comment from by decide,
                                show ¬ Dom.symbol = Dom.quote from by decide]
                              cases wsOrEnd d.whiteSpace r <;> simp
                            · simp only [hmin, ↓reduceIte, pure, Except.pure, Except.ok.injEq, Prod.mk.injEq] at hp
                              obtain ⟨e1, e2⟩ := hp
                              subst e1 e2
                              have hne2 : ¬ Dom.symbol * 16 + off = T.minus := by rw [← htyv]; exact hmin
                              have h80 : Dom.symbol * 16 + off = 80 + off := by simp [Dom.symbol]
                              rw [h80] at hne2
                              simp [simplify, h5, hi, htyv, hne2, Dom.symbol, Dom.whiteSpace, Dom.number, Dom.identifier, Dom.comment, Dom.quote]
            · simp only [h5, ↓reduceIte] at hp; cases hp

theorem dispatch_unique {d : TokenDef} {s : Str} {dom dom' : Nat} (h : Dispatch d s dom) (h' : Dispatch d s dom') : dom = dom' := by
  obtain ⟨pre, post, e1, a1, n1⟩ := h
  obtain ⟨pre', post', e2, a2, n2⟩ := h'
  rw [e1] at e2
  clear e1
  induction pre generalizing pre' with
  | nil =>
    cases pre' with
    | nil => simp at e2; exact e2.1
    | cons y ys =>
      simp at e2
      exact absurd a1 (e2.1 ▸ n2 y (by simp))
  | cons x xs ih =>
    cases pre' with
    | nil =>
      simp at e2
      exact absurd a2 (e2.1 ▸ n1 x (by simp))
    | cons y ys =>
      simp only [List.cons_append, List.cons.injEq] at e2
      exact ih (fun z hz => n1 z (by simp [hz])) ys e2.2 (fun z hz => n2 z (by simp [hz]))

theorem mem_slice {s : Str} {c : Char} {k j e : Nat} (h1 : k ≤ j) (h2 : j < e) (hc : s[j]? = some c) : c ∈ slice s k e := by
  unfold slice
  apply List.mem_iff_getElem?.mpr
  refine ⟨j - k, ?_⟩
  rw [List.getElem?_drop, List.getElem?_take]
  simp only [show k + (j - k) = j from by omega, h2, ↓reduceIte, hc]

theorem longestRun_unique {a s : Str} {e e' : Nat} (h : LongestRun a s e) (h' : LongestRun a s e') : e = e' := by
  have key : ∀ {e e' : Nat}, LongestRun a s e → LongestRun a s e' → ¬ e < e' := by
    intro e e' ⟨_, _, h3⟩ ⟨g1, g2, _⟩ hlt
    have hlt2 : e < s.length := by omega
    have hget : s[e]? = some (s[e]'hlt2) := List.getElem?_eq_getElem hlt2
    have hmem : s[e]'hlt2 ∈ s.take e' := by
      have := mem_slice (s := s) (k := 0) (Nat.zero_le e) hlt hget
      rwa [slice_zero] at this
    have hin := g2 _ hmem
    rw [drop_eq_cons_of_getElem? hget] at h3
    simp only [headIn] at h3
    rw [hin] at h3; cases h3
  have := key h h'; have := key h' h; omega

theorem comment_end_unique {s : Str} {k e e' : Nat} (hk : k ≤ e) (hk' : k ≤ e')
    (h1 : '\n' ∉ slice s k e) (h2 : e = s.length ∨ s[e]? = some '\n') (hle : e ≤ s.length)
    (g1 : '\n' ∉ slice s k e') (g2 : e' = s.length ∨ s[e']? = some '\n') (hle' : e' ≤ s.length) : e = e' := by
  have key : ∀ {e e' : Nat}, k ≤ e → (e = s.length ∨ s[e]? = some '\n') → '\n' ∉ slice s k e' → e' ≤ s.length → ¬ e < e' := by
    intro e e' hk h2 g1 hle' hlt
    cases h2 with
    | inl h => omega
    | inr h => exact g1 (mem_slice hk hlt h)
  have := key hk h2 g1 hle'; have := key hk' g2 h1 hle; omega

theorem symbolMunch_unique {d : TokenDef} {s : Str} {e e' : Nat} (h : SymbolMunch d s e) (h' : SymbolMunch d s e') : e = e' := by
  rcases h with ⟨a, b⟩ | ⟨a, b, c⟩ | ⟨a, b, c, _⟩ <;> rcases h' with ⟨a', b'⟩ | ⟨a', b', c'⟩ | ⟨a', b', c', _⟩ <;>
    first | omega | exact absurd b c' | exact absurd b' c | exact absurd b b' | exact absurd b' b | exact absurd b c' | exact absurd b' c

theorem untermEnd_unique {src close : Str} {body E E' : Nat} (h : UntermEnd src close body E) (h' : UntermEnd src close body E') : E = E' := by
  rcases h with ⟨a, b⟩ | ⟨i, a, b, c, e⟩ <;> rcases h' with ⟨a', b'⟩ | ⟨i', a', b', c', e'⟩
  · omega
  · exact absurd b' (b i' a')
  · exact absurd b (b' i a)
  · have : ¬ i < i' := fun hl => c i' hl b'
    have : ¬ i' < i := fun hl => c' i hl b
    omega

/-- the strengthened specification of the first token: what `TokSpec` says, the type and string of the `kindOf` table,
    and where an unterminated literal ends -/
def TokSpec2 (d : TokenDef) (s : Str) (e : Nat) (q : Nat × Str) : Prop :=
  ∃ dom, Dispatch d s dom ∧ 0 < e ∧ e ≤ s.length ∧ q = kindOf d dom s e ∧
    ((dom = Dom.whiteSpace ∧ LongestRun d.whiteSpace s e) ∨
     (dom = Dom.number ∧ LongestRun d.number s e) ∨
     (dom = Dom.identifier ∧ LongestRun d.identifier s e) ∨
     (dom = Dom.comment ∧ ∃ p, firstOpen d.comment s 0 = .ok p ∧ p.1.length ≤ e ∧
        '\n' ∉ slice s p.1.length e ∧ (e = s.length ∨ s[e]? = some '\n')) ∨
     (dom = Dom.quote ∧ ∃ p, firstOpen d.quote s 0 = .ok p ∧
        ((∃ idx, IsCloser s p.2 p.1.length idx ∧ (∀ j, p.1.length ≤ j → j < idx → ¬ IsCloser s p.2 p.1.length j) ∧ e = idx + p.2.length) ∨
         ((∀ j, ¬ IsCloser s p.2 p.1.length j) ∧ UntermEnd s p.2 p.1.length e))) ∨
     (dom = Dom.symbol ∧ SymbolMunch d s e))

/-- **The specification is functional**: it fixes how many characters the first token takes, its type and its string. -/
theorem tokSpec2_unique {d : TokenDef} {s : Str} {e e' : Nat} {q q' : Nat × Str} (h : TokSpec2 d s e q) (h' : TokSpec2 d s e' q') :
    e = e' ∧ q = q' := by
  obtain ⟨dom, hd, _, hle, hq, hb⟩ := h
  obtain ⟨dom', hd', _, hle', hq', hb'⟩ := h'
  have hdom := dispatch_unique hd hd'
  subst hdom
  have he : e = e' := by
    rcases hb with ⟨a, b⟩ | ⟨a, b⟩ | ⟨a, b⟩ | ⟨a, p, b1, b2, b3, b4⟩ | ⟨a, p, b1, b2⟩ | ⟨a, b⟩ <;>
      rcases hb' with ⟨a', b'⟩ | ⟨a', b'⟩ | ⟨a', b'⟩ | ⟨a', p', c1, c2, c3, c4⟩ | ⟨a', p', c1, c2⟩ | ⟨a', b'⟩ <;>
      first
        | (exfalso; rw [a] at a'; revert a'; decide)
        | exact longestRun_unique b b'
        | exact symbolMunch_unique b b'
        | (rw [b1] at c1; injection c1 with c1; subst c1; exact comment_end_unique b2 c2 b3 b4 hle c3 c4 hle')
        | skip
    -- string literals
    rw [b1] at c1; injection c1 with c1; subst c1
    rcases b2 with ⟨i, x1, x2, x3⟩ | ⟨x1, x2⟩ <;> rcases c2 with ⟨i', y1, y2, y3⟩ | ⟨y1, y2⟩
    · have : ¬ i < i' := fun hl => y2 i x1.1 hl x1
      have : ¬ i' < i := fun hl => x2 i' y1.1 hl y1
      omega
    · exact absurd x1 (y1 i)
    · exact absurd y1 (x1 i')
    · exact untermEnd_unique x2 y2
  subst he
  exact ⟨rfl, by rw [hq, hq']⟩

/-- the lexer meets the strengthened specification -/
theorem step_spec2 {d : TokenDef} (hw : wf d = true) (hwl : wfLayout d = true) {s : Str} (hne : s ≠ []) {e : Nat} {t : Token}
    (h : step d s = .ok (e, t)) : TokSpec2 d s e (simplify t) := by
  obtain ⟨dom', hd', hpos, hle, _, hb⟩ := step_spec hw hwl hne h
  unfold step at h
  cases hd : analyzeDomain d s 0 with
  | error er => rw [hd] at h; cases h
  | ok dom =>
    rw [hd] at h
    simp only [bind, Except.bind] at h
    have hdisp := dispatch_of_analyze hne hd
    have hdom := dispatch_unique hd' hdisp
    subst hdom
    refine ⟨dom', hdisp, hpos, hle, parser_kind hw hne hd h, ?_⟩
    rcases hb with ⟨a, b⟩ | ⟨a, b⟩ | ⟨a, b, _⟩ | ⟨a, _, p, b1, b2, b3, b4⟩ | ⟨a, p, b1, b2⟩ | ⟨a, b⟩
    · exact Or.inl ⟨a, b⟩
    · exact Or.inr (Or.inl ⟨a, b⟩)
    · exact Or.inr (Or.inr (Or.inl ⟨a, b⟩))
    · exact Or.inr (Or.inr (Or.inr (Or.inl ⟨a, p, b1, b2, b3, b4⟩)))
    · refine Or.inr (Or.inr (Or.inr (Or.inr (Or.inl ⟨a, p, b1, ?_⟩))))
      cases b2 with
      | inl hc => exact Or.inl hc
      | inr hno =>
        have hpq : parseQuote d s 0 = .ok (e, t) := by
          unfold parser at h
          simpa [a, Dom.quote, Dom.whiteSpace, Dom.comment] using h
        exact Or.inr ⟨hno, parseQuote_unterm hw hpq b1 hno⟩
    · exact Or.inr (Or.inr (Or.inr (Or.inr (Or.inr ⟨a, b⟩))))

/-- the strengthened description of the whole raw token sequence (types and strings) -/
inductive LexSpec2 (d : TokenDef) : Str → List (Nat × Str) → Prop
  | nil : LexSpec2 d [] []
  | cons {s : Str} {e : Nat} {q : Nat × Str} {L : List (Nat × Str)} :
      s ≠ [] → TokSpec2 d s e q → LexSpec2 d (s.drop e) L → LexSpec2 d s (q :: L)

theorem lexS_spec2 {d : TokenDef} (hw : wf d = true) (hwl : wfLayout d = true) : ∀ (n : Nat) (s : Str) (L : List (Nat × Str)),
    s.length ≤ n → lexS d s = .ok L → LexSpec2 d s L
  | 0, s, L, hn, h => by
    have : s = [] := List.eq_nil_of_length_eq_zero (by omega)
    subst this
    rw [lexS_nil] at h; injection h with h; subst h
    exact .nil
  | n + 1, s, L, hn, h => by
    by_cases hne : s = []
    · subst hne
      rw [lexS_nil] at h; injection h with h; subst h
      exact .nil
    · rw [lexS_unfold hw s hne] at h
      cases hs : step d s with
      | error e => rw [hs] at h; cases h
      | ok res =>
        obtain ⟨e, t⟩ := res
        rw [hs] at h
        simp only [] at h
        cases hr : lexS d (s.drop e) with
        | error er => rw [hr] at h; simp [Except.map] at h
        | ok L' =>
          rw [hr] at h
          simp only [Except.map, Except.ok.injEq] at h
          subst h
          have hspec := step_spec2 hw hwl hne hs
          obtain ⟨_, _, hpos, _, _, _⟩ := hspec
          exact .cons hne (step_spec2 hw hwl hne hs) (lexS_spec2 hw hwl n _ _ (by simp; omega) hr)

/-- **spec ⊆ lex.** At most one token sequence satisfies the specification. -/
theorem lexSpec2_unique {d : TokenDef} {s : Str} {L L' : List (Nat × Str)} (h : LexSpec2 d s L) (h' : LexSpec2 d s L') : L = L' := by
  induction h generalizing L' with
  | nil =>
    cases h' with
    | nil => rfl
    | cons hne _ _ => exact absurd rfl hne
  | @cons s e q L hne hspec _ ih =>
    cases h' with
    | nil => exact absurd rfl hne
    | @cons _ e' q' L'' _ hspec' hrest' =>
      obtain ⟨he, hq⟩ := tokSpec2_unique hspec hspec'
      subst he hq
      rw [ih hrest']

/-! ### computing the `TokPrefix` evidence: a checker and its soundness -/

/-- decidable form of `HeadOK` -/
def headOKb (d : TokenDef) (dom : Nat) (t : Token) (r r' : Str) : Bool :=
  (dom != Dom.whiteSpace || !headIn d.whiteSpace r' || headIn d.whiteSpace r) &&
  (dom != Dom.number || !headIn d.number r' || headIn d.number r) &&
  (dom != Dom.identifier || !headIn d.identifier r' || headIn d.identifier r) &&
  (dom != Dom.comment || nlOrEnd r') &&
  (t.type != T.minus || wsOrEnd d.whiteSpace r == wsOrEnd d.whiteSpace r')

theorem headOKb_sound {d : TokenDef} {dom : Nat} {t : Token} {r r' : Str} (h : headOKb d dom t r r' = true) : HeadOK d dom t r r' := by
  simp only [headOKb, Bool.and_eq_true, Bool.or_eq_true, bne_iff_ne, ne_eq, Bool.not_eq_true', beq_iff_eq] at h
  obtain ⟨⟨⟨⟨h1, h2⟩, h3⟩, h4⟩, h5⟩ := h
  refine ⟨?_, ?_, ?_, ?_, ?_⟩
  · intro hd hr
    rcases h1 with (h | h) | h
    · exact absurd hd h
    · rw [h] at hr; cases hr
    · exact h
  · intro hd hr
    rcases h2 with (h | h) | h
    · exact absurd hd h
    · rw [h] at hr; cases hr
    · exact h
  · intro hd hr
    rcases h3 with (h | h) | h
    · exact absurd hd h
    · rw [h] at hr; cases hr
    · exact h
  · intro hd
    cases h4 with
    | inl h => exact absurd hd h
    | inr h => exact h
  · intro ht
    cases h5 with
    | inl h => exact absurd ht h
    | inr h => exact h

/-- lex the prefix `a` of `a ++ r` token by token and check what `TokPrefix` demands (literals terminated, the last token
    tolerating the continuation `r'`); `some ta` = the raw tokens of `a` up to source maps -/
def tokPrefixCheck (d : TokenDef) (r r' : Str) : Nat → Str → Option (List (Nat × Str))
  | _, [] => some []
  | 0, _ :: _ => none
  | f + 1, c :: cs =>
    match analyzeDomain d (c :: cs ++ r) 0 with
    | .ok dom =>
      match parser d dom (c :: cs ++ r) 0 with
      | .ok (e, t) =>
        if 0 < e ∧ e ≤ (c :: cs).length ∧ (dom ≠ Dom.quote ∨ quoteClosed d (c :: cs ++ r) = true) ∧
            ((c :: cs).drop e ≠ [] ∨ headOKb d dom t r r' = true) then
          (tokPrefixCheck d r r' f ((c :: cs).drop e)).map (fun ta => simplify t :: ta)
        else none
      | .error _ => none
    | .error _ => none

theorem tokPrefixCheck_sound {d : TokenDef} {r r' : Str} : ∀ (f : Nat) (a : Str) (ta : List (Nat × Str)),
    tokPrefixCheck d r r' f a = some ta → TokPrefix d r r' a ta
  | f, [], ta, h => by
    cases f <;> (simp only [tokPrefixCheck, Option.some.injEq] at h; subst h; exact .nil)
  | 0, c :: cs, ta, h => by simp [tokPrefixCheck] at h
  | f + 1, c :: cs, ta, h => by
    unfold tokPrefixCheck at h
    cases hd : analyzeDomain d (c :: cs ++ r) 0 with
    | error er => rw [hd] at h; cases h
    | ok dom =>
      rw [hd] at h
      simp only [] at h
      cases hp : parser d dom (c :: cs ++ r) 0 with
      | error er => rw [hp] at h; cases h
      | ok res =>
        obtain ⟨e, t⟩ := res
        rw [hp] at h
        simp only [] at h
        split at h
        · rename_i hc
          obtain ⟨hpos, hle, hq, hlast⟩ := hc
          cases hrec : tokPrefixCheck d r r' f ((c :: cs).drop e) with
          | none => rw [hrec] at h; cases h
          | some ta' =>
            rw [hrec] at h
            simp only [Option.map_some, Option.some.injEq] at h
            subst h
            have ih := tokPrefixCheck_sound f _ _ hrec
            have hsplit : (c :: cs).take e ++ (c :: cs).drop e = c :: cs := List.take_append_drop e _
            have hlen : ((c :: cs).take e).length = e := by rw [List.length_take]; omega
            have hsrc : (c :: cs).take e ++ ((c :: cs).drop e ++ r) = c :: cs ++ r := by
              rw [← List.append_assoc, hsplit]
            have := TokPrefix.cons (d := d) (r := r) (r' := r') (x := (c :: cs).take e) (a := (c :: cs).drop e) (dom := dom) (t := t) (ta := ta')
              (by intro hnil; have := congrArg List.length hnil; rw [hlen] at this; simp at this; omega)
              (by rw [hsrc]; exact hd) (by rw [hsrc, hlen]; exact hp)
              (fun hdq => by
                rw [hsrc]
                cases hq with
                | inl h => exact absurd hdq h
                | inr h => exact h)
              (fun hnil => by
                cases hlast with
                | inl h => exact absurd hnil h
                | inr h => exact headOKb_sound h)
              ih
            rwa [hsplit] at this
        · cases h

theorem headIn_dropWhile (a : Str) : ∀ (s : Str), headIn a (s.dropWhile (fun c => a.contains c)) = false
  | [] => rfl
  | c :: cs => by
    cases h : a.contains c
    · simp only [List.dropWhile, h, headIn]
    · simp only [List.dropWhile, h]; exact headIn_dropWhile a cs

/-- `src` with `w` inserted at offset `pos` — the syntactic description of the search's blank / blank-line rewrites -/
def insertAt (src : Str) (pos : Nat) (w : Str) : Str := src.take pos ++ (w ++ src.drop pos)

/-- decidable side check for inserting white space `w` at `pos`: `pos` is a token boundary of whole, terminated tokens whose
    last one tolerates white space; `w` is white space, without newline unless the white space run at `pos` has one; the
    rest lexes -/
def blankInsertOK (d : TokenDef) (src : Str) (pos : Nat) (w : Str) : Bool :=
  let a := src.take pos
  let rest := src.drop pos
  let run := rest.takeWhile (fun c => d.whiteSpace.contains c)
  let r1 := rest.dropWhile (fun c => d.whiteSpace.contains c)
  !w.isEmpty && w.all (fun c => d.whiteSpace.contains c) && (Str.count '\n' w == 0 || Str.count '\n' run != 0) &&
  (tokPrefixCheck d (run ++ r1) (w ++ (run ++ r1)) a.length a).isSome &&
  (match lexS d r1 with | .ok _ => true | .error _ => false)

/-- **Blanks / blank lines, by position.** Whenever the decidable check passes, inserting `w` at `pos` leaves
    `Tokenizer.parse` unchanged up to source maps. -/
theorem layout_blank_at {d : TokenDef} (hr : layoutReady d) (src : Str) (pos : Nat) (w : Str) (h : blankInsertOK d src pos w = true) :
    (tokenize d src).map (List.map simplify) = (tokenize d (insertAt src pos w)).map (List.map simplify) := by
  simp only [blankInsertOK, Bool.and_eq_true, Bool.not_eq_true', List.all_eq_true, Bool.or_eq_true, beq_iff_eq, bne_iff_ne, ne_eq] at h
  obtain ⟨⟨⟨⟨h1, h2⟩, h3⟩, h4⟩, h5⟩ := h
  have hsplit : (src.drop pos).takeWhile (fun c => d.whiteSpace.contains c) ++ (src.drop pos).dropWhile (fun c => d.whiteSpace.contains c) = src.drop pos :=
    List.takeWhile_append_dropWhile
  generalize hrun : (src.drop pos).takeWhile (fun c => d.whiteSpace.contains c) = run at h3 h4 hsplit
  generalize hr1 : (src.drop pos).dropWhile (fun c => d.whiteSpace.contains c) = r1 at h4 h5 hsplit
  have hrunall : ∀ c ∈ run, d.whiteSpace.contains c = true := by
    intro c hc; rw [← hrun] at hc; exact takeWhile_all _ _ c hc
  have hr1h : headIn d.whiteSpace r1 = false := by rw [← hr1]; exact headIn_dropWhile _ _
  obtain ⟨ta, hta⟩ := Option.isSome_iff_exists.mp h4
  have hpre := tokPrefixCheck_sound _ _ _ hta
  cases hL : lexS d r1 with
  | error e => rw [hL] at h5; cases h5
  | ok L1 =>
    have hwne : w ≠ [] := by intro e; rw [e] at h1; simp at h1
    have := layout_blank hr (src.take pos) run r1 w hwne h2 h3 hrunall hr1h hpre hL
    have e1 : src.take pos ++ (run ++ r1) = src := by rw [hsplit]; exact List.take_append_drop pos src
    rw [e1] at this
    unfold insertAt
    rw [← hsplit]
    exact this

def firstOpenIs (d : TokenDef) (s : Str) (p : Str × Str) : Bool :=
  match firstOpen d.comment s 0 with
  | .ok q => q = p
  | .error _ => false

theorem firstOpenIs_sound {d : TokenDef} {s : Str} {p : Str × Str} (h : firstOpenIs d s p = true) : firstOpen d.comment s 0 = .ok p := by
  unfold firstOpenIs at h
  cases hf : firstOpen d.comment s 0 with
  | error e => rw [hf] at h; cases h
  | ok q => rw [hf] at h; simp at h; rw [h]

/-- decidable side check for a trailing comment `w ++ opener ++ body` inserted at `pos` (a line end) -/
def commentInsertOK (d : TokenDef) (src : Str) (pos : Nat) (w body : Str) (p : Str × Str) : Bool :=
  let a := src.take pos
  let r := src.drop pos
  !w.isEmpty && w.all (fun c => d.whiteSpace.contains c) && Str.count '\n' w == 0 &&
  firstOpenIs d (p.1 ++ body ++ r) p && !body.contains '\n' && nlOrEnd r &&
  (tokPrefixCheck d r (w ++ (p.1 ++ body ++ r)) a.length a).isSome &&
  (match lexS d r with | .ok _ => true | .error _ => false)

/-- **Trailing comment, by position.** -/
theorem layout_comment_at {d : TokenDef} (hr : layoutReady d) (src : Str) (pos : Nat) (w body : Str) (p : Str × Str)
    (h : commentInsertOK d src pos w body p = true) :
    (tokenize d src).map (List.map simplify) = (tokenize d (insertAt src pos (w ++ (p.1 ++ body)))).map (List.map simplify) := by
  simp only [commentInsertOK, Bool.and_eq_true, Bool.not_eq_true', List.all_eq_true, beq_iff_eq] at h
  obtain ⟨⟨⟨⟨⟨⟨⟨h1, h2⟩, h3⟩, h4⟩, h5⟩, h6⟩, h7⟩, h8⟩ := h
  obtain ⟨ta, hta⟩ := Option.isSome_iff_exists.mp h7
  have hpre := tokPrefixCheck_sound _ _ _ hta
  cases hL : lexS d (src.drop pos) with
  | error e => rw [hL] at h8; cases h8
  | ok L =>
    have hwne : w ≠ [] := by intro e; rw [e] at h1; simp at h1
    have hb : '\n' ∉ body := by simpa using h5
    have := layout_comment hr (src.take pos) w body (src.drop pos) p hwne h2 h3 (firstOpenIs_sound h4) hb h6 hpre hL
    rw [List.take_append_drop] at this
    unfold insertAt
    simpa [List.append_assoc] using this

/-- decidable side check for a comment-only line `⏎ ind opener body` inserted at `pos` (a line end followed by a newline) -/
def commentLineInsertOK (d : TokenDef) (src : Str) (pos : Nat) (ind body : Str) (p : Str × Str) : Bool :=
  let a := src.take pos
  let rest := src.drop pos
  let nlrun := rest.takeWhile (fun c => d.whiteSpace.contains c)
  let r1 := rest.dropWhile (fun c => d.whiteSpace.contains c)
  ind.all (fun c => d.whiteSpace.contains c) && d.whiteSpace.contains '\n' && nlOrEnd nlrun && !nlrun.isEmpty &&
  firstOpenIs d (p.1 ++ body ++ (nlrun ++ r1)) p && !body.contains '\n' &&
  (tokPrefixCheck d (nlrun ++ r1) (('\n' :: ind) ++ (p.1 ++ body ++ (nlrun ++ r1))) a.length a).isSome &&
  (match lexS d r1 with | .ok _ => true | .error _ => false)

/-- **Comment-only line, by position.** -/
theorem layout_comment_line_at {d : TokenDef} (hr : layoutReady d) (src : Str) (pos : Nat) (ind body : Str) (p : Str × Str)
    (h : commentLineInsertOK d src pos ind body p = true) :
    (tokenize d src).map (List.map simplify)
      = (tokenize d (insertAt src pos (('\n' :: ind) ++ (p.1 ++ body)))).map (List.map simplify) := by
  simp only [commentLineInsertOK, Bool.and_eq_true, Bool.not_eq_true', List.all_eq_true] at h
  obtain ⟨⟨⟨⟨⟨⟨⟨h1, h2⟩, h3⟩, h4⟩, h5⟩, h6⟩, h7⟩, h8⟩ := h
  have hsplit : (src.drop pos).takeWhile (fun c => d.whiteSpace.contains c) ++ (src.drop pos).dropWhile (fun c => d.whiteSpace.contains c) = src.drop pos :=
    List.takeWhile_append_dropWhile
  generalize hrun : (src.drop pos).takeWhile (fun c => d.whiteSpace.contains c) = nlrun at h3 h4 h5 h7 hsplit
  generalize hr1 : (src.drop pos).dropWhile (fun c => d.whiteSpace.contains c) = r1 at h5 h7 h8 hsplit
  have hrunall : ∀ c ∈ nlrun, d.whiteSpace.contains c = true := by
    intro c hc; rw [← hrun] at hc; exact takeWhile_all _ _ c hc
  have hr1h : headIn d.whiteSpace r1 = false := by rw [← hr1]; exact headIn_dropWhile _ _
  obtain ⟨ta, hta⟩ := Option.isSome_iff_exists.mp h7
  have hpre := tokPrefixCheck_sound _ _ _ hta
  cases hL : lexS d r1 with
  | error e => rw [hL] at h8; cases h8
  | ok L1 =>
    have hne : nlrun ≠ [] := by intro e; rw [e] at h4; simp at h4
    have hb : '\n' ∉ body := by simpa using h6
    have := layout_comment_line hr (src.take pos) ind body nlrun r1 p h1 h2 hrunall h3 hne hr1h (firstOpenIs_sound h5) hb hpre hL
    have e1 : src.take pos ++ (nlrun ++ r1) = src := by rw [hsplit]; exact List.take_append_drop pos src
    rw [e1] at this
    unfold insertAt
    rw [← hsplit]
    simpa [List.append_assoc] using this

end Tranp.Lexer
