/-
  Helper lemmas for property C13 (tokenizer). Property theorems are in Tranp/Props/C13.lean.
-/
import Tranp.Model.Lexer

namespace Tranp.Lexer
open Tranp

/-! ### slices -/

theorem slice_zero (s : Str) (e : Nat) : slice s 0 e = s.take e := by simp [slice]

theorem take_eq_take_append_slice (s : Str) {b e : Nat} (h : b ≤ e) : s.take e = s.take b ++ slice s b e := by
  unfold slice
  have h1 : (s.take e).take b = s.take b := by rw [List.take_take]; congr 1; omega
  rw [← h1, List.take_append_drop]

theorem slice_append_drop (s : Str) {b e : Nat} (h : b ≤ e) : slice s b e ++ s.drop e = s.drop b := by
  unfold slice
  conv => rhs; rw [← List.take_append_drop e s]
  rw [List.drop_append]
  congr 1
  by_cases hb : b ≤ s.length
  · have : b - (List.take e s).length = 0 := by simp; omega
    rw [this]; simp
  · have : s.drop e = [] := by apply List.drop_eq_nil_of_le; omega
    rw [this]; simp

theorem slice_split (s : Str) {a b c : Nat} (h1 : a ≤ b) (h2 : b ≤ c) : slice s a c = slice s a b ++ slice s b c := by
  unfold slice
  have e1 : s.take b = (s.take c).take b := by rw [List.take_take]; congr 1; omega
  rw [e1]
  generalize s.take c = t
  conv => lhs; rw [← List.take_append_drop b t]
  rw [List.drop_append]
  by_cases hb : a ≤ t.length
  · have : a - (List.take b t).length = 0 := by simp; omega
    rw [this]; simp
  · have : t.drop b = [] := by apply List.drop_eq_nil_of_le; omega
    rw [this]; simp

theorem slice_length (s : Str) {b e : Nat} (h : e ≤ s.length) : (slice s b e).length = e - b := by
  simp [slice]; omega

/-! ### startsWith / find -/

theorem startsWith_length : ∀ (s p : Str), Str.startsWith s p = true → p.length ≤ s.length
  | _, [], _ => by simp
  | [], _ :: _, h => by simp [Str.startsWith] at h
  | c :: cs, q :: qs, h => by
    simp [Str.startsWith] at h
    have := startsWith_length cs qs h.2
    simp; omega

theorem startsWith_take : ∀ (s p : Str), Str.startsWith s p = true → s.take p.length = p
  | _, [], _ => by simp
  | [], _ :: _, h => by simp [Str.startsWith] at h
  | c :: cs, q :: qs, h => by
    simp [Str.startsWith] at h
    simp [h.1, startsWith_take cs qs h.2]

theorem startsWithAt_bound {s p : Str} {i : Nat} (h : startsWithAt s p i = true) : i + p.length ≤ s.length := by
  simp [startsWithAt] at h
  have := startsWith_length _ _ h.2
  simp at this; omega

theorem findSub_bound (p : Str) : ∀ (s : Str) (i : Nat), findSub p s = some i → i + p.length ≤ s.length
  | [], i, h => by
    simp [findSub] at h
    obtain ⟨h1, h2⟩ := h
    subst h1 h2; simp
  | c :: cs, i, h => by
    simp only [findSub] at h
    split at h
    · rename_i hs
      injection h with h; subst h
      have := startsWith_length _ _ hs
      simpa using this
    · cases hf : findSub p cs with
      | none => simp [hf] at h
      | some j =>
        simp [hf] at h; subst h
        have := findSub_bound p cs j hf
        simp; omega

theorem findFrom_bound {s p : Str} {i idx : Nat} (h : findFrom s p i = some idx) : i ≤ idx ∧ idx + p.length ≤ s.length := by
  unfold findFrom at h
  split at h
  · rename_i hi
    cases hf : findSub p (s.drop i) with
    | none => simp [hf] at h
    | some j =>
      simp [hf] at h; subst h
      have := findSub_bound p _ j hf
      simp at this
      omega
  · simp at h

/-! ### spanLen -/

theorem takeWhile_length_le (f : Char → Bool) : ∀ l : Str, (l.takeWhile f).length ≤ l.length
  | [] => by simp
  | c :: cs => by
    have := takeWhile_length_le f cs
    cases h : f c <;> simp [List.takeWhile, h]; omega

theorem take_takeWhile_length (f : Char → Bool) : ∀ l : Str, l.take (l.takeWhile f).length = l.takeWhile f
  | [] => by simp
  | c :: cs => by
    cases h : f c <;> simp [List.takeWhile, h, take_takeWhile_length f cs]

theorem takeWhile_all (f : Char → Bool) : ∀ (l : Str) (c : Char), c ∈ l.takeWhile f → f c = true
  | [], c, h => by simp at h
  | x :: xs, c, h => by
    cases hx : f x
    · simp [List.takeWhile, hx] at h
    · simp only [List.takeWhile, hx, List.mem_cons] at h
      cases h with
      | inl h => rw [h]; exact hx
      | inr h => exact takeWhile_all f xs c h

theorem spanLen_le (a s : Str) (b : Nat) : b + spanLen a s b ≤ max b s.length := by
  unfold spanLen
  have := takeWhile_length_le (fun c => a.contains c) (s.drop b)
  simp only [List.length_drop] at this
  omega

theorem drop_eq_cons_of_getElem? {s : Str} {b : Nat} {c : Char} (hc : s[b]? = some c) : s.drop b = c :: s.drop (b + 1) := by
  have h := List.getElem?_eq_some_iff.mp hc
  obtain ⟨hb, he⟩ := h
  rw [List.drop_eq_getElem_cons hb, he]

theorem spanLen_pos {a s : Str} {b : Nat} {c : Char} (hc : s[b]? = some c) (ha : a.contains c = true) : 0 < spanLen a s b := by
  unfold spanLen
  rw [drop_eq_cons_of_getElem? hc]
  simp only [List.takeWhile, ha]
  simp

theorem slice_spanLen (a s : Str) (b : Nat) : slice s b (b + spanLen a s b) = (s.drop b).takeWhile (fun c => a.contains c) := by
  unfold slice spanLen
  rw [List.drop_take]
  have : b + ((s.drop b).takeWhile (fun c => a.contains c)).length - b = ((s.drop b).takeWhile (fun c => a.contains c)).length := by omega
  rw [this]
  exact take_takeWhile_length _ _

/-- every character of the scanned slice is in the alphabet -/
theorem spanLen_all (a s : Str) (b : Nat) : ∀ c ∈ slice s b (b + spanLen a s b), a.contains c = true := by
  intro c hc
  rw [slice_spanLen] at hc
  exact takeWhile_all _ _ c hc

/-! ### specification vocabulary -/

/-- the source text a raw token stands for: its string, except that the unary-minus marker stands for `-` -/
def rawText (t : Token) : Str :=
  if t.type = T.minus ∧ t.string = Special.opUnaryMinus then ['-'] else t.string

/-- what one sub-parser call must deliver: progress, stays inside the source, text = the consumed slice, map of that slice -/
structure StepOK (src : Str) (b e : Nat) (t : Token) : Prop where
  lt : b < e
  le : e ≤ src.length
  text : rawText t = slice src b e
  map : t.map = mkMap src b e

/-- finite side conditions on a definition (decided for the generated definitions) -/
def wf (d : TokenDef) : Bool :=
  d.comment.all (fun p => !p.1.isEmpty) &&
  d.quote.all (fun p => !p.1.isEmpty && !p.2.isEmpty) &&
  !d.whiteSpace.contains '\\' &&
  d.symbol[15]? == some '-'

theorem rawText_of_ne {t : Token} (h : t.type ≠ T.minus) : rawText t = t.string := by
  simp [rawText, h]

theorem countSubAux_zero (a : Char) (p : Str) : ∀ (s : Str) (k : Nat), a ∉ s → countSubAux (a :: p) k s = 0
  | [], k, _ => by cases k <;> simp [countSubAux]
  | c :: cs, k, h => by
    have hc : ¬ a = c := fun e => h (by simp [e])
    have hcs : a ∉ cs := fun e => h (by simp [e])
    cases k with
    | succ k => simp [countSubAux, countSubAux_zero a p cs k hcs]
    | zero =>
      have : Str.startsWith (c :: cs) (a :: p) = false := by
        simp [Str.startsWith]; intro e; exact absurd e.symm hc
      simp [countSubAux, this, countSubAux_zero a p cs 0 hcs]

theorem charIn_ok {a s : Str} {b : Nat} (h : charIn a s b = .ok true) : ∃ c, s[b]? = some c ∧ a.contains c = true := by
  unfold charIn charAt at h
  cases hc : s[b]? with
  | none => rw [hc] at h; cases h
  | some c =>
    rw [hc] at h
    refine ⟨c, rfl, ?_⟩
    cases hh : a.contains c
    · rw [show (do let c ← (Except.ok c : Except Err Char); pure (a.contains c)) = Except.ok (a.contains c) from rfl, hh] at h
      cases h
    · rfl

theorem getElem?_lt {s : Str} {b : Nat} {c : Char} (h : s[b]? = some c) : b < s.length :=
  (List.getElem?_eq_some_iff.mp h).1

theorem parseWhiteSpace_ok {d : TokenDef} (hw : wf d = true) {src : Str} {b e : Nat} {t : Token}
    (ha : charIn d.whiteSpace src b = .ok true) (h : parseWhiteSpace d src b = .ok (e, t)) : StepOK src b e t := by
  obtain ⟨c, hc, hin⟩ := charIn_ok ha
  have hb := getElem?_lt hc
  have hpos := spanLen_pos hc hin
  have hle := spanLen_le d.whiteSpace src b
  have hbs : '\\' ∉ d.whiteSpace := by
    simp [wf] at hw; exact hw.1.2
  have hno : '\\' ∉ slice src b (b + spanLen d.whiteSpace src b) := by
    intro hm
    have := spanLen_all d.whiteSpace src b _ hm
    simp at this; exact hbs this
  have hz := countSubAux_zero '\\' ['\n'] _ 0 hno
  unfold parseWhiteSpace at h
  simp only [hz, Nat.lt_irrefl, ↓reduceIte] at h
  split at h <;> (injection h with h; injection h with h1 h2; subst h1 h2)
  · exact ⟨by omega, by omega, rawText_of_ne (by simp [T.whiteSpace, T.minus]), rfl⟩
  · exact ⟨by omega, by omega, rawText_of_ne (by simp [T.lineBreak, T.minus]), rfl⟩

theorem parseNumber_ok {d : TokenDef} {src : Str} {b e : Nat} {t : Token}
    (ha : charIn d.number src b = .ok true) (h : parseNumber d src b = .ok (e, t)) : StepOK src b e t := by
  obtain ⟨c, hc, hin⟩ := charIn_ok ha
  have hb := getElem?_lt hc
  have hpos := spanLen_pos hc hin
  have hle := spanLen_le d.number src b
  unfold parseNumber at h
  injection h with h; injection h with h1 h2; subst h1 h2
  refine ⟨by omega, by omega, rawText_of_ne ?_, rfl⟩
  simp only []
  split <;> simp [T.decimal, T.digit, T.minus]

theorem parseIdentifier_ok {d : TokenDef} {src : Str} {b e : Nat} {t : Token}
    (ha : charIn d.identifier src b = .ok true) (h : parseIdentifier d src b = .ok (e, t)) : StepOK src b e t := by
  obtain ⟨c, hc, hin⟩ := charIn_ok ha
  have hb := getElem?_lt hc
  have hpos := spanLen_pos hc hin
  have hle := spanLen_le d.identifier src b
  unfold parseIdentifier at h
  injection h with h; injection h with h1 h2; subst h1 h2
  exact ⟨by omega, by omega, rawText_of_ne (by simp [T.name, T.minus]), rfl⟩

theorem firstOpen_ok {pairs : List (Str × Str)} {src : Str} {b : Nat} {p : Str × Str}
    (h : firstOpen pairs src b = .ok p) : p ∈ pairs ∧ startsWithAt src p.1 b = true := by
  unfold firstOpen at h
  cases hf : pairs.find? (fun p => startsWithAt src p.1 b) with
  | none => rw [hf] at h; cases h
  | some q =>
    rw [hf] at h; injection h with h; subst h
    exact ⟨List.mem_of_find?_eq_some hf, by simpa using List.find?_some hf⟩

theorem wf_comment {d : TokenDef} (hw : wf d = true) {p : Str × Str} (hp : p ∈ d.comment) : 0 < p.1.length := by
  simp [wf] at hw
  have := hw.1.1.1 p.1 p.2 hp
  exact List.length_pos_iff.mpr this

theorem wf_quote {d : TokenDef} (hw : wf d = true) {p : Str × Str} (hp : p ∈ d.quote) : 0 < p.1.length ∧ 0 < p.2.length := by
  simp [wf] at hw
  have := hw.1.1.2 p.1 p.2 hp
  exact ⟨List.length_pos_iff.mpr this.1, List.length_pos_iff.mpr this.2⟩

theorem parseComment_ok {d : TokenDef} (hw : wf d = true) {src : Str} {b e : Nat} {t : Token}
    (hb : b < src.length) (h : parseComment d src b = .ok (e, t)) : StepOK src b e t := by
  unfold parseComment at h
  cases hf : firstOpen d.comment src b with
  | error er => rw [hf] at h; cases h
  | ok pair =>
    rw [hf] at h
    obtain ⟨hp, hs⟩ := firstOpen_ok hf
    have hlen := wf_comment hw hp
    have hbound := startsWithAt_bound hs
    simp only [bind, Except.bind] at h
    split at h
    · rename_i idx hidx
      have := findFrom_bound hidx
      injection h with h; injection h with h1 h2; subst h1 h2
      refine ⟨?_, ?_, rawText_of_ne (by simp [T.comment, T.minus]), rfl⟩
      · split <;> omega
      · split <;> omega
    · injection h with h; injection h with h1 h2; subst h1 h2
      exact ⟨hb, Nat.le_refl _, rawText_of_ne (by simp [T.comment, T.minus]), rfl⟩

/-- the quote loop stays inside the source and never exhausts a fuel of at least `len - e` -/
theorem quoteLoop_ok {src close : Str} (hc : 0 < close.length) (body : Nat) : ∀ (fuel e : Nat), e ≤ src.length → src.length - e ≤ fuel →
    ∃ e', quoteLoop src close body fuel e = .ok e' ∧ e ≤ e' ∧ e' ≤ src.length
  | fuel, e, hle, hf => by
    unfold quoteLoop
    split
    · rename_i hlt
      cases fuel with
      | zero => omega
      | succ f =>
        simp only []
        cases hfind : findFrom src close e with
        | none => exact ⟨e, rfl, Nat.le_refl _, hle⟩
        | some idx =>
          have hb := findFrom_bound hfind
          simp only []
          split
          · obtain ⟨e', h1, h2, h3⟩ := quoteLoop_ok (src := src) hc body f (idx + 1) (by omega) (by omega)
            exact ⟨e', h1, by omega, h3⟩
          · exact ⟨_, rfl, by omega, hb.2⟩
    · exact ⟨e, rfl, Nat.le_refl _, hle⟩

theorem parseQuote_ok {d : TokenDef} (hw : wf d = true) {src : Str} {b e : Nat} {t : Token}
    (h : parseQuote d src b = .ok (e, t)) : StepOK src b e t := by
  unfold parseQuote at h
  cases hf : firstOpen d.quote src b with
  | error er => rw [hf] at h; cases h
  | ok pair =>
    rw [hf] at h
    obtain ⟨hp, hs⟩ := firstOpen_ok hf
    have hlen := wf_quote hw hp
    have hbound := startsWithAt_bound hs
    obtain ⟨e', hq, h1, h2⟩ := quoteLoop_ok (src := src) hlen.2 (b + pair.1.length) src.length (b + pair.1.length) hbound (by omega)
    simp only [bind, Except.bind, hq] at h
    split at h
    · cases h
    · rename_i c cs hv
      injection h with h; injection h with h3 h4; subst h3 h4
      refine ⟨by omega, h2, ?_, rfl⟩
      apply rawText_of_ne
      simp only []; split <;> simp [T.regexp, T.string, T.minus]

theorem typeOf_ok {d : TokenDef} {n ty : Nat} (h : typeOf d n = .ok ty) : ty = n := by
  unfold typeOf at h
  split at h
  · injection h with h; exact h.symm
  · cases h

theorem combined_ok {d : TokenDef} {src : Str} {b w e : Nat} {t : Token} (hwid : 0 < w)
    (h : combined d src b w = .ok (some (e, t))) : StepOK src b e t := by
  unfold combined at h
  simp only [] at h
  split at h
  · cases h
  · rename_i hlt
    split at h
    · cases h
    · rename_i off hoff
      cases hty : typeOf d (T.beginCombine + off) with
      | error er => rw [hty] at h; cases h
      | ok ty =>
        rw [hty] at h
        have := typeOf_ok hty
        simp only [bind, Except.bind, pure, Except.pure] at h
        injection h with h; injection h with h; injection h with h1 h2; subst h1 h2
        refine ⟨by omega, by omega, rawText_of_ne ?_, rfl⟩
        simp only [this, T.beginCombine, T.minus]; omega

theorem indexOf?_getElem? {α : Type} [DecidableEq α] (x : α) : ∀ (l : List α) (i : Nat), indexOf? x l = some i → l[i]? = some x
  | [], i, h => by simp [indexOf?] at h
  | y :: ys, i, h => by
    simp only [indexOf?] at h
    split at h
    · rename_i hy; injection h with h; subst h; simp [hy]
    · cases hr : indexOf? x ys with
      | none => simp [hr] at h
      | some j =>
        simp [hr] at h; subst h
        simpa using indexOf?_getElem? x ys j hr

theorem slice_one {src : Str} {b : Nat} {c : Char} (h : src[b]? = some c) : slice src b (b + 1) = [c] := by
  unfold slice
  rw [List.drop_take, drop_eq_cons_of_getElem? h]
  simp

theorem charAt_ok {s : Str} {b : Nat} {c : Char} (h : charAt s b = .ok c) : s[b]? = some c := by
  unfold charAt at h
  cases hc : s[b]? with
  | none => rw [hc] at h; cases h
  | some x => rw [hc] at h; injection h with h; rw [h]

theorem wf_minus {d : TokenDef} (hw : wf d = true) : d.symbol[15]? = some '-' := by
  simp [wf] at hw; exact hw.2

theorem parseSymbol_ok {d : TokenDef} (hw : wf d = true) {src : Str} {b e : Nat} {t : Token}
    (h : parseSymbol d src b = .ok (e, t)) : StepOK src b e t := by
  unfold parseSymbol at h
  cases h3 : combined d src b 3 with
  | error er => rw [h3] at h; cases h
  | ok r3 =>
    rw [h3] at h
    simp only [bind, Except.bind] at h
    cases r3 with
    | some r =>
      simp only [pure, Except.pure] at h
      injection h with h; subst h
      exact combined_ok (by omega) h3
    | none =>
      simp only [] at h
      cases h2 : combined d src b 2 with
      | error er => rw [h2] at h; cases h
      | ok r2 =>
        rw [h2] at h
        cases r2 with
        | some r =>
          simp only [pure, Except.pure] at h
          injection h with h; subst h
          exact combined_ok (by omega) h2
        | none =>
          simp only [] at h
          cases hv : charAt src b with
          | error er => rw [hv] at h; cases h
          | ok value =>
            rw [hv] at h
            have hget := charAt_ok hv
            have hb := getElem?_lt hget
            have hs1 := slice_one hget
            simp only [] at h
            split at h
            · cases h
            · rename_i off hoff
              cases hty : typeOf d (Dom.symbol * 16 + off) with
              | error er => rw [hty] at h; cases h
              | ok ty =>
                rw [hty] at h
                have htyv := typeOf_ok hty
                simp only [] at h
                split at h
                · rename_i hminus
                  -- the symbol at offset 15 is the minus sign
                  have hoff15 : off = 15 := by
                    rw [hminus] at htyv; simp [T.minus, Dom.symbol] at htyv; omega
                  have hval : value = '-' := by
                    have h1 := indexOf?_getElem? value d.symbol off hoff
                    rw [hoff15, wf_minus hw] at h1
                    injection h1 with h1; exact h1.symm
                  split at h
                  · cases hws : charIn d.whiteSpace src (b + 1) with
                    | error er => rw [hws] at h; cases h
                    | ok ws =>
                      rw [hws] at h
                      simp only [] at h
                      split at h
                      · simp only [pure, Except.pure] at h
                        injection h with h; injection h with h1 h2; subst h1 h2
                        refine ⟨by omega, by omega, ?_, rfl⟩
                        rw [hs1, hval]
                        simp [rawText, Token.opUnaryMinus]
                      · simp only [pure, Except.pure] at h
                        injection h with h; injection h with h1 h2; subst h1 h2
                        refine ⟨by omega, by omega, ?_, rfl⟩
                        rw [hs1]
                        simp [rawText, Special.opUnaryMinus]
                  · simp only [pure, Except.pure] at h
                    injection h with h; injection h with h1 h2; subst h1 h2
                    refine ⟨by omega, by omega, ?_, rfl⟩
                    rw [hs1]
                    simp [rawText, Special.opUnaryMinus]
                · rename_i hnm
                  simp only [pure, Except.pure] at h
                  injection h with h; injection h with h1 h2; subst h1 h2
                  exact ⟨by omega, by omega, by rw [hs1]; exact rawText_of_ne hnm, rfl⟩

theorem analyzeGo_sound {d : TokenDef} {src : Str} {b : Nat} : ∀ (order : List Nat) (dom : Nat),
    analyzeGo d src b order = .ok dom → analyzer d dom src b = .ok true
  | [], dom, h => by cases h
  | x :: rest, dom, h => by
    unfold analyzeGo at h
    cases ha : analyzer d x src b with
    | error er => rw [ha] at h; cases h
    | ok r =>
      rw [ha] at h
      simp only [bind, Except.bind] at h
      cases r with
      | true =>
        simp only [↓reduceIte, pure, Except.pure] at h
        injection h with h; subst h; exact ha
      | false =>
        simp only [Bool.false_eq_true, ↓reduceIte] at h
        exact analyzeGo_sound rest dom h

/-- one dispatch + sub-parser call of the main loop delivers a `StepOK` -/
theorem parser_ok {d : TokenDef} (hw : wf d = true) {src : Str} {b e dom : Nat} {t : Token} (hb : b < src.length)
    (hd : analyzeDomain d src b = .ok dom) (h : parser d dom src b = .ok (e, t)) : StepOK src b e t := by
  have ha := analyzeGo_sound _ _ hd
  unfold parser at h
  unfold analyzer at ha
  split at h
  · rename_i h0; simp only [h0, ↓reduceIte] at ha; exact parseWhiteSpace_ok hw ha h
  · rename_i h0
    split at h
    · exact parseComment_ok hw hb h
    · split at h
      · exact parseQuote_ok hw h
      · rename_i h1 h2
        split at h
        · rename_i h3; simp only [h3, ↓reduceIte] at ha; exact parseNumber_ok ha h
        · split at h
          · rename_i h3 h4; simp only [h4, ↓reduceIte] at ha; exact parseIdentifier_ok ha h
          · split at h
            · exact parseSymbol_ok hw h
            · cases h

theorem charIn_fuel {a s : Str} {b : Nat} : charIn a s b ≠ .error .fuel := by
  unfold charIn charAt
  cases s[b]? <;> intro h <;> cases h

theorem analyzeGo_fuel {d : TokenDef} {src : Str} {b : Nat} : ∀ (order : List Nat), analyzeGo d src b order ≠ .error .fuel
  | [] => by intro h; cases h
  | x :: rest => by
    unfold analyzeGo
    cases ha : analyzer d x src b with
    | error er =>
      intro h; simp only [bind, Except.bind] at h
      injection h with h; subst h
      unfold analyzer at ha
      repeat' split at ha
      all_goals first | exact charIn_fuel ha | cases ha
    | ok r =>
      simp only [bind, Except.bind]
      cases r with
      | true => intro h; cases h
      | false => simpa using analyzeGo_fuel rest

theorem analyzeDomain_fuel {d : TokenDef} {src : Str} {b : Nat} (h : analyzeDomain d src b = .error .fuel) : False :=
  analyzeGo_fuel _ h

theorem typeOf_fuel {d : TokenDef} {n : Nat} : typeOf d n ≠ .error .fuel := by
  unfold typeOf; split <;> intro h <;> cases h

theorem combined_fuel {d : TokenDef} {src : Str} {b w : Nat} : combined d src b w ≠ .error .fuel := by
  unfold combined
  simp only []
  split
  · intro h; cases h
  · split
    · intro h; cases h
    · rename_i off _
      cases hty : typeOf d (T.beginCombine + off) with
      | error er =>
        intro h; simp only [bind, Except.bind] at h
        injection h with h; subst h; exact typeOf_fuel hty
      | ok ty => intro h; cases h

theorem parseSymbol_fuel {d : TokenDef} {src : Str} {b : Nat} : parseSymbol d src b ≠ .error .fuel := by
  unfold parseSymbol
  cases h3 : combined d src b 3 with
  | error er => intro h; simp only [bind, Except.bind] at h; injection h with h; subst h; exact combined_fuel h3
  | ok r3 =>
    simp only [bind, Except.bind]
    cases r3 with
    | some r => intro h; cases h
    | none =>
      simp only []
      cases h2 : combined d src b 2 with
      | error er => intro h; simp only [] at h; injection h with h; subst h; exact combined_fuel h2
      | ok r2 =>
        cases r2 with
        | some r => intro h; cases h
        | none =>
          simp only []
          cases hv : charAt src b with
          | error er =>
            intro h; simp only [] at h; injection h with h; subst h
            unfold charAt at hv; cases hg : src[b]? <;> rw [hg] at hv <;> cases hv
          | ok value =>
            simp only []
            split
            · intro h; cases h
            · rename_i off _
              cases hty : typeOf d (Dom.symbol * 16 + off) with
              | error er => intro h; simp only [] at h; injection h with h; subst h; exact typeOf_fuel hty
              | ok ty =>
                simp only []
                split
                · split
                  · cases hws : charIn d.whiteSpace src (b + 1) with
                    | error er => intro h; simp only [] at h; injection h with h; subst h; exact charIn_fuel hws
                    | ok ws => simp only []; split <;> intro h <;> cases h
                  · intro h; cases h
                · intro h; cases h

theorem firstOpen_fuel {pairs : List (Str × Str)} {src : Str} {b : Nat} : firstOpen pairs src b ≠ .error .fuel := by
  unfold firstOpen; split <;> intro h <;> cases h

theorem parseComment_fuel {d : TokenDef} {src : Str} {b : Nat} : parseComment d src b ≠ .error .fuel := by
  unfold parseComment
  cases hf : firstOpen d.comment src b with
  | error er => intro h; simp only [bind, Except.bind] at h; injection h with h; subst h; exact firstOpen_fuel hf
  | ok pair => simp only [bind, Except.bind]; split <;> intro h <;> cases h

theorem parseQuote_fuel {d : TokenDef} (hw : wf d = true) {src : Str} {b : Nat} : parseQuote d src b ≠ .error .fuel := by
  unfold parseQuote
  cases hf : firstOpen d.quote src b with
  | error er => intro h; simp only [bind, Except.bind] at h; injection h with h; subst h; exact firstOpen_fuel hf
  | ok pair =>
    obtain ⟨hp, hs⟩ := firstOpen_ok hf
    have hlen := wf_quote hw hp
    have hbound := startsWithAt_bound hs
    obtain ⟨e', hq, h1, h2⟩ := quoteLoop_ok (src := src) hlen.2 (b + pair.1.length) src.length (b + pair.1.length) hbound (by omega)
    simp only [bind, Except.bind, hq]
    split <;> intro h <;> cases h

theorem parser_fuel {d : TokenDef} (hw : wf d = true) {src : Str} {b dom : Nat} (h : parser d dom src b = .error .fuel) : False := by
  unfold parser at h
  split at h
  · unfold parseWhiteSpace at h; simp only [] at h; repeat' split at h
    all_goals cases h
  · split at h
    · exact parseComment_fuel h
    · split at h
      · exact parseQuote_fuel hw h
      · split at h
        · cases h
        · split at h
          · cases h
          · split at h
            · exact parseSymbol_fuel h
            · cases h

/-- everything the main loop guarantees about its output, for any fuel: the raw texts tile `src[i:]`, and every token
    carries the source map of the slice it stands for -/
theorem parseLoop_ok {d : TokenDef} (hw : wf d = true) {src : Str} : ∀ (fuel i : Nat) (toks : List Token),
    i ≤ src.length → parseLoop d src fuel i = .ok toks →
    (toks.map rawText).flatten = src.drop i ∧
    ∀ t ∈ toks, ∃ b e, b ≤ e ∧ e ≤ src.length ∧ rawText t = slice src b e ∧ t.map = mkMap src b e
  | fuel, i, toks, hi, h => by
    unfold parseLoop at h
    split at h
    · rename_i hlt
      cases fuel with
      | zero => cases h
      | succ f =>
        simp only [] at h
        cases hd : analyzeDomain d src i with
        | error er => rw [hd] at h; cases h
        | ok dom =>
          rw [hd] at h
          simp only [bind, Except.bind] at h
          cases hp : parser d dom src i with
          | error er => rw [hp] at h; cases h
          | ok r =>
            obtain ⟨e, t⟩ := r
            rw [hp] at h
            simp only [] at h
            cases hr : parseLoop d src f e with
            | error er => rw [hr] at h; cases h
            | ok rest =>
              rw [hr] at h
              simp only [pure, Except.pure] at h
              injection h with h; subst h
              have hs := parser_ok hw hlt hd hp
              obtain ⟨ih1, ih2⟩ := parseLoop_ok hw f e rest hs.le hr
              constructor
              · simp only [List.map_cons, List.flatten_cons, ih1, hs.text]
                exact slice_append_drop src (Nat.le_of_lt hs.lt)
              · intro t' ht'
                simp only [List.mem_cons] at ht'
                cases ht' with
                | inl h1 => subst h1; exact ⟨i, e, Nat.le_of_lt hs.lt, hs.le, hs.text, hs.map⟩
                | inr h1 => exact ih2 t' h1
    · rename_i hge
      injection h with h; subst h
      have : src.drop i = [] := List.drop_eq_nil_of_le (by omega)
      simp [this]

/-- with the decided side conditions the loop never exhausts a fuel of at least `len - i` -/
theorem parseLoop_fuel {d : TokenDef} (hw : wf d = true) {src : Str} : ∀ (fuel i : Nat),
    src.length - i ≤ fuel → parseLoop d src fuel i ≠ .error .fuel
  | fuel, i, hf => by
    unfold parseLoop
    split
    · rename_i hlt
      cases fuel with
      | zero => omega
      | succ f =>
        simp only []
        cases hd : analyzeDomain d src i with
        | error er =>
          -- the only source of `.fuel` below the loop is the quote loop, excluded by `parser_fuel`
          intro h; simp only [bind, Except.bind] at h
          injection h with h; subst h
          exact analyzeDomain_fuel hd
        | ok dom =>
          simp only [bind, Except.bind]
          cases hp : parser d dom src i with
          | error er =>
            intro h; simp only [] at h
            injection h with h; subst h
            exact parser_fuel hw hp
          | ok r =>
            obtain ⟨e, t⟩ := r
            simp only []
            have hs := parser_ok hw hlt hd hp
            have ih := parseLoop_fuel hw (src := src) f e (by have := hs.lt; omega)
            cases hr : parseLoop d src f e with
            | error er =>
              intro h; simp only [] at h
              injection h with h; subst h
              exact ih hr
            | ok rest => intro h; cases h
    · intro h; cases h

/-! ### line/column ↔ offset arithmetic (`Token.SourceMap.make`) -/

/-- offset at which line `n` (0-based) of `s` starts: one past the `n`-th newline -/
def lineStart : Str → Nat → Nat
  | _, 0 => 0
  | [], _ + 1 => 0
  | c :: cs, n + 1 => 1 + (if c = '\n' then lineStart cs n else lineStart cs (n + 1))

/-- the slice of `src` a source map addresses -/
def addressed (src : Str) (m : SourceMap) : Str :=
  slice src (lineStart src m.bl.toNat + m.bc.toNat) (lineStart src m.el.toNat + m.ec.toNat)

theorem count_cons (c x : Char) (xs : Str) : Str.count c (x :: xs) = (if x = c then 1 else 0) + Str.count c xs := by
  simp only [Str.count, List.filter_cons]
  by_cases hx : x = c <;> simp [hx]; omega

theorem count_append (c : Char) (p q : Str) : Str.count c (p ++ q) = Str.count c p + Str.count c q := by
  simp [Str.count, List.filter_append]

theorem rfindChar_none_iff (c : Char) : ∀ s : Str, rfindChar c s = none ↔ Str.count c s = 0
  | [] => by simp [rfindChar, Str.count]
  | x :: xs => by
    have ih := rfindChar_none_iff c xs
    rw [count_cons]
    simp only [rfindChar]
    cases hr : rfindChar c xs with
    | some i =>
      have : Str.count c xs ≠ 0 := fun h => by rw [ih.mpr h] at hr; cases hr
      constructor
      · intro h; cases h
      · intro h; omega
    | none =>
      have := ih.mp hr
      by_cases hx : x = c
      · simp [hx]
      · simp [hx, this]

theorem rfindChar_lt (c : Char) : ∀ (s : Str) (i : Nat), rfindChar c s = some i → i < s.length
  | [], i, h => by simp [rfindChar] at h
  | x :: xs, i, h => by
    simp only [rfindChar] at h
    cases hr : rfindChar c xs with
    | some j => rw [hr] at h; injection h with h; subst h; have := rfindChar_lt c xs j hr; simp; omega
    | none =>
      rw [hr] at h
      by_cases hx : x = c
      · simp [hx] at h; subst h; simp
      · simp [hx] at h

theorem lastLineStart_le (p : Str) : lastLineStart p ≤ p.length := by
  unfold lastLineStart
  cases h : rfindChar '\n' p with
  | none => simp
  | some i => have := rfindChar_lt _ p i h; simp; omega

/-- the line counted by `count '\n'` over a prefix starts where `rfind '\n'` over that prefix says -/
theorem lineStart_prefix : ∀ (p q : Str), lineStart (p ++ q) (Str.count '\n' p) = lastLineStart p
  | [], q => by simp [Str.count, lineStart, lastLineStart, rfindChar]
  | c :: p, q => by
    have ih := lineStart_prefix p q
    rw [count_cons]
    unfold lastLineStart at ih ⊢
    simp only [rfindChar, List.cons_append]
    by_cases hc : c = '\n'
    · simp only [hc, ↓reduceIte]
      rw [Nat.add_comm 1 (Str.count '\n' p)]
      simp only [lineStart, ↓reduceIte]
      rw [ih]
      cases hr : rfindChar '\n' p <;> simp <;> omega
    · simp only [hc, ↓reduceIte, Nat.zero_add]
      cases hr : rfindChar '\n' p with
      | none =>
        have hz := (rfindChar_none_iff '\n' p).mp hr
        rw [hz]; simp [lineStart]
      | some i =>
        rw [hr] at ih
        have hnz : Str.count '\n' p ≠ 0 := fun h => by rw [(rfindChar_none_iff '\n' p).mpr h] at hr; cases hr
        obtain ⟨n, hn⟩ := Nat.exists_eq_succ_of_ne_zero hnz
        rw [hn] at ih ⊢
        simp only [lineStart, hc, ↓reduceIte]
        rw [ih]; simp; omega

theorem rfindChar_append (c : Char) : ∀ (p q : Str), rfindChar c (p ++ q) =
    match rfindChar c q with
    | some i => some (p.length + i)
    | none => rfindChar c p
  | [], q => by cases h : rfindChar c q <;> simp [rfindChar, h]
  | x :: p, q => by
    have ih := rfindChar_append c p q
    simp only [List.cons_append, rfindChar, ih]
    cases hq : rfindChar c q with
    | some i => simp; omega
    | none => simp

/-- no newline after the start of the last line -/
theorem rfindChar_drop_lastLineStart : ∀ p : Str, rfindChar '\n' (p.drop (lastLineStart p)) = none
  | [] => by simp [rfindChar]
  | x :: xs => by
    have ih := rfindChar_drop_lastLineStart xs
    unfold lastLineStart at ih ⊢
    simp only [rfindChar]
    cases hr : rfindChar '\n' xs with
    | some i =>
      rw [hr] at ih
      simpa using ih
    | none =>
      rw [hr] at ih
      by_cases hx : x = '\n'
      · simp [hx, hr]
      · simp [hx, rfindChar, hr]

/-- `SourceMap.make` inverts: the (line, column) pairs it records address exactly the offsets it was given -/
theorem mkMap_addresses (src : Str) {b e : Nat} (hbe : b ≤ e) (he : e ≤ src.length) :
    0 ≤ (mkMap src b e).bl ∧ 0 ≤ (mkMap src b e).bc ∧ 0 ≤ (mkMap src b e).el ∧ 0 ≤ (mkMap src b e).ec ∧
    lineStart src (mkMap src b e).bl.toNat + (mkMap src b e).bc.toNat = b ∧
    lineStart src (mkMap src b e).el.toNat + (mkMap src b e).ec.toNat = e := by
  have hb : b ≤ src.length := Nat.le_trans hbe he
  -- begin side
  have hls_b : lineStart src (Str.count '\n' (src.take b)) = lastLineStart (src.take b) := by
    have := lineStart_prefix (src.take b) (src.drop b)
    rwa [List.take_append_drop] at this
  have hbls : lastLineStart (src.take b) ≤ b := by
    have := lastLineStart_le (src.take b); simp at this; omega
  -- end side
  have hls_e : lineStart src (Str.count '\n' (src.take e)) = lastLineStart (src.take e) := by
    have := lineStart_prefix (src.take e) (src.drop e)
    rwa [List.take_append_drop] at this
  have hcount : Str.count '\n' (src.take e) = Str.count '\n' (src.take b) + Str.count '\n' (slice src b e) := by
    rw [take_eq_take_append_slice src hbe, count_append]
  -- the end line start, as the model computes it
  have hels : endLineStart src (lastLineStart (src.take b)) e = lastLineStart (src.take e) := by
    have hsplit : slice src (lastLineStart (src.take b)) e = slice src (lastLineStart (src.take b)) b ++ slice src b e :=
      slice_split src hbls hbe
    have hmid : rfindChar '\n' (slice src (lastLineStart (src.take b)) b) = none := by
      unfold slice; exact rfindChar_drop_lastLineStart _
    have hmidlen : (slice src (lastLineStart (src.take b)) b).length = b - lastLineStart (src.take b) := slice_length src hb
    have hlen_b : (src.take b).length = b := by simp; omega
    unfold endLineStart
    rw [hsplit, rfindChar_append]
    conv => rhs; unfold lastLineStart; rw [take_eq_take_append_slice src hbe, rfindChar_append]
    cases hq : rfindChar '\n' (slice src b e) with
    | some i => simp only [hmidlen, hlen_b]; omega
    | none => simp only [hmid]; rfl
  have helsle : lastLineStart (src.take e) ≤ e := by
    have := lastLineStart_le (src.take e); simp at this; omega
  simp only [mkMap, slice_zero, hels]
  refine ⟨by omega, by omega, by omega, by omega, ?_, ?_⟩
  · have h1 : ((Str.count '\n' (src.take b) : Nat) : Int).toNat = Str.count '\n' (src.take b) := by simp
    have h2 : ((b : Int) - (lastLineStart (src.take b) : Nat)).toNat = b - lastLineStart (src.take b) := by omega
    rw [h1, h2, hls_b]; omega
  · have h1 : ((Str.count '\n' (src.take b) : Int) + (Str.count '\n' (slice src b e) : Nat)).toNat = Str.count '\n' (src.take e) := by
      rw [hcount]; omega
    have h2 : ((e : Int) - (lastLineStart (src.take e) : Nat)).toNat = e - lastLineStart (src.take e) := by omega
    rw [h1, h2, hls_e]; omega

/-! ### INDENT / DEDENT accounting of `_rebuild` -/

def countType (ty : Nat) (ts : List Token) : Nat := (ts.filter (fun t => t.type = ty)).length

/-- ghost: the sizes of the indentation increases `_rebuild` sees (in nest units), in order -/
def jumps : Ctx → Nat → List Token → List Nat
  | _, _, [] => []
  | c, k + 1, _ :: ts => jumps c k ts
  | c, 0, t :: ts =>
    if t.domain = Dom.whiteSpace then
      match handleWhiteSpace c t with
      | .ok (adv, c', _) => (if c.nest < c'.nest then [c'.nest - c.nest] else []) ++ jumps c' (adv - 1) ts
      | .error _ => []
    else if t.domain = Dom.symbol then jumps (handleSymbol c t) 0 ts
    else jumps c 0 ts

/-- ghost: the nest depth still open when `_rebuild` reaches the end of the list (0 after an EOF outside brackets) -/
def finalNest : Ctx → Nat → List Token → Nat
  | c, _, [] => c.nest
  | c, k + 1, _ :: ts => finalNest c k ts
  | c, 0, t :: ts =>
    if t.domain = Dom.whiteSpace then
      match handleWhiteSpace c t with
      | .ok (adv, c', _) => finalNest c' (adv - 1) ts
      | .error _ => c.nest
    else if t.domain = Dom.symbol then finalNest (handleSymbol c t) 0 ts
    else finalNest c 0 ts

theorem countType_append (ty : Nat) (a b : List Token) : countType ty (a ++ b) = countType ty a + countType ty b := by
  simp [countType, List.filter_append]

theorem countType_cons (ty : Nat) (t : Token) (ts : List Token) :
    countType ty (t :: ts) = (if t.type = ty then 1 else 0) + countType ty ts := by
  unfold countType
  simp only [List.filter_cons]
  by_cases h : t.type = ty
  · simp [h]; omega
  · simp [h]

theorem countType_replicate (ty : Nat) (n : Nat) (t : Token) :
    countType ty (List.replicate n t) = if t.type = ty then n else 0 := by
  induction n with
  | zero => simp [countType]
  | succ n ih =>
    rw [List.replicate_succ, countType_cons, ih]
    split <;> omega

theorem countType_nil (ty : Nat) : countType ty [] = 0 := rfl

theorem toNewLine_type {t nl : Token} (h : t.toNewLine = .ok nl) : nl.type = T.newLine := by
  unfold Token.toNewLine at h; split at h
  · injection h with h; subst h; rfl
  · cases h
theorem toIndent_type {t x : Token} (h : t.toIndent = .ok x) : x.type = T.indent := by
  unfold Token.toIndent at h; split at h
  · injection h with h; subst h; rfl
  · cases h
theorem toDedent_type {t x : Token} (h : t.toDedent = .ok x) : x.type = T.dedent := by
  unfold Token.toDedent at h; split at h
  · injection h with h; subst h; rfl
  · cases h

theorem toNest_nest (c : Ctx) (n : Nat) : (c.toNest n).1.nest = c.nest := by
  unfold Ctx.toNest
  split
  · rfl
  · split <;> rfl

/-- what one white-space-domain token contributes: one INDENT iff the nest grows, `old - new` DEDENTs -/
theorem handleWhiteSpace_counts {c c' : Ctx} {t : Token} {adv : Nat} {out : List Token}
    (h : handleWhiteSpace c t = .ok (adv, c', out)) :
    countType T.indent out = (if c.nest < c'.nest then 1 else 0) ∧ countType T.dedent out = c.nest - c'.nest := by
  unfold handleWhiteSpace at h
  split at h
  · injection h with h; injection h with _ h; injection h with h1 h2; subst h1 h2
    simp [countType]
  · split at h
    · injection h with h; injection h with _ h; injection h with h1 h2; subst h1 h2
      simp [countType]
    · split at h
      · cases hd : t.toDedent with
        | error er => rw [hd] at h; cases h
        | ok dd =>
          cases hn : t.toNewLine with
          | error er => rw [hd, hn] at h; cases h
          | ok nl =>
            rw [hd, hn] at h
            simp only [bind, Except.bind, pure, Except.pure] at h
            injection h with h; injection h with _ h; injection h with h1 h2; subst h1 h2
            have e1 := toNewLine_type hn
            have e2 := toDedent_type hd
            simp only [countType_cons, countType_replicate, e1, e2]
            simp [T.newLine, T.indent, T.dedent]
      · split at h
        · cases h
        · simp only [] at h
          have hnest := toNest_nest c (lastLineLen t.string)
          generalize c.toNest (lastLineLen t.string) = r at h hnest
          obtain ⟨c1, next⟩ := r
          simp only [] at h hnest
          split at h
          · rename_i hlt
            cases hn : t.toNewLine with
            | error er => rw [hn] at h; cases h
            | ok nl =>
              cases hi : t.toIndent with
              | error er => rw [hn, hi] at h; cases h
              | ok ind =>
                rw [hn, hi] at h
                simp only [bind, Except.bind, pure, Except.pure] at h
                injection h with h; injection h with _ h; injection h with h1 h2; subst h1 h2
                have e1 := toNewLine_type hn
                have e2 := toIndent_type hi
                simp only [countType_cons, countType_nil, e1, e2]
                simp [T.newLine, T.indent, T.dedent]
                omega
          · split at h
            · rename_i hgt
              cases hd : t.toDedent with
              | error er => rw [hd] at h; cases h
              | ok dd =>
                cases hn : t.toNewLine with
                | error er => rw [hd, hn] at h; cases h
                | ok nl =>
                  rw [hd, hn] at h
                  simp only [bind, Except.bind, pure, Except.pure] at h
                  injection h with h; injection h with _ h; injection h with h1 h2; subst h1 h2
                  have e1 := toNewLine_type hn
                  have e2 := toDedent_type hd
                  simp only [countType_cons, countType_replicate, e1, e2]
                  simp [T.newLine, T.indent, T.dedent]
                  omega
            · cases hn : t.toNewLine with
              | error er => rw [hn] at h; cases h
              | ok nl =>
                rw [hn] at h
                simp only [bind, Except.bind, pure, Except.pure] at h
                injection h with h; injection h with _ h; injection h with h1 h2; subst h1 h2
                have e1 := toNewLine_type hn
                simp only [countType_cons, countType_nil, e1]
                simp [T.newLine, T.indent, T.dedent]
                omega

theorem domain_of_indent {t : Token} (h : t.type = T.indent) : t.domain = Dom.whiteSpace := by
  simp [Token.domain, h, T.indent, Dom.whiteSpace, Dom.max]
theorem domain_of_dedent {t : Token} (h : t.type = T.dedent) : t.domain = Dom.whiteSpace := by
  simp [Token.domain, h, T.dedent, Dom.whiteSpace, Dom.max]

/-- the accounting invariant of the `_rebuild` loop, from any context -/
theorem rebuildLoop_counts : ∀ (toks : List Token) (c : Ctx) (k : Nat) (out : List Token),
    rebuildLoop c k toks = .ok out →
    countType T.indent out = (jumps c k toks).length ∧
    countType T.dedent out + finalNest c k toks = c.nest + (jumps c k toks).sum
  | [], c, k, out, h => by
    unfold rebuildLoop at h
    injection h with h; subst h
    simp [countType, jumps, finalNest]
  | t :: ts, c, k + 1, out, h => by
    unfold rebuildLoop at h
    have := rebuildLoop_counts ts c k out h
    simpa [jumps, finalNest] using this
  | t :: ts, c, 0, out, h => by
    unfold rebuildLoop at h
    unfold jumps finalNest
    split at h
    · rename_i hws
      simp only [hws, ↓reduceIte]
      cases hh : handleWhiteSpace c t with
      | error er => rw [hh] at h; cases h
      | ok r =>
        obtain ⟨adv, c', o⟩ := r
        rw [hh] at h
        simp only [bind, Except.bind] at h
        split at h
        · cases h
        · cases hr : rebuildLoop c' (adv - 1) ts with
          | error er => rw [hr] at h; cases h
          | ok rest =>
            rw [hr] at h
            simp only [pure, Except.pure] at h
            injection h with h; subst h
            obtain ⟨i1, i2⟩ := rebuildLoop_counts ts c' (adv - 1) rest hr
            obtain ⟨w1, w2⟩ := handleWhiteSpace_counts hh
            simp only [countType_append, w1, w2, i1]
            by_cases hlt : c.nest < c'.nest
            · rw [if_pos hlt, if_pos hlt]
              simp only [List.length_append, List.length_cons, List.length_nil, List.sum_append, List.sum_cons, List.sum_nil]
              refine ⟨?_, ?_⟩ <;> (try trivial) <;> omega
            · rw [if_neg hlt, if_neg hlt]
              simp only [List.nil_append]
              refine ⟨?_, ?_⟩ <;> (try trivial) <;> omega
    · rename_i hws
      simp only [hws, ↓reduceIte]
      have hni : t.type ≠ T.indent := fun e => hws (domain_of_indent e)
      have hnd : t.type ≠ T.dedent := fun e => hws (domain_of_dedent e)
      split at h
      · rename_i hsym
        simp only [hsym, ↓reduceIte]
        cases hr : rebuildLoop (handleSymbol c t) 0 ts with
        | error er => rw [hr] at h; cases h
        | ok rest =>
          rw [hr] at h
          simp only [bind, Except.bind, pure, Except.pure] at h
          injection h with h; subst h
          obtain ⟨i1, i2⟩ := rebuildLoop_counts ts (handleSymbol c t) 0 rest hr
          have hn : (handleSymbol c t).nest = c.nest := by
            unfold handleSymbol; split
            · rfl
            · split <;> rfl
          simp only [countType_cons, hni, hnd, ↓reduceIte, Nat.zero_add, i1]
          refine ⟨?_, ?_⟩ <;> (try trivial) <;> omega
      · rename_i hsym
        simp only [hsym, ↓reduceIte]
        cases hr : rebuildLoop c 0 ts with
        | error er => rw [hr] at h; cases h
        | ok rest =>
          rw [hr] at h
          simp only [bind, Except.bind, pure, Except.pure] at h
          injection h with h; subst h
          obtain ⟨i1, i2⟩ := rebuildLoop_counts ts c 0 rest hr
          simp only [countType_cons, hni, hnd, ↓reduceIte, Nat.zero_add, i1]
          refine ⟨?_, ?_⟩ <;> (try trivial) <;> omega

/-- every recorded jump is a genuine increase -/
theorem jumps_pos : ∀ (toks : List Token) (c : Ctx) (k : Nat), ∀ j ∈ jumps c k toks, 1 ≤ j
  | [], c, k => by simp [jumps]
  | t :: ts, c, k + 1 => by simpa [jumps] using jumps_pos ts c k
  | t :: ts, c, 0 => by
    unfold jumps
    split
    · cases hh : handleWhiteSpace c t with
      | error er => simp
      | ok r =>
        obtain ⟨adv, c', o⟩ := r
        simp only []
        intro j hj
        simp only [List.mem_append] at hj
        cases hj with
        | inl hj =>
          split at hj
          · simp at hj; omega
          · simp at hj
        | inr hj => exact jumps_pos ts c' (adv - 1) j hj
    · split
      · exact jumps_pos ts _ 0
      · exact jumps_pos ts _ 0

theorem sum_eq_length_iff : ∀ (l : List Nat), (∀ j ∈ l, 1 ≤ j) → (l.sum = l.length ↔ ∀ j ∈ l, j = 1)
  | [], _ => by simp
  | x :: xs, h => by
    have hx : 1 ≤ x := h x (by simp)
    have hxs : ∀ j ∈ xs, 1 ≤ j := fun j hj => h j (by simp [hj])
    have ih := sum_eq_length_iff xs hxs
    have hge : xs.length ≤ xs.sum := by
      clear ih h
      induction xs with
      | nil => simp
      | cons y ys ihy =>
        have := hxs y (by simp)
        have := ihy (fun j hj => hxs j (by simp [hj]))
        simp; omega
    simp only [List.sum_cons, List.length_cons, List.mem_cons, forall_eq_or_imp]
    constructor
    · intro he
      have : x = 1 ∧ xs.sum = xs.length := by omega
      exact ⟨this.1, ih.mp this.2⟩
    · intro ⟨h1, h2⟩
      have := ih.mpr h2
      omega

/-! ### width invariance of `_rebuild` -/

/-- `Token.simplify` (token.py:160-162) -/
def simplify (t : Token) : Nat × Str := (t.type, t.string)

/-- `t'` is `t` with a line break's last-line width rescaled from a multiple of `u` to the same multiple of `u'`
    (every other token keeps type and string; source maps are free) -/
def Rescaled (u u' : Nat) (t t' : Token) : Prop :=
  t.type = t'.type ∧
  (if t.type = T.lineBreak then ∃ m, lastLineLen t.string = m * u ∧ lastLineLen t'.string = m * u' else t.string = t'.string)

/-- contexts that agree up to the same rescaling of the detected indentation unit -/
def CtxRel (u u' : Nat) (c c' : Ctx) : Prop :=
  c.nest = c'.nest ∧ c.enclosure = c'.enclosure ∧
  ((c.unit = none ∧ c'.unit = none) ∨ ∃ k, 0 < k ∧ c.unit = some (k * u) ∧ c'.unit = some (k * u'))

theorem toNest_rel {u u' : Nat} (hu : 0 < u) (hu' : 0 < u') {c c' : Ctx} (hc : CtxRel u u' c c') (m : Nat) :
    (c.toNest (m * u)).2 = (c'.toNest (m * u')).2 ∧ CtxRel u u' (c.toNest (m * u)).1 (c'.toNest (m * u')).1 := by
  obtain ⟨h1, h2, h3⟩ := hc
  unfold Ctx.toNest
  by_cases hm : m = 0
  · subst hm; simp; exact ⟨h1, h2, h3⟩
  · have hm0 : 0 < m := Nat.pos_of_ne_zero hm
    have e1 : ¬ m * u = 0 := by
      intro h; cases Nat.mul_eq_zero.mp h <;> omega
    have e2 : ¬ m * u' = 0 := by
      intro h; cases Nat.mul_eq_zero.mp h <;> omega
    simp only [e1, e2, ↓reduceIte]
    cases h3 with
    | inl h3 =>
      rw [h3.1, h3.2]
      simp only []
      refine ⟨?_, h1, h2, Or.inr ⟨m, hm0, rfl, rfl⟩⟩
      rw [Nat.div_self (Nat.pos_of_ne_zero e1), Nat.div_self (Nat.pos_of_ne_zero e2)]
    | inr h3 =>
      obtain ⟨k, hk, hk1, hk2⟩ := h3
      rw [hk1, hk2]
      simp only []
      refine ⟨?_, h1, h2, Or.inr ⟨k, hk, hk1, hk2⟩⟩
      rw [Nat.mul_div_mul_right _ _ hu, Nat.mul_div_mul_right _ _ hu']

theorem domain_ws_of_type {t : Token} (h : t.type = T.eof ∨ t.type = T.lineBreak) : t.domain = Dom.whiteSpace := by
  cases h with
  | inl h => simp [Token.domain, h, T.eof, Dom.whiteSpace, Dom.max]
  | inr h => simp [Token.domain, h, T.lineBreak, Dom.whiteSpace, Dom.max]

/-- `handle_white_space` on rescaled tokens in related contexts: same error, or same advance, related contexts and the
    same output up to source maps -/
theorem hws_rel {u u' : Nat} (hu : 0 < u) (hu' : 0 < u') {c c' : Ctx} {t t' : Token}
    (hc : CtxRel u u' c c') (ht : Rescaled u u' t t') :
    (∃ e, handleWhiteSpace c t = .error e ∧ handleWhiteSpace c' t' = .error e) ∨
    (∃ a c1 c1' o o', handleWhiteSpace c t = .ok (a, c1, o) ∧ handleWhiteSpace c' t' = .ok (a, c1', o') ∧
      CtxRel u u' c1 c1' ∧ o.map simplify = o'.map simplify) := by
  obtain ⟨hty, hstr⟩ := ht
  have hc' := hc
  obtain ⟨h1, h2, h3⟩ := hc
  unfold handleWhiteSpace
  rw [← hty]
  by_cases he : c.enclosure > 0
  · have he' : c'.enclosure > 0 := h2 ▸ he
    simp only [he, he', ↓reduceIte]
    exact Or.inr ⟨1, c, c', [], [], rfl, rfl, hc', rfl⟩
  · have he' : ¬ c'.enclosure > 0 := h2 ▸ he
    simp only [he, he', ↓reduceIte]
    by_cases hws : t.type = T.whiteSpace
    · simp only [hws, ↓reduceIte]
      exact Or.inr ⟨1, c, c', [], [], rfl, rfl, hc', rfl⟩
    · simp only [hws, ↓reduceIte]
      by_cases heof : t.type = T.eof
      · have hd := domain_ws_of_type (Or.inl heof)
        have hd' : t'.domain = Dom.whiteSpace := domain_ws_of_type (Or.inl (hty ▸ heof))
        have hne : t.type ≠ T.lineBreak := by rw [heof]; simp [T.eof, T.lineBreak]
        simp only [hne, ↓reduceIte] at hstr
        simp only [heof, ↓reduceIte, Token.toDedent, Token.toNewLine, hd, hd', bind, Except.bind, pure, Except.pure]
        rw [← hstr]
        exact Or.inr ⟨_, _, _, _, _, rfl, rfl, ⟨rfl, h2, h3⟩, by simp [simplify, h1]⟩
      · simp only [heof, ↓reduceIte]
        by_cases hlb : t.type = T.lineBreak
        · have hd := domain_ws_of_type (Or.inr hlb)
          have hd' : t'.domain = Dom.whiteSpace := domain_ws_of_type (Or.inr (hty ▸ hlb))
          simp only [hlb, ↓reduceIte] at hstr
          obtain ⟨m, hm1, hm2⟩ := hstr
          obtain ⟨hn, hr⟩ := toNest_rel hu hu' hc' m
          have n1 := toNest_nest c (m * u)
          have n2 := toNest_nest c' (m * u')
          simp only [hlb, ne_eq, not_true_eq_false, ↓reduceIte, hm1, hm2]
          generalize c.toNest (m * u) = r at hn hr n1
          generalize c'.toNest (m * u') = r' at hn hr n2
          obtain ⟨c1, next⟩ := r
          obtain ⟨c1', next'⟩ := r'
          simp only [] at hn hr n1 n2
          subst hn
          have hnn : c1.nest = c1'.nest := by omega
          obtain ⟨_, r2, r3⟩ := hr
          simp only [Token.toDedent, Token.toNewLine, Token.toIndent, hd, hd', ↓reduceIte, bind, Except.bind, pure, Except.pure]
          rw [← hnn]
          by_cases hlt : c1.nest < next
          · simp only [hlt, ↓reduceIte]
            exact Or.inr ⟨_, _, _, _, _, rfl, rfl, ⟨rfl, r2, r3⟩, by simp [simplify]⟩
          · simp only [hlt, ↓reduceIte]
            by_cases hgt : c1.nest > next
            · simp only [hgt, ↓reduceIte]
              exact Or.inr ⟨_, _, _, _, _, rfl, rfl, ⟨rfl, r2, r3⟩, by simp [simplify]⟩
            · simp only [hgt, ↓reduceIte]
              exact Or.inr ⟨_, _, _, _, _, rfl, rfl, ⟨hnn, r2, r3⟩, by simp [simplify]⟩
        · simp only [hlb, ne_eq, not_false_eq_true, ↓reduceIte]
          exact Or.inl ⟨_, rfl, rfl⟩

theorem handleSymbol_rel {u u' : Nat} {c c' : Ctx} {t t' : Token} (hc : CtxRel u u' c c') (hty : t.type = t'.type) :
    CtxRel u u' (handleSymbol c t) (handleSymbol c' t') := by
  obtain ⟨h1, h2, h3⟩ := hc
  unfold handleSymbol
  rw [← hty]
  split
  · exact ⟨h1, by simp [h2], h3⟩
  · split
    · exact ⟨h1, by simp [h2], h3⟩
    · exact ⟨h1, h2, h3⟩

/-- two lists related element by element -/
inductive AllRel {α : Type} (R : α → α → Prop) : List α → List α → Prop
  | nil : AllRel R [] []
  | cons {a b : α} {as bs : List α} : R a b → AllRel R as bs → AllRel R (a :: as) (b :: bs)

/-- the `_rebuild` loop on rescaled token lists, from related contexts -/
theorem rebuildLoop_rel {u u' : Nat} (hu : 0 < u) (hu' : 0 < u') {ts ts' : List Token} (hall : AllRel (Rescaled u u') ts ts') :
    ∀ (c c' : Ctx) (k : Nat), CtxRel u u' c c' →
    (rebuildLoop c k ts).map (List.map simplify) = (rebuildLoop c' k ts').map (List.map simplify) := by
  induction hall with
  | nil => intro c c' k _; simp [rebuildLoop]
  | @cons t t' ts ts' ht hrest ihall =>
      intro c c' k hc
      cases k with
      | succ k =>
        unfold rebuildLoop
        exact ihall c c' k hc
      | zero =>
        have hty := ht.1
        have hdom : t.domain = t'.domain := by simp [Token.domain, hty]
        unfold rebuildLoop
        rw [← hdom]
        by_cases hws : t.domain = Dom.whiteSpace
        · simp only [hws, ↓reduceIte]
          cases hws_rel hu hu' hc ht with
          | inl h =>
            obtain ⟨e, e1, e2⟩ := h
            simp [e1, e2, bind, Except.bind, Except.map]
          | inr h =>
            obtain ⟨a, c1, c1', o, o', e1, e2, hc1, ho⟩ := h
            simp only [e1, e2, bind, Except.bind]
            by_cases ha : a = 0
            · simp [ha, Except.map]
            · simp only [ha, ↓reduceIte]
              have ih := ihall c1 c1' (a - 1) hc1
              cases r1 : rebuildLoop c1 (a - 1) ts <;> cases r2 : rebuildLoop c1' (a - 1) ts' <;>
                simp [r1, r2, Except.map, pure, Except.pure] at ih ⊢
              · exact ih
              · simp [ho, ih]
        · simp only [hws, ↓reduceIte]
          have hsimp : simplify t = simplify t' := by
            have : t.type ≠ T.lineBreak := by
              intro e; exact hws (domain_ws_of_type (Or.inr e))
            have hs := ht.2
            simp only [this, ↓reduceIte] at hs
            simp [simplify, hty, hs]
          by_cases hsym : t.domain = Dom.symbol
          · simp only [hsym, ↓reduceIte]
            have ih := ihall _ _ 0 (handleSymbol_rel hc hty)
            cases r1 : rebuildLoop (handleSymbol c t) 0 ts <;> cases r2 : rebuildLoop (handleSymbol c' t') 0 ts' <;>
              simp [r1, r2, Except.map, bind, Except.bind, pure, Except.pure] at ih ⊢
            · exact ih
            · simp [hsimp, ih]
          · simp only [hsym, ↓reduceIte]
            have ih := ihall c c' 0 hc
            cases r1 : rebuildLoop c 0 ts <;> cases r2 : rebuildLoop c' 0 ts' <;>
              simp [r1, r2, Except.map, bind, Except.bind, pure, Except.pure] at ih ⊢
            · exact ih
            · simp [hsimp, ih]

/-! ### `post_filter` on a single logical line (no line break tokens) -/

theorem isLB_false_of_ne {t : Token} (h : t.type ≠ T.lineBreak) : isLB (some t) = false := by
  simp [isLB, h]

/-- a pass leaves a list without tokens of its type alone -/
theorem filterPass_id (ty : Nat) (f : Filter) : ∀ (right left : List Token), (∀ t ∈ right, t.type ≠ ty) →
    filterPass ty f left right = left.reverse ++ right
  | [], left, _ => by simp [filterPass]
  | cur :: right, left, h => by
    have hc : cur.type ≠ ty := h cur (by simp)
    have hr : ∀ t ∈ right, t.type ≠ ty := fun t ht => h t (by simp [ht])
    unfold filterPass
    simp only [hc, ne_eq, not_false_eq_true, decide_true, Bool.true_or, ↓reduceIte]
    rw [filterPass_id ty f right (cur :: left) hr]
    simp

/-- an unconditional (`'*'`) pass on a list without line breaks just deletes the tokens of its type -/
theorem filterPass_all_noLB (ty : Nat) : ∀ (right left : List Token),
    (∀ t ∈ left, t.type ≠ T.lineBreak) → (∀ t ∈ right, t.type ≠ T.lineBreak) →
    filterPass ty .all left right = left.reverse ++ right.filter (fun t => t.type ≠ ty)
  | [], left, _, _ => by simp [filterPass]
  | cur :: right, left, hl, hr => by
    have hcur : cur.type ≠ T.lineBreak := hr cur (by simp)
    have hr' : ∀ t ∈ right, t.type ≠ T.lineBreak := fun t ht => hr t (by simp [ht])
    unfold filterPass
    by_cases hc : cur.type = ty
    · simp only [hc, ne_eq, not_true_eq_false, decide_false, toEmpty, Bool.not_true, Bool.or_self, Bool.false_eq_true, ↓reduceIte]
      have ih := filterPass_all_noLB ty right left hl hr'
      cases left with
      | nil =>
        cases right with
        | nil => simp [hc]
        | cons r rs =>
          have hrr : r.type ≠ T.lineBreak := hr' r (by simp)
          simp only [isLB_false_of_ne hrr, Bool.false_eq_true, ↓reduceIte]
          rw [ih]; simp [hc]
      | cons l ls =>
        have hll : l.type ≠ T.lineBreak := hl l (by simp)
        cases right with
        | nil => simp [isLB_false_of_ne hll, hc]
        | cons r rs =>
          simp only [isLB_false_of_ne hll, Bool.false_and, Bool.false_eq_true, ↓reduceIte]
          rw [ih]; simp [hc]
    · simp only [hc, ne_eq, not_false_eq_true, decide_true, Bool.true_or, ↓reduceIte]
      have hl' : ∀ t ∈ cur :: left, t.type ≠ T.lineBreak := by
        intro t ht; simp only [List.mem_cons] at ht
        cases ht with
        | inl h => rw [h]; exact hcur
        | inr h => exact hl t h
      rw [filterPass_all_noLB ty right (cur :: left) hl' hr']
      simp [hc]

/-- the post filter list `TokenDefinition` ships: drop comments, drop white space, the line-continuation regex, first/last line break -/
def ShippedFilters (d : TokenDef) : Prop :=
  ∃ r, d.postFilters = [(T.comment, .all), (T.whiteSpace, .all), (T.lineBreak, .regex r), (T.lineBreak, .beginOrEnd)]

/-- the significant part of a raw token list: everything but comments and white space -/
def significant (ts : List Token) : List Token := ts.filter (fun t => t.type ≠ T.comment && t.type ≠ T.whiteSpace)

theorem postFilter_noLB {d : TokenDef} (hd : ShippedFilters d) {ts : List Token} (h : ∀ t ∈ ts, t.type ≠ T.lineBreak) :
    postFilter d ts = significant ts := by
  obtain ⟨r, hr⟩ := hd
  unfold postFilter significant
  rw [hr]
  simp only [List.foldl]
  rw [filterPass_all_noLB T.comment ts [] (by simp) h]
  have h1 : ∀ t ∈ ([] : List Token).reverse ++ ts.filter (fun t => t.type ≠ T.comment), t.type ≠ T.lineBreak := by
    intro t ht; simp at ht; exact h t ht.1
  rw [filterPass_all_noLB T.whiteSpace _ [] (by simp) h1]
  have h2 : ∀ t ∈ ([] : List Token).reverse ++ (([] : List Token).reverse ++ ts.filter (fun t => t.type ≠ T.comment)).filter (fun t => t.type ≠ T.whiteSpace),
      t.type ≠ T.lineBreak := by
    intro t ht; simp at ht; exact h t ht.1
  rw [filterPass_id T.lineBreak _ _ [] h2]
  have h3 : ∀ t ∈ ([] : List Token).reverse ++ (([] : List Token).reverse ++ (([] : List Token).reverse ++ ts.filter (fun t => t.type ≠ T.comment)).filter (fun t => t.type ≠ T.whiteSpace)),
      t.type ≠ T.lineBreak := by
    intro t ht; simp at ht; exact h t ht.1
  rw [filterPass_id T.lineBreak _ _ [] h3]
  simp [List.filter_filter, Bool.and_comm]

/-! ### totality over the definition's alphabet -/

/-- a character some analyzer accepts on its own: a member of an alphabet or a one-character opener -/
def alphaChar (d : TokenDef) (c : Char) : Bool :=
  d.whiteSpace.contains c || d.number.contains c || d.identifier.contains c || d.symbol.contains c ||
  d.quote.any (fun p => p.1 == [c]) || d.comment.any (fun p => p.1 == [c])

/-- side conditions for totality: the analyse order lists exactly known domains and all six of them; every type value the
    symbol parser can compute exists in `TokenTypes` -/
def wfTotal (d : TokenDef) : Bool :=
  d.analyzeOrder.all (fun x => x ≤ 5) &&
  [Dom.whiteSpace, Dom.comment, Dom.quote, Dom.number, Dom.identifier, Dom.symbol].all (fun x => d.analyzeOrder.contains x) &&
  (List.range d.combinedSymbols.length).all (fun off => d.typeValues.contains (T.beginCombine + off)) &&
  (List.range d.symbol.length).all (fun off => d.typeValues.contains (Dom.symbol * 16 + off))

theorem charIn_eq {a s : Str} {b : Nat} {c : Char} (h : s[b]? = some c) : charIn a s b = .ok (a.contains c) := by
  unfold charIn charAt; rw [h]; rfl

theorem analyzer_noerr {d : TokenDef} {src : Str} {b : Nat} {c : Char} (hc : src[b]? = some c) {dom : Nat} (hd : dom ≤ 5) :
    ∃ r, analyzer d dom src b = .ok r := by
  unfold analyzer
  simp only [charIn_eq hc, Dom.whiteSpace, Dom.comment, Dom.quote, Dom.number, Dom.identifier, Dom.symbol]
  repeat' split
  all_goals first | exact ⟨_, rfl⟩ | omega

theorem analyzeGo_total {d : TokenDef} {src : Str} {b : Nat} : ∀ (order : List Nat),
    (∀ x ∈ order, ∃ r, analyzer d x src b = .ok r) → (∃ x ∈ order, analyzer d x src b = .ok true) →
    ∃ dom, analyzeGo d src b order = .ok dom
  | [], _, h => by obtain ⟨x, hx, _⟩ := h; simp at hx
  | x :: rest, hall, hex => by
    unfold analyzeGo
    obtain ⟨r, hr⟩ := hall x (by simp)
    rw [hr]
    simp only [bind, Except.bind]
    cases r with
    | true => exact ⟨x, rfl⟩
    | false =>
      simp only [Bool.false_eq_true, ↓reduceIte]
      apply analyzeGo_total rest (fun y hy => hall y (by simp [hy]))
      obtain ⟨y, hy, hy2⟩ := hex
      simp only [List.mem_cons] at hy
      cases hy with
      | inl h => subst h; rw [hr] at hy2; cases hy2
      | inr h => exact ⟨y, h, hy2⟩

theorem startsWithAt_single {src : Str} {b : Nat} {c : Char} (hc : src[b]? = some c) : startsWithAt src [c] b = true := by
  have hb := getElem?_lt hc
  unfold startsWithAt
  rw [drop_eq_cons_of_getElem? hc]
  simp [Str.startsWith]; omega

theorem analyzeDomain_total {d : TokenDef} (hw : wfTotal d = true) {src : Str} {b : Nat} {c : Char}
    (hc : src[b]? = some c) (ha : alphaChar d c = true) : ∃ dom, analyzeDomain d src b = .ok dom := by
  simp only [wfTotal, Bool.and_eq_true, List.all_eq_true, decide_eq_true_eq] at hw
  obtain ⟨⟨⟨h1, h2⟩, _⟩, _⟩ := hw
  unfold analyzeDomain
  apply analyzeGo_total
  · intro x hx; exact analyzer_noerr hc (h1 x hx)
  · have mem : ∀ x ∈ [Dom.whiteSpace, Dom.comment, Dom.quote, Dom.number, Dom.identifier, Dom.symbol], x ∈ d.analyzeOrder := by
      intro x hx; have := h2 x hx; simpa using this
    simp only [alphaChar, Bool.or_eq_true] at ha
    rcases ha with ((((h | h) | h) | h) | h) | h
    · exact ⟨Dom.whiteSpace, mem _ (by simp), by simp [analyzer, charIn_eq hc]; simpa using h⟩
    · exact ⟨Dom.number, mem _ (by simp), by simp [analyzer, charIn_eq hc, Dom.number, Dom.whiteSpace, Dom.comment, Dom.quote]; simpa using h⟩
    · exact ⟨Dom.identifier, mem _ (by simp), by simp [analyzer, charIn_eq hc, Dom.number, Dom.whiteSpace, Dom.comment, Dom.quote, Dom.identifier]; simpa using h⟩
    · exact ⟨Dom.symbol, mem _ (by simp), by simp [analyzer, charIn_eq hc, Dom.number, Dom.whiteSpace, Dom.comment, Dom.quote, Dom.identifier, Dom.symbol]; simpa using h⟩
    · refine ⟨Dom.quote, mem _ (by simp), ?_⟩
      simp only [List.any_eq_true, beq_iff_eq] at h
      obtain ⟨p, hp, hp1⟩ := h
      have : anyOpen d.quote src b = true := by
        simp only [anyOpen, List.any_eq_true]; exact ⟨p, hp, by rw [hp1]; exact startsWithAt_single hc⟩
      simp [analyzer, this, Dom.whiteSpace, Dom.comment, Dom.quote]
    · refine ⟨Dom.comment, mem _ (by simp), ?_⟩
      simp only [List.any_eq_true, beq_iff_eq] at h
      obtain ⟨p, hp, hp1⟩ := h
      have : anyOpen d.comment src b = true := by
        simp only [anyOpen, List.any_eq_true]; exact ⟨p, hp, by rw [hp1]; exact startsWithAt_single hc⟩
      simp [analyzer, this, Dom.whiteSpace, Dom.comment]

theorem firstOpen_of_any {pairs : List (Str × Str)} {src : Str} {b : Nat} (h : anyOpen pairs src b = true) :
    ∃ p, firstOpen pairs src b = .ok p := by
  unfold firstOpen
  cases hf : pairs.find? (fun p => startsWithAt src p.1 b) with
  | some p => exact ⟨p, rfl⟩
  | none =>
    simp only [anyOpen, List.any_eq_true] at h
    obtain ⟨p, hp, hp1⟩ := h
    have := List.find?_eq_none.mp hf p hp
    simp [hp1] at this

theorem indexOf?_lt {α : Type} [DecidableEq α] (x : α) : ∀ (l : List α) (i : Nat), indexOf? x l = some i → i < l.length
  | [], i, h => by simp [indexOf?] at h
  | y :: ys, i, h => by
    simp only [indexOf?] at h
    split at h
    · injection h with h; subst h; simp
    · cases hr : indexOf? x ys with
      | none => simp [hr] at h
      | some j => simp [hr] at h; subst h; have := indexOf?_lt x ys j hr; simp; omega

theorem indexOf?_of_mem {α : Type} [DecidableEq α] (x : α) : ∀ (l : List α), x ∈ l → ∃ i, indexOf? x l = some i
  | [], h => by simp at h
  | y :: ys, h => by
    simp only [indexOf?]
    by_cases hy : y = x
    · exact ⟨0, by simp [hy]⟩
    · simp only [hy, ↓reduceIte]
      have : x ∈ ys := by
        simp only [List.mem_cons] at h
        cases h with
        | inl h => exact absurd h.symm hy
        | inr h => exact h
      obtain ⟨i, hi⟩ := indexOf?_of_mem x ys this
      exact ⟨i + 1, by simp [hi]⟩

theorem typeOf_total {d : TokenDef} {n : Nat} (h : d.typeValues.contains n = true) : typeOf d n = .ok n := by
  have h' : n ∈ d.typeValues := by simpa using h
  simp [typeOf, h']

theorem combined_total {d : TokenDef} (hw : wfTotal d = true) (src : Str) (b w : Nat) : ∃ r, combined d src b w = .ok r := by
  simp only [wfTotal, Bool.and_eq_true, List.all_eq_true, decide_eq_true_eq] at hw
  obtain ⟨⟨_, h3⟩, _⟩ := hw
  unfold combined
  simp only []
  split
  · exact ⟨_, rfl⟩
  · split
    · exact ⟨_, rfl⟩
    · rename_i off hoff
      have hlt := indexOf?_lt _ _ _ hoff
      have := h3 off (by simpa using hlt)
      rw [typeOf_total this]
      exact ⟨_, rfl⟩

/-- under the side conditions the dispatched sub-parser succeeds at every position whose character is in the alphabet -/
theorem parser_total {d : TokenDef} (hw : wf d = true) (hwt : wfTotal d = true) {src : Str} {b dom : Nat}
    (hd : analyzeDomain d src b = .ok dom) : ∃ r, parser d dom src b = .ok r := by
  have ha := analyzeGo_sound _ _ hd
  unfold analyzer at ha
  unfold parser
  split
  · unfold parseWhiteSpace; simp only []; repeat' split
    all_goals exact ⟨_, rfl⟩
  · rename_i h0
    simp only [h0, ↓reduceIte] at ha
    split
    · rename_i h1
      simp only [h1, ↓reduceIte] at ha
      injection ha with ha
      obtain ⟨p, hp⟩ := firstOpen_of_any ha
      unfold parseComment
      rw [hp]
      simp only [bind, Except.bind]
      split <;> exact ⟨_, rfl⟩
    · rename_i h1
      simp only [h1, ↓reduceIte] at ha
      split
      · rename_i h2
        simp only [h2, ↓reduceIte] at ha
        injection ha with ha
        obtain ⟨p, hp⟩ := firstOpen_of_any ha
        obtain ⟨hmem, hs⟩ := firstOpen_ok hp
        have hlen := wf_quote hw hmem
        have hbound := startsWithAt_bound hs
        obtain ⟨e', hq, q1, q2⟩ := quoteLoop_ok (src := src) hlen.2 (b + p.1.length) src.length (b + p.1.length) hbound (by omega)
        unfold parseQuote
        rw [hp]
        simp only [bind, Except.bind, hq]
        have hne : (slice src b e').length = e' - b := slice_length src q2
        split
        · rename_i hv; rw [hv] at hne; simp at hne; omega
        · exact ⟨_, rfl⟩
      · split
        · exact ⟨_, rfl⟩
        · split
          · exact ⟨_, rfl⟩
          · rename_i h2 h3 h4
            simp only [h2, h3, h4, ↓reduceIte] at ha
            split
            · rename_i h5
              simp only [h5, ↓reduceIte] at ha
              obtain ⟨c, hc, hin⟩ := charIn_ok ha
              obtain ⟨r3, hr3⟩ := combined_total hwt src b 3
              obtain ⟨r2, hr2⟩ := combined_total hwt src b 2
              unfold parseSymbol
              rw [hr3]
              simp only [bind, Except.bind]
              cases r3 with
              | some r => exact ⟨_, rfl⟩
              | none =>
                simp only [hr2]
                cases r2 with
                | some r => exact ⟨_, rfl⟩
                | none =>
                  have hcat : charAt src b = .ok c := by unfold charAt; rw [hc]
                  simp only [hcat]
                  have hmem : c ∈ d.symbol := by simpa using hin
                  obtain ⟨off, hoff⟩ := indexOf?_of_mem c d.symbol hmem
                  have hofflt := indexOf?_lt _ _ _ hoff
                  simp only [wfTotal, Bool.and_eq_true, List.all_eq_true, decide_eq_true_eq] at hwt
                  have hty := typeOf_total (hwt.2 off (by simpa using hofflt))
                  simp only [hoff, hty]
                  split
                  · split
                    · rename_i hnext
                      have hget : src[b + 1]? = some (src[b + 1]'hnext) := List.getElem?_eq_getElem hnext
                      rw [charIn_eq hget]
                      simp only []
                      split <;> exact ⟨_, rfl⟩
                    · exact ⟨_, rfl⟩
                  · exact ⟨_, rfl⟩
            · rename_i h5
              simp only [h5, ↓reduceIte] at ha
              cases ha

/-- the main loop accepts every source over the alphabet -/
theorem parseLoop_total {d : TokenDef} (hw : wf d = true) (hwt : wfTotal d = true) {src : Str}
    (halpha : ∀ c ∈ src, alphaChar d c = true) :
    ∀ (fuel i : Nat), src.length - i ≤ fuel → ∃ toks, parseLoop d src fuel i = .ok toks
  | fuel, i, hf => by
    unfold parseLoop
    split
    · rename_i hlt
      cases fuel with
      | zero => omega
      | succ f =>
        simp only []
        have hget : src[i]? = some (src[i]'hlt) := List.getElem?_eq_getElem hlt
        have hal := halpha _ (List.getElem_mem hlt)
        obtain ⟨dom, hd⟩ := analyzeDomain_total hwt hget hal
        obtain ⟨r, hr⟩ := parser_total hw hwt hd
        obtain ⟨e, t⟩ := r
        have hs := parser_ok hw hlt hd hr
        obtain ⟨rest, hrest⟩ := parseLoop_total hw hwt halpha f e (by have := hs.lt; omega)
        simp only [hd, hr, hrest, bind, Except.bind, pure, Except.pure]
        exact ⟨_, rfl⟩
    · exact ⟨[], rfl⟩

/-! ### shape of raw token lists (for the statement of `layout_tokens`) -/

def isSpaceTok (t : Token) : Bool := t.type = T.whiteSpace || t.type = T.lineBreak

/-- a raw token as the lexer makes it: not one of the synthetic kinds, and white space holds white space only -/
def rawTokOK (d : TokenDef) (t : Token) : Bool :=
  !(t.type = T.eof || t.type = T.newLine || t.type = T.indent || t.type = T.dedent) &&
  (!isSpaceTok t || (!t.string.isEmpty && t.string.all (fun c => d.whiteSpace.contains c)))

/-- the shape maximal munch gives a raw token list: two white-space-domain tokens are never adjacent and a comment is
    followed by a line break or by nothing -/
def lexShaped (d : TokenDef) : List Token → Bool
  | [] => true
  | [t] => rawTokOK d t
  | a :: b :: rest =>
    rawTokOK d a && !(isSpaceTok a && isSpaceTok b) && (a.type != T.comment || b.type == T.lineBreak) && lexShaped d (b :: rest)

theorem Rescaled.of_eq {u u' : Nat} {t t' : Token} (hne : t.type ≠ T.lineBreak) (hty : t.type = t'.type)
    (hs : t.string = t'.string) : Rescaled u u' t t' := by
  refine ⟨hty, ?_⟩; simp [hne, hs]

theorem Rescaled.lb {u u' : Nat} {t t' : Token} (m : Nat) (h1 : t.type = T.lineBreak) (h2 : t'.type = T.lineBreak)
    (w1 : lastLineLen t.string = m * u) (w2 : lastLineLen t'.string = m * u') : Rescaled u u' t t' := by
  refine ⟨by rw [h1, h2], ?_⟩; simp only [h1, ↓reduceIte]; exact ⟨m, w1, w2⟩

theorem CtxRel.init (u u' : Nat) : CtxRel u u' Ctx.init Ctx.init := ⟨rfl, rfl, Or.inl ⟨rfl, rfl⟩⟩

end Tranp.Lexer
