/-
  Helper lemmas for property C04 (session model).
-/
import Tranp.Model.Session
import Tranp.Generated.SessionState

namespace Tranp.Session
open Tranp

/-! ## strings: `ModuleDSN.parsed` undoes `ModuleDSN.full_joined` -/

theorem splitOn_ne_nil (d : Char) (s : Str) : Str.splitOn d s ≠ [] := by
  induction s with
  | nil => simp [Str.splitOn]
  | cons c cs ih =>
    simp only [Str.splitOn]
    split
    · simp
    · split <;> simp

/-- the text before the first `#` of `m ++ "#" ++ l` is `m` when `m` contains no `#` -/
theorem modOf_append_hash (m l : Str) (h : '#' ∉ m) : modOf (m ++ '#' :: l) = m := by
  induction m with
  | nil => simp [modOf, Str.splitOn]
  | cons c cs ih =>
    have hc : c ≠ '#' := by intro e; apply h; simp [e]
    have hcs : '#' ∉ cs := by intro e; apply h; simp [e]
    have ih' := ih hcs
    simp only [modOf, List.cons_append, Str.splitOn, hc, if_false] at ih' ⊢
    cases hsp : Str.splitOn '#' (cs ++ '#' :: l) with
    | nil => exact absurd hsp (splitOn_ne_nil _ _)
    | cons p ps => simp [hsp] at ih' ⊢; exact ih'

theorem modOf_noHash (m : Str) (h : '#' ∉ m) : modOf m = m := by
  induction m with
  | nil => simp [modOf, Str.splitOn]
  | cons c cs ih =>
    have hc : c ≠ '#' := by intro e; apply h; simp [e]
    have hcs : '#' ∉ cs := by intro e; apply h; simp [e]
    have ih' := ih hcs
    simp only [modOf, Str.splitOn, hc, if_false] at ih' ⊢
    cases hsp : Str.splitOn '#' cs with
    | nil => exact absurd hsp (splitOn_ne_nil _ _)
    | cons p ps => simp [hsp] at ih' ⊢; exact ih'

/-- a well-formed module name: non-empty, no `#` -/
def GoodName (m : ModPath) : Prop := m ≠ [] ∧ '#' ∉ m

theorem fullJoined_eq (m l : Str) (h : GoodName m) :
    fullJoined m l = if l = [] then m else m ++ '#' :: l := by
  obtain ⟨hne, hh⟩ := h
  unfold fullJoined dsnJoin
  simp only [hh, if_false]
  by_cases hl : l = []
  · subst hl; simp [Str.join, hne]
  · simp [Str.join, hne, hl]

/-- every key `full_joined(m, l)` is tagged with exactly `m` by `ModuleDSN.parsed` -/
theorem modOf_fullJoined (m l : Str) (h : GoodName m) : modOf (fullJoined m l) = m := by
  rw [fullJoined_eq m l h]
  split
  · exact modOf_noHash m h.2
  · exact modOf_append_hash m l h.2

/-! ## association lists -/

section Assoc
variable {K V : Type} [DecidableEq K]

theorem alookup_append (d : List (K × V)) (k : K) (v : V) (x : K) :
    alookup (d ++ [(k, v)]) x = match alookup d x with | some w => some w | none => if k = x then some v else none := by
  induction d with
  | nil => simp [alookup]
  | cons kv rest ih =>
    obtain ⟨k', v'⟩ := kv
    simp only [List.cons_append, alookup]
    split
    · rfl
    · exact ih

theorem alookup_aset (d : List (K × V)) (k : K) (v : V) (x : K) :
    alookup (aset d k v) x = if k = x then some v else alookup d x := by
  induction d with
  | nil => simp [aset, alookup]
  | cons kv rest ih =>
    obtain ⟨k', v'⟩ := kv
    simp only [aset]
    by_cases h : k' = k
    · subst h; simp only [if_true, alookup]; split <;> rfl
    · simp only [h, if_false, alookup]
      by_cases h2 : k' = x
      · subst h2
        have : ¬ k = k' := fun e => h e.symm
        simp [this]
      · simp [h2, ih]

theorem alookup_aerase (d : List (K × V)) (k x : K) :
    alookup (aerase d k) x = if x = k then none else alookup d x := by
  induction d with
  | nil => simp [aerase, alookup]
  | cons kv rest ih =>
    obtain ⟨k', v'⟩ := kv
    unfold aerase at ih ⊢
    by_cases h : k' = k
    · subst h
      simp only [List.filter, ne_eq, not_true_eq_false, decide_false]
      rw [ih]
      by_cases h2 : x = k'
      · simp [h2]
      · have : ¬ k' = x := fun e => h2 e.symm
        simp [h2, alookup, this]
    · simp only [List.filter, ne_eq, h, not_false_eq_true, decide_true, alookup]
      rw [ih]
      by_cases h2 : k' = x
      · subst h2; simp [h]
      · simp [h2]

theorem alookup_mem {d : List (K × V)} {k : K} {v : V} (h : alookup d k = some v) : (k, v) ∈ d := by
  induction d with
  | nil => simp [alookup] at h
  | cons kv rest ih =>
    obtain ⟨k', v'⟩ := kv
    simp only [alookup] at h
    split at h
    · next e => cases h; subst e; simp
    · exact List.mem_cons_of_mem _ (ih h)

theorem mem_aadd {d : List (K × V)} {k : K} {v : V} {kv : K × V} (h : kv ∈ aadd d k v) : kv ∈ d ∨ kv = (k, v) := by
  unfold aadd at h
  split at h
  · exact Or.inl h
  · simpa using h

theorem mem_aaddAll {rows d : List (K × V)} {kv : K × V} (h : kv ∈ aaddAll d rows) : kv ∈ d ∨ kv ∈ rows := by
  induction rows generalizing d with
  | nil => exact Or.inl h
  | cons r rest ih =>
    simp only [aaddAll, List.foldl] at h
    rcases ih h with h1 | h1
    · rcases mem_aadd h1 with h2 | h2
      · exact Or.inl h2
      · right; rw [h2]; simp
    · exact Or.inr (List.mem_cons_of_mem _ h1)

theorem mem_addIfAbsent {xs : List K} {x y : K} : y ∈ addIfAbsent xs x ↔ y ∈ xs ∨ y = x := by
  unfold addIfAbsent
  split
  · next h => constructor
              · exact Or.inl
              · rintro (h1 | h1); exact h1; exact h1 ▸ h
  · simp

end Assoc

/-! ## tables -/

section Tables
variable {V : Type}

theorem mem_tableOf {db : List (Key × V)} {m : ModPath} {kv : Key × V} : kv ∈ tableOf db m ↔ kv ∈ db ∧ modOf kv.1 = m := by
  simp [tableOf]

theorem tableOf_aadd_other (db : List (Key × V)) (k : Key) (v : V) (x : ModPath) (h : modOf k ≠ x) :
    tableOf (aadd db k v) x = tableOf db x := by
  unfold aadd
  split
  · rfl
  · simp [tableOf, List.filter_append, h]

theorem tableOf_aaddAll_other (rows db : List (Key × V)) (p x : ModPath) (hrows : ∀ kv, kv ∈ rows → modOf kv.1 = p) (hx : x ≠ p) :
    tableOf (aaddAll db rows) x = tableOf db x := by
  induction rows generalizing db with
  | nil => rfl
  | cons r rest ih =>
    simp only [aaddAll, List.foldl]
    have h1 := ih (aadd db r.1 r.2) (fun kv hkv => hrows kv (List.mem_cons_of_mem _ hkv))
    simp only [aaddAll] at h1
    rw [h1]
    apply tableOf_aadd_other
    rw [hrows r (by simp)]
    exact fun e => hx e.symm

theorem tableOf_map_other (db : List (Key × V)) (f : V → V) (p x : ModPath) (hx : x ≠ p) :
    tableOf (db.map (fun kv => if modOf kv.1 = p then (kv.1, f kv.2) else kv)) x = tableOf db x := by
  induction db with
  | nil => rfl
  | cons kv rest ih =>
    unfold tableOf at ih ⊢
    rw [List.map_cons, List.filter_cons, List.filter_cons, ih]
    by_cases h : modOf kv.1 = p
    · have h2 : ¬ p = x := fun e => hx e.symm
      simp [h, h2]
    · simp [h]

theorem mem_map_key {db : List (Key × V)} {f : V → V} {p : ModPath} {k : Key} {v : V}
    (h : (k, v) ∈ db.map (fun kv => if modOf kv.1 = p then (kv.1, f kv.2) else kv)) : ∃ v', (k, v') ∈ db := by
  simp only [List.mem_map] at h
  obtain ⟨kv, hkv, he⟩ := h
  split at he
  · cases he; exact ⟨kv.2, hkv⟩
  · subst he; exact ⟨_, hkv⟩

theorem mem_foldl_addIfAbsent {A : Type} (g : A → ModPath) (rows : List A) (c : List ModPath) (y : ModPath) :
    y ∈ rows.foldl (fun c kv => addIfAbsent c (g kv)) c ↔ y ∈ c ∨ ∃ kv, kv ∈ rows ∧ y = g kv := by
  induction rows generalizing c with
  | nil => simp
  | cons r rest ih =>
    simp only [List.foldl]
    rw [ih, mem_addIfAbsent]
    constructor
    · rintro ((h | h) | ⟨kv, hkv, h⟩)
      · exact Or.inl h
      · exact Or.inr ⟨r, by simp, h⟩
      · exact Or.inr ⟨kv, List.mem_cons_of_mem _ hkv, h⟩
    · rintro (h | ⟨kv, hkv, h⟩)
      · exact Or.inl (Or.inl h)
      · rcases List.mem_cons.mp hkv with e | e
        · subst e; exact Or.inl (Or.inr h)
        · exact Or.inr ⟨kv, e, h⟩

end Tables

/-! ## invariants of the session machine -/

section Machine
variable {Src Tree NV V Text : Type} (L : Lang Src Tree NV V Text) (E : Env Src)

/-- the source text the process sees for module `x` in state `s` (lark/parser.py:84-89) -/
def srcOf (s : St L) (x : ModPath) : Option Src :=
  match E.disk x with
  | some src => some src
  | none => if x = E.main then some s.mainSrc else none

/-- hypotheses on module names: no `#`, not empty (true of every dotted Python module path) -/
structure Names : Prop where
  libs : ∀ x, x ∈ E.libs → GoodName x
  imports : ∀ x src t, E.disk x = some src → L.parse src = some t → ∀ d, d ∈ L.imports t → GoodName d
  main : GoodName E.main

/-- a source for the in-memory module imports well-formed names only -/
def SrcOk (src : Src) : Prop := ∀ t, L.parse src = some t → ∀ d, d ∈ L.imports t → GoodName d

/-- Coherence of the caches with the sources (unconditional part). -/
structure Inv (s : St L) : Prop where
  /-- every memo entry is the value of the pure node function on the tree of its entrypoint -/
  memo : ∀ x ep, alookup s.eps x = some ep → ∀ q v, (q, v) ∈ ep.memo → v = L.query ep.tree q
  /-- every entrypoint holds the tree of the current source of its module -/
  tree : ∀ x ep, alookup s.eps x = some ep → (srcOf L E s x).bind L.parse = some ep.tree
  /-- the in-process AST cache holds the trees of the files -/
  ast : ∀ x t, alookup s.ast x = some t → (E.disk x).bind L.parse = some t
  /-- the symbol table holds keys of registered modules only -/
  tags : ∀ k v, (k, v) ∈ s.db → modOf k ∈ s.mods
  /-- a symbol file holds keys of its own module only -/
  stored : ∀ p rows, alookup s.stored p = some rows → ∀ k v, (k, v) ∈ rows → modOf k = p
  completed : ∀ x, x ∈ s.completed → x ∈ s.mods
  eps : ∀ x, x ∈ s.mods → ahas s.eps x = true

/-- what `load` of other modules must not change for the already registered modules -/
structure Frame (s s' : St L) : Prop where
  mods : ∀ x, x ∈ s.mods → x ∈ s'.mods
  eps : ∀ x, x ∈ s.mods → alookup s'.eps x = alookup s.eps x
  table : ∀ x, x ∈ s.mods → tableOf s'.db x = tableOf s.db x
  completed : ∀ x, x ∈ s.mods → (x ∈ s'.completed ↔ x ∈ s.completed)
  stored : ∀ p rows, alookup s.stored p = some rows → alookup s'.stored p = some rows
  mainSrc : s'.mainSrc = s.mainSrc
  deps : s'.deps = s.deps
  proc : s'.proc = s.proc

theorem Frame.refl (s : St L) : Frame L s s :=
  ⟨fun _ h => h, fun _ _ => rfl, fun _ _ => rfl, fun _ _ => Iff.rfl, fun _ _ h => h, rfl, rfl, rfl⟩

theorem Frame.trans {s s' s'' : St L} (h1 : Frame L s s') (h2 : Frame L s' s'') : Frame L s s'' where
  mods x hx := h2.mods x (h1.mods x hx)
  eps x hx := (h2.eps x (h1.mods x hx)).trans (h1.eps x hx)
  table x hx := (h2.table x (h1.mods x hx)).trans (h1.table x hx)
  completed x hx := (h2.completed x (h1.mods x hx)).trans (h1.completed x hx)
  stored p rows h := h2.stored p rows (h1.stored p rows h)
  mainSrc := h2.mainSrc.trans h1.mainSrc
  deps := h2.deps.trans h1.deps
  proc := h2.proc.trans h1.proc

/-! ## the primitives preserve the invariant -/

theorem nf_eq (ep : Ep Tree NV) (h : ∀ q v, (q, v) ∈ ep.memo → v = L.query ep.tree q) : Ep.nf L ep = L.query ep.tree := by
  funext q
  unfold Ep.nf
  cases hq : alookup ep.memo q with
  | none => rfl
  | some v => simp [h q v (alookup_mem hq)]

theorem touch_memo (ep : Ep Tree NV) (h : ∀ q v, (q, v) ∈ ep.memo → v = L.query ep.tree q) :
    ∀ q v, (q, v) ∈ (Ep.touch L ep).memo → v = L.query (Ep.touch L ep).tree q := by
  intro q v hm
  simp only [Ep.touch, List.mem_append, List.mem_map] at hm
  rcases hm with hm | ⟨q', _, he⟩
  · exact h q v hm
  · cases he
    rw [nf_eq L ep h]
    rfl

/-- states that differ from `s` only in the AST cache -/
theorem parseModule_spec (s : St L) (p : ModPath) (hast : ∀ x t, alookup s.ast x = some t → (E.disk x).bind L.parse = some t) :
    ∃ a, (parseModule L E s p).2 = { s with ast := a } ∧
      (∀ x t, alookup a x = some t → (E.disk x).bind L.parse = some t) ∧
      (∀ t, (parseModule L E s p).1 = .ok t → (srcOf L E s p).bind L.parse = some t) := by
  unfold parseModule srcOf
  cases hd : E.disk p with
  | none =>
    simp only
    by_cases hm : p = E.main
    · simp only [hm, if_true]
      cases hp : L.parse s.mainSrc with
      | none => exact ⟨s.ast, rfl, hast, by simp⟩
      | some t => exact ⟨s.ast, rfl, hast, by intro t' h; cases h; simp [hp]⟩
    · simp only [hm, if_false]
      exact ⟨s.ast, rfl, hast, by simp⟩
  | some src =>
    simp only
    cases ha : alookup s.ast p with
    | some t =>
      refine ⟨s.ast, rfl, hast, ?_⟩
      intro t' h; cases h
      have := hast p t ha
      simpa [hd] using this
    | none =>
      simp only
      cases hp : L.parse src with
      | none => exact ⟨s.ast, rfl, hast, by simp⟩
      | some t =>
        refine ⟨s.ast ++ [(p, t)], rfl, ?_, ?_⟩
        · intro x t' hx
          rw [alookup_append] at hx
          cases hx' : alookup s.ast x with
          | some w => rw [hx'] at hx; cases hx; exact hast x _ hx'
          | none =>
            rw [hx'] at hx
            simp only at hx
            split at hx
            · next e => cases hx; subst e; simp [hd, hp]
            · cases hx
        · intro t' h; cases h; simp [hp]

theorem ahas_iff {K W : Type} [DecidableEq K] (d : List (K × W)) (k : K) : ahas d k = true ↔ ∃ v, alookup d k = some v := by
  unfold ahas
  cases alookup d k <;> simp

theorem epLoad_spec (s : St L) (p : ModPath) (hI : Inv L E s) :
    Inv L E (epLoad L E s p).2 ∧
    (epLoad L E s p).2.mods = s.mods ∧ (epLoad L E s p).2.db = s.db ∧ (epLoad L E s p).2.completed = s.completed ∧
    (epLoad L E s p).2.stored = s.stored ∧ (epLoad L E s p).2.mainSrc = s.mainSrc ∧
    (epLoad L E s p).2.deps = s.deps ∧ (epLoad L E s p).2.proc = s.proc ∧
    (∀ x, x ≠ p → alookup (epLoad L E s p).2.eps x = alookup s.eps x) ∧
    (ahas s.eps p = true → (epLoad L E s p).2.eps = s.eps) ∧
    ((epLoad L E s p).1 = .ok () → ahas (epLoad L E s p).2.eps p = true) ∧
    (∀ e, (epLoad L E s p).1 = .error e → (epLoad L E s p).2.eps = s.eps) := by
  unfold epLoad
  by_cases hh : ahas s.eps p = true
  · simp only [hh, if_true]
    refine ⟨hI, ?_⟩
    simp
  · simp only [hh]
    obtain ⟨a, hs1, hast, hok⟩ := parseModule_spec L E s p hI.ast
    generalize parseModule L E s p = pm at hs1 hok
    obtain ⟨r, s1⟩ := pm
    simp only at hs1 hok
    subst hs1
    have hnone : alookup s.eps p = none := by
      cases h : alookup s.eps p with
      | none => rfl
      | some v => exact absurd ((ahas_iff _ _).2 ⟨v, h⟩) hh
    cases r with
    | error e =>
      simp only [if_false, Bool.false_eq_true]
      refine ⟨⟨hI.memo, hI.tree, hast, hI.tags, hI.stored, hI.completed, hI.eps⟩, ?_⟩
      simp [hh]
    | ok t =>
      simp only [if_false, Bool.false_eq_true]
      have hlk : ∀ x, alookup (s.eps ++ [(p, (⟨t, []⟩ : Ep Tree NV))]) x = if x = p then some ⟨t, []⟩ else alookup s.eps x := by
        intro x
        rw [alookup_append]
        by_cases hx : x = p
        · subst hx; simp [hnone]
        · have : ¬ p = x := fun e => hx e.symm
          cases alookup s.eps x <;> simp [hx, this]
      refine ⟨⟨?_, ?_, hast, hI.tags, hI.stored, hI.completed, ?_⟩, ?_⟩
      · intro x ep hx q v hq
        simp only [hlk] at hx
        split at hx
        · cases hx; simp at hq
        · exact hI.memo x ep hx q v hq
      · intro x ep hx
        simp only [hlk] at hx
        split at hx
        · next e => cases hx; subst e; exact hok t rfl
        · exact hI.tree x ep hx
      · intro x hx
        rw [ahas_iff]
        simp only [hlk]
        split
        · exact ⟨_, rfl⟩
        · exact (ahas_iff _ _).1 (hI.eps x hx)
      · simp only [true_and]
        refine ⟨?_, fun h => by simp_all, ?_, fun e h => by cases h⟩
        · intro x hx
          simp only [hlk, hx, if_false]
        · intro _
          rw [ahas_iff]
          exact ⟨⟨t, []⟩, by simp only [hlk, if_true]⟩

/-- what `preprocess p` may change: only things of module `p` -/
structure Touches (p : ModPath) (s s' : St L) : Prop where
  mods : s'.mods = s.mods
  mainSrc : s'.mainSrc = s.mainSrc
  deps : s'.deps = s.deps
  proc : s'.proc = s.proc
  eps : ∀ x, x ≠ p → alookup s'.eps x = alookup s.eps x
  table : ∀ x, x ≠ p → tableOf s'.db x = tableOf s.db x
  completed : ∀ x, x ≠ p → (x ∈ s'.completed ↔ x ∈ s.completed)
  stored : ∀ q rows, alookup s.stored q = some rows → alookup s'.stored q = some rows

theorem Touches.refl (p : ModPath) (s : St L) : Touches L p s s :=
  ⟨rfl, rfl, rfl, rfl, fun _ _ => rfl, fun _ _ => rfl, fun _ _ => Iff.rfl, fun _ _ h => h⟩

theorem tags_aaddAll {mods : List ModPath} {db rows : List (Key × V)} {p : ModPath}
    (h : ∀ k v, (k, v) ∈ db → modOf k ∈ mods) (hrows : ∀ kv, kv ∈ rows → modOf kv.1 = p) (hp : p ∈ mods) :
    ∀ k v, (k, v) ∈ aaddAll db rows → modOf k ∈ mods := by
  intro k v hkv
  rcases mem_aaddAll hkv with h1 | h1
  · exact h k v h1
  · rw [hrows _ h1]; exact hp

theorem Touches.trans {p : ModPath} {s s' s'' : St L} (h1 : Touches L p s s') (h2 : Touches L p s' s'') : Touches L p s s'' where
  mods := h2.mods.trans h1.mods
  mainSrc := h2.mainSrc.trans h1.mainSrc
  deps := h2.deps.trans h1.deps
  proc := h2.proc.trans h1.proc
  eps x hx := (h2.eps x hx).trans (h1.eps x hx)
  table x hx := (h2.table x hx).trans (h1.table x hx)
  completed x hx := (h2.completed x hx).trans (h1.completed x hx)
  stored q rows h := h2.stored q rows (h1.stored q rows h)

theorem step_expand (s : St L) (p : ModPath) (ep : Ep Tree NV) (rows : List (Key × V)) (hI : Inv L E s) (hp : p ∈ s.mods)
    (hep : alookup s.eps p = some ep) (hrows : ∀ kv, kv ∈ rows → modOf kv.1 = p) :
    Inv L E { s with db := aaddAll s.db rows, eps := aset s.eps p (Ep.touch L ep) } ∧
    Touches L p s { s with db := aaddAll s.db rows, eps := aset s.eps p (Ep.touch L ep) } := by
  refine ⟨⟨?_, ?_, hI.ast, tags_aaddAll hI.tags hrows hp, hI.stored, hI.completed, ?_⟩, ⟨rfl, rfl, rfl, rfl, ?_, ?_, fun _ _ => Iff.rfl, fun _ _ h => h⟩⟩
  · intro x ep' hx q v hq
    simp only [alookup_aset] at hx
    split at hx
    · next e => cases hx; subst e; exact touch_memo L ep (hI.memo p ep hep) q v hq
    · exact hI.memo x ep' hx q v hq
  · intro x ep' hx
    simp only [alookup_aset] at hx
    split at hx
    · next e => cases hx; subst e; exact hI.tree p ep hep
    · exact hI.tree x ep' hx
  · intro x hx
    rw [ahas_iff]
    simp only [alookup_aset]
    split
    · exact ⟨_, rfl⟩
    · exact (ahas_iff _ _).1 (hI.eps x hx)
  · intro x hx
    simp only [alookup_aset]
    have : ¬ p = x := fun e => hx e.symm
    simp [this]
  · intro x hx
    exact tableOf_aaddAll_other rows s.db p x hrows hx

theorem step_extend (s : St L) (p : ModPath) (f : V → V) (hI : Inv L E s) :
    Inv L E { s with db := s.db.map (fun kv => if modOf kv.1 = p then (kv.1, f kv.2) else kv) } ∧
    Touches L p s { s with db := s.db.map (fun kv => if modOf kv.1 = p then (kv.1, f kv.2) else kv) } := by
  refine ⟨⟨hI.memo, hI.tree, hI.ast, ?_, hI.stored, hI.completed, hI.eps⟩, ⟨rfl, rfl, rfl, rfl, fun _ _ => rfl, ?_, fun _ _ => Iff.rfl, fun _ _ h => h⟩⟩
  · intro k v hkv
    obtain ⟨v', hv'⟩ := mem_map_key hkv
    exact hI.tags k v' hv'
  · intro x hx
    exact tableOf_map_other s.db f p x hx

theorem step_complete (s : St L) (p : ModPath) (hI : Inv L E s) (hp : p ∈ s.mods) :
    Inv L E { s with completed := addIfAbsent s.completed p } ∧
    Touches L p s { s with completed := addIfAbsent s.completed p } := by
  refine ⟨⟨hI.memo, hI.tree, hI.ast, hI.tags, hI.stored, ?_, hI.eps⟩, ⟨rfl, rfl, rfl, rfl, fun _ _ => rfl, fun _ _ => rfl, ?_, fun _ _ h => h⟩⟩
  · intro x hx
    rcases mem_addIfAbsent.1 hx with h | h
    · exact hI.completed x h
    · exact h ▸ hp
  · intro x hx
    rw [mem_addIfAbsent]
    constructor
    · rintro (h | h); exact h; exact absurd h hx
    · exact Or.inl

theorem step_store (s : St L) (p : ModPath) (hI : Inv L E s) :
    Inv L E { s with stored := s.stored ++ [(p, tableOf s.db p)] } ∧
    Touches L p s { s with stored := s.stored ++ [(p, tableOf s.db p)] } := by
  refine ⟨⟨hI.memo, hI.tree, hI.ast, hI.tags, ?_, hI.completed, hI.eps⟩, ⟨rfl, rfl, rfl, rfl, fun _ _ => rfl, fun _ _ => rfl, fun _ _ => Iff.rfl, ?_⟩⟩
  · intro q rows hq k v hkv
    rw [alookup_append] at hq
    cases hq' : alookup s.stored q with
    | some w => rw [hq'] at hq; cases hq; exact hI.stored q _ hq' k v hkv
    | none =>
      rw [hq'] at hq
      simp only at hq
      split at hq
      · next e => cases hq; subst e; exact (mem_tableOf.1 hkv).2
      · cases hq
  · intro q rows hq
    rw [alookup_append, hq]

theorem preprocessCore_spec (s : St L) (p : ModPath) (hN : GoodName p) (hI : Inv L E s) (hp : p ∈ s.mods) :
    Inv L E (preprocessCore L E s p).2 ∧ Touches L p s (preprocessCore L E s p).2 := by
  unfold preprocessCore
  by_cases hm : hasModule s.db p = true
  · simp only [hm, if_true]
    exact ⟨hI, Touches.refl L p s⟩
  · simp only [hm, if_false, Bool.false_eq_true]
    cases hst : (if onDisk E p = true then alookup s.stored p else none) with
    | some rows =>
      simp only
      have hrows : ∀ kv, kv ∈ rows → modOf kv.1 = p := by
        intro kv hkv
        have : alookup s.stored p = some rows := by
          split at hst
          · exact hst
          · cases hst
        exact hI.stored p rows this kv.1 kv.2 hkv
      refine ⟨⟨hI.memo, hI.tree, hI.ast, tags_aaddAll hI.tags hrows hp, hI.stored, ?_, hI.eps⟩, ⟨rfl, rfl, rfl, rfl, fun _ _ => rfl, ?_, ?_, fun _ _ h => h⟩⟩
      · intro x hx
        rw [mem_foldl_addIfAbsent] at hx
        rcases hx with hx | ⟨kv, hkv, he⟩
        · exact hI.completed x hx
        · rw [he, hrows kv hkv]; exact hp
      · intro x hx
        exact tableOf_aaddAll_other rows s.db p x hrows hx
      · intro x hx
        rw [mem_foldl_addIfAbsent]
        constructor
        · rintro (h | ⟨kv, hkv, he⟩)
          · exact h
          · exact absurd (he.trans (hrows kv hkv)) hx
        · exact Or.inl
    | none =>
      simp only
      cases hep : alookup s.eps p with
      | none => exact ⟨hI, Touches.refl L p s⟩
      | some ep =>
        simp only
        generalize L.expand p (Ep.nf L ep) (alookup s.db) = r
        have hrows : ∀ kv, kv ∈ r.1.map (fun lv => (fullJoined p lv.1, lv.2)) → modOf kv.1 = p := by
          intro kv hkv
          simp only [List.mem_map] at hkv
          obtain ⟨lv, _, he⟩ := hkv
          rw [← he]
          exact modOf_fullJoined p lv.1 hN
        generalize r.1.map (fun lv => (fullJoined p lv.1, lv.2)) = rows at hrows
        obtain ⟨hI1, hT1⟩ := step_expand L E s p ep rows hI hp hep hrows
        cases r.2 with
        | some e => exact ⟨hI1, hT1⟩
        | none =>
          simp only
          obtain ⟨hI2, hT2⟩ := step_extend L E _ p L.extend hI1
          obtain ⟨hI3, hT3⟩ := step_complete L E _ p hI2 hp
          split
          · obtain ⟨hI4, hT4⟩ := step_store L E _ p hI3
            exact ⟨hI4, (hT1.trans L hT2).trans L (hT3.trans L hT4)⟩
          · exact ⟨hI3, (hT1.trans L hT2).trans L hT3⟩

/-- the identity step only records that the imports of `p` have been loaded -/
theorem identStep_spec (s : St L) (p : ModPath) :
    ∃ i', (identStep L E s p).2 = { s with ident := i' } ∧ (∀ x, x ∈ s.ident → x ∈ i') ∧
      (onDisk E p = true → p ∈ i') := by
  unfold identStep
  by_cases h1 : (!onDisk E p) = true
  · simp only [h1, if_true]
    exact ⟨s.ident, rfl, fun _ h => h, fun h2 => by simp [h2] at h1⟩
  · simp only [h1, if_false, Bool.false_eq_true]
    exact ⟨addIfAbsent s.ident p, rfl, fun x hx => mem_addIfAbsent.2 (Or.inl hx), fun _ => mem_addIfAbsent.2 (Or.inr rfl)⟩

theorem inv_ident (s : St L) (i' : List ModPath) (hI : Inv L E s) : Inv L E { s with ident := i' } :=
  ⟨hI.memo, hI.tree, hI.ast, hI.tags, hI.stored, hI.completed, hI.eps⟩

theorem preprocess_spec (s : St L) (p : ModPath) (hN : GoodName p) (hI : Inv L E s) (hp : p ∈ s.mods) :
    Inv L E (preprocess L E s p).2 ∧ Touches L p s (preprocess L E s p).2 := by
  unfold preprocess
  by_cases hm : hasModule s.db p = true
  · simp only [hm, if_true]
    exact ⟨hI, Touches.refl L p s⟩
  · simp only [hm, if_false, Bool.false_eq_true]
    obtain ⟨i', hs1, _, _⟩ := identStep_spec L E s p
    generalize identStep L E s p = r at hs1
    obtain ⟨rr, s1⟩ := r
    simp only at hs1
    subst hs1
    have hT0 : Touches L p s ({ s with ident := i' } : St L) := ⟨rfl, rfl, rfl, rfl, fun _ _ => rfl, fun _ _ => rfl, fun _ _ => Iff.rfl, fun _ _ h => h⟩
    cases rr with
    | error e => exact ⟨inv_ident L E s i' hI, hT0⟩
    | ok u =>
      obtain ⟨a, b⟩ := preprocessCore_spec L E _ p hN (inv_ident L E s i' hI) hp
      exact ⟨a, hT0.trans L b⟩

theorem preprocessCore_ident (s : St L) (p : ModPath) : (preprocessCore L E s p).2.ident = s.ident := by
  unfold preprocessCore
  split
  · rfl
  · split
    · rfl
    · split
      · rfl
      · simp only
        generalize L.expand p _ (alookup s.db) = r
        cases r.2 with
        | some e => rfl
        | none => simp only; split <;> rfl

/-- `preprocess` only extends the memoised identities, and memoises the one of `p` when it succeeds -/
theorem preprocess_ident (s : St L) (p : ModPath) :
    (∀ x, x ∈ s.ident → x ∈ (preprocess L E s p).2.ident) ∧
    ((preprocess L E s p).1 = .ok () → onDisk E p = true → p ∈ (preprocess L E s p).2.ident) := by
  unfold preprocess
  by_cases hm : hasModule s.db p = true
  · simp only [hm, if_true]
    exact ⟨fun _ h => h, fun h => by cases h⟩
  · simp only [hm, if_false, Bool.false_eq_true]
    obtain ⟨i', hs1, hmono, hp⟩ := identStep_spec L E s p
    generalize identStep L E s p = r at hs1
    obtain ⟨rr, s1⟩ := r
    simp only at hs1
    subst hs1
    cases rr with
    | error e => exact ⟨hmono, fun h => by cases h⟩
    | ok u =>
      simp only
      rw [preprocessCore_ident]
      exact ⟨hmono, fun _ h => hp h⟩

theorem epLoad_ident (s : St L) (p : ModPath) : (epLoad L E s p).2.ident = s.ident := by
  unfold epLoad
  split
  · rfl
  · have : (parseModule L E s p).2.ident = s.ident := by
      unfold parseModule
      split
      · split
        · split <;> rfl
        · rfl
      · split
        · rfl
        · split <;> rfl
    generalize parseModule L E s p = pm at this
    obtain ⟨r, s1⟩ := pm
    cases r <;> exact this

/-! ## unload with its cascade -/

/-- every entrypoint belongs to a registered module -/
def EpsSub (s : St L) : Prop := ∀ x, ahas s.eps x = true → x ∈ s.mods

/-- the imports of a registered module, as `Modules.__dependent_paths` reads them -/
def importsOf (s : St L) (x : ModPath) : List ModPath :=
  match alookup s.eps x with
  | some ep => L.imports ep.tree
  | none => []

/-- everything a registered module depends on: its imports and, for a non-library module, the library modules -/
def depsOf (s : St L) (x : ModPath) : List ModPath :=
  importsOf L s x ++ (if x ∈ E.libs then [] else E.libs)

/-- `s` is what is left of `s₀` after unloading modules: the remaining modules are untouched -/
structure Sub (s₀ s : St L) : Prop where
  mods : ∀ x, x ∈ s.mods → x ∈ s₀.mods
  eps : ∀ x, x ∈ s.mods → alookup s.eps x = alookup s₀.eps x
  table : ∀ x, x ∈ s.mods → tableOf s.db x = tableOf s₀.db x
  completed : ∀ x, x ∈ s.mods → (x ∈ s.completed ↔ x ∈ s₀.completed)
  stored : s.stored = s₀.stored
  ast : s.ast = s₀.ast
  mainSrc : s.mainSrc = s₀.mainSrc
  deps : s.deps = s₀.deps
  proc : s.proc = s₀.proc
  len : s.mods.length ≤ s₀.mods.length

theorem Sub.refl (s : St L) : Sub L s s :=
  ⟨fun _ h => h, fun _ _ => rfl, fun _ _ => rfl, fun _ _ => Iff.rfl, rfl, rfl, rfl, rfl, rfl, Nat.le_refl _⟩

theorem Sub.trans {s₀ s₁ s₂ : St L} (h1 : Sub L s₀ s₁) (h2 : Sub L s₁ s₂) : Sub L s₀ s₂ where
  mods x hx := h1.mods x (h2.mods x hx)
  eps x hx := (h2.eps x hx).trans (h1.eps x (h2.mods x hx))
  table x hx := (h2.table x hx).trans (h1.table x (h2.mods x hx))
  completed x hx := (h2.completed x hx).trans (h1.completed x (h2.mods x hx))
  stored := h2.stored.trans h1.stored
  ast := h2.ast.trans h1.ast
  mainSrc := h2.mainSrc.trans h1.mainSrc
  deps := h2.deps.trans h1.deps
  proc := h2.proc.trans h1.proc
  len := Nat.le_trans h2.len h1.len

theorem tableOf_filter_ne (db : List (Key × V)) (m x : ModPath) (hx : x ≠ m) :
    tableOf (db.filter (fun kv => decide (modOf kv.1 ≠ m))) x = tableOf db x := by
  simp only [tableOf, List.filter_filter]
  congr 1
  funext kv
  by_cases h : modOf kv.1 = x
  · simp [h, hx]
  · simp [h]

theorem unloadOne_sub (s : St L) (m : ModPath) : Sub L s (unloadOne L s m) := by
  refine ⟨?_, ?_, ?_, ?_, rfl, rfl, rfl, rfl, rfl, List.length_filter_le _ _⟩
  · intro x hx; simp only [unloadOne, List.mem_filter] at hx; exact hx.1
  · intro x hx
    simp only [unloadOne, List.mem_filter, decide_eq_true_eq] at hx
    simp only [unloadOne, alookup_aerase, hx.2, if_false]
  · intro x hx
    simp only [unloadOne, List.mem_filter, decide_eq_true_eq] at hx
    exact tableOf_filter_ne s.db m x hx.2
  · intro x hx
    simp only [unloadOne, List.mem_filter, decide_eq_true_eq] at hx
    simp [unloadOne, hx.2]

theorem unloadOne_not_mem (s : St L) (m : ModPath) : m ∉ (unloadOne L s m).mods := by
  simp [unloadOne]

theorem filter_ne_length_lt (l : List ModPath) (m : ModPath) (hm : m ∈ l) : (l.filter (fun x => decide (x ≠ m))).length < l.length := by
  induction l with
  | nil => cases hm
  | cons a rest ih =>
    simp only [List.filter_cons]
    by_cases h : a = m
    · subst h
      simp only [ne_eq, not_true_eq_false, decide_false, Bool.false_eq_true, if_false, List.length_cons]
      exact Nat.lt_succ_of_le (List.length_filter_le _ _)
    · have hm' : m ∈ rest := by
        rcases List.mem_cons.1 hm with e | e
        · exact absurd e.symm h
        · exact e
      simp only [ne_eq, h, not_false_eq_true, decide_true, if_true, List.length_cons]
      exact Nat.succ_lt_succ (ih hm')

theorem unloadOne_len (s : St L) (m : ModPath) (hm : m ∈ s.mods) : (unloadOne L s m).mods.length < s.mods.length :=
  filter_ne_length_lt s.mods m hm

theorem unloadOne_inv (s : St L) (m : ModPath) (hI : Inv L E s) : Inv L E (unloadOne L s m) := by
  refine ⟨?_, ?_, hI.ast, ?_, hI.stored, ?_, ?_⟩
  · intro x ep hx
    simp only [unloadOne, alookup_aerase] at hx
    split at hx
    · cases hx
    · exact hI.memo x ep hx
  · intro x ep hx
    simp only [unloadOne, alookup_aerase] at hx
    split at hx
    · cases hx
    · exact hI.tree x ep hx
  · intro k v hkv
    simp only [unloadOne, List.mem_filter, decide_eq_true_eq] at hkv ⊢
    exact ⟨hI.tags k v hkv.1, hkv.2⟩
  · intro x hx
    simp only [unloadOne, List.mem_filter, decide_eq_true_eq] at hx ⊢
    exact ⟨hI.completed x hx.1, hx.2⟩
  · intro x hx
    simp only [unloadOne, List.mem_filter, decide_eq_true_eq] at hx
    rw [ahas_iff]
    simp only [unloadOne, alookup_aerase, hx.2, if_false]
    exact (ahas_iff _ _).1 (hI.eps x hx.1)

theorem unloadOne_epsSub (s : St L) (m : ModPath) (hE : EpsSub L s) : EpsSub L (unloadOne L s m) := by
  intro x hx
  rw [ahas_iff] at hx
  simp only [unloadOne, alookup_aerase] at hx
  simp only [unloadOne, List.mem_filter, decide_eq_true_eq]
  split at hx
  · obtain ⟨_, h⟩ := hx; cases h
  · next hne => exact ⟨hE x ((ahas_iff _ _).2 hx), hne⟩

theorem foldl_ind {A : Type} (P : St L → Prop) (g : St L → A → St L) (hg : ∀ s d, P s → P (g s d)) :
    ∀ (D : List A) (s : St L), P s → P (D.foldl g s) := by
  intro D
  induction D with
  | nil => intro s h; exact h
  | cons d rest ih => intro s h; exact ih _ (hg s d h)

/-- whatever every single removal preserves, the cascade preserves -/
theorem unloadF_ind (P : St L → Prop) (h1 : ∀ s m, P s → P (unloadOne L s m)) : ∀ f s m, P s → P (unloadF L E f s m) := by
  intro f
  induction f with
  | zero => intro s m h; exact h
  | succ f ih =>
    intro s m h
    simp only [unloadF]
    split
    · exact foldl_ind L P _ (fun s d hs => ih s d hs) _ _ (h1 s m h)
    · exact h

theorem unloadF_sub (f : Nat) (s : St L) (m : ModPath) : Sub L s (unloadF L E f s m) :=
  unloadF_ind L E (fun s' => Sub L s s') (fun s' m' h => h.trans L (unloadOne_sub L s' m')) f s m (Sub.refl L s)

theorem unloadF_not_mem (f : Nat) (s : St L) (m x : ModPath) (hx : x ∉ s.mods) : x ∉ (unloadF L E f s m).mods :=
  fun h => hx ((unloadF_sub L E f s m).mods x h)

theorem unload_sub (s : St L) (m : ModPath) : Sub L s (unload L E s m) := unloadF_sub L E _ s m

/-- the unloaded module is gone -/
theorem unload_not_mem (s : St L) (m : ModPath) : m ∉ (unload L E s m).mods := by
  unfold unload
  by_cases hm : m ∈ s.mods
  · cases hl : s.mods.length with
    | zero => simp [List.length_eq_zero_iff.1 hl] at hm
    | succ f =>
      simp only [unloadF, hm, if_true]
      exact foldl_ind L (fun s' => m ∉ s'.mods) _ (fun s' d hs => unloadF_not_mem L E f s' d m hs) _ _ (unloadOne_not_mem L s m)
  · exact unloadF_not_mem L E _ s m m hm

/-- the memoised identities of the modules that stay registered stay -/
theorem unload_ident (s : St L) (m : ModPath) : ∀ x, x ∈ (unload L E s m).mods → x ∈ s.ident → x ∈ (unload L E s m).ident :=
  unloadF_ind L E (fun s' => ∀ x, x ∈ s'.mods → x ∈ s.ident → x ∈ s'.ident)
    (fun s' m' h x hx hi => by
      simp only [unloadOne, List.mem_filter, decide_eq_true_eq] at hx ⊢
      exact ⟨h x hx.1 hi, hx.2⟩) _ s m (fun _ _ h => h)

/-- what the single removal of `m` establishes and every further single removal preserves holds after the cascade
    (for a registered `m`; for an unregistered one `unload` does nothing, `unload_unregistered`) -/
theorem unload_establishes (P : St L → Prop) (m : ModPath) (h0 : ∀ s, P (unloadOne L s m)) (h1 : ∀ s x, P s → P (unloadOne L s x))
    (s : St L) (hm : m ∈ s.mods) : P (unload L E s m) := by
  unfold unload
  cases hl : s.mods.length with
  | zero => simp [List.length_eq_zero_iff.1 hl] at hm
  | succ f =>
    simp only [unloadF, hm, if_true]
    exact foldl_ind L P _ (fun s' d hs => unloadF_ind L E P h1 f s' d hs) _ _ (h0 s)

theorem unload_unregistered (s : St L) (m : ModPath) (hm : m ∉ s.mods) : unload L E s m = s := by
  unfold unload
  cases s.mods.length with
  | zero => rfl
  | succ f => simp only [unloadF, hm, if_false]

/-- the per-module entries of the session state: nothing of `m` is left in any of them after `unload m` -/
structure Cleared (s : St L) (m : ModPath) : Prop where
  mods : m ∉ s.mods
  eps : alookup s.eps m = none
  db : ∀ kv, kv ∈ s.db → modOf kv.1 ≠ m
  completed : m ∉ s.completed
  ident : m ∉ s.ident

theorem unload_cleared (s : St L) (m : ModPath) (hm : m ∈ s.mods) : Cleared L (unload L E s m) m :=
  unload_establishes L E (fun s' => Cleared L s' m) m
    (fun s' => by
      refine ⟨?_, ?_, ?_, ?_, ?_⟩
      · simp [unloadOne]
      · simp [unloadOne, alookup_aerase]
      · intro kv h; simp only [unloadOne, List.mem_filter, decide_eq_true_eq] at h; exact h.2
      · simp [unloadOne]
      · simp [unloadOne])
    (fun s' x h => by
      refine ⟨?_, ?_, ?_, ?_, ?_⟩
      · intro hx; simp only [unloadOne, List.mem_filter] at hx; exact h.mods hx.1
      · simp only [unloadOne, alookup_aerase, h.eps]; split <;> rfl
      · intro kv hk; simp only [unloadOne, List.mem_filter] at hk; exact h.db kv hk.1
      · intro hx; simp only [unloadOne, List.mem_filter] at hx; exact h.completed hx.1
      · intro hx; simp only [unloadOne, List.mem_filter] at hx; exact h.ident hx.1)
    s hm

theorem unload_inv (s : St L) (m : ModPath) (hI : Inv L E s) : Inv L E (unload L E s m) :=
  unloadF_ind L E (Inv L E) (fun s' m' h => unloadOne_inv L E s' m' h) _ s m hI

theorem unload_epsSub (s : St L) (m : ModPath) (hE : EpsSub L s) : EpsSub L (unload L E s m) :=
  unloadF_ind L E (EpsSub L) (fun s' m' h => unloadOne_epsSub L s' m' h) _ s m hE

/-- THE CASCADE FUEL SUFFICES: once the fuel is at least the number of registered modules, more fuel changes nothing
    (every level of the recursion removes one module, so the `0` case is never reached with a registered module) -/
theorem unloadF_fuel_succ : ∀ f (s : St L) m, s.mods.length ≤ f → unloadF L E f s m = unloadF L E (f + 1) s m := by
  intro f
  induction f with
  | zero =>
    intro s m hlen
    have hnil : s.mods = [] := List.length_eq_zero_iff.1 (Nat.le_zero.1 hlen)
    simp [unloadF, hnil]
  | succ f ih =>
    intro s m hlen
    rw [unloadF, unloadF]
    by_cases hm : m ∈ s.mods
    · simp only [hm, if_true]
      have hlen1 : (unloadOne L s m).mods.length ≤ f := Nat.le_of_lt_succ (Nat.lt_of_lt_of_le (unloadOne_len L s m hm) hlen)
      have fold : ∀ (D : List ModPath) (s' : St L), s'.mods.length ≤ f →
          D.foldl (fun s d => unloadF L E f s d) s' = D.foldl (fun s d => unloadF L E (f + 1) s d) s' := by
        intro D
        induction D with
        | nil => intro s' _; rfl
        | cons d rest ihD =>
          intro s' hl
          simp only [List.foldl]
          rw [← ih s' d hl]
          exact ihD _ (Nat.le_trans (unloadF_sub L E f s' d).len hl)
      exact fold _ _ hlen1
    · simp only [hm, if_false]

theorem unloadF_fuel (s : St L) (m : ModPath) (k : Nat) : unloadF L E (s.mods.length + k) s m = unload L E s m := by
  induction k with
  | zero => rfl
  | succ k ih => rw [← ih, ← Nat.add_assoc, ← unloadF_fuel_succ L E _ s m (Nat.le_add_right _ _)]

/-- no remaining module imports a removed one (`W`: modules still waiting to be unloaded) -/
def Dang (s₀ s : St L) (W : List ModPath) : Prop :=
  ∀ x, x ∈ s.mods → x ∉ W → ∀ d, d ∈ depsOf L E s x → d ∈ s₀.mods → d ∈ s.mods

theorem importsOf_unloadOne (s : St L) (m x : ModPath) (hx : x ≠ m) : depsOf L E (unloadOne L s m) x = depsOf L E s x := by
  simp only [depsOf, importsOf, unloadOne, alookup_aerase, hx, if_false]

theorem mem_dependents_iff (s : St L) (m x : ModPath) : x ∈ dependents L E s m ↔ x ∈ s.mods ∧ m ∈ depsOf L E s x := by
  simp only [dependents, depsOf, importsOf, List.mem_filter, Bool.or_eq_true, Bool.and_eq_true, decide_eq_true_eq,
    Bool.not_eq_true', decide_eq_false_iff_not, List.mem_append]
  constructor
  · rintro ⟨hx, h | h⟩
    · refine ⟨hx, Or.inl ?_⟩
      cases hep : alookup s.eps x with
      | none => rw [hep] at h; cases h
      | some ep => rw [hep] at h; simpa using h
    · exact ⟨hx, Or.inr (by simp [h.2, h.1])⟩
  · rintro ⟨hx, h | h⟩
    · refine ⟨hx, Or.inl ?_⟩
      cases hep : alookup s.eps x with
      | none => rw [hep] at h; cases h
      | some ep => rw [hep] at h; simpa using h
    · refine ⟨hx, Or.inr ?_⟩
      by_cases hl : x ∈ E.libs
      · simp [hl] at h
      · simp only [hl, if_false] at h; exact ⟨h, hl⟩

theorem mem_dependents_of_import (s : St L) (m x : ModPath) (hx : x ∈ s.mods) (h : m ∈ depsOf L E s x) : x ∈ dependents L E s m :=
  (mem_dependents_iff L E s m x).2 ⟨hx, h⟩

theorem unloadF_dang (s₀ : St L) : ∀ f s w W, s.mods.length ≤ f → Dang L E s₀ s (w :: W) → Dang L E s₀ (unloadF L E f s w) W := by
  intro f
  induction f with
  | zero =>
    intro s w W hlen _ x hx
    have : s.mods = [] := List.length_eq_zero_iff.1 (Nat.le_zero.1 hlen)
    simp only [unloadF] at hx
    rw [this] at hx; cases hx
  | succ f ih =>
    intro s w W hlen hD
    simp only [unloadF]
    by_cases hw : w ∈ s.mods
    · simp only [hw, if_true]
      have hlen1 : (unloadOne L s w).mods.length ≤ f := Nat.le_of_lt_succ (Nat.lt_of_lt_of_le (unloadOne_len L s w hw) hlen)
      have hD1 : Dang L E s₀ (unloadOne L s w) (dependents L E (unloadOne L s w) w ++ W) := by
        intro x hx hxW d hd hd0
        have hxw : x ≠ w := fun e => unloadOne_not_mem L s w (e ▸ hx)
        rw [importsOf_unloadOne L E s w x hxw] at hd
        simp only [List.mem_append, not_or] at hxW
        by_cases hdw : d = w
        · subst hdw
          exact absurd (mem_dependents_of_import L E _ d x hx (by rw [importsOf_unloadOne L E s d x hxw]; exact hd)) hxW.1
        · have hxs : x ∈ s.mods := (unloadOne_sub L s w).mods x hx
          have := hD x hxs (by simp [hxw, hxW.2]) d hd hd0
          simp only [unloadOne, List.mem_filter, decide_eq_true_eq]
          exact ⟨this, hdw⟩
      -- process the dependents one after the other
      have fold : ∀ (D : List ModPath) (s' : St L), s'.mods.length ≤ f → Dang L E s₀ s' (D ++ W) →
          Dang L E s₀ (D.foldl (fun s d => unloadF L E f s d) s') W := by
        intro D
        induction D with
        | nil => intro s' _ h; exact h
        | cons d rest ihD =>
          intro s' hl h
          simp only [List.foldl]
          apply ihD
          · exact Nat.le_trans (unloadF_sub L E f s' d).len hl
          · exact ih s' d (rest ++ W) hl h
      exact fold _ _ hlen1 hD1
    · simp only [hw, if_false]
      intro x hx hxW d hd hd0
      exact hD x hx (by simp [hxW]; exact fun e => hw (e ▸ hx)) d hd hd0

/-- after `unload m` nothing that is left imports something that was removed -/
theorem unload_dang (s : St L) (m : ModPath) : Dang L E s (unload L E s m) [] := by
  apply unloadF_dang L E s _ s m [] (Nat.le_refl _)
  intro x _ _ d _ hd0
  exact hd0

/-- a set of registered modules that is closed under dependencies (imports, and the library modules for a non-library module) -/
structure ClosedSet (s : St L) (O : ModPath → Prop) : Prop where
  mods : ∀ x, O x → x ∈ s.mods
  deps : ∀ x, O x → ∀ d, d ∈ depsOf L E s x → O d

/-- what `O` looked like in `s` is what it looks like in `s'` -/
structure FrameOn (O : ModPath → Prop) (s s' : St L) : Prop where
  mods : ∀ x, O x → x ∈ s'.mods
  eps : ∀ x, O x → alookup s'.eps x = alookup s.eps x
  table : ∀ x, O x → tableOf s'.db x = tableOf s.db x
  completed : ∀ x, O x → (x ∈ s'.completed ↔ x ∈ s.completed)

theorem FrameOn.refl (O : ModPath → Prop) (s : St L) (h : ∀ x, O x → x ∈ s.mods) : FrameOn L O s s :=
  ⟨h, fun _ _ => rfl, fun _ _ => rfl, fun _ _ => Iff.rfl⟩

theorem FrameOn.trans {O : ModPath → Prop} {s s' s'' : St L} (h1 : FrameOn L O s s') (h2 : FrameOn L O s' s'') : FrameOn L O s s'' where
  mods := h2.mods
  eps x hx := (h2.eps x hx).trans (h1.eps x hx)
  table x hx := (h2.table x hx).trans (h1.table x hx)
  completed x hx := (h2.completed x hx).trans (h1.completed x hx)

theorem ClosedSet.transport {O : ModPath → Prop} {s s' : St L} (hC : ClosedSet L E s O) (hF : FrameOn L O s s') : ClosedSet L E s' O where
  mods := hF.mods
  deps x hx d hd := by
    apply hC.deps x hx d
    unfold depsOf importsOf at hd ⊢
    rw [hF.eps x hx] at hd
    exact hd

/-- unloading a module outside a closed set leaves the set alone -/
theorem unloadF_keeps (O : ModPath → Prop) : ∀ f s w, ¬ O w → ClosedSet L E s O →
    ClosedSet L E (unloadF L E f s w) O ∧ FrameOn L O s (unloadF L E f s w) := by
  intro f
  induction f with
  | zero => intro s w _ hC; exact ⟨hC, FrameOn.refl L O s hC.mods⟩
  | succ f ih =>
    intro s w hw hC
    simp only [unloadF]
    by_cases hws : w ∈ s.mods
    · simp only [hws, if_true]
      have hne : ∀ x, O x → x ≠ w := fun x hx e => hw (e ▸ hx)
      have hF1 : FrameOn L O s (unloadOne L s w) := by
        refine ⟨?_, ?_, ?_, ?_⟩
        · intro x hx; simp only [unloadOne, List.mem_filter, decide_eq_true_eq]; exact ⟨hC.mods x hx, hne x hx⟩
        · intro x hx; simp only [unloadOne, alookup_aerase, hne x hx, if_false]
        · intro x hx; exact tableOf_filter_ne s.db w x (hne x hx)
        · intro x hx; simp [unloadOne, hne x hx]
      have hC1 : ClosedSet L E (unloadOne L s w) O := hC.transport L E hF1
      -- no dependent of `w` is in the set
      have hdep : ∀ d, d ∈ dependents L E (unloadOne L s w) w → ¬ O d := by
        intro d hd hOd
        exact hw (hC1.deps d hOd w ((mem_dependents_iff L E _ w d).1 hd).2)
      have fold : ∀ (D : List ModPath) (s' : St L), (∀ d, d ∈ D → ¬ O d) → ClosedSet L E s' O →
          ClosedSet L E (D.foldl (fun s d => unloadF L E f s d) s') O ∧ FrameOn L O s' (D.foldl (fun s d => unloadF L E f s d) s') := by
        intro D
        induction D with
        | nil => intro s' _ h; exact ⟨h, FrameOn.refl L O s' h.mods⟩
        | cons d rest ihD =>
          intro s' hD h
          simp only [List.foldl]
          obtain ⟨a, b⟩ := ih s' d (hD d (by simp)) h
          obtain ⟨a', b'⟩ := ihD _ (fun d' hd' => hD d' (List.mem_cons_of_mem _ hd')) a
          exact ⟨a', b.trans L b'⟩
      obtain ⟨a, b⟩ := fold _ _ hdep hC1
      exact ⟨a, hF1.trans L b⟩
    · simp only [hws, if_false]
      exact ⟨hC, FrameOn.refl L O s hC.mods⟩

theorem unload_keeps (O : ModPath → Prop) (s : St L) (w : ModPath) (hw : ¬ O w) (hC : ClosedSet L E s O) :
    ClosedSet L E (unload L E s w) O ∧ FrameOn L O s (unload L E s w) :=
  unloadF_keeps L E O _ s w hw hC

/-! ## loading preserves the invariants -/

/-- the dependencies of every registered module outside `Ex` (the modules in the middle of being loaded) are registered -/
def ClosedEx (s : St L) (Ex : List ModPath) : Prop :=
  ∀ x, x ∈ s.mods → x ∉ Ex → ∀ d, d ∈ depsOf L E s x → d ∈ s.mods

/-- what neither a load nor an unload ever undoes -/
structure Global (s s' : St L) : Prop where
  stored : ∀ p rows, alookup s.stored p = some rows → alookup s'.stored p = some rows
  mainSrc : s'.mainSrc = s.mainSrc
  deps : s'.deps = s.deps
  proc : s'.proc = s.proc

theorem Global.refl (s : St L) : Global L s s := ⟨fun _ _ h => h, rfl, rfl, rfl⟩

theorem Global.trans {s s' s'' : St L} (h1 : Global L s s') (h2 : Global L s' s'') : Global L s s'' :=
  ⟨fun p rows h => h2.stored p rows (h1.stored p rows h), h2.mainSrc.trans h1.mainSrc, h2.deps.trans h1.deps, h2.proc.trans h1.proc⟩

theorem Frame.global {s s' : St L} (h : Frame L s s') : Global L s s' := ⟨h.stored, h.mainSrc, h.deps, h.proc⟩

theorem Sub.global {s s' : St L} (h : Sub L s s') : Global L s s' :=
  ⟨fun p rows hp => by rw [h.stored]; exact hp, h.mainSrc, h.deps, h.proc⟩

theorem Touches.global {p : ModPath} {s s' : St L} (h : Touches L p s s') : Global L s s' := ⟨h.stored, h.mainSrc, h.deps, h.proc⟩

theorem Frame.on {O : ModPath → Prop} {s s' : St L} (h : Frame L s s') (hO : ∀ x, O x → x ∈ s.mods) : FrameOn L O s s' :=
  ⟨fun x hx => h.mods x (hO x hx), fun x hx => h.eps x (hO x hx), fun x hx => h.table x (hO x hx), fun x hx => h.completed x (hO x hx)⟩

theorem Touches.on {O : ModPath → Prop} {p : ModPath} {s s' : St L} (h : Touches L p s s') (hO : ∀ x, O x → x ∈ s.mods) (hp : ¬ O p) :
    FrameOn L O s s' :=
  ⟨fun x hx => h.mods ▸ hO x hx, fun x hx => h.eps x (fun e => hp (e ▸ hx)), fun x hx => h.table x (fun e => hp (e ▸ hx)),
   fun x hx => h.completed x (fun e => hp (e ▸ hx))⟩

theorem Frame.of_touches {p : ModPath} {s s3 s4 : St L} (h1 : Frame L s s3) (h2 : Touches L p s3 s4) (hp : p ∉ s.mods) : Frame L s s4 where
  mods x hx := h2.mods ▸ h1.mods x hx
  eps x hx := (h2.eps x (fun e => hp (e ▸ hx))).trans (h1.eps x hx)
  table x hx := (h2.table x (fun e => hp (e ▸ hx))).trans (h1.table x hx)
  completed x hx := (h2.completed x (fun e => hp (e ▸ hx))).trans (h1.completed x hx)
  stored q rows h := h2.stored q rows (h1.stored q rows h)
  mainSrc := h2.mainSrc.trans h1.mainSrc
  deps := h2.deps.trans h1.deps
  proc := h2.proc.trans h1.proc

/-- the imports of a registered module are those of the tree of its current source -/
theorem importsOf_src (s : St L) (x : ModPath) (hI : Inv L E s) (hx : x ∈ s.mods) :
    ∃ t, (srcOf L E s x).bind L.parse = some t ∧ importsOf L s x = L.imports t := by
  obtain ⟨ep, hep⟩ := (ahas_iff _ _).1 (hI.eps x hx)
  exact ⟨ep.tree, hI.tree x ep hep, by simp [importsOf, hep]⟩

theorem depsOf_congr (s s' : St L) (x : ModPath) (hI : Inv L E s) (hI' : Inv L E s') (hx : x ∈ s.mods) (hx' : x ∈ s'.mods)
    (hm : s'.mainSrc = s.mainSrc) : depsOf L E s' x = depsOf L E s x := by
  obtain ⟨t, ht, hi⟩ := importsOf_src L E s x hI hx
  obtain ⟨t', ht', hi'⟩ := importsOf_src L E s' x hI' hx'
  have : srcOf L E s' x = srcOf L E s x := by unfold srcOf; rw [hm]
  rw [this, ht] at ht'
  cases ht'
  unfold depsOf
  rw [hi, hi']

/-- rolling back a module that was an exception makes the rest closed again -/
theorem closedEx_unload (s : St L) (p : ModPath) (Ex : List ModPath) (h : ClosedEx L E s (p :: Ex)) :
    ClosedEx L E (unload L E s p) Ex := by
  intro x hx hEx d hd
  have hsub := unload_sub L E s p
  have hxp : x ≠ p := fun e => unload_not_mem L E s p (e ▸ hx)
  have hd' : d ∈ depsOf L E s x := by
    unfold depsOf importsOf at hd ⊢
    rw [hsub.eps x hx] at hd
    exact hd
  have hds : d ∈ s.mods := h x (hsub.mods x hx) (by simp [hxp, hEx]) d hd'
  exact unload_dang L E s p x hx (by simp) d hd hds

/-- specification of a function that loads a list of modules -/
def RecSpec (rec : List ModPath → St L → Except Err Unit × St L) : Prop :=
  ∀ ps s, (∀ p, p ∈ ps → GoodName p) → Inv L E s → SrcOk L s.mainSrc →
    Inv L E (rec ps s).2 ∧ Global L s (rec ps s).2 ∧ (EpsSub L s → EpsSub L (rec ps s).2) ∧
    ((rec ps s).1 = .ok () → Frame L s (rec ps s).2 ∧ ∀ p, p ∈ ps → p ∈ (rec ps s).2.mods) ∧
    (∀ O, ClosedSet L E s O → ClosedSet L E (rec ps s).2 O ∧ FrameOn L O s (rec ps s).2) ∧
    (∀ Ex, ClosedEx L E s Ex → ClosedEx L E (rec ps s).2 Ex)

theorem imports_good (hN : Names L E) (s : St L) (p : ModPath) (ep : Ep Tree NV) (hI : Inv L E s) (hM : SrcOk L s.mainSrc)
    (hep : alookup s.eps p = some ep) : ∀ d, d ∈ L.imports ep.tree → GoodName d := by
  have ht := hI.tree p ep hep
  unfold srcOf at ht
  cases hd : E.disk p with
  | some src =>
    rw [hd] at ht
    exact hN.imports p src ep.tree hd (by simpa using ht)
  | none =>
    rw [hd] at ht
    simp only at ht
    split at ht
    · exact hM ep.tree (by simpa using ht)
    · simp at ht

/-- the facts about the rollback that the load lemma needs -/
theorem rollback_spec (s0 s3 : St L) (p : ModPath) (hI3 : Inv L E s3) (hG : Global L s0 s3) (hp0 : p ∉ s0.mods)
    (hE : EpsSub L s0 → EpsSub L s3)
    (hO : ∀ O, ClosedSet L E s0 O → ClosedSet L E s3 O ∧ FrameOn L O s0 s3)
    (hEx : ∀ Ex, ClosedEx L E s0 Ex → ClosedEx L E s3 (p :: Ex)) :
    Inv L E (unload L E s3 p) ∧ Global L s0 (unload L E s3 p) ∧ (EpsSub L s0 → EpsSub L (unload L E s3 p)) ∧
    (∀ O, ClosedSet L E s0 O → ClosedSet L E (unload L E s3 p) O ∧ FrameOn L O s0 (unload L E s3 p)) ∧
    (∀ Ex, ClosedEx L E s0 Ex → ClosedEx L E (unload L E s3 p) Ex) := by
  refine ⟨unload_inv L E s3 p hI3, hG.trans L (unload_sub L E s3 p).global, fun h => unload_epsSub L E s3 p (hE h), ?_, ?_⟩
  · intro O hC
    obtain ⟨hC3, hF3⟩ := hO O hC
    obtain ⟨a, b⟩ := unload_keeps L E O s3 p (fun h => hp0 (hC.mods p h)) hC3
    exact ⟨a, hF3.trans L b⟩
  · intro Ex hC
    exact closedEx_unload L E s3 p Ex (hEx Ex hC)

theorem loadOne_inv (hN : Names L E) (rec : List ModPath → St L → Except Err Unit × St L) (hrec : RecSpec L E rec)
    (p : ModPath) (s : St L) (hp : GoodName p) (hI : Inv L E s) (hM : SrcOk L s.mainSrc) :
    Inv L E (loadOne L E rec (unload L E) p s).2 ∧ Global L s (loadOne L E rec (unload L E) p s).2 ∧
    (EpsSub L s → EpsSub L (loadOne L E rec (unload L E) p s).2) ∧
    ((loadOne L E rec (unload L E) p s).1 = .ok () → Frame L s (loadOne L E rec (unload L E) p s).2 ∧ p ∈ (loadOne L E rec (unload L E) p s).2.mods) ∧
    (∀ O, ClosedSet L E s O → ClosedSet L E (loadOne L E rec (unload L E) p s).2 O ∧ FrameOn L O s (loadOne L E rec (unload L E) p s).2) ∧
    (∀ Ex, ClosedEx L E s Ex → ClosedEx L E (loadOne L E rec (unload L E) p s).2 Ex) := by
  unfold loadOne
  -- the libraries
  have h0 : Inv L E (if p ∈ s.mods then ((.ok () : Except Err Unit), s) else if p ∈ E.libs then (.ok (), s) else rec E.libs s).2 ∧
      Global L s (if p ∈ s.mods then ((.ok () : Except Err Unit), s) else if p ∈ E.libs then (.ok (), s) else rec E.libs s).2 ∧
      (EpsSub L s → EpsSub L (if p ∈ s.mods then ((.ok () : Except Err Unit), s) else if p ∈ E.libs then (.ok (), s) else rec E.libs s).2) ∧
      ((if p ∈ s.mods then ((.ok () : Except Err Unit), s) else if p ∈ E.libs then (.ok (), s) else rec E.libs s).1 = .ok () →
        Frame L s (if p ∈ s.mods then ((.ok () : Except Err Unit), s) else if p ∈ E.libs then (.ok (), s) else rec E.libs s).2 ∧
        (p ∉ E.libs → p ∉ s.mods → ∀ l, l ∈ E.libs → l ∈ (if p ∈ s.mods then ((.ok () : Except Err Unit), s) else if p ∈ E.libs then (.ok (), s) else rec E.libs s).2.mods)) ∧
      (∀ O, ClosedSet L E s O → ClosedSet L E (if p ∈ s.mods then ((.ok () : Except Err Unit), s) else if p ∈ E.libs then (.ok (), s) else rec E.libs s).2 O ∧
        FrameOn L O s (if p ∈ s.mods then ((.ok () : Except Err Unit), s) else if p ∈ E.libs then (.ok (), s) else rec E.libs s).2) ∧
      (∀ Ex, ClosedEx L E s Ex → ClosedEx L E (if p ∈ s.mods then ((.ok () : Except Err Unit), s) else if p ∈ E.libs then (.ok (), s) else rec E.libs s).2 Ex) := by
    have triv : Inv L E s ∧ Global L s s ∧ (EpsSub L s → EpsSub L s) ∧
        (∀ O, ClosedSet L E s O → ClosedSet L E s O ∧ FrameOn L O s s) ∧ (∀ Ex, ClosedEx L E s Ex → ClosedEx L E s Ex) :=
      ⟨hI, Global.refl L s, fun h => h, fun O h => ⟨h, FrameOn.refl L O s h.mods⟩, fun _ h => h⟩
    by_cases hm : p ∈ s.mods
    · simp only [hm, if_true]
      exact ⟨triv.1, triv.2.1, triv.2.2.1, fun _ => ⟨Frame.refl L s, fun _ h => absurd trivial h⟩, triv.2.2.2.1, triv.2.2.2.2⟩
    · simp only [hm, if_false]
      by_cases hl : p ∈ E.libs
      · simp only [hl, if_true]
        exact ⟨triv.1, triv.2.1, triv.2.2.1, fun _ => ⟨Frame.refl L s, fun h => absurd trivial h⟩, triv.2.2.2.1, triv.2.2.2.2⟩
      · simp only [hl, if_false]
        obtain ⟨a, b, c, d, e, f⟩ := hrec E.libs s hN.libs hI hM
        exact ⟨a, b, c, fun h => ⟨(d h).1, fun _ _ => (d h).2⟩, e, f⟩
  generalize (if p ∈ s.mods then ((.ok () : Except Err Unit), s) else if p ∈ E.libs then (.ok (), s) else rec E.libs s) = r0 at h0
  obtain ⟨r0r, s0⟩ := r0
  obtain ⟨hI0, hG0, hE0, hok0, hO0, hX0⟩ := h0
  simp only at hI0 hG0 hE0 hok0 hO0 hX0
  cases r0r with
  | error e => exact ⟨hI0, hG0, hE0, (fun h => by cases h), hO0, hX0⟩
  | ok u =>
    simp only
    obtain ⟨hF0, hlibs0⟩ := hok0 rfl
    have hM0 : SrcOk L s0.mainSrc := hG0.mainSrc ▸ hM
    by_cases hm0 : p ∈ s0.mods
    · simp only [hm0, if_true]
      exact ⟨hI0, hG0, hE0, fun _ => ⟨hF0, trivial⟩, hO0, hX0⟩
    · simp only [hm0, if_false]
      have hms : p ∉ s.mods := fun h => hm0 (hF0.mods p h)
      -- the entrypoint
      obtain ⟨hI1, hmods1, hdb1, hcompl1, hstored1, hmain1, hdeps1, hproc1, heps1, hepsSame, hepsOk, hepsErr⟩ := epLoad_spec L E s0 p hI0
      generalize epLoad L E s0 p = r1 at hI1 hmods1 hdb1 hcompl1 hstored1 hmain1 hdeps1 hproc1 heps1 hepsSame hepsOk hepsErr
      obtain ⟨r1r, s1⟩ := r1
      simp only at hI1 hmods1 hdb1 hcompl1 hstored1 hmain1 hdeps1 hproc1 heps1 hepsSame hepsOk hepsErr
      have hF01 : Frame L s0 s1 := by
        refine ⟨fun x hx => hmods1 ▸ hx, ?_, fun x _ => by rw [hdb1], fun x _ => by rw [hcompl1], fun q rows h => by rw [hstored1]; exact h, hmain1, hdeps1, hproc1⟩
        intro x hx
        by_cases hxp : x = p
        · subst hxp; rw [hepsSame (hI0.eps x hx)]
        · exact heps1 x hxp
      have hF1 : Frame L s s1 := hF0.trans L hF01
      have hdeps01 : ∀ x, x ≠ p → depsOf L E s1 x = depsOf L E s0 x := by
        intro x hx; unfold depsOf importsOf; rw [heps1 x hx]
      cases r1r with
      | error e =>
        refine ⟨hI1, hF1.global, ?_, (fun h => by cases h), ?_, ?_⟩
        · intro hE x hx
          rw [hepsErr e rfl] at hx
          rw [hmods1]; exact hE0 hE x hx
        · intro O hC
          obtain ⟨hC0, hFO0⟩ := hO0 O hC
          have := hF01.on L (O := O) hC0.mods
          exact ⟨hC0.transport L E this, hFO0.trans L this⟩
        · intro Ex hC x hx hxe d hd
          have h0c := hX0 Ex hC
          rw [hmods1] at hx ⊢
          have hxp : x ≠ p := fun e => hm0 (e ▸ hx)
          rw [hdeps01 x hxp] at hd
          exact h0c x hx hxe d hd
      | ok u1 =>
        simp only
        -- registration
        have hI2 : Inv L E { s1 with mods := addIfAbsent s1.mods p } := by
          refine ⟨hI1.memo, hI1.tree, hI1.ast, ?_, hI1.stored, ?_, ?_⟩
          · intro k v hkv; exact mem_addIfAbsent.2 (Or.inl (hI1.tags k v hkv))
          · intro x hx; exact mem_addIfAbsent.2 (Or.inl (hI1.completed x hx))
          · intro x hx
            rcases mem_addIfAbsent.1 hx with h | h
            · exact hI1.eps x h
            · exact h ▸ hepsOk rfl
        have hE2 : EpsSub L s → EpsSub L { s1 with mods := addIfAbsent s1.mods p } := by
          intro hE x hx
          simp only at hx ⊢
          by_cases hxp : x = p
          · exact mem_addIfAbsent.2 (Or.inr hxp)
          · refine mem_addIfAbsent.2 (Or.inl ?_)
            rw [hmods1]
            apply hE0 hE
            rw [ahas_iff] at hx ⊢
            rw [← heps1 x hxp]; exact hx
        have hF12 : Frame L s1 { s1 with mods := addIfAbsent s1.mods p } :=
          ⟨fun x hx => mem_addIfAbsent.2 (Or.inl hx), fun _ _ => rfl, fun _ _ => rfl, fun _ _ => Iff.rfl, fun _ _ h => h, rfl, rfl, rfl⟩
        have hF2 := hF1.trans L hF12
        have hF02 := hF01.trans L hF12
        have hp2 : p ∈ (addIfAbsent s1.mods p) := mem_addIfAbsent.2 (Or.inr rfl)
        have hM2 : SrcOk L ({ s1 with mods := addIfAbsent s1.mods p } : St L).mainSrc := by
          have := hF2.mainSrc; simp only at this ⊢; rw [this]; exact hM
        have hO2 : ∀ O, ClosedSet L E s O → ClosedSet L E ({ s1 with mods := addIfAbsent s1.mods p } : St L) O ∧
            FrameOn L O s ({ s1 with mods := addIfAbsent s1.mods p } : St L) := by
          intro O hC
          obtain ⟨hC0, hFO0⟩ := hO0 O hC
          have := hF02.on L (O := O) hC0.mods
          exact ⟨hC0.transport L E this, hFO0.trans L this⟩
        have hX2 : ∀ Ex, ClosedEx L E s Ex → ClosedEx L E ({ s1 with mods := addIfAbsent s1.mods p } : St L) (p :: Ex) := by
          intro Ex hC x hx hxe d hd
          simp only [List.mem_cons, not_or] at hxe
          simp only at hx ⊢
          rcases mem_addIfAbsent.1 hx with h | h
          · have hd' : d ∈ depsOf L E s0 x := by
              rw [← hdeps01 x hxe.1]; exact hd
            rw [hmods1] at h
            exact mem_addIfAbsent.2 (Or.inl (hmods1 ▸ hX0 Ex hC x h hxe.2 d hd'))
          · exact absurd h hxe.1
        obtain ⟨ep, hep⟩ := (ahas_iff _ _).1 (hepsOk rfl)
        simp only [hep]
        -- the imports
        obtain ⟨hI3, hG23, hE23, hok23, hO23, hX23⟩ := hrec (L.imports ep.tree) _ (imports_good L E hN _ p ep hI2 hM2 hep) hI2 hM2
        generalize rec (L.imports ep.tree) { s1 with mods := addIfAbsent s1.mods p } = r3 at hI3 hG23 hE23 hok23 hO23 hX23
        obtain ⟨r3r, s3⟩ := r3
        simp only at hI3 hG23 hE23 hok23 hO23 hX23
        have hG3 : Global L s s3 := hF2.global.trans L hG23
        have hO3 : ∀ O, ClosedSet L E s O → ClosedSet L E s3 O ∧ FrameOn L O s s3 := by
          intro O hC
          obtain ⟨hC2, hFO2⟩ := hO2 O hC
          obtain ⟨a, b⟩ := hO23 O hC2
          exact ⟨a, hFO2.trans L b⟩
        have hX3 : ∀ Ex, ClosedEx L E s Ex → ClosedEx L E s3 (p :: Ex) := fun Ex hC => hX23 _ (hX2 Ex hC)
        cases r3r with
        | error e =>
          obtain ⟨a, b, c, d, f⟩ := rollback_spec L E s s3 p hI3 hG3 hms (fun h => hE23 (hE2 h)) hO3 hX3
          exact ⟨a, b, c, (fun h => by cases h), d, f⟩
        | ok u3 =>
          simp only
          obtain ⟨hF23, himp3⟩ := hok23 rfl
          have hF3 := hF2.trans L hF23
          have hp3 : p ∈ s3.mods := hF23.mods p hp2
          obtain ⟨hI4, hT4⟩ := preprocess_spec L E s3 p hp hI3 hp3
          have hE4 : EpsSub L s → EpsSub L (preprocess L E s3 p).2 := by
            intro hE x hx
            rw [hT4.mods]
            by_cases hxp : x = p
            · exact hxp ▸ hp3
            · apply hE23 (hE2 hE)
              rw [ahas_iff] at hx ⊢
              rw [← hT4.eps x hxp]; exact hx
          have hO4 : ∀ O, ClosedSet L E s O → ClosedSet L E (preprocess L E s3 p).2 O ∧ FrameOn L O s (preprocess L E s3 p).2 := by
            intro O hC
            obtain ⟨hC3, hFO3⟩ := hO3 O hC
            have := hT4.on L (O := O) hC3.mods (fun h => hms (hC.mods p h))
            exact ⟨hC3.transport L E this, hFO3.trans L this⟩
          have hM3 : (preprocess L E s3 p).2.mainSrc = s3.mainSrc := hT4.mainSrc
          have hX4 : ∀ Ex, ClosedEx L E s Ex → ClosedEx L E (preprocess L E s3 p).2 (p :: Ex) := by
            intro Ex hC x hx hxe d hd
            rw [hT4.mods] at hx ⊢
            rw [depsOf_congr L E s3 _ x hI3 hI4 hx (hT4.mods ▸ hx) hM3] at hd
            exact hX3 Ex hC x hx hxe d hd
          have hG4 : Global L s (preprocess L E s3 p).2 := hG3.trans L hT4.global
          generalize preprocess L E s3 p = r4 at hI4 hT4 hE4 hO4 hX4 hG4 hM3
          obtain ⟨r4r, s4⟩ := r4
          simp only at hI4 hT4 hE4 hO4 hX4 hG4 hM3
          cases r4r with
          | error e =>
            obtain ⟨a, b, c, d, f⟩ := rollback_spec L E s s4 p hI4 hG4 hms hE4 hO4 hX4
            exact ⟨a, b, c, (fun h => by cases h), d, f⟩
          | ok u4 =>
            refine ⟨hI4, hG4, hE4, fun _ => ⟨Frame.of_touches L hF3 hT4 hms, hT4.mods ▸ hp3⟩, hO4, ?_⟩
            intro Ex hC x hx hxe d hd
            by_cases hxp : x = p
            · subst hxp
              rw [hT4.mods] at hx ⊢
              rw [depsOf_congr L E s3 s4 x hI3 hI4 hx (hT4.mods ▸ hx) hM3] at hd
              simp only [depsOf, List.mem_append] at hd
              rcases hd with hd | hd
              · apply himp3 d
                simp only [importsOf, hF23.eps x hp2] at hd
                simpa [hep] using hd
              · by_cases hl : x ∈ E.libs
                · simp [hl] at hd
                · simp only [hl, if_false] at hd
                  exact hF23.mods d (hF02.mods d (hlibs0 hl hms d hd))
            · exact hX4 Ex hC x hx (by simp [hxp, hxe]) d hd

theorem loadAll_inv (hN : Names L E) : ∀ f, RecSpec L E (loadAll L E f) := by
  intro f
  induction f with
  | zero =>
    intro ps s _ hI _
    have triv : Inv L E s ∧ Global L s s ∧ (EpsSub L s → EpsSub L s) ∧
        (∀ O, ClosedSet L E s O → ClosedSet L E s O ∧ FrameOn L O s s) ∧ (∀ Ex, ClosedEx L E s Ex → ClosedEx L E s Ex) :=
      ⟨hI, Global.refl L s, fun h => h, fun O h => ⟨h, FrameOn.refl L O s h.mods⟩, fun _ h => h⟩
    cases ps with
    | nil => exact ⟨triv.1, triv.2.1, triv.2.2.1, fun _ => ⟨Frame.refl L s, fun p hp => by cases hp⟩, triv.2.2.2.1, triv.2.2.2.2⟩
    | cons p ps => exact ⟨triv.1, triv.2.1, triv.2.2.1, (fun h => by cases h), triv.2.2.2.1, triv.2.2.2.2⟩
  | succ f ih =>
    intro ps s hps hI hM
    cases ps with
    | nil =>
      exact ⟨hI, Global.refl L s, fun h => h, fun _ => ⟨Frame.refl L s, fun p hp => by cases hp⟩,
        fun O h => ⟨h, FrameOn.refl L O s h.mods⟩, fun _ h => h⟩
    | cons p ps =>
      simp only [loadAll]
      obtain ⟨hI1, hG1, hE1, hok1, hO1, hX1⟩ := loadOne_inv L E hN (loadAll L E f) ih p s (hps p (by simp)) hI hM
      generalize loadOne L E (loadAll L E f) (unload L E) p s = r1 at hI1 hG1 hE1 hok1 hO1 hX1
      obtain ⟨r1r, s1⟩ := r1
      simp only at hI1 hG1 hE1 hok1 hO1 hX1
      cases r1r with
      | error e => exact ⟨hI1, hG1, hE1, (fun h => by cases h), hO1, hX1⟩
      | ok u =>
        simp only
        obtain ⟨hF1, hp1⟩ := hok1 rfl
        obtain ⟨hI2, hG2, hE2, hok2, hO2, hX2⟩ := ih ps s1 (fun q hq => hps q (List.mem_cons_of_mem _ hq)) hI1 (hG1.mainSrc ▸ hM)
        refine ⟨hI2, hG1.trans L hG2, fun h => hE2 (hE1 h), ?_, ?_, fun Ex h => hX2 Ex (hX1 Ex h)⟩
        · intro h
          obtain ⟨hF2, hps2⟩ := hok2 h
          refine ⟨hF1.trans L hF2, ?_⟩
          intro q hq
          rcases List.mem_cons.1 hq with e | e
          · subst e; exact hF2.mods _ hp1
          · exact hps2 q e
        · intro O hC
          obtain ⟨a, b⟩ := hO1 O hC
          obtain ⟨a', b'⟩ := hO2 O a
          exact ⟨a', b.trans L b'⟩

/-! ## the operations -/

/-- well-formed operation: module names are dotted paths -/
def Op.wf : Op Src → Prop
  | .load m => GoodName m
  | .transpile m => GoodName m
  | .unload _ => True
  | .resubmit src => SrcOk L src

/-- the coherence invariant of a state between two operations -/
def Coherent (s : St L) : Prop := Inv L E s ∧ EpsSub L s ∧ SrcOk L s.mainSrc ∧ ClosedEx L E s []

theorem unloadF_setMain (src : Src) : ∀ f (s : St L) m,
    unloadF L E f { s with mainSrc := src } m = { unloadF L E f s m with mainSrc := src } := by
  intro f
  induction f with
  | zero => intro s m; rfl
  | succ f ih =>
    intro s m
    simp only [unloadF]
    by_cases hm : m ∈ s.mods
    · simp only [hm, if_true]
      have fold : ∀ (D : List ModPath) (s' : St L),
          D.foldl (fun s d => unloadF L E f s d) { s' with mainSrc := src } = { D.foldl (fun s d => unloadF L E f s d) s' with mainSrc := src } := by
        intro D
        induction D with
        | nil => intro s'; rfl
        | cons d rest ihD => intro s'; simp only [List.foldl]; rw [ih s' d]; exact ihD _
      have h1 : unloadOne L ({ s with mainSrc := src } : St L) m = { unloadOne L s m with mainSrc := src } := rfl
      have h2 : dependents L E (unloadOne L ({ s with mainSrc := src } : St L) m) m = dependents L E (unloadOne L s m) m := rfl
      rw [h2, h1]
      exact fold _ _
    · simp only [hm, if_false]

theorem unload_setMain (src : Src) (s : St L) (m : ModPath) :
    unload L E { s with mainSrc := src } m = { unload L E s m with mainSrc := src } :=
  unloadF_setMain L E src _ s m

theorem setMain_coherent (s : St L) (src : Src) (hC : Coherent L E s) (hsrc : SrcOk L src) (hmain : E.main ∉ s.mods) :
    Coherent L E { s with mainSrc := src } := by
  obtain ⟨hI, hE, _, hX⟩ := hC
  refine ⟨⟨hI.memo, ?_, hI.ast, hI.tags, hI.stored, hI.completed, hI.eps⟩, hE, hsrc, hX⟩
  intro x ep hx
  have hne : x ≠ E.main := by
    intro e
    exact hmain (e ▸ hE x ((ahas_iff _ _).2 ⟨ep, hx⟩))
  have key : srcOf L E ({ s with mainSrc := src } : St L) x = srcOf L E s x := by
    unfold srcOf; cases E.disk x <;> simp [hne]
  rw [key]
  exact hI.tree x ep hx

theorem unload_coherent (s : St L) (m : ModPath) (hC : Coherent L E s) : Coherent L E (unload L E s m) := by
  obtain ⟨hI, hE, hM, hX⟩ := hC
  refine ⟨unload_inv L E s m hI, unload_epsSub L E s m hE, ?_, ?_⟩
  · rw [(unload_sub L E s m).mainSrc]; exact hM
  · apply closedEx_unload
    intro x hx _ d hd
    exact hX x hx (by simp) d hd

theorem touch_inv (s : St L) (m : ModPath) (ep : Ep Tree NV) (hC : Coherent L E s) (hep : alookup s.eps m = some ep)
    (d : List (List Str)) (pr : List (List Text)) :
    Coherent L E { s with eps := aset s.eps m (Ep.touch L ep), deps := d, proc := pr } := by
  obtain ⟨hI, hE, hM, hX⟩ := hC
  have hm : m ∈ s.mods := hE m ((ahas_iff _ _).2 ⟨ep, hep⟩)
  obtain ⟨hI1, _⟩ := step_expand L E s m ep [] hI hm hep (fun _ h => by cases h)
  refine ⟨⟨hI1.memo, hI1.tree, hI1.ast, hI1.tags, hI1.stored, hI1.completed, hI1.eps⟩, ?_, hM, ?_⟩
  · intro x hx
    rw [ahas_iff] at hx
    simp only [alookup_aset] at hx
    split at hx
    · next e => exact e ▸ hm
    · exact hE x ((ahas_iff _ _).2 hx)
  · intro x hx hxe dd hd
    apply hX x hx hxe dd
    have himp : importsOf L ({ s with eps := aset s.eps m (Ep.touch L ep), deps := d, proc := pr } : St L) x = importsOf L s x := by
      unfold importsOf
      simp only [alookup_aset]
      by_cases e : m = x
      · subst e; simp [hep, Ep.touch]
      · simp [e]
    unfold depsOf at hd ⊢
    rw [himp] at hd
    exact hd

theorem load_coherent (hN : Names L E) (f : Nat) (s : St L) (m : ModPath) (hm : GoodName m) (hC : Coherent L E s) :
    Coherent L E (loadAll L E f [m] s).2 := by
  obtain ⟨hI1, hG1, hE1, _, _, hX1⟩ := loadAll_inv L E hN f [m] s (by intro p hp; simp at hp; exact hp ▸ hm) hC.1 hC.2.2.1
  exact ⟨hI1, hE1 hC.2.1, hG1.mainSrc ▸ hC.2.2.1, hX1 [] hC.2.2.2⟩

theorem transpile_coherent (hN : Names L E) (f : Nat) (s : St L) (m : ModPath) (hm : GoodName m) (hC : Coherent L E s) :
    Coherent L E (transpile L E f s m).2 := by
  unfold transpile
  have hC1 := load_coherent L E hN f s m hm hC
  generalize loadAll L E f [m] s = r at hC1
  obtain ⟨rr, s1⟩ := r
  simp only at hC1
  cases rr with
  | error e => exact hC1
  | ok u =>
    simp only
    cases hep : alookup s1.eps m with
    | none => exact hC1
    | some ep =>
      simp only
      cases (L.render m (Ep.nf L ep) (alookup s1.db)).1 with
      | ok t => exact touch_inv L E s1 m ep hC1 hep s1.deps s1.proc
      | error e => exact touch_inv L E s1 m ep hC1 hep _ _

theorem init_coherent (src : Src) (hsrc : SrcOk L src) : Coherent L E ({ mainSrc := src } : St L) := by
  refine ⟨⟨?_, ?_, ?_, ?_, ?_, ?_, ?_⟩, ?_, hsrc, ?_⟩ <;> intro x <;> simp [alookup, ahas]

theorem resubmit_unload_coherent (s : St L) (src : Src) (hC : Coherent L E s) (hsrc : SrcOk L src) :
    Coherent L E (unload L E { s with mainSrc := src } E.main) := by
  rw [unload_setMain]
  exact setMain_coherent L E _ src (unload_coherent L E s E.main hC) hsrc (unload_not_mem L E s E.main)

theorem step_coherent (hN : Names L E) (f : Nat) (s : St L) (op : Op Src) (hop : Op.wf L op) (hC : Coherent L E s) :
    Coherent L E (step L E f s op).2 := by
  cases op with
  | load m =>
    simp only [step]
    have := load_coherent L E hN f s m hop hC
    generalize loadAll L E f [m] s = r at this
    obtain ⟨rr, s1⟩ := r
    cases rr <;> exact this
  | transpile m =>
    simp only [step]
    have := transpile_coherent L E hN f s m hop hC
    generalize transpile L E f s m = r at this
    obtain ⟨rr, s1⟩ := r
    cases rr <;> exact this
  | unload m =>
    simp only [step]
    exact unload_coherent L E s m hC
  | resubmit src =>
    simp only [step, resubmit]
    have := transpile_coherent L E hN f _ E.main hN.main (resubmit_unload_coherent L E s src hC hop)
    generalize transpile L E f (unload L E { s with mainSrc := src } E.main) E.main = r at this
    obtain ⟨rr, s1⟩ := r
    cases rr <;> exact this

end Machine

/-! ## descriptor worlds -/

/-- a pool of module descriptors as an environment -/
def poolEnv (pool : List (ModPath × Desc)) (libs : List ModPath) (main : ModPath) : Env Desc :=
  { disk := fun p => alookup pool p, libs := libs, main := main }

def descImportsOk (d : Desc) : Prop := ∀ mn, mn ∈ d.imports → GoodName mn.1

instance (m : ModPath) : Decidable (GoodName m) := by unfold GoodName; exact inferInstance
instance (d : Desc) : Decidable (descImportsOk d) := by unfold descImportsOk; exact inferInstance

theorem descSrcOk (d : Desc) (h : descImportsOk d) : SrcOk descLang d := by
  intro t ht x hx
  simp only [descLang] at ht hx
  split at ht
  · cases ht
    simp only [List.mem_map] at hx
    obtain ⟨mn, hmn, e⟩ := hx
    exact e ▸ h mn hmn
  · cases ht

theorem poolNames (pool : List (ModPath × Desc)) (libs : List ModPath) (main : ModPath)
    (hpool : ∀ kv, kv ∈ pool → descImportsOk kv.2) (hlibs : ∀ x, x ∈ libs → GoodName x) (hmain : GoodName main) :
    Names descLang (poolEnv pool libs main) where
  libs := hlibs
  main := hmain
  imports x src t hx ht := descSrcOk src (hpool (x, src) (alookup_mem hx)) t ht

section FailedLoad
variable {Src Tree NV V Text : Type} (L : Lang Src Tree NV V Text) (E : Env Src)

theorem parseModule_mods (s : St L) (p : ModPath) : (parseModule L E s p).2.mods = s.mods := by
  unfold parseModule
  cases E.disk p with
  | none =>
    simp only
    split
    · cases L.parse s.mainSrc <;> rfl
    · rfl
  | some src =>
    simp only
    cases alookup s.ast p with
    | some t => rfl
    | none => simp only; cases L.parse src <;> rfl

theorem epLoad_mods (s : St L) (p : ModPath) : (epLoad L E s p).2.mods = s.mods := by
  unfold epLoad
  split
  · rfl
  · have h := parseModule_mods L E s p
    generalize parseModule L E s p = r at h
    obtain ⟨rr, s1⟩ := r
    cases rr <;> exact h

/-- `Modules.load` (modules.py:73-91): whatever the failure is — a tranp error or any other exception (normalised to Fatal) —
    every failing path after the registration of `p` runs the rollback `unload p`; before the registration `p` is not touched -/
theorem loadOne_failed_unregistered (rec : List ModPath → St L → Except Err Unit × St L) (p : ModPath) (s s' : St L) (e : Err)
    (h : loadOne L E rec (unload L E) p s = (.error e, s')) (hp : p ∉ s.mods)
    (hlib : p ∈ E.libs ∨ p ∉ (rec E.libs s).2.mods) : p ∉ s'.mods := by
  unfold loadOne at h
  simp only [hp, if_false] at h
  -- the state after the library phase
  have key : ∀ s0 : St L, p ∉ s0.mods →
      (if p ∈ s0.mods then ((.ok (), s0) : Except Err Unit × St L) else
        match epLoad L E s0 p with
        | (.error e, s1) => (.error e, s1)
        | (.ok _, s1) =>
          match alookup ({ s1 with mods := addIfAbsent s1.mods p } : St L).eps p with
          | none => (.error .other, unload L E { s1 with mods := addIfAbsent s1.mods p } p)
          | some ep =>
            match rec (L.imports ep.tree) { s1 with mods := addIfAbsent s1.mods p } with
            | (.error e, s3) => (.error e, unload L E s3 p)
            | (.ok _, s3) =>
              match preprocess L E s3 p with
              | (.error e, s4) => (.error e, unload L E s4 p)
              | (.ok _, s4) => (.ok (), s4)) = (.error e, s') → p ∉ s'.mods := by
    intro s0 h0 hh
    simp only [h0, if_false] at hh
    have hm := epLoad_mods L E s0 p
    generalize epLoad L E s0 p = r at hh hm
    obtain ⟨rr, s1⟩ := r
    cases rr with
    | error e1 =>
      simp only [Prod.mk.injEq] at hh
      rw [← hh.2]; simp only at hm; rw [hm]; exact h0
    | ok u =>
      simp only at hh
      split at hh
      · simp only [Prod.mk.injEq] at hh; rw [← hh.2]; exact unload_not_mem L E _ p
      · generalize rec _ _ = r3 at hh
        obtain ⟨rr3, s3⟩ := r3
        cases rr3 with
        | error e3 => simp only [Prod.mk.injEq] at hh; rw [← hh.2]; exact unload_not_mem L E _ p
        | ok u3 =>
          simp only at hh
          generalize preprocess L E s3 p = r4 at hh
          obtain ⟨rr4, s4⟩ := r4
          cases rr4 with
          | error e4 => simp only [Prod.mk.injEq] at hh; rw [← hh.2]; exact unload_not_mem L E _ p
          | ok u4 => simp at hh
  by_cases hl : p ∈ E.libs
  · simp only [hl, if_true] at h
    exact key s hp h
  · simp only [hl, if_false] at h
    have hlib' : p ∉ (rec E.libs s).2.mods := hlib.resolve_left hl
    generalize rec E.libs s = r0 at h hlib'
    obtain ⟨rr0, s0⟩ := r0
    cases rr0 with
    | error e0 => simp only [Prod.mk.injEq] at h; rw [← h.2]; exact hlib'
    | ok u0 => exact key s0 hlib' h

end FailedLoad

/-! ## the inventory of real session state (Generated/SessionState.lean) against the model state -/

section Inventory
open Tranp.Generated.SessionState
variable {Src Tree NV V Text : Type} (L : Lang Src Tree NV V Text)

/-- the components in which `Modules.unload m` leaves nothing of `m` / which it does not touch -/
def clearedFields : List Field := [.mods, .eps, .db, .completed, .ident]
def keptFields : List Field := [.mainSrc, .ast, .stored, .deps, .proc]

/-- nothing of `m` is left in component `f` -/
def ClearedAt (f : Field) (s : St L) (m : ModPath) : Prop :=
  match f with
  | .mods => m ∉ s.mods
  | .eps => alookup s.eps m = none
  | .db => ∀ kv, kv ∈ s.db → modOf kv.1 ≠ m
  | .completed => m ∉ s.completed
  | .ident => m ∉ s.ident
  | _ => False

/-- component `f` is the same in both states -/
def KeptAt (f : Field) (s s' : St L) : Prop :=
  match f with
  | .mainSrc => s'.mainSrc = s.mainSrc
  | .ast => s'.ast = s.ast
  | .stored => s'.stored = s.stored
  | .deps => s'.deps = s.deps
  | .proc => s'.proc = s.proc
  | _ => False

def verdictField : Verdict → Option Field
  | .reset f | .owned f | .content f | .stack f => some f
  | _ => none

/-- the audited verdict of a site names a component with the matching behaviour under `unload` -/
def siteFits (x : Site) : Bool :=
  match x.verdict with
  | .reset f | .owned f => decide (f ∈ clearedFields)
  | .content f | .stack f => decide (f ∈ keptFields)
  | _ => true

def isReset : Verdict → Bool
  | .reset _ => true
  | _ => false

def initName : List Char := ['_', '_', 'i', 'n', 'i', 't', '_', '_']
def unloadNames : List (List Char) := [['u', 'n', 'l', 'o', 'a', 'd'], ['c', 'l', 'e', 'a', 'r']]

end Inventory

end Tranp.Session
