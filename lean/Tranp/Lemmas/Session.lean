/-
  Helper lemmas for property C04 (session model).
-/
import Tranp.Model.Session

namespace Tranp.Session
open Tranp

/-! ## strings: `ModuleDSN.parsed` undoes `ModuleDSN.full_joined` -/

theorem splitOn_ne_nil (d : Char) (s : Str) : Str.splitOn d s ≠ [] := by
  induction s with
  | nil => simp [Str.splitOn]
  | cons c cs ih =>
    simp only [Str.splitOn]
    split
    · simp
    · split <;> simp

/-- the text before the first `#` of `m ++ "#" ++ l` is `m` when `m` contains no `#` -/
theorem modOf_append_hash (m l : Str) (h : '#' ∉ m) : modOf (m ++ '#' :: l) = m := by
  induction m with
  | nil => simp [modOf, Str.splitOn]
  | cons c cs ih =>
    have hc : c ≠ '#' := by intro e; apply h; simp [e]
    have hcs : '#' ∉ cs := by intro e; apply h; simp [e]
    have ih' := ih hcs
    simp only [modOf, List.cons_append, Str.splitOn, hc, if_false] at ih' ⊢
    cases hsp : Str.splitOn '#' (cs ++ '#' :: l) with
    | nil => exact absurd hsp (splitOn_ne_nil _ _)
    | cons p ps => simp [hsp] at ih' ⊢; exact ih'

theorem modOf_noHash (m : Str) (h : '#' ∉ m) : modOf m = m := by
  induction m with
  | nil => simp [modOf, Str.splitOn]
  | cons c cs ih =>
    have hc : c ≠ '#' := by intro e; apply h; simp [e]
    have hcs : '#' ∉ cs := by intro e; apply h; simp [e]
    have ih' := ih hcs
    simp only [modOf, Str.splitOn, hc, if_false] at ih' ⊢
    cases hsp : Str.splitOn '#' cs with
    | nil => exact absurd hsp (splitOn_ne_nil _ _)
    | cons p ps => simp [hsp] at ih' ⊢; exact ih'

/-- a well-formed module name: non-empty, no `#` -/
def GoodName (m : ModPath) : Prop := m ≠ [] ∧ '#' ∉ m

theorem fullJoined_eq (m l : Str) (h : GoodName m) :
    fullJoined m l = if l = [] then m else m ++ '#' :: l := by
  obtain ⟨hne, hh⟩ := h
  unfold fullJoined dsnJoin
  simp only [hh, if_false]
  by_cases hl : l = []
  · subst hl; simp [Str.join, hne]
  · simp [Str.join, hne, hl]

/-- every key `full_joined(m, l)` is tagged with exactly `m` by `ModuleDSN.parsed` -/
theorem modOf_fullJoined (m l : Str) (h : GoodName m) : modOf (fullJoined m l) = m := by
  rw [fullJoined_eq m l h]
  split
  · exact modOf_noHash m h.2
  · exact modOf_append_hash m l h.2

/-! ## association lists -/

section Assoc
variable {K V : Type} [DecidableEq K]

theorem alookup_append (d : List (K × V)) (k : K) (v : V) (x : K) :
    alookup (d ++ [(k, v)]) x = match alookup d x with | some w => some w | none => if k = x then some v else none := by
  induction d with
  | nil => simp [alookup]
  | cons kv rest ih =>
    obtain ⟨k', v'⟩ := kv
    simp only [List.cons_append, alookup]
    split
    · rfl
    · exact ih

theorem alookup_aset (d : List (K × V)) (k : K) (v : V) (x : K) :
    alookup (aset d k v) x = if k = x then some v else alookup d x := by
  induction d with
  | nil => simp [aset, alookup]
  | cons kv rest ih =>
    obtain ⟨k', v'⟩ := kv
    simp only [aset]
    by_cases h : k' = k
    · subst h; simp only [if_true, alookup]; split <;> rfl
    · simp only [h, if_false, alookup]
      by_cases h2 : k' = x
      · subst h2
        have : ¬ k = k' := fun e => h e.symm
        simp [this]
      · simp [h2, ih]

theorem alookup_aerase (d : List (K × V)) (k x : K) :
    alookup (aerase d k) x = if x = k then none else alookup d x := by
  induction d with
  | nil => simp [aerase, alookup]
  | cons kv rest ih =>
    obtain ⟨k', v'⟩ := kv
    unfold aerase at ih ⊢
    by_cases h : k' = k
    · subst h
      simp only [List.filter, ne_eq, not_true_eq_false, decide_false]
      rw [ih]
      by_cases h2 : x = k'
      · simp [h2]
      · have : ¬ k' = x := fun e => h2 e.symm
        simp [h2, alookup, this]
    · simp only [List.filter, ne_eq, h, not_false_eq_true, decide_true, alookup]
      rw [ih]
      by_cases h2 : k' = x
      · subst h2; simp [h]
      · simp [h2]

theorem alookup_mem {d : List (K × V)} {k : K} {v : V} (h : alookup d k = some v) : (k, v) ∈ d := by
  induction d with
  | nil => simp [alookup] at h
  | cons kv rest ih =>
    obtain ⟨k', v'⟩ := kv
    simp only [alookup] at h
    split at h
    · next e => cases h; subst e; simp
    · exact List.mem_cons_of_mem _ (ih h)

theorem mem_aadd {d : List (K × V)} {k : K} {v : V} {kv : K × V} (h : kv ∈ aadd d k v) : kv ∈ d ∨ kv = (k, v) := by
  unfold aadd at h
  split at h
  · exact Or.inl h
  · simpa using h

theorem mem_aaddAll {rows d : List (K × V)} {kv : K × V} (h : kv ∈ aaddAll d rows) : kv ∈ d ∨ kv ∈ rows := by
  induction rows generalizing d with
  | nil => exact Or.inl h
  | cons r rest ih =>
    simp only [aaddAll, List.foldl] at h
    rcases ih h with h1 | h1
    · rcases mem_aadd h1 with h2 | h2
      · exact Or.inl h2
      · right; rw [h2]; simp
    · exact Or.inr (List.mem_cons_of_mem _ h1)

theorem mem_addIfAbsent {xs : List K} {x y : K} : y ∈ addIfAbsent xs x ↔ y ∈ xs ∨ y = x := by
  unfold addIfAbsent
  split
  · next h => constructor
              · exact Or.inl
              · rintro (h1 | h1); exact h1; exact h1 ▸ h
  · simp

end Assoc

/-! ## tables -/

section Tables
variable {V : Type}

theorem mem_tableOf {db : List (Key × V)} {m : ModPath} {kv : Key × V} : kv ∈ tableOf db m ↔ kv ∈ db ∧ modOf kv.1 = m := by
  simp [tableOf]

theorem tableOf_aadd_other (db : List (Key × V)) (k : Key) (v : V) (x : ModPath) (h : modOf k ≠ x) :
    tableOf (aadd db k v) x = tableOf db x := by
  unfold aadd
  split
  · rfl
  · simp [tableOf, List.filter_append, h]

theorem tableOf_aaddAll_other (rows db : List (Key × V)) (p x : ModPath) (hrows : ∀ kv, kv ∈ rows → modOf kv.1 = p) (hx : x ≠ p) :
    tableOf (aaddAll db rows) x = tableOf db x := by
  induction rows generalizing db with
  | nil => rfl
  | cons r rest ih =>
    simp only [aaddAll, List.foldl]
    have h1 := ih (aadd db r.1 r.2) (fun kv hkv => hrows kv (List.mem_cons_of_mem _ hkv))
    simp only [aaddAll] at h1
    rw [h1]
    apply tableOf_aadd_other
    rw [hrows r (by simp)]
    exact fun e => hx e.symm

theorem tableOf_map_other (db : List (Key × V)) (f : V → V) (p x : ModPath) (hx : x ≠ p) :
    tableOf (db.map (fun kv => if modOf kv.1 = p then (kv.1, f kv.2) else kv)) x = tableOf db x := by
  induction db with
  | nil => rfl
  | cons kv rest ih =>
    unfold tableOf at ih ⊢
    rw [List.map_cons, List.filter_cons, List.filter_cons, ih]
    by_cases h : modOf kv.1 = p
    · have h2 : ¬ p = x := fun e => hx e.symm
      simp [h, h2]
    · simp [h]

theorem mem_map_key {db : List (Key × V)} {f : V → V} {p : ModPath} {k : Key} {v : V}
    (h : (k, v) ∈ db.map (fun kv => if modOf kv.1 = p then (kv.1, f kv.2) else kv)) : ∃ v', (k, v') ∈ db := by
  simp only [List.mem_map] at h
  obtain ⟨kv, hkv, he⟩ := h
  split at he
  · cases he; exact ⟨kv.2, hkv⟩
  · subst he; exact ⟨_, hkv⟩

theorem mem_foldl_addIfAbsent {A : Type} (g : A → ModPath) (rows : List A) (c : List ModPath) (y : ModPath) :
    y ∈ rows.foldl (fun c kv => addIfAbsent c (g kv)) c ↔ y ∈ c ∨ ∃ kv, kv ∈ rows ∧ y = g kv := by
  induction rows generalizing c with
  | nil => simp
  | cons r rest ih =>
    simp only [List.foldl]
    rw [ih, mem_addIfAbsent]
    constructor
    · rintro ((h | h) | ⟨kv, hkv, h⟩)
      · exact Or.inl h
      · exact Or.inr ⟨r, by simp, h⟩
      · exact Or.inr ⟨kv, List.mem_cons_of_mem _ hkv, h⟩
    · rintro (h | ⟨kv, hkv, h⟩)
      · exact Or.inl (Or.inl h)
      · rcases List.mem_cons.mp hkv with e | e
        · subst e; exact Or.inl (Or.inr h)
        · exact Or.inr ⟨kv, e, h⟩

end Tables

/-! ## invariants of the session machine -/

section Machine
variable {Src Tree NV V Text : Type} (L : Lang Src Tree NV V Text) (E : Env Src)

/-- the source text the process sees for module `x` in state `s` (lark/parser.py:84-89) -/
def srcOf (s : St L) (x : ModPath) : Option Src :=
  match E.disk x with
  | some src => some src
  | none => if x = E.main then some s.mainSrc else none

/-- hypotheses on module names: no `#`, not empty (true of every dotted Python module path) -/
structure Names : Prop where
  libs : ∀ x, x ∈ E.libs → GoodName x
  imports : ∀ x src t, E.disk x = some src → L.parse src = some t → ∀ d, d ∈ L.imports t → GoodName d
  main : GoodName E.main

/-- a source for the in-memory module imports well-formed names only -/
def SrcOk (src : Src) : Prop := ∀ t, L.parse src = some t → ∀ d, d ∈ L.imports t → GoodName d

/-- Coherence of the caches with the sources (unconditional part). -/
structure Inv (s : St L) : Prop where
  /-- every memo entry is the value of the pure node function on the tree of its entrypoint -/
  memo : ∀ x ep, alookup s.eps x = some ep → ∀ q v, (q, v) ∈ ep.memo → v = L.query ep.tree q
  /-- every entrypoint holds the tree of the current source of its module -/
  tree : ∀ x ep, alookup s.eps x = some ep → (srcOf L E s x).bind L.parse = some ep.tree
  /-- the in-process AST cache holds the trees of the files -/
  ast : ∀ x t, alookup s.ast x = some t → (E.disk x).bind L.parse = some t
  /-- the symbol table holds keys of registered modules only -/
  tags : ∀ k v, (k, v) ∈ s.db → modOf k ∈ s.mods
  /-- a symbol file holds keys of its own module only -/
  stored : ∀ p rows, alookup s.stored p = some rows → ∀ k v, (k, v) ∈ rows → modOf k = p
  completed : ∀ x, x ∈ s.completed → x ∈ s.mods
  eps : ∀ x, x ∈ s.mods → ahas s.eps x = true

/-- what `load` of other modules must not change for the already registered modules -/
structure Frame (s s' : St L) : Prop where
  mods : ∀ x, x ∈ s.mods → x ∈ s'.mods
  eps : ∀ x, x ∈ s.mods → alookup s'.eps x = alookup s.eps x
  table : ∀ x, x ∈ s.mods → tableOf s'.db x = tableOf s.db x
  completed : ∀ x, x ∈ s.mods → (x ∈ s'.completed ↔ x ∈ s.completed)
  stored : ∀ p rows, alookup s.stored p = some rows → alookup s'.stored p = some rows
  mainSrc : s'.mainSrc = s.mainSrc
  deps : s'.deps = s.deps
  proc : s'.proc = s.proc

theorem Frame.refl (s : St L) : Frame L s s :=
  ⟨fun _ h => h, fun _ _ => rfl, fun _ _ => rfl, fun _ _ => Iff.rfl, fun _ _ h => h, rfl, rfl, rfl⟩

theorem Frame.trans {s s' s'' : St L} (h1 : Frame L s s') (h2 : Frame L s' s'') : Frame L s s'' where
  mods x hx := h2.mods x (h1.mods x hx)
  eps x hx := (h2.eps x (h1.mods x hx)).trans (h1.eps x hx)
  table x hx := (h2.table x (h1.mods x hx)).trans (h1.table x hx)
  completed x hx := (h2.completed x (h1.mods x hx)).trans (h1.completed x hx)
  stored p rows h := h2.stored p rows (h1.stored p rows h)
  mainSrc := h2.mainSrc.trans h1.mainSrc
  deps := h2.deps.trans h1.deps
  proc := h2.proc.trans h1.proc

/-! ## the primitives preserve the invariant -/

theorem nf_eq (ep : Ep Tree NV) (h : ∀ q v, (q, v) ∈ ep.memo → v = L.query ep.tree q) : Ep.nf L ep = L.query ep.tree := by
  funext q
  unfold Ep.nf
  cases hq : alookup ep.memo q with
  | none => rfl
  | some v => simp [h q v (alookup_mem hq)]

theorem touch_memo (ep : Ep Tree NV) (h : ∀ q v, (q, v) ∈ ep.memo → v = L.query ep.tree q) :
    ∀ q v, (q, v) ∈ (Ep.touch L ep).memo → v = L.query (Ep.touch L ep).tree q := by
  intro q v hm
  simp only [Ep.touch, List.mem_append, List.mem_map] at hm
  rcases hm with hm | ⟨q', _, he⟩
  · exact h q v hm
  · cases he
    rw [nf_eq L ep h]
    rfl

/-- states that differ from `s` only in the AST cache -/
theorem parseModule_spec (s : St L) (p : ModPath) (hast : ∀ x t, alookup s.ast x = some t → (E.disk x).bind L.parse = some t) :
    ∃ a, (parseModule L E s p).2 = { s with ast := a } ∧
      (∀ x t, alookup a x = some t → (E.disk x).bind L.parse = some t) ∧
      (∀ t, (parseModule L E s p).1 = .ok t → (srcOf L E s p).bind L.parse = some t) := by
  unfold parseModule srcOf
  cases hd : E.disk p with
  | none =>
    simp only
    by_cases hm : p = E.main
    · simp only [hm, if_true]
      cases hp : L.parse s.mainSrc with
      | none => exact ⟨s.ast, rfl, hast, by simp⟩
      | some t => exact ⟨s.ast, rfl, hast, by intro t' h; cases h; simp [hp]⟩
    · simp only [hm, if_false]
      exact ⟨s.ast, rfl, hast, by simp⟩
  | some src =>
    simp only
    cases ha : alookup s.ast p with
    | some t =>
      refine ⟨s.ast, rfl, hast, ?_⟩
      intro t' h; cases h
      have := hast p t ha
      simpa [hd] using this
    | none =>
      simp only
      cases hp : L.parse src with
      | none => exact ⟨s.ast, rfl, hast, by simp⟩
      | some t =>
        refine ⟨s.ast ++ [(p, t)], rfl, ?_, ?_⟩
        · intro x t' hx
          rw [alookup_append] at hx
          cases hx' : alookup s.ast x with
          | some w => rw [hx'] at hx; cases hx; exact hast x _ hx'
          | none =>
            rw [hx'] at hx
            simp only at hx
            split at hx
            · next e => cases hx; subst e; simp [hd, hp]
            · cases hx
        · intro t' h; cases h; simp [hp]

theorem ahas_iff {K W : Type} [DecidableEq K] (d : List (K × W)) (k : K) : ahas d k = true ↔ ∃ v, alookup d k = some v := by
  unfold ahas
  cases alookup d k <;> simp

theorem epLoad_spec (s : St L) (p : ModPath) (hI : Inv L E s) :
    Inv L E (epLoad L E s p).2 ∧
    (epLoad L E s p).2.mods = s.mods ∧ (epLoad L E s p).2.db = s.db ∧ (epLoad L E s p).2.completed = s.completed ∧
    (epLoad L E s p).2.stored = s.stored ∧ (epLoad L E s p).2.mainSrc = s.mainSrc ∧
    (epLoad L E s p).2.deps = s.deps ∧ (epLoad L E s p).2.proc = s.proc ∧
    (∀ x, x ≠ p → alookup (epLoad L E s p).2.eps x = alookup s.eps x) ∧
    (ahas s.eps p = true → (epLoad L E s p).2.eps = s.eps) ∧
    ((epLoad L E s p).1 = .ok () → ahas (epLoad L E s p).2.eps p = true) ∧
    (∀ e, (epLoad L E s p).1 = .error e → (epLoad L E s p).2.eps = s.eps) := by
  unfold epLoad
  by_cases hh : ahas s.eps p = true
  · simp only [hh, if_true]
    refine ⟨hI, ?_⟩
    simp
  · simp only [hh]
    obtain ⟨a, hs1, hast, hok⟩ := parseModule_spec L E s p hI.ast
    generalize parseModule L E s p = pm at hs1 hok
    obtain ⟨r, s1⟩ := pm
    simp only at hs1 hok
    subst hs1
    have hnone : alookup s.eps p = none := by
      cases h : alookup s.eps p with
      | none => rfl
      | some v => exact absurd ((ahas_iff _ _).2 ⟨v, h⟩) hh
    cases r with
    | error e =>
      simp only [if_false, Bool.false_eq_true]
      refine ⟨⟨hI.memo, hI.tree, hast, hI.tags, hI.stored, hI.completed, hI.eps⟩, ?_⟩
      simp [hh]
    | ok t =>
      simp only [if_false, Bool.false_eq_true]
      have hlk : ∀ x, alookup (s.eps ++ [(p, (⟨t, []⟩ : Ep Tree NV))]) x = if x = p then some ⟨t, []⟩ else alookup s.eps x := by
        intro x
        rw [alookup_append]
        by_cases hx : x = p
        · subst hx; simp [hnone]
        · have : ¬ p = x := fun e => hx e.symm
          cases alookup s.eps x <;> simp [hx, this]
      refine ⟨⟨?_, ?_, hast, hI.tags, hI.stored, hI.completed, ?_⟩, ?_⟩
      · intro x ep hx q v hq
        simp only [hlk] at hx
        split at hx
        · cases hx; simp at hq
        · exact hI.memo x ep hx q v hq
      · intro x ep hx
        simp only [hlk] at hx
        split at hx
        · next e => cases hx; subst e; exact hok t rfl
        · exact hI.tree x ep hx
      · intro x hx
        rw [ahas_iff]
        simp only [hlk]
        split
        · exact ⟨_, rfl⟩
        · exact (ahas_iff _ _).1 (hI.eps x hx)
      · simp only [true_and]
        refine ⟨?_, fun h => by simp_all, ?_, fun e h => by cases h⟩
        · intro x hx
          simp only [hlk, hx, if_false]
        · intro _
          rw [ahas_iff]
          exact ⟨⟨t, []⟩, by simp only [hlk, if_true]⟩

/-- what `preprocess p` may change: only things of module `p` -/
structure Touches (p : ModPath) (s s' : St L) : Prop where
  mods : s'.mods = s.mods
  mainSrc : s'.mainSrc = s.mainSrc
  deps : s'.deps = s.deps
  proc : s'.proc = s.proc
  eps : ∀ x, x ≠ p → alookup s'.eps x = alookup s.eps x
  table : ∀ x, x ≠ p → tableOf s'.db x = tableOf s.db x
  completed : ∀ x, x ≠ p → (x ∈ s'.completed ↔ x ∈ s.completed)
  stored : ∀ q rows, alookup s.stored q = some rows → alookup s'.stored q = some rows

theorem Touches.refl (p : ModPath) (s : St L) : Touches L p s s :=
  ⟨rfl, rfl, rfl, rfl, fun _ _ => rfl, fun _ _ => rfl, fun _ _ => Iff.rfl, fun _ _ h => h⟩

theorem tags_aaddAll {mods : List ModPath} {db rows : List (Key × V)} {p : ModPath}
    (h : ∀ k v, (k, v) ∈ db → modOf k ∈ mods) (hrows : ∀ kv, kv ∈ rows → modOf kv.1 = p) (hp : p ∈ mods) :
    ∀ k v, (k, v) ∈ aaddAll db rows → modOf k ∈ mods := by
  intro k v hkv
  rcases mem_aaddAll hkv with h1 | h1
  · exact h k v h1
  · rw [hrows _ h1]; exact hp

theorem Touches.trans {p : ModPath} {s s' s'' : St L} (h1 : Touches L p s s') (h2 : Touches L p s' s'') : Touches L p s s'' where
  mods := h2.mods.trans h1.mods
  mainSrc := h2.mainSrc.trans h1.mainSrc
  deps := h2.deps.trans h1.deps
  proc := h2.proc.trans h1.proc
  eps x hx := (h2.eps x hx).trans (h1.eps x hx)
  table x hx := (h2.table x hx).trans (h1.table x hx)
  completed x hx := (h2.completed x hx).trans (h1.completed x hx)
  stored q rows h := h2.stored q rows (h1.stored q rows h)

theorem step_expand (s : St L) (p : ModPath) (ep : Ep Tree NV) (rows : List (Key × V)) (hI : Inv L E s) (hp : p ∈ s.mods)
    (hep : alookup s.eps p = some ep) (hrows : ∀ kv, kv ∈ rows → modOf kv.1 = p) :
    Inv L E { s with db := aaddAll s.db rows, eps := aset s.eps p (Ep.touch L ep) } ∧
    Touches L p s { s with db := aaddAll s.db rows, eps := aset s.eps p (Ep.touch L ep) } := by
  refine ⟨⟨?_, ?_, hI.ast, tags_aaddAll hI.tags hrows hp, hI.stored, hI.completed, ?_⟩, ⟨rfl, rfl, rfl, rfl, ?_, ?_, fun _ _ => Iff.rfl, fun _ _ h => h⟩⟩
  · intro x ep' hx q v hq
    simp only [alookup_aset] at hx
    split at hx
    · next e => cases hx; subst e; exact touch_memo L ep (hI.memo p ep hep) q v hq
    · exact hI.memo x ep' hx q v hq
  · intro x ep' hx
    simp only [alookup_aset] at hx
    split at hx
    · next e => cases hx; subst e; exact hI.tree p ep hep
    · exact hI.tree x ep' hx
  · intro x hx
    rw [ahas_iff]
    simp only [alookup_aset]
    split
    · exact ⟨_, rfl⟩
    · exact (ahas_iff _ _).1 (hI.eps x hx)
  · intro x hx
    simp only [alookup_aset]
    have : ¬ p = x := fun e => hx e.symm
    simp [this]
  · intro x hx
    exact tableOf_aaddAll_other rows s.db p x hrows hx

theorem step_extend (s : St L) (p : ModPath) (f : V → V) (hI : Inv L E s) :
    Inv L E { s with db := s.db.map (fun kv => if modOf kv.1 = p then (kv.1, f kv.2) else kv) } ∧
    Touches L p s { s with db := s.db.map (fun kv => if modOf kv.1 = p then (kv.1, f kv.2) else kv) } := by
  refine ⟨⟨hI.memo, hI.tree, hI.ast, ?_, hI.stored, hI.completed, hI.eps⟩, ⟨rfl, rfl, rfl, rfl, fun _ _ => rfl, ?_, fun _ _ => Iff.rfl, fun _ _ h => h⟩⟩
  · intro k v hkv
    obtain ⟨v', hv'⟩ := mem_map_key hkv
    exact hI.tags k v' hv'
  · intro x hx
    exact tableOf_map_other s.db f p x hx

theorem step_complete (s : St L) (p : ModPath) (hI : Inv L E s) (hp : p ∈ s.mods) :
    Inv L E { s with completed := addIfAbsent s.completed p } ∧
    Touches L p s { s with completed := addIfAbsent s.completed p } := by
  refine ⟨⟨hI.memo, hI.tree, hI.ast, hI.tags, hI.stored, ?_, hI.eps⟩, ⟨rfl, rfl, rfl, rfl, fun _ _ => rfl, fun _ _ => rfl, ?_, fun _ _ h => h⟩⟩
  · intro x hx
    rcases mem_addIfAbsent.1 hx with h | h
    · exact hI.completed x h
    · exact h ▸ hp
  · intro x hx
    rw [mem_addIfAbsent]
    constructor
    · rintro (h | h); exact h; exact absurd h hx
    · exact Or.inl

theorem step_store (s : St L) (p : ModPath) (hI : Inv L E s) :
    Inv L E { s with stored := s.stored ++ [(p, tableOf s.db p)] } ∧
    Touches L p s { s with stored := s.stored ++ [(p, tableOf s.db p)] } := by
  refine ⟨⟨hI.memo, hI.tree, hI.ast, hI.tags, ?_, hI.completed, hI.eps⟩, ⟨rfl, rfl, rfl, rfl, fun _ _ => rfl, fun _ _ => rfl, fun _ _ => Iff.rfl, ?_⟩⟩
  · intro q rows hq k v hkv
    rw [alookup_append] at hq
    cases hq' : alookup s.stored q with
    | some w => rw [hq'] at hq; cases hq; exact hI.stored q _ hq' k v hkv
    | none =>
      rw [hq'] at hq
      simp only at hq
      split at hq
      · next e => cases hq; subst e; exact (mem_tableOf.1 hkv).2
      · cases hq
  · intro q rows hq
    rw [alookup_append, hq]

theorem preprocess_spec (s : St L) (p : ModPath) (hN : GoodName p) (hI : Inv L E s) (hp : p ∈ s.mods) :
    Inv L E (preprocess L E s p).2 ∧ Touches L p s (preprocess L E s p).2 := by
  unfold preprocess
  by_cases hm : hasModule s.db p = true
  · simp only [hm, if_true]
    exact ⟨hI, Touches.refl L p s⟩
  · simp only [hm, if_false, Bool.false_eq_true]
    cases hst : (if onDisk E p = true then alookup s.stored p else none) with
    | some rows =>
      simp only
      have hrows : ∀ kv, kv ∈ rows → modOf kv.1 = p := by
        intro kv hkv
        have : alookup s.stored p = some rows := by
          split at hst
          · exact hst
          · cases hst
        exact hI.stored p rows this kv.1 kv.2 hkv
      refine ⟨⟨hI.memo, hI.tree, hI.ast, tags_aaddAll hI.tags hrows hp, hI.stored, ?_, hI.eps⟩, ⟨rfl, rfl, rfl, rfl, fun _ _ => rfl, ?_, ?_, fun _ _ h => h⟩⟩
      · intro x hx
        rw [mem_foldl_addIfAbsent] at hx
        rcases hx with hx | ⟨kv, hkv, he⟩
        · exact hI.completed x hx
        · rw [he, hrows kv hkv]; exact hp
      · intro x hx
        exact tableOf_aaddAll_other rows s.db p x hrows hx
      · intro x hx
        rw [mem_foldl_addIfAbsent]
        constructor
        · rintro (h | ⟨kv, hkv, he⟩)
          · exact h
          · exact absurd (he.trans (hrows kv hkv)) hx
        · exact Or.inl
    | none =>
      simp only
      cases hep : alookup s.eps p with
      | none => exact ⟨hI, Touches.refl L p s⟩
      | some ep =>
        simp only
        generalize L.expand p (Ep.nf L ep) (alookup s.db) = r
        have hrows : ∀ kv, kv ∈ r.1.map (fun lv => (fullJoined p lv.1, lv.2)) → modOf kv.1 = p := by
          intro kv hkv
          simp only [List.mem_map] at hkv
          obtain ⟨lv, _, he⟩ := hkv
          rw [← he]
          exact modOf_fullJoined p lv.1 hN
        generalize r.1.map (fun lv => (fullJoined p lv.1, lv.2)) = rows at hrows
        obtain ⟨hI1, hT1⟩ := step_expand L E s p ep rows hI hp hep hrows
        cases r.2 with
        | some e => exact ⟨hI1, hT1⟩
        | none =>
          simp only
          obtain ⟨hI2, hT2⟩ := step_extend L E _ p L.extend hI1
          obtain ⟨hI3, hT3⟩ := step_complete L E _ p hI2 hp
          split
          · obtain ⟨hI4, hT4⟩ := step_store L E _ p hI3
            exact ⟨hI4, (hT1.trans L hT2).trans L (hT3.trans L hT4)⟩
          · exact ⟨hI3, (hT1.trans L hT2).trans L hT3⟩

/-! ## loading preserves the invariant and the frame -/

theorem Frame.of_touches {p : ModPath} {s s3 s4 : St L} (h1 : Frame L s s3) (h2 : Touches L p s3 s4) (hp : p ∉ s.mods) : Frame L s s4 where
  mods x hx := h2.mods ▸ h1.mods x hx
  eps x hx := (h2.eps x (fun e => hp (e ▸ hx))).trans (h1.eps x hx)
  table x hx := (h2.table x (fun e => hp (e ▸ hx))).trans (h1.table x hx)
  completed x hx := (h2.completed x (fun e => hp (e ▸ hx))).trans (h1.completed x hx)
  stored q rows h := h2.stored q rows (h1.stored q rows h)
  mainSrc := h2.mainSrc.trans h1.mainSrc
  deps := h2.deps.trans h1.deps
  proc := h2.proc.trans h1.proc

/-- every entrypoint belongs to a registered module -/
def EpsSub (s : St L) : Prop := ∀ x, ahas s.eps x = true → x ∈ s.mods

/-- specification of a function that loads a list of modules -/
def RecSpec (rec : List ModPath → St L → Except Err Unit × St L) : Prop :=
  ∀ ps s, (∀ p, p ∈ ps → GoodName p) → Inv L E s → SrcOk L s.mainSrc →
    Inv L E (rec ps s).2 ∧ Frame L s (rec ps s).2 ∧ ((rec ps s).1 = .ok () → ∀ p, p ∈ ps → p ∈ (rec ps s).2.mods) ∧
    (EpsSub L s → EpsSub L (rec ps s).2)

theorem imports_good (hN : Names L E) (s : St L) (p : ModPath) (ep : Ep Tree NV) (hI : Inv L E s) (hM : SrcOk L s.mainSrc)
    (hep : alookup s.eps p = some ep) : ∀ d, d ∈ L.imports ep.tree → GoodName d := by
  have ht := hI.tree p ep hep
  unfold srcOf at ht
  cases hd : E.disk p with
  | some src =>
    rw [hd] at ht
    exact hN.imports p src ep.tree hd (by simpa using ht)
  | none =>
    rw [hd] at ht
    simp only at ht
    split at ht
    · exact hM ep.tree (by simpa using ht)
    · simp at ht

theorem loadOne_inv (hN : Names L E) (rec : List ModPath → St L → Except Err Unit × St L) (hrec : RecSpec L E rec)
    (p : ModPath) (s : St L) (hp : GoodName p) (hI : Inv L E s) (hM : SrcOk L s.mainSrc) :
    Inv L E (loadOne L E rec p s).2 ∧ Frame L s (loadOne L E rec p s).2 ∧
    ((loadOne L E rec p s).1 = .ok () → p ∈ (loadOne L E rec p s).2.mods) ∧
    (EpsSub L s → EpsSub L (loadOne L E rec p s).2) := by
  unfold loadOne
  by_cases hm : p ∈ s.mods
  · simp only [hm, if_true]
    refine ⟨hI, Frame.refl L s, ?_, fun h => h⟩
    simp
  · simp only [hm, if_false]
    -- the libraries
    have h0 : Inv L E (if p ∈ E.libs then ((.ok () : Except Err Unit), s) else rec E.libs s).2 ∧
        Frame L s (if p ∈ E.libs then ((.ok () : Except Err Unit), s) else rec E.libs s).2 ∧
        (EpsSub L s → EpsSub L (if p ∈ E.libs then ((.ok () : Except Err Unit), s) else rec E.libs s).2) := by
      split
      · exact ⟨hI, Frame.refl L s, fun h => h⟩
      · obtain ⟨a, b, _, c⟩ := hrec E.libs s hN.libs hI hM
        exact ⟨a, b, c⟩
    generalize (if p ∈ E.libs then ((.ok () : Except Err Unit), s) else rec E.libs s) = r0 at h0
    obtain ⟨r0r, s0⟩ := r0
    obtain ⟨hI0, hF0, hE0⟩ := h0
    simp only at hI0 hF0 hE0
    cases r0r with
    | error e => exact ⟨hI0, hF0, (fun h => by cases h), hE0⟩
    | ok u =>
      simp only
      -- the entrypoint
      obtain ⟨hI1, hmods1, hdb1, hcompl1, hstored1, hmain1, hdeps1, hproc1, heps1, hepsSame, hepsOk, hepsErr⟩ := epLoad_spec L E s0 p hI0
      generalize epLoad L E s0 p = r1 at hI1 hmods1 hdb1 hcompl1 hstored1 hmain1 hdeps1 hproc1 heps1 hepsSame hepsOk hepsErr
      obtain ⟨r1r, s1⟩ := r1
      simp only at hI1 hmods1 hdb1 hcompl1 hstored1 hmain1 hdeps1 hproc1 heps1 hepsSame hepsOk hepsErr
      have hF01 : Frame L s0 s1 := by
        refine ⟨fun x hx => hmods1 ▸ hx, ?_, fun x _ => by rw [hdb1], fun x _ => by rw [hcompl1], fun q rows h => by rw [hstored1]; exact h, hmain1, hdeps1, hproc1⟩
        intro x hx
        by_cases hxp : x = p
        · subst hxp; rw [hepsSame (hI0.eps x hx)]
        · exact heps1 x hxp
      have hF1 : Frame L s s1 := hF0.trans L hF01
      cases r1r with
      | error e =>
        refine ⟨hI1, hF1, (fun h => by cases h), ?_⟩
        intro hE x hx
        rw [hepsErr e rfl] at hx
        rw [hmods1]; exact hE0 hE x hx
      | ok u1 =>
        simp only
        -- registration
        have hE2 : EpsSub L s → EpsSub L { s1 with mods := addIfAbsent s1.mods p } := by
          intro hE x hx
          simp only at hx ⊢
          by_cases hxp : x = p
          · exact mem_addIfAbsent.2 (Or.inr hxp)
          · refine mem_addIfAbsent.2 (Or.inl ?_)
            rw [hmods1]
            apply hE0 hE
            rw [ahas_iff] at hx ⊢
            rw [← heps1 x hxp]; exact hx
        have hI2 : Inv L E { s1 with mods := addIfAbsent s1.mods p } := by
          refine ⟨hI1.memo, hI1.tree, hI1.ast, ?_, hI1.stored, ?_, ?_⟩
          · intro k v hkv; exact mem_addIfAbsent.2 (Or.inl (hI1.tags k v hkv))
          · intro x hx; exact mem_addIfAbsent.2 (Or.inl (hI1.completed x hx))
          · intro x hx
            rcases mem_addIfAbsent.1 hx with h | h
            · exact hI1.eps x h
            · exact h ▸ hepsOk rfl
        have hF12 : Frame L s1 { s1 with mods := addIfAbsent s1.mods p } :=
          ⟨fun x hx => mem_addIfAbsent.2 (Or.inl hx), fun _ _ => rfl, fun _ _ => rfl, fun _ _ => Iff.rfl, fun _ _ h => h, rfl, rfl, rfl⟩
        have hF2 := hF1.trans L hF12
        have hp2 : p ∈ (addIfAbsent s1.mods p) := mem_addIfAbsent.2 (Or.inr rfl)
        cases hep : alookup s1.eps p with
        | none => exact ⟨hI2, hF2, (fun h => by cases h), hE2⟩
        | some ep =>
          simp only
          -- the imports
          have hM2 : SrcOk L ({ s1 with mods := addIfAbsent s1.mods p } : St L).mainSrc := by
            have := hF2.mainSrc; simp only at this ⊢; rw [this]; exact hM
          obtain ⟨hI3, hF23, _, hE23⟩ := hrec (L.imports ep.tree) _ (imports_good L E hN _ p ep hI2 hM2 hep) hI2 hM2
          generalize rec (L.imports ep.tree) { s1 with mods := addIfAbsent s1.mods p } = r3 at hI3 hF23 hE23
          obtain ⟨r3r, s3⟩ := r3
          simp only at hI3 hF23 hE23
          have hF3 := hF2.trans L hF23
          cases r3r with
          | error e => exact ⟨hI3, hF3, (fun h => by cases h), fun hE => hE23 (hE2 hE)⟩
          | ok u3 =>
            simp only
            have hp3 : p ∈ s3.mods := hF23.mods p hp2
            obtain ⟨hI4, hT4⟩ := preprocess_spec L E s3 p hp hI3 hp3
            refine ⟨hI4, Frame.of_touches L hF3 hT4 hm, fun _ => hT4.mods ▸ hp3, ?_⟩
            intro hE x hx
            rw [hT4.mods]
            by_cases hxp : x = p
            · exact hxp ▸ hp3
            · apply hE23 (hE2 hE)
              rw [ahas_iff] at hx ⊢
              rw [← hT4.eps x hxp]; exact hx

theorem loadAll_inv (hN : Names L E) : ∀ f, RecSpec L E (loadAll L E f) := by
  intro f
  induction f with
  | zero =>
    intro ps s _ hI _
    cases ps with
    | nil => exact ⟨hI, Frame.refl L s, (fun _ p hp => by cases hp), fun h => h⟩
    | cons p ps => exact ⟨hI, Frame.refl L s, (fun h => by cases h), fun h => h⟩
  | succ f ih =>
    intro ps s hps hI hM
    cases ps with
    | nil => exact ⟨hI, Frame.refl L s, (fun _ p hp => by cases hp), fun h => h⟩
    | cons p ps =>
      simp only [loadAll]
      obtain ⟨hI1, hF1, hok1, hE1⟩ := loadOne_inv L E hN (loadAll L E f) ih p s (hps p (by simp)) hI hM
      generalize loadOne L E (loadAll L E f) p s = r1 at hI1 hF1 hok1 hE1
      obtain ⟨r1r, s1⟩ := r1
      simp only at hI1 hF1 hok1 hE1
      cases r1r with
      | error e => exact ⟨hI1, hF1, (fun h => by cases h), hE1⟩
      | ok u =>
        simp only
        obtain ⟨hI2, hF2, hok2, hE2⟩ := ih ps s1 (fun q hq => hps q (List.mem_cons_of_mem _ hq)) hI1 (hF1.mainSrc ▸ hM)
        refine ⟨hI2, hF1.trans L hF2, ?_, fun hE => hE2 (hE1 hE)⟩
        intro h q hq
        rcases List.mem_cons.1 hq with e | e
        · subst e; exact hF2.mods _ (hok1 rfl)
        · exact hok2 h q e

/-! ## the other operations -/

/-- well-formed operation: module names are dotted paths -/
def Op.wf : Op Src → Prop
  | .load m => GoodName m
  | .transpile m => GoodName m
  | .unload _ => True
  | .resubmit src => SrcOk L src

theorem unload_inv (s : St L) (m : ModPath) (hI : Inv L E s) : Inv L E (unload L s m) := by
  unfold unload
  split
  · refine ⟨?_, ?_, hI.ast, ?_, hI.stored, ?_, ?_⟩
    · intro x ep hx
      simp only [alookup_aerase] at hx
      split at hx
      · cases hx
      · exact hI.memo x ep hx
    · intro x ep hx
      simp only [alookup_aerase] at hx
      split at hx
      · cases hx
      · exact hI.tree x ep hx
    · intro k v hkv
      simp only [List.mem_filter, decide_eq_true_eq] at hkv ⊢
      exact ⟨hI.tags k v hkv.1, hkv.2⟩
    · intro x hx
      simp only [List.mem_filter, decide_eq_true_eq] at hx ⊢
      exact ⟨hI.completed x hx.1, hx.2⟩
    · intro x hx
      simp only [List.mem_filter, decide_eq_true_eq] at hx
      rw [ahas_iff]
      simp only [alookup_aerase, hx.2, if_false]
      exact (ahas_iff _ _).1 (hI.eps x hx.1)
  · exact hI

/-- a new source for the in-memory module followed by its unload (Interactive.rebuild_module) keeps the caches coherent -/
theorem resubmit_unload_inv (s : St L) (src : Src) (hI : Inv L E s) (hmain : E.main ∈ s.mods ∨ alookup s.eps E.main = none) :
    Inv L E (unload L { s with mainSrc := src } E.main) := by
  have key : ∀ x, x ≠ E.main → srcOf L E { s with mainSrc := src } x = srcOf L E s x := by
    intro x hx
    unfold srcOf
    cases E.disk x <;> simp [hx]
  unfold unload
  split
  · refine ⟨?_, ?_, hI.ast, ?_, hI.stored, ?_, ?_⟩
    · intro x ep hx
      simp only [alookup_aerase] at hx
      split at hx
      · cases hx
      · exact hI.memo x ep hx
    · intro x ep hx
      simp only [alookup_aerase] at hx
      split at hx
      · cases hx
      · next hne =>
        have := hI.tree x ep hx
        have hk := key x hne
        unfold srcOf at hk this ⊢
        simp only at hk ⊢
        rw [hk]; exact this
    · intro k v hkv
      simp only [List.mem_filter, decide_eq_true_eq] at hkv ⊢
      exact ⟨hI.tags k v hkv.1, hkv.2⟩
    · intro x hx
      simp only [List.mem_filter, decide_eq_true_eq] at hx ⊢
      exact ⟨hI.completed x hx.1, hx.2⟩
    · intro x hx
      simp only [List.mem_filter, decide_eq_true_eq] at hx
      rw [ahas_iff]
      simp only [alookup_aerase, hx.2, if_false]
      exact (ahas_iff _ _).1 (hI.eps x hx.1)
  · next hnot =>
    have hnone : alookup s.eps E.main = none := by
      rcases hmain with h | h
      · exact absurd h hnot
      · exact h
    refine ⟨hI.memo, ?_, hI.ast, hI.tags, hI.stored, hI.completed, hI.eps⟩
    intro x ep hx
    have hne : x ≠ E.main := by
      intro e; subst e
      simp only at hx
      rw [hnone] at hx; cases hx
    have := hI.tree x ep hx
    have hk := key x hne
    unfold srcOf at hk this ⊢
    simp only at hk ⊢
    rw [hk]; exact this

theorem unload_epsSub (s : St L) (m : ModPath) (hE : EpsSub L s) : EpsSub L (unload L s m) := by
  unfold unload
  split
  · intro x hx
    rw [ahas_iff] at hx
    simp only [alookup_aerase] at hx
    simp only [List.mem_filter, decide_eq_true_eq]
    split at hx
    · obtain ⟨_, h⟩ := hx; cases h
    · next hne => exact ⟨hE x ((ahas_iff _ _).2 hx), hne⟩
  · exact hE

/-- the coherence invariant of a state between two operations -/
def Coherent (s : St L) : Prop := Inv L E s ∧ EpsSub L s ∧ SrcOk L s.mainSrc

theorem touch_inv (s : St L) (m : ModPath) (ep : Ep Tree NV) (hI : Inv L E s) (hE : EpsSub L s) (hep : alookup s.eps m = some ep)
    (d : List (List Str)) (pr : List (List Text)) :
    Inv L E { s with eps := aset s.eps m (Ep.touch L ep), deps := d, proc := pr } ∧
    EpsSub L { s with eps := aset s.eps m (Ep.touch L ep), deps := d, proc := pr } := by
  have hm : m ∈ s.mods := hE m ((ahas_iff _ _).2 ⟨ep, hep⟩)
  obtain ⟨hI1, _⟩ := step_expand L E s m ep [] hI hm hep (fun _ h => by cases h)
  constructor
  · exact ⟨hI1.memo, hI1.tree, hI1.ast, hI1.tags, hI1.stored, hI1.completed, hI1.eps⟩
  · intro x hx
    rw [ahas_iff] at hx
    simp only [alookup_aset] at hx
    split at hx
    · next e => exact e ▸ hm
    · exact hE x ((ahas_iff _ _).2 hx)

theorem transpile_coherent (hN : Names L E) (f : Nat) (s : St L) (m : ModPath) (hm : GoodName m) (hC : Coherent L E s) :
    Coherent L E (transpile L E f s m).2 := by
  unfold transpile
  obtain ⟨hI1, hF1, _, hE1⟩ := loadAll_inv L E hN f [m] s (by intro p hp; simp at hp; exact hp ▸ hm) hC.1 hC.2.2
  generalize loadAll L E f [m] s = r at hI1 hE1 hF1
  obtain ⟨rr, s1⟩ := r
  simp only at hI1 hE1 hF1
  have hE1' := hE1 hC.2.1
  have hM1 : SrcOk L s1.mainSrc := hF1.mainSrc ▸ hC.2.2
  cases rr with
  | error e => exact ⟨hI1, hE1', hM1⟩
  | ok u =>
    simp only
    cases hep : alookup s1.eps m with
    | none => exact ⟨hI1, hE1', hM1⟩
    | some ep =>
      simp only
      cases (L.render m (Ep.nf L ep) (alookup s1.db)).1 with
      | ok t =>
        obtain ⟨a, b⟩ := touch_inv L E s1 m ep hI1 hE1' hep s1.deps s1.proc
        exact ⟨a, b, hM1⟩
      | error e =>
        obtain ⟨a, b⟩ := touch_inv L E s1 m ep hI1 hE1' hep
          ((L.render m (Ep.nf L ep) (alookup s1.db)).2.1 :: s1.deps) ((L.render m (Ep.nf L ep) (alookup s1.db)).2.2 :: s1.proc)
        exact ⟨a, b, hM1⟩

theorem init_coherent (src : Src) (hsrc : SrcOk L src) : Coherent L E ({ mainSrc := src } : St L) := by
  refine ⟨⟨?_, ?_, ?_, ?_, ?_, ?_, ?_⟩, ?_, hsrc⟩ <;> intro x <;> simp [alookup, ahas]

theorem step_coherent (hN : Names L E) (f : Nat) (s : St L) (op : Op Src) (hop : Op.wf L op) (hC : Coherent L E s) :
    Coherent L E (step L E f s op).2 := by
  cases op with
  | load m =>
    simp only [step]
    obtain ⟨hI1, hF1, _, hE1⟩ := loadAll_inv L E hN f [m] s (by intro p hp; simp at hp; exact hp ▸ hop) hC.1 hC.2.2
    generalize loadAll L E f [m] s = r at hI1 hE1 hF1
    obtain ⟨rr, s1⟩ := r
    cases rr <;> exact ⟨hI1, hE1 hC.2.1, hF1.mainSrc ▸ hC.2.2⟩
  | transpile m =>
    simp only [step]
    have := transpile_coherent L E hN f s m hop hC
    generalize transpile L E f s m = r at this
    obtain ⟨rr, s1⟩ := r
    cases rr <;> exact this
  | unload m =>
    simp only [step]
    refine ⟨unload_inv L E s m hC.1, unload_epsSub L s m hC.2.1, ?_⟩
    unfold unload; split <;> exact hC.2.2
  | resubmit src =>
    simp only [step, resubmit]
    have h1 : Coherent L E (unload L { s with mainSrc := src } E.main) := by
      refine ⟨resubmit_unload_inv L E s src hC.1 ?_, unload_epsSub L _ E.main hC.2.1, ?_⟩
      · cases h : alookup s.eps E.main with
        | none => exact Or.inr rfl
        | some ep => exact Or.inl (hC.2.1 E.main ((ahas_iff _ _).2 ⟨ep, h⟩))
      · unfold unload; split <;> exact hop
    have := transpile_coherent L E hN f _ E.main hN.main h1
    generalize transpile L E f (unload L { s with mainSrc := src } E.main) E.main = r at this
    obtain ⟨rr, s1⟩ := r
    cases rr <;> exact this

end Machine

/-! ## descriptor worlds -/

/-- a pool of module descriptors as an environment -/
def poolEnv (pool : List (ModPath × Desc)) (libs : List ModPath) (main : ModPath) : Env Desc :=
  { disk := fun p => alookup pool p, libs := libs, main := main }

def descImportsOk (d : Desc) : Prop := ∀ mn, mn ∈ d.imports → GoodName mn.1

instance (m : ModPath) : Decidable (GoodName m) := by unfold GoodName; exact inferInstance
instance (d : Desc) : Decidable (descImportsOk d) := by unfold descImportsOk; exact inferInstance

theorem descSrcOk (d : Desc) (h : descImportsOk d) : SrcOk descLang d := by
  intro t ht x hx
  simp only [descLang] at ht hx
  split at ht
  · cases ht
    simp only [List.mem_map] at hx
    obtain ⟨mn, hmn, e⟩ := hx
    exact e ▸ h mn hmn
  · cases ht

theorem poolNames (pool : List (ModPath × Desc)) (libs : List ModPath) (main : ModPath)
    (hpool : ∀ kv, kv ∈ pool → descImportsOk kv.2) (hlibs : ∀ x, x ∈ libs → GoodName x) (hmain : GoodName main) :
    Names descLang (poolEnv pool libs main) where
  libs := hlibs
  main := hmain
  imports x src t hx ht := descSrcOk src (hpool (x, src) (alookup_mem hx)) t ht

end Tranp.Session
