/-
  Helper lemmas for `C01.sem` (Tranp.Model.EmitSem): operator by operator, the C++ value of the re-parsed tree is the
  Python value whenever the Python evaluation stays inside the agreement subset.
-/
import Tranp.Model.EmitSem
import Tranp.Lemmas.Emit

namespace Tranp.Emit
open Tranp Tranp.Prec

theorem chk_ok {i : Int} {v : Val} (h : chk i = .ok v) : inI32 i = true ∧ v = .int i := by
  unfold chk at h
  split at h
  · next hc => cases h; exact ⟨hc, rfl⟩
  · cases h

theorem ckUb_of {i : Int} (h : inI32 i = true) : ckUb i = .ok i := by simp [ckUb, h]

theorem wrap32_of {i : Int} (h : inI32 i = true) : wrap32 i = i := by
  simp only [inI32, Bool.and_eq_true, decide_eq_true_eq] at h
  unfold wrap32; omega

theorem b2i_not_ne_zero (b : Bool) : b2i (decide (b2i b ≠ 0)) = b2i b := by cases b <;> rfl
theorem b2i_not (b : Bool) : b2i (decide (b2i b = 0)) = b2i (!b) := by cases b <;> rfl

/-! the branch of `cppBin`/`cppUn` each operator code selects (closed computations) -/

theorem cppBin_add (x y : Int) : cppBin (BOp.code .add) x y = ckUb (x + y) := rfl
theorem cppBin_sub (x y : Int) : cppBin (BOp.code .sub) x y = ckUb (x - y) := rfl
theorem cppBin_mul (x y : Int) : cppBin (BOp.code .mul) x y = ckUb (x * y) := rfl
theorem cppBin_mod (x y : Int) : cppBin (BOp.code .mod) x y =
    (if y = 0 ∨ (x = -2147483648 ∧ y = -1) then .error .ub else .ok (Int.tmod x y)) := rfl
theorem cppBin_band (x y : Int) : cppBin (BOp.code .band) x y = .ok (iand x y) := rfl
theorem cppBin_bor (x y : Int) : cppBin (BOp.code .bor) x y = .ok (ior x y) := rfl
theorem cppBin_bxor (x y : Int) : cppBin (BOp.code .bxor) x y = .ok (ixor x y) := rfl
theorem cppBin_shl (x y : Int) : cppBin (BOp.code .shl) x y =
    (if 0 ≤ y ∧ y ≤ 31 then .ok (wrap32 (x * 2 ^ y.toNat)) else .error .ub) := rfl
theorem cppBin_shr (x y : Int) : cppBin (BOp.code .shr) x y =
    (if 0 ≤ y ∧ y ≤ 31 then .ok (x / 2 ^ y.toNat) else .error .ub) := rfl
theorem cppBin_lt (x y : Int) : cppBin (BOp.code .lt) x y = .ok (b2i (decide (x < y))) := rfl
theorem cppBin_gt (x y : Int) : cppBin (BOp.code .gt) x y = .ok (b2i (decide (x > y))) := rfl
theorem cppBin_le (x y : Int) : cppBin (BOp.code .le) x y = .ok (b2i (decide (x ≤ y))) := rfl
theorem cppBin_ge (x y : Int) : cppBin (BOp.code .ge) x y = .ok (b2i (decide (x ≥ y))) := rfl
theorem cppBin_eq (x y : Int) : cppBin (BOp.code .eq) x y = .ok (b2i (decide (x = y))) := rfl
theorem cppBin_ne (x y : Int) : cppBin (BOp.code .ne) x y = .ok (b2i (decide (x ≠ y))) := rfl
theorem cppBin_is (x y : Int) : cppBin (BOp.code .is) x y = .ok (b2i (decide (x = y))) := rfl
theorem cppBin_isNot (x y : Int) : cppBin (BOp.code .isNot) x y = .ok (b2i (decide (x ≠ y))) := rfl

theorem cppUn_neg (x : Int) : cppUn (UOp.code .neg) x = ckUb (-x) := rfl
theorem cppUn_pos (x : Int) : cppUn (UOp.code .pos) x = .ok x := rfl
theorem cppUn_inv (x : Int) : cppUn (UOp.code .inv) x = .ok (-x - 1) := rfl
theorem cppUn_bang (x : Int) : cppUn bangCode x = .ok (b2i (decide (x = 0))) := rfl

theorem pyUn_cpp {op : UOp} {v w : Val} (h : pyUn op v = .ok w) : cppUn op.code v.repr = .ok w.repr := by
  cases op <;> cases v <;> simp only [pyUn] at h <;> try cases h
  · simp [cppUn_pos, Val.repr]
  · obtain ⟨hc, rfl⟩ := chk_ok h
    simp [cppUn_neg, Val.repr, ckUb_of hc]
  · simp [cppUn_inv, Val.repr]

theorem repr_bool (b : Bool) : (Val.bool b).repr = b2i b := rfl
theorem repr_int (i : Int) : (Val.int i).repr = i := rfl

theorem iand_b2i (x y : Bool) : iand (b2i x) (b2i y) = b2i (x && y) := by cases x <;> cases y <;> decide
theorem ior_b2i (x y : Bool) : ior (b2i x) (b2i y) = b2i (x || y) := by cases x <;> cases y <;> decide
theorem b2i_eq_iff (x y : Bool) : decide (b2i x = b2i y) = (x == y) := by cases x <;> cases y <;> decide
theorem b2i_ne_iff (x y : Bool) : decide (b2i x ≠ b2i y) = (x != y) := by cases x <;> cases y <;> decide

/-- operators without short-circuit: inside the subset the C++ operator computes the Python value -/
theorem pyBin_cpp {op : BOp} {a b v : Val} (h : pyBin op a b = .ok v) (ho : op ≠ .or) (ha : op ≠ .and) :
    cppBin op.code a.repr b.repr = .ok v.repr := by
  cases op <;> cases a <;> cases b <;> simp only [pyBin, pyCmp, reduceCtorEq] at h <;> try (first | cases h | exact absurd rfl ho | exact absurd rfl ha)
  all_goals simp only [repr_bool, repr_int]
  all_goals first
    | (obtain ⟨hc, rfl⟩ := chk_ok h; simp [cppBin_add, cppBin_sub, cppBin_mul, ckUb_of hc, repr_int]; done)
    | ((try cases h); first
        | exact cppBin_lt _ _ | exact cppBin_gt _ _ | exact cppBin_le _ _ | exact cppBin_ge _ _ | exact cppBin_eq _ _ | exact cppBin_ne _ _
        | exact cppBin_band _ _ | exact cppBin_bor _ _ | exact cppBin_bxor _ _
        | (rw [cppBin_is, b2i_eq_iff]; done) | (rw [cppBin_isNot, b2i_ne_iff]; done)
        | (rw [cppBin_band, iand_b2i]; done) | (rw [cppBin_bor, ior_b2i]; done))
    | (split at h
       · next hc =>
         obtain ⟨hr, rfl⟩ := chk_ok h
         rw [cppBin_shl, if_pos hc, wrap32_of hr]; rfl
       · cases h)
    | (split at h
       · next hc => cases h; rw [cppBin_shr, if_pos hc]; rfl
       · cases h)
    | (split at h
       · next hc =>
         cases h
         rw [cppBin_mod, if_neg (by omega), Int.tmod_eq_emod_of_nonneg hc.1]; rfl
       · cases h)

theorem code_ne_oror {op : BOp} {s : Str} (h : op.cpp = some s) (ho : op ≠ .or) : op.code ≠ symCode ['|', '|'] := by
  cases op <;> simp only [BOp.cpp, reduceCtorEq] at h <;> first | exact absurd rfl ho | decide

theorem code_ne_andand {op : BOp} {s : Str} (h : op.cpp = some s) (ha : op ≠ .and) : op.code ≠ symCode ['&', '&'] := by
  cases op <;> simp only [BOp.cpp, reduceCtorEq] at h <;> first | exact absurd rfl ha | decide

theorem denoteCpp_bin_plain (ρ : Env) {o : Nat} {l r : Expr} {x y : Int} (h1 : o ≠ symCode ['|', '|']) (h2 : o ≠ symCode ['&', '&'])
    (hl : denoteCpp ρ l = .ok x) (hr : denoteCpp ρ r = .ok y) : denoteCpp ρ (.bin o l r) = cppBin o x y := by
  simp only [denoteCpp, hl, hr, if_neg h1, if_neg h2]

/-- one non-short-circuit step of a chain -/
theorem step_plain (ρ : Env) {op : BOp} {s : Str} {acc r v : Val} {accE eE : Expr} (hs : op.cpp = some s) (ho : op ≠ .or) (ha : op ≠ .and)
    (hacc : denoteCpp ρ accE = .ok acc.repr) (he : denoteCpp ρ eE = .ok r.repr) (hb : pyBin op acc r = .ok v) :
    denoteCpp ρ (.bin op.code accE eE) = .ok v.repr := by
  rw [denoteCpp_bin_plain ρ (code_ne_oror hs ho) (code_ne_andand hs ha) hacc he]
  exact pyBin_cpp hb ho ha

mutual
theorem sem_node (ρ : Env) : ∀ (n : Node) (v : Val), core n = true → denotePy ρ n = .ok v →
    denoteCpp ρ (pyExprL n) = .ok v.repr
  | .atom id _, v, _, h => by
    simp only [denotePy] at h
    simp only [pyExprL, denoteCpp]
    cases hρ : ρ id with
    | int i => rw [hρ] at h; obtain ⟨_, rfl⟩ := chk_ok h; rfl
    | bool b => rw [hρ] at h; cases h; rfl
  | .group e, v, hc, h => by
    simp only [denotePy] at h
    simpa [pyExprL, denoteCpp] using sem_node ρ e v (by simpa [core] using hc) h
  | .factor op e, v, hc, h => by
    simp only [denotePy] at h
    cases he : denotePy ρ e with
    | error er => rw [he] at h; cases h
    | ok w =>
      rw [he] at h
      have ih := sem_node ρ e w (by simpa [core] using hc) he
      simp only [pyExprL, denoteCpp, ih]
      exact pyUn_cpp h
  | .notCompare e, v, hc, h => by
    simp only [denotePy] at h
    cases he : denotePy ρ e with
    | error er => rw [he] at h; cases h
    | ok w =>
      rw [he] at h
      have ih := sem_node ρ e w (by simpa [core] using hc) he
      cases w with
      | int i => cases h
      | bool b =>
        cases h
        simp only [pyExprL, denoteCpp, ih, cppUn_bang, repr_bool, b2i_not]
  | .chain _ fty first rest, v, hc, h => by
    simp only [core, Bool.and_eq_true] at hc
    simp only [denotePy] at h
    cases hf : denotePy ρ first with
    | error er => rw [hf] at h; cases h
    | ok w =>
      rw [hf] at h
      have ih := sem_node ρ first w hc.1 hf
      simpa [pyExprL] using sem_rest ρ rest fty (pyExprL first) w v hc.2 ih h
  | .ternary _ _ _, _, hc, _ => by simp [core] at hc
theorem sem_rest (ρ : Env) : ∀ (rest : Rest) (pty : Ty) (accE : Expr) (acc v : Val), coreRest pty rest = true →
    denoteCpp ρ accE = .ok acc.repr → denoteRest ρ acc rest = .ok v →
    denoteCpp ρ (pyRestL accE rest) = .ok v.repr
  | .nil, _, _, _, _, _, hacc, h => by
    simp only [denoteRest] at h; cases h
    simpa [pyRestL] using hacc
  | .cons op dict ty e rest, pty, accE, acc, v, hc, hacc, h => by
    simp only [coreRest, Bool.and_eq_true, Bool.not_eq_true'] at hc
    obtain ⟨⟨⟨hcpp, _⟩, hce⟩, hcr⟩ := hc
    obtain ⟨s, hs⟩ := Option.isSome_iff_exists.mp hcpp
    simp only [pyRestL]
    by_cases ho : op = .or
    · subst ho
      simp only [denoteRest] at h
      cases acc with
      | int i => cases h
      | bool b =>
        cases b with
        | true =>
          simp only at h
          refine sem_rest ρ rest _ _ (.bool true) v hcr ?_ h
          simp only [denoteCpp, hacc]; rfl
        | false =>
          simp only at h
          cases he : denotePy ρ e with
          | error er => rw [he] at h; cases h
          | ok w =>
            rw [he] at h
            cases w with
            | int i => cases h
            | bool b' =>
              simp only at h
              have ih := sem_node ρ e (.bool b') hce he
              refine sem_rest ρ rest _ _ (.bool b') v hcr ?_ h
              simp only [denoteCpp, hacc, ih, repr_bool, b2i_not_ne_zero]; rfl
    · by_cases ha : op = .and
      · subst ha
        simp only [denoteRest] at h
        cases acc with
        | int i => cases h
        | bool b =>
          cases b with
          | false =>
            simp only at h
            refine sem_rest ρ rest _ _ (.bool false) v hcr ?_ h
            simp only [denoteCpp, hacc]; rfl
          | true =>
            simp only at h
            cases he : denotePy ρ e with
            | error er => rw [he] at h; cases h
            | ok w =>
              rw [he] at h
              cases w with
              | int i => cases h
              | bool b' =>
                simp only at h
                have ih := sem_node ρ e (.bool b') hce he
                refine sem_rest ρ rest _ _ (.bool b') v hcr ?_ h
                simp only [denoteCpp, hacc, ih, repr_bool, b2i_not_ne_zero]; rfl
      · have hstep : ∀ r v', denotePy ρ e = .ok r → pyBin op acc r = .ok v' → denoteRest ρ v' rest = .ok v →
            denoteCpp ρ (pyRestL (.bin op.code accE (pyExprL e)) rest) = .ok v.repr := by
          intro r v' he hb hrest
          have ih := sem_node ρ e r hce he
          exact sem_rest ρ rest _ _ v' v hcr (step_plain ρ hs ho ha hacc ih hb) hrest
        cases op <;> first
          | exact absurd rfl ho
          | exact absurd rfl ha
          | (simp only [denoteRest] at h
             split at h
             · cases h
             · cases he : denotePy ρ e with
               | error er => rw [he] at h; cases h
               | ok r =>
                 rw [he] at h
                 simp only at h
                 split at h
                 · next v' hb => exact hstep r v' he hb h
                 · cases h)
end

/-- parentheses do not change the C++ value -/
theorem denoteCpp_strip (ρ : Env) : ∀ e : Expr, denoteCpp ρ (strip e) = denoteCpp ρ e
  | .atom _ => rfl
  | .paren e => by simp only [strip, denoteCpp, denoteCpp_strip ρ e]
  | .pre o e => by simp only [strip, denoteCpp, denoteCpp_strip ρ e]
  | .bin o l r => by simp only [strip, denoteCpp, denoteCpp_strip ρ l, denoteCpp_strip ρ r]

end Tranp.Emit
