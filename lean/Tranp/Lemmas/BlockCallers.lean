/-
  Lemmas for property C18, part 3: the production callers of the helpers in py2cpp.py (range / throw / dict-comprehension
  argument splitting, PatternParser helpers) and the query API of DecoratorHelper / DecoratorQuery.
-/
import Tranp.Lemmas.BlockParse

namespace Tranp.Block
open Tranp Tranp.Generated.BlockPairs

/-! ### the production callers -/

theorem wf_mono (p p' : Char → Bool) (h : ∀ c, p c = true → p' c = true) (f : Frag) (hf : Frag.wf p f = true) :
    Frag.wf p' f = true := by
  induction f with
  | nil => rfl
  | atom c r ih => simp only [Frag.wf, Bool.and_eq_true] at hf ⊢; exact ⟨hf.1, ih hf.2⟩
  | str q b r ih =>
    simp only [Frag.wf, Bool.and_eq_true, List.all_eq_true] at hf ⊢
    exact ⟨fun c hc => ⟨(hf.1 c hc).1, h c (hf.1 c hc).2⟩, ih hf.2⟩
  | group k i r ihi ihr => simp only [Frag.wf, Bool.and_eq_true] at hf ⊢; exact ⟨ihi hf.1, ihr hf.2⟩

theorem simple_of_cleanFor (k : BK) (f : Frag) (h : Frag.CleanFor k f) : Frag.Simple f :=
  wf_mono _ _ (fun _ _ => rfl) f h

theorem wf_join (p : Char → Bool) (d : Char) (hd : has Frag.special d = false) (fs : List Frag)
    (h : ∀ f ∈ fs, Frag.wf p f = true) : Frag.wf p (Frag.join d fs) = true := by
  induction fs with
  | nil => rfl
  | cons f fs ih =>
    cases fs with
    | nil => simpa [Frag.join] using h f (by simp)
    | cons g gs =>
      have := ih (fun x hx => h x (by simp [hx]))
      simp only [Frag.join, wf_append, Frag.wf, Bool.and_eq_true]
      exact ⟨h f (by simp), by simp [hd], this⟩

theorem comma_plain : has Frag.special ',' = false := by decide

/-- split ∘ join = id: a text joined from delimiter-free fragments is split into exactly those fragments (stripped). -/
theorem breakSeparator_join (d : Char) (hd : has Frag.special d = false) (fs : List Frag) (hne : fs ≠ [])
    (hs : ∀ f ∈ fs, Frag.Simple f) (hno : ∀ f ∈ fs, Frag.noTop d f = true)
    (hl : ∀ l, fs.getLast? = some l → l ≠ .nil) :
    breakSeparator (Frag.join d fs).render [d] = .ok (fs.map fun f => strip f.render) := by
  rw [breakSeparator_simple d _ (simple_join d hd fs hs), sepSpec, if_neg (join_ne_nil d fs hne hl),
    topSplit_join d fs hne hno hl]

theorem pluck_call (callee args : Frag) (hc : Frag.CleanFor .par callee) (ha : Frag.CleanFor .par args) :
    pluckFuncCallArguments (callee.render ++ '(' :: (args.render ++ [')'])) = .ok args.render := by
  have := breakLastBlock_prefix_group .par callee args [] hc ha
  simp only [BK.open, BK.close] at this
  simp [pluckFuncCallArguments, this, Except.bind]

/-- the conditions on the arguments of a call text: balanced fragments whose strings hold no parenthesis, no top-level comma -/
def CallArg (a : Frag) : Prop := Frag.CleanFor .par a ∧ Frag.noTop ',' a = true

instance (a : Frag) : Decidable (CallArg a) := by unfold CallArg; infer_instance

theorem splitCall_args (callee : Frag) (fs : List Frag) (n : Nat) (hc : Frag.CleanFor .par callee) (hne : fs ≠ [])
    (hf : ∀ a ∈ fs, CallArg a) (hl : ∀ l, fs.getLast? = some l → l ≠ .nil) (hn : n ≠ 1) :
    splitCallArguments (callee.render ++ '(' :: ((Frag.join ',' fs).render ++ [')'])) n
      = if n = 2 then (match fs.map fun f => strip f.render with | [b, s] => .ok (b, s, ['1']) | _ => .error .ValueError)
        else (match fs.map fun f => strip f.render with | [b, s, st] => .ok (b, s, st) | _ => .error .ValueError) := by
  have hj : Frag.CleanFor .par (Frag.join ',' fs) := wf_join _ ',' comma_plain fs (fun a ha => (hf a ha).1)
  have hsep := breakSeparator_join ',' comma_plain fs hne (fun a ha => simple_of_cleanFor .par a (hf a ha).1)
    (fun a ha => (hf a ha).2) hl
  simp only [splitCallArguments, pluck_call callee _ hc hj, Except.bind, hn, if_false, hsep]
  rfl

theorem throwParts_call (path : Str) (fs : List Frag) (hp : ∀ x ∈ path, x ≠ '(') (hne : fs ≠ [])
    (hs : ∀ f ∈ fs, Frag.Simple f) (hno : ∀ f ∈ fs, Frag.noTop ',' f = true)
    (hl : ∀ l, fs.getLast? = some l → l ≠ .nil) :
    throwParts (path ++ '(' :: ((Frag.join ',' fs).render ++ [')'])) = .ok (path, fs.map fun f => strip f.render) := by
  have h1 : slice (path ++ '(' :: ((Frag.join ',' fs).render ++ [')'])) 0 path.length = path := slice_front _ _
  have h2 : slice (path ++ '(' :: ((Frag.join ',' fs).render ++ [')'])) (path.length + 1)
      ((path ++ '(' :: ((Frag.join ',' fs).render ++ [')'])).length - 1) = (Frag.join ',' fs).render := by
    have : (path ++ '(' :: ((Frag.join ',' fs).render ++ [')'])).length - 1 = path.length + 1 + (Frag.join ',' fs).render.length := by
      simp; omega
    rw [this]; exact slice_middle _ _ _ _
  simp only [throwParts, find_char '(' path _ hp, h1, h2, breakSeparator_join ',' comma_plain fs hne hs hno hl, Except.bind]

theorem dictComp_pair (kf vf : Frag) (hk : Frag.Simple kf) (hv : Frag.Simple vf) (hkn : Frag.noTop ',' kf = true)
    (hvn : Frag.noTop ',' vf = true) (hvne : vf ≠ .nil) :
    dictCompProjection ('{' :: ((Frag.join ',' [kf, vf]).render ++ ['}'])) = .ok (strip kf.render, strip vf.render) := by
  have h2 : slice ('{' :: ((Frag.join ',' [kf, vf]).render ++ ['}'])) 1 (('{' :: ((Frag.join ',' [kf, vf]).render ++ ['}'])).length - 1)
      = (Frag.join ',' [kf, vf]).render := by
    have := slice_middle [] (Frag.join ',' [kf, vf]).render ['}'] '{'
    simp only [List.nil_append, List.length_nil, Nat.zero_add] at this
    have e : ('{' :: ((Frag.join ',' [kf, vf]).render ++ ['}'])).length - 1 = 1 + (Frag.join ',' [kf, vf]).render.length := by
      simp; omega
    rw [e, this]
  have hsep := breakSeparator_join ',' comma_plain [kf, vf] (by simp)
    (by intro f hf; simp at hf; rcases hf with rfl | rfl <;> assumption)
    (by intro f hf; simp at hf; rcases hf with rfl | rfl <;> assumption)
    (by intro l hl; simp at hl; rw [← hl]; exact hvne)
  simp only [dictCompProjection, h2, hsep, Except.bind, List.map_cons, List.map_nil]


theorem startsWith_append' (p r : Str) : Str.startsWith (p ++ r) p = true := startsWith_append p r

theorem endsWith_snoc (s : Str) (c : Char) : Str.endsWith (s ++ [c]) [c] = true := by
  simp [Str.endsWith, Str.startsWith]

/-- `is_initializer_call('T(args)', 'T')` holds for every type text and argument fragment (strings without parentheses). -/
theorem isInitializerCall_call (ty args : Frag) (ht : Frag.CleanFor .par ty) (ha : Frag.CleanFor .par args) :
    isInitializerCall (ty.render ++ '(' :: (args.render ++ [')'])) ty.render = .ok true := by
  have h1 : Str.startsWith (ty.render ++ '(' :: (args.render ++ [')'])) (ty.render ++ ['(']) = true := by
    have := startsWith_append (ty.render ++ ['(']) (args.render ++ [')'])
    simpa using this
  have h2 : Str.endsWith (ty.render ++ '(' :: (args.render ++ [')'])) [')'] = true := by
    have := endsWith_snoc (ty.render ++ '(' :: args.render) ')'
    simpa using this
  have h3 := breakLastBlock_prefix_group .par ty args [] ht ha
  simp only [BK.open, BK.close] at h3
  simp [isInitializerCall, h1, h2, h3, Except.bind]

/-! ### the query API of `DecoratorHelper` / `DecoratorQuery` -/

theorem decoParse_path (d : Str) (r : Str × List (Str × Str) × Str) (h : decoParse d = .ok r) : r.1 = pathOf d := by
  unfold decoParse at h
  unfold pathOf
  cases hf : Str.find d ['('] with
  | none => rw [hf] at h; injection h with h; rw [← h]
  | some i =>
    rw [hf] at h
    simp only [] at h ⊢
    cases hb : breakSeparator (slice d (i + 1) (d.length - 1)) [','] with
    | error e => rw [hb] at h; cases h
    | ok ps =>
      rw [hb] at h
      cases ha : decoArgs ps with
      | error e => simp only [Except.bind, ha] at h; cases h
      | ok a => simp only [Except.bind, ha] at h; injection h with h; rw [← h]

theorem decoAny_of_parse (d : Str) (paths : List Str) (r : Str × List (Str × Str) × Str) (h : decoParse d = .ok r) :
    decoAny d paths = .ok (paths.contains (pathOf d)) := by
  simp only [decoAny, decoPath, h, Except.bind, decoParse_path d r h]

/-- `DecoratorQuery.any(*paths)` keeps exactly the decorators whose path (text before the first `(`) is listed, in order,
    and `contains` says whether there is one — whenever every decorator parses. -/
theorem queryAny_filter (ds paths : List Str) (h : ∀ d ∈ ds, ∃ r, decoParse d = .ok r) :
    queryAny ds paths = .ok (ds.filter fun d => paths.contains (pathOf d)) ∧
    queryContains ds paths = .ok (ds.any fun d => paths.contains (pathOf d)) := by
  induction ds with
  | nil => exact ⟨rfl, rfl⟩
  | cons d ds ih =>
    obtain ⟨r, hr⟩ := h d (by simp)
    obtain ⟨ih1, ih2⟩ := ih (fun x hx => h x (by simp [hx]))
    constructor
    · simp only [queryAny, decoAny_of_parse d paths r hr, Except.bind, ih1, List.filter]
      cases paths.contains (pathOf d) <;> rfl
    · simp only [queryContains, decoAny_of_parse d paths r hr, Except.bind, ih2, List.any]
      cases paths.contains (pathOf d) <;> simp

theorem pathOf_call (path rest : Str) (hp : ∀ x ∈ path, x ≠ '(') : pathOf (path ++ '(' :: rest) = path := by
  simp only [pathOf, find_char '(' path rest hp]; exact slice_front _ _

end Tranp.Block
