/-
  Reference symbol tables and the history-independence argument of property C04.
-/
import Tranp.Lemmas.Session
import Tranp.Generated.LibClosure

namespace Tranp.Session
open Tranp

/-! ## more facts about tables -/

section Tables
variable {V : Type}

theorem alookup_tableOf (db : List (Key × V)) (p : ModPath) (k : Key) (hk : modOf k = p) :
    alookup (tableOf db p) k = alookup db k := by
  induction db with
  | nil => rfl
  | cons kv rest ih =>
    obtain ⟨k', v'⟩ := kv
    unfold tableOf at ih ⊢
    rw [List.filter_cons]
    by_cases h : modOf k' = p
    · simp only [h, decide_true, if_true, alookup]
      rw [ih]
    · simp only [h, decide_false, Bool.false_eq_true, if_false, alookup]
      have : ¬ k' = k := fun e => h (e ▸ hk)
      simp only [this, if_false]
      exact ih

theorem ahas_tableOf (db : List (Key × V)) (p : ModPath) (k : Key) (hk : modOf k = p) :
    ahas (tableOf db p) k = ahas db k := by
  unfold ahas; rw [alookup_tableOf db p k hk]

theorem tableOf_aadd_self (db : List (Key × V)) (k : Key) (v : V) (p : ModPath) (hk : modOf k = p) :
    tableOf (aadd db k v) p = aadd (tableOf db p) k v := by
  unfold aadd
  rw [ahas_tableOf db p k hk]
  split
  · rfl
  · simp [tableOf, List.filter_append, hk]

theorem tableOf_aaddAll_self (rows db : List (Key × V)) (p : ModPath) (hrows : ∀ kv, kv ∈ rows → modOf kv.1 = p) :
    tableOf (aaddAll db rows) p = aaddAll (tableOf db p) rows := by
  induction rows generalizing db with
  | nil => rfl
  | cons r rest ih =>
    simp only [aaddAll, List.foldl]
    have h1 := ih (aadd db r.1 r.2) (fun kv hkv => hrows kv (List.mem_cons_of_mem _ hkv))
    simp only [aaddAll] at h1
    rw [h1, tableOf_aadd_self db r.1 r.2 p (hrows r (by simp))]

theorem tableOf_map_self (db : List (Key × V)) (f : V → V) (p : ModPath) :
    tableOf (db.map (fun kv => if modOf kv.1 = p then (kv.1, f kv.2) else kv)) p = (tableOf db p).map (fun kv => (kv.1, f kv.2)) := by
  induction db with
  | nil => rfl
  | cons kv rest ih =>
    unfold tableOf at ih ⊢
    rw [List.map_cons, List.filter_cons, List.filter_cons, ih]
    by_cases h : modOf kv.1 = p
    · simp [h]
    · simp [h]

theorem hasModule_false_iff (db : List (Key × V)) (p : ModPath) : hasModule db p = false ↔ tableOf db p = [] := by
  unfold hasModule tableOf
  rw [List.filter_eq_nil_iff]
  simp [List.any_eq_false]

theorem alookup_none_of_table_nil (db : List (Key × V)) (p : ModPath) (k : Key) (hk : modOf k = p) (h : tableOf db p = []) :
    alookup db k = none := by
  rw [← alookup_tableOf db p k hk, h]; rfl

theorem all_congr_mem {A : Type} (l : List A) (p q : A → Bool) (h : ∀ a, a ∈ l → p a = q a) : l.all p = l.all q := by
  induction l with
  | nil => rfl
  | cons a rest ih =>
    simp only [List.all_cons]
    rw [h a (by simp), ih (fun b hb => h b (List.mem_cons_of_mem _ hb))]

/-- keys are pairwise different -/
def NodupKeys (d : List (Key × V)) : Prop := (d.map Prod.fst).Nodup

theorem ahas_false_iff (d : List (Key × V)) (k : Key) : ahas d k = false ↔ k ∉ d.map Prod.fst := by
  induction d with
  | nil => simp [ahas, alookup]
  | cons kv rest ih =>
    obtain ⟨k', v'⟩ := kv
    unfold ahas at ih ⊢
    simp only [alookup]
    by_cases h : k' = k
    · subst h; simp
    · have h' : ¬ k = k' := fun e => h e.symm
      simp [h, h', ih]

theorem aadd_nodup (d : List (Key × V)) (k : Key) (v : V) (h : NodupKeys d) : NodupKeys (aadd d k v) := by
  unfold aadd
  cases hh : ahas d k with
  | true => simpa using h
  | false =>
    have := (ahas_false_iff d k).1 hh
    simp only [Bool.false_eq_true, if_false]
    unfold NodupKeys at h ⊢
    rw [List.map_append, List.nodup_append]
    refine ⟨h, by simp, ?_⟩
    intro a ha b hb
    simp at hb
    subst hb
    exact fun e => this (e ▸ ha)

theorem aaddAll_nodup (rows d : List (Key × V)) (h : NodupKeys d) : NodupKeys (aaddAll d rows) := by
  induction rows generalizing d with
  | nil => exact h
  | cons r rest ih => exact ih _ (aadd_nodup d r.1 r.2 h)

theorem aaddAll_append_of_nodup (rows d : List (Key × V)) (h : (d.map Prod.fst ++ rows.map Prod.fst).Nodup) :
    aaddAll d rows = d ++ rows := by
  induction rows generalizing d with
  | nil => simp [aaddAll]
  | cons r rest ih =>
    simp only [aaddAll, List.foldl]
    have hr : ahas d r.1 = false := by
      rw [ahas_false_iff]
      intro hm
      rw [List.nodup_append] at h
      exact h.2.2 _ hm _ (by simp) rfl
    have : aadd d r.1 r.2 = d ++ [r] := by unfold aadd; simp [hr]
    rw [this]
    have h2 := ih (d ++ [r]) (by simpa [List.append_assoc] using h)
    simp only [aaddAll] at h2
    rw [h2]; simp

theorem aaddAll_nil_of_nodup (rows : List (Key × V)) (h : NodupKeys rows) : aaddAll [] rows = rows := by
  have := aaddAll_append_of_nodup rows [] (by simpa [NodupKeys] using h)
  simpa using this

end Tables

/-! ## reference tables: what a fresh process computes for a module, by recursion over its imports -/

/-- modules that are loaded once and stay (the library stubs and what they import), with their tables -/
structure Base (V : Type) where
  mods : List ModPath
  tbl : ModPath → List (Key × V)

section Ref
variable {Src Tree NV V Text : Type} (L : Lang Src Tree NV V Text) (B : Base V)

/-- the symbol table as ExpandModules of a module with imports `imps` may see it: the tables of its imports and of the base -/
def refLook (rec : ModPath → Option (List (Key × V))) (imps : List ModPath) : Key → Option V :=
  fun k => if modOf k ∈ imps ∨ modOf k ∈ B.mods then (rec (modOf k)).bind (fun T => alookup T k) else none

def rowsOf (x : ModPath) (ins : List (Str × V)) : List (Key × V) := ins.map (fun lv => (fullJoined x lv.1, lv.2))

def extendRows (rows : List (Key × V)) : List (Key × V) := rows.map (fun kv => (kv.1, L.extend kv.2))

def refStep (rec : ModPath → Option (List (Key × V))) (x : ModPath) (src : Src) : Option (List (Key × V)) :=
  match L.parse src with
  | none => none
  | some t =>
    if (L.imports t).all (fun d => (rec d).isSome) then
      match L.expand x (L.query t) (refLook B rec (L.imports t)) with
      | (ins, none) => some (extendRows L (aaddAll [] (rowsOf x ins)))
      | (_, some _) => none
    else none

/-- the table of `x` in a fresh process, for import depth at most `n`; `none` = not (yet) defined -/
def refTbl (srcf : ModPath → Option Src) : Nat → ModPath → Option (List (Key × V))
  | 0, x => if x ∈ B.mods then some (B.tbl x) else none
  | n + 1, x => if x ∈ B.mods then some (B.tbl x) else (srcf x).bind (refStep L B (refTbl srcf n) x)

theorem refTbl_base (srcf : ModPath → Option Src) (n : Nat) (x : ModPath) (hx : x ∈ B.mods) : refTbl L B srcf n x = some (B.tbl x) := by
  cases n <;> simp [refTbl, hx]

theorem refTbl_succ_eq (srcf : ModPath → Option Src) (n : Nat) (x : ModPath) :
    refTbl L B srcf (n + 1) x = if x ∈ B.mods then some (B.tbl x) else (srcf x).bind (refStep L B (refTbl L B srcf n) x) := rfl

theorem refTbl_succ (srcf : ModPath → Option Src) (n : Nat) (x : ModPath) (T : List (Key × V))
    (h : refTbl L B srcf n x = some T) : refTbl L B srcf (n + 1) x = some T := by
  induction n generalizing x T with
  | zero =>
    simp only [refTbl] at h
    split at h
    · next hb => cases h; exact refTbl_base L B srcf 1 x hb
    · cases h
  | succ n ih =>
    by_cases hb : x ∈ B.mods
    · rw [refTbl_base L B srcf _ x hb] at h ⊢; exact h
    · rw [refTbl_succ_eq, if_neg hb] at h ⊢
      cases hs : srcf x with
      | none => rw [hs] at h; cases h
      | some src =>
        rw [hs] at h
        simp only [Option.bind] at h ⊢
        unfold refStep at h ⊢
        cases hp : L.parse src with
        | none => rw [hp] at h; cases h
        | some t =>
          rw [hp] at h
          simp only at h ⊢
          by_cases hall : (L.imports t).all (fun d => (refTbl L B srcf n d).isSome) = true
          · rw [if_pos hall] at h
            have hall' : (L.imports t).all (fun d => (refTbl L B srcf (n + 1) d).isSome) = true := by
              rw [List.all_eq_true] at hall ⊢
              intro d hd
              have := hall d hd
              cases hd' : refTbl L B srcf n d with
              | none => rw [hd'] at this; cases this
              | some Td => rw [ih d Td hd']; rfl
            have hlook : refLook B (refTbl L B srcf (n + 1)) (L.imports t) = refLook B (refTbl L B srcf n) (L.imports t) := by
              funext k
              unfold refLook
              by_cases hk : modOf k ∈ L.imports t ∨ modOf k ∈ B.mods
              · simp only [hk, if_true]
                rcases hk with hk | hk
                · rw [List.all_eq_true] at hall
                  have := hall _ hk
                  cases hd' : refTbl L B srcf n (modOf k) with
                  | none => rw [hd'] at this; cases this
                  | some Td => rw [ih _ Td hd']
                · rw [refTbl_base L B srcf _ _ hk, refTbl_base L B srcf _ _ hk]
              · simp only [hk, if_false]
            rw [if_pos hall', hlook]
            exact h
          · rw [if_neg hall] at h; cases h

theorem refTbl_mono (srcf : ModPath → Option Src) {n m : Nat} (hnm : n ≤ m) (x : ModPath) (T : List (Key × V))
    (h : refTbl L B srcf n x = some T) : refTbl L B srcf m x = some T := by
  induction hnm with
  | refl => exact h
  | step _ ih => exact refTbl_succ L B srcf _ x T ih

theorem refTbl_unique (srcf : ModPath → Option Src) {n m : Nat} (x : ModPath) (T T' : List (Key × V))
    (h : refTbl L B srcf n x = some T) (h' : refTbl L B srcf m x = some T') : T = T' := by
  have h1 := refTbl_mono L B srcf (Nat.le_max_left n m) x T h
  have h2 := refTbl_mono L B srcf (Nat.le_max_right n m) x T' h'
  rw [h1] at h2; cases h2; rfl

/-- `x` has a reference table: it and everything it imports parse, its import graph below it is acyclic, ExpandModules succeeds -/
def Good (srcf : ModPath → Option Src) (x : ModPath) : Prop := ∃ n T, refTbl L B srcf n x = some T

/-! ### the error a fresh load raises -/

/-- `[load(p) for p in ps]` in a fresh context: `some none` = every module is good, `some (some e)` = the first module that is
    not good raises `e`, `none` = not determined at this depth -/
def scanErr (good : ModPath → Bool) (err : ModPath → Option Err) : List ModPath → Option (Option Err)
  | [] => some none
  | p :: ps => if good p then scanErr good err ps else (err p).map some

/-- the error `load x` raises in a fresh process (`none` = no error, or not determined at depth `n`) -/
def refErr (srcf : ModPath → Option Src) : Nat → ModPath → Option Err
  | 0, _ => none
  | n + 1, x =>
    if x ∈ B.mods then none else
    match srcf x with
    | none => some .syntax
    | some src =>
      match L.parse src with
      | none => some .syntax
      | some t =>
        match scanErr (fun d => (refTbl L B srcf n d).isSome) (refErr srcf n) (L.imports t) with
        | none => none
        | some (some e) => some e
        | some none => (L.expand x (L.query t) (refLook B (refTbl L B srcf n) (L.imports t))).2

theorem scanErr_some_some {good : ModPath → Bool} {err : ModPath → Option Err} {ps : List ModPath} {e : Err}
    (h : scanErr good err ps = some (some e)) : ∃ d, d ∈ ps ∧ good d = false ∧ err d = some e := by
  induction ps with
  | nil => simp [scanErr] at h
  | cons p rest ih =>
    simp only [scanErr] at h
    by_cases hg : good p = true
    · simp only [hg, if_true] at h
      obtain ⟨d, hd, a, b⟩ := ih h
      exact ⟨d, List.mem_cons_of_mem _ hd, a, b⟩
    · simp only [hg, if_false, Bool.false_eq_true] at h
      cases he : err p with
      | none => rw [he] at h; cases h
      | some e' =>
        rw [he] at h
        simp only [Option.map, Option.some.injEq] at h
        exact ⟨p, by simp, by simpa using hg, by rw [he, h]⟩

theorem scanErr_some_none {good : ModPath → Bool} {err : ModPath → Option Err} {ps : List ModPath}
    (h : scanErr good err ps = some none) : ∀ d, d ∈ ps → good d = true := by
  induction ps with
  | nil => intro d hd; cases hd
  | cons p rest ih =>
    simp only [scanErr] at h
    by_cases hg : good p = true
    · simp only [hg, if_true] at h
      intro d hd
      rcases List.mem_cons.1 hd with e | e
      · exact e ▸ hg
      · exact ih h d e
    · simp only [hg, if_false, Bool.false_eq_true] at h
      cases he : err p with
      | none => rw [he] at h; cases h
      | some e' => rw [he] at h; cases h

theorem refLook_eq_of_defined (srcf : ModPath → Option Src) (n m : Nat) (imps : List ModPath)
    (h : ∀ d, d ∈ imps → (refTbl L B srcf n d).isSome = true ∧ (refTbl L B srcf m d).isSome = true) :
    refLook B (refTbl L B srcf n) imps = refLook B (refTbl L B srcf m) imps := by
  funext k
  unfold refLook
  by_cases hk : modOf k ∈ imps ∨ modOf k ∈ B.mods
  · simp only [hk, if_true]
    rcases hk with hk | hk
    · obtain ⟨a, b⟩ := h _ hk
      cases ha : refTbl L B srcf n (modOf k) with
      | none => rw [ha] at a; cases a
      | some T =>
        cases hb : refTbl L B srcf m (modOf k) with
        | none => rw [hb] at b; cases b
        | some T' => rw [refTbl_unique L B srcf _ T T' ha hb]
    · rw [refTbl_base L B srcf _ _ hk, refTbl_base L B srcf _ _ hk]
  · simp only [hk, if_false]


end Ref

/-! ## a good module loads successfully and gets its reference table -/

section Main
variable {Src Tree NV V Text : Type} (L : Lang Src Tree NV V Text) (E : Env Src) (B : Base V)

theorem srcOf_congr (s s' : St L) (h : s'.mainSrc = s.mainSrc) : srcOf L E s' = srcOf L E s := by
  funext x; unfold srcOf; rw [h]

theorem rowsOf_tagged (p : ModPath) (hp : GoodName p) (ins : List (Str × V)) : ∀ kv, kv ∈ rowsOf p ins → modOf kv.1 = p := by
  intro kv hkv
  simp only [rowsOf, List.mem_map] at hkv
  obtain ⟨lv, _, e⟩ := hkv
  rw [← e]; exact modOf_fullJoined p lv.1 hp

theorem extendRows_keys (rows : List (Key × V)) : (extendRows L rows).map Prod.fst = rows.map Prod.fst := by
  simp [extendRows, List.map_map, Function.comp_def]

theorem refRows_nodup (p : ModPath) (ins : List (Str × V)) : NodupKeys (extendRows L (aaddAll [] (rowsOf p ins))) := by
  unfold NodupKeys
  rw [extendRows_keys]
  exact aaddAll_nodup _ [] (by simp [NodupKeys])

theorem refRows_tagged (p : ModPath) (hp : GoodName p) (ins : List (Str × V)) :
    ∀ kv, kv ∈ extendRows L (aaddAll [] (rowsOf p ins)) → modOf kv.1 = p := by
  intro kv hkv
  simp only [extendRows, List.mem_map] at hkv
  obtain ⟨kv', hkv', e⟩ := hkv
  rw [← e]
  rcases mem_aaddAll hkv' with h | h
  · cases h
  · exact rowsOf_tagged p hp ins kv' h

/-- the successful run of the processors on a module whose table is empty and whose imports and base have their
    reference tables (the heart of the argument: ExpandModules sees the same things as in a fresh process) -/
theorem preprocess_goodCore (TreeOk : Tree → Prop)
    (hloc : ∀ x t look₁ look₂, TreeOk t → (∀ k, (modOf k = x ∨ modOf k ∈ L.imports t ∨ modOf k ∈ B.mods) → look₁ k = look₂ k) →
      L.expand x (L.query t) look₁ = L.expand x (L.query t) look₂)
    (s : St L) (p : ModPath) (hp : GoodName p) (hI : Inv L E s) (ep : Ep Tree NV) (hep : alookup s.eps p = some ep)
    (htok : TreeOk ep.tree) (hempty : tableOf s.db p = []) (rec : ModPath → Option (List (Key × V)))
    (hagree : ∀ k, (modOf k = p ∨ modOf k ∈ L.imports ep.tree ∨ modOf k ∈ B.mods) → alookup s.db k = refLook B rec (L.imports ep.tree) k)
    (ins : List (Str × V)) (hexp : L.expand p (L.query ep.tree) (refLook B rec (L.imports ep.tree)) = (ins, none))
    (hstored : ∀ rows, alookup s.stored p = some rows → rows = extendRows L (aaddAll [] (rowsOf p ins))) :
    (preprocessCore L E s p).1 = .ok () ∧ tableOf (preprocessCore L E s p).2.db p = extendRows L (aaddAll [] (rowsOf p ins)) := by
  unfold preprocessCore
  have hhm : hasModule s.db p = false := (hasModule_false_iff s.db p).2 hempty
  simp only [hhm, Bool.false_eq_true, if_false]
  cases hst : (if onDisk E p = true then alookup s.stored p else none) with
  | some rows =>
    simp only
    have hrows : rows = extendRows L (aaddAll [] (rowsOf p ins)) := by
      apply hstored
      split at hst
      · exact hst
      · cases hst
    refine ⟨by trivial, ?_⟩
    rw [tableOf_aaddAll_self rows s.db p (by rw [hrows]; exact refRows_tagged L p hp ins), hempty,
      aaddAll_nil_of_nodup rows (by rw [hrows]; exact refRows_nodup L p ins), hrows]
  | none =>
    simp only [hep]
    have hnf : Ep.nf L ep = L.query ep.tree := nf_eq L ep (hI.memo p ep hep)
    have hex : L.expand p (Ep.nf L ep) (alookup s.db) = (ins, none) := by
      rw [hnf, hloc p ep.tree (alookup s.db) (refLook B rec (L.imports ep.tree)) htok hagree, hexp]
    rw [hex]
    simp only
    have key : tableOf ((aaddAll s.db (List.map (fun lv => (fullJoined p lv.1, lv.2)) ins)).map
        (fun kv => if modOf kv.1 = p then (kv.1, L.extend kv.2) else kv)) p = extendRows L (aaddAll [] (rowsOf p ins)) := by
      have := tableOf_aaddAll_self (rowsOf p ins) s.db p (rowsOf_tagged p hp ins)
      unfold rowsOf at this
      rw [tableOf_map_self, this, hempty]
      rfl
    split
    · exact ⟨rfl, key⟩
    · exact ⟨rfl, key⟩

/-- symbol files after `preprocess p`: the old ones, and possibly the table of `p` -/
theorem preprocess_storedCore (s : St L) (p : ModPath) (q : ModPath) (rows : List (Key × V))
    (h : alookup (preprocessCore L E s p).2.stored q = some rows) :
    alookup s.stored q = some rows ∨
      (q = p ∧ onDisk E p = true ∧ rows = tableOf (preprocessCore L E s p).2.db p ∧ (preprocessCore L E s p).1 = .ok ()) := by
  unfold preprocessCore at h ⊢
  by_cases hm : hasModule s.db p = true
  · simp only [hm, if_true] at h ⊢; exact Or.inl h
  · simp only [hm, Bool.false_eq_true, if_false] at h ⊢
    cases hst : (if onDisk E p = true then alookup s.stored p else none) with
    | some rows' => rw [hst] at h; simp only at h ⊢; exact Or.inl h
    | none =>
      rw [hst] at h
      simp only at h ⊢
      cases hep : alookup s.eps p with
      | none => rw [hep] at h; simp only at h ⊢; exact Or.inl h
      | some ep =>
        rw [hep] at h
        simp only at h ⊢
        generalize L.expand p (Ep.nf L ep) (alookup s.db) = r at h ⊢
        cases hr : r.2 with
        | some e => rw [hr] at h; simp only at h ⊢; exact Or.inl h
        | none =>
          rw [hr] at h
          simp only at h ⊢
          split at h
          · next hc =>
            simp only [hc, if_true]
            simp only at h
            rw [alookup_append] at h
            cases hq : alookup s.stored q with
            | some w => rw [hq] at h; simp only at h; left; rw [← h]
            | none =>
              rw [hq] at h
              simp only at h
              split at h
              · next e => right; cases h; exact ⟨e.symm, by simp only [Bool.and_eq_true] at hc; exact hc.1, rfl, trivial⟩
              · cases h
          · next hc =>
            simp only [hc, if_false]
            exact Or.inl h

variable (rank : ModPath → Nat) (TreeOk : Tree → Prop)

/-- hypotheses on the world: names, locality of ExpandModules, an acyclic import graph, the in-memory module is imported
    by nobody and is not a file, the libraries are part of the pinned base -/
structure World : Prop where
  names : Names L E
  local_expand : ∀ x t look₁ look₂, TreeOk t → (∀ k, (modOf k = x ∨ modOf k ∈ L.imports t ∨ modOf k ∈ B.mods) → look₁ k = look₂ k) →
      L.expand x (L.query t) look₁ = L.expand x (L.query t) look₂
  acyclic : ∀ x src t, E.disk x = some src → L.parse src = some t → TreeOk t ∧ ∀ d, d ∈ L.imports t → rank d < rank x
  main_disk : E.disk E.main = none
  main_base : E.main ∉ B.mods
  no_import_main : ∀ x src t, E.disk x = some src → L.parse src = some t → E.main ∉ L.imports t
  libs_base : ∀ l, l ∈ E.libs → l ∈ B.mods
  base_closed : ∀ b, b ∈ B.mods → ∀ src t, E.disk b = some src → L.parse src = some t → ∀ d, d ∈ L.imports t → d ∈ B.mods

/-- a source of the in-memory module imports only modules below it -/
def SrcAcyclic (src : Src) : Prop := ∀ t, L.parse src = some t → TreeOk t ∧ ∀ d, d ∈ L.imports t → rank d < rank E.main

/-- the tables of the registered modules (except those in the middle of being loaded, `Ex`) are reference tables: what is
    registered is good -/
structure Settled (s : St L) (Ex : List ModPath) : Prop where
  base : ∀ b, b ∈ B.mods → b ∈ s.mods
  table : ∀ x, x ∈ s.mods → x ∉ Ex → ∃ n T, refTbl L B (srcOf L E s) n x = some T ∧ tableOf s.db x = T
  stored : ∀ p rows, alookup s.stored p = some rows → ∃ n, refTbl L B (srcOf L E s) n p = some rows
  storedDisk : ∀ p rows, alookup s.stored p = some rows → onDisk E p = true
  /-- every registered file module has its identity memoised (`Module.__identity`), so no identity is ever computed by the
      mid-load fallback -/
  ident : ∀ x, x ∈ s.mods → x ∉ Ex → onDisk E x = true →
    x ∈ s.ident ∧ ∀ d, d ∈ importsOf L s x → onDisk E d = true → d ∈ s.mods ∧ d ∉ Ex
  mainAcyclic : SrcAcyclic L E rank TreeOk s.mainSrc

theorem Settled.tableEq {s : St L} {Ex : List ModPath} (h : Settled L E B rank TreeOk s Ex) (x : ModPath) (hx : x ∈ s.mods)
    (hEx : x ∉ Ex) (n : Nat) (T : List (Key × V)) (hT : refTbl L B (srcOf L E s) n x = some T) : tableOf s.db x = T := by
  obtain ⟨n', T', hT', he⟩ := h.table x hx hEx
  rw [he]; exact refTbl_unique L B _ x T' T hT' hT

theorem imports_rank (hW : World L E B rank TreeOk) (s : St L) (p : ModPath) (ep : Ep Tree NV) (hI : Inv L E s)
    (hM : SrcAcyclic L E rank TreeOk s.mainSrc) (hep : alookup s.eps p = some ep) :
    TreeOk ep.tree ∧ ∀ d, d ∈ L.imports ep.tree → rank d < rank p := by
  have ht := hI.tree p ep hep
  unfold srcOf at ht
  cases hd : E.disk p with
  | some src =>
    rw [hd] at ht
    exact hW.acyclic p src ep.tree hd (by simpa using ht)
  | none =>
    rw [hd] at ht
    simp only at ht
    split at ht
    · next e => rw [e]; exact hM ep.tree (by simpa using ht)
    · simp at ht

/-- unpacking the definition of a reference table of a non-base module -/
theorem refTbl_step {srcf : ModPath → Option Src} {n : Nat} {x : ModPath} {T : List (Key × V)} (hx : x ∉ B.mods)
    (h : refTbl L B srcf n x = some T) :
    ∃ m src t ins, n = m + 1 ∧ srcf x = some src ∧ L.parse src = some t ∧
      (∀ d, d ∈ L.imports t → ∃ Td, refTbl L B srcf m d = some Td) ∧
      L.expand x (L.query t) (refLook B (refTbl L B srcf m) (L.imports t)) = (ins, none) ∧
      T = extendRows L (aaddAll [] (rowsOf x ins)) := by
  cases n with
  | zero => simp [refTbl, hx] at h
  | succ m =>
    rw [refTbl_succ_eq, if_neg hx] at h
    cases hs : srcf x with
    | none => rw [hs] at h; cases h
    | some src =>
      rw [hs] at h
      simp only [Option.bind] at h
      unfold refStep at h
      cases hp : L.parse src with
      | none => rw [hp] at h; cases h
      | some t =>
        rw [hp] at h
        simp only at h
        by_cases hall : (L.imports t).all (fun d => (refTbl L B srcf m d).isSome) = true
        · rw [if_pos hall] at h
          generalize hr : L.expand x (L.query t) (refLook B (refTbl L B srcf m) (L.imports t)) = r at h
          obtain ⟨ins, err⟩ := r
          cases err with
          | some e => cases h
          | none =>
            simp only [Option.some.injEq] at h
            refine ⟨m, src, t, ins, rfl, rfl, hp, ?_, hr, h.symm⟩
            intro d hd
            rw [List.all_eq_true] at hall
            have := hall d hd
            cases hd' : refTbl L B srcf m d with
            | none => rw [hd'] at this; cases this
            | some Td => exact ⟨Td, rfl⟩
        · rw [if_neg hall] at h; cases h


/-- a module cannot be good and have a reference error -/
theorem good_not_err (srcf : ModPath → Option Src) : ∀ n x e, refErr L B srcf n x = some e → ∀ m T, refTbl L B srcf m x = some T → False := by
  intro n
  induction n with
  | zero => intro x e h; simp [refErr] at h
  | succ n ih =>
    intro x e h m T hT
    simp only [refErr] at h
    by_cases hb : x ∈ B.mods
    · simp [hb] at h
    · simp only [hb, if_false] at h
      obtain ⟨m', src, t, ins, hm, hsrc, hparse, hdeps, hexp, _⟩ := refTbl_step L B hb hT
      rw [hsrc] at h
      simp only [hparse] at h
      cases hsc : scanErr (fun d => (refTbl L B srcf n d).isSome) (refErr L B srcf n) (L.imports t) with
      | none => rw [hsc] at h; cases h
      | some r =>
        rw [hsc] at h
        cases r with
        | some e' =>
          obtain ⟨d, hd, _, hde⟩ := scanErr_some_some hsc
          obtain ⟨Td, hTd⟩ := hdeps d hd
          exact ih d e' hde m' Td hTd
        | none =>
          simp only at h
          have hall := scanErr_some_none hsc
          have hl := refLook_eq_of_defined L B srcf n m' (L.imports t) (fun d hd => ⟨hall d hd, by obtain ⟨Td, hTd⟩ := hdeps d hd; rw [hTd]; rfl⟩)
          rw [hl, hexp] at h
          cases h


/-! ### the reference is determined for every module of an acyclic world -/

theorem scanErr_mono (good good' : ModPath → Bool) (err err' : ModPath → Option Err) (ps : List ModPath) (r : Option Err)
    (hg : ∀ d, d ∈ ps → good d = true → good' d = true)
    (he : ∀ d e, d ∈ ps → good d = false → err d = some e → good' d = false ∧ err' d = some e)
    (h : scanErr good err ps = some r) : scanErr good' err' ps = some r := by
  induction ps with
  | nil => exact h
  | cons p rest ih =>
    simp only [scanErr] at h ⊢
    by_cases hp : good p = true
    · simp only [hp, if_true] at h
      simp only [hg p (by simp) hp, if_true]
      exact ih (fun d hd => hg d (List.mem_cons_of_mem _ hd)) (fun d e hd => he d e (List.mem_cons_of_mem _ hd)) h
    · have hp' : good p = false := by simpa using hp
      simp only [hp', Bool.false_eq_true, if_false] at h
      cases hep : err p with
      | none => rw [hep] at h; cases h
      | some e =>
        obtain ⟨a, b⟩ := he p e (by simp) hp' hep
        rw [hep] at h
        simp only [a, Bool.false_eq_true, if_false, b]
        exact h

theorem refErr_succ_eq (srcf : ModPath → Option Src) (n : Nat) (x : ModPath) :
    refErr L B srcf (n + 1) x =
      if x ∈ B.mods then none else
      match srcf x with
      | none => some .syntax
      | some src =>
        match L.parse src with
        | none => some .syntax
        | some t =>
          match scanErr (fun d => (refTbl L B srcf n d).isSome) (refErr L B srcf n) (L.imports t) with
          | none => none
          | some (some e) => some e
          | some none => (L.expand x (L.query t) (refLook B (refTbl L B srcf n) (L.imports t))).2 := rfl

theorem refErr_succ (srcf : ModPath → Option Src) : ∀ n x e, refErr L B srcf n x = some e → refErr L B srcf (n + 1) x = some e := by
  intro n
  induction n with
  | zero => intro x e h; simp [refErr] at h
  | succ n ih =>
    intro x e h
    rw [refErr_succ_eq] at h ⊢
    by_cases hb : x ∈ B.mods
    · simp [hb] at h
    · simp only [hb, if_false] at h ⊢
      cases hs : srcf x with
      | none => rw [hs] at h; exact h
      | some src =>
        rw [hs] at h
        simp only at h ⊢
        cases hp : L.parse src with
        | none => rw [hp] at h; exact h
        | some t =>
          rw [hp] at h
          simp only at h ⊢
          cases hsc : scanErr (fun d => (refTbl L B srcf n d).isSome) (refErr L B srcf n) (L.imports t) with
          | none => rw [hsc] at h; cases h
          | some r =>
            rw [hsc] at h
            have hsc' : scanErr (fun d => (refTbl L B srcf (n + 1) d).isSome) (refErr L B srcf (n + 1)) (L.imports t) = some r := by
              apply scanErr_mono _ _ _ _ _ r _ _ hsc
              · intro d _ hd
                cases hT : refTbl L B srcf n d with
                | none => rw [hT] at hd; cases hd
                | some T => rw [refTbl_succ L B srcf n d T hT]; rfl
              · intro d e' _ _ hde
                refine ⟨?_, ih d e' hde⟩
                cases hT : refTbl L B srcf (n + 1) d with
                | none => rfl
                | some T => exact absurd hT (fun hh => good_not_err L B srcf n d e' hde (n + 1) T hh)
            rw [hsc']
            cases r with
            | some e' => exact h
            | none =>
              simp only at h ⊢
              have hall := scanErr_some_none hsc
              have hall' := scanErr_some_none hsc'
              rw [← refLook_eq_of_defined L B srcf n (n + 1) (L.imports t) (fun d hd => ⟨hall d hd, hall' d hd⟩)]
              exact h

theorem refErr_mono (srcf : ModPath → Option Src) {n m : Nat} (hnm : n ≤ m) (x : ModPath) (e : Err)
    (h : refErr L B srcf n x = some e) : refErr L B srcf m x = some e := by
  induction hnm with
  | refl => exact h
  | step _ ih => exact refErr_succ L B srcf _ x e ih

/-- a module is determined at depth `n`: it has a reference table or a reference error -/
def Determined (srcf : ModPath → Option Src) (n : Nat) (x : ModPath) : Prop :=
  (∃ T, refTbl L B srcf n x = some T) ∨ (∃ e, refErr L B srcf n x = some e)

theorem Determined.mono (srcf : ModPath → Option Src) {n m : Nat} (hnm : n ≤ m) (x : ModPath) (h : Determined L B srcf n x) :
    Determined L B srcf m x := by
  rcases h with ⟨T, hT⟩ | ⟨e, he⟩
  · exact Or.inl ⟨T, refTbl_mono L B srcf hnm x T hT⟩
  · exact Or.inr ⟨e, refErr_mono L B srcf hnm x e he⟩

theorem determined_common (srcf : ModPath → Option Src) (l : List ModPath) (h : ∀ d, d ∈ l → ∃ n, Determined L B srcf n d) :
    ∃ N, ∀ d, d ∈ l → Determined L B srcf N d := by
  induction l with
  | nil => exact ⟨0, fun d hd => by cases hd⟩
  | cons a rest ih =>
    obtain ⟨N, hN⟩ := ih (fun d hd => h d (List.mem_cons_of_mem _ hd))
    obtain ⟨n, hn⟩ := h a (by simp)
    refine ⟨max N n, ?_⟩
    intro d hd
    rcases List.mem_cons.1 hd with e | e
    · subst e; exact Determined.mono L B srcf (Nat.le_max_right N n) _ hn
    · exact Determined.mono L B srcf (Nat.le_max_left N n) d (hN d e)

theorem scanErr_determined (good : ModPath → Bool) (err : ModPath → Option Err) (ps : List ModPath)
    (h : ∀ d, d ∈ ps → good d = true ∨ ∃ e, err d = some e) : ∃ r, scanErr good err ps = some r := by
  induction ps with
  | nil => exact ⟨none, rfl⟩
  | cons p rest ih =>
    simp only [scanErr]
    by_cases hp : good p = true
    · simp only [hp, if_true]
      exact ih (fun d hd => h d (List.mem_cons_of_mem _ hd))
    · simp only [hp, if_false, Bool.false_eq_true]
      rcases h p (by simp) with h1 | ⟨e, he⟩
      · exact absurd h1 hp
      · exact ⟨some e, by rw [he]; rfl⟩

/-- when the imports of every parseable module have smaller rank, every module is determined at some depth -/
theorem determined_of_acyclic (srcf : ModPath → Option Src) (rank : ModPath → Nat)
    (hacyc : ∀ x src t, srcf x = some src → L.parse src = some t → ∀ d, d ∈ L.imports t → rank d < rank x) :
    ∀ k x, rank x < k → ∃ n, Determined L B srcf n x := by
  intro k
  induction k with
  | zero => intro x h; exact absurd h (Nat.not_lt_zero _)
  | succ k ih =>
    intro x hx
    by_cases hb : x ∈ B.mods
    · exact ⟨0, Or.inl ⟨_, refTbl_base L B srcf 0 x hb⟩⟩
    · cases hs : srcf x with
      | none => exact ⟨1, Or.inr ⟨.syntax, by simp [refErr, hb, hs]⟩⟩
      | some src =>
        cases hp : L.parse src with
        | none => exact ⟨1, Or.inr ⟨.syntax, by simp [refErr, hb, hs, hp]⟩⟩
        | some t =>
          obtain ⟨N, hN⟩ := determined_common L B srcf (L.imports t)
            (fun d hd => ih d (Nat.lt_of_lt_of_le (hacyc x src t hs hp d hd) (Nat.le_of_lt_succ hx)))
          obtain ⟨r, hr⟩ := scanErr_determined (fun d => (refTbl L B srcf N d).isSome) (refErr L B srcf N) (L.imports t)
            (fun d hd => by
              rcases hN d hd with ⟨T, hT⟩ | ⟨e, he⟩
              · left; rw [hT]; rfl
              · exact Or.inr ⟨e, he⟩)
          refine ⟨N + 1, ?_⟩
          cases r with
          | some e => exact Or.inr ⟨e, by simp [refErr, hb, hs, hp, hr]⟩
          | none =>
            have hall := scanErr_some_none hr
            cases hex : L.expand x (L.query t) (refLook B (refTbl L B srcf N) (L.imports t)) with
            | mk ins err =>
              cases err with
              | some e => exact Or.inr ⟨e, by simp [refErr, hb, hs, hp, hr, hex]⟩
              | none =>
                left
                refine ⟨extendRows L (aaddAll [] (rowsOf x ins)), ?_⟩
                rw [refTbl_succ_eq, if_neg hb, hs]
                simp only [Option.bind, refStep, hp]
                have : (L.imports t).all (fun d => (refTbl L B srcf N d).isSome) = true := by
                  rw [List.all_eq_true]; exact hall
                rw [if_pos this, hex]

/-- loading modules that are all registered does nothing (or runs out of fuel) -/
def RecReg (rec : List ModPath → St L → Except Err Unit × St L) : Prop :=
  ∀ ps s, (∀ p, p ∈ ps → p ∈ s.mods) → rec ps s = (.ok (), s) ∨ rec ps s = (.error .recursion, s)

theorem loadAll_registered : ∀ f, RecReg L (loadAll L E f) := by
  intro f
  induction f with
  | zero =>
    intro ps s _
    cases ps with
    | nil => exact Or.inl rfl
    | cons p ps => exact Or.inr rfl
  | succ f ih =>
    intro ps s hps
    cases ps with
    | nil => exact Or.inl rfl
    | cons p ps =>
      have hp : p ∈ s.mods := hps p (by simp)
      simp only [loadAll, loadOne, hp, if_true]
      exact ih ps s (fun q hq => hps q (List.mem_cons_of_mem _ hq))

/-- the history-independence specification of a function that loads a list of modules -/
def RecQ (rec : List ModPath → St L → Except Err Unit × St L) : Prop :=
  ∀ ps s Ex, (∀ p, p ∈ ps → GoodName p) → Inv L E s → EpsSub L s → SrcOk L s.mainSrc → Settled L E B rank TreeOk s Ex →
    (∀ p, p ∈ ps → ∀ a, a ∈ Ex → rank p < rank a) → (∀ a, a ∈ Ex → a ∉ B.mods) →
    (rec ps s).1 ≠ .error .recursion →
    Settled L E B rank TreeOk (rec ps s).2 Ex ∧
    ((∀ p, p ∈ ps → Good L B (srcOf L E s) p) → (rec ps s).1 = .ok ()) ∧
    (∀ n e, scanErr (fun d => (refTbl L B (srcOf L E s) n d).isSome) (refErr L B (srcOf L E s) n) ps = some (some e) → (rec ps s).1 = .error e)

theorem parseModule_ok (s : St L) (p : ModPath) (t : Tree) (hast : ∀ x t, alookup s.ast x = some t → (E.disk x).bind L.parse = some t)
    (h : (srcOf L E s p).bind L.parse = some t) : (parseModule L E s p).1 = .ok t := by
  unfold parseModule
  unfold srcOf at h
  cases hd : E.disk p with
  | none =>
    rw [hd] at h
    simp only at h ⊢
    split at h
    · next e =>
      simp only [e, if_true] at h ⊢
      have : L.parse s.mainSrc = some t := by simpa using h
      rw [this]
    · simp at h
  | some src =>
    rw [hd] at h
    simp only at h ⊢
    have hp : L.parse src = some t := by simpa using h
    cases ha : alookup s.ast p with
    | some t' =>
      have := hast p t' ha
      rw [hd] at this
      have : L.parse src = some t' := by simpa using this
      rw [hp] at this; cases this; rfl
    | none => simp only [hp]

theorem epLoad_ok (s : St L) (p : ModPath) (t : Tree) (hI : Inv L E s) (h : (srcOf L E s p).bind L.parse = some t) :
    (epLoad L E s p).1 = .ok () := by
  unfold epLoad
  split
  · rfl
  · have := parseModule_ok L E s p t hI.ast h
    generalize parseModule L E s p = pm at this
    obtain ⟨r, s1⟩ := pm
    simp only at this
    subst this
    rfl

theorem tableOf_nil_of_unregistered (s : St L) (p : ModPath) (hI : Inv L E s) (hp : p ∉ s.mods) : tableOf s.db p = [] := by
  unfold tableOf
  rw [List.filter_eq_nil_iff]
  intro kv hkv
  simp only [decide_eq_true_eq]
  intro e
  exact hp (e ▸ hI.tags kv.1 kv.2 hkv)


theorem parseModule_err (s : St L) (p : ModPath) (hast : ∀ x t, alookup s.ast x = some t → (E.disk x).bind L.parse = some t)
    (h : (srcOf L E s p).bind L.parse = none) : (parseModule L E s p).1 = .error .syntax := by
  unfold parseModule
  unfold srcOf at h
  cases hd : E.disk p with
  | none =>
    rw [hd] at h
    simp only at h ⊢
    by_cases e : p = E.main
    · simp only [e, if_true] at h ⊢
      have : L.parse s.mainSrc = none := by simpa using h
      rw [this]
    · simp only [e, if_false]
  | some src =>
    rw [hd] at h
    simp only at h ⊢
    have hp : L.parse src = none := by simpa using h
    cases ha : alookup s.ast p with
    | some t' =>
      have := hast p t' ha
      rw [hd] at this
      have : L.parse src = some t' := by simpa using this
      rw [hp] at this; cases this
    | none => simp only [hp]

theorem epLoad_err (s : St L) (p : ModPath) (hI : Inv L E s) (hE : EpsSub L s) (hp : p ∉ s.mods)
    (h : (srcOf L E s p).bind L.parse = none) : (epLoad L E s p).1 = .error .syntax := by
  unfold epLoad
  have : ahas s.eps p = false := by
    cases hh : ahas s.eps p with
    | false => rfl
    | true => exact absurd (hE p hh) hp
  simp only [this, Bool.false_eq_true, if_false]
  have := parseModule_err L E s p hI.ast h
  generalize parseModule L E s p = pm at this
  obtain ⟨r, s1⟩ := pm
  simp only at this
  subst this
  rfl

/-- the processors fail with the reference error when ExpandModules fails on the reference tables -/
theorem preprocess_badCore (TreeOk : Tree → Prop)
    (hloc : ∀ x t look₁ look₂, TreeOk t → (∀ k, (modOf k = x ∨ modOf k ∈ L.imports t ∨ modOf k ∈ B.mods) → look₁ k = look₂ k) →
      L.expand x (L.query t) look₁ = L.expand x (L.query t) look₂)
    (s : St L) (p : ModPath) (hI : Inv L E s) (ep : Ep Tree NV) (hep : alookup s.eps p = some ep)
    (htok : TreeOk ep.tree) (hempty : tableOf s.db p = []) (rec : ModPath → Option (List (Key × V)))
    (hagree : ∀ k, (modOf k = p ∨ modOf k ∈ L.imports ep.tree ∨ modOf k ∈ B.mods) → alookup s.db k = refLook B rec (L.imports ep.tree) k)
    (e : Err) (hexp : (L.expand p (L.query ep.tree) (refLook B rec (L.imports ep.tree))).2 = some e)
    (hstored : alookup s.stored p = none) :
    (preprocessCore L E s p).1 = .error e := by
  unfold preprocessCore
  have hhm : hasModule s.db p = false := (hasModule_false_iff s.db p).2 hempty
  simp only [hhm, Bool.false_eq_true, if_false]
  have hst : (if onDisk E p = true then alookup s.stored p else none) = none := by split <;> simp [hstored]
  rw [hst]
  simp only [hep]
  have hnf : Ep.nf L ep = L.query ep.tree := nf_eq L ep (hI.memo p ep hep)
  rw [hnf, hloc p ep.tree (alookup s.db) (refLook B rec (L.imports ep.tree)) htok hagree, hexp]

/-- the closure walk of `Module.identity()` succeeds (or runs out of fuel) when everything it can reach has its imports
    loaded: no module in the middle of being loaded is reachable -/
theorem identWalk_ok (s : St L) (dset : List ModPath) (S : ModPath → Prop)
    (hS : ∀ y, S y → y ∈ dset ∧ ∃ ep, alookup s.eps y = some ep ∧ ∀ d, d ∈ L.imports ep.tree → onDisk E d = true → S d) :
    ∀ f ws vis, (∀ w, w ∈ ws → S w) → identWalk L E s dset f ws vis = .ok () ∨ identWalk L E s dset f ws vis = .error .recursion := by
  intro f
  induction f with
  | zero => intro ws vis _; cases ws <;> simp [identWalk]
  | succ f ih =>
    intro ws vis hws
    cases ws with
    | nil => simp [identWalk]
    | cons x rest =>
      simp only [identWalk]
      by_cases hv : x ∈ vis
      · simp only [hv, if_true]
        exact ih rest vis (fun w hw => hws w (List.mem_cons_of_mem _ hw))
      · simp only [hv, if_false]
        obtain ⟨hxd, ep, hep, himp⟩ := hS x (hws x (by simp))
        simp only [hep, hxd, if_true]
        apply ih
        intro w hw
        rcases List.mem_append.1 hw with h | h
        · simp only [List.mem_filter] at h
          exact himp w h.1 h.2
        · exact hws w (List.mem_cons_of_mem _ h)

theorem identStep_ok (s : St L) (p : ModPath) (ep : Ep Tree NV) (hep : alookup s.eps p = some ep) (S : ModPath → Prop)
    (hS : ∀ y, S y → y ∈ s.ident ∧ ∃ epy, alookup s.eps y = some epy ∧ ∀ d, d ∈ L.imports epy.tree → onDisk E d = true → S d)
    (hp : ∀ d, d ∈ L.imports ep.tree → onDisk E d = true → S d) :
    (identStep L E s p).1 = .ok () ∨ (identStep L E s p).1 = .error .recursion := by
  unfold identStep
  by_cases h1 : (!onDisk E p) = true
  · simp only [h1, if_true]; exact Or.inl trivial
  · simp only [h1, if_false, Bool.false_eq_true]
    apply identWalk_ok L E _ _ (fun y => y = p ∨ S y)
    · rintro y (hy | hy)
      · subst hy
        exact ⟨mem_addIfAbsent.2 (Or.inr rfl), ep, hep, fun d hd hdk => Or.inr (hp d hd hdk)⟩
      · obtain ⟨a, epy, b, c⟩ := hS y hy
        exact ⟨mem_addIfAbsent.2 (Or.inl a), epy, b, fun d hd hdk => Or.inr (c d hd hdk)⟩
    · intro w hw
      simp at hw
      exact Or.inl hw

theorem preprocess_unfold (s : St L) (p : ModPath) (hempty : tableOf s.db p = [])
    (hok : (identStep L E s p).1 = .ok () ∨ (identStep L E s p).1 = .error .recursion) :
    (preprocess L E s p).1 = .error .recursion ∨ ∃ i', preprocess L E s p = preprocessCore L E ({ s with ident := i' } : St L) p := by
  unfold preprocess
  have hhm : hasModule s.db p = false := (hasModule_false_iff s.db p).2 hempty
  simp only [hhm, Bool.false_eq_true, if_false]
  obtain ⟨i', hs1, _, _⟩ := identStep_spec L E s p
  generalize identStep L E s p = r at hs1 hok
  obtain ⟨rr, s1⟩ := r
  simp only at hs1 hok
  subst hs1
  rcases hok with h | h
  · subst h; exact Or.inr ⟨i', rfl⟩
  · subst h; exact Or.inl rfl

theorem preprocess_good (TreeOk : Tree → Prop)
    (hloc : ∀ x t look₁ look₂, TreeOk t → (∀ k, (modOf k = x ∨ modOf k ∈ L.imports t ∨ modOf k ∈ B.mods) → look₁ k = look₂ k) →
      L.expand x (L.query t) look₁ = L.expand x (L.query t) look₂)
    (s : St L) (p : ModPath) (hp : GoodName p) (hI : Inv L E s) (ep : Ep Tree NV) (hep : alookup s.eps p = some ep)
    (htok : TreeOk ep.tree) (hempty : tableOf s.db p = []) (rec : ModPath → Option (List (Key × V)))
    (hagree : ∀ k, (modOf k = p ∨ modOf k ∈ L.imports ep.tree ∨ modOf k ∈ B.mods) → alookup s.db k = refLook B rec (L.imports ep.tree) k)
    (ins : List (Str × V)) (hexp : L.expand p (L.query ep.tree) (refLook B rec (L.imports ep.tree)) = (ins, none))
    (hstored : ∀ rows, alookup s.stored p = some rows → rows = extendRows L (aaddAll [] (rowsOf p ins)))
    (hid : (identStep L E s p).1 = .ok () ∨ (identStep L E s p).1 = .error .recursion)
    (hnr : (preprocess L E s p).1 ≠ .error .recursion) :
    (preprocess L E s p).1 = .ok () ∧ tableOf (preprocess L E s p).2.db p = extendRows L (aaddAll [] (rowsOf p ins)) := by
  rcases preprocess_unfold L E s p hempty hid with h | ⟨i', h⟩
  · exact absurd h hnr
  rw [h]
  exact preprocess_goodCore L E B TreeOk hloc _ p hp (inv_ident L E s i' hI) ep hep htok hempty rec hagree ins hexp hstored

theorem preprocess_bad (TreeOk : Tree → Prop)
    (hloc : ∀ x t look₁ look₂, TreeOk t → (∀ k, (modOf k = x ∨ modOf k ∈ L.imports t ∨ modOf k ∈ B.mods) → look₁ k = look₂ k) →
      L.expand x (L.query t) look₁ = L.expand x (L.query t) look₂)
    (s : St L) (p : ModPath) (hI : Inv L E s) (ep : Ep Tree NV) (hep : alookup s.eps p = some ep)
    (htok : TreeOk ep.tree) (hempty : tableOf s.db p = []) (rec : ModPath → Option (List (Key × V)))
    (hagree : ∀ k, (modOf k = p ∨ modOf k ∈ L.imports ep.tree ∨ modOf k ∈ B.mods) → alookup s.db k = refLook B rec (L.imports ep.tree) k)
    (e : Err) (hexp : (L.expand p (L.query ep.tree) (refLook B rec (L.imports ep.tree))).2 = some e)
    (hstored : alookup s.stored p = none)
    (hid : (identStep L E s p).1 = .ok () ∨ (identStep L E s p).1 = .error .recursion)
    (hnr : (preprocess L E s p).1 ≠ .error .recursion) :
    (preprocess L E s p).1 = .error e := by
  rcases preprocess_unfold L E s p hempty hid with h | ⟨i', h⟩
  · exact absurd h hnr
  rw [h]
  exact preprocess_badCore L E B TreeOk hloc _ p (inv_ident L E s i' hI) ep hep htok hempty rec hagree e hexp hstored

theorem preprocess_stored (s : St L) (p : ModPath) (q : ModPath) (rows : List (Key × V))
    (h : alookup (preprocess L E s p).2.stored q = some rows) :
    alookup s.stored q = some rows ∨
      (q = p ∧ onDisk E p = true ∧ rows = tableOf (preprocess L E s p).2.db p ∧ (preprocess L E s p).1 = .ok ()) := by
  unfold preprocess at h ⊢
  by_cases hm : hasModule s.db p = true
  · simp only [hm, if_true] at h ⊢; exact Or.inl h
  · simp only [hm, if_false, Bool.false_eq_true] at h ⊢
    obtain ⟨i', hs1, _, _⟩ := identStep_spec L E s p
    generalize identStep L E s p = r at hs1 h ⊢
    obtain ⟨rr, s1⟩ := r
    simp only at hs1
    subst hs1
    cases rr with
    | error e => exact Or.inl h
    | ok u => exact preprocess_storedCore L E ({ s with ident := i' } : St L) p q rows h

/-- `Settled` after the rollback `unload p` -/
theorem settled_unload (hW : World L E B rank TreeOk) (s : St L) (p : ModPath) (Ex0 Ex : List ModPath) (hI : Inv L E s)
    (hS : Settled L E B rank TreeOk s Ex0) (hsub0 : ∀ a, a ∈ Ex → a ∈ Ex0) (hcov : ∀ a, a ∈ Ex0 → a = p ∨ a ∈ Ex)
    (hpB : p ∉ B.mods) : Settled L E B rank TreeOk (unload L E s p) Ex := by
  have hsub := unload_sub L E s p
  have hsrc := srcOf_congr L E s _ hsub.mainSrc
  -- the base is a closed set that does not contain `p`
  have hCB : ClosedSet L E s (fun x => x ∈ B.mods) := by
    refine ⟨hS.base, ?_⟩
    intro x hx d hd
    simp only [depsOf, List.mem_append] at hd
    rcases hd with hd | hd
    · obtain ⟨t, ht, hi⟩ := importsOf_src L E s x hI (hS.base x hx)
      rw [hi] at hd
      have hne : x ≠ E.main := fun e => hW.main_base (e ▸ hx)
      cases hs : srcOf L E s x with
      | none => rw [hs] at ht; cases ht
      | some src =>
        rw [hs] at ht
        have hdisk : E.disk x = some src := by
          unfold srcOf at hs
          cases hd' : E.disk x with
          | some src' => rw [hd'] at hs; simpa using hs
          | none => rw [hd'] at hs; simp [hne] at hs
        exact hW.base_closed x hx src t hdisk (by simpa using ht) d hd
    · by_cases hl : x ∈ E.libs
      · simp [hl] at hd
      · simp only [hl, if_false] at hd; exact hW.libs_base d hd
  obtain ⟨_, hFB⟩ := unload_keeps L E (fun x => x ∈ B.mods) s p hpB hCB
  refine { base := hFB.mods, table := ?_, stored := ?_, storedDisk := ?_, ident := ?_, mainAcyclic := ?_ }
  · intro x hx hEx
    have hxp : x ≠ p := fun e => unload_not_mem L E s p (e ▸ hx)
    have hx0 : x ∉ Ex0 := fun h => by rcases hcov x h with e | e; exact hxp e; exact hEx e
    obtain ⟨n, T, hT, he⟩ := hS.table x (hsub.mods x hx) hx0
    exact ⟨n, T, by rw [hsrc]; exact hT, by rw [hsub.table x hx]; exact he⟩
  · intro q rows hq
    rw [hsub.stored] at hq
    obtain ⟨n, hn⟩ := hS.stored q rows hq
    exact ⟨n, by rw [hsrc]; exact hn⟩
  · intro q rows hq
    rw [hsub.stored] at hq
    exact hS.storedDisk q rows hq
  · intro x hx hEx hd
    have hxp : x ≠ p := fun e => unload_not_mem L E s p (e ▸ hx)
    have hx0 : x ∉ Ex0 := fun h => by rcases hcov x h with e | e; exact hxp e; exact hEx e
    obtain ⟨hi, himp⟩ := hS.ident x (hsub.mods x hx) hx0 hd
    refine ⟨unload_ident L E s p x hx hi, ?_⟩
    intro d hdi hdk
    have hdi' : d ∈ importsOf L s x := by
      unfold importsOf at hdi ⊢; rw [hsub.eps x hx] at hdi; exact hdi
    obtain ⟨hdm, hdE⟩ := himp d hdi' hdk
    refine ⟨unload_dang L E s p x hx (by simp) d ?_ hdm, fun h => hdE (hsub0 d h)⟩
    simp only [depsOf, List.mem_append]; exact Or.inl hdi
  · rw [hsub.mainSrc]; exact hS.mainAcyclic

theorem exists_common_level (srcf : ModPath → Option Src) (l : List ModPath)
    (h : ∀ d, d ∈ l → ∃ n T, refTbl L B srcf n d = some T) : ∃ N, ∀ d, d ∈ l → ∃ T, refTbl L B srcf N d = some T := by
  induction l with
  | nil => exact ⟨0, fun d hd => by cases hd⟩
  | cons a rest ih =>
    obtain ⟨N, hN⟩ := ih (fun d hd => h d (List.mem_cons_of_mem _ hd))
    obtain ⟨n, T, hT⟩ := h a (by simp)
    refine ⟨max N n, ?_⟩
    intro d hd
    rcases List.mem_cons.1 hd with e | e
    · subst e; exact ⟨T, refTbl_mono L B srcf (Nat.le_max_right N n) _ T hT⟩
    · obtain ⟨Td, hTd⟩ := hN d e
      exact ⟨Td, refTbl_mono L B srcf (Nat.le_max_left N n) d Td hTd⟩

theorem loadOne_Q (hW : World L E B rank TreeOk) (rec : List ModPath → St L → Except Err Unit × St L)
    (hrec : RecSpec L E rec) (hreg : RecReg L rec) (hrecQ : RecQ L E B rank TreeOk rec)
    (p : ModPath) (s : St L) (Ex : List ModPath) (hp : GoodName p) (hI : Inv L E s) (hE : EpsSub L s) (hM : SrcOk L s.mainSrc)
    (hS : Settled L E B rank TreeOk s Ex) (hrk : ∀ a, a ∈ Ex → rank p < rank a) (hExB : ∀ a, a ∈ Ex → a ∉ B.mods)
    (hnr : (loadOne L E rec (unload L E) p s).1 ≠ .error .recursion) :
    Settled L E B rank TreeOk (loadOne L E rec (unload L E) p s).2 Ex ∧
    (Good L B (srcOf L E s) p → (loadOne L E rec (unload L E) p s).1 = .ok ()) ∧
    (p ∉ s.mods → ∀ n e, refErr L B (srcOf L E s) n p = some e → (loadOne L E rec (unload L E) p s).1 = .error e) := by
  unfold loadOne at hnr ⊢
  by_cases hm : p ∈ s.mods
  · simp only [hm, if_true]
    exact ⟨hS, fun _ => trivial, fun h => absurd trivial h⟩
  · simp only [hm, if_false] at hnr ⊢
    have hpB : p ∉ B.mods := fun h => hm (hS.base p h)
    have hlibs : (if p ∈ E.libs then ((.ok () : Except Err Unit), s) else rec E.libs s) = (.ok (), s) ∨
        (if p ∈ E.libs then ((.ok () : Except Err Unit), s) else rec E.libs s) = (.error .recursion, s) := by
      split
      · exact Or.inl rfl
      · exact hreg E.libs s (fun l hl => hS.base l (hW.libs_base l hl))
    have hl : (if p ∈ E.libs then ((.ok () : Except Err Unit), s) else rec E.libs s) = (.ok (), s) := by
      rcases hlibs with h | h
      · exact h
      · rw [h] at hnr; exact absurd rfl hnr
    rw [hl] at hnr ⊢
    simp only [hm, if_false] at hnr ⊢
    obtain ⟨hI1, hmods1, hdb1, hcompl1, hstored1, hmain1, hdeps1, hproc1, heps1, hepsSame, hepsOk, hepsErr⟩ := epLoad_spec L E s p hI
    have hepOk : ∀ t, (srcOf L E s p).bind L.parse = some t → (epLoad L E s p).1 = .ok () := fun t ht => epLoad_ok L E s p t hI ht
    have hepBad : (srcOf L E s p).bind L.parse = none → (epLoad L E s p).1 = .error .syntax := epLoad_err L E s p hI hE hm
    have hident1 := epLoad_ident L E s p
    generalize epLoad L E s p = r1 at hI1 hmods1 hdb1 hcompl1 hstored1 hmain1 hdeps1 hproc1 heps1 hepsSame hepsOk hepsErr hepOk hepBad hident1 hnr ⊢
    obtain ⟨r1r, s1⟩ := r1
    simp only at hI1 hmods1 hdb1 hcompl1 hstored1 hmain1 hdeps1 hproc1 heps1 hepsSame hepsOk hepsErr hepOk hepBad hident1 hnr ⊢
    have hsrc1 := srcOf_congr L E s s1 hmain1
    cases r1r with
    | error e =>
      simp only at hnr ⊢
      have heq : s1.eps = s.eps := hepsErr e rfl
      have hnone : (srcOf L E s p).bind L.parse = none := by
        cases h : (srcOf L E s p).bind L.parse with
        | none => rfl
        | some t => have := hepOk t h; cases this
      have he : e = .syntax := by have := hepBad hnone; cases this; rfl
      refine ⟨?_, ?_, ?_⟩
      · refine ⟨fun b hb => hmods1 ▸ hS.base b hb, ?_, ?_, hstored1 ▸ hS.storedDisk,
          ?_, hmain1 ▸ hS.mainAcyclic⟩
        rotate_right 1
        · intro x hx hEx hd
          obtain ⟨hi, himp⟩ := hS.ident x (hmods1 ▸ hx) hEx hd
          refine ⟨hident1 ▸ hi, ?_⟩
          intro d hdi hdk
          have : d ∈ importsOf L s x := by unfold importsOf at hdi ⊢; rw [heq] at hdi; exact hdi
          obtain ⟨a, b⟩ := himp d this hdk
          exact ⟨hmods1 ▸ a, b⟩
        · intro x hx hEx
          obtain ⟨n, T, hT, hTe⟩ := hS.table x (hmods1 ▸ hx) hEx
          exact ⟨n, T, by rw [hsrc1]; exact hT, by rw [hdb1]; exact hTe⟩
        · intro q rows hq
          rw [hstored1] at hq
          obtain ⟨n, hn⟩ := hS.stored q rows hq
          exact ⟨n, by rw [hsrc1]; exact hn⟩
      · rintro ⟨n, T, hT⟩
        obtain ⟨m, src, t, ins, _, hsrc, hparse, _⟩ := refTbl_step L B hpB hT
        rw [hsrc] at hnone
        simp [hparse] at hnone
      · intro _ n e' he'
        subst he
        cases n with
        | zero => simp [refErr] at he'
        | succ n =>
          simp only [refErr, hpB, if_false] at he'
          cases hs : srcOf L E s p with
          | none => rw [hs] at he'; simp only at he'; cases he'; rfl
          | some src =>
            rw [hs] at he' hnone
            have hp' : L.parse src = none := by simpa using hnone
            simp only [hp'] at he'
            cases he'; rfl
    | ok u1 =>
      simp only at hnr ⊢
      -- registration
      have hI2 : Inv L E { s1 with mods := addIfAbsent s1.mods p } := by
        refine ⟨hI1.memo, hI1.tree, hI1.ast, ?_, hI1.stored, ?_, ?_⟩
        · intro k v hkv; exact mem_addIfAbsent.2 (Or.inl (hI1.tags k v hkv))
        · intro x hx; exact mem_addIfAbsent.2 (Or.inl (hI1.completed x hx))
        · intro x hx
          rcases mem_addIfAbsent.1 hx with h | h
          · exact hI1.eps x h
          · exact h ▸ hepsOk rfl
      have hE2 : EpsSub L ({ s1 with mods := addIfAbsent s1.mods p } : St L) := by
        intro x hx
        simp only at hx ⊢
        by_cases hxp : x = p
        · exact mem_addIfAbsent.2 (Or.inr hxp)
        · refine mem_addIfAbsent.2 (Or.inl ?_)
          rw [hmods1]
          apply hE
          rw [ahas_iff] at hx ⊢
          rw [← heps1 x hxp]; exact hx
      have hM2 : SrcOk L ({ s1 with mods := addIfAbsent s1.mods p } : St L).mainSrc := by
        simp only; rw [hmain1]; exact hM
      have hsrc2 : srcOf L E ({ s1 with mods := addIfAbsent s1.mods p } : St L) = srcOf L E s := by
        rw [← hsrc1]; rfl
      have hS2 : Settled L E B rank TreeOk { s1 with mods := addIfAbsent s1.mods p } (p :: Ex) := by
        refine ⟨fun b hb => mem_addIfAbsent.2 (Or.inl (hmods1 ▸ hS.base b hb)), ?_, ?_, hstored1 ▸ hS.storedDisk, ?_, hmain1 ▸ hS.mainAcyclic⟩
        rotate_right 1
        · intro x hx hEx hd
          simp only [List.mem_cons, not_or] at hEx
          simp only at hx ⊢
          rcases mem_addIfAbsent.1 hx with h | h
          · obtain ⟨hi, himp⟩ := hS.ident x (hmods1 ▸ h) hEx.2 hd
            refine ⟨by rw [hident1]; exact hi, ?_⟩
            intro d hdi hdk
            have : d ∈ importsOf L s x := by
              unfold importsOf at hdi ⊢; simp only at hdi; rw [heps1 x hEx.1] at hdi; exact hdi
            obtain ⟨a, b⟩ := himp d this hdk
            refine ⟨mem_addIfAbsent.2 (Or.inl (hmods1 ▸ a)), ?_⟩
            simp only [List.mem_cons, not_or]
            exact ⟨fun e => hm (e ▸ a), b⟩
          · exact absurd h hEx.1
        · intro x hx hEx
          simp only [List.mem_cons, not_or] at hEx
          simp only at hx
          rcases mem_addIfAbsent.1 hx with h | h
          · obtain ⟨n, T, hT, hTe⟩ := hS.table x (hmods1 ▸ h) hEx.2
            exact ⟨n, T, by rw [hsrc2]; exact hT, by simp only; rw [hdb1]; exact hTe⟩
          · exact absurd h hEx.1
        · intro q rows hq
          simp only at hq
          rw [hstored1] at hq
          obtain ⟨n, hn⟩ := hS.stored q rows hq
          exact ⟨n, by rw [hsrc2]; exact hn⟩
      have hp2 : p ∈ addIfAbsent s1.mods p := mem_addIfAbsent.2 (Or.inr rfl)
      obtain ⟨ep, hep⟩ := (ahas_iff _ _).1 (hepsOk rfl)
      simp only [hep] at hnr ⊢
      obtain ⟨htok, hrkp⟩ := imports_rank L E B rank TreeOk hW _ p ep hI2 hS2.mainAcyclic hep
      have hnames := imports_good L E hW.names _ p ep hI2 hM2 hep
      have htree : (srcOf L E s p).bind L.parse = some ep.tree := by
        have := hI2.tree p ep hep; rw [hsrc2] at this; exact this
      have h3 := hrec (L.imports ep.tree) _ hnames hI2 hM2
      have hQ3 := hrecQ (L.imports ep.tree) _ (p :: Ex) hnames hI2 hE2 hM2 hS2
        (by
          intro d hd a ha
          rcases List.mem_cons.1 ha with e | e
          · subst e; exact hrkp d hd
          · exact Nat.lt_trans (hrkp d hd) (hrk a e))
        (by
          intro a ha
          rcases List.mem_cons.1 ha with e | e
          · subst e; exact hpB
          · exact hExB a e)
      rw [hsrc2] at hQ3
      generalize rec (L.imports ep.tree) { s1 with mods := addIfAbsent s1.mods p } = r3 at h3 hQ3 hnr ⊢
      obtain ⟨r3r, s3⟩ := r3
      obtain ⟨hI3, hG23, hE23, hok23, _, _⟩ := h3
      simp only at hI3 hG23 hE23 hok23 hQ3 hnr ⊢
      have hmain3 : s3.mainSrc = s.mainSrc := hG23.mainSrc.trans hmain1
      have hsrc3 := srcOf_congr L E s s3 hmain3
      -- what the reference says about `p`
      have hgoodStep : ∀ n T, refTbl L B (srcOf L E s) n p = some T → ∃ m ins, n = m + 1 ∧
          (∀ d, d ∈ L.imports ep.tree → ∃ Td, refTbl L B (srcOf L E s) m d = some Td) ∧
          L.expand p (L.query ep.tree) (refLook B (refTbl L B (srcOf L E s) m) (L.imports ep.tree)) = (ins, none) ∧
          T = extendRows L (aaddAll [] (rowsOf p ins)) := by
        intro n T hT
        obtain ⟨m, src, t, ins, hn, hsrc, hparse, hdeps, hexp, hTeq⟩ := refTbl_step L B hpB hT
        rw [hsrc] at htree
        have : t = ep.tree := by simpa [hparse] using htree
        subst this
        exact ⟨m, ins, hn, hdeps, hexp, hTeq⟩
      have herrStep : ∀ n e, refErr L B (srcOf L E s) (n + 1) p = some e →
          (scanErr (fun d => (refTbl L B (srcOf L E s) n d).isSome) (refErr L B (srcOf L E s) n) (L.imports ep.tree) = some (some e)) ∨
          (scanErr (fun d => (refTbl L B (srcOf L E s) n d).isSome) (refErr L B (srcOf L E s) n) (L.imports ep.tree) = some none ∧
            (L.expand p (L.query ep.tree) (refLook B (refTbl L B (srcOf L E s) n) (L.imports ep.tree))).2 = some e) := by
        intro n e he
        simp only [refErr, hpB, if_false] at he
        cases hs : srcOf L E s p with
        | none => rw [hs] at htree; cases htree
        | some src =>
          rw [hs] at he htree
          cases hp' : L.parse src with
          | none => simp [hp'] at htree
          | some t =>
            have : t = ep.tree := by simpa [hp'] using htree
            subst this
            simp only [hp'] at he
            cases hsc : scanErr (fun d => (refTbl L B (srcOf L E s) n d).isSome) (refErr L B (srcOf L E s) n) (L.imports ep.tree) with
            | none => rw [hsc] at he; cases he
            | some r =>
              rw [hsc] at he
              cases r with
              | some e' => simp only at he; cases he; exact Or.inl rfl
              | none => simp only at he; exact Or.inr ⟨rfl, he⟩
      cases r3r with
      | error e3 =>
        simp only at hnr ⊢
        obtain ⟨hS3, hok3', herr3⟩ := hQ3 (by intro h; cases h; exact hnr rfl)
        refine ⟨settled_unload L E B rank TreeOk hW s3 p (p :: Ex) Ex hI3 hS3 (fun a h => List.mem_cons_of_mem _ h) (fun a h => List.mem_cons.1 h) hpB, ?_, ?_⟩
        · rintro ⟨n, T, hT⟩
          obtain ⟨m, ins, _, hdeps, _, _⟩ := hgoodStep n T hT
          have := hok3' (fun d hd => by obtain ⟨Td, hTd⟩ := hdeps d hd; exact ⟨m, Td, hTd⟩)
          cases this
        · intro _ n e he
          cases n with
          | zero => simp [refErr] at he
          | succ n =>
            rcases herrStep n e he with hsc | ⟨hsc, _⟩
            · have := herr3 n e hsc
              cases this; rfl
            · have hall := scanErr_some_none hsc
              have := hok3' (fun d hd => by
                have := hall d hd
                cases hd' : refTbl L B (srcOf L E s) n d with
                | none => rw [hd'] at this; cases this
                | some Td => exact ⟨n, Td, hd'⟩)
              cases this
      | ok u3 =>
        simp only at hnr ⊢
        obtain ⟨hS3, _, herr3⟩ := hQ3 (by intro h; cases h)
        obtain ⟨hF23, himp3⟩ := hok23 rfl
        have hp3 : p ∈ s3.mods := hF23.mods p hp2
        have hep3 : alookup s3.eps p = some ep := by rw [hF23.eps p hp2]; exact hep
        obtain ⟨hI4, hT4⟩ := preprocess_spec L E s3 p hp hI3 hp3
        have hempty : tableOf s3.db p = [] := by
          rw [hF23.table p hp2]
          simp only
          rw [hdb1]
          exact tableOf_nil_of_unregistered L E s p hI hm
        have hnotEx : ∀ d, d ∈ L.imports ep.tree → d ∉ p :: Ex := by
          intro d hd hmem
          rcases List.mem_cons.1 hmem with e | e
          · have := hrkp d hd; rw [e] at this; exact Nat.lt_irrefl _ this
          · exact Nat.lt_irrefl _ (Nat.lt_trans (hrkp d hd) (hrk d e))
        -- all imports are registered, hence good: take a common depth
        obtain ⟨N, hN⟩ := exists_common_level L B (srcOf L E s) (L.imports ep.tree) (fun d hd => by
          obtain ⟨n, T, hT, _⟩ := hS3.table d (himp3 d hd) (hnotEx d hd)
          exact ⟨n, T, by rw [← hsrc3]; exact hT⟩)
        have hagree : ∀ k, (modOf k = p ∨ modOf k ∈ L.imports ep.tree ∨ modOf k ∈ B.mods) →
            alookup s3.db k = refLook B (refTbl L B (srcOf L E s) N) (L.imports ep.tree) k := by
          intro k hk
          unfold refLook
          by_cases hkp : modOf k = p
          · rw [alookup_none_of_table_nil s3.db p k hkp hempty]
            have h1 : ¬ (modOf k ∈ L.imports ep.tree ∨ modOf k ∈ B.mods) := by
              rw [hkp]
              rintro (h | h)
              · exact Nat.lt_irrefl _ (hrkp p h)
              · exact hpB h
            simp only [h1, if_false]
          · rcases hk with hk | hk | hk
            · exact absurd hk hkp
            · obtain ⟨Td, hTd⟩ := hN _ hk
              have htab := hS3.tableEq L E B rank TreeOk _ (himp3 _ hk) (hnotEx _ hk) N Td (by rw [hsrc3]; exact hTd)
              simp only [hk, true_or, if_true, hTd, Option.bind]
              rw [← alookup_tableOf s3.db (modOf k) k rfl, htab]
            · have hb : modOf k ∉ p :: Ex := by
                intro hmem
                rcases List.mem_cons.1 hmem with e | e
                · exact hkp e
                · exact hExB _ e hk
              have hTb := refTbl_base L B (srcOf L E s) N _ hk
              have htab := hS3.tableEq L E B rank TreeOk _ (hS3.base _ hk) hb N _ (by rw [hsrc3]; exact hTb)
              simp only [hk, or_true, if_true, hTb, Option.bind]
              rw [← alookup_tableOf s3.db (modOf k) k rfl, htab]
        -- the look of any depth at which the imports are defined is this look
        have hlookEq : ∀ m, (∀ d, d ∈ L.imports ep.tree → ∃ Td, refTbl L B (srcOf L E s) m d = some Td) →
            refLook B (refTbl L B (srcOf L E s) m) (L.imports ep.tree) = refLook B (refTbl L B (srcOf L E s) N) (L.imports ep.tree) := by
          intro m hm'
          apply refLook_eq_of_defined
          intro d hd
          obtain ⟨Td, hTd⟩ := hm' d hd
          obtain ⟨Td', hTd'⟩ := hN d hd
          exact ⟨by rw [hTd]; rfl, by rw [hTd']; rfl⟩
        have hst := preprocess_stored L E s3 p
        have hid3 : (identStep L E s3 p).1 = .ok () ∨ (identStep L E s3 p).1 = .error .recursion := by
          apply identStep_ok L E s3 p ep hep3 (fun y => y ∈ s3.mods ∧ y ∉ p :: Ex ∧ onDisk E y = true)
          · rintro y ⟨hy, hyE, hyd⟩
            obtain ⟨hi, himp⟩ := hS3.ident y hy hyE hyd
            obtain ⟨epy, hepy⟩ := (ahas_iff _ _).1 (hI3.eps y hy)
            refine ⟨hi, epy, hepy, ?_⟩
            intro d hd hdk
            obtain ⟨a, b⟩ := himp d (by simp [importsOf, hepy, hd]) hdk
            exact ⟨a, b, hdk⟩
          · intro d hd hdk
            exact ⟨himp3 d hd, hnotEx d hd, hdk⟩
        have hidm := preprocess_ident L E s3 p
        have hnr4 : (preprocess L E s3 p).1 ≠ .error .recursion := by
          intro h
          apply hnr
          generalize preprocess L E s3 p = r4 at h
          obtain ⟨r4r, s4⟩ := r4
          simp only at h
          subst h
          rfl
        have himpTree : ∀ s4 : St L, Inv L E s4 → s4.mainSrc = s3.mainSrc → p ∈ s4.mods → importsOf L s4 p = L.imports ep.tree := by
          intro s4 hI4' hm4 hp4
          obtain ⟨t', ht', hi'⟩ := importsOf_src L E s4 p hI4' hp4
          have h2 := hI3.tree p ep hep3
          rw [srcOf_congr L E s3 s4 hm4, h2] at ht'
          cases ht'
          exact hi'
        generalize hexpN : L.expand p (L.query ep.tree) (refLook B (refTbl L B (srcOf L E s) N) (L.imports ep.tree)) = rN at *
        obtain ⟨ins, errN⟩ := rN
        cases errN with
        | none =>
          -- `p` is good at depth N + 1
          have hTN : refTbl L B (srcOf L E s) (N + 1) p = some (extendRows L (aaddAll [] (rowsOf p ins))) := by
            rw [refTbl_succ_eq, if_neg hpB]
            cases hs : srcOf L E s p with
            | none => rw [hs] at htree; cases htree
            | some src =>
              rw [hs] at htree
              simp only [Option.bind]
              unfold refStep
              cases hp' : L.parse src with
              | none => simp [hp'] at htree
              | some t =>
                have : t = ep.tree := by simpa [hp'] using htree
                subst this
                simp only
                have hall : (L.imports ep.tree).all (fun d => (refTbl L B (srcOf L E s) N d).isSome) = true := by
                  rw [List.all_eq_true]
                  intro d hd
                  obtain ⟨Td, hTd⟩ := hN d hd
                  rw [hTd]; rfl
                rw [if_pos hall, hexpN]
          have hstored : ∀ rows, alookup s3.stored p = some rows → rows = extendRows L (aaddAll [] (rowsOf p ins)) := by
            intro rows hrows
            obtain ⟨n, hn⟩ := hS3.stored p rows hrows
            rw [hsrc3] at hn
            exact refTbl_unique L B (srcOf L E s) p _ _ hn hTN
          obtain ⟨hokp, htabp⟩ := preprocess_good L E B TreeOk hW.local_expand s3 p hp hI3 ep hep3 htok hempty _ hagree ins hexpN hstored hid3 hnr4
          generalize preprocess L E s3 p = r4 at hI4 hT4 hst hokp htabp hidm hnr ⊢
          obtain ⟨r4r, s4⟩ := r4
          simp only at hI4 hT4 hst hokp htabp hidm hnr ⊢
          subst hokp
          simp only
          have hsrc4 : srcOf L E s4 = srcOf L E s := by
            rw [srcOf_congr L E s3 s4 hT4.mainSrc, hsrc3]
          refine ⟨?_, fun _ => trivial, ?_⟩
          · refine ⟨fun b hb => hT4.mods ▸ hS3.base b hb, ?_, ?_, ?_, ?_, hT4.mainSrc ▸ hS3.mainAcyclic⟩
            rotate_right 1
            · intro x hx hEx hd
              by_cases e : x = p
              · subst e
                refine ⟨hidm.2 rfl hd, ?_⟩
                intro d hdi hdk
                rw [himpTree s4 hI4 hT4.mainSrc hx] at hdi
                exact ⟨hT4.mods ▸ himp3 d hdi, fun h => hnotEx d hdi (List.mem_cons_of_mem _ h)⟩
              · obtain ⟨hi, himp⟩ := hS3.ident x (hT4.mods ▸ hx) (by simp [e, hEx]) hd
                refine ⟨hidm.1 x hi, ?_⟩
                intro d hdi hdk
                have : d ∈ importsOf L s3 x := by unfold importsOf at hdi ⊢; rw [hT4.eps x e] at hdi; exact hdi
                obtain ⟨a, b⟩ := himp d this hdk
                exact ⟨hT4.mods ▸ a, fun h => b (List.mem_cons_of_mem _ h)⟩
            · intro x hx hEx
              by_cases e : x = p
              · subst e
                exact ⟨N + 1, _, by rw [hsrc4]; exact hTN, htabp⟩
              · obtain ⟨n, T, hT, hTe⟩ := hS3.table x (hT4.mods ▸ hx) (by simp [e, hEx])
                exact ⟨n, T, by rw [hsrc4, ← hsrc3]; exact hT, by rw [hT4.table x e]; exact hTe⟩
            · intro q rows hq
              rcases hst q rows hq with h | ⟨e, _, h, _⟩
              · obtain ⟨n, hn⟩ := hS3.stored q rows h
                exact ⟨n, by rw [hsrc4, ← hsrc3]; exact hn⟩
              · subst e
                exact ⟨N + 1, by rw [hsrc4, h, htabp]; exact hTN⟩
            · intro q rows hq
              rcases hst q rows hq with h | ⟨e, h, _, _⟩
              · exact hS3.storedDisk q rows h
              · exact e ▸ h
          · intro _ n e he
            exact absurd hTN (fun h => good_not_err L B (srcOf L E s) n p e he (N + 1) _ h)
        | some eN =>
          have hstoredNone : alookup s3.stored p = none := by
            cases hq : alookup s3.stored p with
            | none => rfl
            | some rows =>
              obtain ⟨n, hn⟩ := hS3.stored p rows hq
              rw [hsrc3] at hn
              obtain ⟨m, ins', _, hdeps, hexp, _⟩ := hgoodStep n rows hn
              rw [hlookEq m hdeps, hexpN] at hexp
              cases hexp
          have hbad := preprocess_bad L E B TreeOk hW.local_expand s3 p hI3 ep hep3 htok hempty _ hagree eN (by rw [hexpN]) hstoredNone hid3 hnr4
          generalize preprocess L E s3 p = r4 at hI4 hT4 hst hbad hidm hnr ⊢
          obtain ⟨r4r, s4⟩ := r4
          simp only at hI4 hT4 hst hbad hidm hnr ⊢
          subst hbad
          simp only
          have hsrc4 : srcOf L E s4 = srcOf L E s := by
            rw [srcOf_congr L E s3 s4 hT4.mainSrc, hsrc3]
          have hS4 : Settled L E B rank TreeOk s4 (p :: Ex) := by
            refine ⟨fun b hb => hT4.mods ▸ hS3.base b hb, ?_, ?_, ?_, ?_, hT4.mainSrc ▸ hS3.mainAcyclic⟩
            rotate_right 1
            · intro x hx hEx hd
              obtain ⟨hi, himp⟩ := hS3.ident x (hT4.mods ▸ hx) hEx hd
              refine ⟨hidm.1 x hi, ?_⟩
              intro d hdi hdk
              have hxp : x ≠ p := fun e => hEx (by simp [e])
              have : d ∈ importsOf L s3 x := by unfold importsOf at hdi ⊢; rw [hT4.eps x hxp] at hdi; exact hdi
              obtain ⟨a, b⟩ := himp d this hdk
              exact ⟨hT4.mods ▸ a, b⟩
            · intro x hx hEx
              simp only [List.mem_cons, not_or] at hEx
              obtain ⟨n, T, hT, hTe⟩ := hS3.table x (hT4.mods ▸ hx) (by simp [hEx.1, hEx.2])
              exact ⟨n, T, by rw [hsrc4, ← hsrc3]; exact hT, by rw [hT4.table x hEx.1]; exact hTe⟩
            · intro q rows hq
              rcases hst q rows hq with h | ⟨_, _, _, h⟩
              · obtain ⟨n, hn⟩ := hS3.stored q rows h
                exact ⟨n, by rw [hsrc4, ← hsrc3]; exact hn⟩
              · cases h
            · intro q rows hq
              rcases hst q rows hq with h | ⟨_, _, _, h⟩
              · exact hS3.storedDisk q rows h
              · cases h
          refine ⟨settled_unload L E B rank TreeOk hW s4 p (p :: Ex) Ex hI4 hS4 (fun a h => List.mem_cons_of_mem _ h) (fun a h => List.mem_cons.1 h) hpB, ?_, ?_⟩
          · rintro ⟨n, T, hT⟩
            obtain ⟨m, ins', _, hdeps, hexp, _⟩ := hgoodStep n T hT
            rw [hlookEq m hdeps, hexpN] at hexp
            cases hexp
          · intro _ n e he
            cases n with
            | zero => simp [refErr] at he
            | succ n =>
              rcases herrStep n e he with hsc | ⟨hsc, hex⟩
              · have := herr3 n e hsc
                cases this
              · have hall := scanErr_some_none hsc
                have hdef : ∀ d, d ∈ L.imports ep.tree → ∃ Td, refTbl L B (srcOf L E s) n d = some Td := by
                  intro d hd
                  have := hall d hd
                  cases hd' : refTbl L B (srcOf L E s) n d with
                  | none => rw [hd'] at this; cases this
                  | some Td => exact ⟨Td, rfl⟩
                rw [hlookEq n hdef, hexpN] at hex
                simp only [Option.some.injEq] at hex
                rw [hex]

theorem loadAll_Q (hW : World L E B rank TreeOk) : ∀ f, RecQ L E B rank TreeOk (loadAll L E f) := by
  intro f
  induction f with
  | zero =>
    intro ps s Ex _ _ _ _ hS _ _ hnr
    cases ps with
    | nil => exact ⟨hS, fun _ => rfl, fun n e h => by simp [scanErr] at h⟩
    | cons p ps => exact absurd rfl hnr
  | succ f ih =>
    intro ps s Ex hps hI hE hM hS hrk hExB hnr
    cases ps with
    | nil => exact ⟨hS, fun _ => rfl, fun n e h => by simp [scanErr] at h⟩
    | cons p ps =>
      simp only [loadAll] at hnr ⊢
      have h1 := loadOne_inv L E hW.names (loadAll L E f) (loadAll_inv L E hW.names f) p s (hps p (by simp)) hI hM
      have hQ1 := loadOne_Q L E B rank TreeOk hW (loadAll L E f) (loadAll_inv L E hW.names f) (loadAll_registered L E f) ih
        p s Ex (hps p (by simp)) hI hE hM hS (fun a ha => hrk p (by simp) a ha) hExB
      -- a registered module has no reference error
      have hreg : p ∈ s.mods → ∀ n e, refErr L B (srcOf L E s) n p = some e → False := by
        intro hpm n e he
        by_cases hpe : p ∈ Ex
        · exact Nat.lt_irrefl _ (hrk p (by simp) p hpe)
        · obtain ⟨m, T, hT, _⟩ := hS.table p hpm hpe
          exact good_not_err L B _ n p e he m T hT
      generalize loadOne L E (loadAll L E f) (unload L E) p s = r1 at h1 hQ1 hnr ⊢
      obtain ⟨r1r, s1⟩ := r1
      obtain ⟨hI1, hG1, hE1, _, _, _⟩ := h1
      simp only at hI1 hG1 hE1 hQ1 hnr ⊢
      cases r1r with
      | error e =>
        simp only at hnr ⊢
        obtain ⟨hS1, hG, hEr⟩ := hQ1 hnr
        refine ⟨hS1, fun hG' => hG (hG' p (by simp)), ?_⟩
        intro n e' hsc
        simp only [scanErr] at hsc
        by_cases hg : (refTbl L B (srcOf L E s) n p).isSome = true
        · cases hT : refTbl L B (srcOf L E s) n p with
          | none => rw [hT] at hg; cases hg
          | some T => have := hG ⟨n, T, hT⟩; cases this
        · simp only [hg, if_false, Bool.false_eq_true] at hsc
          cases he : refErr L B (srcOf L E s) n p with
          | none => rw [he] at hsc; cases hsc
          | some e'' =>
            rw [he] at hsc
            simp only [Option.map, Option.some.injEq] at hsc
            subst hsc
            by_cases hpm : p ∈ s.mods
            · exact absurd he (fun h => hreg hpm n e'' h)
            · exact hEr hpm n e'' he
      | ok u =>
        simp only at hnr ⊢
        obtain ⟨hS1, _, hEr⟩ := hQ1 (by intro h; cases h)
        have hsrc1 := srcOf_congr L E s s1 hG1.mainSrc
        obtain ⟨hS2, hG2, hEr2⟩ := ih ps s1 Ex (fun q hq => hps q (List.mem_cons_of_mem _ hq)) hI1 (hE1 hE) (hG1.mainSrc ▸ hM) hS1
          (fun q hq a ha => hrk q (List.mem_cons_of_mem _ hq) a ha) hExB hnr
        refine ⟨hS2, fun hG => hG2 ?_, ?_⟩
        · intro q hq
          rw [hsrc1]
          exact hG q (List.mem_cons_of_mem _ hq)
        · intro n e hsc
          simp only [scanErr] at hsc
          by_cases hg : (refTbl L B (srcOf L E s) n p).isSome = true
          · simp only [hg, if_true] at hsc
            apply hEr2 n e
            rw [hsrc1]; exact hsc
          · simp only [hg, if_false, Bool.false_eq_true] at hsc
            cases he : refErr L B (srcOf L E s) n p with
            | none => rw [he] at hsc; cases hsc
            | some e'' =>
              by_cases hpm : p ∈ s.mods
              · exact absurd he (fun h => hreg hpm n e'' h)
              · have := hEr hpm n e'' he
                cases this

/-! ## operations keep the registered modules settled -/

/-- the reference tables of modules other than the in-memory one do not depend on its source -/
theorem refTbl_main_indep (hW : World L E B rank TreeOk) (s s' : St L) : ∀ n x, x ≠ E.main →
    refTbl L B (srcOf L E s') n x = refTbl L B (srcOf L E s) n x := by
  have hsrc : ∀ x, x ≠ E.main → srcOf L E s' x = srcOf L E s x := by
    intro x hx; unfold srcOf; cases E.disk x <;> simp [hx]
  intro n
  induction n with
  | zero => intro x _; rfl
  | succ n ih =>
    intro x hx
    rw [refTbl_succ_eq, refTbl_succ_eq]
    by_cases hb : x ∈ B.mods
    · simp only [hb, if_true]
    · simp only [hb, if_false]
      rw [hsrc x hx]
      cases hs : srcOf L E s x with
      | none => rfl
      | some src =>
        simp only [Option.bind]
        have hdisk : E.disk x = some src := by
          unfold srcOf at hs
          cases hd : E.disk x with
          | some src' => rw [hd] at hs; simpa using hs
          | none => rw [hd] at hs; simp [hx] at hs
        unfold refStep
        cases hp : L.parse src with
        | none => rfl
        | some t =>
          simp only
          have hnm : ∀ d, d ∈ L.imports t → d ≠ E.main := fun d hd e => hW.no_import_main x src t hdisk hp (e ▸ hd)
          have hall : (L.imports t).all (fun d => (refTbl L B (srcOf L E s') n d).isSome) =
              (L.imports t).all (fun d => (refTbl L B (srcOf L E s) n d).isSome) := by
            apply all_congr_mem
            intro d hd
            rw [ih d (hnm d hd)]
          have hlook : refLook B (refTbl L B (srcOf L E s') n) (L.imports t) = refLook B (refTbl L B (srcOf L E s) n) (L.imports t) := by
            funext k
            unfold refLook
            by_cases hk : modOf k ∈ L.imports t ∨ modOf k ∈ B.mods
            · simp only [hk, if_true]
              rcases hk with hk | hk
              · rw [ih _ (hnm _ hk)]
              · rw [refTbl_base L B _ _ _ hk, refTbl_base L B _ _ _ hk]
            · simp only [hk, if_false]
          rw [hall, hlook]

theorem srcOf_disk (s : St L) (x : ModPath) (src : Src) (hx : x ≠ E.main) (h : srcOf L E s x = some src) : E.disk x = some src := by
  unfold srcOf at h
  cases hd : E.disk x with
  | some src' => rw [hd] at h; simpa using h
  | none => rw [hd] at h; simp [hx] at h


/-- touching the memo tables and the stacks changes nothing that `Settled` looks at -/
theorem Settled.touch {s : St L} {Ex : List ModPath} (h : Settled L E B rank TreeOk s Ex) (m : ModPath) (ep : Ep Tree NV)
    (hep : alookup s.eps m = some ep) (d : List (List Str)) (pr : List (List Text)) :
    Settled L E B rank TreeOk { s with eps := aset s.eps m (Ep.touch L ep), deps := d, proc := pr } Ex := by
  refine ⟨h.base, h.table, h.stored, h.storedDisk, ?_, h.mainAcyclic⟩
  intro x hx hEx hd
  obtain ⟨hi, himp⟩ := h.ident x hx hEx hd
  refine ⟨hi, ?_⟩
  intro dd hdi hdk
  apply himp dd _ hdk
  unfold importsOf at hdi ⊢
  simp only [alookup_aset] at hdi
  by_cases e : m = x
  · subst e; simpa [hep, Ep.touch] using hdi
  · simpa [e] using hdi

/-- an operation of the histories the determinism theorem quantifies over: well-formed names; the pinned base (the library
    modules and what they import) is not unloaded; a re-submitted source imports only modules below the in-memory module -/
def OpOk : Op Src → Prop
  | .load m => GoodName m
  | .transpile m => GoodName m
  | .unload m => m ∉ B.mods
  | .resubmit src => SrcOk L src ∧ SrcAcyclic L E rank TreeOk src

/-- a state between two operations -/
def Stable (s : St L) : Prop := Coherent L E s ∧ Settled L E B rank TreeOk s []

theorem OpOk.wf {op : Op Src} (h : OpOk L E B rank TreeOk op) : Op.wf L op := by
  cases op with
  | load m => exact h
  | transpile m => exact h
  | unload m => trivial
  | resubmit src => exact h.1

theorem unload_settled (hW : World L E B rank TreeOk) (s : St L) (m : ModPath) (hI : Inv L E s)
    (hS : Settled L E B rank TreeOk s []) (hm : m ∉ B.mods) : Settled L E B rank TreeOk (unload L E s m) [] :=
  settled_unload L E B rank TreeOk hW s m [] [] hI hS (fun _ h => h) (fun _ h => Or.inr h) hm

/-- Interactive.rebuild_module: a new source for the in-memory module and its unload keep the others settled -/
theorem resubmit_settled (hW : World L E B rank TreeOk) (s : St L) (src : Src) (hI : Inv L E s) (hS : Settled L E B rank TreeOk s [])
    (hsrc : SrcAcyclic L E rank TreeOk src) :
    Settled L E B rank TreeOk (unload L E { s with mainSrc := src } E.main) [] := by
  rw [unload_setMain]
  have hS' := unload_settled L E B rank TreeOk hW s E.main hI hS hW.main_base
  have hnm := unload_not_mem L E s E.main
  generalize unload L E s E.main = s' at hS' hnm
  have hidx : ∀ n x, x ≠ E.main → refTbl L B (srcOf L E ({ s' with mainSrc := src } : St L)) n x = refTbl L B (srcOf L E s') n x :=
    fun n x hx => refTbl_main_indep L E B rank TreeOk hW s' _ n x hx
  refine ⟨hS'.base, ?_, ?_, hS'.storedDisk, hS'.ident, hsrc⟩
  · intro x hx _
    have hne : x ≠ E.main := fun e => hnm (e ▸ hx)
    obtain ⟨n, T, hT, hTe⟩ := hS'.table x hx (by simp)
    exact ⟨n, T, by rw [hidx n x hne]; exact hT, hTe⟩
  · intro q rows hq
    have hq2 : q ≠ E.main := by
      intro e
      have := hS'.storedDisk q rows hq
      rw [e] at this
      unfold onDisk at this
      rw [hW.main_disk] at this
      cases this
    obtain ⟨n, hn⟩ := hS'.stored q rows hq
    exact ⟨n, by rw [hidx n q hq2]; exact hn⟩

/-! ## determinism of `transpile` -/

/-- the whole reference symbol table at import depth `n` -/
def refLookAll (srcf : ModPath → Option Src) (n : Nat) : Key → Option V :=
  fun k => (refTbl L B srcf n (modOf k)).bind (fun T => alookup T k)

/-- hypothesis on the renderer ("the output depends only on the import closure"): two symbol tables that agree on a set of
    modules which contains the module, the base, and is closed under imports give the same result -/
def RenderLocal : Prop :=
  ∀ (srcf : ModPath → Option Src) (x : ModPath) (t : Tree) (S : ModPath → Prop) (look₁ look₂ : Key → Option V),
    GoodName x → (srcf x).bind L.parse = some t → TreeOk t →
    S x → (∀ b, b ∈ B.mods → S b) →
    (∀ y, S y → ∀ ty, (srcf y).bind L.parse = some ty → ∀ d, d ∈ L.imports ty → S d) →
    (∀ k, S (modOf k) → look₁ k = look₂ k) →
    L.render x (L.query t) look₁ = L.render x (L.query t) look₂

theorem load_stable (hW : World L E B rank TreeOk) (f : Nat) (s : St L) (m : ModPath) (hm : GoodName m) (hSt : Stable L E B rank TreeOk s)
    (hnr : (loadAll L E f [m] s).1 ≠ .error .recursion) :
    Stable L E B rank TreeOk (loadAll L E f [m] s).2 ∧ Global L s (loadAll L E f [m] s).2 ∧
    ((loadAll L E f [m] s).1 = .ok () → Frame L s (loadAll L E f [m] s).2 ∧ m ∈ (loadAll L E f [m] s).2.mods) ∧
    (Good L B (srcOf L E s) m → (loadAll L E f [m] s).1 = .ok ()) ∧
    (∀ n e, refErr L B (srcOf L E s) n m = some e → (loadAll L E f [m] s).1 = .error e) := by
  have hnames : ∀ p, p ∈ [m] → GoodName p := by intro p hp; simp at hp; exact hp ▸ hm
  obtain ⟨hI, hE, hM, hX⟩ := hSt.1
  obtain ⟨hI1, hG1, hE1, hok1, _, hX1⟩ := loadAll_inv L E hW.names f [m] s hnames hI hM
  obtain ⟨hS1, hG, hEr⟩ := loadAll_Q L E B rank TreeOk hW f [m] s [] hnames hI hE hM hSt.2 (by simp) (by simp) hnr
  refine ⟨⟨⟨hI1, hE1 hE, hG1.mainSrc ▸ hM, hX1 [] hX⟩, hS1⟩, hG1, ?_, ?_, ?_⟩
  · intro h
    obtain ⟨a, b⟩ := hok1 h
    exact ⟨a, b m (by simp)⟩
  · intro hGm
    apply hG
    intro p hp; simp at hp; exact hp ▸ hGm
  · intro n e he
    apply hEr n e
    simp only [scanErr]
    have : (refTbl L B (srcOf L E s) n m).isSome = false := by
      cases hT : refTbl L B (srcOf L E s) n m with
      | none => rfl
      | some T => exact absurd hT (fun h => good_not_err L B _ n m e he n T h)
    simp [this, he]

theorem det_core (hW : World L E B rank TreeOk) (hR : RenderLocal L B TreeOk) (s : St L) (m : ModPath) (hgm : GoodName m)
    (hSt : Stable L E B rank TreeOk s) (hm : m ∈ s.mods) (n : Nat) (T : List (Key × V)) (hT : refTbl L B (srcOf L E s) n m = some T)
    (ep : Ep Tree NV) (hep : alookup s.eps m = some ep) :
    L.render m (Ep.nf L ep) (alookup s.db) = L.render m (L.query ep.tree) (refLookAll L B (srcOf L E s) n) := by
  obtain ⟨⟨hI, _, _, hX⟩, hS⟩ := hSt
  rw [nf_eq L ep (hI.memo m ep hep)]
  apply hR (srcOf L E s) m ep.tree (fun y => y ∈ s.mods ∧ ∃ Ty, refTbl L B (srcOf L E s) n y = some Ty) _ _ hgm
    (hI.tree m ep hep) (imports_rank L E B rank TreeOk hW s m ep hI hS.mainAcyclic hep).1
  · exact ⟨hm, T, hT⟩
  · intro b hb
    exact ⟨hS.base b hb, _, refTbl_base L B _ n b hb⟩
  · rintro y ⟨hy, Ty, hTy⟩ ty hty d hd
    obtain ⟨t', ht', hi'⟩ := importsOf_src L E s y hI hy
    rw [hty] at ht'
    have htyeq : ty = t' := by simpa using ht'
    refine ⟨hX y hy (by simp) d (by simp only [depsOf, List.mem_append]; left; rw [hi', ← htyeq]; exact hd), ?_⟩
    by_cases hb : y ∈ B.mods
    · cases hs : srcOf L E s y with
      | none => rw [hs] at hty; cases hty
      | some src =>
        rw [hs] at hty
        have hne : y ≠ E.main := fun e => hW.main_base (e ▸ hb)
        have := hW.base_closed y hb src ty (srcOf_disk L E s y src hne hs) (by simpa using hty) d hd
        exact ⟨_, refTbl_base L B _ n d this⟩
    · obtain ⟨m', src, t'', ins, hn, hsrc, hparse, hdeps, _⟩ := refTbl_step L B hb hTy
      rw [hsrc] at hty
      have : t'' = ty := by simpa [hparse] using hty
      subst this
      obtain ⟨Td, hTd⟩ := hdeps d hd
      exact ⟨Td, refTbl_mono L B _ (by omega) d Td hTd⟩
  · rintro k ⟨hy, Ty, hTy⟩
    unfold refLookAll
    rw [hTy]
    simp only [Option.bind]
    rw [← alookup_tableOf s.db (modOf k) k rfl, hS.tableEq L E B rank TreeOk (modOf k) hy (by simp) n Ty hTy]

/-- `transpile m` of a good module in a stable state returns the reference result (text or render error) -/
theorem transpile_det (hW : World L E B rank TreeOk) (hR : RenderLocal L B TreeOk) (f : Nat) (s : St L) (m : ModPath) (hm : GoodName m)
    (hSt : Stable L E B rank TreeOk s) (n : Nat) (T : List (Key × V)) (hT : refTbl L B (srcOf L E s) n m = some T)
    (hnr : (transpile L E f s m).1 ≠ .error .recursion) :
    ∃ t, (srcOf L E s m).bind L.parse = some t ∧
      (transpile L E f s m).1 = (L.render m (L.query t) (refLookAll L B (srcOf L E s) n)).1 := by
  unfold transpile at hnr ⊢
  have h1 := load_stable L E B rank TreeOk hW f s m hm hSt
  generalize loadAll L E f [m] s = r at h1 hnr ⊢
  obtain ⟨rr, s1⟩ := r
  simp only at h1 hnr ⊢
  cases rr with
  | error e =>
    simp only at hnr
    obtain ⟨_, _, _, hG, _⟩ := h1 (by intro h; cases h; exact hnr rfl)
    have := hG ⟨n, T, hT⟩
    cases this
  | ok u =>
    obtain ⟨hSt1, hG1, hmem, _, _⟩ := h1 (by intro h; cases h)
    have hm1 : m ∈ s1.mods := (hmem rfl).2
    obtain ⟨ep, hep⟩ := (ahas_iff _ _).1 (hSt1.1.1.eps m hm1)
    have hsrc1 := srcOf_congr L E s s1 hG1.mainSrc
    have htree := hSt1.1.1.tree m ep hep
    rw [hsrc1] at htree
    refine ⟨ep.tree, htree, ?_⟩
    simp only [hep]
    have hcore := det_core L E B rank TreeOk hW hR s1 m hm hSt1 hm1 n T (by rw [hsrc1]; exact hT) ep hep
    rw [hsrc1] at hcore
    rw [hcore]
    cases (L.render m (L.query ep.tree) (refLookAll L B (srcOf L E s) n)).1 <;> rfl

/-- `transpile m` of a module that is not good raises its reference error (the one a fresh process raises) -/
theorem transpile_det_err (hW : World L E B rank TreeOk) (f : Nat) (s : St L) (m : ModPath) (hm : GoodName m)
    (hSt : Stable L E B rank TreeOk s) (n : Nat) (e : Err) (he : refErr L B (srcOf L E s) n m = some e)
    (hnr : (transpile L E f s m).1 ≠ .error .recursion) :
    (transpile L E f s m).1 = .error e := by
  unfold transpile at hnr ⊢
  have h1 := load_stable L E B rank TreeOk hW f s m hm hSt
  generalize loadAll L E f [m] s = r at h1 hnr ⊢
  obtain ⟨rr, s1⟩ := r
  simp only at h1 hnr ⊢
  cases rr with
  | error e' =>
    simp only at hnr ⊢
    obtain ⟨_, _, _, _, hEr⟩ := h1 (by intro h; cases h; exact hnr rfl)
    have := hEr n e he
    cases this; rfl
  | ok u =>
    obtain ⟨_, _, _, _, hEr⟩ := h1 (by intro h; cases h)
    have := hEr n e he
    cases this

theorem transpile_stable (hW : World L E B rank TreeOk) (f : Nat) (s : St L) (m : ModPath) (hm : GoodName m)
    (hSt : Stable L E B rank TreeOk s) (hnr : (transpile L E f s m).1 ≠ .error .recursion) :
    Stable L E B rank TreeOk (transpile L E f s m).2 := by
  refine ⟨transpile_coherent L E hW.names f s m hm hSt.1, ?_⟩
  unfold transpile at hnr ⊢
  have h1 := load_stable L E B rank TreeOk hW f s m hm hSt
  generalize loadAll L E f [m] s = r at h1 hnr ⊢
  obtain ⟨rr, s1⟩ := r
  simp only at h1 hnr ⊢
  cases rr with
  | error e => exact (h1 (by intro h; cases h; exact hnr rfl)).1.2
  | ok u =>
    obtain ⟨hSt1, _⟩ := h1 (by intro h; cases h)
    simp only
    cases hep : alookup s1.eps m with
    | none => exact hSt1.2
    | some ep =>
      simp only
      cases (L.render m (Ep.nf L ep) (alookup s1.db)).1 with
      | ok t => exact Settled.touch L E B rank TreeOk hSt1.2 m ep hep _ _
      | error e => exact Settled.touch L E B rank TreeOk hSt1.2 m ep hep _ _

theorem step_stable (hW : World L E B rank TreeOk) (f : Nat) (s : St L) (op : Op Src) (hop : OpOk L E B rank TreeOk op)
    (hSt : Stable L E B rank TreeOk s) (hnr : (step L E f s op).1 ≠ .error .recursion) :
    Stable L E B rank TreeOk (step L E f s op).2 := by
  have hC := step_coherent L E hW.names f s op (OpOk.wf L E B rank TreeOk hop) hSt.1
  cases op with
  | load m =>
    simp only [step] at hnr ⊢
    have h1 := load_stable L E B rank TreeOk hW f s m hop hSt
    generalize loadAll L E f [m] s = r at h1 hnr ⊢
    obtain ⟨rr, s1⟩ := r
    cases rr with
    | error e => exact (h1 (by intro h; cases h; exact hnr rfl)).1
    | ok u => exact (h1 (by intro h; cases h)).1
  | transpile m =>
    simp only [step] at hnr ⊢
    have h1 := transpile_stable L E B rank TreeOk hW f s m hop hSt
    generalize transpile L E f s m = r at h1 hnr ⊢
    obtain ⟨rr, s1⟩ := r
    cases rr with
    | error e => exact h1 (by intro h; cases h; exact hnr rfl)
    | ok t => exact h1 (by intro h; cases h)
  | unload m =>
    simp only [step] at hC ⊢
    exact ⟨hC, unload_settled L E B rank TreeOk hW s m hSt.1.1 hSt.2 hop⟩
  | resubmit src =>
    simp only [step, resubmit] at hnr ⊢
    have hC1 := resubmit_unload_coherent L E s src hSt.1 hop.1
    have hS1 := resubmit_settled L E B rank TreeOk hW s src hSt.1.1 hSt.2 hop.2
    have h1 := transpile_stable L E B rank TreeOk hW f _ E.main hW.names.main ⟨hC1, hS1⟩
    generalize transpile L E f (unload L E { s with mainSrc := src } E.main) E.main = r at h1 hnr ⊢
    obtain ⟨rr, s1⟩ := r
    cases rr with
    | error e => exact h1 (by intro h; cases h; exact hnr rfl)
    | ok t => exact h1 (by intro h; cases h)

/-- states reachable from `s₀` by operations none of which ran out of fuel — no other restriction on the history -/
inductive Reach (f : Nat) (s₀ : St L) : St L → Prop where
  | base : Reach f s₀ s₀
  | step (s : St L) (op : Op Src) : Reach f s₀ s → OpOk L E B rank TreeOk op → (step L E f s op).1 ≠ .error .recursion →
      Reach f s₀ (step L E f s op).2

theorem reach_stable (hW : World L E B rank TreeOk) (f : Nat) (s₀ s : St L) (h0 : Stable L E B rank TreeOk s₀)
    (h : Reach L E B rank TreeOk f s₀ s) : Stable L E B rank TreeOk s := by
  induction h with
  | base => exact h0
  | step s op _ hop hnr ih => exact step_stable L E B rank TreeOk hW f s op hop ih hnr

/-- `load m` of a good module in a stable state: it ends up registered with its reference table and the tree of its source -/
theorem load_table (hW : World L E B rank TreeOk) (f : Nat) (s : St L) (m : ModPath) (hm : GoodName m) (hSt : Stable L E B rank TreeOk s)
    (n : Nat) (T : List (Key × V)) (hT : refTbl L B (srcOf L E s) n m = some T)
    (hnr : (loadAll L E f [m] s).1 ≠ .error .recursion) :
    (loadAll L E f [m] s).1 = .ok () ∧ m ∈ (loadAll L E f [m] s).2.mods ∧ tableOf (loadAll L E f [m] s).2.db m = T ∧
    ∃ ep, alookup (loadAll L E f [m] s).2.eps m = some ep ∧ (srcOf L E s m).bind L.parse = some ep.tree := by
  obtain ⟨hSt1, hG1, hmem, hG, _⟩ := load_stable L E B rank TreeOk hW f s m hm hSt hnr
  have hok := hG ⟨n, T, hT⟩
  have hm1 := (hmem hok).2
  have hsrc1 := srcOf_congr L E s _ hG1.mainSrc
  refine ⟨hok, hm1, hSt1.2.tableEq L E B rank TreeOk m hm1 (by simp) n T (by rw [hsrc1]; exact hT), ?_⟩
  obtain ⟨ep, hep⟩ := (ahas_iff _ _).1 (hSt1.1.1.eps m hm1)
  exact ⟨ep, hep, hsrc1 ▸ hSt1.1.1.tree m ep hep⟩

theorem srcOf_acyclic (hW : World L E B rank TreeOk) (s : St L) (hM : SrcAcyclic L E rank TreeOk s.mainSrc) :
    ∀ x src t, srcOf L E s x = some src → L.parse src = some t → ∀ d, d ∈ L.imports t → rank d < rank x := by
  intro x src t hs hp d hd
  unfold srcOf at hs
  cases hdk : E.disk x with
  | some src' =>
    rw [hdk] at hs
    simp only [Option.some.injEq] at hs
    subst hs
    exact (hW.acyclic x src' t hdk hp).2 d hd
  | none =>
    rw [hdk] at hs
    simp only at hs
    split at hs
    · next e =>
      simp only [Option.some.injEq] at hs
      subst hs
      rw [e]; exact (hM t hp).2 d hd
    · cases hs

/-- in an acyclic world every module has a reference table or a reference error -/
theorem determined (hW : World L E B rank TreeOk) (s : St L) (hM : SrcAcyclic L E rank TreeOk s.mainSrc) (m : ModPath) :
    ∃ n, Determined L B (srcOf L E s) n m :=
  determined_of_acyclic L B (srcOf L E s) rank (srcOf_acyclic L E B rank TreeOk hW s hM) (rank m + 1) m (Nat.lt_succ_self _)

/-! ## histories that unload library modules

  Unloading a library module (or a module the libraries import) cascades to every non-library module (modules.py:151-156),
  so afterwards only base modules are registered; the next load of anything else first loads the libraries again.
  How the library stubs themselves load (in one another's half-loaded context: `classes` imports `typing`, which as a
  non-library module depends on the libraries) is not derived here: `BaseWorld.load` is the exact remaining hypothesis. -/

/-- only base modules are registered -/
def NoNonBase (s : St L) : Prop := ∀ x, x ∈ s.mods → x ∈ B.mods

/-- `Settled` for a state in which the base may be loaded only in part (and then nothing else is loaded) -/
structure SettledB (s : St L) : Prop where
  table : ∀ x, x ∈ s.mods → ∃ n T, refTbl L B (srcOf L E s) n x = some T ∧ tableOf s.db x = T
  stored : ∀ p rows, alookup s.stored p = some rows → ∃ n, refTbl L B (srcOf L E s) n p = some rows
  storedDisk : ∀ p rows, alookup s.stored p = some rows → onDisk E p = true
  ident : ∀ x, x ∈ s.mods → onDisk E x = true → x ∈ s.ident
  mainAcyclic : SrcAcyclic L E rank TreeOk s.mainSrc
  nonbase : NoNonBase L B s

def StableB (s : St L) : Prop := Coherent L E s ∧ SettledB L E B rank TreeOk s

/-- a state between two operations of an arbitrary history -/
def StableU (s : St L) : Prop := Stable L E B rank TreeOk s ∨ StableB L E B rank TreeOk s

/-- reachable from a library module through imports of files -/
inductive LibReach : ModPath → Prop where
  | lib (b : ModPath) : b ∈ E.libs → LibReach b
  | imp (y b : ModPath) (src : Src) (t : Tree) : LibReach y → E.disk y = some src → L.parse src = some t → b ∈ L.imports t → LibReach b

/-- hypotheses for histories that unload library modules -/
structure BaseWorld : Prop where
  /-- the base is exactly what the libraries reach -/
  reach : ∀ b, b ∈ B.mods → LibReach L E b
  /-- loading base modules while only base modules are registered succeeds and gives them their base tables -/
  load : ∀ f (s : St L) ps, StableB L E B rank TreeOk s → (∀ p, p ∈ ps → p ∈ B.mods) →
    (loadAll L E f ps s).1 ≠ .error .recursion →
    (loadAll L E f ps s).1 = .ok () ∧ StableB L E B rank TreeOk (loadAll L E f ps s).2

theorem libReach_base (hW : World L E B rank TreeOk) (b : ModPath) (h : LibReach L E b) : b ∈ B.mods := by
  induction h with
  | lib b hb => exact hW.libs_base b hb
  | imp y b src t _ hd hp hb ih => exact hW.base_closed y ih src t hd hp b hb

/-- in a coherent state: when the libraries are registered, everything they reach is -/
theorem libReach_mods (s : St L) (hC : Coherent L E s) (hlibs : ∀ l, l ∈ E.libs → l ∈ s.mods) (b : ModPath) (h : LibReach L E b) :
    b ∈ s.mods := by
  induction h with
  | lib b hb => exact hlibs b hb
  | imp y b src t _ hd hp hb ih =>
    obtain ⟨t', ht', hi'⟩ := importsOf_src L E s y hC.1 ih
    have hs : srcOf L E s y = some src := by unfold srcOf; rw [hd]
    rw [hs] at ht'
    have : t = t' := by simpa [hp] using ht'
    subst this
    exact hC.2.2.2 y ih (by simp) b (by simp only [depsOf, List.mem_append]; left; rw [hi']; exact hb)

theorem stableB_full (hBW : BaseWorld L E B rank TreeOk) (s : St L) (hSt : StableB L E B rank TreeOk s)
    (hlibs : ∀ l, l ∈ E.libs → l ∈ s.mods) : Stable L E B rank TreeOk s :=
  ⟨hSt.1, ⟨fun b hb => libReach_mods L E s hSt.1 hlibs b (hBW.reach b hb), fun x hx _ => hSt.2.table x hx, hSt.2.stored,
    hSt.2.storedDisk, fun x hx _ hd => ⟨hSt.2.ident x hx hd, fun d hdi _ => ⟨hSt.1.2.2.2 x hx (by simp) d (by simp only [depsOf, List.mem_append]; exact Or.inl hdi), by simp⟩⟩, hSt.2.mainAcyclic⟩⟩

/-- what is left after an unload is still described by reference tables -/
theorem settledB_unload (s : St L) (m : ModPath)
    (htable : ∀ x, x ∈ s.mods → ∃ n T, refTbl L B (srcOf L E s) n x = some T ∧ tableOf s.db x = T)
    (hstored : ∀ p rows, alookup s.stored p = some rows → ∃ n, refTbl L B (srcOf L E s) n p = some rows)
    (hdisk : ∀ p rows, alookup s.stored p = some rows → onDisk E p = true)
    (hident : ∀ x, x ∈ s.mods → onDisk E x = true → x ∈ s.ident)
    (hmain : SrcAcyclic L E rank TreeOk s.mainSrc) (hnb : NoNonBase L B (unload L E s m)) :
    SettledB L E B rank TreeOk (unload L E s m) := by
  have hsub := unload_sub L E s m
  have hsrc := srcOf_congr L E s _ hsub.mainSrc
  refine { table := ?_, stored := ?_, storedDisk := ?_, ident := ?_, mainAcyclic := ?_, nonbase := hnb }
  · intro x hx
    obtain ⟨n, T, hT, he⟩ := htable x (hsub.mods x hx)
    exact ⟨n, T, by rw [hsrc]; exact hT, by rw [hsub.table x hx]; exact he⟩
  · intro q rows hq
    rw [hsub.stored] at hq
    obtain ⟨n, hn⟩ := hstored q rows hq
    exact ⟨n, by rw [hsrc]; exact hn⟩
  · intro q rows hq
    rw [hsub.stored] at hq
    exact hdisk q rows hq
  · intro x hx hd
    exact unload_ident L E s m x hx (hident x (hsub.mods x hx) hd)
  · rw [hsub.mainSrc]; exact hmain

theorem unload_stableU (hW : World L E B rank TreeOk) (hBW : BaseWorld L E B rank TreeOk) (s : St L) (m : ModPath)
    (hSt : StableU L E B rank TreeOk s) : StableU L E B rank TreeOk (unload L E s m) := by
  have hsub := unload_sub L E s m
  rcases hSt with hSt | hSt
  · by_cases hm : m ∈ B.mods
    · -- a base module: the cascade takes every non-base module with it
      right
      refine ⟨unload_coherent L E s m hSt.1, settledB_unload L E B rank TreeOk s m
        (fun x hx => hSt.2.table x hx (by simp)) hSt.2.stored hSt.2.storedDisk (fun x hx hd => (hSt.2.ident x hx (by simp) hd).1) hSt.2.mainAcyclic ?_⟩
      intro x hx
      apply Classical.byContradiction
      intro hxb
      have hC' := unload_coherent L E s m hSt.1
      have hxl : x ∉ E.libs := fun h => hxb (hW.libs_base x h)
      have hlibs : ∀ l, l ∈ E.libs → l ∈ (unload L E s m).mods := by
        intro l hl
        apply unload_dang L E s m x hx (by simp) l _ (hSt.2.base l (hW.libs_base l hl))
        simp only [depsOf, List.mem_append]
        right; simp [hxl, hl]
      exact unload_not_mem L E s m (libReach_mods L E _ hC' hlibs m (hBW.reach m hm))
    · left
      have := step_stable L E B rank TreeOk hW 0 s (.unload m) hm hSt (by simp [step])
      simpa [step] using this
  · right
    exact ⟨unload_coherent L E s m hSt.1, settledB_unload L E B rank TreeOk s m hSt.2.table hSt.2.stored hSt.2.storedDisk
      hSt.2.ident hSt.2.mainAcyclic (fun x hx => hSt.2.nonbase x (hsub.mods x hx))⟩

theorem loadAll_ok_len : ∀ f (ps : List ModPath) (s : St L), (loadAll L E f ps s).1 = .ok () → ps.length ≤ f := by
  intro f
  induction f with
  | zero => intro ps s h; cases ps with
    | nil => simp
    | cons p ps => simp [loadAll] at h
  | succ f ih =>
    intro ps s h
    cases ps with
    | nil => simp
    | cons p ps =>
      simp only [loadAll] at h
      generalize loadOne L E (loadAll L E f) (unload L E) p s = r at h
      obtain ⟨rr, s1⟩ := r
      cases rr with
      | error e => simp at h
      | ok u => simp only at h; simpa using Nat.succ_le_succ (ih ps s1 h)

theorem loadAll_reg_ok : ∀ f (ps : List ModPath) (s : St L), (∀ p, p ∈ ps → p ∈ s.mods) → ps.length ≤ f → loadAll L E f ps s = (.ok (), s) := by
  intro f
  induction f with
  | zero => intro ps s _ hl; cases ps with
    | nil => rfl
    | cons p ps => simp at hl
  | succ f ih =>
    intro ps s hps hl
    cases ps with
    | nil => rfl
    | cons p ps =>
      have hp : p ∈ s.mods := hps p (by simp)
      simp only [loadAll, loadOne, hp, if_true]
      exact ih ps s (fun q hq => hps q (List.mem_cons_of_mem _ hq)) (by simpa using Nat.le_of_succ_le_succ hl)

/-- loading a non-library module from a state where the library load has just produced `s0` is loading it from `s0` -/
theorem loadOne_libs_eq (rec : List ModPath → St L → Except Err Unit × St L) (p : ModPath) (s s0 : St L)
    (hp : p ∉ s.mods) (hpl : p ∉ E.libs) (h0 : rec E.libs s = (.ok (), s0)) (h00 : rec E.libs s0 = (.ok (), s0)) :
    loadOne L E rec (unload L E) p s = loadOne L E rec (unload L E) p s0 := by
  unfold loadOne
  simp only [hp, hpl, if_false, h0]
  by_cases hp0 : p ∈ s0.mods
  · simp only [hp0, if_true]
  · simp only [hp0, if_false, h00]

/-- from a base-only state, loading a non-base module is: load the libraries (which restores the base), then load it -/
theorem load_from_baseOnly (hW : World L E B rank TreeOk) (hBW : BaseWorld L E B rank TreeOk) (f : Nat) (s : St L) (m : ModPath)
    (hSt : StableB L E B rank TreeOk s) (hmB : m ∉ B.mods) (hnr : (loadAll L E f [m] s).1 ≠ .error .recursion) :
    ∃ s0, Stable L E B rank TreeOk s0 ∧ s0.mainSrc = s.mainSrc ∧ loadAll L E f [m] s = loadAll L E f [m] s0 := by
  cases f with
  | zero => exact absurd rfl hnr
  | succ f =>
    have hms : m ∉ s.mods := fun h => hmB (hSt.2.nonbase m h)
    have hml : m ∉ E.libs := fun h => hmB (hW.libs_base m h)
    have hlibsB : ∀ l, l ∈ E.libs → l ∈ B.mods := hW.libs_base
    have hnr0 : (loadAll L E f E.libs s).1 ≠ .error .recursion := by
      intro h
      apply hnr
      simp only [loadAll, loadOne, hms, hml, if_false]
      generalize loadAll L E f E.libs s = r0 at h
      obtain ⟨r0r, s0⟩ := r0
      simp only at h
      subst h
      rfl
    obtain ⟨hok0, hStB0⟩ := hBW.load f s E.libs hSt hlibsB hnr0
    obtain ⟨_, hG0, _, hokc, _, _⟩ := loadAll_inv L E hW.names f E.libs s hW.names.libs hSt.1.1 hSt.1.2.2.1
    have hlen := loadAll_ok_len L E f E.libs s hok0
    have hlibs0 := (hokc hok0).2
    generalize hr0 : loadAll L E f E.libs s = r0 at hok0 hStB0 hG0 hlibs0
    obtain ⟨r0r, s0⟩ := r0
    simp only at hok0 hStB0 hG0 hlibs0
    subst hok0
    have hSt0 := stableB_full L E B rank TreeOk hBW s0 hStB0 hlibs0
    have h00 := loadAll_reg_ok L E f E.libs s0 hlibs0 hlen
    refine ⟨s0, hSt0, hG0.mainSrc, ?_⟩
    simp only [loadAll]
    rw [loadOne_libs_eq L E (loadAll L E f) m s s0 hms hml hr0 h00]

theorem SettledB.touch {s : St L} (h : SettledB L E B rank TreeOk s) (m : ModPath) (ep : Ep Tree NV)
    (d : List (List Str)) (pr : List (List Text)) :
    SettledB L E B rank TreeOk { s with eps := aset s.eps m (Ep.touch L ep), deps := d, proc := pr } :=
  ⟨h.table, h.stored, h.storedDisk, h.ident, h.mainAcyclic, h.nonbase⟩

theorem transpile_congr (f : Nat) (s s0 : St L) (m : ModPath) (h : loadAll L E f [m] s = loadAll L E f [m] s0) :
    transpile L E f s m = transpile L E f s0 m := by
  unfold transpile; rw [h]

theorem load_stableU (hW : World L E B rank TreeOk) (hBW : BaseWorld L E B rank TreeOk) (f : Nat) (s : St L) (m : ModPath)
    (hm : GoodName m) (hSt : StableU L E B rank TreeOk s) (hnr : (loadAll L E f [m] s).1 ≠ .error .recursion) :
    StableU L E B rank TreeOk (loadAll L E f [m] s).2 := by
  rcases hSt with hSt | hSt
  · exact Or.inl (load_stable L E B rank TreeOk hW f s m hm hSt hnr).1
  · by_cases hmB : m ∈ B.mods
    · exact Or.inr (hBW.load f s [m] hSt (by intro p hp; simp at hp; exact hp ▸ hmB) hnr).2
    · obtain ⟨s0, hSt0, _, heq⟩ := load_from_baseOnly L E B rank TreeOk hW hBW f s m hSt hmB hnr
      rw [heq] at hnr ⊢
      exact Or.inl (load_stable L E B rank TreeOk hW f s0 m hm hSt0 hnr).1

theorem transpile_stableU (hW : World L E B rank TreeOk) (hBW : BaseWorld L E B rank TreeOk) (f : Nat) (s : St L) (m : ModPath)
    (hm : GoodName m) (hSt : StableU L E B rank TreeOk s) (hnr : (transpile L E f s m).1 ≠ .error .recursion) :
    StableU L E B rank TreeOk (transpile L E f s m).2 := by
  have hC : Coherent L E s := by rcases hSt with h | h <;> exact h.1
  have hCt := transpile_coherent L E hW.names f s m hm hC
  unfold transpile at hnr hCt ⊢
  have h1 := load_stableU L E B rank TreeOk hW hBW f s m hm hSt
  generalize loadAll L E f [m] s = r at h1 hnr hCt ⊢
  obtain ⟨rr, s1⟩ := r
  simp only at h1 hnr hCt ⊢
  cases rr with
  | error e => exact h1 (by intro h; cases h; exact hnr rfl)
  | ok u =>
    have hSt1 := h1 (by intro h; cases h)
    simp only at hCt ⊢
    cases hep : alookup s1.eps m with
    | none => exact hSt1
    | some ep =>
      simp only [hep] at hCt ⊢
      cases hr : (L.render m (Ep.nf L ep) (alookup s1.db)).1 with
      | ok t =>
        simp only [hr] at hCt ⊢
        rcases hSt1 with h | h
        · exact Or.inl ⟨hCt, Settled.touch L E B rank TreeOk h.2 m ep hep _ _⟩
        · exact Or.inr ⟨hCt, SettledB.touch L E B rank TreeOk h.2 m ep _ _⟩
      | error e =>
        simp only [hr] at hCt ⊢
        rcases hSt1 with h | h
        · exact Or.inl ⟨hCt, Settled.touch L E B rank TreeOk h.2 m ep hep _ _⟩
        · exact Or.inr ⟨hCt, SettledB.touch L E B rank TreeOk h.2 m ep _ _⟩

/-- an operation of an arbitrary history: well-formed names, a re-submitted source imports only modules below the in-memory
    module — and NO restriction on what is unloaded -/
def OpAny : Op Src → Prop
  | .load m => GoodName m
  | .transpile m => GoodName m
  | .unload _ => True
  | .resubmit src => SrcOk L src ∧ SrcAcyclic L E rank TreeOk src

theorem OpAny.wf {op : Op Src} (h : OpAny L E rank TreeOk op) : Op.wf L op := by
  cases op with
  | load m => exact h
  | transpile m => exact h
  | unload m => trivial
  | resubmit src => exact h.1

theorem resubmit_stableU (hW : World L E B rank TreeOk) (hBW : BaseWorld L E B rank TreeOk) (s : St L) (src : Src)
    (hSt : StableU L E B rank TreeOk s) (hsrc : SrcOk L src ∧ SrcAcyclic L E rank TreeOk src) :
    StableU L E B rank TreeOk (unload L E { s with mainSrc := src } E.main) := by
  have hC : Coherent L E s := by rcases hSt with h | h <;> exact h.1
  have hC1 := resubmit_unload_coherent L E s src hC hsrc.1
  rcases hSt with hSt | hSt
  · exact Or.inl ⟨hC1, resubmit_settled L E B rank TreeOk hW s src hSt.1.1 hSt.2 hsrc.2⟩
  · right
    refine ⟨hC1, ?_⟩
    have hU := unload_stableU L E B rank TreeOk hW hBW s E.main (Or.inr hSt)
    have hnm := unload_not_mem L E s E.main
    have hsub := unload_sub L E s E.main
    rw [unload_setMain]
    have hSB : SettledB L E B rank TreeOk (unload L E s E.main) :=
      settledB_unload L E B rank TreeOk s E.main hSt.2.table hSt.2.stored hSt.2.storedDisk hSt.2.ident hSt.2.mainAcyclic
        (fun x hx => hSt.2.nonbase x (hsub.mods x hx))
    generalize unload L E s E.main = s' at hSB hnm
    have hidx : ∀ n x, x ≠ E.main → refTbl L B (srcOf L E ({ s' with mainSrc := src } : St L)) n x = refTbl L B (srcOf L E s') n x :=
      fun n x hx => refTbl_main_indep L E B rank TreeOk hW s' _ n x hx
    refine ⟨?_, ?_, hSB.storedDisk, hSB.ident, hsrc.2, hSB.nonbase⟩
    · intro x hx
      have hne : x ≠ E.main := fun e => hnm (e ▸ hx)
      obtain ⟨n, T, hT, hTe⟩ := hSB.table x hx
      exact ⟨n, T, by rw [hidx n x hne]; exact hT, hTe⟩
    · intro q rows hq
      have hq2 : q ≠ E.main := by
        intro e
        have := hSB.storedDisk q rows hq
        rw [e] at this
        unfold onDisk at this
        rw [hW.main_disk] at this
        cases this
      obtain ⟨n, hn⟩ := hSB.stored q rows hq
      exact ⟨n, by rw [hidx n q hq2]; exact hn⟩

theorem step_stableU (hW : World L E B rank TreeOk) (hBW : BaseWorld L E B rank TreeOk) (f : Nat) (s : St L) (op : Op Src)
    (hop : OpAny L E rank TreeOk op) (hSt : StableU L E B rank TreeOk s) (hnr : (step L E f s op).1 ≠ .error .recursion) :
    StableU L E B rank TreeOk (step L E f s op).2 := by
  cases op with
  | load m =>
    simp only [step] at hnr ⊢
    have h1 := load_stableU L E B rank TreeOk hW hBW f s m hop hSt
    generalize loadAll L E f [m] s = r at h1 hnr ⊢
    obtain ⟨rr, s1⟩ := r
    cases rr with
    | error e => exact h1 (by intro h; cases h; exact hnr rfl)
    | ok u => exact h1 (by intro h; cases h)
  | transpile m =>
    simp only [step] at hnr ⊢
    have h1 := transpile_stableU L E B rank TreeOk hW hBW f s m hop hSt
    generalize transpile L E f s m = r at h1 hnr ⊢
    obtain ⟨rr, s1⟩ := r
    cases rr with
    | error e => exact h1 (by intro h; cases h; exact hnr rfl)
    | ok t => exact h1 (by intro h; cases h)
  | unload m =>
    simp only [step]
    exact unload_stableU L E B rank TreeOk hW hBW s m hSt
  | resubmit src =>
    simp only [step, resubmit] at hnr ⊢
    have hS1 := resubmit_stableU L E B rank TreeOk hW hBW s src hSt hop
    have h1 := transpile_stableU L E B rank TreeOk hW hBW f _ E.main hW.names.main hS1
    generalize transpile L E f (unload L E { s with mainSrc := src } E.main) E.main = r at h1 hnr ⊢
    obtain ⟨rr, s1⟩ := r
    cases rr with
    | error e => exact h1 (by intro h; cases h; exact hnr rfl)
    | ok t => exact h1 (by intro h; cases h)

/-- states reachable by ANY history of well-formed operations (library modules may be unloaded) -/
inductive ReachU (f : Nat) (s₀ : St L) : St L → Prop where
  | base : ReachU f s₀ s₀
  | step (s : St L) (op : Op Src) : ReachU f s₀ s → OpAny L E rank TreeOk op → (step L E f s op).1 ≠ .error .recursion →
      ReachU f s₀ (step L E f s op).2

theorem reach_stableU (hW : World L E B rank TreeOk) (hBW : BaseWorld L E B rank TreeOk) (f : Nat) (s₀ s : St L)
    (h0 : StableU L E B rank TreeOk s₀) (h : ReachU L E rank TreeOk f s₀ s) : StableU L E B rank TreeOk s := by
  induction h with
  | base => exact h0
  | step s op _ hop hnr ih => exact step_stableU L E B rank TreeOk hW hBW f s op hop ih hnr

/-- the reference result of a non-base module in any state of an arbitrary history -/
theorem transpile_detU (hW : World L E B rank TreeOk) (hBW : BaseWorld L E B rank TreeOk) (hR : RenderLocal L B TreeOk)
    (f : Nat) (s : St L) (m : ModPath) (hm : GoodName m) (hmB : m ∉ B.mods) (hSt : StableU L E B rank TreeOk s)
    (hnr : (transpile L E f s m).1 ≠ .error .recursion) :
    (∀ n T, refTbl L B (srcOf L E s) n m = some T → ∃ t, (srcOf L E s m).bind L.parse = some t ∧
      (transpile L E f s m).1 = (L.render m (L.query t) (refLookAll L B (srcOf L E s) n)).1) ∧
    (∀ n e, refErr L B (srcOf L E s) n m = some e → (transpile L E f s m).1 = .error e) := by
  rcases hSt with hSt | hSt
  · exact ⟨fun n T hT => transpile_det L E B rank TreeOk hW hR f s m hm hSt n T hT hnr,
      fun n e he => transpile_det_err L E B rank TreeOk hW f s m hm hSt n e he hnr⟩
  · have hnrl : (loadAll L E f [m] s).1 ≠ .error .recursion := by
      intro h
      apply hnr
      unfold transpile
      generalize loadAll L E f [m] s = r at h
      obtain ⟨rr, s1⟩ := r
      simp only at h
      subst h
      rfl
    obtain ⟨s0, hSt0, hmain0, heq⟩ := load_from_baseOnly L E B rank TreeOk hW hBW f s m hSt hmB hnrl
    have hsrc0 := srcOf_congr L E s s0 hmain0
    rw [transpile_congr L E f s s0 m heq] at hnr ⊢
    rw [← hsrc0]
    exact ⟨fun n T hT => transpile_det L E B rank TreeOk hW hR f s0 m hm hSt0 n T hT hnr,
      fun n e he => transpile_det_err L E B rank TreeOk hW f s0 m hm hSt0 n e he hnr⟩

/-! ## the runner -/

theorem transpile_mainSrc (hN : Names L E) (f : Nat) (s : St L) (m : ModPath) (hm : GoodName m) (hC : Coherent L E s) :
    (transpile L E f s m).2.mainSrc = s.mainSrc := by
  unfold transpile
  obtain ⟨_, hG1, _⟩ := loadAll_inv L E hN f [m] s (by intro p hp; simp at hp; exact hp ▸ hm) hC.1 hC.2.2.1
  generalize loadAll L E f [m] s = r at hG1
  obtain ⟨rr, s1⟩ := r
  cases rr with
  | error e => exact hG1.mainSrc
  | ok u =>
    simp only
    cases alookup s1.eps m with
    | none => exact hG1.mainSrc
    | some ep =>
      simp only
      cases (L.render m (Ep.nf L ep) (alookup s1.db)).1 <;> exact hG1.mainSrc

/-- every result the runner produces is the reference result of its target — whatever was transpiled before it -/
theorem runner_det (hW : World L E B rank TreeOk) (hR : RenderLocal L B TreeOk) (f N : Nat) : ∀ (ts : List ModPath) (s : St L),
    Stable L E B rank TreeOk s →
    (∀ m, m ∈ ts → GoodName m ∧ ∃ T, refTbl L B (srcOf L E s) N m = some T) →
    (∀ mr, mr ∈ (runner L E f s ts).1 → mr.2 ≠ .error .recursion) →
    ∀ mr, mr ∈ (runner L E f s ts).1 → ∃ t, (srcOf L E s mr.1).bind L.parse = some t ∧
      mr.2 = (L.render mr.1 (L.query t) (refLookAll L B (srcOf L E s) N)).1 := by
  intro ts
  induction ts with
  | nil => intro s _ _ _ mr hmr; simp [runner] at hmr
  | cons m ms ih =>
    intro s hSt hts hnr mr hmr
    obtain ⟨hgm, T, hT⟩ := hts m (by simp)
    have hdet := transpile_det L E B rank TreeOk hW hR f s m hgm hSt N T hT
    have hstab := transpile_stable L E B rank TreeOk hW f s m hgm hSt
    have hmain := transpile_mainSrc L E hW.names f s m hgm hSt.1
    simp only [runner] at hnr hmr
    generalize transpile L E f s m = r at hdet hstab hmain hnr hmr
    obtain ⟨rr, s'⟩ := r
    simp only at hdet hstab hmain
    cases rr with
    | error e =>
      simp only [List.mem_singleton] at hnr hmr
      subst hmr
      exact hdet (hnr _ rfl)
    | ok t =>
      simp only [List.mem_cons] at hnr hmr
      rcases hmr with hmr | hmr
      · subst hmr; exact hdet (by intro h; cases h)
      · have hsrc := srcOf_congr L E s s' hmain
        have := ih s' (hstab (by intro h; cases h))
          (fun q hq => by rw [hsrc]; exact hts q (List.mem_cons_of_mem _ hq))
          (fun mr' hmr' => hnr mr' (Or.inr hmr')) mr hmr
        rw [hsrc] at this
        exact this

/-- when no produced result is an error, every target got its result, in list order -/
theorem runner_complete (f : Nat) : ∀ (ts : List ModPath) (s : St L),
    (∀ mr, mr ∈ (runner L E f s ts).1 → ∃ t, mr.2 = .ok t) → (runner L E f s ts).1.map Prod.fst = ts := by
  intro ts
  induction ts with
  | nil => intro s _; rfl
  | cons m ms ih =>
    intro s hok
    simp only [runner] at hok ⊢
    generalize transpile L E f s m = r at hok ⊢
    obtain ⟨rr, s'⟩ := r
    cases rr with
    | error e =>
      simp only [List.mem_singleton] at hok
      obtain ⟨t, ht⟩ := hok _ rfl
      cases ht
    | ok t =>
      simp only [List.map_cons, List.cons.injEq, true_and]
      exact ih s' (fun mr hmr => hok mr (List.mem_cons_of_mem _ hmr))


end Main

/-! ## the descriptor language satisfies the hypotheses -/

section DescInstance

theorem flatMap_congr_mem {A C : Type} (l : List A) (f g : A → List C) (h : ∀ a, a ∈ l → f a = g a) : l.flatMap f = l.flatMap g := by
  induction l with
  | nil => rfl
  | cons a rest ih =>
    simp only [List.flatMap_cons]
    rw [h a (by simp), ih (fun b hb => h b (List.mem_cons_of_mem _ hb))]

/-- a descriptor whose import names are dotted paths, whose method calls go to imported modules and whose library keys are
    keys of the base -/
def descTreeOk (B : Base Str) (d : Desc) : Prop :=
  descImportsOk d ∧
  (∀ c, c ∈ d.classes → ∀ m, m ∈ c.methods → ∀ call, call ∈ m.call.toList → call.1 ∈ d.imports.map (fun mn => mn.1)) ∧
  (∀ k, k ∈ d.stdMethod ++ d.stdVar ++ d.stdAlways → modOf k ∈ B.mods)

instance (B : Base Str) (d : Desc) : Decidable (descTreeOk B d) := by unfold descTreeOk; exact inferInstance

theorem expandImports_congr (look₁ look₂ : Key → Option Str) (imps : List (ModPath × Str)) (acc : List (Str × Str))
    (h : ∀ mn, mn ∈ imps → look₁ (fullJoined mn.1 mn.2) = look₂ (fullJoined mn.1 mn.2)) :
    expandImports look₁ imps acc = expandImports look₂ imps acc := by
  induction imps generalizing acc with
  | nil => rfl
  | cons mn rest ih =>
    obtain ⟨m, n⟩ := mn
    simp only [expandImports]
    have h1 := h (m, n) (by simp)
    simp only at h1
    rw [h1]
    have ih' := fun acc => ih acc (fun mn hmn => h mn (List.mem_cons_of_mem _ hmn))
    split
    · exact ih' acc
    · cases look₂ (fullJoined m n) with
      | none => rfl
      | some v => exact ih' _

theorem desc_local_expand (B : Base Str) (x : ModPath) (t : Desc) (look₁ look₂ : Key → Option Str) (ht : descTreeOk B t)
    (h : ∀ k, (modOf k = x ∨ modOf k ∈ descLang.imports t ∨ modOf k ∈ B.mods) → look₁ k = look₂ k) :
    descLang.expand x (descLang.query t) look₁ = descLang.expand x (descLang.query t) look₂ := by
  simp only [descLang, descExpand]
  have : expandImports (fun k => (alookup ((t.classRows x).map (fun lv => (fullJoined x lv.1, lv.2))) k).orElse (fun _ => look₁ k))
        t.imports (t.classRows x) =
      expandImports (fun k => (alookup ((t.classRows x).map (fun lv => (fullJoined x lv.1, lv.2))) k).orElse (fun _ => look₂ k))
        t.imports (t.classRows x) := by
    apply expandImports_congr
    intro mn hmn
    have hk : look₁ (fullJoined mn.1 mn.2) = look₂ (fullJoined mn.1 mn.2) := by
      apply h
      right; left
      rw [modOf_fullJoined mn.1 mn.2 (ht.1 mn hmn)]
      simp only [descLang, List.mem_map]
      exact ⟨mn, hmn, rfl⟩
    simp only [hk]
  rw [this]

theorem mem_methods {d : Desc} {cm : Cls × Method} (h : cm ∈ d.methods) : cm.1 ∈ d.classes ∧ cm.2 ∈ cm.1.methods := by
  simp only [Desc.methods, List.mem_flatMap, List.mem_map] at h
  obtain ⟨c, hc, m, hm, e⟩ := h
  subst e
  exact ⟨hc, hm⟩

theorem desc_render_local (B : Base Str) : RenderLocal descLang B (descTreeOk B) := by
  intro srcf x t S look₁ look₂ hx hsrc ht hSx hSB hclosed hagree
  have hown : ∀ l, look₁ (fullJoined x l) = look₂ (fullJoined x l) := by
    intro l; apply hagree; rw [modOf_fullJoined x l hx]; exact hSx
  have himp : ∀ d, d ∈ t.imports.map (fun mn => mn.1) → S d := by
    intro d hd
    exact hclosed x hSx t hsrc d (by simpa [descLang] using hd)
  have hcall : ∀ cm, cm ∈ t.methods → ∀ m b g, cm.2.call = some (m, b, g) →
      look₁ (fullJoined m (dot b g)) = look₂ (fullJoined m (dot b g)) := by
    intro cm hcm m b g hc
    obtain ⟨h1, h2⟩ := mem_methods hcm
    have hm := ht.2.1 cm.1 h1 cm.2 h2 (m, b, g) (by simp [hc])
    simp only at hm
    apply hagree
    have hgm : GoodName m := by
      simp only [List.mem_map] at hm
      obtain ⟨mn, hmn, e⟩ := hm
      exact e ▸ ht.1 mn hmn
    rw [modOf_fullJoined m _ hgm]
    exact himp m hm
  have hstd : ∀ k, k ∈ t.stdMethod ++ t.stdVar ++ t.stdAlways → look₁ k = look₂ k := by
    intro k hk
    exact hagree k (hSB _ (ht.2.2 k hk))
  have e1 : descOwnOk x t.methods look₁ = descOwnOk x t.methods look₂ := by
    unfold descOwnOk; apply all_congr_mem; intro cm _; rw [hown]
  have e2 : descCallsOk t.methods look₁ = descCallsOk t.methods look₂ := by
    unfold descCallsOk
    apply all_congr_mem
    intro cm hcm
    cases hc : cm.2.call with
    | none => rfl
    | some call =>
      obtain ⟨m, b, g⟩ := call
      simp only
      rw [hcall cm hcm m b g hc]
  have e3 : descStdOk t t.methods look₁ = descStdOk t t.methods look₂ := by
    unfold descStdOk
    have a : t.stdMethod.all (fun k => (look₁ k).isSome) = t.stdMethod.all (fun k => (look₂ k).isSome) := by
      apply all_congr_mem; intro k hk; rw [hstd k (by simp [hk])]
    have b : t.stdVar.all (fun k => (look₁ k).isSome) = t.stdVar.all (fun k => (look₂ k).isSome) := by
      apply all_congr_mem; intro k hk; rw [hstd k (by simp [hk])]
    have c : t.stdAlways.all (fun k => (look₁ k).isSome) = t.stdAlways.all (fun k => (look₂ k).isSome) := by
      apply all_congr_mem; intro k hk; rw [hstd k (by simp [hk])]
    rw [a, b, c]
  have e5 : descBody x t.methods look₁ = descBody x t.methods look₂ := by
    unfold descBody
    apply flatMap_congr_mem
    intro cm hcm
    rw [hown]
    cases hc : cm.2.call with
    | none => rfl
    | some call =>
      obtain ⟨m, b, g⟩ := call
      simp only
      rw [hcall cm hcm m b g hc]
  have e6 : descIncl x t look₁ = descIncl x t look₂ := by
    unfold descIncl; apply flatMap_congr_mem; intro mn _; rw [hown]
  simp only [descLang, descRender]
  rw [e1, e2, e3, e5, e6]

/-- decidable conditions on a pool of descriptors that make the hypotheses of the C04 theorems true -/
structure PoolOk (B : Base Str) (rank : ModPath → Nat) (pool : List (ModPath × Desc)) (main : ModPath) : Prop where
  tree : ∀ kv, kv ∈ pool → descTreeOk B kv.2
  rank : ∀ kv, kv ∈ pool → ∀ mn, mn ∈ kv.2.imports → rank mn.1 < rank kv.1
  main_disk : alookup pool main = none
  main_name : GoodName main
  main_base : main ∉ B.mods
  no_main : ∀ kv, kv ∈ pool → main ∉ kv.2.imports.map (fun mn => mn.1)
  base_closed : ∀ kv, kv ∈ pool → kv.1 ∈ B.mods → ∀ mn, mn ∈ kv.2.imports → mn.1 ∈ B.mods

theorem desc_parse {src t : Desc} (h : descLang.parse src = some t) : t = src := by
  simp only [descLang] at h
  split at h
  · cases h; rfl
  · cases h

theorem descWorld (B : Base Str) (rank : ModPath → Nat) (pool : List (ModPath × Desc)) (main : ModPath)
    (h : PoolOk B rank pool main) : World descLang (poolEnv pool [] main) B rank (descTreeOk B) where
  names := poolNames pool [] main (fun kv hkv => (h.tree kv hkv).1) (by simp) h.main_name
  local_expand x t look₁ look₂ ht hag := desc_local_expand B x t look₁ look₂ ht hag
  acyclic x src t hx ht := by
    have hmem := alookup_mem hx
    have := desc_parse ht
    subst this
    refine ⟨h.tree _ hmem, ?_⟩
    intro d hd
    simp only [descLang, List.mem_map] at hd
    obtain ⟨mn, hmn, e⟩ := hd
    exact e ▸ h.rank _ hmem mn hmn
  main_disk := h.main_disk
  main_base := h.main_base
  no_import_main x src t hx ht := by
    have := desc_parse ht
    subst this
    simpa [descLang, poolEnv] using h.no_main _ (alookup_mem hx)
  libs_base l hl := by simp [poolEnv] at hl
  base_closed b hb src t hx ht d hd := by
    have := desc_parse ht
    subst this
    simp only [descLang, List.mem_map] at hd
    obtain ⟨mn, hmn, e⟩ := hd
    exact e ▸ h.base_closed _ (alookup_mem hx) hb mn hmn

/-- a fresh process over a pool without pinned base is stable -/
theorem desc_init_stable (rank : ModPath → Nat) (pool : List (ModPath × Desc)) (main : ModPath) (src : Desc)
    (hsrc : descTreeOk ⟨[], fun _ => []⟩ src) (hrank : ∀ mn, mn ∈ src.imports → rank mn.1 < rank main) :
    Stable descLang (poolEnv pool [] main) ⟨[], fun _ => []⟩ rank (descTreeOk ⟨[], fun _ => []⟩) ({ mainSrc := src } : State Desc Desc Desc Str Str) := by
  refine ⟨init_coherent descLang _ src (descSrcOk src hsrc.1), ?_⟩
  refine ⟨by simp, by simp, by simp [alookup], by simp [alookup], by simp, ?_⟩
  intro t ht
  have := desc_parse ht
  subst this
  refine ⟨hsrc, ?_⟩
  intro d hd
  simp only [descLang, List.mem_map] at hd
  obtain ⟨mn, hmn, e⟩ := hd
  exact e ▸ hrank mn hmn

end DescInstance

/-! ## the shipped library closure (Generated/LibClosure.lean) -/

section ReachN
variable {Src Tree NV V Text : Type} (L : Lang Src Tree NV V Text) (E : Env Src)

/-- one round of following the imports of files -/
def reachStep (R : List ModPath) : List ModPath :=
  R ++ R.flatMap (fun y => match (E.disk y).bind L.parse with | some t => L.imports t | none => [])

def reachN : Nat → List ModPath
  | 0 => E.libs
  | n + 1 => reachStep L E (reachN n)

theorem reachN_sound : ∀ n b, b ∈ reachN L E n → LibReach L E b := by
  intro n
  induction n with
  | zero => intro b hb; exact LibReach.lib b hb
  | succ n ih =>
    intro b hb
    simp only [reachN, reachStep, List.mem_append, List.mem_flatMap] at hb
    rcases hb with hb | ⟨y, hy, hb⟩
    · exact ih b hb
    · cases hd : E.disk y with
      | none => simp [hd] at hb
      | some src =>
        cases hp : L.parse src with
        | none => simp [hd, hp] at hb
        | some t =>
          simp only [hd, hp, Option.bind_some] at hb
          exact LibReach.imp y b src t (ih y hy) hd hp hb

end ReachN

section LibClosure
open Tranp.Generated

/-- a library stub as the descriptor language sees it: bare import edges (nothing is looked up through them), one class with a
    method, one variable -/
def libStub (imps : List ModPath) : Desc :=
  { imports := imps.map (fun m => (m, [])), classes := [{ name := ['T'], methods := [{ name := ['g'] }] }], vars := [(['v'], true)] }

def libPool : List (ModPath × Desc) := LibClosure.modules.map (fun mi => (mi.1, libStub mi.2))
def libNames : List ModPath := LibClosure.modules.map (fun mi => mi.1)
def libMain : ModPath := ['_', '_', 'm', 'a', 'i', 'n', '_', '_']
def libEnv : Env Desc := poolEnv libPool LibClosure.libs libMain
def libInit : State Desc Desc Desc Str Str := { mainSrc := {} }
def libFuel : Nat := 40

/-- the tables of the closure after a plain load in a fresh process -/
def libCanon : State Desc Desc Desc Str Str := (loadAll descLang libEnv libFuel libNames libInit).2

def libOps : List (Op Desc) := libNames.flatMap (fun b => [.load b, .transpile b, .unload b])

/-- every history of at most three operations on modules of the closure -/
def libHistories : List (List (Op Desc)) :=
  [[]] ++ libOps.map (fun a => [a]) ++ libOps.flatMap (fun a => libOps.map (fun b => [a, b]))
    ++ libOps.flatMap (fun a => libOps.flatMap (fun b => libOps.map (fun c => [a, b, c])))

/-- after the history, loading the whole closure succeeds, registers nothing else, completes every module, and every module has
    the table it has after a plain load in a fresh process -/
def libLoadOk (h : List (Op Desc)) : Bool :=
  let r := loadAll descLang libEnv libFuel libNames (run descLang libEnv libFuel libInit h)
  decide (r.1 = .ok ()) && r.2.mods.all (fun x => decide (x ∈ libNames)) && libNames.all (fun b => decide (b ∈ r.2.completed))
    && libNames.all (fun b => decide (tableOf r.2.db b = tableOf libCanon.db b))

end LibClosure

end Tranp.Session
