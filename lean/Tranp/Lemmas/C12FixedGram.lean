/-
  C12 fixed point of the meta-grammar, as a kernel-evaluated computation on the REAL token list of data/syntax/gram.lark
  (Generated/RulesData.lean; the gram tokenizer is trusted input here, C13 covers the lexer).
-/
import Tranp.Model.RulesAst
import Tranp.Generated.GramRules
import Tranp.Generated.RulesData

namespace Tranp.C12Fixed
open Tranp Tranp.Engine Tranp.RulesAst Tranp.Generated

/-- `SyntaxParser(gram_rules(), gram_tokenizer()).parse(text, 'entry')` on a prepared token list (the source text only
    feeds the error summary, which a successful parse never builds) -/
def compile (toks : List Tok) : Except Err Ast := parse gramEnv (100 * (toks.length + 10)) [] toks nEntry

set_option maxRecDepth 100000 in
theorem gram_tree : (compile gramLarkTokens).map Ast.simplify = .ok gramRulesAst := by decide +kernel

set_option maxRecDepth 100000 in
theorem gram_literal : fromAst gramRulesAst = .ok gramRules := by decide +kernel

end Tranp.C12Fixed
