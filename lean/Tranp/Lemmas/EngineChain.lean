/-
  Ladder rules `L := (N op)* N` yield flat chains in source order (C11.T4).
-/
import Tranp.Lemmas.Engine

namespace Tranp.Engine
open Tranp

def symPat (s : Str) : Pat := .pattern s .symbol .noComp

/-- the repeated body `(N op)` : `expr_rep [terms [N, op], repeat *]` becomes a `*` group around the sequence -/
def ladderBody (N O : Str) : Pat := .group [.group [symPat N, symPat O] .and .noRepeat] .and .overZero

/-- the pattern of a ladder rule `(N op)* N` as `from_ast` builds it -/
def ladder (N O : Str) : Pat := .group [ladderBody N O, symPat N] .and .noRepeat

/-- `Chain env N O ctx steps children`: `children` is `n_k, o_k, …, n_1, o_1, n_0` — successful matches of `N` and `O`
    laid end to end from the cursor of `ctx` leftwards, `n_0` right at the cursor, `steps` tokens in all. In source order
    (left to right) that is the flat chain `n_k o_k … o_1 n_0`. -/
inductive Chain (env : Env) (N O : Str) (ctx : Ctx) : Nat → List Ast → Prop
  | single (fuel peek : Nat) (out : Out) : matchSymbol env fuel ctx peek N = .ok out → out.ok = true →
      Chain env N O ctx out.steps out.children
  | more (s : Nat) (cs : List Ast) (fuel1 peek1 : Nat) (o : Out) (fuel2 peek2 : Nat) (n : Out) : Chain env N O ctx s cs →
      matchSymbol env fuel1 (ctx.step s) peek1 O = .ok o → o.ok = true →
      matchSymbol env fuel2 (ctx.step (s + o.steps)) peek2 N = .ok n → n.ok = true →
      Chain env N O ctx (s + o.steps + n.steps) (n.children ++ o.children ++ cs)

theorem Ctx.step_zero (c : Ctx) : c.step 0 = c := by
  cases c; simp [Ctx.step]

theorem Ctx.step_step (c : Ctx) (a b : Nat) : (c.step a).step b = c.step (a + b) := by
  cases c
  simp [Ctx.step, List.drop_drop]
  omega

/-- one pass of the loop body `(N op)` matched with `allow_repeat=False`: first `op` at the cursor, then `N` left of it -/
theorem chain_body (env : Env) (N O : Str) (fuel : Nat) (ctx : Ctx) (pk : Nat) (b : Out)
    (h : matchEntry env fuel ctx pk (ladderBody N O) false = .ok b) (hb : b.ok = true) :
    ∃ f1 p1 o f2 p2 n, matchSymbol env f1 ctx p1 O = .ok o ∧ o.ok = true ∧
      matchSymbol env f2 (ctx.step o.steps) p2 N = .ok n ∧ n.ok = true ∧
      b.steps = o.steps + n.steps ∧ b.children = n.children ++ o.children := by
  match fuel with
  | 0 => simp [matchEntry] at h
  | 1 => simp [matchEntry, ladderBody, matchAnd] at h
  | 2 => simp [matchEntry, ladderBody, matchAnd] at h
  | 3 => simp [matchEntry, ladderBody, matchAnd] at h
  | 4 => simp [matchEntry, ladderBody, matchAnd, symPat] at h
  | 5 => simp [matchEntry, ladderBody, matchAnd, symPat, matchSymbol] at h
  | f + 6 =>
    simp only [matchEntry, ladderBody, symPat, List.reverse_cons, List.reverse_nil, List.nil_append, List.cons_append,
      Bool.false_eq_true, and_false, ne_eq, not_true_eq_false, false_and, ↓reduceIte, reduceCtorEq, matchAnd, Ctx.step_zero] at h
    split at h
    · cases h
    · rename_i inner hinner
      split at h
      · rename_i hik
        simp only [Except.ok.injEq] at h
        subst h
        -- the inner sequence `N op`, visited in reverse
        split at hinner
        · cases hinner
        · rename_i o ho
          split at hinner
          · rename_i hok
            split at hinner
            · cases hinner
            · rename_i n hn
              split at hinner
              · rename_i hnk
                simp only [Except.ok.injEq] at hinner
                subst hinner
                have hn' : matchSymbol env f (ctx.step o.steps) (max (ctx.step (0 + o.steps)).cursor o.peek) N = .ok n := by
                  simpa using hn
                exact ⟨_, _, o, _, _, n, ho, hok, hn', hnk, by simp, by simp⟩
              · simp at hinner; subst hinner; simp [Out.ng] at hik
          · simp at hinner; subst hinner; simp [Out.ng] at hik
      · simp at h; subst h; simp [Out.ng] at hb

theorem chain_finish {env : Env} {N O : Str} {ctx : Ctx} {s0 : Nat} {c0 : List Ast} {found steps pk : Nat}
    {children : List Ast} {trace : List (Tok × Bool)}
    (hf : found = 0 → steps = 0 ∧ children = []) (hch : Chain env N O ctx (s0 + steps) (children ++ c0)) :
    Chain env N O ctx (s0 + (repeatFinish .overZero found steps children pk trace).steps)
      ((repeatFinish .overZero found steps children pk trace).children ++ c0) := by
  unfold repeatFinish
  split
  · rename_i hf0
    have := hf (by simpa using hf0)
    simp only [this.1, this.2, Nat.add_zero, List.nil_append] at hch ⊢
    exact hch
  · exact hch

/-- the `while` of `_match_repeat` on the body `(N op)` extends the chain by one `op`, `N` pair per iteration -/
theorem chain_loop (env : Env) (N O : Str) (ctx : Ctx) (s0 : Nat) (c0 : List Ast) (fuel : Nat) :
    ∀ pk found steps children trace outR,
      matchRepeat env fuel (ctx.step s0) pk [.group [symPat N, symPat O] .and .noRepeat] .and .overZero found steps children trace = .ok outR →
      (found = 0 → steps = 0 ∧ children = []) →
      Chain env N O ctx (s0 + steps) (children ++ c0) →
      Chain env N O ctx (s0 + outR.steps) (outR.children ++ c0) := by
  induction fuel with
  | zero => intro pk found steps children trace outR h; simp [matchRepeat] at h
  | succ f ih =>
    intro pk found steps children trace outR h hf hch
    simp only [matchRepeat] at h
    split at h
    · simp only [Except.ok.injEq] at h; subst h
      exact chain_finish hf hch
    · split at h
      · cases h
      · rename_i b hb
        split at h
        · rename_i hbk
          simp only [reduceCtorEq, or_self, ↓reduceIte] at h
          obtain ⟨f1, p1, o, f2, p2, n, ho, hok1, hn, hnk, hs, hc⟩ := chain_body env N O f _ _ b hb hbk
          rw [Ctx.step_step] at ho hn
          rw [Ctx.step_step, ← Nat.add_assoc] at hn
          have hm := Chain.more (s0 + steps) (children ++ c0) f1 p1 o f2 p2 n hch ho hok1 hn hnk
          refine ih _ _ _ _ _ _ h (by omega) ?_
          have hs' : s0 + (steps + b.steps) = s0 + steps + o.steps + n.steps := by omega
          have hc' : (b.children ++ children) ++ c0 = n.children ++ o.children ++ (children ++ c0) := by
            simp [hc, List.append_assoc]
          rw [hs', hc']
          exact hm
        · simp only [Except.ok.injEq] at h; subst h
          exact chain_finish hf hch

/-- C11.T4: a match of the ladder pattern `(N op)* N` is a flat chain. -/
theorem chain_ladder (env : Env) (N O : Str) (fuel : Nat) (ctx : Ctx) (pk : Nat) (allow : Bool) (out : Out)
    (h : matchEntry env fuel ctx pk (ladder N O) allow = .ok out) (hok : out.ok = true) :
    Chain env N O ctx out.steps out.children := by
  match fuel with
  | 0 => simp [matchEntry] at h
  | 1 => simp [matchEntry, ladder, matchAnd] at h
  | 2 => simp [matchEntry, ladder, matchAnd, symPat] at h
  | 3 => simp [matchEntry, ladder, matchAnd, symPat, matchSymbol] at h
  | f + 4 =>
    simp only [matchEntry, ladder, ladderBody, symPat, List.reverse_cons, List.reverse_nil, List.nil_append, List.cons_append,
      ne_eq, not_true_eq_false, false_and, ↓reduceIte, reduceCtorEq, matchAnd, Ctx.step_zero] at h
    split at h
    · cases h
    · rename_i n0 hn0
      split at h
      · rename_i hn0k
        have hbase : Chain env N O ctx (0 + n0.steps) ([] ++ (n0.children ++ [])) := by
          have := Chain.single (env := env) (N := N) (O := O) _ _ n0 hn0 hn0k
          simpa using this
        -- the repeat group, entered through `_match_entry` with allow_repeat=True
        simp only [not_false_eq_true, and_self, ↓reduceIte] at h
        split at h
        · cases h
        · rename_i outR hR
          split at h
          · cases f with
            | zero => simp [matchRepeat] at hR
            | succ f' =>
              simp only [matchAnd, Except.ok.injEq] at h
              subst h
              have := chain_loop env N O ctx (0 + n0.steps) (n0.children ++ []) _ _ _ _ _ _ _ hR (fun _ => ⟨rfl, rfl⟩)
                (by simpa using hbase)
              simpa using this
          · simp at h; subst h; simp [Out.ng] at hok
      · simp at h; subst h; simp [Out.ng] at hok

end Tranp.Engine
