/-
  Lemmas for property C18, part 9: `DecoratorHelper._parse` answers on EVERY text (no exception, no fuel exhaustion): the
  two `str.index` calls that cut a labelled argument always find what they look for, because the first piece of
  `break_separator(arg, '=')` is a stripped slice of `arg` that ends in front of a `=`.
-/
import Tranp.Lemmas.BlockView
import Tranp.Lemmas.BlockTotal

namespace Tranp.Block
open Tranp Tranp.Generated.BlockPairs

/-- `break_separator` with a non-empty delimiter: the loop answers; it only ever appends to `blocks`; and when it started
    with no block and ends with at least two, the first is the stripped text between `begin` and a delimiter position. -/
theorem sepLoop_inv (text : Str) (d0 : Char) (ds : Str) : ∀ (fuel : Nat) (s : Str) (index begin : Nat) (blocks : List Str),
    s.length < fuel → s = text.drop index →
    ∃ res, sepLoop text (d0 :: ds) fuel s index begin blocks = .ok res ∧ (∃ t, res = blocks ++ t) ∧
      (∀ first second rest, blocks = [] → res = first :: second :: rest →
        ∃ i, index ≤ i ∧ text[i]? = some d0 ∧ first = strip (slice text begin i)) := by
  intro fuel
  induction fuel with
  | zero => intro s _ _ _ h; omega
  | succ n ih =>
    intro s index begin blocks hlen hs
    cases s with
    | nil =>
      simp only [sepLoop]
      refine ⟨_, rfl, ?_, ?_⟩
      · split
        · exact ⟨_, rfl⟩
        · exact ⟨[], by simp⟩
      · intro first second rest hb hres
        subst hb
        split at hres <;> simp at hres
    | cons c cs =>
      simp only [sepLoop]
      have hhead : text[index]? = some c := by
        have := congrArg List.head? hs
        simpa [List.head?_drop] using this.symm
      have htail : cs = text.drop (index + 1) := by
        have := congrArg List.tail hs
        simpa [List.tail_drop] using this
      split
      · have hpos := skipLen_pos allPairs [] c cs
        have hle := skipLen_le allPairs (c :: cs) []
        obtain ⟨res, hres, ht, hf⟩ := ih ((c :: cs).drop (skipLen allPairs [] (c :: cs))) (index + skipLen allPairs [] (c :: cs)) begin blocks
          (by simp only [List.length_drop, List.length_cons] at hlen ⊢; omega)
          (by rw [hs, List.drop_drop])
        refine ⟨res, hres, ht, ?_⟩
        intro first second rest hb hr
        obtain ⟨i, hi, h1, h2⟩ := hf first second rest hb hr
        exact ⟨i, by omega, h1, h2⟩
      · split
        · rename_i hcut
          obtain ⟨res, hres, ⟨t, ht⟩, _⟩ := ih cs (index + 1) (index + (d0 :: ds).length) (blocks ++ [strip (slice text begin index)])
            (by simp only [List.length_cons] at hlen; omega) htail
          refine ⟨res, hres, ⟨[strip (slice text begin index)] ++ t, by rw [ht]; simp⟩, ?_⟩
          intro first second rest hb hr
          subst hb
          rw [ht] at hr
          simp only [List.nil_append, List.cons_append, List.cons.injEq] at hr
          exact ⟨index, Nat.le_refl _, by rw [hhead, hcut.1], hr.1.symm⟩
        · obtain ⟨res, hres, ht, hf⟩ := ih cs (index + 1) begin blocks
            (by simp only [List.length_cons] at hlen; omega) htail
          refine ⟨res, hres, ht, ?_⟩
          intro first second rest hb hr
          obtain ⟨i, hi, h1, h2⟩ := hf first second rest hb hr
          exact ⟨i, by omega, h1, h2⟩

/-- `break_separator(text, d)` never raises for a non-empty delimiter -/
theorem breakSeparator_ok (text : Str) (d0 : Char) (ds : Str) : ∃ ps, breakSeparator text (d0 :: ds) = .ok ps := by
  obtain ⟨res, hres, _, _⟩ := sepLoop_inv text d0 ds (text.length + 1) text 0 0 [] (Nat.lt_succ_self _) (by simp)
  exact ⟨res, hres⟩

theorem lstripBy_suffix (p : Char → Bool) : ∀ s : Str, ∃ l, s = l ++ Str.lstripBy p s := by
  intro s
  induction s with
  | nil => exact ⟨[], rfl⟩
  | cons c cs ih =>
    by_cases hc : p c = true
    · obtain ⟨l, hl⟩ := ih
      exact ⟨c :: l, by simp only [Str.lstripBy, hc, if_true, List.cons_append]; rw [← hl]⟩
    · exact ⟨[], by simp [Str.lstripBy, hc]⟩

theorem rstripBy_prefix (p : Char → Bool) (s : Str) : ∃ r, s = Str.rstripBy p s ++ r := by
  obtain ⟨l, hl⟩ := lstripBy_suffix p s.reverse
  refine ⟨l.reverse, ?_⟩
  have := congrArg List.reverse hl
  simpa [Str.rstripBy] using this

theorem strip_infix (s : Str) : ∃ l r, s = l ++ (strip s ++ r) := by
  obtain ⟨l, hl⟩ := lstripBy_suffix (fun c => c = ' ') s
  obtain ⟨r, hr⟩ := rstripBy_prefix (fun c => c = ' ') (Str.lstripBy (fun c => c = ' ') s)
  refine ⟨l, r, ?_⟩
  simp only [strip, Str.stripBy]
  rw [← hr, ← hl]

theorem find_go_le (p post : Str) : ∀ (pre : Str) (i : Nat),
    ∃ k, Str.find.go p (pre ++ (p ++ post)) i = some k ∧ k ≤ i + pre.length := by
  intro pre
  induction pre with
  | nil =>
    intro i
    refine ⟨i, ?_, by omega⟩
    simp only [List.nil_append]
    cases h : p ++ post with
    | nil =>
      have : p = [] := (List.append_eq_nil_iff.mp h).1
      simp [Str.find.go, this]
    | cons c cs =>
      have := startsWith_append p post
      rw [h] at this
      simp [Str.find.go, this]
  | cons x pre ih =>
    intro i
    simp only [List.cons_append, Str.find.go]
    split
    · exact ⟨i, rfl, by omega⟩
    · obtain ⟨k, hk, hle⟩ := ih (i + 1)
      exact ⟨k, hk, by simp only [List.length_cons]; omega⟩

theorem find_le (pre p post : Str) : ∃ k, Str.find (pre ++ (p ++ post)) p = some k ∧ k ≤ pre.length := by
  obtain ⟨k, hk, hle⟩ := find_go_le p post pre 0
  exact ⟨k, by simpa [Str.find] using hk, by omega⟩

theorem find_mem (c : Char) (l : Str) (h : c ∈ l) : ∃ k, Str.find l [c] = some k := by
  obtain ⟨a, b, hl, ha⟩ := exists_first c l h
  exact ⟨a.length, by rw [hl]; exact find_char c a b ha⟩

/-- one decorator argument: `_parse`'s loop body never raises -/
theorem decoKV_total (index : Nat) (arg : Str) : ∃ kv, decoKV index arg = .ok kv := by
  obtain ⟨res, hres, _, hfirst⟩ := sepLoop_inv arg '=' [] (arg.length + 1) arg 0 0 [] (Nat.lt_succ_self _) (by simp)
  have hb : breakSeparator arg ['='] = .ok res := hres
  unfold decoKV
  rw [hb]
  simp only [Except.bind]
  match res, hfirst with
  | [], _ => exact ⟨_, rfl⟩
  | [_], _ => exact ⟨_, rfl⟩
  | first :: second :: rest, hfirst =>
    obtain ⟨i, _, hi, hf⟩ := hfirst first second rest rfl rfl
    obtain ⟨l, r, hlr⟩ := strip_infix (slice arg 0 i)
    rw [← hf] at hlr
    have hdrop := drop_eq_cons_of_get arg i '=' hi
    have harg : arg = l ++ (first ++ (r ++ '=' :: arg.drop (i + 1))) := by
      have h0 : arg = arg.take i ++ arg.drop i := (List.take_append_drop i arg).symm
      have h1 : slice arg 0 i = arg.take i := by simp [slice]
      rw [h1] at hlr
      rw [hlr, hdrop] at h0
      simpa using h0
    obtain ⟨at0, hat, hle⟩ := find_le l first (r ++ '=' :: arg.drop (i + 1))
    rw [← harg] at hat
    have h1 : indexFrom arg first 0 = .ok at0 := by simp [indexFrom, hat]
    have hmem : '=' ∈ arg.drop (at0 + first.length) := by
      rw [harg]
      have hsplit : l ++ (first ++ (r ++ '=' :: arg.drop (i + 1))) = (l ++ first) ++ (r ++ '=' :: arg.drop (i + 1)) := by simp
      rw [hsplit, List.drop_append_of_le_length (by simp only [List.length_append]; omega)]
      simp
    obtain ⟨k, hk⟩ := find_mem '=' _ hmem
    have h2 : indexFrom arg ['='] (at0 + first.length) = .ok (k + (at0 + first.length)) := by simp only [indexFrom, hk]
    simp only [h1, h2]
    exact ⟨_, rfl⟩

theorem decoArgsFrom_total : ∀ (pieces : List Str) (i : Nat) (m : List (Str × Str)), ∃ r, decoArgsFrom i pieces m = .ok r := by
  intro pieces
  induction pieces with
  | nil => intro i m; exact ⟨m, rfl⟩
  | cons a as ih =>
    intro i m
    obtain ⟨kv, hkv⟩ := decoKV_total i a
    obtain ⟨r, hr⟩ := ih (i + 1) (dictSet m kv.1 kv.2)
    exact ⟨r, by simp only [decoArgsFrom, hkv, Except.bind, hr]⟩

/-- `DecoratorHelper._parse(decorator)` returns (path, args, join_args) for EVERY text -/
theorem decoParse_total (d : Str) : ∃ r, decoParse d = .ok r := by
  unfold decoParse
  cases Str.find d ['('] with
  | none => exact ⟨_, rfl⟩
  | some i =>
    simp only []
    obtain ⟨ps, hps⟩ := breakSeparator_ok (slice d (i + 1) (d.length - 1)) ',' []
    obtain ⟨a, ha⟩ := decoArgsFrom_total ps 0 []
    refine ⟨(slice d 0 i, a, slice d (i + 1) (d.length - 1)), ?_⟩
    simp only [hps, Except.bind, decoArgs, ha]

end Tranp.Block
