/-
  Property C04: the four `unload` methods as read from the sources (Generated/UnloadShape.lean, translate/gen_unload_shape.py)
  run as programs over the model state, and the proof that this IS the hand-written `unloadOne` / `unloadF` of Model/Session.lean.
  A statement a method may not contain (another object's table, an unknown table pair) makes the program stuck (`none`).
-/
import Tranp.Model.Session
import Tranp.Generated.UnloadShape

namespace Tranp.Session
open Tranp.Generated.UnloadShape

section
variable {Src Tree NV V Text : Type} (L : Lang Src Tree NV V Text) (E : Env Src)

/-- statements one after the other; stuck as soon as one is -/
def runList {σ : Type} (run : σ → Stmt → Option σ) : List Stmt → σ → Option σ
  | [], s => some s
  | st :: rest, s => (run s st).bind (runList run rest)

/-- `Entrypoints.unload`: only its own table `__entrypoints` (model: `eps`) -/
def epStmt (m : ModPath) (s : St L) : Stmt → Option (St L)
  | .delKeyIfPresent .entrypoints => some { s with eps := aerase s.eps m }
  | _ => none

/-- `SymbolDB.unload`: `__completed` (model: `completed`), `__items` / `__paths` (model: `db`, the path tag of a key is `modOf`) -/
def dbStmt (m : ModPath) (s : St L) : Stmt → Option (St L)
  | .removeIfPresent .completed => some { s with completed := s.completed.filter (fun x => x ≠ m) }
  | .delKeysOfModule ts =>
    if ts = [.paths, .items] ∨ ts = [.items, .paths] then some { s with db := s.db.filter (fun kv => modOf kv.1 ≠ m) } else none
  | _ => none

/-- `ModuleLoader.unload`: calls of its two collaborators, nothing else -/
def loaderStmt (m : ModPath) (s : St L) : Stmt → Option (St L)
  | .callUnload .entrypoints => runList (epStmt L m) entrypointsUnload s
  | .callUnload .db => runList (dbStmt L m) symbolDbUnload s
  | _ => none

/-- `Modules.unload` inside its guard: the loader, its own table `__modules` (model: `mods`; the `Module` object goes with its
    memoised identity: `ident`), and the cascade over `__dependent_paths` read in the state reached so far; `rec` = the
    recursive call `self.unload(d)` -/
def modulesStmt (rec : St L → ModPath → St L) (m : ModPath) (s : St L) : Stmt → Option (St L)
  | .callUnload .loader => runList (loaderStmt L m) loaderUnload s
  | .delKey .modules => some { s with mods := s.mods.filter (fun x => x ≠ m), ident := s.ident.filter (fun x => x ≠ m) }
  | .cascade => some ((dependents L E s m).foldl rec s)
  | _ => none

end
end Tranp.Session
