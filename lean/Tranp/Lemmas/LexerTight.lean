/-
  A comment written directly after a token, without a blank (C13): `x = 1# c`. The prefix congruence of Lemmas/Lexer.lean is
  stated for continuations that start with white space (`Compat`); here it is re-proved from its actual requirement — no
  look-ahead pattern newly matches (`LookOK`) — and that requirement is established for a continuation starting with a
  character that occurs in no look-ahead pattern after the pattern's first character (`tailFree`, decided for the
  generated Python definition; false for the grammar definition, whose comment opener `//` continues a `/`).
-/
import Tranp.Lemmas.Lexer

namespace Tranp.Lexer

/-- no look-ahead pattern (comment / quote opener, combined symbol) contains `ch` after its first character -/
def tailFree (d : TokenDef) (ch : Char) : Bool := (lookPats d).all (fun p => !(p.drop 1).contains ch)

/-- after a non-empty `y`, a continuation starting with a `tailFree` character lets no pattern newly match at the start of `y` -/
theorem lookOK_head {d : TokenDef} (y r rest : Str) (ch : Char) (hy : y ≠ []) (hfree : tailFree d ch = true) :
    LookOK d (y ++ r) (y ++ ch :: rest) := by
  intro p hp hm
  by_cases hl : p.length ≤ y.length
  · rw [startsWith_left y _ p hl] at hm ⊢; exact hm
  · exfalso
    have hlen : y.length < p.length := by omega
    rw [startsWith_iff_prefix] at hm
    obtain ⟨t, ht⟩ := hm
    have h1 : (y ++ ch :: rest)[y.length]? = some ch := by
      rw [List.getElem?_append_right (Nat.le_refl _)]; simp
    rw [ht, List.getElem?_append_left hlen] at h1
    have hpos : 0 < y.length := by
      cases y with
      | nil => exact absurd rfl hy
      | cons c cs => simp
    have hmem : ch ∈ p.drop 1 := by
      have h2 : (p.drop 1)[y.length - 1]? = some ch := by
        rw [List.getElem?_drop]
        have : 1 + (y.length - 1) = y.length := by omega
        rw [this]; exact h1
      exact List.mem_of_getElem? h2
    simp only [tailFree, List.all_eq_true, Bool.not_eq_true'] at hfree
    have := hfree p hp
    simp only [List.contains_eq_mem, decide_eq_false_iff_not] at this
    exact this hmem

/-- **Prefix congruence from `LookOK`.** `lexS_prefix` with the compatibility of the two continuations replaced by what its
    proof uses: after any non-empty text, no look-ahead pattern newly matches. -/
theorem lexS_prefix_look {d : TokenDef} (hw : wf d = true) (hwl : wfLayout d = true) {r r' : Str}
    (hlook : ∀ y : Str, y ≠ [] → LookOK d (y ++ r) (y ++ r'))
    {a : Str} {ta : List (Nat × Str)} (hp : TokPrefix d r r' a ta) :
    lexS d (a ++ r) = (lexS d r).map (fun rest => ta ++ rest) ∧ lexS d (a ++ r') = (lexS d r').map (fun rest => ta ++ rest) := by
  induction hp with
  | nil =>
    constructor <;> (simp only [List.nil_append]; cases lexS d _ <;> rfl)
  | @cons x a dom t ta hx hd hpar hq hnear _ ih =>
    have hl : LookOK d (x ++ (a ++ r)) (x ++ (a ++ r')) := by
      have := hlook (x ++ a) (by simp [hx])
      simpa [List.append_assoc] using this
    have hh : HeadOK d dom t (a ++ r) (a ++ r') := by
      by_cases ha : a = []
      · subst ha; simpa using hnear rfl
      · exact HeadOK_of_ne hwl ha hpar
    obtain ⟨hd', hv⟩ := step_stable hw hwl x (a ++ r) (a ++ r') hx hd hpar hl hh hq
    have s1 : step d (x ++ (a ++ r)) = .ok (x.length, t) := step_of hd hpar
    cases hpar' : parser d dom (x ++ (a ++ r')) 0 with
    | error e => rw [hpar'] at hv; simp [viewR, Except.map] at hv
    | ok res =>
      obtain ⟨e', t'⟩ := res
      rw [hpar'] at hv
      simp only [viewR, Except.map, Except.ok.injEq, Prod.mk.injEq, Nat.sub_zero] at hv
      obtain ⟨he, hty, hstr⟩ := hv
      subst he
      have s2 : step d (x ++ (a ++ r')) = .ok (x.length, t') := step_of hd' hpar'
      have hsim : simplify t' = simplify t := by simp [simplify, hty, hstr]
      have ne1 : x ++ (a ++ r) ≠ [] := by simp [hx]
      have ne2 : x ++ (a ++ r') ≠ [] := by simp [hx]
      have u1 := lexS_unfold hw _ ne1
      have u2 := lexS_unfold hw _ ne2
      rw [s1] at u1
      rw [s2] at u2
      simp only [List.drop_left] at u1 u2
      rw [List.append_assoc, List.append_assoc, u1, u2, ih.1, ih.2, hsim]
      constructor
      · cases lexS d r <;> simp [Except.map]
      · cases lexS d r' <;> simp [Except.map]

/-- **Comment directly after a token.** After the whole tokens `a`, at a line end, inserting a comment WITHOUT a blank in
    front of it leaves `Tokenizer.parse` unchanged up to source maps, provided the first character of the opener occurs in
    no look-ahead pattern after that pattern's first character (`TokPrefix` excludes a minus sign or a comment as the last
    token: the former would become unary, the latter would swallow the text). -/
theorem layout_comment_tight {d : TokenDef} (hr : layoutReady d) (a body r : Str) (p : Str × Str) {ta L : List (Nat × Str)}
    (hfree : ∀ ch, p.1.head? = some ch → tailFree d ch = true)
    (hf : firstOpen d.comment (p.1 ++ body ++ r) 0 = .ok p) (hb : '\n' ∉ body) (hnl : nlOrEnd r = true)
    (hpre : TokPrefix d r (p.1 ++ body ++ r) a ta) (hL : lexS d r = .ok L) :
    (tokenize d (a ++ r)).map (List.map simplify) =
      (tokenize d (a ++ (p.1 ++ body ++ r))).map (List.map simplify) := by
  obtain ⟨hw, hwl, ho, hd, hbl⟩ := hr
  obtain ⟨hmem, _⟩ := firstOpen_ok hf
  have hlen := wf_comment hw hmem
  obtain ⟨c, cs, hp1⟩ : ∃ c cs, p.1 = c :: cs := by
    cases h : p.1 with
    | nil => rw [h] at hlen; simp at hlen
    | cons c cs => exact ⟨c, cs, rfl⟩
  have hfc : tailFree d c = true := hfree c (by rw [hp1]; rfl)
  have hlook : ∀ y : Str, y ≠ [] → LookOK d (y ++ r) (y ++ (p.1 ++ body ++ r)) := by
    intro y hy
    have := lookOK_head (d := d) y r (cs ++ body ++ r) c hy hfc
    simpa [hp1, List.append_assoc] using this
  obtain ⟨e1, e2⟩ := lexS_prefix_look hw hwl hlook hpre
  rw [hL] at e1
  rw [lexS_comment hw hwl ho p body r hf hb hnl, hL] at e2
  simp only [Except.map] at e1 e2
  apply tokenize_of_rest ⟨hw, hwl, ho, hd, hbl⟩ e1 e2
  left
  rw [significant_comment_cons]

/-- decidable side check for a comment `opener ++ body` inserted at `pos` (a line end) directly after a token -/
def commentTightOK (d : TokenDef) (src : Str) (pos : Nat) (body : Str) (p : Str × Str) : Bool :=
  let a := src.take pos
  let r := src.drop pos
  (match p.1.head? with | some ch => tailFree d ch | none => false) &&
  firstOpenIs d (p.1 ++ body ++ r) p && !body.contains '\n' && nlOrEnd r &&
  (tokPrefixCheck d r (p.1 ++ body ++ r) a.length a).isSome &&
  (match lexS d r with | .ok _ => true | .error _ => false)

/-- **Comment directly after a token, by position.** -/
theorem layout_comment_tight_at {d : TokenDef} (hr : layoutReady d) (src : Str) (pos : Nat) (body : Str) (p : Str × Str)
    (h : commentTightOK d src pos body p = true) :
    (tokenize d src).map (List.map simplify) = (tokenize d (insertAt src pos (p.1 ++ body))).map (List.map simplify) := by
  simp only [commentTightOK, Bool.and_eq_true, Bool.not_eq_true'] at h
  obtain ⟨⟨⟨⟨⟨h1, h2⟩, h3⟩, h4⟩, h5⟩, h6⟩ := h
  obtain ⟨ta, hta⟩ := Option.isSome_iff_exists.mp h5
  have hpre := tokPrefixCheck_sound _ _ _ hta
  cases hL : lexS d (src.drop pos) with
  | error e => rw [hL] at h6; cases h6
  | ok L =>
    have hb : '\n' ∉ body := by simpa using h3
    have hfree : ∀ ch, p.1.head? = some ch → tailFree d ch = true := by
      intro ch hch; rw [hch] at h1; exact h1
    have := layout_comment_tight hr (src.take pos) body (src.drop pos) p hfree (firstOpenIs_sound h2) hb h4 hpre hL
    rw [List.take_append_drop] at this
    unfold insertAt
    simpa [List.append_assoc] using this

end Tranp.Lexer
