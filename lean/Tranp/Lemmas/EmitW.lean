/-
  Completeness of the wrapper parser (Tranp.Model.EmitW): a printed normal-form tree is parsed back to itself.
  Only this direction is needed by `C01.group_full`.
-/
import Tranp.Model.EmitW
import Tranp.Lemmas.Prec

namespace Tranp.Emit
open Tranp Tranp.Prec

/-! ## "for every sufficiently large fuel" -/

/-- eventually (in the fuel) -/
def Ev (P : Nat → Prop) : Prop := ∃ f0, ∀ f, f0 ≤ f → P f

theorem Ev.of_all {P : Nat → Prop} (h : ∀ f, P (f + 1)) : Ev P :=
  ⟨1, fun f hf => by cases f with
    | zero => omega
    | succ f => exact h f⟩

theorem Ev.step {P Q : Nat → Prop} (h : ∀ f, P f → Q (f + 1)) : Ev P → Ev Q := by
  rintro ⟨f0, hp⟩
  refine ⟨f0 + 1, fun f hf => ?_⟩
  cases f with
  | zero => omega
  | succ f => exact h f (hp f (by omega))

theorem Ev.step2 {P Q R : Nat → Prop} (h : ∀ f, P f → Q f → R (f + 1)) : Ev P → Ev Q → Ev R := by
  rintro ⟨f0, hp⟩ ⟨f1, hq⟩
  refine ⟨max f0 f1 + 1, fun f hf => ?_⟩
  cases f with
  | zero => omega
  | succ f => exact h f (hp f (by omega)) (hq f (by omega))

theorem Ev.step3 {P Q R S : Nat → Prop} (h : ∀ f, P f → Q f → R f → S (f + 1)) : Ev P → Ev Q → Ev R → Ev S := by
  rintro ⟨f0, hp⟩ ⟨f1, hq⟩ ⟨f2, hr⟩
  refine ⟨max f0 (max f1 f2) + 1, fun f hf => ?_⟩
  cases f with
  | zero => omega
  | succ f => exact h f (hp f (by omega)) (hq f (by omega)) (hr f (by omega))

/-! ## what may follow -/

/-- no postfix suffix starts here -/
def noSuf : List WTok → Bool
  | .dot :: _ => false
  | .lp :: _ => false
  | _ => true

/-- an operator-level run ends here -/
def stopO : List WTok → Bool
  | [] => true
  | .quest :: _ => true
  | .colon :: _ => true
  | .comma :: _ => true
  | .rp :: _ => true
  | _ => false

/-- a conditional-level expression ends here -/
def stopX : List WTok → Bool
  | [] => true
  | .colon :: _ => true
  | .comma :: _ => true
  | .rp :: _ => true
  | _ => false

theorem stopO_of_stopX {r : List WTok} (h : stopX r = true) : stopO r = true := by
  cases r with
  | nil => rfl
  | cons t ts => cases t <;> simp_all [stopX, stopO]

theorem noSuf_of_stopO {r : List WTok} (h : stopO r = true) : noSuf r = true := by
  cases r with
  | nil => rfl
  | cons t ts => cases t <;> simp_all [noSuf, stopO]

/-! ## one-step equations of the parser -/

theorem parseSufs_stop (f : Nat) (r : List WTok) (h : noSuf r = true) : parseSufs (f + 1) r = some (.nil, r) := by
  cases r with
  | nil => rfl
  | cons t ts => cases t <;> first | rfl | simp [noSuf] at h

theorem parseSufs_call (f : Nat) (t : WTok) (ts : List WTok) (ht : t ≠ .rp) :
    parseSufs (f + 1) (.lp :: t :: ts) =
      (match parseArgs f (t :: ts) with
       | some (args, .rp :: r0) => (parseSufs f r0).map fun (s, r') => (.call args s, r')
       | _ => none) := by
  cases t <;> first | rfl | exact absurd rfl ht

theorem scan_stop (f : Nat) (r : List WTok) (k : Nat) (h : stopO r = true) : scan (f + 1) r k = some ([], [], r) := by
  cases r with
  | nil => rfl
  | cons t ts => cases t <;> first | rfl | simp [stopO] at h

theorem parseX_plain (f : Nat) (ts r : List WTok) (o : O) (h : parseO f ts = some (o, r)) (hs : stopX r = true) :
    parseX (f + 1) ts = some (.plain o, r) := by
  simp only [parseX, h]
  cases r with
  | nil => rfl
  | cons t rs => cases t <;> first | rfl | simp [stopX] at hs

theorem parseArgs_last (f : Nat) (ts r : List WTok) (x : X) (h : parseX f ts = some (x, .rp :: r)) :
    parseArgs (f + 1) ts = some (.cons x .nil, .rp :: r) := by
  simp only [parseArgs, h]

theorem parseArgs_more (f : Nat) (ts r r' : List WTok) (x : X) (as : Args) (h : parseX f ts = some (x, .comma :: r))
    (h2 : parseArgs f r = some (as, r')) : parseArgs (f + 1) ts = some (.cons x as, r') := by
  simp only [parseArgs, h, h2, Option.map]

/-! ## first token of a printed expression -/

def startsOk : List WTok → Bool
  | .atom _ :: _ => true
  | .name _ :: _ => true
  | .lp :: _ => true
  | .op _ :: _ => true
  | _ => false

theorem startsOk_append {a : List WTok} (b : List WTok) (h : startsOk a = true) : startsOk (a ++ b) = true := by
  cases a with
  | nil => simp [startsOk] at h
  | cons t ts => cases t <;> simp_all [startsOk]

theorem startsOk_printO : ∀ o : O, startsOk (printO o) = true
  | .leaf b s => by cases b <;> simp [printO, printB, startsOk]
  | .bin o l r => by simp only [printO]; exact startsOk_append _ (startsOk_printO l)
  | .pre o e => by simp [printO, startsOk]

theorem startsOk_printX (x : X) : startsOk (printX x) = true := by
  cases x with
  | plain o => simpa [printX] using startsOk_printO o
  | tern c a b => simp only [printX]; exact startsOk_append _ (startsOk_printO c)

theorem ne_rp_of_startsOk {t : WTok} {ts : List WTok} (h : startsOk (t :: ts) = true) : t ≠ .rp := by
  cases t <;> simp_all [startsOk]

/-! ## skeleton facts -/

theorem head_skel (o : O) (k : Nat) : Prec.head (o.skel k) = o.head := by cases o <;> rfl

theorem nf_skel : ∀ (o : O) (k : Nat), nfO o = true → nf cppOps (o.skel k) = true
  | .leaf _ _, _, _ => rfl
  | .bin op l r, k, h => by
    simp only [nfO, Bool.and_eq_true] at h
    simp only [O.skel, nf, head_skel, Bool.and_eq_true]
    exact ⟨⟨⟨h.1.1.1, h.1.1.2⟩, nf_skel l k h.1.2⟩, nf_skel r _ h.2⟩
  | .pre op e, k, h => by
    simp only [nfO, Bool.and_eq_true] at h
    simp only [O.skel, nf, head_skel, Bool.and_eq_true]
    exact ⟨h.1, nf_skel e k h.2⟩

theorem length_leaves : ∀ o : O, o.leaves.length = o.count
  | .leaf _ _ => rfl
  | .bin _ l r => by simp [O.leaves, O.count, length_leaves l, length_leaves r]
  | .pre _ e => by simp [O.leaves, O.count, length_leaves e]

theorem rebuild_skel : ∀ (o : O) (pre post : List (B × Sufs)),
    rebuild (pre ++ o.leaves ++ post) (o.skel pre.length) = some o
  | .leaf b s, pre, post => by
    simp [O.leaves, O.skel, rebuild]
  | .bin op l r, pre, post => by
    have hl := rebuild_skel l pre (r.leaves ++ post)
    have hr := rebuild_skel r (pre ++ l.leaves) post
    simp only [List.length_append, length_leaves] at hr
    simp only [O.leaves, O.skel, rebuild]
    rw [show pre ++ (l.leaves ++ r.leaves) ++ post = pre ++ l.leaves ++ (r.leaves ++ post) by simp, hl,
      show pre ++ l.leaves ++ (r.leaves ++ post) = pre ++ l.leaves ++ r.leaves ++ post by simp, hr]
  | .pre op e, pre, post => by
    simp only [O.leaves, O.skel, rebuild, rebuild_skel e pre post, Option.map]

/-! ## completeness -/

/-- from a complete scan of the run to the operator-level parse -/
theorem parseO_of_scan (o : O) (h : nfO o = true) (rest : List WTok)
    (hsc : Ev fun f => scan f (printO o ++ rest) 0 = some (Prec.print (o.skel 0) ++ [], o.leaves ++ [], rest)) :
    Ev fun f => parseO f (printO o ++ rest) = some (o, rest) := by
  refine hsc.step fun f hf => ?_
  simp only [List.append_nil] at hf
  have hp := parse_print_NF cppOps (o.skel 0) (nf_skel o 0 h)
  have hr := rebuild_skel o [] []
  simp only [List.nil_append, List.append_nil, List.length_nil] at hr
  simp only [parseO, hf, hp, hr, Option.map]

mutual
theorem complete_X : ∀ (x : X), nfX x = true → ∀ rest, stopX rest = true →
    Ev fun f => parseX f (printX x ++ rest) = some (x, rest)
  | .plain o, h, rest, hs => by
    have hno : nfO o = true := by simpa [nfX] using h
    have hso := stopO_of_stopX hs
    have ho := parseO_of_scan o hno rest
      (complete_scan o hno 0 rest [] [] rest (noSuf_of_stopO hso) (Ev.of_all fun f => scan_stop f rest _ hso))
    exact ho.step fun f hf => by simpa [printX] using parseX_plain f _ rest o hf hs
  | .tern c a b, h, rest, hs => by
    simp only [nfX, Bool.and_eq_true] at h
    have hc := parseO_of_scan c h.1.1 (.quest :: (printX a ++ .colon :: (printX b ++ rest)))
      (complete_scan c h.1.1 0 _ [] [] _ rfl (Ev.of_all fun f => scan_stop f _ _ rfl))
    have ha := complete_X a h.1.2 (.colon :: (printX b ++ rest)) rfl
    have hb := complete_X b h.2 rest hs
    refine Ev.step3 (fun f h1 h2 h3 => ?_) hc ha hb
    simp only [printX, List.append_assoc, List.cons_append] at h1 h2 h3 ⊢
    simp only [parseX, h1, h2, h3]
/-- scanning the print of `o` yields its skeleton tokens and primaries, then goes on with what follows -/
theorem complete_scan : ∀ (o : O), nfO o = true → ∀ (k : Nat) (rest : List WTok) (pt : List Prec.Tok) (ls : List (B × Sufs)) (r' : List WTok),
    noSuf rest = true → (Ev fun f => scan f rest (k + o.count) = some (pt, ls, r')) →
    Ev fun f => scan f (printO o ++ rest) k = some (Prec.print (o.skel k) ++ pt, o.leaves ++ ls, r')
  | .leaf b s, h, k, rest, pt, ls, r', hn, hc => by
    simp only [nfO, Bool.and_eq_true] at h
    have hsuf := complete_Sufs s h.2 rest hn
    cases b with
    | atom id =>
      refine Ev.step2 (fun f h1 h2 => ?_) hsuf hc
      simp only [O.count] at h2
      simp only [printO, printB, List.cons_append, List.nil_append, scan, h1, h2, Option.map, O.skel, Prec.print, O.leaves]
    | name n =>
      refine Ev.step2 (fun f h1 h2 => ?_) hsuf hc
      simp only [O.count] at h2
      simp only [printO, printB, List.cons_append, List.nil_append, scan, h1, h2, Option.map, O.skel, Prec.print, O.leaves]
    | paren x =>
      have hx := complete_X x (by simpa [nfB] using h.1) (.rp :: (printSufs s ++ rest)) rfl
      refine Ev.step3 (fun f h0 h1 h2 => ?_) hx hsuf hc
      simp only [O.count] at h2
      simp only [printO, printB, List.cons_append, List.append_assoc, List.nil_append] at h0 ⊢
      simp only [scan, h0, h1, h2, Option.map, O.skel, Prec.print, O.leaves, List.cons_append, List.nil_append]
  | .bin op l r, h, k, rest, pt, ls, r', hn, hc => by
    simp only [nfO, Bool.and_eq_true] at h
    have hr := complete_scan r h.2 (k + l.count) rest pt ls r' hn (by simpa [O.count, Nat.add_assoc] using hc)
    have hop : Ev fun f => scan f (.op op :: (printO r ++ rest)) (k + l.count)
        = some (.op op :: (Prec.print (r.skel (k + l.count)) ++ pt), r.leaves ++ ls, r') :=
      hr.step fun f hf => by simp only [scan, hf, Option.map]
    have hl := complete_scan l h.1.2 k (.op op :: (printO r ++ rest)) _ _ r' rfl hop
    obtain ⟨f0, hf0⟩ := hl
    refine ⟨f0, fun f hf => ?_⟩
    have := hf0 f hf
    simp only [printO, List.append_assoc, List.cons_append, O.skel, Prec.print, O.leaves] at this ⊢
    exact this
  | .pre op e, h, k, rest, pt, ls, r', hn, hc => by
    simp only [nfO, Bool.and_eq_true] at h
    have he := complete_scan e h.2 k rest pt ls r' hn (by simpa [O.count] using hc)
    refine he.step fun f hf => ?_
    simp only [printO, List.cons_append, scan, hf, Option.map, O.skel, Prec.print, O.leaves]
theorem complete_Sufs : ∀ (s : Sufs), nfSufs s = true → ∀ rest, noSuf rest = true →
    Ev fun f => parseSufs f (printSufs s ++ rest) = some (s, rest)
  | .nil, _, rest, hn => Ev.of_all fun f => by simpa [printSufs] using parseSufs_stop f rest hn
  | .member n s, h, rest, hn => by
    have hs := complete_Sufs s (by simpa [nfSufs] using h) rest hn
    refine hs.step fun f hf => ?_
    simp only [printSufs, List.cons_append, parseSufs, hf, Option.map]
  | .call .nil s, h, rest, hn => by
    have hs := complete_Sufs s (by simpa [nfSufs, nfArgs] using h) rest hn
    refine hs.step fun f hf => ?_
    simp only [printSufs, printArgs, List.nil_append, List.cons_append, parseSufs, hf, Option.map]
  | .call (.cons x as) s, h, rest, hn => by
    simp only [nfSufs, Bool.and_eq_true] at h
    have ha := complete_Args (.cons x as) h.1 (by simp) (printSufs s ++ rest)
    have hs := complete_Sufs s h.2 rest hn
    refine Ev.step2 (fun f h1 h2 => ?_) ha hs
    have hst : startsOk (printArgs (.cons x as) ++ .rp :: (printSufs s ++ rest)) = true := by
      apply startsOk_append
      cases as with
      | nil => simpa [printArgs] using startsOk_printX x
      | cons y r => simp only [printArgs]; exact startsOk_append _ (startsOk_printX x)
    simp only [printSufs, List.cons_append, List.append_assoc] at h1 ⊢
    generalize hg : printArgs (.cons x as) ++ .rp :: (printSufs s ++ rest) = toks at h1 hst
    cases toks with
    | nil => simp [startsOk] at hst
    | cons t ts =>
      rw [parseSufs_call f t ts (ne_rp_of_startsOk hst), h1]
      simp only [h2, Option.map]
/-- a non-empty argument list followed by `)` -/
theorem complete_Args : ∀ (args : Args), nfArgs args = true → args ≠ .nil → ∀ rest,
    Ev fun f => parseArgs f (printArgs args ++ .rp :: rest) = some (args, .rp :: rest)
  | .nil, _, hne, _ => absurd rfl hne
  | .cons x .nil, h, _, rest => by
    simp only [nfArgs, Bool.and_eq_true] at h
    have hx := complete_X x h.1 (.rp :: rest) rfl
    exact hx.step fun f hf => by simpa [printArgs] using parseArgs_last f _ rest x hf
  | .cons x (.cons y as), h, _, rest => by
    simp only [nfArgs, Bool.and_eq_true] at h
    have hx := complete_X x h.1 (.comma :: (printArgs (.cons y as) ++ .rp :: rest)) rfl
    have hy := complete_Args (.cons y as) (by simpa [nfArgs] using h.2) (by simp) rest
    refine Ev.step2 (fun f h1 h2 => ?_) hx hy
    simp only [printArgs, List.append_assoc, List.cons_append] at h1 ⊢
    exact parseArgs_more f _ _ _ x _ h1 h2
end

/-- **the wrapper parser reads a printed normal form back** -/
theorem parsesTo_print (x : X) (h : nfX x = true) : ParsesTo (printX x) x := by
  have := complete_X x h [] rfl
  simpa [ParsesTo, Ev] using this

/-- the reading is unique -/
theorem parsesTo_unique {ts : List WTok} {x y : X} (hx : ParsesTo ts x) (hy : ParsesTo ts y) : x = y := by
  obtain ⟨f0, h0⟩ := hx
  obtain ⟨f1, h1⟩ := hy
  have a := h0 (max f0 f1) (by omega)
  have b := h1 (max f0 f1) (by omega)
  rw [a] at b
  exact (Prod.mk.inj (Option.some.inj b)).1

end Tranp.Emit
