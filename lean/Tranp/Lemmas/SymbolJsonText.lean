/-
  Property C14 — the JSON text form: what `json.loads` reads from the written text is the rows that were written.
-/
import Tranp.Model.SymbolJsonText
import Tranp.Lemmas.SymbolJson
import Tranp.Lemmas.JsonCodec

namespace Tranp.SymbolJson
open Tranp Tranp.Lark

theorem jsonToFlat_flatToJson (fl : Flat) (h : ∀ pk ∈ fl, pk.1 ≠ []) : jsonToFlat (some (flatToJson fl)) = some fl := by
  unfold flatToJson jsonToFlat
  simp only
  induction fl with
  | nil => rfl
  | cons pk rest ih =>
    obtain ⟨p, k⟩ := pk
    have hp : p ≠ [] := h (p, k) (by simp)
    have ih' := ih (fun x hx => h x (by simp [hx]))
    simp only [List.map_cons, List.mapM_cons, decPath_encPath p hp, Option.map_some] at ih' ⊢
    rw [ih']
    rfl

theorem jsonToRow_rowToJson (r : Row) (h : ∀ pk ∈ rowFlat r, pk.1 ≠ []) : jsonToRow (rowToJson r) = some r := by
  cases r with
  | symbol ty fl =>
    have hf := jsonToFlat_flatToJson fl h
    have e1 : jsonGet [(kClass, Json.str vSymbol), (kTypes, Json.str ty), (kAttrs, flatToJson fl)] kClass = some (.str vSymbol) := by
      simp [jsonGet]
    have e2 : jsonGet [(kClass, Json.str vSymbol), (kTypes, Json.str ty), (kAttrs, flatToJson fl)] kTypes = some (.str ty) := by
      simp [jsonGet, show kClass ≠ kTypes by decide]
    have e3 : jsonGet [(kClass, Json.str vSymbol), (kTypes, Json.str ty), (kAttrs, flatToJson fl)] kAttrs = some (flatToJson fl) := by
      simp [jsonGet, show kClass ≠ kAttrs by decide, show kTypes ≠ kAttrs by decide]
    simp only [rowToJson, jsonToRow, e1, e2, e3, jsonStr, if_true, hf]
  | reflection nd dc o v fl =>
    have hf := jsonToFlat_flatToJson fl h
    have hne : vReflection ≠ vSymbol := by decide
    simp only [rowToJson, jsonToRow, jsonGet, jsonStr, if_true,
      show kClass ≠ kNode by decide, show kClass ≠ kDecl by decide, show kClass ≠ kOrigin by decide, show kClass ≠ kVia by decide,
      show kClass ≠ kAttrs by decide, show kNode ≠ kDecl by decide, show kNode ≠ kOrigin by decide, show kNode ≠ kVia by decide,
      show kNode ≠ kAttrs by decide, show kDecl ≠ kOrigin by decide, show kDecl ≠ kVia by decide, show kDecl ≠ kAttrs by decide,
      show kOrigin ≠ kVia by decide, show kOrigin ≠ kAttrs by decide, show kVia ≠ kAttrs by decide, if_false, hne, hf]

theorem jsonToRows_rowsToJson (d : List (Str × Row)) (h : ∀ kr ∈ d, ∀ pk ∈ rowFlat kr.2, pk.1 ≠ []) :
    jsonToRows (rowsToJson d) = some d := by
  unfold rowsToJson jsonToRows
  simp only
  induction d with
  | nil => rfl
  | cons kr rest ih =>
    obtain ⟨k, r⟩ := kr
    have hr := jsonToRow_rowToJson r (h (k, r) (by simp))
    have ih' := ih (fun x hx => h x (by simp [hx]))
    simp only [List.map_cons, List.mapM_cons, hr, Option.map_some] at ih' ⊢
    rw [ih']
    rfl

/-- `json.loads(json.dumps(rows))`, read as rows, is the rows — for rows whose index paths are non-empty -/
theorem readText_writeText (d : List (Str × Row)) (h : ∀ kr ∈ d, ∀ pk ∈ rowFlat kr.2, pk.1 ≠ []) :
    readText (writeText d) = some d := by
  unfold readText writeText
  rw [parseJson_printJson]
  exact jsonToRows_rowsToJson d h

/-- the rows `serialize` writes have non-empty index paths -/
theorem serialize_paths (W : World) (s : Sym) : ∀ pk ∈ rowFlat (serialize W s), pk.1 ≠ [] := by
  intro pk hpk
  have hmem : pk ∈ expand s.attrs := by
    unfold serialize at hpk
    split at hpk <;> exact hpk
  rw [expand_eq_flatten] at hmem
  exact (flatList_heads 0 s.attrs pk hmem).1

end Tranp.SymbolJson
