/-
  Helper lemmas for property C19 (dependency container).
-/
import Tranp.Model.DI

namespace Tranp.DI
open Tranp

/-! ### dictionaries -/

namespace Dict
variable {α : Type}

theorem getL_setL (m : List (Nat × α)) (k k' : Nat) (v : α) :
    getL (setL m k v) k' = if k' = k then some v else getL m k' := by
  induction m with
  | nil =>
    simp only [setL, getL]
    by_cases h : k = k'
    · simp [h]
    · have : ¬ k' = k := fun e => h e.symm
      simp [h, this]
  | cons kv m ih =>
    obtain ⟨k0, v0⟩ := kv
    simp only [setL]
    by_cases h0 : k0 = k
    · subst h0
      simp only [if_true, getL]
      by_cases h : k0 = k'
      · simp [h]
      · have : ¬ k' = k0 := fun e => h e.symm
        simp [h, this]
    · simp only [h0, if_false, getL, ih]
      by_cases h : k0 = k'
      · subst h; simp [h0]
      · simp [h]

theorem getL_filter (m : List (Nat × α)) (k k' : Nat) :
    getL (m.filter (fun kv => kv.1 ≠ k)) k' = if k' = k then none else getL m k' := by
  induction m with
  | nil => simp [getL]
  | cons kv m ih =>
    obtain ⟨k0, v0⟩ := kv
    by_cases h0 : k0 = k
    · subst h0
      simp only [List.filter, ne_eq, not_true_eq_false, decide_false, ih, getL]
      by_cases h : k' = k0
      · simp [h]
      · have : ¬ k0 = k' := fun e => h e.symm
        simp [h, this]
    · simp only [List.filter, ne_eq, h0, not_false_eq_true, decide_true, getL, ih]
      by_cases h : k0 = k'
      · subst h; simp [h0]
      · simp [h]

@[simp] theorem get?_empty (k : Nat) : (({} : Dict α).get? k) = none := rfl

theorem get?_set (m : Dict α) (k k' : Nat) (v : α) :
    (m.set k v).get? k' = if k' = k then some v else m.get? k' := getL_setL _ _ _ _

theorem get?_del (m : Dict α) (k k' : Nat) :
    (m.del k).get? k' = if k' = k then none else m.get? k' := getL_filter _ _ _

theorem get?_merge (a b : Dict α) (k : Nat) :
    (merge a b).get? k = match b.get? k with
      | some v => some v
      | none => a.get? k := by
  obtain ⟨b⟩ := b
  simp only [merge, get?]
  induction b with
  | nil => simp [getL]
  | cons kv b ih =>
    obtain ⟨k0, v0⟩ := kv
    simp only [List.foldr, getL_setL, getL]
    by_cases h : k = k0
    · subst h; simp
    · have h' : ¬ k0 = k := fun e => h e.symm
      simp [h, h', ih]

@[simp] theorem contains_eq (m : Dict α) (k : Nat) : m.contains k = (m.get? k).isSome := rfl

theorem getL_filterP (m : List (Nat × α)) (p : Nat → Bool) (k : Nat) :
    getL (m.filter (fun kv => p kv.1)) k = if p k then getL m k else none := by
  induction m with
  | nil => simp [getL]
  | cons kv m ih =>
    obtain ⟨k0, v0⟩ := kv
    by_cases hp : p k0 = true
    · simp only [List.filter, hp, getL, ih]
      by_cases h : k0 = k
      · subst h; simp [hp]
      · simp [h]
    · simp only [List.filter, hp, getL, ih]
      by_cases h : k0 = k
      · subst h; simp [hp]
      · simp [h]

theorem get?_filterKeys (m : Dict α) (p : Nat → Bool) (k : Nat) :
    (m.filterKeys p).get? k = if p k then m.get? k else none := getL_filterP _ _ _

end Dict

namespace Memo

theorem getL_setL (m : List (Annotated × List SymRef)) (k k' : Annotated) (v : List SymRef) :
    getL (setL m k v) k' = if k' = k then some v else getL m k' := by
  induction m with
  | nil =>
    simp only [setL, getL]
    by_cases h : k = k'
    · simp [h]
    · have : ¬ k' = k := fun e => h e.symm
      simp [h, this]
  | cons kv m ih =>
    obtain ⟨k0, v0⟩ := kv
    simp only [setL]
    by_cases h0 : k0 = k
    · subst h0
      simp only [if_true, getL]
      by_cases h : k0 = k'
      · simp [h]
      · have : ¬ k' = k0 := fun e => h e.symm
        simp [h, this]
    · simp only [h0, if_false, getL, ih]
      by_cases h : k0 = k'
      · subst h; simp [h0]
      · simp [h]

@[simp] theorem get?_empty (k : Annotated) : (({} : Memo).get? k) = none := rfl

theorem get?_set (m : Memo) (k k' : Annotated) (v : List SymRef) :
    (m.set k v).get? k' = if k' = k then some v else m.get? k' := getL_setL _ _ _ _

@[simp] theorem contains_eq (m : Memo) (k : Annotated) : m.contains k = (m.get? k).isSome := rfl

end Memo

/-! ### well-formed containers and the abstraction function -/

/-- invariant of every reachable container: instances only for bound symbols; in a LazyDI every bound symbol
    has a definition; a cached annotation list is the one of its key -/
structure Cont.WF (c : Cont) : Prop where
  inst_inj : ∀ s, c.injectors.get? s = none → c.instances.get? s = none
  inj_def : c.lazy = true → ∀ s, c.definitions.get? s = none → c.injectors.get? s = none
  memo_ok : ∀ k a, c.invocations.get? k = some a → a = pluckA k

theorem canResolve_abs (c : Cont) (h : c.WF) (r : SymRef) : (absC c).canResolve r = c.canResolve r := by
  simp only [SCont.canResolve, absC, absEnt, Cont.canResolve, Cont.defined, Cont.innerBinded, symbolize, Dict.contains_eq]
  cases hl : c.lazy
  · cases hi : c.injectors.get? r.accept <;> simp
  · cases hd : c.definitions.get? r.accept
    · simp [h.inj_def hl _ hd]
    · cases hi : c.injectors.get? r.accept <;> simp

theorem setEnt_ents (c : SCont) (s : Nat) (e : Option SEntry) (s' : Nat) :
    (c.setEnt s e).ents s' = if s' = s then e else c.ents s' := rfl

@[simp] theorem accept_mk (s : Nat) (g : Bool) : (SymRef.mk s g).accept = s := rfl

theorem absEnt_inj {c : Cont} {s : Nat} {f : Factory} (hi : c.injectors.get? s = some f) :
    absEnt c s = some ⟨.direct f, false, c.instances.get? s⟩ := by simp [absEnt, hi]

theorem absEnt_lazy {c : Cont} {s : Nat} {d : Injector} (hi : c.injectors.get? s = none) (hl : c.lazy = true)
    (hd : c.definitions.get? s = some d) : absEnt c s = some ⟨d, true, none⟩ := by simp [absEnt, hi, hl, hd]

theorem absEnt_none_di {c : Cont} {s : Nat} (hi : c.injectors.get? s = none) (hl : c.lazy = false) :
    absEnt c s = none := by simp [absEnt, hi, hl]

theorem absEnt_none_def {c : Cont} {s : Nat} (hi : c.injectors.get? s = none) (hd : c.definitions.get? s = none) :
    absEnt c s = none := by cases hl : c.lazy <;> simp [absEnt, hi, hl, hd]

/-- a change that touches one symbol only -/
theorem absC_update (c c' : Cont) (s : Nat) (e : Option SEntry) (hl : c'.lazy = c.lazy)
    (hs : absEnt c' s = e)
    (ho : ∀ s', s' ≠ s → c'.injectors.get? s' = c.injectors.get? s' ∧ c'.instances.get? s' = c.instances.get? s'
      ∧ c'.definitions.get? s' = c.definitions.get? s') :
    absC c' = (absC c).setEnt s e := by
  apply SCont.ext
  · exact hl
  · funext s'
    simp only [absC, SCont.setEnt, fset]
    by_cases h : s' = s
    · subst h; simp [hs]
    · obtain ⟨h1, h2, h3⟩ := ho s' h
      simp [h, absEnt, h1, h2, h3, hl]

theorem setEnt_setEnt (c : SCont) (s : Nat) (e e' : Option SEntry) : (c.setEnt s e).setEnt s e' = c.setEnt s e' := by
  apply SCont.ext
  · rfl
  · funext s'; simp only [SCont.setEnt, fset]; split <;> rfl

@[simp] theorem load_direct (f : Factory) : (Injector.direct f).load = .ok f := rfl

theorem absC_ents (c : Cont) (s : Nat) : (absC c).ents s = absEnt c s := rfl

theorem absC_setInj (c : Cont) (s : Nat) (f : Factory) (hi : c.instances.get? s = none) :
    absC { c with injectors := c.injectors.set s f } = (absC c).setEnt s (some ⟨.direct f, false, none⟩) :=
  absC_update c _ s _ rfl (by simp [absEnt, Dict.get?_set, hi]) (by intro s' hs; simp [Dict.get?_set, hs])

theorem absC_setInjDef (c : Cont) (s : Nat) (f : Factory) (d : Injector) (hi : c.instances.get? s = none) :
    absC { c with injectors := c.injectors.set s f, definitions := c.definitions.set s d }
      = (absC c).setEnt s (some ⟨.direct f, false, none⟩) :=
  absC_update c _ s _ rfl (by simp [absEnt, Dict.get?_set, hi]) (by intro s' hs; simp [Dict.get?_set, hs])

theorem absC_setInst (c : Cont) (s : Nat) (f : Factory) (o : Obj) (hf : c.injectors.get? s = some f) :
    absC { c with instances := c.instances.set s o } = (absC c).setEnt s (some ⟨.direct f, false, some o⟩) :=
  absC_update c _ s _ rfl (by simp [absEnt, Dict.get?_set, hf]) (by intro s' hs; simp [Dict.get?_set, hs])

/-! ### bind / unbind / rebind -/

theorem diBind_none {c : Cont} {r : SymRef} {f : Factory} (hi : c.injectors.get? r.accept = none) :
    c.diBind r f = ({ c with injectors := c.injectors.set r.accept f }, .ok ()) := by
  simp [Cont.diBind, Cont.innerBinded, hi]

theorem diBind_some {c : Cont} {r : SymRef} {f g : Factory} (hi : c.injectors.get? r.accept = some g) :
    c.diBind r f = (c, .error .valueError) := by
  simp [Cont.diBind, Cont.innerBinded, hi]

theorem lazyBind_undef {c : Cont} {r : SymRef} {f : Factory} (hd : c.definitions.get? r.accept = none) :
    c.lazyBind r f = Cont.diBind { c with definitions := c.definitions.set r.accept (.direct f) } r f := by
  simp [Cont.lazyBind, Cont.register, Cont.defined, symbolize, hd]

theorem lazyBind_def {c : Cont} {r : SymRef} {f : Factory} {d : Injector} (hd : c.definitions.get? r.accept = some d) :
    c.lazyBind r f = c.diBind r f := by
  simp [Cont.lazyBind, Cont.defined, symbolize, hd]

theorem bind_ok (c : Cont) (h : c.WF) (r : SymRef) (f : Factory) :
    (c.bind r f).1.WF ∧ (absC c).bind r f = (absC (c.bind r f).1, (c.bind r f).2) := by
  obtain ⟨h1, h2, h3⟩ := h
  have hwf : c.WF := ⟨h1, h2, h3⟩
  cases hl : c.lazy
  · -- plain DI
    simp only [Cont.bind, hl, Bool.false_eq_true, if_false]
    cases hi : c.injectors.get? r.accept with
    | none =>
      rw [diBind_none hi]
      refine ⟨?_, ?_⟩
      · constructor <;> grind [Dict.get?_set]
      · simp only [SCont.bind, absC_ents, absEnt_none_di hi hl]
        rw [absC_setInj c _ f (h1 _ hi)]
    | some g =>
      rw [diBind_some hi]
      exact ⟨hwf, by simp [SCont.bind, absC_ents, absEnt_inj hi]⟩
  · simp only [Cont.bind, hl, if_true]
    cases hd : c.definitions.get? r.accept with
    | none =>
      have hi := h2 hl _ hd
      rw [lazyBind_undef hd, diBind_none (by simpa using hi)]
      refine ⟨?_, ?_⟩
      · constructor <;> grind [Dict.get?_set]
      · simp only [SCont.bind, absC_ents, absEnt_none_def hi hd]
        exact congrArg (·, Except.ok ()) (absC_setInjDef c _ f _ (h1 _ hi)).symm
    | some d =>
      rw [lazyBind_def hd]
      cases hi : c.injectors.get? r.accept with
      | none =>
        rw [diBind_none hi]
        refine ⟨?_, ?_⟩
        · constructor <;> grind [Dict.get?_set]
        · simp only [SCont.bind, absC_ents, absEnt_lazy hi hl hd, if_true]
          rw [absC_setInj c _ f (h1 _ hi)]
      | some g =>
        rw [diBind_some hi]
        exact ⟨hwf, by simp [SCont.bind, absC_ents, absEnt_inj hi]⟩

theorem diUnbind_none {c : Cont} {r : SymRef} (hi : c.injectors.get? r.accept = none) : c.diUnbind r = c := by
  simp [Cont.diUnbind, Cont.innerBinded, hi]

theorem diUnbind_some {c : Cont} {r : SymRef} {g : Factory} (hi : c.injectors.get? r.accept = some g) :
    c.diUnbind r = { c with injectors := c.injectors.del r.accept, instances := c.instances.del r.accept } := by
  simp [Cont.diUnbind, Cont.innerBinded, hi]

theorem unbind_ok (c : Cont) (h : c.WF) (r : SymRef) :
    (c.unbind r).WF ∧ (absC c).unbind r = absC (c.unbind r) := by
  obtain ⟨h1, h2, h3⟩ := h
  have hwf : c.WF := ⟨h1, h2, h3⟩
  cases hl : c.lazy
  · simp only [Cont.unbind, hl, Bool.false_eq_true, if_false]
    cases hi : c.injectors.get? r.accept with
    | none =>
      rw [diUnbind_none hi]
      exact ⟨hwf, by simp [SCont.unbind, absC_ents, absEnt_none_di hi hl]⟩
    | some g =>
      rw [diUnbind_some hi]
      refine ⟨?_, ?_⟩
      · constructor <;> grind [Dict.get?_del]
      · simp only [SCont.unbind, absC_ents, absEnt_inj hi]
        exact (absC_update c { c with injectors := c.injectors.del r.accept, instances := c.instances.del r.accept }
          r.accept none rfl (by simp [absEnt, Dict.get?_del, hl])
          (by intro s' hs; simp [Dict.get?_del, hs])).symm
  · simp only [Cont.unbind, hl, if_true]
    cases hd : c.definitions.get? r.accept with
    | none =>
      have hi := h2 hl _ hd
      have : c.lazyUnbind r = c := by
        simp [Cont.lazyUnbind, Cont.canResolve, Cont.defined, symbolize, hl, hd, diUnbind_none hi]
      rw [this]
      exact ⟨hwf, by simp [SCont.unbind, absC_ents, absEnt_none_def hi hd]⟩
    | some d =>
      have e1 : c.lazyUnbind r = Cont.diUnbind { c with definitions := c.definitions.del r.accept } r := by
        simp [Cont.lazyUnbind, Cont.canResolve, Cont.defined, Cont.unregister, symbolize, hl, hd]
      rw [e1]
      cases hi : c.injectors.get? r.accept with
      | none =>
        rw [diUnbind_none (by simpa using hi)]
        refine ⟨?_, ?_⟩
        · constructor <;> grind [Dict.get?_del]
        · simp only [SCont.unbind, absC_ents, absEnt_lazy hi hl hd]
          exact (absC_update c { c with definitions := c.definitions.del r.accept } r.accept none rfl
            (by simp [absEnt, Dict.get?_del, hi])
            (by intro s' hs; simp [Dict.get?_del, hs])).symm
      | some g =>
        rw [diUnbind_some (by simpa using hi)]
        refine ⟨?_, ?_⟩
        · constructor <;> grind [Dict.get?_del]
        · simp only [SCont.unbind, absC_ents, absEnt_inj hi]
          exact (absC_update c
            { c with
              definitions := c.definitions.del r.accept,
              injectors := c.injectors.del r.accept,
              instances := c.instances.del r.accept } r.accept none rfl
            (by simp [absEnt, Dict.get?_del])
            (by intro s' hs; simp [Dict.get?_del, hs])).symm

theorem rebind_ok (c : Cont) (h : c.WF) (r : SymRef) (f : Factory) :
    (c.rebind r f).1.WF ∧ (absC c).rebind r f = (absC (c.rebind r f).1, (c.rebind r f).2) := by
  cases hi : c.injectors.get? r.accept with
  | none =>
    have e : c.rebind r f = c.bind r f := by simp [Cont.rebind, Cont.innerBinded, hi]
    rw [e]
    obtain ⟨hw, he⟩ := bind_ok c h r f
    refine ⟨hw, ?_⟩
    rw [← he]
    simp only [SCont.rebind, SCont.bind, absC_ents]
    cases hl : c.lazy
    · simp [absEnt_none_di hi hl]
    · cases hd : c.definitions.get? r.accept with
      | none => simp [absEnt_none_def hi hd]
      | some d => simp [absEnt_lazy hi hl hd]
  | some g =>
    have e : c.rebind r f = (c.unbind r).bind r f := by simp [Cont.rebind, Cont.innerBinded, hi]
    rw [e]
    obtain ⟨hw1, he1⟩ := unbind_ok c h r
    obtain ⟨hw, he⟩ := bind_ok (c.unbind r) hw1 r f
    refine ⟨hw, ?_⟩
    rw [← he, ← he1]
    simp [SCont.rebind, SCont.bind, SCont.unbind, absC_ents, absEnt_inj hi, setEnt_ents, setEnt_setEnt]


/-! ### `__assert_invoke` is the validation of the law -/

theorem allowCount_le : ∀ (args : List Arg) (expect : List Nat), allowCount args expect ≤ args.length := by
  intro args
  induction args with
  | nil => intro expect; simp [allowCount]
  | cons a as ih =>
    intro expect
    cases expect with
    | nil => simp [allowCount]
    | cons e es =>
      have := ih es
      simp only [allowCount, List.length_cons]
      split <;> omega

theorem allowCount_eq : ∀ (args : List Arg) (expect : List Nat), args.length = expect.length →
    (allowCount args expect = expect.length ↔ args.map (fun a => a.ty) = expect) := by
  intro args
  induction args with
  | nil => intro expect h; cases expect <;> simp_all [allowCount]
  | cons a as ih =>
    intro expect h
    cases expect with
    | nil => simp at h
    | cons e es =>
      have hl : as.length = es.length := by simpa using h
      have := ih es hl
      have hle := allowCount_le as es
      simp only [allowCount, List.length_cons, List.map_cons, List.cons.injEq]
      by_cases ht : a.ty = e
      · simp only [ht, if_true, true_and]
        rw [← this]; omega
      · simp only [ht, if_false, false_and, iff_false]
        omega

theorem assertInvoke_eq_validate (annos : List SymRef) (curried : List Obj) (args : List Arg) :
    assertInvoke annos curried args = validateFill annos curried args := by
  unfold assertInvoke validateFill
  simp only
  generalize (annos.drop curried.length).map SymRef.accept = expect
  by_cases hlen : args.length = expect.length
  · have := allowCount_eq args expect hlen
    by_cases heq : args.map (fun a => a.ty) = expect
    · have h2 := this.mpr heq
      simp [heq, h2, hlen]
    · have h2 : ¬ allowCount args expect = expect.length := fun h' => heq (this.mp h')
      have h3 : ¬ expect.length = allowCount args expect := fun h' => h2 h'.symm
      simp [heq, h3]
  · have heq : ¬ args.map (fun a => a.ty) = expect := by
      intro h'; apply hlen; rw [← h']; simp
    have h3 : ¬ expect.length = args.length := fun h' => hlen h'.symm
    simp [heq, h3]

/-! ### resolution: the simulation -/

/-- what resolution never undoes: the class and the existing entries of the base registry -/
def Mono (c c' : Cont) : Prop :=
  c'.lazy = c.lazy ∧ ∀ s f, c.injectors.get? s = some f → c'.injectors.get? s = some f

theorem Mono.refl (c : Cont) : Mono c c := ⟨rfl, fun _ _ h => h⟩

theorem Mono.trans {a b c : Cont} (h1 : Mono a b) (h2 : Mono b c) : Mono a c :=
  ⟨h2.1.trans h1.1, fun s f h => h2.2 s f (h1.2 s f h)⟩

/-- `rec` (concrete `self.resolve`) is simulated by `srec` -/
def Sim (rec : Cont → Nat → SymRef → Res Obj) (srec : SCont → Nat → SymRef → SRes Obj) : Prop :=
  ∀ c nx r, c.WF →
    (rec c nx r).1.WF ∧ Mono c (rec c nx r).1 ∧ srec (absC c) nx r = (absC (rec c nx r).1, (rec c nx r).2)

theorem curry_ok {rec : Cont → Nat → SymRef → Res Obj} {srec : SCont → Nat → SymRef → SRes Obj} (hs : Sim rec srec) :
    ∀ (annos : List SymRef) (c : Cont) (nx : Nat) (acc : List Obj), c.WF →
      (curryWith rec c nx annos acc).1.WF ∧ Mono c (curryWith rec c nx annos acc).1 ∧
      sCurryWith srec (absC c) nx annos acc = (absC (curryWith rec c nx annos acc).1, (curryWith rec c nx annos acc).2) := by
  intro annos
  induction annos with
  | nil => intro c nx acc h; exact ⟨h, Mono.refl c, rfl⟩
  | cons a as ih =>
    intro c nx acc h
    simp only [curryWith, sCurryWith, canResolve_abs c h]
    by_cases hc : c.canResolve a = true
    · simp only [hc, if_true]
      obtain ⟨hw, hm, he⟩ := hs c nx a h
      rw [he]
      rcases hrec : rec c nx a with ⟨c', nx', res⟩
      rw [hrec] at hw hm
      cases res with
      | error e => exact ⟨hw, hm, rfl⟩
      | ok o =>
        obtain ⟨hw2, hm2, he2⟩ := ih c' nx' (acc ++ [o]) hw
        exact ⟨hw2, hm.trans hm2, he2⟩
    · simp only [hc]
      exact ⟨h, Mono.refl c, rfl⟩

theorem invoke_ok {rec : Cont → Nat → SymRef → Res Obj} {srec : SCont → Nat → SymRef → SRes Obj} (hs : Sim rec srec)
    (c : Cont) (nx : Nat) (f : Factory) (args : List Arg) (h : c.WF) :
    (invokeWith rec c nx f args).1.WF ∧ Mono c (invokeWith rec c nx f args).1 ∧
    sInvokeFill srec (absC c) nx f args = (absC (invokeWith rec c nx f args).1, (invokeWith rec c nx f args).2) := by
  unfold invokeWith sInvokeFill
  simp only
  -- the annotations in use are the factory's own, cached or not
  have hannos : annosFor (c.invocations.get? f.annotated) f = pluck f := by
    unfold annosFor
    cases hm : c.invocations.get? f.annotated with
    | none => rfl
    | some a => exact h.memo_ok _ _ hm
  rw [hannos]
  -- writing the cache changes nothing the Spec sees
  generalize hc1 : (if c.invocations.contains f.annotated = true then c
      else { c with invocations := c.invocations.set f.annotated (pluckA f.annotated) }) = c1
  have hw1 : c1.WF := by
    subst hc1
    split
    · exact h
    · refine ⟨h.inst_inj, h.inj_def, ?_⟩
      intro k a hk
      simp only [Memo.get?_set] at hk
      split at hk
      · rename_i heq; subst heq; cases hk; rfl
      · exact h.memo_ok k a hk
  have hm1 : Mono c c1 := by subst hc1; split <;> exact ⟨rfl, fun _ _ h => h⟩
  have hab : absC c1 = absC c := by subst hc1; split <;> rfl
  obtain ⟨hw, hmo, he⟩ := curry_ok hs (pluck f) c1 nx [] hw1
  rw [← hab, he]
  rcases hcur : curryWith rec c1 nx (pluck f) [] with ⟨c2, nx2, res⟩
  rw [hcur] at hw hmo
  cases res with
  | error e => exact ⟨hw, hm1.trans hmo, rfl⟩
  | ok curried =>
    simp only [assertInvoke_eq_validate]
    cases validateFill (pluck f) curried args with
    | error e => exact ⟨hw, hm1.trans hmo, rfl⟩
    | ok u => exact ⟨hw, hm1.trans hmo, rfl⟩

/-- `DI.resolve` against the Spec, for a symbol that has no unresolved definition -/
theorem diResolve_ok {rec : Cont → Nat → SymRef → Res Obj} {srec : SCont → Nat → SymRef → SRes Obj} (hs : Sim rec srec)
    (c : Cont) (nx : Nat) (r : SymRef) (h : c.WF) (hne : c.injectors.get? r.accept = none → absEnt c r.accept = none) :
    (diResolveWith rec c nx r).1.WF ∧ Mono c (diResolveWith rec c nx r).1 ∧
    sResolveWith srec (absC c) nx r = (absC (diResolveWith rec c nx r).1, (diResolveWith rec c nx r).2) := by
  unfold diResolveWith sResolveWith
  simp only [absC_ents]
  cases hi : c.injectors.get? r.accept with
  | none => exact ⟨h, Mono.refl c, by simp [hne hi]⟩
  | some f =>
    simp only [absEnt_inj hi, Injector.load, Bool.false_and, Bool.false_eq_true, if_false]
    cases ho : c.instances.get? r.accept with
    | some o => exact ⟨h, Mono.refl c, rfl⟩
    | none =>
      simp only
      obtain ⟨hw, hm, he⟩ := invoke_ok hs c nx f [] h
      rw [he]
      rcases hinv : invokeWith rec c nx f [] with ⟨c', nx', res⟩
      rw [hinv] at hw hm
      cases res with
      | error e => exact ⟨hw, hm, rfl⟩
      | ok o =>
        have hf' : c'.injectors.get? r.accept = some f := hm.2 _ _ hi
        refine ⟨?_, ?_, ?_⟩
        · obtain ⟨h1, h2, h3⟩ := hw
          constructor <;> grind [Dict.get?_set]
        · exact hm.trans ⟨rfl, fun _ _ h => h⟩
        · simp only [absC_setInst c' r.accept f o hf']

theorem bindProxy_ok (c : Cont) (s : Nat) (d : Injector) (hl : c.lazy = true)
    (hi : c.injectors.get? s = none) (hd : c.definitions.get? s = some d) :
    (importable s = false → c.bindProxy s = (c, .error .moduleNotFound)) ∧
    (importable s = true → ∀ e, d.load = .error e → c.bindProxy s = (c, .error e)) ∧
    (importable s = true → ∀ f, d.load = .ok f → c.bindProxy s = ({ c with injectors := c.injectors.set s f }, .ok ())) := by
  refine ⟨?_, ?_, ?_⟩
  · intro hs; simp [Cont.bindProxy, hd, loadSymbol, hs]
  · intro hs e he; simp [Cont.bindProxy, hd, loadSymbol, hs, he]
  · intro hs f hf
    simp only [Cont.bindProxy, hd, hf, Cont.bind, loadSymbol, hs, if_true]
    rw [if_pos hl, lazyBind_def (r := ⟨s, false⟩) (d := d) hd, diBind_none (r := ⟨s, false⟩) hi]
    rfl

theorem lazyResolve_ok {rec : Cont → Nat → SymRef → Res Obj} {srec : SCont → Nat → SymRef → SRes Obj} (hs : Sim rec srec)
    (c : Cont) (nx : Nat) (r : SymRef) (h : c.WF) (hl : c.lazy = true) :
    (lazyResolveWith rec c nx r).1.WF ∧ Mono c (lazyResolveWith rec c nx r).1 ∧
    sResolveWith srec (absC c) nx r = (absC (lazyResolveWith rec c nx r).1, (lazyResolveWith rec c nx r).2) := by
  cases hi : c.injectors.get? r.accept with
  | some f =>
    have e : lazyResolveWith rec c nx r = diResolveWith rec c nx r := by
      simp [lazyResolveWith, Cont.innerBinded, hi]
    rw [e]
    exact diResolve_ok hs c nx r h (by simp [hi])
  | none =>
    cases hd : c.definitions.get? r.accept with
    | none =>
      have e : lazyResolveWith rec c nx r = diResolveWith rec c nx r := by
        simp [lazyResolveWith, Cont.innerBinded, Cont.defined, symbolize, hi, hd]
      rw [e]
      exact diResolve_ok hs c nx r h (fun _ => absEnt_none_def hi hd)
    | some d =>
      unfold lazyResolveWith
      simp only [Cont.innerBinded, Cont.defined, symbolize, Dict.contains_eq, hi, hd, Option.isSome_none,
        Bool.not_false, Option.isSome_some, Bool.and_self, if_true]
      obtain ⟨hpn, hpe, hpo⟩ := bindProxy_ok c r.accept d hl hi hd
      cases himp : importable r.accept with
      | false =>
        rw [hpn himp]
        refine ⟨h, Mono.refl c, ?_⟩
        simp [sResolveWith, absC_ents, absEnt_lazy hi hl hd, himp]
      | true =>
      cases hld : d.load with
      | error e =>
        rw [hpe himp e hld]
        refine ⟨h, Mono.refl c, ?_⟩
        simp [sResolveWith, absC_ents, absEnt_lazy hi hl hd, hld, himp]
      | ok f =>
        rw [hpo himp f hld]
        simp only
        have hw1 : Cont.WF { c with injectors := c.injectors.set r.accept f } := by
          obtain ⟨h1, h2, h3⟩ := h
          constructor <;> grind [Dict.get?_set]
        have hm1 : Mono c { c with injectors := c.injectors.set r.accept f } :=
          ⟨rfl, fun s g hg => by
            simp only [Dict.get?_set]
            by_cases e : s = r.accept
            · subst e; rw [hi] at hg; cases hg
            · simpa [e] using hg⟩
        have hi1 : ({ c with injectors := c.injectors.set r.accept f } : Cont).injectors.get? r.accept = some f := by
          simp [Dict.get?_set]
        obtain ⟨hw, hm, he⟩ := diResolve_ok hs { c with injectors := c.injectors.set r.accept f } nx r hw1 (by simp [hi1])
        refine ⟨hw, hm1.trans hm, ?_⟩
        rw [← he]
        have hno : c.instances.get? r.accept = none := h.inst_inj _ hi
        rw [absC_setInj c r.accept f hno]
        simp only [sResolveWith, absC_ents, absEnt_lazy hi hl hd, hld, setEnt_ents, load_direct, if_true, himp,
          Bool.not_true, Bool.and_false, Bool.false_eq_true, if_false]

theorem resolveF_ok : ∀ fuel, Sim (resolveF fuel) (sResolveF fuel) := by
  intro fuel
  induction fuel with
  | zero => intro c nx r h; exact ⟨h, Mono.refl c, rfl⟩
  | succ n ih =>
    intro c nx r h
    simp only [resolveF, sResolveF]
    cases hl : c.lazy
    · simp only [Bool.false_eq_true, if_false]
      exact diResolve_ok ih c nx r h (fun hi => absEnt_none_di hi hl)
    · simp only [if_true]
      exact lazyResolve_ok ih c nx r h hl


/-! ### one method call on one container -/

theorem stepCont_ok (fuel : Nat) (c : Cont) (nx : Nat) (op : ContOp) (h : c.WF) :
    (stepCont fuel c nx op).1.WF ∧
    sStepCont fuel (absC c) nx op = (absC (stepCont fuel c nx op).1, (stepCont fuel c nx op).2) := by
  cases op with
  | bind r f =>
    obtain ⟨hw, he⟩ := bind_ok c h r f
    exact ⟨hw, by simp only [stepCont, sStepCont, he]⟩
  | rebind r f =>
    obtain ⟨hw, he⟩ := rebind_ok c h r f
    exact ⟨hw, by simp only [stepCont, sStepCont, he]⟩
  | unbind r =>
    obtain ⟨hw, he⟩ := unbind_ok c h r
    exact ⟨hw, by simp only [stepCont, sStepCont, he]⟩
  | resolve r =>
    obtain ⟨hw, _, he⟩ := resolveF_ok fuel c nx r h
    exact ⟨hw, by simp only [stepCont, sStepCont, he]⟩
  | can r => exact ⟨h, by simp only [stepCont, sStepCont, canResolve_abs c h]⟩
  | invoke f args =>
    obtain ⟨hw, _, he⟩ := invoke_ok (resolveF_ok fuel) c nx f args h
    exact ⟨hw, by simp only [stepCont, sStepCont, invokeF, sInvokeF, he]⟩

/-! ### the heap -/

def State.WF (σ : State) : Prop := ∀ c ∈ σ.conts, c.WF

theorem absC_empty : absC { lazy := false } = ⟨false, fun _ => none⟩ := by
  apply SCont.ext
  · rfl
  · funext s; simp [absC, absEnt]

theorem clone_ok (c : Cont) (h : c.WF) : c.clone.WF ∧ absC c.clone = absC c := by
  constructor
  · refine ⟨h.inst_inj, ?_, ?_⟩
    · intro hl s; simp only [Cont.clone] at hl ⊢; simp only [hl, if_true]; exact h.inj_def hl s
    · intro k a hk; simp [Cont.clone] at hk
  · apply SCont.ext
    · rfl
    · funext s
      simp only [absC, absEnt, Cont.clone]
      cases hl : c.lazy <;> simp

theorem instantiate_ok : ∀ (defs : List (Nat × Injector)) (c : Cont), c.lazy = true → c.injectors = {} → c.instances = {} →
    c.invocations = {} →
    match instantiate c defs, sInstantiate (absC c).ents defs with
    | .ok c', .ok m => c'.WF ∧ absC c' = ⟨true, m⟩
    | .error e, .error e' => e = e'
    | _, _ => False := by
  intro defs
  induction defs with
  | nil =>
    intro c hl hi hn hv
    simp only [instantiate, sInstantiate]
    refine ⟨⟨by simp [hn], by simp [hi], by simp [hv]⟩, ?_⟩
    apply SCont.ext
    · exact hl
    · rfl
  | cons kv rest ih =>
    obtain ⟨p, inj⟩ := kv
    intro c hl hi hn hv
    have hinj : c.injectors.get? p = none := by simp [hi]
    cases hd : c.definitions.get? p with
    | some d =>
      simp [instantiate, sInstantiate, Cont.register, Cont.defined, absC_ents, absEnt_lazy hinj hl hd, hd]
    | none =>
      simp only [instantiate, sInstantiate, Cont.register, Cont.defined, Dict.contains_eq, absC_ents, hd,
        absEnt_none_def hinj hd, Option.isSome_none, Bool.false_eq_true, if_false]
      have := ih { c with definitions := c.definitions.set p inj } hl hi hn hv
      have hents : (absC { c with definitions := c.definitions.set p inj }).ents
          = fset (absC c).ents p (some ⟨inj, true, none⟩) := by
        funext s
        simp only [absC, absEnt, fset, hi, hl, Dict.get?_set, Dict.get?_empty, if_true]
        by_cases e : s = p <;> simp [e]
      rw [hents] at this
      exact this

theorem combine_ok (a b : Cont) (ha : a.WF) (hb : b.WF) :
    match a.combine b, (absC a).combine (absC b) with
    | .ok c, .ok sc => c.WF ∧ absC c = sc
    | .error e, .error e' => e = e'
    | _, _ => False := by
  simp only [Cont.combine, SCont.combine]
  have hla : (absC a).isLazy = a.lazy := rfl
  have hlb : (absC b).isLazy = b.lazy := rfl
  rw [hla, hlb]
  cases hal : a.lazy <;> cases hbl : b.lazy <;> simp only [Bool.not_false, Bool.not_true, Bool.and_true, Bool.and_false,
    Bool.false_eq_true, if_true, if_false]
  · -- DI + DI
    obtain ⟨a1, a2, a3⟩ := ha
    obtain ⟨b1, b2, b3⟩ := hb
    refine ⟨?_, ?_⟩
    · refine ⟨?_, ?_, ?_⟩
      · intro s
        simp only [Cont.clone, Cont.binded, hbl, Dict.get?_merge, Dict.get?_filterKeys, Dict.contains_eq]
        grind
      · intro hl; simp [Cont.clone, hal] at hl
      · intro k x hk; simp [Cont.clone] at hk
    · apply SCont.ext
      · simp [absC, Cont.clone, hal]
      · funext s
        simp only [absC, absEnt, Cont.clone, Cont.binded, hal, hbl, preferRight, Dict.get?_merge, Dict.get?_filterKeys,
          Dict.contains_eq, Bool.false_eq_true, if_false]
        grind
  · -- LazyDI + LazyDI
    obtain ⟨a1, a2, a3⟩ := ha
    obtain ⟨b1, b2, b3⟩ := hb
    refine ⟨?_, ?_⟩
    · refine ⟨?_, ?_, ?_⟩
      · intro s
        simp only [Cont.clone, Cont.binded, Cont.defined, hbl, Dict.get?_merge, Dict.get?_filterKeys, Dict.contains_eq]
        grind
      · intro _ s
        simp only [Cont.clone, Cont.binded, Cont.defined, hal, hbl, Dict.get?_merge, Dict.get?_filterKeys, Dict.contains_eq]
        grind
      · intro k x hk; simp [Cont.clone] at hk
    · apply SCont.ext
      · simp [absC, Cont.clone, hal]
      · funext s
        simp only [absC, absEnt, Cont.clone, Cont.binded, Cont.defined, hal, hbl, preferRight, Dict.get?_merge,
          Dict.get?_filterKeys, Dict.contains_eq, if_true]
        grind

theorem State.WF.append {σ : State} (h : σ.WF) {c : Cont} (hc : c.WF) :
    State.WF { σ with conts := σ.conts ++ [c] } := by
  intro c' hm
  simp only [List.mem_append, List.mem_singleton] at hm
  rcases hm with hm | hm
  · exact h c' hm
  · subst hm; exact hc

theorem abs_append (σ : State) (c : Cont) :
    abs { σ with conts := σ.conts ++ [c] } = { abs σ with conts := (abs σ).conts ++ [absC c] } := by
  simp [abs]

theorem abs_length (σ : State) : (abs σ).conts.length = σ.conts.length := by simp [abs]

theorem abs_get (σ : State) (i : Nat) : (abs σ).conts[i]? = (σ.conts[i]?).map absC := by simp [abs]

theorem absC_emptyLazy_ents : (absC { lazy := true }).ents = fun _ => none := by
  funext s; simp [absC, absEnt]

theorem step_ok (fuel : Nat) (σ : State) (op : Op) (h : σ.WF) :
    (step fuel σ op).1.WF ∧ specStep fuel (abs σ) op = (abs (step fuel σ op).1, (step fuel σ op).2) := by
  cases op with
  | newDI =>
    simp only [step, specStep]
    refine ⟨h.append ⟨by simp, by simp, by simp⟩, ?_⟩
    rw [abs_append, abs_length, absC_empty]
  | newLazy defs =>
    simp only [step, specStep]
    have := instantiate_ok defs { lazy := true } rfl rfl rfl rfl
    rw [absC_emptyLazy_ents] at this
    cases h1 : instantiate { lazy := true } defs with
    | error e =>
      cases h2 : sInstantiate (fun _ => none) defs with
      | error e' => rw [h1, h2] at this; simp only at this; subst this; exact ⟨h, rfl⟩
      | ok m => rw [h1, h2] at this; exact absurd this id
    | ok c =>
      cases h2 : sInstantiate (fun _ => none) defs with
      | error e' => rw [h1, h2] at this; exact absurd this id
      | ok m =>
        rw [h1, h2] at this
        obtain ⟨hw, he⟩ := this
        refine ⟨h.append hw, ?_⟩
        simp only
        rw [abs_append, abs_length, he]
  | on i cop =>
    simp only [step, specStep, abs_get]
    cases hc : σ.conts[i]? with
    | none => exact ⟨h, rfl⟩
    | some c =>
      have hcw : c.WF := h c (List.mem_of_getElem? hc)
      obtain ⟨hw, he⟩ := stepCont_ok fuel c σ.next cop hcw
      simp only [Option.map_some]
      have hn : (abs σ).next = σ.next := rfl
      rw [hn, he]
      refine ⟨?_, ?_⟩
      · intro c' hm
        rcases List.mem_or_eq_of_mem_set hm with hm | hm
        · exact h c' hm
        · subst hm; exact hw
      · simp [abs, List.map_set]
  | clone i =>
    simp only [step, specStep, abs_get]
    cases hc : σ.conts[i]? with
    | none => exact ⟨h, rfl⟩
    | some c =>
      have hcw : c.WF := h c (List.mem_of_getElem? hc)
      obtain ⟨hw, he⟩ := clone_ok c hcw
      simp only [Option.map_some]
      refine ⟨h.append hw, ?_⟩
      rw [abs_append, abs_length, he]
  | combine i j =>
    simp only [step, specStep, abs_get]
    cases hi : σ.conts[i]? with
    | none => exact ⟨h, rfl⟩
    | some a =>
      cases hj : σ.conts[j]? with
      | none => exact ⟨h, rfl⟩
      | some b =>
        have haw : a.WF := h a (List.mem_of_getElem? hi)
        have hbw : b.WF := h b (List.mem_of_getElem? hj)
        have := combine_ok a b haw hbw
        simp only [Option.map_some]
        cases h1 : a.combine b with
        | error e =>
          cases h2 : (absC a).combine (absC b) with
          | error e' => rw [h1, h2] at this; simp only at this; subst this; exact ⟨h, rfl⟩
          | ok m => rw [h1, h2] at this; exact absurd this id
        | ok c =>
          cases h2 : (absC a).combine (absC b) with
          | error e' => rw [h1, h2] at this; exact absurd this id
          | ok m =>
            rw [h1, h2] at this
            obtain ⟨hw, he⟩ := this
            refine ⟨h.append hw, ?_⟩
            simp only
            rw [abs_append, abs_length, he]

theorem init_wf : State.init.WF := by intro c hc; cases hc

theorem abs_init : abs State.init = Spec.init := rfl

theorem run_ok (fuel : Nat) : ∀ (ops : List Op) (σ : State), σ.WF →
    (run fuel σ ops).1.WF ∧ specRun fuel (abs σ) ops = (abs (run fuel σ ops).1, (run fuel σ ops).2) := by
  intro ops
  induction ops with
  | nil => intro σ h; exact ⟨h, rfl⟩
  | cons op ops ih =>
    intro σ h
    obtain ⟨hw, he⟩ := step_ok fuel σ op h
    obtain ⟨hw2, he2⟩ := ih (step fuel σ op).1 hw
    exact ⟨hw2, by simp only [run, specRun, he, he2]⟩

/-- every state reached from the empty heap is well-formed -/
theorem reach_wf (fuel : Nat) (ops : List Op) : (run fuel State.init ops).1.WF :=
  (run_ok fuel ops State.init init_wf).1


/-! ### what resolution may change in the Spec -/

/-- how the entry of one symbol may evolve while the instance counter runs from `lo` to `hi` -/
structure Ev (lo hi : Nat) (e e' : SEntry) : Prop where
  mat : e.lazy = false → e'.lazy = false ∧ e'.inj.load = e.inj.load ∧
        (e'.inst = e.inst ∨ (e.inst = none ∧ ∃ o, e'.inst = some o ∧ lo ≤ o.id ∧ o.id < hi ∧ ∀ f, e.inj.load = .ok f → o.fid = f.fid))
  lzy : e.lazy = true → e' = e ∨ (e'.lazy = false ∧ e'.inj.load = e.inj.load ∧
        (e'.inst = none ∨ ∃ o, e'.inst = some o ∧ lo ≤ o.id ∧ o.id < hi ∧ ∀ f, e.inj.load = .ok f → o.fid = f.fid))

theorem Ev.refl (lo hi : Nat) (e : SEntry) : Ev lo hi e e := ⟨fun h => ⟨h, rfl, Or.inl rfl⟩, fun _ => Or.inl rfl⟩

theorem Ev.trans {lo mid hi : Nat} {e e' e'' : SEntry} (h1 : Ev lo mid e e') (h2 : Ev mid hi e' e'') (hlm : lo ≤ mid) (hmh : mid ≤ hi) :
    Ev lo hi e e'' := by
  obtain ⟨m1, l1⟩ := h1
  obtain ⟨m2, l2⟩ := h2
  constructor
  · intro hl
    obtain ⟨a1, a2, a3⟩ := m1 hl
    obtain ⟨b1, b2, b3⟩ := m2 a1
    refine ⟨b1, b2.trans a2, ?_⟩
    rcases a3 with a3 | ⟨a3, o, ho, h3, h4, h5⟩
    · rcases b3 with b3 | ⟨b3, o, ho, h3, h4, h5⟩
      · exact Or.inl (b3.trans a3)
      · exact Or.inr ⟨a3 ▸ b3, o, ho, by omega, h4, fun f hf => h5 f (a2 ▸ hf)⟩
    · rcases b3 with b3 | ⟨b3, _⟩
      · exact Or.inr ⟨a3, o, b3 ▸ ho, h3, by omega, h5⟩
      · rw [ho] at b3; cases b3
  · intro hl
    rcases l1 hl with a | ⟨a1, a2, a3⟩
    · subst a
      rcases l2 hl with b | ⟨b1, b2, b3⟩
      · exact Or.inl b
      · refine Or.inr ⟨b1, b2, ?_⟩
        rcases b3 with b3 | ⟨o, ho, h3, h4, h5⟩
        · exact Or.inl b3
        · exact Or.inr ⟨o, ho, by omega, h4, h5⟩
    · obtain ⟨b1, b2, b3⟩ := m2 a1
      refine Or.inr ⟨b1, b2.trans a2, ?_⟩
      rcases a3 with a3 | ⟨o, ho, h3, h4, h5⟩
      · rcases b3 with b3 | ⟨b3, o, ho, h3, h4, h5⟩
        · exact Or.inl (b3.trans a3)
        · exact Or.inr ⟨o, ho, by omega, h4, fun f hf => h5 f (a2 ▸ hf)⟩
      · rcases b3 with b3 | ⟨b3, _⟩
        · exact Or.inr ⟨o, b3 ▸ ho, h3, by omega, h5⟩
        · rw [ho] at b3; cases b3
/-- evolution of a whole container: class fixed, no symbol appears or disappears, entries evolve by `Ev` -/
structure CEv (lo hi : Nat) (c c' : SCont) : Prop where
  cls : c'.isLazy = c.isLazy
  none_ : ∀ s, c.ents s = none → c'.ents s = none
  some_ : ∀ s e, c.ents s = some e → ∃ e', c'.ents s = some e' ∧ Ev lo hi e e'

theorem CEv.refl (lo hi : Nat) (c : SCont) : CEv lo hi c c :=
  ⟨rfl, fun _ h => h, fun _ e h => ⟨e, h, Ev.refl lo hi e⟩⟩

theorem CEv.trans {lo mid hi : Nat} {c c' c'' : SCont} (h1 : CEv lo mid c c') (h2 : CEv mid hi c' c'')
    (hlm : lo ≤ mid) (hmh : mid ≤ hi) : CEv lo hi c c'' := by
  refine ⟨h2.cls.trans h1.cls, fun s h => h2.none_ s (h1.none_ s h), fun s e h => ?_⟩
  obtain ⟨e', he', ev1⟩ := h1.some_ s e h
  obtain ⟨e'', he'', ev2⟩ := h2.some_ s e' he'
  exact ⟨e'', he'', ev1.trans ev2 hlm hmh⟩

/-- what a resolver guarantees -/
def RecEv (rec : SCont → Nat → SymRef → SRes Obj) : Prop :=
  ∀ c nx r, nx ≤ (rec c nx r).2.1 ∧ CEv nx (rec c nx r).2.1 c (rec c nx r).1 ∧
    ∀ o, (rec c nx r).2.2 = .ok o → ∃ e', (rec c nx r).1.ents r.accept = some e' ∧ e'.lazy = false ∧ e'.inst = some o ∧
      ∃ f, e'.inj.load = .ok f

theorem sCurry_ev {rec : SCont → Nat → SymRef → SRes Obj} (hr : RecEv rec) :
    ∀ (annos : List SymRef) (c : SCont) (nx : Nat) (acc : List Obj),
      nx ≤ (sCurryWith rec c nx annos acc).2.1 ∧ CEv nx (sCurryWith rec c nx annos acc).2.1 c (sCurryWith rec c nx annos acc).1 := by
  intro annos
  induction annos with
  | nil => intro c nx acc; exact ⟨Nat.le_refl _, CEv.refl _ _ _⟩
  | cons a as ih =>
    intro c nx acc
    simp only [sCurryWith]
    by_cases hc : c.canResolve a = true
    · simp only [hc, if_true]
      obtain ⟨h1, h2, _⟩ := hr c nx a
      rcases hrec : rec c nx a with ⟨c', nx', res⟩
      rw [hrec] at h1 h2
      cases res with
      | error e => exact ⟨h1, h2⟩
      | ok o =>
        obtain ⟨h3, h4⟩ := ih c' nx' (acc ++ [o])
        exact ⟨Nat.le_trans h1 h3, h2.trans h4 h1 h3⟩
    · simp only [hc]
      exact ⟨Nat.le_refl _, CEv.refl _ _ _⟩

theorem call_ev (nx : Nat) (f : Factory) (curried : List Obj) (args : List Arg) :
    nx ≤ (call nx f curried args).1 ∧
    ∀ o, (call nx f curried args).2 = .ok o → nx ≤ o.id ∧ o.id < (call nx f curried args).1 ∧ o.fid = f.fid := by
  unfold call
  split
  · split
    · exact ⟨Nat.le_refl _, fun o ho => by cases ho⟩
    · refine ⟨Nat.le_succ _, ?_⟩
      intro o ho
      simp only [Except.ok.injEq] at ho
      subst ho
      exact ⟨Nat.le_refl _, Nat.lt_succ_self _, rfl⟩
  · exact ⟨Nat.le_refl _, fun o ho => by cases ho⟩

theorem sInvoke_ev {rec : SCont → Nat → SymRef → SRes Obj} (hr : RecEv rec) (c : SCont) (nx : Nat) (f : Factory) (args : List Arg) :
    nx ≤ (sInvokeFill rec c nx f args).2.1 ∧ CEv nx (sInvokeFill rec c nx f args).2.1 c (sInvokeFill rec c nx f args).1 ∧
    ∀ o, (sInvokeFill rec c nx f args).2.2 = .ok o →
      nx ≤ o.id ∧ o.id < (sInvokeFill rec c nx f args).2.1 ∧ o.fid = f.fid := by
  unfold sInvokeFill
  simp only
  obtain ⟨h1, h2⟩ := sCurry_ev hr (pluck f) c nx []
  rcases hcur : sCurryWith rec c nx (pluck f) [] with ⟨c2, nx2, res⟩
  rw [hcur] at h1 h2
  cases res with
  | error e => exact ⟨h1, h2, fun o ho => by cases ho⟩
  | ok curried =>
    simp only
    cases validateFill (pluck f) curried args with
    | error e => exact ⟨h1, h2, fun o ho => by cases ho⟩
    | ok u =>
      simp only
      obtain ⟨k1, k2⟩ := call_ev nx2 f curried args
      refine ⟨Nat.le_trans h1 k1, h2.trans (CEv.refl _ _ _) h1 k1, ?_⟩
      intro o ho
      obtain ⟨a, b, c⟩ := k2 o ho
      exact ⟨Nat.le_trans h1 a, b, c⟩

theorem CEv.setEnt_over {lo hi : Nat} {c c' : SCont} {s : Nat} {e e' : SEntry} (hc : CEv lo hi c c')
    (h : c.ents s = some e) (hev : Ev lo hi e e') : CEv lo hi c (c'.setEnt s (some e')) := by
  refine ⟨hc.cls, ?_, ?_⟩
  · intro s' hs'
    simp only [setEnt_ents]
    split
    · rename_i heq; subst heq; rw [h] at hs'; cases hs'
    · exact hc.none_ s' hs'
  · intro s' e0 hs'
    simp only [setEnt_ents]
    split
    · rename_i heq; subst heq; rw [h] at hs'; cases hs'; exact ⟨e', rfl, hev⟩
    · exact hc.some_ s' e0 hs'

theorem Ev.materialise {nx : Nat} {e : SEntry} {f : Factory} (hl : e.lazy = true) (hld : e.inj.load = .ok f) :
    Ev nx nx e ⟨.direct f, false, none⟩ :=
  ⟨fun h => (by rw [hl] at h; cases h), fun _ => Or.inr ⟨rfl, (by simp [hld]), Or.inl rfl⟩⟩

theorem Ev.instantiate {lo hi : Nat} {e : SEntry} {f : Factory} {o : Obj} (hl : e.lazy = false) (hin : e.inst = none)
    (hld : e.inj.load = .ok f) (h1 : lo ≤ o.id) (h2 : o.id < hi) (h3 : o.fid = f.fid) :
    Ev lo hi e ⟨.direct f, false, some o⟩ :=
  ⟨fun _ => ⟨rfl, (by simp [hld]), Or.inr ⟨hin, o, rfl, h1, h2, fun f' hf' => (by rw [hld] at hf'; cases hf'; exact h3)⟩⟩,
   fun h => (by rw [hl] at h; cases h)⟩

theorem sResolveWith_ev {rec : SCont → Nat → SymRef → SRes Obj} (hr : RecEv rec) : RecEv (sResolveWith rec) := by
  intro c nx r
  unfold sResolveWith
  simp only
  cases he : c.ents r.accept with
  | none => exact ⟨Nat.le_refl _, CEv.refl _ _ _, fun o ho => by cases ho⟩
  | some e =>
    simp only
    by_cases hni : (e.lazy && !importable r.accept) = true
    · simp only [hni, if_true]
      exact ⟨Nat.le_refl _, CEv.refl _ _ _, fun o ho => by cases ho⟩
    simp only [hni, Bool.false_eq_true, if_false]
    cases hld : e.inj.load with
    | error err => exact ⟨Nat.le_refl _, CEv.refl _ _ _, fun o ho => by cases ho⟩
    | ok f =>
      simp only
      generalize hc1 : (if e.lazy = true then c.setEnt r.accept (some ⟨.direct f, false, none⟩) else c) = c1
      generalize hi1 : (if e.lazy = true then none else e.inst) = inst1
      have hent1 : ∃ e1, c1.ents r.accept = some e1 ∧ e1.lazy = false ∧ e1.inj.load = .ok f ∧ e1.inst = inst1 ∧ Ev nx nx e e1 := by
        subst hc1 hi1
        by_cases hl : e.lazy = true
        · simp only [hl, if_true, setEnt_ents]
          exact ⟨_, rfl, rfl, rfl, rfl, Ev.materialise hl hld⟩
        · simp only [hl]
          exact ⟨e, he, by simpa using hl, hld, rfl, Ev.refl _ _ _⟩
      have hcc1 : CEv nx nx c c1 := by
        subst hc1
        by_cases hl : e.lazy = true
        · simp only [hl, if_true]
          exact (CEv.refl nx nx c).setEnt_over he (Ev.materialise hl hld)
        · simp only [hl]; exact CEv.refl _ _ _
      obtain ⟨e1, h1a, h1b, h1c, h1d, h1e⟩ := hent1
      cases inst1 with
      | some o =>
        exact ⟨Nat.le_refl _, hcc1, fun o' ho' => by
          simp only [Except.ok.injEq] at ho'; subst ho'; exact ⟨e1, h1a, h1b, h1d, f, h1c⟩⟩
      | none =>
        simp only
        obtain ⟨k1, k2, k3⟩ := sInvoke_ev hr c1 nx f []
        rcases hinv : sInvokeFill rec c1 nx f [] with ⟨c', nx', res⟩
        rw [hinv] at k1 k2 k3
        cases res with
        | error err => exact ⟨k1, hcc1.trans k2 (Nat.le_refl _) k1, fun o ho => by cases ho⟩
        | ok o =>
          obtain ⟨o1, o2, o3⟩ := k3 o rfl
          refine ⟨k1, ?_, fun o' ho' => ?_⟩
          · have hev : Ev nx nx' e ⟨.direct f, false, some o⟩ :=
              h1e.trans (Ev.instantiate h1b h1d h1c o1 o2 o3) (Nat.le_refl _) k1
            exact (hcc1.trans k2 (Nat.le_refl _) k1).setEnt_over he hev
          · simp only [Except.ok.injEq] at ho'; subst ho'
            exact ⟨⟨.direct f, false, some o⟩, by simp [setEnt_ents], rfl, rfl, f, rfl⟩

theorem sResolveF_ev : ∀ fuel, RecEv (sResolveF fuel) := by
  intro fuel
  induction fuel with
  | zero => intro c nx r; exact ⟨Nat.le_refl _, CEv.refl _ _ _, fun o ho => by cases ho⟩
  | succ n ih => exact sResolveWith_ev ih

/-! ### evolution of one entry along Spec runs -/

theorem sStepCont_ev (fuel : Nat) (sc : SCont) (nx : Nat) (op : ContOp) (s : Nat) (e : SEntry)
    (hne : ∀ c, touches c s (.on c op) = false) (he : sc.ents s = some e) :
    nx ≤ (sStepCont fuel sc nx op).2.1 ∧
    ∃ e', (sStepCont fuel sc nx op).1.ents s = some e' ∧ Ev nx (sStepCont fuel sc nx op).2.1 e e' := by
  cases op with
  | bind r f =>
    have hr : ¬ r.accept = s := by simpa [touches] using hne 0
    have hr' : ¬ s = r.accept := fun h => hr h.symm
    refine ⟨Nat.le_refl _, e, ?_, Ev.refl _ _ _⟩
    simp only [sStepCont, SCont.bind]
    split
    · split <;> simp [setEnt_ents, hr', he]
    · simp [setEnt_ents, hr', he]
  | rebind r f =>
    have hr : ¬ r.accept = s := by simpa [touches] using hne 0
    have hr' : ¬ s = r.accept := fun h => hr h.symm
    exact ⟨Nat.le_refl _, e, by simp [sStepCont, SCont.rebind, setEnt_ents, hr', he], Ev.refl _ _ _⟩
  | unbind r =>
    have hr : ¬ r.accept = s := by simpa [touches] using hne 0
    have hr' : ¬ s = r.accept := fun h => hr h.symm
    refine ⟨Nat.le_refl _, e, ?_, Ev.refl _ _ _⟩
    simp only [sStepCont, SCont.unbind]
    split <;> simp [setEnt_ents, hr', he]
  | resolve r =>
    obtain ⟨h1, h2, _⟩ := sResolveF_ev fuel sc nx r
    exact ⟨h1, h2.some_ s e he⟩
  | can r => exact ⟨Nat.le_refl _, e, he, Ev.refl _ _ _⟩
  | invoke f args =>
    obtain ⟨h1, h2, _⟩ := sInvoke_ev (sResolveF_ev fuel) sc nx f args
    exact ⟨h1, h2.some_ s e he⟩

theorem sStepCont_next_le (fuel : Nat) (sc : SCont) (nx : Nat) (op : ContOp) : nx ≤ (sStepCont fuel sc nx op).2.1 := by
  cases op with
  | bind r f => exact Nat.le_refl _
  | rebind r f => exact Nat.le_refl _
  | unbind r => exact Nat.le_refl _
  | resolve r => exact (sResolveF_ev fuel sc nx r).1
  | can r => exact Nat.le_refl _
  | invoke f args => exact (sInvoke_ev (sResolveF_ev fuel) sc nx f args).1

theorem look_append (σ : Spec) (sc : SCont) (c s : Nat) (e : SEntry) (h : look σ c s = some e) :
    look { σ with conts := σ.conts ++ [sc] } c s = some e := by
  unfold look at h ⊢
  cases hc : σ.conts[c]? with
  | none => simp [hc] at h
  | some x =>
    have hlt : c < σ.conts.length := by
      rcases Nat.lt_or_ge c σ.conts.length with h' | h'
      · exact h'
      · rw [List.getElem?_eq_none h'] at hc; cases hc
    simp only [List.getElem?_append_left hlt, hc]
    simpa [hc] using h

/-- an op that is not a bind / rebind / unbind of `(c, s)` lets the entry of `(c, s)` evolve by `Ev` only -/
theorem specStep_ev (fuel : Nat) (σ : Spec) (op : Op) (c s : Nat) (e : SEntry)
    (hne : touches c s op = false) (he : look σ c s = some e) :
    σ.next ≤ (specStep fuel σ op).1.next ∧
    ∃ e', look (specStep fuel σ op).1 c s = some e' ∧ Ev σ.next (specStep fuel σ op).1.next e e' := by
  cases op with
  | newDI => exact ⟨Nat.le_refl _, e, look_append σ _ c s e he, Ev.refl _ _ _⟩
  | newLazy defs =>
    simp only [specStep]
    split
    · exact ⟨Nat.le_refl _, e, he, Ev.refl _ _ _⟩
    · exact ⟨Nat.le_refl _, e, look_append σ _ c s e he, Ev.refl _ _ _⟩
  | clone i =>
    simp only [specStep]
    split
    · exact ⟨Nat.le_refl _, e, he, Ev.refl _ _ _⟩
    · exact ⟨Nat.le_refl _, e, look_append σ _ c s e he, Ev.refl _ _ _⟩
  | combine i j =>
    simp only [specStep]
    split
    · split
      · exact ⟨Nat.le_refl _, e, he, Ev.refl _ _ _⟩
      · exact ⟨Nat.le_refl _, e, look_append σ _ c s e he, Ev.refl _ _ _⟩
    · exact ⟨Nat.le_refl _, e, he, Ev.refl _ _ _⟩
  | on i cop =>
    simp only [specStep]
    cases hi : σ.conts[i]? with
    | none => exact ⟨Nat.le_refl _, e, he, Ev.refl _ _ _⟩
    | some sc =>
      simp only
      by_cases hic : i = c
      · subst hic
        have hsc : sc.ents s = some e := by simpa [look, hi] using he
        have hne' : ∀ c', touches c' s (.on c' cop) = false := by
          intro c'
          cases cop <;> simp_all [touches]
        obtain ⟨h1, e', h2, h3⟩ := sStepCont_ev fuel sc σ.next cop s e hne' hsc
        refine ⟨h1, e', ?_, h3⟩
        have hlt : i < σ.conts.length := by
          rcases Nat.lt_or_ge i σ.conts.length with h' | h'
          · exact h'
          · rw [List.getElem?_eq_none h'] at hi; cases hi
        simp [look, hlt, h2]
      · refine ⟨sStepCont_next_le fuel sc σ.next cop, e, ?_, Ev.refl _ _ _⟩
        simpa [look, List.getElem?_set, hic] using he

theorem specStep_next_le (fuel : Nat) (σ : Spec) (op : Op) : σ.next ≤ (specStep fuel σ op).1.next := by
  cases op with
  | newDI => exact Nat.le_refl _
  | newLazy defs => simp only [specStep]; split <;> exact Nat.le_refl _
  | clone i => simp only [specStep]; split <;> exact Nat.le_refl _
  | combine i j => simp only [specStep]; split <;> (try split) <;> exact Nat.le_refl _
  | on i cop =>
    simp only [specStep]
    split
    · exact Nat.le_refl _
    · exact sStepCont_next_le _ _ _ _

theorem specRun_ev (fuel : Nat) : ∀ (ops : List Op) (σ : Spec) (c s : Nat) (e : SEntry),
    (∀ op ∈ ops, touches c s op = false) → look σ c s = some e →
    σ.next ≤ (specRun fuel σ ops).1.next ∧
    ∃ e', look (specRun fuel σ ops).1 c s = some e' ∧ Ev σ.next (specRun fuel σ ops).1.next e e' := by
  intro ops
  induction ops with
  | nil => intro σ c s e _ he; exact ⟨Nat.le_refl _, e, he, Ev.refl _ _ _⟩
  | cons op ops ih =>
    intro σ c s e hne he
    obtain ⟨h1, e1, h2, h3⟩ := specStep_ev fuel σ op c s e (hne op (by simp)) he
    obtain ⟨k1, e2, k2, k3⟩ := ih (specStep fuel σ op).1 c s e1 (fun op' hop' => hne op' (by simp [hop'])) h2
    simp only [specRun]
    exact ⟨Nat.le_trans h1 k1, e2, k2, h3.trans k3 h1 k1⟩

/-! ### bridging lemmas: concrete runs in terms of Spec runs -/

theorem step_wf {fuel : Nat} {σ : State} (h : σ.WF) (op : Op) : (step fuel σ op).1.WF := (step_ok fuel σ op h).1
theorem step_abs {fuel : Nat} {σ : State} (h : σ.WF) (op : Op) : abs (step fuel σ op).1 = (specStep fuel (abs σ) op).1 := by
  rw [(step_ok fuel σ op h).2]
theorem step_out {fuel : Nat} {σ : State} (h : σ.WF) (op : Op) : (step fuel σ op).2 = (specStep fuel (abs σ) op).2 := by
  rw [(step_ok fuel σ op h).2]
theorem run_wf {fuel : Nat} {σ : State} (h : σ.WF) (ops : List Op) : (run fuel σ ops).1.WF := (run_ok fuel ops σ h).1
theorem run_abs {fuel : Nat} {σ : State} (h : σ.WF) (ops : List Op) : abs (run fuel σ ops).1 = (specRun fuel (abs σ) ops).1 := by
  rw [(run_ok fuel ops σ h).2]
theorem run_out {fuel : Nat} {σ : State} (h : σ.WF) (ops : List Op) : (run fuel σ ops).2 = (specRun fuel (abs σ) ops).2 := by
  rw [(run_ok fuel ops σ h).2]

/-! ### resolve on the Spec -/

theorem specStep_resolve_out (fuel : Nat) (σ : Spec) (c : Nat) (r : SymRef) (o : Obj)
    (h : (specStep fuel σ (.on c (.resolve r))).2 = .obj o) :
    ∃ e', look (specStep fuel σ (.on c (.resolve r))).1 c r.accept = some e' ∧ e'.lazy = false ∧ e'.inst = some o ∧
      ∃ f, e'.inj.load = .ok f := by
  simp only [specStep] at h ⊢
  cases hc : σ.conts[c]? with
  | none => simp [hc] at h
  | some sc =>
    simp only [hc, sStepCont] at h ⊢
    obtain ⟨_, _, h3⟩ := sResolveF_ev fuel sc σ.next r
    rcases hres : sResolveF fuel sc σ.next r with ⟨sc', nx', res⟩
    rw [hres] at h h3
    cases res with
    | error e => simp [outObj] at h
    | ok o' =>
      simp only [outObj, Out.obj.injEq] at h
      subst h
      obtain ⟨e', k1, k2⟩ := h3 o' rfl
      have hlt : c < σ.conts.length := by
        rcases Nat.lt_or_ge c σ.conts.length with h' | h'
        · exact h'
        · rw [List.getElem?_eq_none h'] at hc; cases hc
      exact ⟨e', (by simp [look, hlt]; exact k1), k2⟩

theorem specStep_resolve_inst (fuel : Nat) (σ : Spec) (c : Nat) (r : SymRef) (e : SEntry) (o : Obj) (f : Factory)
    (he : look σ c r.accept = some e) (hl : e.lazy = false) (hi : e.inst = some o) (hf : e.inj.load = .ok f) :
    (specStep (fuel + 1) σ (.on c (.resolve r))).2 = .obj o := by
  simp only [specStep]
  cases hc : σ.conts[c]? with
  | none => simp [look, hc] at he
  | some sc =>
    have hsc : sc.ents r.accept = some e := by simpa [look, hc] using he
    simp [sStepCont, sResolveF, sResolveWith, hsc, hf, hl, hi, outObj]

theorem specStep_resolve_fuel (σ : Spec) (c : Nat) (r : SymRef) (o : Obj) :
    (specStep 0 σ (.on c (.resolve r))).2 ≠ .obj o := by
  simp only [specStep]
  cases σ.conts[c]? <;> simp [sStepCont, sResolveF, outObj]

/-- Spec form of `C19.singleton` -/
theorem spec_singleton (fuel : Nat) (σ : Spec) (mid : List Op) (c : Nat) (r r' : SymRef) (o : Obj)
    (hr : r'.accept = r.accept) (hmid : ∀ op ∈ mid, touches c r.accept op = false)
    (h1 : (specStep fuel σ (.on c (.resolve r))).2 = .obj o) :
    (specStep fuel (specRun fuel (specStep fuel σ (.on c (.resolve r))).1 mid).1 (.on c (.resolve r'))).2 = .obj o := by
  cases fuel with
  | zero => exact absurd h1 (specStep_resolve_fuel σ c r o)
  | succ n =>
    obtain ⟨e', k1, k2, k3, f, k4⟩ := specStep_resolve_out _ σ c r o h1
    obtain ⟨_, e'', m1, m2⟩ := specRun_ev (n + 1) mid _ c r.accept e' hmid k1
    obtain ⟨a1, a2, a3⟩ := m2.mat k2
    have hinst : e''.inst = some o := by
      rcases a3 with a3 | ⟨a3, _⟩
      · rw [a3, k3]
      · rw [k3] at a3; cases a3
    exact specStep_resolve_inst n _ c r' e'' o f (by rw [hr]; exact m1) a1 hinst (by rw [a2, k4])

theorem look_set_self (σ : Spec) (c : Nat) (sc sc' : SCont) (nx : Nat) (s : Nat) (hc : σ.conts[c]? = some sc) :
    look { conts := σ.conts.set c sc', next := nx } c s = sc'.ents s := by
  have hlt : c < σ.conts.length := by
    rcases Nat.lt_or_ge c σ.conts.length with h' | h'
    · exact h'
    · rw [List.getElem?_eq_none h'] at hc; cases hc
  simp [look, hlt]

/-- Spec form of `C19.rebind_fresh` -/
theorem spec_rebind_fresh (fuel : Nat) (σ : Spec) (mid : List Op) (c : Nat) (r r' : SymRef) (f : Factory) (o : Obj)
    (hr : r'.accept = r.accept) (hmid : ∀ op ∈ mid, touches c r.accept op = false)
    (h0 : (specStep fuel σ (.on c (.rebind r f))).2 = .ok)
    (h : (specStep fuel (specRun fuel (specStep fuel σ (.on c (.rebind r f))).1 mid).1 (.on c (.resolve r'))).2 = .obj o) :
    σ.next ≤ o.id ∧ o.fid = f.fid := by
  cases hc : σ.conts[c]? with
  | none => simp [specStep, hc] at h0
  | some sc =>
    -- after the rebind the entry is (f, no instance)
    have hl0 : look (specStep fuel σ (.on c (.rebind r f))).1 c r.accept = some ⟨.direct f, false, none⟩ := by
      simp only [specStep, hc, sStepCont, SCont.rebind]
      rw [look_set_self σ c sc _ _ _ hc]
      simp [setEnt_ents]
    have hn0 : (specStep fuel σ (.on c (.rebind r f))).1.next = σ.next := by
      simp [specStep, hc, sStepCont, SCont.rebind]
    -- it evolves through `mid` and the final resolve
    obtain ⟨_, e1, m1, m2⟩ := specRun_ev fuel mid _ c r.accept _ hmid hl0
    obtain ⟨e2, k1, k2, k3, _⟩ := specStep_resolve_out fuel _ c r' o h
    obtain ⟨n2, e2', k4, k5⟩ := specStep_ev fuel _ (.on c (.resolve r')) c r.accept e1 rfl m1
    rw [hr] at k1
    rw [k1] at k4; cases k4
    have hev := m2.trans k5 (by assumption) n2
    obtain ⟨_, _, a3⟩ := hev.mat rfl
    rcases a3 with a3 | ⟨_, o', ho', b1, _, b3⟩
    · rw [k3] at a3; cases a3
    · rw [k3] at ho'; cases ho'
      rw [hn0] at b1
      exact ⟨b1, b3 f rfl⟩


theorem load_mem_facs {inj : Injector} {f : Factory} (h : inj.load = .ok f) : f ∈ inj.facs := by
  cases inj <;> simp_all [Injector.load, Injector.facs]

/-! ### frame, combine, unknown symbols, the invoke law on the heap -/

theorem step_frame (fuel : Nat) (σ : State) (op : Op) (j : Nat) (hj : j < σ.conts.length) (ht : op.target ≠ some j) :
    (step fuel σ op).1.conts[j]? = σ.conts[j]? := by
  cases op with
  | newDI => simp [step, List.getElem?_append_left hj]
  | newLazy defs => simp only [step]; split <;> simp [List.getElem?_append_left hj]
  | clone i => simp only [step]; split <;> simp [List.getElem?_append_left hj]
  | combine a b =>
    simp only [step]
    split
    · split <;> simp [List.getElem?_append_left hj]
    · rfl
  | on i cop =>
    have hij : i ≠ j := fun h => ht (by simp [Op.target, h])
    simp only [step]
    split
    · rfl
    · simp [hij]

theorem look_frame (fuel : Nat) (σ : Spec) (i c : Nat) (cop : ContOp) (s : Nat) (hic : i ≠ c) :
    look (specStep fuel σ (.on i cop)).1 c s = look σ c s := by
  simp only [specStep]
  split
  · rfl
  · simp [look, hic]

theorem look_new (σ : Spec) (sc : SCont) (s : Nat) :
    look { σ with conts := σ.conts ++ [sc] } σ.conts.length s = sc.ents s := by
  simp [look]

theorem specStep_combine_look (fuel : Nat) (σ : Spec) (a b k : Nat)
    (h : (specStep fuel σ (.combine a b)).2 = .cont k) :
    ∃ sa sb, σ.conts[a]? = some sa ∧ σ.conts[b]? = some sb ∧
      ∀ s, look (specStep fuel σ (.combine a b)).1 k s = preferRight (sa.ents s) (sb.ents s) := by
  simp only [specStep] at h ⊢
  cases ha : σ.conts[a]? with
  | none => simp [ha] at h
  | some sa =>
    cases hb : σ.conts[b]? with
    | none => simp [ha, hb] at h
    | some sb =>
      simp only [ha, hb] at h ⊢
      cases hc : sa.combine sb with
      | error e => simp [hc] at h
      | ok sc =>
        simp only [hc, Out.cont.injEq] at h ⊢
        subst h
        refine ⟨sa, sb, rfl, rfl, fun s => ?_⟩
        rw [look_new]
        unfold SCont.combine at hc
        split at hc
        · cases hc
        · split at hc
          · cases hc
          · simp only [Except.ok.injEq] at hc; subst hc; rfl

theorem list_set_self {α : Type} (l : List α) (i : Nat) (x : α) (h : l[i]? = some x) : l.set i x = l := by
  apply List.ext_getElem?
  intro j
  by_cases hij : i = j
  · subst hij
    have hlt : i < l.length := by
      rcases Nat.lt_or_ge i l.length with h' | h'
      · exact h'
      · rw [List.getElem?_eq_none h'] at h; cases h
    rw [List.getElem?_eq_getElem hlt] at h
    simp only [Option.some.injEq] at h
    simp [hlt, h]
  · simp [hij]

theorem resolve_unknown (fuel : Nat) (k : Cont) (h : k.WF) (nx : Nat) (r : SymRef) (hc : k.canResolve r = false) :
    resolveF (fuel + 1) k nx r = (k, nx, .error .valueError) := by
  simp only [resolveF]
  cases hl : k.lazy
  · simp only [Cont.canResolve, hl, Bool.false_eq_true, if_false, Cont.innerBinded, Dict.contains_eq] at hc
    have hi : k.injectors.get? r.accept = none := by simpa using hc
    simp [diResolveWith, hi]
  · simp only [Cont.canResolve, hl, if_true, Cont.defined, symbolize, Dict.contains_eq] at hc
    have hd : k.definitions.get? r.accept = none := by simpa using hc
    have hi := h.inj_def hl _ hd
    simp [lazyResolveWith, Cont.innerBinded, Cont.defined, symbolize, hd, hi, diResolveWith]

theorem outObj_ne_err (res : Except Err Obj) (e : Err) : outObj res ≠ .err e ↔ res ≠ .error e := by
  cases res <;> simp [outObj]

/-- on the Spec an `invoke` op *is* the invoke law -/
theorem spec_invoke_fill (fuel : Nat) (σ : Spec) (c : Nat) (f : Factory) (args : List Arg) :
    specStep fuel σ (.on c (.invoke f args)) = fillStep fuel σ c f args := by
  simp only [specStep, fillStep]
  cases σ.conts[c]? with
  | none => rfl
  | some sc => rfl

theorem look_lt {σ : Spec} {c s : Nat} {e : SEntry} (h : look σ c s = some e) : c < σ.conts.length := by
  rcases Nat.lt_or_ge c σ.conts.length with h' | h'
  · exact h'
  · simp [look, List.getElem?_eq_none h'] at h

/-- Spec form of `C19.lazy_materialise` -/
theorem spec_lazy_materialise (fuel : Nat) (σ : Spec) (c : Nat) (r : SymRef) (e : SEntry) (o1 o2 : Obj)
    (he : look σ c r.accept = some e) (hl : e.lazy = true)
    (h1 : (specStep fuel (specStep fuel σ (.clone c)).1 (.on σ.conts.length (.resolve r))).2 = .obj o1) :
    look (specStep fuel (specStep fuel σ (.clone c)).1 (.on σ.conts.length (.resolve r))).1 c r.accept = some e ∧
    ((specStep fuel (specStep fuel (specStep fuel σ (.clone c)).1 (.on σ.conts.length (.resolve r))).1 (.on c (.resolve r))).2
        = .obj o2 → o1.id < o2.id) := by
  have hlt := look_lt he
  have hck : σ.conts.length ≠ c := by omega
  -- the clone
  obtain ⟨sc, hsc⟩ : ∃ sc, σ.conts[c]? = some sc := ⟨σ.conts[c], List.getElem?_eq_getElem hlt⟩
  have hsce : sc.ents r.accept = some e := by simpa [look, hsc] using he
  have e1 : (specStep fuel σ (.clone c)).1 = { σ with conts := σ.conts ++ [sc] } := by simp [specStep, hsc]
  rw [e1] at h1 ⊢
  have hl1 : look { σ with conts := σ.conts ++ [sc] } c r.accept = some e := look_append σ _ c _ e he
  have hk1 : look { σ with conts := σ.conts ++ [sc] } σ.conts.length r.accept = some e := by
    rw [look_new]; exact hsce
  refine ⟨by rw [look_frame _ _ _ _ _ _ hck]; exact hl1, fun h2 => ?_⟩
  -- the instance made in the clone
  obtain ⟨e1', a1, a2, a3, _⟩ := specStep_resolve_out fuel _ _ r o1 h1
  obtain ⟨_, e1'', b1, b2⟩ := specStep_ev fuel _ (.on σ.conts.length (.resolve r)) σ.conts.length r.accept e rfl hk1
  rw [a1] at b1; cases b1
  have ho1 : o1.id < (specStep fuel { σ with conts := σ.conts ++ [sc] } (.on σ.conts.length (.resolve r))).1.next := by
    rcases b2.lzy hl with h' | ⟨_, _, h'⟩
    · rw [h'] at a2; rw [hl] at a2; cases a2
    · rcases h' with h' | ⟨o, ho, _, hhi, _⟩
      · rw [a3] at h'; cases h'
      · rw [a3] at ho; cases ho; exact hhi
  -- the instance made in the original afterwards
  have hl2 : look (specStep fuel { σ with conts := σ.conts ++ [sc] } (.on σ.conts.length (.resolve r))).1 c r.accept = some e := by
    rw [look_frame _ _ _ _ _ _ hck]; exact hl1
  obtain ⟨e2', c1, c2, c3, _⟩ := specStep_resolve_out fuel _ _ r o2 h2
  obtain ⟨_, e2'', d1, d2⟩ := specStep_ev fuel _ (.on c (.resolve r)) c r.accept e rfl hl2
  rw [c1] at d1; cases d1
  rcases d2.lzy hl with h' | ⟨_, _, h'⟩
  · rw [h'] at c2; rw [hl] at c2; cases c2
  · rcases h' with h' | ⟨o, ho, hlo, _, _⟩
    · rw [c3] at h'; cases h'
    · rw [c3] at ho; cases ho; omega

/-! ### a predicate on bindings along runs; ranks and fuel -/

/-- every binding `symbol ↦ factory` of the container satisfies `P` -/
def EntsP (P : Nat → Factory → Prop) (c : SCont) : Prop :=
  ∀ s e f, c.ents s = some e → e.inj.load = .ok f → P s f

def RecEntsP (P : Nat → Factory → Prop) (rec : SCont → Nat → SymRef → SRes Obj) : Prop :=
  ∀ c nx r, EntsP P c → EntsP P (rec c nx r).1

theorem EntsP.setEnt {P : Nat → Factory → Prop} {c : SCont} (h : EntsP P c) (s : Nat) (e : SEntry)
    (he : ∀ f, e.inj.load = .ok f → P s f) : EntsP P (c.setEnt s (some e)) := by
  intro s' e' f hs' hl
  simp only [setEnt_ents] at hs'
  split at hs'
  · rename_i heq; subst heq; cases hs'; exact he f hl
  · exact h s' e' f hs' hl

theorem EntsP.delEnt {P : Nat → Factory → Prop} {c : SCont} (h : EntsP P c) (s : Nat) : EntsP P (c.setEnt s none) := by
  intro s' e' f hs' hl
  simp only [setEnt_ents] at hs'
  split at hs'
  · cases hs'
  · exact h s' e' f hs' hl

theorem sCurry_entsP {P : Nat → Factory → Prop} {rec : SCont → Nat → SymRef → SRes Obj} (hr : RecEntsP P rec) :
    ∀ (annos : List SymRef) (c : SCont) (nx : Nat) (acc : List Obj), EntsP P c → EntsP P (sCurryWith rec c nx annos acc).1 := by
  intro annos
  induction annos with
  | nil => intro c nx acc h; exact h
  | cons a as ih =>
    intro c nx acc h
    simp only [sCurryWith]
    by_cases hc : c.canResolve a = true
    · simp only [hc, if_true]
      have h1 := hr c nx a h
      rcases hrec : rec c nx a with ⟨c', nx', res⟩
      rw [hrec] at h1
      cases res with
      | error e => exact h1
      | ok o => exact ih c' nx' _ h1
    · simp only [hc]; exact h

theorem sInvoke_entsP {P : Nat → Factory → Prop} {rec : SCont → Nat → SymRef → SRes Obj} (hr : RecEntsP P rec)
    (c : SCont) (nx : Nat) (f : Factory) (args : List Arg) (h : EntsP P c) : EntsP P (sInvokeFill rec c nx f args).1 := by
  unfold sInvokeFill
  simp only
  have h2 := sCurry_entsP hr (pluck f) c nx [] h
  rcases hcur : sCurryWith rec c nx (pluck f) [] with ⟨c2, nx2, res⟩
  rw [hcur] at h2
  cases res with
  | error e => exact h2
  | ok curried =>
    simp only
    cases validateFill (pluck f) curried args with
    | error e => exact h2
    | ok u => exact h2

theorem sResolveWith_entsP {P : Nat → Factory → Prop} {rec : SCont → Nat → SymRef → SRes Obj} (hr : RecEntsP P rec) :
    RecEntsP P (sResolveWith rec) := by
  intro c nx r h
  unfold sResolveWith
  simp only
  cases he : c.ents r.accept with
  | none => exact h
  | some e =>
    simp only
    by_cases hni : (e.lazy && !importable r.accept) = true
    · simp only [hni, if_true]
      exact h
    simp only [hni, Bool.false_eq_true, if_false]
    cases hld : e.inj.load with
    | error err => exact h
    | ok f =>
      simp only
      have hP : P r.accept f := h _ e f he hld
      have hdir : ∀ (i : Option Obj) g, (SEntry.mk (.direct f) false i).inj.load = .ok g → P r.accept g := by
        intro i g hg; simp at hg; subst hg; exact hP
      have h1 : EntsP P (if e.lazy = true then c.setEnt r.accept (some ⟨.direct f, false, none⟩) else c) := by
        split
        · exact h.setEnt _ _ (hdir none)
        · exact h
      cases (if e.lazy = true then none else e.inst) with
      | some o => exact h1
      | none =>
        simp only
        have h2 := sInvoke_entsP hr _ nx f [] h1
        rcases hinv : sInvokeFill rec (if e.lazy = true then c.setEnt r.accept (some ⟨.direct f, false, none⟩) else c) nx f [] with ⟨c', nx', res⟩
        rw [hinv] at h2
        cases res with
        | error err => exact h2
        | ok o => exact EntsP.setEnt h2 _ _ (hdir (some o))

theorem sResolveF_entsP (P : Nat → Factory → Prop) : ∀ fuel, RecEntsP P (sResolveF fuel) := by
  intro fuel
  induction fuel with
  | zero => intro c nx r h; exact h
  | succ n ih => exact sResolveWith_entsP ih

/-- the bindings an op makes satisfy `P` -/
def Op.BindsP (P : Nat → Factory → Prop) : Op → Prop
  | .on _ (.bind r f) => P r.accept f
  | .on _ (.rebind r f) => P r.accept f
  | .newLazy defs => ∀ kv ∈ defs, ∀ f ∈ kv.2.facs, P kv.1 f
  | _ => True

theorem sInstantiate_entsP {P : Nat → Factory → Prop} : ∀ (defs : List (Nat × Injector)) (m m' : Nat → Option SEntry),
    (∀ kv ∈ defs, ∀ f ∈ kv.2.facs, P kv.1 f) →
    (∀ s e f, m s = some e → e.inj.load = .ok f → P s f) → sInstantiate m defs = .ok m' →
    ∀ s e f, m' s = some e → e.inj.load = .ok f → P s f := by
  intro defs
  induction defs with
  | nil => intro m m' _ hm h; simp only [sInstantiate, Except.ok.injEq] at h; subst h; exact hm
  | cons kv rest ih =>
    obtain ⟨p, inj⟩ := kv
    intro m m' hd hm h
    simp only [sInstantiate] at h
    split at h
    · cases h
    · refine ih _ m' (fun kv hkv => hd kv (by simp [hkv])) ?_ h
      intro s e f hs hl
      simp only [fset] at hs
      split at hs
      · rename_i heq; subst heq; cases hs
        exact hd (s, inj) (by simp) f (load_mem_facs hl)
      · exact hm s e f hs hl

def SEntsP (P : Nat → Factory → Prop) (σ : Spec) : Prop := ∀ sc ∈ σ.conts, EntsP P sc

theorem SEntsP.append {P : Nat → Factory → Prop} {σ : Spec} (h : SEntsP P σ) {sc : SCont} (hc : EntsP P sc) :
    SEntsP P { σ with conts := σ.conts ++ [sc] } := by
  intro c' hm
  simp only [List.mem_append, List.mem_singleton] at hm
  rcases hm with hm | hm
  · exact h c' hm
  · subst hm; exact hc

theorem specStep_entsP {P : Nat → Factory → Prop} (fuel : Nat) (σ : Spec) (op : Op)
    (hop : op.BindsP P) (h : SEntsP P σ) : SEntsP P (specStep fuel σ op).1 := by
  cases op with
  | newDI => exact h.append (fun s e f hs => by cases hs)
  | newLazy defs =>
    simp only [specStep]
    cases hi : sInstantiate (fun _ => none) defs with
    | error e => exact h
    | ok m => exact h.append (sInstantiate_entsP defs _ m hop (fun s e f hs => by cases hs) hi)
  | clone i =>
    simp only [specStep]
    cases hi : σ.conts[i]? with
    | none => exact h
    | some c => exact h.append (h c (List.mem_of_getElem? hi))
  | combine i j =>
    simp only [specStep]
    cases hi : σ.conts[i]? with
    | none => exact h
    | some a =>
      cases hj : σ.conts[j]? with
      | none => exact h
      | some b =>
        simp only
        have ha := h a (List.mem_of_getElem? hi)
        have hb := h b (List.mem_of_getElem? hj)
        cases hc : a.combine b with
        | error e => exact h
        | ok c =>
          refine h.append ?_
          unfold SCont.combine at hc
          split at hc
          · cases hc
          · split at hc
            · cases hc
            · simp only [Except.ok.injEq] at hc
              subst hc
              intro s e f hs hl
              have hs' : preferRight (a.ents s) (b.ents s) = some e := hs
              unfold preferRight at hs'
              cases hbs : b.ents s with
              | none => rw [hbs] at hs'; exact ha s e f hs' hl
              | some re => rw [hbs] at hs'; simp only [Option.some.injEq] at hs'; subst hs'; exact hb s re f hbs hl
  | on i cop =>
    simp only [specStep]
    cases hi : σ.conts[i]? with
    | none => exact h
    | some c =>
      have hc := h c (List.mem_of_getElem? hi)
      have hdir : ∀ (r : SymRef) f, P r.accept f → ∀ g, (SEntry.mk (.direct f) false none).inj.load = .ok g → P r.accept g := by
        intro r f hf g hg; simp at hg; subst hg; exact hf
      have : EntsP P (sStepCont fuel c σ.next cop).1 := by
        cases cop with
        | bind r f =>
          simp only [sStepCont, SCont.bind]
          split
          · split
            · exact hc.setEnt _ _ (hdir r f hop)
            · exact hc
          · exact hc.setEnt _ _ (hdir r f hop)
        | rebind r f => exact hc.setEnt _ _ (hdir r f hop)
        | unbind r =>
          simp only [sStepCont, SCont.unbind]
          split
          · exact hc.delEnt _
          · exact hc
        | resolve r => exact sResolveF_entsP P fuel c σ.next r hc
        | can r => exact hc
        | invoke f args => exact sInvoke_entsP (sResolveF_entsP P fuel) c σ.next f args hc
      intro c' hm
      rcases List.mem_or_eq_of_mem_set hm with hm | hm
      · exact h c' hm
      · subst hm; exact this

theorem specRun_entsP {P : Nat → Factory → Prop} (fuel : Nat) : ∀ (ops : List Op) (σ : Spec),
    (∀ op ∈ ops, op.BindsP P) → SEntsP P σ → SEntsP P (specRun fuel σ ops).1 := by
  intro ops
  induction ops with
  | nil => intro σ _ h; exact h
  | cons op ops ih =>
    intro σ hops h
    simp only [specRun]
    exact ih _ (fun op' hop' => hops op' (by simp [hop'])) (specStep_entsP fuel σ op (hops op (by simp)) h)

/-- the annotated parameters of a factory bound to `s` rank below `s` -/
def RankP (rk : Nat → Nat) : Nat → Factory → Prop := fun s f => ∀ a ∈ pluck f, rk a.accept < rk s

theorem load_ne_rec (inj : Injector) : inj.load ≠ .error .recursionError := by
  cases inj with
  | direct f => simp [Injector.load]
  | named n f => simp [Injector.load]
  | broken n e => cases e <;> simp [Injector.load, LoadErr.toErr]

theorem validate_ne_rec (annos : List SymRef) (curried : List Obj) (args : List Arg) :
    validateFill annos curried args ≠ .error .recursionError := by
  unfold validateFill; split <;> simp

theorem call_ne_rec (nx : Nat) (f : Factory) (curried : List Obj) (args : List Arg) :
    (call nx f curried args).2 ≠ .error .recursionError := by
  unfold call; split <;> (try split) <;> simp

theorem sCurry_norec {rk : Nat → Nat} {rec : SCont → Nat → SymRef → SRes Obj} (hp : RecEntsP (RankP rk) rec) :
    ∀ (annos : List SymRef),
      (∀ a ∈ annos, ∀ c nx, EntsP (RankP rk) c → (rec c nx a).2.2 ≠ .error .recursionError) →
      ∀ (c : SCont) (nx : Nat) (acc : List Obj), EntsP (RankP rk) c →
        (sCurryWith rec c nx annos acc).2.2 ≠ .error .recursionError := by
  intro annos
  induction annos with
  | nil => intro _ c nx acc _; simp [sCurryWith]
  | cons a as ih =>
    intro hno c nx acc h2
    simp only [sCurryWith]
    by_cases hc : c.canResolve a = true
    · simp only [hc, if_true]
      have k2 := hp c nx a h2
      have k3 := hno a (by simp) c nx h2
      rcases hrec : rec c nx a with ⟨c', nx', res⟩
      rw [hrec] at k2 k3
      cases res with
      | error e => simpa using k3
      | ok o => exact ih (fun a' ha' => hno a' (by simp [ha'])) c' nx' _ k2
    · simp [hc]

theorem sInvoke_norec {rk : Nat → Nat} {rec : SCont → Nat → SymRef → SRes Obj} (hp : RecEntsP (RankP rk) rec)
    (c : SCont) (nx : Nat) (f : Factory) (args : List Arg) (h2 : EntsP (RankP rk) c)
    (hno : ∀ a ∈ pluck f, ∀ c nx, EntsP (RankP rk) c → (rec c nx a).2.2 ≠ .error .recursionError) :
    (sInvokeFill rec c nx f args).2.2 ≠ .error .recursionError := by
  unfold sInvokeFill
  simp only
  have k := sCurry_norec hp (pluck f) hno c nx [] h2
  rcases hcur : sCurryWith rec c nx (pluck f) [] with ⟨c2, nx2, res⟩
  rw [hcur] at k
  cases res with
  | error e => simpa using k
  | ok curried =>
    simp only
    have hv := validate_ne_rec (pluck f) curried args
    cases hV : validateFill (pluck f) curried args with
    | error e => rw [hV] at hv; simpa using hv
    | ok u => exact call_ne_rec _ _ _ _

/-- with more fuel than the rank of the symbol, resolution never runs out of fuel -/
theorem sResolveF_norec {rk : Nat → Nat} :
    ∀ (fuel : Nat) (c : SCont) (nx : Nat) (r : SymRef), EntsP (RankP rk) c → rk r.accept < fuel →
      (sResolveF fuel c nx r).2.2 ≠ .error .recursionError := by
  intro fuel
  induction fuel with
  | zero => intro c nx r _ h; exact absurd h (Nat.not_lt_zero _)
  | succ n ih =>
    intro c nx r h2 hlt
    simp only [sResolveF]
    unfold sResolveWith
    simp only
    cases he : c.ents r.accept with
    | none => simp
    | some e =>
      simp only
      by_cases hni : (e.lazy && !importable r.accept) = true
      · simp [hni]
      simp only [hni, Bool.false_eq_true, if_false]
      cases hld : e.inj.load with
      | error err =>
        simp only
        intro h'
        apply load_ne_rec e.inj
        rw [hld]
        simpa using h'
      | ok f =>
        simp only
        have hP : RankP rk r.accept f := h2 _ e f he hld
        have hdirP : ∀ (i : Option Obj) g, (SEntry.mk (.direct f) false i).inj.load = .ok g → RankP rk r.accept g := by
          intro i g hg; simp at hg; subst hg; exact hP
        have p1 : EntsP (RankP rk) (if e.lazy = true then c.setEnt r.accept (some ⟨.direct f, false, none⟩) else c) := by
          split
          · exact h2.setEnt _ _ (hdirP none)
          · exact h2
        cases (if e.lazy = true then none else e.inst) with
        | some o => simp
        | none =>
          simp only
          have hno : ∀ a ∈ pluck f, ∀ c nx, EntsP (RankP rk) c → (sResolveF n c nx a).2.2 ≠ .error .recursionError := by
            intro a ha c' nx' hp'
            exact ih c' nx' a hp' (by have := hP a ha; omega)
          have k := sInvoke_norec (sResolveF_entsP _ n) _ nx f [] p1 hno
          rcases hinv : sInvokeFill (sResolveF n) (if e.lazy = true then c.setEnt r.accept (some ⟨.direct f, false, none⟩) else c) nx f [] with ⟨c', nx', res⟩
          rw [hinv] at k
          cases res with
          | error err => simpa using k
          | ok o => simp

theorem init_entsP (P : Nat → Factory → Prop) : SEntsP P Spec.init := by intro c hc; cases hc

/-- Spec form of `C19.fuel_sufficient` -/
theorem spec_fuel_sufficient (fuel : Nat) (σ : Spec) (c : Nat) (rk : Nat → Nat) (hp : SEntsP (RankP rk) σ) :
    (∀ r, rk r.accept < fuel → (specStep fuel σ (.on c (.resolve r))).2 ≠ .err .recursionError) ∧
    (∀ f args, (∀ a ∈ pluck f, rk a.accept < fuel) →
      (specStep fuel σ (.on c (.invoke f args))).2 ≠ .err .recursionError) := by
  constructor
  · intro r hr
    simp only [specStep]
    cases hc : σ.conts[c]? with
    | none => simp
    | some sc =>
      have := sResolveF_norec (rk := rk) fuel sc σ.next r (hp sc (List.mem_of_getElem? hc)) hr
      simp only [sStepCont]
      exact (outObj_ne_err _ _).mpr this
  · intro f args hr
    simp only [specStep]
    cases hc : σ.conts[c]? with
    | none => simp
    | some sc =>
      have := sInvoke_norec (sResolveF_entsP _ fuel) sc σ.next f args (hp sc (List.mem_of_getElem? hc))
        (fun a ha c' nx' hp' => sResolveF_norec fuel c' nx' a hp' (hr a ha))
      simp only [sStepCont, sInvokeF]
      exact (outObj_ne_err _ _).mpr this

/-! ### isolation: symbols that are absent stay absent, instance ids are bounded by the counter -/

theorem sStepCont_none (fuel : Nat) (sc : SCont) (nx : Nat) (op : ContOp) (x : Nat)
    (hne : ∀ c, touches c x (.on c op) = false) (he : sc.ents x = none) :
    (sStepCont fuel sc nx op).1.ents x = none := by
  cases op with
  | bind r f =>
    have hr : ¬ r.accept = x := by simpa [touches] using hne 0
    have hr' : ¬ x = r.accept := fun h => hr h.symm
    simp only [sStepCont, SCont.bind]
    split
    · split <;> simp [setEnt_ents, hr', he]
    · simp [setEnt_ents, hr', he]
  | rebind r f =>
    have hr : ¬ r.accept = x := by simpa [touches] using hne 0
    have hr' : ¬ x = r.accept := fun h => hr h.symm
    simp [sStepCont, SCont.rebind, setEnt_ents, hr', he]
  | unbind r =>
    simp only [sStepCont, SCont.unbind]
    split <;> simp [setEnt_ents, he]
  | resolve r => exact (sResolveF_ev fuel sc nx r).2.1.none_ x he
  | can r => exact he
  | invoke f args => exact (sInvoke_ev (sResolveF_ev fuel) sc nx f args).2.1.none_ x he

theorem look_eq_none_of_lt {σ : Spec} {c x : Nat} (hc : c < σ.conts.length) :
    look σ c x = none ↔ (σ.conts[c]'hc).ents x = none := by
  simp [look, List.getElem?_eq_getElem hc]

theorem specStep_length_le (fuel : Nat) (σ : Spec) (op : Op) : σ.conts.length ≤ (specStep fuel σ op).1.conts.length := by
  cases op with
  | newDI => simp [specStep]
  | newLazy defs => simp only [specStep]; split <;> simp
  | clone i => simp only [specStep]; split <;> simp
  | combine i j => simp only [specStep]; split <;> (try split) <;> simp
  | on i cop => simp only [specStep]; split <;> simp

/-- a symbol a container does not know stays unknown to it as long as nobody binds it there -/
theorem specStep_none (fuel : Nat) (σ : Spec) (op : Op) (c x : Nat) (hc : c < σ.conts.length)
    (hne : touches c x op = false) (he : look σ c x = none) : look (specStep fuel σ op).1 c x = none := by
  have happ : ∀ sc, look { σ with conts := σ.conts ++ [sc] } c x = none := by
    intro sc; simp only [look, List.getElem?_append_left hc]; exact he
  cases op with
  | newDI => exact happ _
  | newLazy defs => simp only [specStep]; split; exact he; exact happ _
  | clone i => simp only [specStep]; split; exact he; exact happ _
  | combine i j =>
    simp only [specStep]
    split
    · split; exact he; exact happ _
    · exact he
  | on i cop =>
    simp only [specStep]
    cases hi : σ.conts[i]? with
    | none => exact he
    | some sc =>
      simp only
      by_cases hic : i = c
      · subst hic
        have hsc : sc.ents x = none := by simpa [look, hi] using he
        have hne' : ∀ c', touches c' x (.on c' cop) = false := by
          intro c'; cases cop <;> simp_all [touches]
        have := sStepCont_none fuel sc σ.next cop x hne' hsc
        simp [look, hc, this]
      · simpa [look, List.getElem?_set, hic] using he

theorem specRun_none (fuel : Nat) : ∀ (ops : List Op) (σ : Spec) (c x : Nat), c < σ.conts.length →
    (∀ op ∈ ops, touches c x op = false) → look σ c x = none → look (specRun fuel σ ops).1 c x = none := by
  intro ops
  induction ops with
  | nil => intro σ c x _ _ he; exact he
  | cons op ops ih =>
    intro σ c x hc hne he
    simp only [specRun]
    exact ih _ c x (Nat.lt_of_lt_of_le hc (specStep_length_le fuel σ op)) (fun op' h' => hne op' (by simp [h']))
      (specStep_none fuel σ op c x hc (hne op (by simp)) he)

/-- every instance an entry holds was created before the counter reached `n` -/
def EntB (n : Nat) (e : Option SEntry) : Prop := ∀ se o, e = some se → se.inst = some o → o.id < n
def ContB (n : Nat) (sc : SCont) : Prop := ∀ x, EntB n (sc.ents x)
def SpecB (σ : Spec) : Prop := ∀ sc ∈ σ.conts, ContB σ.next sc

theorem EntB.mono {n m : Nat} {e : Option SEntry} (h : EntB n e) (hnm : n ≤ m) : EntB m e :=
  fun se o h1 h2 => Nat.lt_of_lt_of_le (h se o h1 h2) hnm

theorem ContB.mono {n m : Nat} {sc : SCont} (h : ContB n sc) (hnm : n ≤ m) : ContB m sc := fun x => (h x).mono hnm

theorem Ev.bounded {lo hi : Nat} {e e' : SEntry} (h : Ev lo hi e e') (hle : lo ≤ hi) (hb : EntB lo (some e)) :
    EntB hi (some e') := by
  intro se o hse ho
  cases hse
  cases hl : e.lazy
  · obtain ⟨_, _, a3⟩ := h.mat hl
    rcases a3 with a3 | ⟨_, o', ho', _, h4, _⟩
    · rw [a3] at ho; exact Nat.lt_of_lt_of_le (hb e o rfl ho) hle
    · rw [ho'] at ho; cases ho; exact h4
  · rcases h.lzy hl with a | ⟨_, _, a3⟩
    · subst a; exact Nat.lt_of_lt_of_le (hb _ o rfl ho) hle
    · rcases a3 with a3 | ⟨o', ho', _, h4, _⟩
      · rw [a3] at ho; cases ho
      · rw [ho'] at ho; cases ho; exact h4

theorem CEv.bounded {lo hi : Nat} {c c' : SCont} (h : CEv lo hi c c') (hle : lo ≤ hi) (hb : ContB lo c) : ContB hi c' := by
  intro x se o hse ho
  cases hx : c.ents x with
  | none => rw [h.none_ x hx] at hse; cases hse
  | some e =>
    obtain ⟨e', he', hev⟩ := h.some_ x e hx
    rw [he'] at hse; cases hse
    exact hev.bounded hle (by rw [← hx]; exact hb x) _ o rfl ho

theorem ContB.setNoInst {n : Nat} {sc : SCont} (h : ContB n sc) (s : Nat) (e : Option SEntry)
    (he : ∀ se, e = some se → se.inst = none) : ContB n (sc.setEnt s e) := by
  intro x se o hse ho
  simp only [setEnt_ents] at hse
  split at hse
  · rw [he se hse] at ho; cases ho
  · exact h x se o hse ho

theorem sStepCont_bounded (fuel : Nat) (sc : SCont) (nx : Nat) (op : ContOp) (h : ContB nx sc) :
    ContB (sStepCont fuel sc nx op).2.1 (sStepCont fuel sc nx op).1 := by
  cases op with
  | bind r f =>
    simp only [sStepCont, SCont.bind]
    split
    · split
      · exact h.setNoInst _ _ (fun se hse => by cases hse; rfl)
      · exact h
    · exact h.setNoInst _ _ (fun se hse => by cases hse; rfl)
  | rebind r f => exact h.setNoInst _ _ (fun se hse => by cases hse; rfl)
  | unbind r =>
    simp only [sStepCont, SCont.unbind]
    split
    · exact h.setNoInst _ _ (fun se hse => by cases hse)
    · exact h
  | resolve r =>
    obtain ⟨h1, h2, _⟩ := sResolveF_ev fuel sc nx r
    exact h2.bounded h1 h
  | can r => exact h
  | invoke f args =>
    obtain ⟨h1, h2, _⟩ := sInvoke_ev (sResolveF_ev fuel) sc nx f args
    exact h2.bounded h1 h

theorem sInstantiate_noInst : ∀ (defs : List (Nat × Injector)) (m m' : Nat → Option SEntry),
    (∀ x se, m x = some se → se.inst = none) → sInstantiate m defs = .ok m' → ∀ x se, m' x = some se → se.inst = none := by
  intro defs
  induction defs with
  | nil => intro m m' hm h; simp only [sInstantiate, Except.ok.injEq] at h; subst h; exact hm
  | cons kv rest ih =>
    obtain ⟨p, inj⟩ := kv
    intro m m' hm h
    simp only [sInstantiate] at h
    split at h
    · cases h
    · refine ih _ m' ?_ h
      intro x se hx
      simp only [fset] at hx
      split at hx
      · cases hx; rfl
      · exact hm x se hx

theorem SpecB.append {σ : Spec} (h : SpecB σ) {sc : SCont} (hc : ContB σ.next sc) :
    SpecB { σ with conts := σ.conts ++ [sc] } := by
  intro c' hm
  simp only [List.mem_append, List.mem_singleton] at hm
  rcases hm with hm | hm
  · exact h c' hm
  · subst hm; exact hc

theorem specStep_bounded (fuel : Nat) (σ : Spec) (op : Op) (h : SpecB σ) : SpecB (specStep fuel σ op).1 := by
  cases op with
  | newDI => exact h.append (fun x se o hse => by cases hse)
  | newLazy defs =>
    simp only [specStep]
    cases hi : sInstantiate (fun _ => none) defs with
    | error e => exact h
    | ok m =>
      refine h.append ?_
      intro x se o hse ho
      rw [sInstantiate_noInst defs _ m (fun x se hx => by cases hx) hi x se hse] at ho; cases ho
  | clone i =>
    simp only [specStep]
    cases hi : σ.conts[i]? with
    | none => exact h
    | some c => exact h.append (h c (List.mem_of_getElem? hi))
  | combine i j =>
    simp only [specStep]
    cases hi : σ.conts[i]? with
    | none => exact h
    | some a =>
      cases hj : σ.conts[j]? with
      | none => exact h
      | some b =>
        simp only
        have ha := h a (List.mem_of_getElem? hi)
        have hb := h b (List.mem_of_getElem? hj)
        cases hc : a.combine b with
        | error e => exact h
        | ok c =>
          refine h.append ?_
          unfold SCont.combine at hc
          split at hc
          · cases hc
          · split at hc
            · cases hc
            · simp only [Except.ok.injEq] at hc
              subst hc
              intro x se o hse ho
              have hse' : preferRight (a.ents x) (b.ents x) = some se := hse
              unfold preferRight at hse'
              cases hbx : b.ents x with
              | none => rw [hbx] at hse'; exact ha x se o hse' ho
              | some re => rw [hbx] at hse'; simp only [Option.some.injEq] at hse'; subst hse'; exact hb x _ o hbx ho
  | on i cop =>
    simp only [specStep]
    cases hi : σ.conts[i]? with
    | none => exact h
    | some c =>
      have hc := h c (List.mem_of_getElem? hi)
      have hb := sStepCont_bounded fuel c σ.next cop hc
      have hle := sStepCont_next_le fuel c σ.next cop
      intro c' hm
      rcases List.mem_or_eq_of_mem_set hm with hm | hm
      · exact (h c' hm).mono hle
      · subst hm; exact hb

theorem specRun_bounded (fuel : Nat) : ∀ (ops : List Op) (σ : Spec), SpecB σ → SpecB (specRun fuel σ ops).1 := by
  intro ops
  induction ops with
  | nil => intro σ h; exact h
  | cons op ops ih => intro σ h; simp only [specRun]; exact ih _ (specStep_bounded fuel σ op h)

theorem init_bounded : SpecB Spec.init := by intro c hc; cases hc

theorem instOf_bounded {σ : Spec} (h : SpecB σ) {c x : Nat} {o : Obj} (ho : instOf σ c x = some o) : o.id < σ.next := by
  unfold instOf at ho
  cases hl : look σ c x with
  | none => rw [hl] at ho; cases ho
  | some e =>
    rw [hl] at ho
    simp only at ho
    split at ho
    · cases ho
    · cases hc : σ.conts[c]? with
      | none => simp [look, hc] at hl
      | some sc =>
        have : sc.ents x = some e := by simpa [look, hc] using hl
        exact h sc (List.mem_of_getElem? hc) x e o this ho

theorem look_frame_gen (fuel : Nat) (σ : Spec) (op : Op) (c x : Nat) (hc : c < σ.conts.length) (ht : op.target ≠ some c) :
    look (specStep fuel σ op).1 c x = look σ c x := by
  have happ : ∀ sc, look { σ with conts := σ.conts ++ [sc] } c x = look σ c x := by
    intro sc; simp only [look, List.getElem?_append_left hc]
  cases op with
  | newDI => simp only [specStep, happ]
  | newLazy defs => simp only [specStep]; split; rfl; rw [happ]
  | clone i => simp only [specStep]; split; rfl; rw [happ]
  | combine i j =>
    simp only [specStep]
    split
    · split; rfl; rw [happ]
    · rfl
  | on i cop =>
    have hic : i ≠ c := fun h => ht (by simp [Op.target, h])
    rw [look_frame fuel σ i c cop x hic]

theorem instOf_frame (fuel : Nat) (σ : Spec) (op : Op) (c x : Nat) (hc : c < σ.conts.length) (ht : op.target ≠ some c) :
    instOf (specStep fuel σ op).1 c x = instOf σ c x := by
  unfold instOf
  rw [look_frame_gen fuel σ op c x hc ht]

/-- what one step can do to the instance slot of `(c, x)`: nothing, empty it, or fill it with an instance created
    during this very step -/
theorem instOf_step (fuel : Nat) (σ : Spec) (op : Op) (c x : Nat) (hc : c < σ.conts.length) :
    instOf (specStep fuel σ op).1 c x = instOf σ c x ∨ instOf (specStep fuel σ op).1 c x = none ∨
    ∃ o, instOf (specStep fuel σ op).1 c x = some o ∧ σ.next ≤ o.id ∧ o.id < (specStep fuel σ op).1.next := by
  by_cases ht : op.target = some c
  · cases op with
    | on i cop =>
      have hic : i = c := by simpa [Op.target] using ht
      subst hic
      by_cases htouch : touches i x (.on i cop) = true
      · -- bind / rebind / unbind of this very symbol: the slot is emptied (or the op fails and nothing changes)
        obtain ⟨sc, hsc⟩ : ∃ sc, σ.conts[i]? = some sc := ⟨σ.conts[i], List.getElem?_eq_getElem hc⟩
        cases cop with
        | bind r f =>
          have hr : r.accept = x := by simpa [touches] using htouch
          subst hr
          simp only [specStep, hsc, sStepCont, SCont.bind]
          cases he : sc.ents r.accept with
          | none =>
            refine Or.inr (Or.inl ?_)
            simp [instOf, look_set_self σ i sc _ _ _ hsc, setEnt_ents]
          | some e =>
            simp only
            by_cases hl : e.lazy = true
            · refine Or.inr (Or.inl ?_)
              simp [hl, instOf, look_set_self σ i sc _ _ _ hsc, setEnt_ents]
            · refine Or.inl ?_
              simp only [hl]
              have e1 : look { conts := σ.conts.set i sc, next := σ.next } i r.accept = sc.ents r.accept :=
                look_set_self σ i sc sc σ.next r.accept hsc
              have e2 : look σ i r.accept = sc.ents r.accept := by simp [look, hsc]
              simp only [instOf, Bool.false_eq_true, if_false, e1, e2]
        | rebind r f =>
          have hr : r.accept = x := by simpa [touches] using htouch
          subst hr
          refine Or.inr (Or.inl ?_)
          simp [specStep, hsc, sStepCont, SCont.rebind, instOf, look_set_self σ i sc _ _ _ hsc, setEnt_ents]
        | unbind r =>
          have hr : r.accept = x := by simpa [touches] using htouch
          subst hr
          refine Or.inr (Or.inl ?_)
          simp only [specStep, hsc, sStepCont, SCont.unbind]
          cases he : sc.ents r.accept with
          | none => simp [instOf, look_set_self σ i sc _ _ _ hsc, he]
          | some e => simp [instOf, look_set_self σ i sc _ _ _ hsc, setEnt_ents]
        | resolve r => simp [touches] at htouch
        | can r => simp [touches] at htouch
        | invoke f args => simp [touches] at htouch
      · have hnt : touches i x (.on i cop) = false := by simpa using htouch
        cases hl : look σ i x with
        | none =>
          refine Or.inr (Or.inl ?_)
          simp [instOf, specStep_none fuel σ _ i x hc hnt hl]
        | some e =>
          obtain ⟨_, e', he', hev⟩ := specStep_ev fuel σ (.on i cop) i x e hnt hl
          simp only [instOf, hl, he']
          cases hlz : e.lazy
          · obtain ⟨a1, _, a3⟩ := hev.mat hlz
            simp only [a1, Bool.false_eq_true, if_false]
            rcases a3 with a3 | ⟨a3, o, ho, h3, h4, _⟩
            · exact Or.inl a3
            · exact Or.inr (Or.inr ⟨o, ho, h3, h4⟩)
          · simp only [if_true]
            rcases hev.lzy hlz with a | ⟨a1, _, a3⟩
            · subst a; simp [hlz]
            · simp only [a1, Bool.false_eq_true, if_false]
              rcases a3 with a3 | ⟨o, ho, h3, h4, _⟩
              · exact Or.inr (Or.inl a3)
              · exact Or.inr (Or.inr ⟨o, ho, h3, h4⟩)
    | newDI => simp [Op.target] at ht
    | newLazy defs => simp [Op.target] at ht
    | clone i => simp [Op.target] at ht
    | combine i j => simp [Op.target] at ht
  · exact Or.inl (instOf_frame fuel σ op c x hc ht)

/-- two slots in different containers never hold the same instance unless they did at the start: whatever fills one
    of them later is created later than everything the other one holds -/
theorem specStep_distinct (fuel : Nat) (σ : Spec) (op : Op) (c1 c2 x1 x2 : Nat) (hne : c1 ≠ c2)
    (h1 : c1 < σ.conts.length) (h2 : c2 < σ.conts.length) (hb : SpecB σ)
    (hd : ∀ o1 o2, instOf σ c1 x1 = some o1 → instOf σ c2 x2 = some o2 → o1.id ≠ o2.id) :
    ∀ o1 o2, instOf (specStep fuel σ op).1 c1 x1 = some o1 → instOf (specStep fuel σ op).1 c2 x2 = some o2 → o1.id ≠ o2.id := by
  intro o1 o2 ho1 ho2
  by_cases ht1 : op.target = some c1
  · have ht2 : op.target ≠ some c2 := by rw [ht1]; simpa using hne
    rw [instOf_frame fuel σ op c2 x2 h2 ht2] at ho2
    have hb2 := instOf_bounded hb ho2
    rcases instOf_step fuel σ op c1 x1 h1 with h | h | ⟨o, h, hlo, _⟩
    · rw [h] at ho1; exact hd o1 o2 ho1 ho2
    · rw [h] at ho1; cases ho1
    · rw [h] at ho1; cases ho1; omega
  · rw [instOf_frame fuel σ op c1 x1 h1 ht1] at ho1
    have hb1 := instOf_bounded hb ho1
    rcases instOf_step fuel σ op c2 x2 h2 with h | h | ⟨o, h, hlo, _⟩
    · rw [h] at ho2; exact hd o1 o2 ho1 ho2
    · rw [h] at ho2; cases ho2
    · rw [h] at ho2; cases ho2; omega

theorem specRun_distinct (fuel : Nat) : ∀ (ops : List Op) (σ : Spec) (c1 c2 x1 x2 : Nat), c1 ≠ c2 →
    c1 < σ.conts.length → c2 < σ.conts.length → SpecB σ →
    (∀ o1 o2, instOf σ c1 x1 = some o1 → instOf σ c2 x2 = some o2 → o1.id ≠ o2.id) →
    ∀ o1 o2, instOf (specRun fuel σ ops).1 c1 x1 = some o1 → instOf (specRun fuel σ ops).1 c2 x2 = some o2 → o1.id ≠ o2.id := by
  intro ops
  induction ops with
  | nil => intro σ c1 c2 x1 x2 _ _ _ _ hd; exact hd
  | cons op ops ih =>
    intro σ c1 c2 x1 x2 hne h1 h2 hb hd
    simp only [specRun]
    have hle := specStep_length_le fuel σ op
    exact ih _ c1 c2 x1 x2 hne (Nat.lt_of_lt_of_le h1 hle) (Nat.lt_of_lt_of_le h2 hle) (specStep_bounded fuel σ op hb)
      (specStep_distinct fuel σ op c1 c2 x1 x2 hne h1 h2 hb hd)


/-- an instance a container holds is what every later resolve returns, until the symbol is touched there -/
theorem spec_inst_persists (fuel : Nat) (σ : Spec) (mid : List Op) (c x : Nat) (e : SEntry) (o : Obj) (f : Factory) (r : SymRef)
    (he : look σ c x = some e) (hl : e.lazy = false) (hi : e.inst = some o) (hf : e.inj.load = .ok f)
    (hmid : ∀ op ∈ mid, touches c x op = false) (hr : r.accept = x) :
    (specStep (fuel + 1) (specRun (fuel + 1) σ mid).1 (.on c (.resolve r))).2 = .obj o := by
  obtain ⟨_, e', m1, m2⟩ := specRun_ev (fuel + 1) mid σ c x e hmid he
  obtain ⟨a1, a2, a3⟩ := m2.mat hl
  have hinst : e'.inst = some o := by
    rcases a3 with a3 | ⟨a3, _⟩
    · rw [a3, hi]
    · rw [hi] at a3; cases a3
  exact specStep_resolve_inst fuel _ c r e' o f (by rw [hr]; exact m1) a1 hinst (by rw [a2, hf])

theorem abs_conts_length (σ : State) : (abs σ).conts.length = σ.conts.length := abs_length σ

theorem run_append (fuel : Nat) : ∀ (a b : List Op) (σ : State),
    (run fuel σ (a ++ b)).1 = (run fuel (run fuel σ a).1 b).1 := by
  intro a
  induction a with
  | nil => intro b σ; rfl
  | cons op a ih => intro b σ; simp only [List.cons_append, run]; exact ih b _

theorem run_snoc (fuel : Nat) (a : List Op) (op : Op) (σ : State) :
    (run fuel σ (a ++ [op])).1 = (step fuel (run fuel σ a).1 op).1 := by
  rw [run_append]; simp [run]

/-- a successful resolve leaves exactly the returned instance in the slot -/
theorem specStep_resolve_instOf (fuel : Nat) (σ : Spec) (c : Nat) (r : SymRef) (o : Obj)
    (h : (specStep fuel σ (.on c (.resolve r))).2 = .obj o) :
    instOf (specStep fuel σ (.on c (.resolve r))).1 c r.accept = some o := by
  obtain ⟨e', k1, k2, k3, _⟩ := specStep_resolve_out fuel σ c r o h
  simp [instOf, k1, k2, k3]

theorem specRun_length_le (fuel : Nat) : ∀ (ops : List Op) (σ : Spec), σ.conts.length ≤ (specRun fuel σ ops).1.conts.length := by
  intro ops
  induction ops with
  | nil => intro σ; exact Nat.le_refl _
  | cons op ops ih => intro σ; simp only [specRun]; exact Nat.le_trans (specStep_length_le fuel σ op) (ih _)

/-- Bool form of "every binding of the table respects the rank" -/
def rankedB (rk : Nat → Nat) (t : List (Nat × Injector)) : Bool :=
  t.all fun kv => kv.2.facs.all fun f => (pluck f).all fun a => rk a.accept < rk kv.1

theorem rankedB_binds {rk : Nat → Nat} {t : List (Nat × Injector)} (h : rankedB rk t = true) :
    Op.BindsP (RankP rk) (.newLazy t) := by
  intro kv hkv f hf a ha
  simp only [rankedB, List.all_eq_true, decide_eq_true_eq] at h
  exact h kv hkv f hf a ha

theorem lookup_getD_le (t : List (Nat × Nat)) (m s : Nat) (h : t.all (fun kv => kv.2 ≤ m) = true) : (t.lookup s).getD 0 ≤ m := by
  induction t with
  | nil => simp
  | cons kv t ih =>
    obtain ⟨k, v⟩ := kv
    simp only [List.all_cons, Bool.and_eq_true, decide_eq_true_eq] at h
    simp only [List.lookup]
    split
    · simpa using h.1
    · exact ih h.2

theorem RankP_nil (rk : Nat → Nat) (s : Nat) (f : Factory) (h : f.params = []) : RankP rk s f := by
  intro a ha; simp [pluck, pluckA, Factory.annotated, h] at ha

/-! ### factories whose body raises -/

theorem call_raising (nx : Nat) (f : Factory) (curried : List Obj) (args : List Arg) (h : f.raises = true) :
    (call nx f curried args).1 = nx ∧ ∀ o, (call nx f curried args).2 ≠ .ok o := by
  unfold call
  rw [h]
  split <;> simp

theorem sInvokeFill_raising (rec : SCont → Nat → SymRef → SRes Obj) (c : SCont) (nx : Nat) (f : Factory) (args : List Arg)
    (h : f.raises = true) : ∀ o, (sInvokeFill rec c nx f args).2.2 ≠ .ok o := by
  intro o
  unfold sInvokeFill
  simp only
  rcases sCurryWith rec c nx (pluck f) [] with ⟨c2, nx2, res⟩
  cases res with
  | error e => simp
  | ok curried =>
    simp only
    cases validateFill (pluck f) curried args with
    | error e => simp
    | ok u => exact (call_raising nx2 f curried args h).2 o

/-- symbol `s` is bound (or defined) to the raising factory `f` and holds no instance -/
def RaisingAt (f : Factory) (s : Nat) (c : SCont) : Prop := ∃ e, c.ents s = some e ∧ e.inst = none ∧ e.inj.load = .ok f

def RecQ (f : Factory) (s : Nat) (rec : SCont → Nat → SymRef → SRes Obj) : Prop :=
  ∀ c nx r, RaisingAt f s c → RaisingAt f s (rec c nx r).1 ∧ (r.accept = s → ∀ o, (rec c nx r).2.2 ≠ .ok o)

theorem RaisingAt.setOther {f : Factory} {s : Nat} {c : SCont} (h : RaisingAt f s c) (x : Nat) (e : Option SEntry) (hx : x ≠ s) :
    RaisingAt f s (c.setEnt x e) := by
  obtain ⟨e0, h1, h2, h3⟩ := h
  refine ⟨e0, ?_, h2, h3⟩
  simp only [setEnt_ents]
  have : ¬ s = x := fun h' => hx h'.symm
  simp [this, h1]

theorem sCurry_Q {f : Factory} {s : Nat} {rec : SCont → Nat → SymRef → SRes Obj} (hr : RecQ f s rec) :
    ∀ (annos : List SymRef) (c : SCont) (nx : Nat) (acc : List Obj), RaisingAt f s c → RaisingAt f s (sCurryWith rec c nx annos acc).1 := by
  intro annos
  induction annos with
  | nil => intro c nx acc h; exact h
  | cons a as ih =>
    intro c nx acc h
    simp only [sCurryWith]
    by_cases hc : c.canResolve a = true
    · simp only [hc, if_true]
      have h1 := (hr c nx a h).1
      rcases hrec : rec c nx a with ⟨c', nx', res⟩
      rw [hrec] at h1
      cases res with
      | error e => exact h1
      | ok o => exact ih c' nx' _ h1
    · simp only [hc]; exact h

theorem sInvoke_Q {f : Factory} {s : Nat} {rec : SCont → Nat → SymRef → SRes Obj} (hr : RecQ f s rec)
    (c : SCont) (nx : Nat) (g : Factory) (args : List Arg) (h : RaisingAt f s c) : RaisingAt f s (sInvokeFill rec c nx g args).1 := by
  unfold sInvokeFill
  simp only
  have h2 := sCurry_Q hr (pluck g) c nx [] h
  rcases hcur : sCurryWith rec c nx (pluck g) [] with ⟨c2, nx2, res⟩
  rw [hcur] at h2
  cases res with
  | error e => exact h2
  | ok curried =>
    simp only
    cases validateFill (pluck g) curried args with
    | error e => exact h2
    | ok u => exact h2

theorem sResolveWith_Q {f : Factory} {s : Nat} {rec : SCont → Nat → SymRef → SRes Obj} (hf : f.raises = true) (hr : RecQ f s rec) :
    RecQ f s (sResolveWith rec) := by
  intro c nx r h
  by_cases hrs : r.accept = s
  · -- the symbol itself: its factory is invoked and raises; nothing is stored
    obtain ⟨e0, h1, h2, h3⟩ := h
    have hQ : RaisingAt f s c := ⟨e0, h1, h2, h3⟩
    unfold sResolveWith
    simp only [hrs, h1]
    by_cases hni : (e0.lazy && !importable s) = true
    · simp only [hni, if_true]
      exact ⟨hQ, fun _ o => by simp⟩
    simp only [hni, Bool.false_eq_true, if_false, h3]
    have hinst : (if e0.lazy = true then none else e0.inst) = none := by split <;> simp [h2]
    simp only [hinst]
    have hQ1 : RaisingAt f s (if e0.lazy = true then c.setEnt s (some ⟨.direct f, false, none⟩) else c) := by
      split
      · exact ⟨⟨.direct f, false, none⟩, by simp [setEnt_ents], rfl, rfl⟩
      · exact hQ
    have hQ2 := sInvoke_Q hr _ nx f [] hQ1
    have hno := sInvokeFill_raising rec (if e0.lazy = true then c.setEnt s (some ⟨.direct f, false, none⟩) else c) nx f [] hf
    rcases hinv : sInvokeFill rec (if e0.lazy = true then c.setEnt s (some ⟨.direct f, false, none⟩) else c) nx f [] with ⟨c', nx', res⟩
    rw [hinv] at hQ2 hno
    cases res with
    | error err => exact ⟨hQ2, fun _ o => by simp⟩
    | ok o => exact absurd rfl (hno o)
  · refine ⟨?_, fun h' => absurd h' hrs⟩
    unfold sResolveWith
    simp only
    cases he : c.ents r.accept with
    | none => exact h
    | some e =>
      simp only
      by_cases hni : (e.lazy && !importable r.accept) = true
      · simp only [hni, if_true]; exact h
      simp only [hni, Bool.false_eq_true, if_false]
      cases hld : e.inj.load with
      | error err => exact h
      | ok g =>
        simp only
        have h1 : RaisingAt f s (if e.lazy = true then c.setEnt r.accept (some ⟨.direct g, false, none⟩) else c) := by
          split
          · exact h.setOther _ _ hrs
          · exact h
        cases (if e.lazy = true then none else e.inst) with
        | some o => exact h1
        | none =>
          simp only
          have h2 := sInvoke_Q hr _ nx g [] h1
          rcases hinv : sInvokeFill rec (if e.lazy = true then c.setEnt r.accept (some ⟨.direct g, false, none⟩) else c) nx g [] with ⟨c', nx', res⟩
          rw [hinv] at h2
          cases res with
          | error err => exact h2
          | ok o => exact h2.setOther _ _ hrs

theorem sResolveF_Q {f : Factory} {s : Nat} (hf : f.raises = true) : ∀ fuel, RecQ f s (sResolveF fuel) := by
  intro fuel
  induction fuel with
  | zero => intro c nx r h; exact ⟨h, fun _ o => by simp [sResolveF]⟩
  | succ n ih => exact sResolveWith_Q hf ih

end Tranp.DI
