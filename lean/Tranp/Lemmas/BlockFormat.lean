/-
  Lemmas for property C18, part 11: `parse_to_formatter(text, brackets, delimiter).format()` on dict-like texts — the text
  comes back with exactly one blank behind every delimiter.
-/
import Tranp.Lemmas.BlockDict
import Tranp.Model.BlockView

namespace Tranp.Block
open Tranp Tranp.Generated.BlockPairs

mutual
/-- the canonical text of an item: tokens as they are, blocks with their items joined by the delimiter string and one blank -/
def Item.canon (k : BK) (D : Str) : Item → Str
  | .elem _ t => t.render
  | .block _ name items => name.render ++ k.open :: (Str.join (D ++ [' ']) (Item.canonList k D items) ++ [k.close])
def Item.canonList (k : BK) (D : Str) : List Item → List Str
  | [] => []
  | it :: rest => Item.canon k D it :: Item.canonList k D rest
end

mutual
/-- what the formatter needs beyond `WF`: a token does not begin with white space (`str.lstrip()` would eat it), the name of a
    block does not contain the opening bracket (`text.find(brackets[0], begin)` would stop there - e.g. inside a string) -/
def Item.Fmt (k : BK) : Item → Prop
  | .elem _ t => ∀ c, t.render.head? = some c → Regex.isSpaceChar c = false
  | .block _ name items => (∀ c ∈ name.render, c ≠ k.open) ∧ Item.FmtList k items
def Item.FmtList (k : BK) : List Item → Prop
  | [] => True
  | it :: rest => Item.Fmt k it ∧ Item.FmtList k rest
end

theorem lstripWs_id (s : Str) (h : ∀ c, s.head? = some c → Regex.isSpaceChar c = false) : lstripWs s = s := by
  cases s with
  | nil => rfl
  | cons c cs => simp [lstripWs, Str.lstripBy, h c rfl]

theorem formatterName_at (pre name z : Str) (o : Char) (h : ∀ c ∈ name, c ≠ o) :
    formatterName (pre ++ (name ++ o :: z)) o pre.length = name := by
  have hd : (pre ++ (name ++ o :: z)).drop pre.length = name ++ o :: z := List.drop_left
  have hlen : ¬ (pre ++ (name ++ o :: z)).length < pre.length := by simp
  simp only [formatterName, if_neg hlen, hd, find_char o name z h]
  exact slice_mid' pre name (o :: z)

/-- formatting the entries of a list of items gives their canonical texts -/
theorem formatElems_items (k : BK) (D : Str) (T : Str) : ∀ (n : Nat) (items : List Item) (pre z : Str) (d : Nat),
    Item.sizeList items ≤ n → Item.FmtList k items → T = pre ++ (Item.renderList k items ++ z) →
    formatElems T D k.open k.close (Item.entries k d pre.length items) = Item.canonList k D items := by
  intro n
  induction n with
  | zero =>
    intro items pre z d hn _ _
    cases items with
    | nil => rfl
    | cons it rest => cases it <;> simp [Item.sizeList, Item.size] at hn <;> omega
  | succ n ih =>
    intro items pre z d hn hf hT
    cases items with
    | nil => rfl
    | cons it rest =>
      obtain ⟨hfi, hfr⟩ := hf
      have hT2 : T = (pre ++ it.render k) ++ (Item.renderList k rest ++ z) := by
        rw [hT]; simp [Item.renderList]
      have hsz : Item.sizeList rest ≤ n ∧ Item.sizeList it.subItems ≤ n := by
        cases it <;> simp only [Item.sizeList, Item.size, Item.subItems] at hn ⊢ <;> omega
      have hrest := ih rest (pre ++ it.render k) z d hsz.1 hfr hT2
      simp only [List.length_append] at hrest
      cases it with
      | elem lead t =>
        have hT1 : T = (pre ++ lead) ++ (t.render ++ (Item.renderList k rest ++ z)) := by
          rw [hT]; simp [Item.renderList, Item.render]
        have hsl : slice T (pre.length + lead.length) (pre.length + lead.length + t.render.length) = t.render := by
          have := slice_mid' (pre ++ lead) t.render (Item.renderList k rest ++ z)
          rw [← hT1] at this
          simpa using this
        simp only [Item.entries, Item.entry, formatElems, Entry.kind, Entry.begin, Entry.end_, reduceCtorEq, if_false, hsl,
          lstripWs_id t.render hfi, Item.canonList, Item.canon, hrest]
      | block lead name sub =>
        obtain ⟨hno, hfs⟩ := hfi
        have hT1 : T = (pre ++ lead) ++ (name.render ++ k.open :: (Item.renderList k sub ++ k.close :: (Item.renderList k rest ++ z))) := by
          rw [hT]; simp [Item.renderList, Item.render]
        have hT3 : T = (pre ++ lead ++ name.render ++ [k.open]) ++ (Item.renderList k sub ++ (k.close :: (Item.renderList k rest ++ z))) := by
          rw [hT]; simp [Item.renderList, Item.render]
        have hname : formatterName T k.open (pre.length + lead.length) = name.render := by
          have := formatterName_at (pre ++ lead) name.render (Item.renderList k sub ++ k.close :: (Item.renderList k rest ++ z)) k.open hno
          rw [← hT1] at this
          simpa using this
        have hsub := ih sub (pre ++ lead ++ name.render ++ [k.open]) (k.close :: (Item.renderList k rest ++ z)) (d + 1)
          (by simpa [Item.subItems] using hsz.2) hfs hT3
        simp only [List.length_append, List.length_cons, List.length_nil] at hsub
        simp only [Item.entries, Item.entry, formatElems, Entry.kind, if_true, formatEntry, hname, hsub, Item.canonList,
          Item.canon, hrest]
        simp

/-- `parse_to_formatter(name{items}, brackets, D).format()` = the canonical text -/
theorem format_dict (k : BK) (D : Str) (hD : DelimOK D) (name : Frag) (items : List Item) (hn : TokOK k D name)
    (hw : Item.WFList k D true items) (hf : Item.Fmt k (Item.block [] name items)) :
    parseToFormatterFormat (name.render ++ k.open :: (Item.renderList k items ++ [k.close])) [k.open, k.close] D
      = .ok (Item.canon k D (Item.block [] name items)) := by
  have h := formatElems_items k D (name.render ++ k.open :: (Item.renderList k items ++ [k.close])) _ [Item.block [] name items] [] [] 0
    (Nat.le_refl _) ⟨hf, trivial⟩ (by simp [Item.renderList, Item.render])
  have h0 : charAt [k.open, k.close] 0 = .ok k.open := rfl
  have h1 : charAt [k.open, k.close] 1 = .ok k.close := rfl
  simp only [Item.entries, formatElems, Item.canonList, List.length_nil, List.cons.injEq, and_true] at h
  have hk : (Item.entry k 0 0 (Item.block [] name items)).kind = .Block := rfl
  rw [if_pos hk] at h
  simp only [parseToFormatterFormat, parse_dict k D hD name items hn hw, h0, h1, Except.bind, h]

end Tranp.Block
