/-
  Driver family `scope` (property C08): both layers of the name-resolution model on the same op.

  Every string argument is hex-escaped (`-` = empty string); lists are `,`-joined (`~` = empty list).
  Output of a two-layer op: `S=<string layer> A=<abstract layer, encoded>`; lookups print `none`, `ok <keyhex>` or an error.

    libs <m,…>                                                           → ok
    tbl.clear                                                            → ok
    tbl.add <key> <isClass> <isClassOrType> <typesPath> <typesMod> <importName|~> <inherits,…>   → ok
    find <scope> <isVar> <isType> <fullPath> <domainName> <propName>     → S=… A=…
    scopes <scope> <isVar> <isType> <fullPath>                           → S=k,k,… A=k,k,…
    std <word>                                                           → S=… A=…
    names <mod> <anc,…> <isDomain> <domainName> <classification> <id>    → S=scope|namespace|fullyname A=…
         anc = isScope:isNamespace:domainName:classification (nearest first)
    thisvar <classFullyname> <domainName>                                → S=… A=…
    merge <var,…> <var,…>        var = fullyname:domainName:scope        → S=fullyname,… A=…
    collect <stmt tokens separated by blanks>                            → S=fullyname,… A=…
         stmt = ( {[ var* ]} {{ stmt* }} )      (own symbol lists in [ ], nested blocks in { })
    dsn.fulljoined <dsn> <elem,…> | dsn.parsed <dsn> | dsn.expand <s> | dsn.expanded <dsn> | dsn.localjoined <elem,…>
    str.removeall <p> <s> | str.infix <p> <s>
    alias.clear | alias.add <fullyname> <text>                           → ok        (the translation table entry `aliases.<fullyname>`)
    naming <withTranspiler> <cls> <cls,…> <mod>      cls = fullyname:name:embedText|~:isPrefix (ancestors outermost first)
                                                                         → S=domain_name|accessible_name|fullyname A=…
    naming.nohandler <types.namespace> <module_path>                     → namespace | error   (string layer)
    enum.value <name> <member,…>                                         → S=<index|IndexError> A=…
    frag.relay | frag.dictiter | frag.subrelay | frag.subto | frag.classvar <text>      (string layer)
    re.fullmatch | re.search | re.sub <pattern name> <text>              → none | ok <start>:<end> g1|g2|… (`~` = unset group) | <text>   (generated patterns)
    frag.initcall <value> <var_type>                                     → true | false | IndexError
    view.annotated <var_type> <anno,…> <immutable type,…> | view.origin <var_type> | view.super <statement>
                                                                         → H=<hand-written scanner> G=<composition over the generated patterns>
    view.init <statement>                                                → ok <symbol>|<initializer> | AssertionError   (generated patterns)
    view.immutable <var_type>                                            → <text>
    capture <param,…> <referenced name,…>                                → <ref_vars names,…>|<capture list,…>
    templates <class type variable,…> <type variable used in the signature,…>   → <type parameters of the function / method,…>
    s! <op…>      the same op, printing the string layer's answer only (inputs outside the abstract layer's domain)
-/
import Tranp.Driver.Common
import Tranp.Model.ScopeStr
import Tranp.Model.Naming
import Tranp.Model.Fragment
import Tranp.Model.ViewHelper
import Tranp.Model.Capture
import Tranp.Generated.C08Regex

namespace Tranp.Driver.Scope
open Tranp Tranp.Scope Tranp.Driver

def hexL (xs : List Str) : String := if xs.isEmpty then "~" else ",".intercalate (xs.map Str.hex)

def unhexL (s : String) : List Str := if s == "~" then [] else (s.splitOn ",").map unhexD

def bit (s : String) : Bool := s == "1"

/-- driver-side decoding of a joined key into the abstract view: first `#` separates the module, dots separate elements -/
def decodeName (s : Str) : List Str := (Str.splitOn '.' s).filter (fun p => !p.isEmpty)

def decodeKey (s : Str) : Key Str Str :=
  match Str.splitOn '#' s with
  | m :: rest => ⟨m, decodeName (Str.join ['#'] rest)⟩
  | [] => ⟨[], []⟩

structure St where
  tblS : ScopeStr.TblS := []
  tblA : Tbl Str Str := []
  libs : List Str := []
  aliasS : NamingStr.AliasesS := []
  aliasA : Naming.Aliases Str Str := []

def parseClsS (s : String) : Option NamingStr.ClsS :=
  match s.splitOn ":" with
  | [f, n, e, p] => some ⟨unhexD f, unhexD n, if e == "~" then none else some ⟨unhexD e, bit p⟩⟩
  | _ => none

def clsA (c : NamingStr.ClsS) : Naming.Cls Str Str := ⟨decodeKey c.fullyname, c.name, c.embed⟩

def showOpt (o : Option Str) : String := match o with | some s => "ok " ++ Str.hex s | none => "none"

def showHit {α : Type} (enc : α → Str) : Except Err (Option α) → String
  | .error e => e.toString
  | .ok none => "none"
  | .ok (some k) => s!"ok {Str.hex (enc k)}"

def two (s a : String) : String := s!"S={s} A={a}"

def parseAncS (s : String) : Option ScopeStr.AncS :=
  match s.splitOn ":" with
  | [a, b, d, c] => some ⟨bit a, bit b, unhexD d, unhexD c⟩
  | _ => none

def ancA (a : ScopeStr.AncS) : Anc Str := ⟨a.isScope, a.isNamespace, decodeName a.domainName, a.classification⟩

def parseVarS (s : String) : Option ScopeStr.DVarS :=
  match s.splitOn ":" with
  | [f, d, sc] => some ⟨unhexD f, unhexD d, unhexD sc⟩
  | _ => none

def varA (v : ScopeStr.DVarS) : DVar Str Str := ⟨decodeKey v.fullyname, decodeName v.domainName, decodeKey v.scope⟩

def parseVars (s : String) : Option (List ScopeStr.DVarS) :=
  if s == "~" then some [] else (s.splitOn ",").mapM parseVarS

/-- stmt = ( {[ var* ]} {{ stmt* }} ) -/
partial def parseStmt : List String → Option (Stmt ScopeStr.DVarS × List String)
  | "(" :: rest =>
    let rec owns (acc : List (List ScopeStr.DVarS)) (ts : List String) : Option (List (List ScopeStr.DVarS) × List String) :=
      match ts with
      | "[" :: ts' =>
        let rec vars (vs : List ScopeStr.DVarS) (us : List String) : Option (List ScopeStr.DVarS × List String) :=
          match us with
          | "]" :: us' => some (vs.reverse, us')
          | u :: us' => match parseVarS u with
            | some v => vars (v :: vs) us'
            | none => none
          | [] => none
        match vars [] ts' with
        | some (vs, ts'') => owns (vs :: acc) ts''
        | none => none
      | _ => some (acc.reverse, ts)
    let rec blocks (acc : List (List (Stmt ScopeStr.DVarS))) (ts : List String) : Option (List (List (Stmt ScopeStr.DVarS)) × List String) :=
      match ts with
      | "{" :: ts' =>
        let rec stmts (ss : List (Stmt ScopeStr.DVarS)) (us : List String) : Option (List (Stmt ScopeStr.DVarS) × List String) :=
          match us with
          | "}" :: us' => some (ss.reverse, us')
          | [] => none
          | us' => match parseStmt us' with
            | some (s, us'') => stmts (s :: ss) us''
            | none => none
        match stmts [] ts' with
        | some (b, ts'') => blocks (b :: acc) ts''
        | none => none
      | _ => some (acc.reverse, ts)
    match owns [] rest with
    | some (os, ts) =>
      match blocks [] ts with
      | some (bs, ")" :: ts') => some (.mk os bs, ts')
      | _ => none
    | none => none
  | _ => none

partial def parseBlock (ts : List String) (acc : List (Stmt ScopeStr.DVarS)) : Option (List (Stmt ScopeStr.DVarS)) :=
  match ts with
  | [] => some acc.reverse
  | ts => match parseStmt ts with
    | some (s, rest) => parseBlock rest (s :: acc)
    | none => none

def step1 (st : St) : List String → St × String
  | ["libs", ms] => ({ st with libs := unhexL ms }, "ok")
  | ["tbl.clear"] => ({ st with tblS := [], tblA := [] }, "ok")
  | ["tbl.add", key, isClass, isCT, typesPath, typesMod, imp, inh] =>
    let key := unhexD key
    let impN : Option Str := if imp == "~" then none else some (unhexD imp)
    let inhS := unhexL inh
    let symS : ScopeStr.SymS := ⟨bit isClass, bit isCT, unhexD typesPath, unhexD typesMod, impN, inhS⟩
    let symA : Sym Str Str := ⟨bit isClass, bit isCT, unhexD typesPath, unhexD typesMod, impN, inhS.map decodeName⟩
    -- a Python dict: an existing key keeps its position and takes the new value
    let tblS := if st.tblS.any (fun kv => kv.1 == key) then st.tblS.map (fun kv => if kv.1 == key then (key, symS) else kv) else st.tblS ++ [(key, symS)]
    let ka := decodeKey key
    let tblA : Tbl Str Str := if List.any st.tblA (fun kv => kv.1 == ka) then List.map (fun kv => if kv.1 == ka then (ka, symA) else kv) st.tblA else st.tblA ++ [(ka, symA)]
    ({ st with tblS := tblS, tblA := tblA }, "ok")
  | ["find", scope, isVar, isType, fullPath, dn, pn] =>
    let nodeS : ScopeStr.NodeS := ⟨unhexD scope, bit isVar, bit isType, unhexD fullPath⟩
    let nodeA : NodeInfo Str Str := ⟨decodeKey nodeS.scope, nodeS.isVar, nodeS.isType, nodeS.fullPath⟩
    let s := ScopeStr.findBySymbolic st.tblS st.libs nodeS (unhexD dn) (unhexD pn)
    let a := findBySymbolic st.tblA st.libs nodeA (decodeName (unhexD dn) ++ decodeName (unhexD pn))
    (st, two (showHit (fun (h : ScopeStr.HitS) => h.1) s) (showHit (fun (h : Hit Str Str) => ScopeStr.encKey h.1) a))
  | ["scopes", scope, isVar, isType, fullPath] =>
    let nodeS : ScopeStr.NodeS := ⟨unhexD scope, bit isVar, bit isType, unhexD fullPath⟩
    let nodeA : NodeInfo Str Str := ⟨decodeKey nodeS.scope, nodeS.isVar, nodeS.isType, nodeS.fullPath⟩
    (st, two (hexL (ScopeStr.makeScopes st.tblS nodeS)) (hexL ((makeScopes st.tblA nodeA).map ScopeStr.encKey)))
  | ["std", word] =>
    let s := ScopeStr.findStandard st.tblS st.libs (unhexD word)
    let a := findStandard st.tblA st.libs (unhexD word)
    (st, two (showHit (fun (h : ScopeStr.HitS) => h.1) s) (showHit (fun (h : Hit Str Str) => ScopeStr.encKey h.1) a))
  | ["names", mod, ancs, isDomain, dn, cls, id] =>
    let ancsS := if ancs == "~" then some [] else (ancs.splitOn ",").mapM parseAncS
    match ancsS, id.toInt? with
    | some chain, some idn =>
      let mod := unhexD mod
      let dn := unhexD dn
      let cls := unhexD cls
      let s := s!"{Str.hex (ScopeStr.scopeOf mod chain)}|{Str.hex (ScopeStr.namespaceOf mod chain)}|{Str.hex (ScopeStr.fullynameOf mod chain (bit isDomain) dn cls idn)}"
      let chainA := chain.map ancA
      let fa := fullynameOf mod chainA (bit isDomain) (decodeName dn) cls idn
      let fas := match fa.2 with
        | none => ScopeStr.encKey fa.1
        | some i => ScopeStr.identify (ScopeStr.encKey fa.1) i
      let a := s!"{Str.hex (ScopeStr.encKey (scopeOf mod chainA))}|{Str.hex (ScopeStr.encKey (namespaceOf mod chainA))}|{Str.hex fas}"
      (st, two s a)
    | _, _ => (st, "bad-op")
  | ["thisvar", cf, dn] =>
    let s := ScopeStr.fullynameThisVar (unhexD cf) (unhexD dn)
    let a := ScopeStr.encKey (fullynameThisVar (decodeKey (unhexD cf)) (decodeName (unhexD dn)))
    (st, two (Str.hex s) (Str.hex a))
  | ["merge", decl, add] =>
    match parseVars decl, parseVars add with
    | some d, some a =>
      let s := ScopeStr.merged d a
      let r := merged (d.map varA) (a.map varA)
      (st, two (hexL (s.map (·.fullyname))) (hexL (r.map (fun v => ScopeStr.encKey v.fullyname))))
    | _, _ => (st, "bad-op")
  | ["collect", toks] =>
    match parseBlock ((toks.splitOn " ").filter (· ≠ "")) [] with
    | some block =>
      let s := ScopeStr.collect block
      let r := collect (Stmt.mapBlock varA block)
      (st, two (hexL (s.map (·.fullyname))) (hexL (r.map (fun v => ScopeStr.encKey v.fullyname))))
    | none => (st, "bad-op")
  | ["alias.clear"] => ({ st with aliasS := [], aliasA := [] }, "ok")
  | ["alias.add", fullyname, text] =>
    let f := unhexD fullyname
    ({ st with aliasS := st.aliasS ++ [(NamingStr.aliasDsn f, unhexD text)], aliasA := st.aliasA ++ [(decodeKey f, unhexD text)] }, "ok")
  | ["naming", tr, cls, ancs, mod] =>
    let ancsS := if ancs == "~" then some [] else (ancs.splitOn ",").mapM parseClsS
    match parseClsS cls, ancsS with
    | some c, some as =>
      let mod := unhexD mod
      let t := bit tr
      let s := s!"{Str.hex (NamingStr.domainName (some st.aliasS) t c)}|{Str.hex (NamingStr.accessibleName st.aliasS t as c)}|{Str.hex (NamingStr.fullyname st.aliasS as c mod)}"
      let asA := as.map clsA
      let fa := Naming.fullyname st.aliasA asA (clsA c) mod
      let a := s!"{Str.hex (NamingStr.encOut (Naming.domainName (some st.aliasA) t (clsA c)))}|{Str.hex (NamingStr.encPieces (Naming.accessibleName st.aliasA t asA (clsA c)))}|{Str.hex (ScopeStr.dsnJoin [fa.1, NamingStr.encPieces fa.2])}"
      (st, two s a)
    | _, _ => (st, "bad-op")
  | ["naming.nohandler", ns, mod] =>
    (st, match NamingStr.namespaceNoHandler (unhexD ns) (unhexD mod) with
      | some r => "ok " ++ Str.hex r
      | none => "error")
  | ["enum.value", name, members] =>
    let ms := unhexL members
    let vars := ms.zipIdx
    let show_ := fun (o : Option Nat) => match o with | some i => toString i | none => "IndexError"
    (st, two (show_ (NamingStr.varValue vars (unhexD name))) (show_ (Naming.varValue vars (unhexD name))))
  | ["frag.relay", t] =>
    (st, match Fragment.breakRelay (unhexD t) with
      | some (a, b) => s!"ok {Str.hex a}|{Str.hex b}"
      | none => "none")
  | ["frag.dictiter", t] =>
    (st, match Fragment.breakDictIterator (unhexD t) with
      | some (a, b, c) => s!"ok {Str.hex a}|{Str.hex b}|{Str.hex c}"
      | none => "none")
  | ["frag.subrelay", t] => (st, Str.hex (Fragment.subCvarRelay (unhexD t)))
  | ["frag.subto", t] => (st, Str.hex (Fragment.subCvarTo (unhexD t)))
  | ["frag.classvar", t] => (st, Str.hex (Fragment.pluckClassVarName (unhexD t)))
  | ["re.fullmatch", name, t] =>
    match Generated.C08Regex.all.find? (fun nr => nr.1 == name) with
    | none => (st, "bad-op")
    | some (_, r) =>
      let txt := unhexD t
      (st, match Regex.fullmatch r txt with
        | none => "none"
        | some (en, caps) => s!"ok 0:{en} " ++ "|".intercalate ((List.range r.groups).map (fun i => match Regex.groupText txt caps (i + 1) with | some g => Str.hex g | none => "~")))
  | ["re.search", name, t] =>
    match Generated.C08Regex.all.find? (fun nr => nr.1 == name) with
    | none => (st, "bad-op")
    | some (_, r) =>
      let txt := unhexD t
      (st, match Regex.search r txt with
        | none => "none"
        | some (b, (en, caps)) => s!"ok {b}:{en} " ++ "|".intercalate ((List.range r.groups).map (fun i => match Regex.groupText txt caps (i + 1) with | some g => Str.hex g | none => "~")))
  | ["re.sub", name, t] =>
    match Generated.C08Regex.all.find? (fun nr => nr.1 == name) with
    | none => (st, "bad-op")
    | some (_, r) => (st, Str.hex (Regex.subEmpty r (unhexD t)))
  | ["frag.initcall", v, ty] =>
    (st, match Fragment.isInitializerCall (unhexD v) (unhexD ty) with
      | some b => toString b
      | none => "IndexError")
  | ["view.annotated", vt, annos, imm] =>
    let sh := fun (r : Except ViewHelper.Err Str) => match r with | .ok t => "ok " ++ Str.hex t | .error e => e.text
    (st, s!"H={sh (ViewHelper.annotated (unhexD vt) (unhexL annos) (unhexL imm))} G={sh (ViewHelper.Gen.annotated (unhexD vt) (unhexL annos) (unhexL imm))}")
  | ["view.origin", vt] =>
    let sh := fun (r : Except ViewHelper.Err Str) => match r with | .ok t => "ok " ++ Str.hex t | .error e => e.text
    (st, s!"H={sh (ViewHelper.varTypeOrigin (unhexD vt))} G={sh (ViewHelper.Gen.varTypeOrigin (unhexD vt))}")
  | ["view.super", t] =>
    let sh := fun (r : Except ViewHelper.Err (Str × Str)) => match r with | .ok (a, b) => s!"ok {Str.hex a}|{Str.hex b}" | .error e => e.text
    (st, s!"H={sh (ViewHelper.superInitParse (unhexD t))} G={sh (ViewHelper.Gen.superInitParse (unhexD t))}")
  | ["view.init", t] =>
    (st, match ViewHelper.Gen.initializerParse (unhexD t) with | .ok (a, b) => s!"ok {Str.hex a}|{Str.hex b}" | .error e => e.text)
  | ["templates", ks, us] => (st, hexL (Capture.templatesOf (unhexL ks) (unhexL us)))
  | ["capture", ps, rs] =>
    (st, s!"{hexL (Capture.refVars (unhexL ps) (unhexL rs))}|{hexL (Capture.binds (unhexL ps) (unhexL rs))}")
  | ["view.immutable", vt] => (st, Str.hex (ViewHelper.toImmutable (unhexD vt)))
  | ["dsn.fulljoined", dsn, elems] => (st, Str.hex (ScopeStr.fullJoined (unhexD dsn) (unhexL elems)))
  | ["dsn.localjoined", elems] => (st, Str.hex (ScopeStr.localJoined (unhexL elems)))
  | ["dsn.parsed", dsn] => let p := ScopeStr.parsed (unhexD dsn); (st, s!"{Str.hex p.1}|{Str.hex p.2}")
  | ["dsn.expand", s] => (st, hexL (ScopeStr.expandElements (unhexD s)))
  | ["dsn.expanded", dsn] => let p := ScopeStr.expanded (unhexD dsn); (st, s!"{Str.hex p.1}|{hexL p.2}")
  | ["str.removeall", p, s] => (st, Str.hex (removeAll (unhexD p) (unhexD s)))
  | ["str.infix", p, s] => (st, toString (isInfix (unhexD p) (unhexD s)))
  | _ => (st, "bad-op")

/-- `s!` prefix: the input is outside the abstract layer's domain (malformed key, or names that share a prefix under a bare
    `startswith`): only the string layer's answer is printed. -/
def step (st : St) : List String → St × String
  | "s!" :: rest =>
    let r := step1 st rest
    match r.2.splitOn " A=" with
    | a :: _ => (r.1, a)
    | [] => r
  | ts => step1 st ts

def run : IO Unit := runFamily step ({} : St)

end Tranp.Driver.Scope
