/-
  Driver family `ladder` (property C02).

    rd <texthex>          lex + rdParseT (operators, conditional, lambda) over the generated ladder → ok <tree sexp> | error
    pymin <expr>          printMin pyTable e, tokens joined by blanks    → ok <texthex>
    astof <expr>          CPython's reading astOf e                      → <ast sexp>
    rdast <expr>          toAst (rdParseP ladder (printMin pyTable e))   → <ast sexp> | error
    tree <sexp>           set the current tree (format of family `tree`) → ok <size>
    classes               class of every position, document order        → path=Class|path=Class|…   (errors as enum strings)

    args <arguments sexp> tranp's reading of an `arguments` subtree        → ok pos,kw:<label>,star,dstar …

  <expr> ::= a<n> | ( b <opcode> <expr> <expr> ) | ( u <opcode> <expr> ) | ( p <expr> ) | ( i <body> <test> <orelse> )
           | ( l <k> a<n>×k <body> )                                      (tokens separated by one blank)
  tree sexp: ( tag child … ) | t:tag:valuehex | _          ast sexp: leaf text | (U op e) | (B op l r) | (L op v…) | (C l op c op c …)
-/
import Tranp.Driver.Common
import Tranp.Driver.Tree
import Tranp.Model.Ladder
import Tranp.Model.LadderT
import Tranp.Model.Classify
import Tranp.Generated.GrammarLadder
import Tranp.Generated.ResolverTable

namespace Tranp.Driver.Ladder
open Tranp Tranp.Driver Tranp.Ladder Tranp.AstPath

partial def treeSexp : LarkTree → String
  | .tree t cs => "( " ++ l2s t ++ String.join (cs.map fun c => " " ++ treeSexp c) ++ " )"
  | .token t v => s!"t:{l2s t}:{Str.hex v}"
  | .empty => "_"

partial def parseExpr : List String → Option (TExpr × List String)
  | "(" :: "b" :: o :: rest => do
    let (l, rest) ← parseExpr rest
    let (r, rest) ← parseExpr rest
    match rest with
    | ")" :: rest => some (.bin (← o.toNat?) l r, rest)
    | _ => none
  | "(" :: "u" :: o :: rest => do
    let (e, rest) ← parseExpr rest
    match rest with
    | ")" :: rest => some (.pre (← o.toNat?) e, rest)
    | _ => none
  | "(" :: "p" :: rest => do
    let (e, rest) ← parseExpr rest
    match rest with
    | ")" :: rest => some (.paren e, rest)
    | _ => none
  | "(" :: "i" :: rest => do
    let (b, rest) ← parseExpr rest
    let (c, rest) ← parseExpr rest
    let (e, rest) ← parseExpr rest
    match rest with
    | ")" :: rest => some (.ifExp b c e, rest)
    | _ => none
  | "(" :: "l" :: k :: rest => do
    let k ← k.toNat?
    let ps ← (rest.take k).mapM fun tok => if tok.startsWith "a" then (tok.drop 1).toString.toNat? else none
    let (body, rest) ← parseExpr (rest.drop k)
    match rest with
    | ")" :: rest => some (.lam ps body, rest)
    | _ => none
  | tok :: rest =>
    if tok.startsWith "a" then (tok.drop 1).toString.toNat?.map fun n => (.atom n, rest) else none
  | [] => none

def readExpr (sx : String) : Option TExpr :=
  match parseExpr (sx.splitOn " ") with
  | some (e, []) => some e
  | _ => none

def atomName (n : Nat) : Str := 'a' :: Str.natToDec n

def atomTree (n : Nat) : LarkTree := .tree ['v','a','r'] [.tree ['n','a','m','e'] [.token ['N','A','M','E'] (atomName n)]]

def paramTree (n : Nat) : LarkTree := .tree ['n','a','m','e'] [.token ['N','A','M','E'] (atomName n)]

def info : InfoT := ⟨Generated.GrammarLadder.ladder, Generated.GrammarLadder.compOps, atomTree, paramTree⟩

def tokText : Prec.Tok → Str
  | .atom n => atomName n
  | .op o => opName o
  | .lp => ['(']
  | .rp => [')']

def leafText (t : LarkTree) : String :=
  let vs := tokenValues t
  if vs.isEmpty then l2s t.name else l2s (Str.join [' '] vs)

partial def astSexp : PyAst → String
  | .leaf t => leafText t
  | .unaryOp o e => s!"(U {l2s (opName o)} {astSexp e})"
  | .binOp o l r => s!"(B {l2s (opName o)} {astSexp l} {astSexp r})"
  | .boolOp o vs => s!"(L {l2s (opName o)}" ++ String.join (vs.map fun v => " " ++ astSexp v) ++ ")"
  | .compare l ops cs =>
    s!"(C {astSexp l}" ++ String.join ((ops.zip cs).map fun (o, c) => s!" {(l2s (opName o)).replace " " "_"} {astSexp c}") ++ ")"
  | .ifExp c b e => s!"(I {astSexp c} {astSexp b} {astSexp e})"
  | .lambda ps body => "(F [" ++ " ".intercalate (ps.map leafText) ++ s!"] {astSexp body})"
  | .bad => "bad"

structure St where
  root : Entry := .empty

def classesLine (root : Entry) : String :=
  "|".intercalate ((pathfy root []).map fun (p, _) =>
    let path := l2s (dsnJoin [root.name, encodePath p])
    match Classify.classify Generated.ResolverTable.table Generated.ResolverTable.fallback root p with
    | .ok c => s!"{path}={l2s c}"
    | .error er => s!"{path}={er.toString}")

def step (st : St) : List String → St × String
  | ["rd", t] =>
    match (lex Generated.GrammarLadder.statementStartWords (unhexD t)).bind (rdParseT Generated.GrammarLadder.ladder Generated.GrammarLadder.compOps Generated.GrammarLadder.softNameWords) with
    | some tr => (st, "ok " ++ treeSexp tr)
    | none => (st, "error")
  | ["pymin", sx] =>
    match readExpr sx with
    | some e => (st, "ok " ++ Str.hex (Str.join [' '] ((printMinT pyTable.ops e).map tokText)))
    | none => (st, "bad-op")
  | ["astof", sx] =>
    match readExpr sx with
    | some e => (st, astSexp (astOfT info e))
    | none => (st, "bad-op")
  | ["rdast", sx] =>
    match readExpr sx with
    | some e =>
      match rdParseTP info (printMinT pyTable.ops e) with
      | some tr => (st, astSexp (toAst tr))
      | none => (st, "error")
    | none => (st, "bad-op")
  | ["tree", sx] =>
    match Tree.parseSexp (sx.splitOn " ") with
    | some (e, []) => ({ st with root := e }, s!"ok {size e}")
    | _ => (st, "bad-op")
  | ["classes"] => (st, classesLine st.root)
  | ["args", sx] =>
    match Tree.parseSexp (sx.splitOn " ") with
    | some (e, []) => (st, "ok " ++ ",".intercalate ((readArgs e).map fun
        | .pos _ => "pos"
        | .kw l _ => "kw:" ++ leafText l
        | .star _ => "star"
        | .dstar _ => "dstar"))
    | _ => (st, "bad-op")
  | _ => (st, "bad-op")

def run : IO Unit := runFamily step ({} : St)

end Tranp.Driver.Ladder
