/-
  Driver family `emit` (property C01): one op per line, TAB separated:  <op> TAB <node>
  <node> is a blank-separated prefix encoding of `Tranp.Emit.Node`:
      a <id> <hextext>                               atom
      g <node> | n <node> | f pos|neg|inv <node>     group / not / factor
      c <lv> <fty> <k> <node> (<op> <0|1> <ty> <node>){k}    flat chain of ladder level lv
      t <primary> <cond> <secondary>                 ternary
  ops:
      emit     → ok <hex of the exact emitted text>
      toks     → ok <C++ tokens after maximal munch, blank separated>
      pytree   → ok <Python grouping (pyExprL), fully parenthesised, parens of Group nodes dropped> | none (outside the core)
      reparse  → ok <Prec.parse cppOps of the emitted tokens, fully parenthesised> | none
      wf       → true|false (node tree producible by the grammar)
      flags    → wf=… core=… cmpfree=… nofuse=… nobad=…
  three-token ops  <op> TAB <env> TAB <node>   with <env> = blank-separated  <atom id>:i<int> | <atom id>:b<0|1>
      evalpy   → ok i:<int> | ok b:<0|1> | out          (Tranp.Emit.denotePy)
      evalcpp  → ok <int> | ub | noparse                (denoteCpp of Prec.parse cppOps (emitted tokens))
-/
import Tranp.Driver.Common
import Tranp.Model.Emit
import Tranp.Model.EmitSem

namespace Tranp.Driver.EmitFam
open Tranp Tranp.Emit Tranp.Driver

def parseUOp : String → Option UOp
  | "pos" => some .pos | "neg" => some .neg | "inv" => some .inv | _ => none

def parseBOp (s : String) : Option BOp :=
  allBOps.find? fun o => l2s o.tok == s

def parseTy : String → Option Ty
  | "int" => some .int | "float" => some .float | "double" => some .double | "bool" => some .bool | "other" => some .other | _ => none

mutual
partial def parseNode : List String → Option (Node × List String)
  | "a" :: id :: tx :: rest => match id.toNat?, Str.unhex tx with
    | some i, some t => some (.atom i t, rest)
    | _, _ => none
  | "g" :: rest => (parseNode rest).map fun (e, r) => (.group e, r)
  | "n" :: rest => (parseNode rest).map fun (e, r) => (.notCompare e, r)
  | "f" :: op :: rest => match parseUOp op, parseNode rest with
    | some o, some (e, r) => some (.factor o e, r)
    | _, _ => none
  | "c" :: lv :: fty :: k :: rest => match lv.toNat?, parseTy fty, k.toNat?, parseNode rest with
    | some l, some t, some kk, some (first, r) => (parseRest kk r).map fun (rs, r') => (.chain l t first rs, r')
    | _, _, _, _ => none
  | "t" :: rest => match parseNode rest with
    | some (p, r1) => match parseNode r1 with
      | some (c, r2) => (parseNode r2).map fun (s, r3) => (.ternary p c s, r3)
      | none => none
    | none => none
  | _ => none
partial def parseRest : Nat → List String → Option (Rest × List String)
  | 0, ts => some (.nil, ts)
  | k + 1, op :: d :: ty :: rest => match parseBOp op, parseTy ty, parseNode rest with
    | some o, some t, some (e, r) => (parseRest k r).map fun (rs, r') => (.cons o (d == "1") t e rs, r')
    | _, _, _ => none
  | _, _ => none
end

mutual
partial def atomTexts : Node → List (Nat × Str)
  | .atom i t => [(i, t)]
  | .group e | .factor _ e | .notCompare e => atomTexts e
  | .chain _ _ f r => atomTexts f ++ atomTextsR r
  | .ternary p c s => atomTexts p ++ atomTexts c ++ atomTexts s
partial def atomTextsR : Rest → List (Nat × Str)
  | .nil => []
  | .cons _ _ _ e r => atomTexts e ++ atomTextsR r
end

def symText (code : Nat) : String :=
  match cppSyms[code - 1]? with
  | some s => if code = 0 then "?" else l2s s
  | none => "?"

/-- fully parenthesised print; `paren` nodes are transparent -/
partial def full (names : List (Nat × Str)) : Prec.Expr → String
  | .atom i => match names.lookup i with
    | some t => l2s t
    | none => s!"#{i}"
  | .bin o l r => s!"({full names l} {symText o} {full names r})"
  | .pre o e => s!"({symText o}{full names e})"
  | .paren e => full names e

def parseEnv (s : String) : Env :=
  let items := (s.splitOn " ").filterMap fun it =>
    match it.splitOn ":" with
    | [id, v] => match id.toNat? with
      | some i =>
        if v.startsWith "i" then (v.drop 1).toString.toInt?.map fun x => (i, Val.int x)
        else if v.startsWith "b" then some (i, Val.bool ((v.drop 1).toString == "1"))
        else none
      | none => none
    | _ => none
  fun i => (items.lookup i).getD (.int 0)

def step (st : Unit) : List String → Unit × String
  | [op, env, enc] =>
    match parseNode ((enc.splitOn " ").filter (· ≠ "")) with
    | some (n, []) =>
      let ρ := parseEnv env
      let out := match op with
        | "evalpy" => match denotePy ρ n with
          | .ok (.int i) => s!"ok i:{i}"
          | .ok (.bool b) => s!"ok b:{if b then 1 else 0}"
          | .error _ => "out"
        | "evalcpp" => match Prec.parse cppOps (Emit.toks n) with
          | some e => match denoteCpp ρ e with
            | .ok i => s!"ok {i}"
            | .error _ => "ub"
          | none => "noparse"
        | _ => "bad-op"
      (st, out)
    | _ => (st, "bad-op")
  | [op, enc] =>
    match parseNode ((enc.splitOn " ").filter (· ≠ "")) with
    | some (n, []) =>
      let names := atomTexts n
      let out := match op with
        | "emit" => "ok " ++ Str.hex (text (emitRaw n))
        | "toks" => "ok " ++ " ".intercalate ((emit n).map fun k => l2s k.text)
        | "pytree" => if core n then "ok " ++ full names (pyExprL n) else "none"
        | "reparse" => match Prec.parse cppOps (Emit.toks n) with
          | some e => "ok " ++ full names e
          | none => "none"
        | "wf" => s!"{wf n}"
        | "flags" => s!"wf={wf n} core={core n} cmpfree={cmpChainFree n} nofuse={noFuse n} nobad={noBadPair n}"
        | _ => "bad-op"
      (st, out)
    | _ => (st, "bad-op")
  | _ => (st, "bad-op")

def run : IO Unit := runFamily step ()

end Tranp.Driver.EmitFam
