/-
  Driver family `emit` (property C01): one op per line, TAB separated:  <op> TAB <node>
  <node> is a blank-separated prefix encoding of `Tranp.Emit.Node`:
      a <id> <hextext>                               atom
      g <node> | n <node> | f pos|neg|inv <node>     group / not / factor
      c <lv> <fty> <k> <node> (<op> <0|1> <ty> <node>){k}    flat chain of ladder level lv
      t <primary> <cond> <secondary>                 ternary
  ops:
      emit     → ok <hex of the exact emitted text>
      toks     → ok <C++ tokens after maximal munch, blank separated>
      pytree   → ok <Python grouping (pyExprL), fully parenthesised, parens of Group nodes dropped> | none (outside the core)
      reparse  → ok <Prec.parse cppOps of the emitted tokens, fully parenthesised> | none
      wf       → true|false (node tree producible by the grammar)
      flags    → wf=… core=… cmpfree=… nofuse=… nobad=…
      parsew   → ok <the wrapper grammar's reading of the emitted tokens (parseX, fuel 4·tokens+8), fully parenthesised> | none
  three-token ops  <op> TAB <env> TAB <node>   with <env> = blank-separated  <atom id>:i<int> | <atom id>:b<0|1> | <atom id>:f<n> (float n/4096)
      evalpy   → ok i:<int> | ok b:<0|1> | ok f:<n> | out | tagmismatch      (Tranp.Emit.pyEval over Lean's Float)
      evalcpp  → ok <int> | ok f:<n> | ub | unsupported | noparse           (cEvalX of parseX (emitted tokens))
  statements  (<block> = B <n> <stmt>{n};  <stmt> = A <var id> <hexname> <hextype> <node> | U <var id> <hexname> <op> <node> | R <node> | W <node> <block>
                                                      | I <k> (<node> <block>){k} <0|1 has else> <block>
                                                      | F <var id> <hexname> <begin node> <stop node> <step node> <block>
                                                      | K (break) | C (continue)):
      stmtemit TAB <param ids> TAB <block>                       → ok <hex line>|<hex line>|…   (emitLines typeOf (annotate params block);
                                                                    typeOf e = the <hextype> given with the assignment of e)
      stmtpy   TAB <param id>=<int> … TAB <lits: env syntax> TAB <fuel> TAB <block>   → scope=<scopeOK> py=<ret n | end | out>   (pyExec)
      stmtcpp  TAB (same)                                                            → cpp=<ret n | end | ub>    (cExec of annotate params block)
-/
import Tranp.Driver.Common
import Tranp.Model.Emit
import Tranp.Model.EmitSem
import Tranp.Model.EmitSemW
import Tranp.Model.EmitStmt

namespace Tranp.Driver.EmitFam
open Tranp Tranp.Emit Tranp.Driver

def parseUOp : String → Option UOp
  | "pos" => some .pos | "neg" => some .neg | "inv" => some .inv | _ => none

def parseBOp (s : String) : Option BOp :=
  allBOps.find? fun o => l2s o.tok == s

def parseTy : String → Option Ty
  | "int" => some .int | "float" => some .float | "double" => some .double | "bool" => some .bool | "other" => some .other | _ => none

mutual
partial def parseNode : List String → Option (Node × List String)
  | "a" :: id :: tx :: rest => match id.toNat?, Str.unhex tx with
    | some i, some t => some (.atom i t, rest)
    | _, _ => none
  | "g" :: rest => (parseNode rest).map fun (e, r) => (.group e, r)
  | "n" :: rest => (parseNode rest).map fun (e, r) => (.notCompare e, r)
  | "f" :: op :: rest => match parseUOp op, parseNode rest with
    | some o, some (e, r) => some (.factor o e, r)
    | _, _ => none
  | "c" :: lv :: fty :: k :: rest => match lv.toNat?, parseTy fty, k.toNat?, parseNode rest with
    | some l, some t, some kk, some (first, r) => (parseRest kk r).map fun (rs, r') => (.chain l t first rs, r')
    | _, _, _, _ => none
  | "t" :: rest => match parseNode rest with
    | some (p, r1) => match parseNode r1 with
      | some (c, r2) => (parseNode r2).map fun (s, r3) => (.ternary p c s, r3)
      | none => none
    | none => none
  | _ => none
partial def parseRest : Nat → List String → Option (Rest × List String)
  | 0, ts => some (.nil, ts)
  | k + 1, op :: d :: ty :: rest => match parseBOp op, parseTy ty, parseNode rest with
    | some o, some t, some (e, r) => (parseRest k r).map fun (rs, r') => (.cons o (d == "1") t e rs, r')
    | _, _, _ => none
  | _, _ => none
end

mutual
partial def atomTexts : Node → List (Nat × Str)
  | .atom i t => [(i, t)]
  | .group e | .factor _ e | .notCompare e => atomTexts e
  | .chain _ _ f r => atomTexts f ++ atomTextsR r
  | .ternary p c s => atomTexts p ++ atomTexts c ++ atomTexts s
partial def atomTextsR : Rest → List (Nat × Str)
  | .nil => []
  | .cons _ _ _ e r => atomTexts e ++ atomTextsR r
end

def symText (code : Nat) : String :=
  match cppSyms[code - 1]? with
  | some s => if code = 0 then "?" else l2s s
  | none => "?"

/-- fully parenthesised print; `paren` nodes are transparent -/
partial def full (names : List (Nat × Str)) : Prec.Expr → String
  | .atom i => match names.lookup i with
    | some t => l2s t
    | none => s!"#{i}"
  | .bin o l r => s!"({full names l} {symText o} {full names r})"
  | .pre o e => s!"({symText o}{full names e})"
  | .paren e => full names e

/-- finite binary64 as mantissa · 2^exponent -/
def ratParts (x : Float) : Option (Int × Int) :=
  let b := x.toBits.toNat
  let sign : Int := if b / 2 ^ 63 = 1 then -1 else 1
  let ex : Nat := (b / 2 ^ 52) % 2048
  let fr : Nat := b % 2 ^ 52
  if ex = 2047 then none
  else if ex = 0 then some (sign * (fr : Int), -1074)
  else some (sign * ((fr + 2 ^ 52 : Nat) : Int), (ex : Int) - 1075)

/-- C `fmod`, exact (the remainder of the two binary64 values as rationals, sign of the dividend; always representable) -/
def exactFmod (x y : Float) : Float :=
  match ratParts x, ratParts y with
  | some (m1, e1), some (m2, e2) =>
    if m2 == 0 then 0.0 / 0.0 else
    let e := min e1 e2
    let X := m1 * (2 : Int) ^ (e1 - e).toNat
    let Y := m2 * (2 : Int) ^ (e2 - e).toNat
    let r := Int.tmod X Y
    if r == 0 then (if m1 < 0 then -0.0 else 0.0) else (Float.ofInt r).scaleB e
  | some _, none => if y.isInf then x else 0.0 / 0.0
  | _, _ => 0.0 / 0.0

/-- CPython `float_rem` (Objects/floatobject.c): `fmod`, moved to the sign of the divisor -/
def pyFloatMod (x y : Float) : Float :=
  let m := exactFmod x y
  if m != 0 then (if (y < 0) != (m < 0) then m + y else m) else (if y < 0 then -0.0 else 0.0)

/-- Lean's binary64 `Float` as the interpretation of the abstract float operations (driver only) -/
def floatOps : FOps Float where
  ofInt := Float.ofInt
  add := (· + ·)
  sub := (· - ·)
  mul := (· * ·)
  div := (· / ·)
  neg := fun x => -x
  fmod := exactFmod
  pyMod := pyFloatMod
  lt := fun x y => x < y
  le := fun x y => x ≤ y
  eq := fun x y => x == y
  isZero := fun x => x == 0
  nonneg := fun x => x ≥ 0
  pos := fun x => x > 0

def showF (x : Float) : String :=
  if !x.isFinite then "f:nonfinite"
  else if (x * 4096.0).abs < 4.0e18 then s!"f:{(x * 4096.0).toInt64}"
  else if x < 0 then "f:-big" else "f:big"   -- beyond int64 after scaling: only the sign is printed (the C++ side prints the same)

def parseEnvF (s : String) : PEnv Float :=
  let items := (s.splitOn " ").filterMap fun it =>
    match it.splitOn ":" with
    | [id, v] => match id.toNat? with
      | some i =>
        if v.startsWith "i" then (v.drop 1).toString.toInt?.map fun x => (i, PVal.int x)
        else if v.startsWith "b" then some (i, PVal.bool ((v.drop 1).toString == "1"))
        else if v.startsWith "f" then (v.drop 1).toString.toInt?.map fun x => (i, PVal.flt (Float.ofInt x / 4096.0))
        else none
      | none => none
    | _ => none
  fun i => (items.lookup i).getD (.int 0)

mutual
partial def showX (names : List (Nat × Str)) : X → String
  | .plain o => showO names o
  | .tern c a b => s!"({showO names c} ? {showX names a} : {showX names b})"
partial def showO (names : List (Nat × Str)) : O → String
  | .leaf b s => showB names b ++ showSufs names s
  | .bin o l r => s!"({showO names l} {symText o} {showO names r})"
  | .pre o e => s!"({symText o}{showO names e})"
partial def showB (names : List (Nat × Str)) : B → String
  | .atom i => match names.lookup i with
    | some t => l2s t
    | none => s!"#{i}"
  | .name n => l2s n
  | .paren x => showX names x
partial def showSufs (names : List (Nat × Str)) : Sufs → String
  | .nil => ""
  | .member n rest => "." ++ l2s n ++ showSufs names rest
  | .call args rest => "(" ++ ", ".intercalate (showArgs names args) ++ ")" ++ showSufs names rest
partial def showArgs (names : List (Nat × Str)) : Args → List String
  | .nil => []
  | .cons x rest => showX names x :: showArgs names rest
end

def parseW (n : Node) : Option X :=
  let ts := toksW n
  match parseX (4 * ts.length + 8) ts with
  | some (x, []) => some x
  | _ => none

def parseEnv (s : String) : Env :=
  let items := (s.splitOn " ").filterMap fun it =>
    match it.splitOn ":" with
    | [id, v] => match id.toNat? with
      | some i =>
        if v.startsWith "i" then (v.drop 1).toString.toInt?.map fun x => (i, Val.int x)
        else if v.startsWith "b" then some (i, Val.bool ((v.drop 1).toString == "1"))
        else none
      | none => none
    | _ => none
  fun i => (items.lookup i).getD (.int 0)

def stepExpr (st : Unit) : List String → Unit × String
  | [op, env, enc] =>
    match parseNode ((enc.splitOn " ").filter (· ≠ "")) with
    | some (n, []) =>
      let ρ := parseEnvF env
      let out := match op with
        | "evalpy" => match pyEval floatOps ρ n with
          | .ok (.int i) => s!"ok i:{i}"
          | .ok (.bool b) => s!"ok b:{if b then 1 else 0}"
          | .ok (.flt x) => "ok " ++ showF x
          | .error .tagMismatch => "tagmismatch"
          | .error _ => "out"
        | "evalcpp" => match parseW n with
          | some x => match cEvalX floatOps ρ x with
            | .ok (.i i) => s!"ok {i}"
            | .ok (.f x) => "ok " ++ showF x
            | .error .unsupported => "unsupported"
            | .error _ => "ub"
          | none => "noparse"
        | _ => "bad-op"
      (st, out)
    | _ => (st, "bad-op")
  | [op, enc] =>
    match parseNode ((enc.splitOn " ").filter (· ≠ "")) with
    | some (n, []) =>
      let names := atomTexts n
      let out := match op with
        | "emit" => "ok " ++ Str.hex (text (emitRaw n))
        | "toks" => "ok " ++ " ".intercalate ((emit n).map fun k => l2s k.text)
        | "pytree" => if core n then "ok " ++ full names (pyExprL n) else "none"
        | "reparse" => match Prec.parse cppOps (Emit.toks n) with
          | some e => "ok " ++ full names e
          | none => "none"
        | "parsew" => match parseW n with
          | some x => "ok " ++ showX names x
          | none => "none"
        | "wf" => s!"{wf n}"
        | "flags" => s!"wf={wf n} core={core n} cmpfree={cmpChainFree n} nofuse={noFuse n} nobad={noBadPair n}"
        | _ => "bad-op"
      (st, out)
    | _ => (st, "bad-op")
  | _ => (st, "bad-op")

mutual
partial def parseBlockN : Nat → List String → Option (Block × List (Node × Str) × List String)
  | 0, ts => some (.nil, [], ts)
  | k + 1, ts => match parseStmt ts with
    | some (st, ty1, r) => (parseBlockN k r).map fun (b, ty2, r') => (.cons st b, ty1 ++ ty2, r')
    | none => none
partial def parseBlock : List String → Option (Block × List (Node × Str) × List String)
  | "B" :: n :: rest => match n.toNat? with
    | some k => parseBlockN k rest
    | none => none
  | _ => none
partial def parseStmt : List String → Option (Stmt × List (Node × Str) × List String)
  | "A" :: v :: name :: ty :: rest => match v.toNat?, Str.unhex name, Str.unhex ty, parseNode rest with
    | some i, some nm, some t, some (e, r) => some (.assign i nm e, [(e, t)], r)
    | _, _, _, _ => none
  | "R" :: rest => (parseNode rest).map fun (e, r) => (.ret e, [], r)
  | "K" :: rest => some (.brk, [], rest)
  | "C" :: rest => some (.cont, [], rest)
  | "U" :: v :: name :: op :: rest => match v.toNat?, Str.unhex name, parseBOp op, parseNode rest with
    | some i, some nm, some o, some (e, r) => some (.aug i nm o e, [], r)
    | _, _, _, _ => none
  | "W" :: rest => match parseNode rest with
    | some (c, r) => (parseBlock r).map fun (b, ty, r') => (.while_ c b, ty, r')
    | none => none
  | "F" :: v :: name :: rest => match v.toNat?, Str.unhex name, parseNode rest with
    | some i, some nm, some (b0, r0) => match parseNode r0 with
      | some (s0, r1) => match parseNode r1 with
        | some (t0, r2) => (parseBlock r2).map fun (b, ty, r') => (.forRange i nm b0 s0 t0 b, ty, r')
        | none => none
      | none => none
    | _, _, _ => none
  | "I" :: k :: rest => match k.toNat? with
    | some (kk + 1) => match parseArms kk rest with
      | some (arms, ty1, he :: r) => (parseBlock r).map fun (els, ty2, r') => (.ifs arms (he == "1") els, ty1 ++ ty2, r')
      | _ => none
    | _ => none
  | _ => none
/-- `k` + 1 arms -/
partial def parseArms : Nat → List String → Option (Arms × List (Node × Str) × List String)
  | k, ts => match parseNode ts with
    | some (c, r) => match parseBlock r with
      | some (b, ty1, r') => match k with
        | 0 => some (.one c b, ty1, r')
        | k' + 1 => (parseArms k' r').map fun (rest, ty2, r'') => (.more c b rest, ty1 ++ ty2, r'')
      | none => none
    | none => none
end

def blockOf (enc : String) : Option (Block × List (Node × Str)) :=
  match parseBlock ((enc.splitOn " ").filter (· ≠ "")) with
  | some (b, tys, []) => some (b, tys)
  | _ => none

def parseLits (s : String) : Lits :=
  let items := (s.splitOn " ").filterMap fun it =>
    match it.splitOn ":" with
    | [id, v] => match id.toNat? with
      | some i =>
        if v.startsWith "i" then (v.drop 1).toString.toInt?.map fun x => (i, Val.int x)
        else if v.startsWith "b" then some (i, Val.bool ((v.drop 1).toString == "1"))
        else none
      | none => none
    | _ => none
  fun i => items.lookup i

def parseArgs (s : String) : Store :=
  (s.splitOn " ").filterMap fun it =>
    match it.splitOn "=" with
    | [id, v] => match id.toNat?, v.toInt? with
      | some i, some x => some (i, x)
      | _, _ => none
    | _ => none

def showOut {S : Type} (bad : String) : Except Err (Outcome S) → String
  | .ok (.returned v) => s!"ret {v}"
  | .ok (.normal _) => "end"
  | .ok (.broke _) => "break"
  | .ok (.continued _) => "continue"
  | .error _ => bad

def stepStmt : List String → Option String
  | ["stmtemit", params, enc] =>
    match blockOf enc with
    | some (b, tys) =>
      let ps := (params.splitOn " ").filterMap String.toNat?
      let tyOf : Node → Str := fun e => ((tys.find? fun p => p.1 == e).map (·.2)).getD ['?']
      some ("ok " ++ "|".intercalate ((emitLines tyOf (annotate ps b)).map Str.hex))
    | none => some "bad-op"
  | [op, args, lits, fuel, enc] =>
    match blockOf enc, fuel.toNat? with
    | some (b, _), some f =>
      let σ := parseArgs args
      let ps := σ.map (·.1)
      let ls := parseLits lits
      match op with
      | "stmtpy" => some s!"scope={scopeOK ls [ps] b} py={showOut "out" (pyExec ls f σ b)}"
      | "stmtcpp" => some s!"cpp={showOut "ub" (cExec ls f [σ] (annotate ps b))}"
      | _ => some "bad-op"
    | _, _ => some "bad-op"
  | _ => none

def step (st : Unit) (line : List String) : Unit × String :=
  match stepStmt line with
  | some out => (st, out)
  | none => stepExpr st line

def run : IO Unit := runFamily step ()

end Tranp.Driver.EmitFam
