/-
  Driver family `entry` (property C15): ops over one current lark entry.

    tree <sexp>          sexp tokens (space separated):
                           _                                         None
                           t:<typehex>:<valuehex>:<p>,<p>,<p>,<p>    Token, p = N | int   (line, column, end_line, end_column)
                           ( <namehex> <meta> child … )              Tree, meta = - | E:<a>,<a>,<a>,<a> | F:<a>,<a>,<a>,<a>
                                                                     (E = meta.empty True, F = False; a = A(bsent) | N | int)
                                                                     → ok <entries>
    view                 → the EntryOfLark view, pre-order:  [ namehex hasChild isTerminal valuehex isEmpty sm child … ]
                           sm = l,c,el,ec (N = None) | !<error>
    dumpj                → ok <json value of dumps>  | <error>        value tokens: n T F i<int> s<hex> [ … ] { keyhex value … }
    rt                   → ok <view of loads(json image of dumps)>  | <error>
    loads <pyval>        → ok <view of loads(value)> | <error>        value tokens as above plus < … > for tuples
    print                → ok <hex of the text EntryStored.save writes for the current entry> | <error>
    printv <pyval>       → ok <hex of json.dumps(value, separators=(',', ':'))>
    parse <texthex>      → ok <json value of json.loads(text)> | none
    ident <valhex,valhex> → ok <hex of str(identity)> for the tree cache identity filled with these values
    rttext               → ok <view of loads(json.loads(json.dumps(dumps)))> | <error>
-/
import Tranp.Driver.Common
import Tranp.Model.LarkEntry
import Tranp.Model.JsonCodec
import Tranp.Model.CacheShape

namespace Tranp.Driver.Entry
open Tranp Tranp.Lark Tranp.Driver

def parsePos (s : String) : Option Pos :=
  if s == "N" then some none else (s.toInt?).map some

def parseAttr (s : String) : Option Attr :=
  if s == "A" then some .absent else (parsePos s).map .val

def parseMeta (s : String) : Option (Option Meta) :=
  if s == "-" then some none else
  match s.splitOn ":" with
  | [flag, rest] =>
    match (rest.splitOn ",").mapM parseAttr with
    | some [a, b, c, d] =>
      if flag == "E" then some (some ⟨true, a, b, c, d⟩)
      else if flag == "F" then some (some ⟨false, a, b, c, d⟩)
      else none
    | _ => none
  | _ => none

partial def parseSexp : List String → Option (LarkEntry × List String)
  | "_" :: rest => some (.empty, rest)
  | "(" :: name :: m :: rest =>
    let rec kids (acc : List LarkEntry) (ts : List String) : Option (List LarkEntry × List String) :=
      match ts with
      | ")" :: rest' => some (acc.reverse, rest')
      | [] => none
      | ts' => match parseSexp ts' with
        | some (e, rest') => kids (e :: acc) rest'
        | none => none
    match Str.unhex name, parseMeta m, kids [] rest with
    | some n, some mt, some (cs, rest') => some (.tree n cs mt, rest')
    | _, _, _ => none
  | tok :: rest =>
    match tok.splitOn ":" with
    | ["t", ty, v, ps] =>
      match Str.unhex ty, Str.unhex v, (ps.splitOn ",").mapM parsePos with
      | some ty', some v', some [a, b, c, d] => some (.token ty' v' ⟨a, b, c, d⟩, rest)
      | _, _, _ => none
    | _ => none
  | [] => none

def showPos : Pos → String
  | some n => toString n
  | none => "N"

def showSM : Except Err SM → String
  | .ok sm => s!"{showPos sm.bl},{showPos sm.bc},{showPos sm.el},{showPos sm.ec}"
  | .error e => "!" ++ e.toString

def showBool (b : Bool) : String := if b then "1" else "0"

partial def showViewAcc (acc : Array String) : View → Array String
  | .mk n hc cs it v ie sm =>
    let acc := acc.push s!"[ {Str.hex n} {showBool hc} {showBool it} {Str.hex v} {showBool ie} {showSM sm}"
    let acc := cs.foldl showViewAcc acc
    acc.push "]"

def showView (v : View) : String := " ".intercalate (showViewAcc #[] v).toList

partial def showJsonAcc (acc : Array String) : Json → Array String
  | .null => acc.push "n"
  | .bool b => acc.push (if b then "T" else "F")
  | .num i => acc.push s!"i{i}"
  | .str s => acc.push s!"s{Str.hex s}"
  | .arr xs => (xs.foldl showJsonAcc (acc.push "[")).push "]"
  | .obj kvs => (kvs.foldl (fun a kv => showJsonAcc (a.push (Str.hex kv.1)) kv.2) (acc.push "{")).push "}"

def showJson (j : Json) : String := " ".intercalate (showJsonAcc #[] j).toList

partial def parseVal : List String → Option (PyVal × List String)
  | "n" :: rest => some (.none, rest)
  | "T" :: rest => some (.bool true, rest)
  | "F" :: rest => some (.bool false, rest)
  | "[" :: rest => (items "]" [] rest).map fun (xs, r) => (.list xs, r)
  | "<" :: rest => (items ">" [] rest).map fun (xs, r) => (.tuple xs, r)
  | "{" :: rest =>
    let rec kvs (acc : List (Str × PyVal)) (ts : List String) : Option (List (Str × PyVal) × List String) :=
      match ts with
      | "}" :: r => some (acc.reverse, r)
      | k :: r => match Str.unhex k, parseVal r with
        | some k', some (v, r') => kvs ((k', v) :: acc) r'
        | _, _ => none
      | [] => none
    (kvs [] rest).map fun (x, r) => (.dict x, r)
  | tok :: rest =>
    if tok.startsWith "i" then ((tok.drop 1).toString.toInt?).map fun i => (.int i, rest)
    else if tok.startsWith "s" then (Str.unhex (tok.drop 1).toString).map fun s => (.str s, rest)
    else none
  | [] => none
where
  items (close : String) (acc : List PyVal) (ts : List String) : Option (List PyVal × List String) :=
    match ts with
    | [] => none
    | t :: r =>
      if t == close then some (acc.reverse, r)
      else match parseVal (t :: r) with
        | some (v, r') => items close (v :: acc) r'
        | none => none

partial def sizeOfEntry : LarkEntry → Nat
  | .tree _ cs _ => cs.foldl (fun n c => n + sizeOfEntry c) 1
  | _ => 1

structure St where
  t : LarkEntry := .empty

def step (st : St) : List String → St × String
  | ["tree", sx] =>
    match parseSexp (sx.splitOn " ") with
    | some (e, []) => ({ st with t := e }, s!"ok {sizeOfEntry e}")
    | _ => (st, "bad-op")
  | ["view"] => (st, showView (view st.t))
  | ["dumpj"] =>
    match dumps st.t with
    | .ok d => (st, "ok " ++ showJson (toJson d))
    | .error e => (st, e.toString)
  | ["rt"] =>
    match storeLoad st.t with
    | .ok t' => (st, "ok " ++ showView (view t'))
    | .error e => (st, e.toString)
  | ["loads", v] =>
    match parseVal (v.splitOn " ") with
    | some (pv, []) =>
      match loads pv with
      | .ok t' => (st, "ok " ++ showView (view t'))
      | .error e => (st, e.toString)
    | _ => (st, "bad-op")
  | ["print"] =>
    match dumps st.t with
    | .ok d => (st, "ok " ++ Str.hex (printJson (toJson d)))
    | .error e => (st, e.toString)
  | ["printv", v] =>
    match parseVal (v.splitOn " ") with
    | some (pv, []) => (st, "ok " ++ Str.hex (printJson (toJson pv)))
    | _ => (st, "bad-op")
  | ["parse", t] =>
    match Str.unhex t with
    | some txt => (st, match parseJson txt with
      | some j => "ok " ++ showJson j
      | none => "none")
    | none => (st, "bad-op")
  | ["ident", vs] =>
    match (vs.splitOn ",").mapM Str.unhex with
    | some vals => (st, "ok " ++ Str.hex (Shape.pyStrDict (Shape.treeIdentityOf vals)))
    | none => (st, "bad-op")
  | ["rttext"] =>
    match storeLoadText st.t with
    | .ok t' => (st, "ok " ++ showView (view t'))
    | .error e => (st, e.toString)
  | _ => (st, "bad-op")

def run : IO Unit := runFamily step ({} : St)

end Tranp.Driver.Entry
