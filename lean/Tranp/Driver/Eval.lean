/-
  Driver family `eval` (property C17): both evaluators of Tranp.Model.Evaluator over one current environment.

    env <known,hex,…> <members>        members = `m:<keyhex> E m:<keyhex> E …` in source order          → ok <count>
        E = i:<tokhex> | f:<tokhex> | s:<tokhex> | v:<keyhex>:<T> | r:<enumhex>:<keyhex>:<T>
          (T = what Reflections.type_of raised at that node: `-` | Errors.<Cls> | Errors.Fatal.<Exc>)
          | ( factor <ophex> E ) | ( chain <handlerhex> E <ophex> E … ) | ( group E ) | ( call <fnhex> E … )
    oracle <key> <answer>              one observation of the float interpretation (see below)           → ok
    impl <keyhex>                      execImpl of that member in the whole environment                  → value | error
    emit <keyhex> <T> <varTypeHex> <0|1> emitValue of that member (T = type_of outcome, printed type name, type_is(str)) → text <hex> | error
    unesc <bodyhex>                    decodeEsc of a string-literal body (octal, \\xhh and one-character escapes) → hex
    joins <lhex> <rhex>                joinsEscape of two bodies                                               → true | false
    cppread <bodyhex>                  cppBytes: the bytes of the C++ narrow string literal "body" (Model/CppLiteral.lean)   → none | bytes <hex of the bytes, - if none>
    cppsafe <bodyhex>                  cppSafe: the body is read alike by CPython and C++ (guard of C17.cpp_reads_python)    → true | false
    pyutf8 <bodyhex>                   utf8s (decodeEsc body): the UTF-8 bytes of what CPython reads                       → bytes <hex>
    py <mode> <keyhex>                 evalPy (mode = py | strict) of that member with the members before it bound → value | error

  values:  int <decimal> | float <float.hex from the oracle> | str <hex of the string>
  errors:  Errors.OperationNotAllowed | Errors.UnresolvedSymbol | Errors.Fatal:<PythonException>   (impl)
           <PythonException> | unsupported | excluded                                               (py)
           need <key>     — the float interpretation was asked something the oracle does not hold yet

  `float` is the term algebra `FTerm`; the operations that observe a float (does `/` raise, `int(x)`, `str(x)`, the final
  `float.hex`) are answered from the oracle table, which the harness fills by evaluating the printed term with CPython floats.
  keys:  ok:<term> → ok | <Exception>      toInt:<term> → ok:<decimal> | <Exception>      str:<term> → <hex>      hex:<term> → <text>
  terms: P<hex> | I<int> | A(a,b) | S(a,b) | M(a,b) | D(a,b) | R(a,b) | N(a) | T(<int>,<int>)
-/
import Tranp.Driver.Common
import Tranp.Model.Evaluator
import Tranp.Model.EmitValue
import Tranp.Model.CppLiteral

namespace Tranp.Driver.Eval
open Tranp Tranp.Evaluator Tranp.Driver

def render : FTerm → String
  | .parse s => "P" ++ Str.hex s
  | .ofInt n => "I" ++ toString n
  | .add a b => "A(" ++ render a ++ "," ++ render b ++ ")"
  | .sub a b => "S(" ++ render a ++ "," ++ render b ++ ")"
  | .mul a b => "M(" ++ render a ++ "," ++ render b ++ ")"
  | .div a b => "D(" ++ render a ++ "," ++ render b ++ ")"
  | .mod a b => "R(" ++ render a ++ "," ++ render b ++ ")"
  | .neg a => "N(" ++ render a ++ ")"
  | .truediv a b => "T(" ++ toString a ++ "," ++ toString b ++ ")"

def excOfName (s : String) : PyExc :=
  if s == "ZeroDivisionError" then .zeroDivision
  else if s == "ValueError" then .valueError
  else if s == "OverflowError" then .overflowError
  else if s == "TypeError" then .typeError
  else if s == "RecursionError" then .recursionError
  else if s == "IndexError" then .indexError
  else if s == "NameError" then .nameError
  else .other (s2l s)

def excName : PyExc → String
  | .zeroDivision => "ZeroDivisionError"
  | .valueError => "ValueError"
  | .overflowError => "OverflowError"
  | .typeError => "TypeError"
  | .indexError => "IndexError"
  | .nameError => "NameError"
  | .recursionError => "RecursionError"
  | .syntaxError => "SyntaxError"
  | .unsupported => "unsupported"
  | .excluded => "excluded"
  | .other t => l2s t

abbrev Oracle := List (String × String)

/-- "the oracle has no answer for `key` yet": travels as a Python exception (partial operations) or, for the total `str(x)`,
    as a marked substring `\x00need <key>\x01` of the produced text. -/
def need (key : String) : PyExc := .other (s2l ("\x00need " ++ key ++ "\x01"))

def findNeed (t : Str) : Option String :=
  match (l2s t).splitOn "\x00need " with
  | _ :: k :: _ => match k.splitOn "\x01" with
    | k' :: _ => some ("need " ++ k')
    | [] => none
  | _ => none

/-- a partial constructor: the oracle says whether CPython raises. -/
def guarded (o : Oracle) (t : FTerm) : Except PyExc FTerm :=
  let key := "ok:" ++ render t
  match o.lookup key with
  | some "ok" => .ok t
  | some exc => .error (excOfName exc)
  | none => .error (need key)

/-- `float(n)` overflows exactly when |n| rounds to 2^1024: |n| ≥ 2^1024 − 2^970 (round-half-even at the midpoint). -/
def intFits (n : Int) : Bool := n.natAbs < 2 ^ 1024 - 2 ^ 970

/-- CPython's floats, symbolically. -/
def symOps (o : Oracle) : FloatOps FTerm where
  add := .add
  sub := .sub
  mul := .mul
  div a b := guarded o (.div a b)
  mod a b := guarded o (.mod a b)
  neg := .neg
  ofInt n := if intFits n then .ok (.ofInt n) else .error .overflowError
  toInt t :=
    let key := "toInt:" ++ render t
    match o.lookup key with
    | some ans =>
      if ans.startsWith "ok:" then
        match (ans.drop 3).toString.toInt? with
        | some n => .ok n
        | none => .error (.other (s2l ("bad-oracle " ++ key)))
      else .error (excOfName ans)
    | none => .error (need key)
  parse s :=
    match findNeed s with
    | some n => .error (.other (s2l ("\x00" ++ n ++ "\x01")))
    | none => guarded o (.parse s)
  toStr t :=
    match o.lookup ("str:" ++ render t) with
    | some h => unhexD h
    | none => s2l ("\x00\x00need str:" ++ render t ++ "\x01\x01")   -- doubled ends: survives one `[1:-1]`
  truediv a b := guarded o (.truediv a b)

/-! ### parsing the expression encoding -/

def parseErr (s : String) : Option TyErr :=
  if s == "-" then none
  else if s == "Errors.OperationNotAllowed" then some .notAllowed
  else if s == "Errors.UnresolvedSymbol" then some .unresolvedSymbol
  else if s == "Errors.Fatal.RecursionError" then some .recursion
  else if s.startsWith "Errors.Fatal." then some (.other (s2l ("Fatal:" ++ (s.drop 13).toString)))
  else if s.startsWith "Errors." then some (.other (s2l (s.drop 7).toString))
  else some (.other (s2l s))

partial def parseExpr : List String → Option (Expr × List String)
  | "(" :: "factor" :: op :: rest =>
    match parseExpr rest with
    | some (e, ")" :: rest') => some (.factor (unhexD op) e, rest')
    | _ => none
  | "(" :: "group" :: rest =>
    match parseExpr rest with
    | some (e, ")" :: rest') => some (.group e, rest')
    | _ => none
  | "(" :: "chain" :: handler :: rest =>
    match parseExpr rest with
    | some (first, rest') =>
      let rec tail (acc : List (Str × Expr)) (ts : List String) : Option (List (Str × Expr) × List String) :=
        match ts with
        | ")" :: r => some (acc.reverse, r)
        | op :: r => match parseExpr r with
          | some (e, r') => tail ((unhexD op, e) :: acc) r'
          | none => none
        | [] => none
      match tail [] rest' with
      | some (xs, r) => some (.chain (unhexD handler) first xs, r)
      | none => none
    | none => none
  | "(" :: "call" :: fn :: rest =>
    let rec args (acc : List Expr) (ts : List String) : Option (List Expr × List String) :=
      match ts with
      | ")" :: r => some (acc.reverse, r)
      | [] => none
      | ts' => match parseExpr ts' with
        | some (e, r') => args (e :: acc) r'
        | none => none
    match args [] rest with
    | some (xs, r) => some (.call (unhexD fn) xs, r)
    | none => none
  | tok :: rest =>
    match tok.splitOn ":" with
    | ["i", h] => some (.integer (unhexD h), rest)
    | ["f", h] => some (.float (unhexD h), rest)
    | ["s", h] => some (.string (unhexD h), rest)
    | ["v", h, te] => some (.var (unhexD h) (parseErr te), rest)
    | ["r", e, k, te] => some (.value (unhexD e) (unhexD k) (parseErr te), rest)
    | _ => none
  | [] => none

partial def parseMembers (acc : List (Str × Expr)) : List String → Option (List (Str × Expr))
  | [] => some acc.reverse
  | tok :: rest =>
    match tok.splitOn ":" with
    | ["m", k] =>
      match parseExpr rest with
      | some (e, rest') => parseMembers ((unhexD k, e) :: acc) rest'
      | none => none
    | _ => none

structure St where
  env : Env := ⟨[], []⟩
  oracle : Oracle := []

def fuel : Nat := 100000

def showVal (o : Oracle) (strOut : Str → String) : V FTerm → String
  | .int n => s!"int {n}"
  | .float t =>
    match o.lookup ("hex:" ++ render t) with
    | some h => s!"float {h}"
    | none => "need hex:" ++ render t
  | .str s =>
    match findNeed s with
    | some n => n
    | none => "str " ++ strOut s

def showErr : Err → String
  | .notAllowed => "Errors.OperationNotAllowed"
  | .unresolvedSymbol => "Errors.UnresolvedSymbol"
  | .reflections c => "Errors." ++ l2s c
  | .fatal (.other t) => match findNeed t with
    | some n => n
    | none => "Errors.Fatal:" ++ l2s t
  | .fatal e => "Errors.Fatal:" ++ excName e

def showPyErr : PyExc → String
  | .other t => match findNeed t with
    | some n => n
    | none => l2s t
  | e => excName e

def memberIndex (ms : List (Str × Expr)) (key : Str) : Option (Nat × Expr) :=
  go ms 0
where
  go : List (Str × Expr) → Nat → Option (Nat × Expr)
    | [], _ => none
    | (k, e) :: rest, i => if k = key then some (i, e) else go rest (i + 1)

/-- bytes as lowercase hex (`-` for none) -/
def showBytes (bs : List Nat) : String :=
  if bs.isEmpty then "-" else String.ofList (bs.flatMap fun b => [Str.hexDigit (b / 16 % 16), Str.hexDigit (b % 16)])

def step (st : St) : List String → St × String
  | ["env", known, members] =>
    let ks := if known == "" then [] else (known.splitOn ",").map unhexD
    match parseMembers [] ((members.splitOn " ").filter (· ≠ "")) with
    | some ms => ({ env := ⟨ms, ks⟩, oracle := [] }, s!"ok {ms.length}")
    | none => (st, "bad-op")
  | ["oracle", key, ans] => ({ st with oracle := (key, ans) :: st.oracle }, "ok")
  | ["impl", key] =>
    match memberIndex st.env.members (unhexD key) with
    | some (_, e) =>
      match execImpl (symOps st.oracle) st.env fuel e with
      | .ok v => (st, showVal st.oracle Str.hex v)
      | .error er => (st, showErr er)
    | none => (st, "bad-op")
  | ["py", mode, key] =>
    match (if mode == "py" then some Mode.py else if mode == "strict" then some Mode.strict else none),
          memberIndex st.env.members (unhexD key) with
    | some m, some (i, e) =>
      let ops := symOps st.oracle
      let venv := bindAll m ops st.env.known [] (st.env.members.take i)
      match evalPy m ops st.env.known venv (toPy e) with
      | .ok v => (st, showVal st.oracle Str.hex v)
      | .error er => (st, showPyErr er)
    | _, _ => (st, "bad-op")
  | ["emit", key, te, varType, isStr] =>
    match memberIndex st.env.members (unhexD key) with
    | some (_, e) =>
      let ty : Except TyErr TyInfo := match parseErr te with
        | some er => .error er
        | none => .ok ⟨unhexD varType, isStr == "1"⟩
      match emitValue (symOps st.oracle) st.env fuel ⟨e, ty⟩ with
      | .ok t => (st, match findNeed t with | some n => n | none => "text " ++ Str.hex t)
      | .error er => (st, showErr er)
    | none => (st, "bad-op")
  | ["unesc", body] => (st, Str.hex (decodeEsc (unhexD body)))
  | ["joins", l, r] => (st, toString (joinsEscape (unhexD l) (unhexD r)))
  | ["cppread", body] =>
    match cppBytes (unhexD body) with
    | some bs => (st, "bytes " ++ showBytes bs)
    | none => (st, "none")
  | ["cppsafe", body] => (st, toString (cppSafe (unhexD body)))
  | ["pyutf8", body] => (st, "bytes " ++ showBytes (utf8s (decodeEsc (unhexD body))))
  | _ => (st, "bad-op")

def run : IO Unit := runFamily step ({} : St)

end Tranp.Driver.Eval
