/-
  Driver family `infer` (property C03).

    new                                  → ok            (a fresh session: the library's Union symbol is unextended)
    classes <ct>                         → ok            (the user classes of the program that follows; `classes ( )` = none)
    env <env>                            → ok            (the typed parameters of the function whose body follows)
    decl <name> <expr>                   → ok <type>     (`name = expr`: the declaration takes the value's type, on_move_assign; extends the env)
    bind <name> <type>                   → ok            (a declaration the model does not cover: its real type, to keep going)
    for ( <name>… ) <expr>               → ok <t1> | <t2> …   (loop targets: iterates + resolve_right_to_left; extends the env)
    here <expr>                          → ok <type>     (an expression in the current env, e.g. a `return` value)
    lam <lamctx> ( <name>… ) <expr>|-    → ok <t1> | <t2> … [| <body type>]   (lambda parameters from where the lambda stands, then its body)
    infer <env> <expr>                   → ok <short notation> | <error>      (threads the session state)
    pytype <valenv> <expr>               → ok <short notation of typeOf (eval …)> | <error>

  All arguments are s-expressions whose tokens are separated by single blanks:
    type   int float bool str None Unknown | ( list T ) ( dict K V ) ( tuple T* ) ( union T* ) ( cls name T* ) ( tvar name )
    env    ( ( name T ) … )
    ct     ( ( Class Base|-|( Base… ) ( member field|classVar|method|property|classMethod T ) … ) … )       (bases in the written order)
    expr   ( int 12 ) ( float 1.5 ) ( str <hex> ) true false none empty ( var x ) ( factor +|-|~ e ) ( not e )
           ( bin e op e … ) ( cmp e op e … ) ( and e… ) ( or e… ) ( tern a c b ) ( list e… ) ( dict k v … ) ( tuple e… )
           ( index r k ) ( slice r lo hi ) ( group e ) ( call r m e… ) ( fcall f e… )
           ( listcomp proj ( x… ) src cond ) ( dictcomp k v ( x… ) src cond )
    value  ( int -3 ) ( float 1.5 ) ( bool true ) ( str <hex> ) none ( list v… ) ( dict k v … ) ( tuple v… )
    valenv ( ( name value ) … )
    lamctx ( anno T ) ( fn k T… ) ( meth k T… ) ( ret T ) ( imm expr… )      (k = position of the lambda among the arguments; T… = attrs of the
           function symbol / the signature of the method or constructor, self first)
-/
import Tranp.Driver.Common
import Tranp.Model.Infer
import Tranp.Model.InferOps
import Tranp.Model.PyEval
import Tranp.Model.InferLambda

namespace Tranp.Driver.Infer
open Tranp Tranp.Infer Tranp.Driver

inductive Sx where
  | atom (s : String)
  | node (cs : List Sx)
deriving Inhabited

partial def parseSx : List String → Option (Sx × List String)
  | "(" :: rest =>
    let rec kids (acc : List Sx) (ts : List String) : Option (List Sx × List String) :=
      match ts with
      | ")" :: rest' => some (acc.reverse, rest')
      | [] => none
      | ts' => match parseSx ts' with
        | some (e, rest') => kids (e :: acc) rest'
        | none => none
    (kids [] rest).map fun (cs, r) => (.node cs, r)
  | ")" :: _ => none
  | tok :: rest => some (.atom tok, rest)
  | [] => none

def parseAll (s : String) : Option Sx :=
  match parseSx ((s.splitOn " ").filter (· ≠ "")) with
  | some (e, []) => some e
  | _ => none

def allSome {α : Type} (xs : List (Option α)) : Option (List α) :=
  xs.foldr (fun x acc => match x, acc with | some a, some r => some (a :: r) | _, _ => none) (some [])

partial def toTy : Sx → Option Ty
  | .atom "int" => some .int
  | .atom "float" => some .float
  | .atom "bool" => some .bool
  | .atom "str" => some .str
  | .atom "None" => some .none
  | .atom "Unknown" => some .unknown
  | .node [.atom "list", t] => (toTy t).map .list
  | .node [.atom "dict", k, v] => do pure (.dict (← toTy k) (← toTy v))
  | .node (.atom "tuple" :: ts) => (allSome (ts.map toTy)).map fun l => .tuple (Tys.ofList l)
  | .node (.atom "union" :: ts) => (allSome (ts.map toTy)).map fun l => .union (Tys.ofList l)
  | .node (.atom "cls" :: .atom n :: ts) => (allSome (ts.map toTy)).map fun l => .cls (s2l n) (Tys.ofList l)
  | .node [.atom "tvar", .atom n] => some (.tvar (s2l n))
  | _ => none

def toEnv : Sx → Option Env
  | .node bs => allSome (bs.map fun b => match b with
    | .node [.atom x, t] => (toTy t).map fun ty => (s2l x, ty)
    | _ => none)
  | _ => none

def toKind : String → Option MKind
  | "field" => some .field | "classVar" => some .classVar | "method" => some .method
  | "property" => some .property | "classMethod" => some .classMethod
  | _ => none

def toClassTable : Sx → Option ClassTable
  | .node cs => allSome (cs.map fun c => match c with
    | .node (.atom n :: b :: ms) => do
      let members ← allSome (ms.map fun m => match m with
        | .node [.atom a, .atom k, t] => do pure (⟨s2l a, ← toKind k, ← toTy t⟩ : Member)
        | _ => none)
      let bases ← match b with
        | .atom x => some (if x == "-" then [] else [s2l x])
        | .node bs => allSome (bs.map fun y => match y with | .atom x => some (s2l x) | _ => none)
      pure (⟨s2l n, bases, members⟩ : ClassDecl)
    | _ => none)
  | _ => none

def toBOp : String → Option BOp
  | "+" => some .add | "-" => some .sub | "*" => some .mul | "/" => some .div | "%" => some .mod
  | "|" => some .bor | "^" => some .bxor | "&" => some .band | "<<" => some .shl | ">>" => some .shr
  | "==" => some .eq | "!=" => some .ne | "<" => some .lt | ">" => some .gt | "<=" => some .le | ">=" => some .ge
  | "in" => some .in_ | "not.in" => some .notIn | "is" => some .is_ | "is.not" => some .isNot
  | _ => none

def toUOp : String → Option UOp
  | "+" => some .pos | "-" => some .neg | "~" => some .inv
  | _ => none

/-- `[-]digits[.digits]` (the generators' float spelling) -/
def parseFloat (s : String) : Option Float :=
  let (neg, body) := if s.startsWith "-" then (true, (s.drop 1).toString) else (false, s)
  match body.splitOn "." with
  | [i] => i.toNat?.map fun n => let f := Float.ofNat n; if neg then -f else f
  | [i, fr] =>
    match (i ++ fr).toNat? with
    | some m => let f := Float.ofScientific m true fr.length; some (if neg then -f else f)
    | none => none
  | _ => none

def exprsOf (l : List Expr) : Exprs := l.foldr .cons .nil

partial def toExpr : Sx → Option Expr
  | .atom "true" => some .true_
  | .atom "false" => some .false_
  | .atom "none" => some .none_
  | .atom "empty" => some .empty_
  | .node [.atom "int", .atom n] => n.toNat?.map .int
  | .node [.atom "float", .atom f] => (parseFloat f).map .float
  | .node [.atom "str", .atom h] => (Str.unhex h).map .str
  | .node [.atom "var", .atom x] => some (.var (s2l x))
  | .node [.atom "factor", .atom o, e] => do pure (.factor (← toUOp o) (← toExpr e))
  | .node [.atom "not", e] => (toExpr e).map .not_
  | .node (.atom "bin" :: e :: rest) => do pure (.bin (← toExpr e) (← toChain rest))
  | .node (.atom "cmp" :: e :: rest) => do pure (.cmp (← toExpr e) (← toChain rest))
  | .node (.atom "and" :: es) => (allSome (es.map toExpr)).map fun l => .and_ (exprsOf l)
  | .node (.atom "or" :: es) => (allSome (es.map toExpr)).map fun l => .or_ (exprsOf l)
  | .node [.atom "tern", a, c, b] => do pure (.tern (← toExpr a) (← toExpr c) (← toExpr b))
  | .node (.atom "list" :: es) => (allSome (es.map toExpr)).map fun l => .list (exprsOf l)
  | .node (.atom "dict" :: kvs) => (toPairs kvs).map .dict
  | .node (.atom "tuple" :: es) => (allSome (es.map toExpr)).map fun l => .tuple (exprsOf l)
  | .node [.atom "index", r, k] => do pure (.index (← toExpr r) (← toExpr k))
  | .node [.atom "slice", r, lo, hi] => do pure (.slice (← toExpr r) (← toExpr lo) (← toExpr hi))
  | .node [.atom "group", e] => (toExpr e).map .group
  | .node [.atom "attr", r, .atom a] => (toExpr r).map fun x => .attr x (s2l a)
  | .node (.atom "call" :: r :: .atom m :: es) => do
    pure (.call (← toExpr r) (s2l m) (exprsOf (← allSome (es.map toExpr))))
  | .node (.atom "fcall" :: .atom f :: es) => do pure (.fcall (s2l f) (exprsOf (← allSome (es.map toExpr))))
  | .node [.atom "listcomp", p, .node vs, src, c] => do
    let vars ← allSome (vs.map fun v => match v with | .atom x => some (s2l x) | _ => none)
    pure (.listComp (← toExpr p) vars (← toExpr src) (← toExpr c))
  | .node [.atom "dictcomp", k, v, .node vs, src, c] => do
    let vars ← allSome (vs.map fun v => match v with | .atom x => some (s2l x) | _ => none)
    pure (.dictComp (← toExpr k) (← toExpr v) vars (← toExpr src) (← toExpr c))
  | _ => none
where
  toChain : List Sx → Option Chain
    | [] => some .nil
    | .atom o :: e :: rest => do pure (.cons (← toBOp o) (← toExpr e) (← toChain rest))
    | _ => none
  toPairs : List Sx → Option Pairs
    | [] => some .nil
    | k :: v :: rest => do pure (.cons (← toExpr k) (← toExpr v) (← toPairs rest))
    | _ => none

def parseInt (s : String) : Option Int :=
  if s.startsWith "-" then (s.drop 1).toString.toNat?.map fun n => -(n : Int) else s.toNat?.map fun n => (n : Int)

partial def toVal : Sx → Option Val
  | .atom "none" => some .none
  | .node [.atom "int", .atom n] => (parseInt n).map .int
  | .node [.atom "float", .atom f] => (parseFloat f).map .float
  | .node [.atom "bool", .atom "true"] => some (.bool true)
  | .node [.atom "bool", .atom "false"] => some (.bool false)
  | .node [.atom "str", .atom h] => (Str.unhex h).map .str
  | .node (.atom "list" :: vs) => (allSome (vs.map toVal)).map .list
  | .node (.atom "tuple" :: vs) => (allSome (vs.map toVal)).map .tuple
  | .node (.atom "dict" :: kvs) => do
    let l ← allSome (kvs.map toVal)
    if l.length % 2 ≠ 0 then none
    else
      let rec split : List Val → List Val × List Val
        | k :: v :: rest => let (ks, vs) := split rest; (k :: ks, v :: vs)
        | _ => ([], [])
      let (ks, vs) := split l
      pure (.dict ks vs)
  | _ => none

def toValEnv : Sx → Option VEnv
  | .node bs => allSome (bs.map fun b => match b with
    | .node [.atom x, v] => (toVal v).map fun val => (s2l x, val)
    | _ => none)
  | _ => none

structure St where
  unionTaken : Bool := false
  ct : ClassTable := []
  env : Env := []
  ps : OpParams := []

def toOpParams : Sx → Option OpParams
  | .node rows => allSome (rows.map fun r => match r with
    | .node [.atom c, .atom d, t] => do pure ((s2l c, s2l d), ← toTy t)
    | _ => none)
  | _ => none

/-- `op ty op ty …` of a `binop` line -/
def toSteps : List String → Option (List (BOp × Ty))
  | [] => some []
  | o :: t :: rest => do pure ((← toBOp o, ← parseAll t >>= toTy) :: (← toSteps rest))
  | _ => none

def step (st : St) : List String → St × String
  | ["new"] => ({ unionTaken := false }, "ok")
  | ["classes", c] =>
    match parseAll c >>= toClassTable with
    | some ct => ({ st with ct := ct }, "ok")
    | none => (st, "bad-op")
  | ["env", env] =>
    match parseAll env >>= toEnv with
    | some Γ => ({ st with env := Γ }, "ok")
    | none => (st, "bad-op")
  | ["bind", x, t] =>
    match parseAll t >>= toTy with
    | some ty => ({ st with env := (s2l x, ty) :: st.env }, "ok")
    | none => (st, "bad-op")
  | ["decl", x, e] =>
    match parseAll e >>= toExpr with
    | some ex =>
      match infer st.ct st.env ex st.unionTaken with
      | (.ok t, s) => ({ st with unionTaken := s, env := (s2l x, t) :: st.env }, "ok " ++ t.render)
      | (.error er, s) => ({ st with unionTaken := s }, er.toString)
    | none => (st, "bad-op")
  | ["here", e] =>
    match parseAll e >>= toExpr with
    | some ex =>
      match infer st.ct st.env ex st.unionTaken with
      | (.ok t, s) => ({ st with unionTaken := s }, "ok " ++ t.render)
      | (.error er, s) => ({ st with unionTaken := s }, er.toString)
    | none => (st, "bad-op")
  | ["lam", c, vs, b] =>
    let ctx : Option LamCtx := match parseAll c with
      | some (.node [.atom "anno", t]) => (toTy t).map .annoAssign
      | some (.node [.atom "ret", t]) => (toTy t).map .ret
      | some (.node (.atom "fn" :: .atom k :: ts)) => (allSome (ts.map toTy)).bind fun l => k.toNat?.map fun n => .argFunction (Tys.ofList l) n
      | some (.node (.atom "meth" :: .atom k :: ts)) => (allSome (ts.map toTy)).bind fun l => k.toNat?.map fun n => .argMethod (Tys.ofList l) n
      | some (.node (.atom "imm" :: es)) =>
        (allSome (es.map toExpr)).bind fun l =>
          (allSome (l.map fun e => match inferT st.ct st.env e with | .ok t => some t | .error _ => none)).map .immediate
      | _ => none
    match ctx, parseAll vs with
    | some ctx, some (.node names) =>
      match allSome (names.map fun v => match v with | .atom x => some (s2l x) | _ => none) with
      | some vars =>
        match lamEnv ctx vars with
        | .error er => (st, er.toString)
        | .ok Γ' =>
          let ps := Γ'.map fun b => b.2.render
          if b = "-" then (st, "ok " ++ " | ".intercalate ps)
          else
            match parseAll b >>= toExpr with
            | some body =>
              match lambdaBody st.ct st.env ctx vars body with
              | .ok t => (st, "ok " ++ " | ".intercalate (ps ++ [t.render]))
              | .error er => (st, er.toString)
            | none => (st, "bad-op")
      | none => (st, "bad-op")
    | _, _ => (st, "bad-op")
  | ["for", vs, e] =>
    match parseAll vs, parseAll e >>= toExpr with
    | some (.node names), some ex =>
      match allSome (names.map fun v => match v with | .atom x => some (s2l x) | _ => none) with
      | some vars =>
        match infer st.ct st.env ex st.unionTaken with
        | (.ok t, s) =>
          (match iterates st.ct t with
           | .ok elem =>
             let bs := bindVars vars elem
             ({ st with unionTaken := s, env := bs ++ st.env },
              "ok " ++ " | ".intercalate (bs.map fun b => if b.2 = noSuchAttr then "IndexError" else b.2.render))
           | .error er => ({ st with unionTaken := s }, er.toString))
        | (.error er, s) => ({ st with unionTaken := s }, er.toString)
      | none => (st, "bad-op")
    | _, _ => (st, "bad-op")
  | ["infer", env, e] =>
    match parseAll env >>= toEnv, parseAll e >>= toExpr with
    | some Γ, some ex =>
      match infer st.ct Γ ex st.unionTaken with
      | (.ok t, s) => ({ st with unionTaken := s }, "ok " ++ t.render)
      | (.error er, s) => ({ st with unionTaken := s }, er.toString)
    | _, _ => (st, "bad-op")
  | ["opparams", p] =>
    match parseAll p >>= toOpParams with
    | some ps => ({ st with ps := ps }, "ok")
    | none => (st, "bad-op")
  | "binop" :: l :: rest =>
    match parseAll l >>= toTy, toSteps rest with
    | some lt, some steps =>
      (match foldBinAny st.ct st.ps lt steps with
       | .ok t => (st, "ok " ++ t.render)
       | .error er => (st, er.toString))
    | _, _ => (st, "bad-op")
  | ["spread", env, e] =>
    match parseAll env >>= toEnv, parseAll e >>= toExpr with
    | some Γ, some ex =>
      match infer st.ct Γ ex st.unionTaken with
      | (.ok t, s) =>
        (match onSpread t with
         | .ok a => ({ st with unionTaken := s }, "ok " ++ a.render)
         | .error er => ({ st with unionTaken := s }, er.toString))
      | (.error er, s) => ({ st with unionTaken := s }, er.toString)
    | _, _ => (st, "bad-op")
  | ["gattr", schema, declared, actual] =>
    match parseAll schema >>= toTy, parseAll declared >>= toTy, parseAll actual >>= toTy with
    | some sk, some d, some ak => (st, "ok " ++ (propOf d sk ak).render)
    | _, _, _ => (st, "bad-op")
  | ["listspread", env, items] =>
    let parsed : Option (List (Bool × Expr)) := match parseAll items with
      | some (.node its) => allSome (its.map fun it => match it with
        | .node [.atom "star", e] => (toExpr e).map fun ex => (true, ex)
        | e => (toExpr e).map fun ex => (false, ex))
      | _ => none
    match parseAll env >>= toEnv, parsed with
    | some Γ, some its =>
      match onListSpread st.ct Γ its st.unionTaken with
      | (.ok t, s) => ({ st with unionTaken := s }, "ok " ++ t.render)
      | (.error er, s) => ({ st with unionTaken := s }, er.toString)
    | _, _ => (st, "bad-op")
  | ["pytype", env, e] =>
    match parseAll env >>= toValEnv, parseAll e >>= toExpr with
    | some ρ, some ex =>
      match eval World.none ρ ex with
      | .ok v => (st, "ok " ++ (typeOf v).render ++ "\t" ++ v.render)
      | .error er => (st, er.toString)
    | _, _ => (st, "bad-op")
  | _ => (st, "bad-op")

def run : IO Unit := runFamily step ({} : St)

end Tranp.Driver.Infer
