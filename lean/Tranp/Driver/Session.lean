/-
  Driver family `session` (property C04): one long-lived process over a pool of module descriptors.

    world                                              → ok      (forget all modules, libs, state)
    mod <name> <syntaxOk 0|1> <imports> <classes> <vars> <extra> [<keys the renderer always needs>]   → ok   (a module on disk)
        imports  m:n,m:n | -          (n may be empty: bare dependency edge)
        classes  C/f,g>m>B>g,h!,k~;D | - (method `g` calls B.g of module m, `h` uses an undefined name, `k` holds a capturing lambda)
        vars     v:1,u:0 | -          (0 = annotation does not resolve)
    libs a,b | main m | fuel n                         → ok
    std <keys a method needs> <keys an annotated variable needs>   → ok  (applies to the modules defined afterwards)
    init                                               → ok      (fresh process: empty state, empty private cache directory)
    load m | transpile m | unload m                    → <observation>
    resubmit <syntaxOk> <imports> <classes> <vars> [<exprs n,n | ->]   → <observation>   (exprs: top-level `print(n)` statements)

  observation = result|mods|entrypoints|completed|m=keys,…|dependency frames|procedure frames
  result = ok | text | <exc_enum>
-/
import Tranp.Driver.Common
import Tranp.Model.Session

namespace Tranp.Driver.Session
open Tranp Tranp.Session Tranp.Driver

def splitNonEmpty (s : String) (sep : String) : List String :=
  if s == "-" || s == "" then [] else s.splitOn sep

def parseImports (s : String) : List (ModPath × Str) :=
  (splitNonEmpty s ",").filterMap fun item =>
    match item.splitOn ":" with
    | [m, n] => some (s2l m, s2l n)
    | _ => none

def parseMethod (s : String) : Method :=
  if s.endsWith "!" then { name := s2l (s.dropEnd 1).toString, badName := true }
  else if s.endsWith "~" then { name := s2l (s.dropEnd 1).toString, lam := true }
  else match s.splitOn ">" with
    | [f, m, b, g] => { name := s2l f, call := some (s2l m, s2l b, s2l g) }
    | _ => { name := s2l s }

def parseClasses (s : String) : List Cls :=
  (splitNonEmpty s ";").map fun item =>
    match item.splitOn "/" with
    | [c, ms] => { name := s2l c, methods := (splitNonEmpty ms ",").map parseMethod }
    | _ => { name := s2l item }

def parseVars (s : String) : List (Str × Bool) :=
  (splitNonEmpty s ",").filterMap fun item =>
    match item.splitOn ":" with
    | [v, ok] => some (s2l v, ok == "1")
    | _ => none

def parseDesc (std : List Key × List Key) (ok imps clss vars extra : String) : Desc :=
  { syntaxOk := ok != "0", crash := ok == "2", imports := parseImports imps, classes := parseClasses clss, vars := parseVars vars,
    extra := extra.toNat!, stdMethod := std.1, stdVar := std.2 }

abbrev S := State Desc Desc Desc Str Str

structure DSt where
  disk : List (ModPath × Desc) := []
  libs : List ModPath := []
  main : ModPath := "__main__".toList
  fuel : Nat := 100000
  std : List Key × List Key := ([], [])
  st : S := { mainSrc := {} }

def DSt.env (d : DSt) : Env Desc := { disk := fun p => alookup d.disk p, libs := d.libs, main := d.main }

def commas (xs : List Str) : String := ",".intercalate (xs.map l2s)

/-- number of keys per module, in the order in which the modules first appear in the table -/
def keyCounts (db : List (Key × Str)) : List (ModPath × Nat) :=
  db.foldl (fun acc kv =>
    let m := modOf kv.1
    match alookup acc m with
    | some n => aset acc m (n + 1)
    | none => acc ++ [(m, 1)]) []

def observe (r : String) (s : S) : String :=
  let keys := ",".intercalate ((keyCounts s.db).map fun mn => s!"{l2s mn.1}={mn.2}")
  s!"{r}|{commas s.mods}|{commas (s.eps.map (·.1))}|{commas s.completed}|{keys}|{s.deps.length}|{s.proc.length}"

def resultStr : Except Err (Option Str) → String
  | .ok none => "ok"
  | .ok (some _) => "text"
  | .error .fatal => "render-error"
  | .error .unresolvedSymbol => "render-error"
  | .error e => e.toString

def doOp (d : DSt) (op : Op Desc) : DSt × String :=
  let r := step descLang d.env d.fuel d.st op
  ({ d with st := r.2 }, observe (resultStr r.1) r.2)

def step' (d : DSt) : List String → DSt × String
  | ["world"] => ({}, "ok")
  | ["mod", name, ok, imps, clss, vars, extra] =>
    ({ d with disk := aset d.disk (s2l name) (parseDesc d.std ok imps clss vars extra) }, "ok")
  | ["mod", name, ok, imps, clss, vars, extra, always] =>
    let desc : Desc := { parseDesc d.std ok imps clss vars extra with stdAlways := (splitNonEmpty always ",").map s2l }
    ({ d with disk := aset d.disk (s2l name) desc }, "ok")
  | ["std", ms, vs] => ({ d with std := ((splitNonEmpty ms ",").map s2l, (splitNonEmpty vs ",").map s2l) }, "ok")
  | ["libs", ls] => ({ d with libs := (splitNonEmpty ls ",").map s2l }, "ok")
  | ["main", m] => ({ d with main := s2l m }, "ok")
  | ["fuel", n] => ({ d with fuel := n.toNat! }, "ok")
  | ["init"] => ({ d with st := { mainSrc := {} } }, "ok")
  | ["load", m] => doOp d (.load (s2l m))
  | ["transpile", m] => doOp d (.transpile (s2l m))
  | ["unload", m] => doOp d (.unload (s2l m))
  -- the import edges of a module as the model reads them (what `Modules.__load_dependencies` / `__dependent_paths` follow)
  | ["imports", m] =>
    (d, match (alookup d.disk (s2l m)).bind descLang.parse with
        | some t => s!"imports|{commas (descLang.imports t)}"
        | none => "imports|none")
  | ["resubmit", ok, imps, clss, vars] => doOp d (.resubmit (parseDesc d.std ok imps clss vars "0"))
  | ["resubmit", ok, imps, clss, vars, exprs] =>
    if (splitNonEmpty exprs ",").all (fun x => x.isNat) then
      doOp d (.resubmit { parseDesc d.std ok imps clss vars "0" with exprs := (splitNonEmpty exprs ",").map String.toNat! })
    else (d, "bad-op")
  | _ => (d, "bad-op")

def run : IO Unit := runFamily step' ({} : DSt)

end Tranp.Driver.Session
