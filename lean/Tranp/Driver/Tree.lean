/-
  Driver family `tree` (property C10): ops over one current tree.

    tree <sexp>                      ( tag child … ) | t:tag:valuehex | _      → ok <size>
    table <sym>=<Cls>:<feat>,…;… <fallback Cls:feat | none>                  → ok
    tableload <Cls>:<feat>@<sym>,<sym>;… <fallback Cls:feat | none>           → ok   (Resolver.load of a SymbolMapping given in class order)
    accepts | canresolve <sym>                                                → ok sym,sym | true|false
    pathfy                                                                    → path:name:size:valuehex|…
    pluck <path>                                                              → ok name:size:valuehex same|other|absent  / <error>
    id <path> | exists <path>
    children <path> | siblings <path>                                         → ok p:Cls,p:Cls / <error>
    parent <path> | ancestor <path> <tag> | by <path>                         → ok p:Cls / <error>
    clear                                                                     → ok (a fresh Nodes: drops the resolver's instance cache and the query memo)
    ep.<fn> <hex…>                                                            → the EntryPath algebra on arbitrary strings (hex-escaped): valid joined identify first last shift parenttag deidentify elements contains only escaped relativefy
    classof <path>                                                            → cache-free class (never touches the instance cache)
    expand <path>                                                             → ok p:Cls,p:Cls / <error>   (Nodes.expand)
    expandp <path>                                                            → ok p,p / <error>           (paths before resolution)
    values <path>                                                             → ok hex,hex / <error>       (Nodes.values)
    groupby <path> <depth>                                                    → ok p,p / <error>           (EntryCache.group_by keys)
    expandsafe <path>                                                         → ok <RelativefySafe> <expandOf 3 = expandFullOf>
    find <via> <depth> <tester>                                               → ok path:name:size:valuehex|… / <error>   (ASTFinder.find; tester = all | leaf | inner | name=<tag> | idx | deep>=<n>)
    fexists <path>                                                            → true|false / <error>                     (ASTFinder.exists)
    pathfyd <pathhex> <depth>                                                 → path:name:size:valuehex|…               (ASTFinder.full_pathfy(root, path, depth), any path string)
    dsn.<fn> <delimhex> <hex…>                                                → DSN.left right shift root parent elements count join (join: parts hex, comma separated) with any delimiter
    conforms                                                                  → true|false  (every parent/child name pair of the tree is in Generated.GrammarChildren.kids)
    uheight <path>                                                            → ok <n> / Errors.NodeNotFound  (nested unresolvable levels from the entry at path, under the current table)
    chainfree                                                                 → true|false  (chainFreeB of the generated child table under the current table's resolvable tags)
-/
import Tranp.Driver.Common
import Tranp.Model.AstPath
import Tranp.Model.NodesMemo
import Tranp.Generated.GrammarChildren

namespace Tranp.Driver.Tree
open Tranp Tranp.AstPath Tranp.Driver

partial def parseSexp : List String → Option (Entry × List String)
  | "_" :: rest => some (.empty, rest)
  | "(" :: tag :: rest =>
    let rec kids (acc : List Entry) (ts : List String) : Option (List Entry × List String) :=
      match ts with
      | ")" :: rest' => some (acc.reverse, rest')
      | [] => none
      | ts' => match parseSexp ts' with
        | some (e, rest') => kids (e :: acc) rest'
        | none => none
    match kids [] rest with
    | some (cs, rest') => some (.tree (s2l tag) cs, rest')
    | none => none
  | tok :: rest =>
    match tok.splitOn ":" with
    | ["t", tag, v] => some (.token (s2l tag) (unhexD v), rest)
    | _ => none
  | [] => none

def parseFeat (s : String) : Feat :=
  if s == "always" then .always
  else if s == "never" then .never
  else if s == "idx" then .hasIndex
  else if s.startsWith "cc>=" then .childCountGe ((s.drop 4).toString.toNat!)
  else if s.startsWith "d>=" then .depthGe ((s.drop 3).toString.toNat!)
  else if s.startsWith "pt=" then .parentTagIs (s2l (s.drop 3).toString)
  else if s.startsWith "fc=" then .firstChildTagIs (s2l (s.drop 3).toString)
  else .never

def parseClass (s : String) : Option ClassDef :=
  match s.splitOn ":" with
  | [n, f] => some ⟨s2l n, parseFeat f⟩
  | _ => none

def parseTable (spec fb : String) : Table :=
  let t : Table := {}
  let t := (spec.splitOn ";").foldl (fun t item =>
    match item.splitOn "=" with
    | sym :: rest@(_ :: _) =>
      let clss := ("=".intercalate rest).splitOn ","
      clss.foldl (fun t c => match parseClass c with
        | some cd => t.register (s2l sym) cd
        | none => t) t
    | _ => t) t
  { t with fallback := if fb == "none" then none else parseClass fb }

/-- `SymbolMapping.symbols` in dict order: `Cls:feat@sym,sym;…` -/
def parseMapping (spec : String) : Option (List (ClassDef × List Str)) :=
  if spec == "" then some [] else
  (spec.splitOn ";").mapM (fun item =>
    match item.splitOn "@" with
    | [c, syms] => (parseClass c).map (fun cd => (cd, if syms == "" then [] else (syms.splitOn ",").map s2l))
    | _ => none)

structure St where
  w : World := default
  pf : List (Str × Entry) := []
  ns : NState := {}

instance : Inhabited World := ⟨⟨.empty, {}, {}⟩⟩

def digest (e : Entry) : String := s!"{l2s e.name}:{size e}:{Str.hex e.value}"

def err (e : Err) : String := e.toString

/-- the testers the harness passes to `ASTFinder.find` -/
def parseTester (s : String) : Option (Entry → Str → Bool) :=
  if s == "all" then some (fun _ _ => true)
  else if s == "leaf" then some (fun e _ => !e.hasChild)
  else if s == "inner" then some (fun e _ => e.hasChild)
  else if s == "idx" then some (fun _ p => p.getLast? == some ']')
  else if s.startsWith "name=" then let t := s2l (s.drop 5).toString; some (fun e _ => e.name == t)
  else if s.startsWith "deep>=" then
    match (s.drop 6).toString.toNat? with
    | some n => some (fun _ p => decide (Str.count '.' p ≥ n))
    | none => none
  else none

def showKVs (l : List (Str × Entry)) : String := "|".intercalate (l.map fun kv => s!"{l2s kv.1}:{digest kv.2}")

/-- one query on the modelled `Nodes` instance (instance cache + memo), formatted -/
def query (st : St) (q : Query) (single : Bool) (classOnly : Bool := false) : St × String :=
  let r := runQuery st.w st.ns q
  let st' := { st with ns := r.1 }
  match r.2 with
  | .error er => (st', err er)
  | .ok (.vals vs) => (st', "ok " ++ ",".intercalate (vs.map Str.hex))
  | .ok (.nodes l) =>
    if classOnly then
      match l with
      | [(_, c)] => (st', s!"ok {l2s c}")
      | _ => (st', "bad-op")
    else
      let _ := single
      (st', "ok " ++ ",".intercalate (l.map fun pc => s!"{l2s pc.1}:{l2s pc.2}"))

def step (st : St) : List String → St × String
  | ["tree", sx] =>
    match parseSexp (sx.splitOn " ") with
    | some (e, []) =>
      let pf := fullPathfy e
      ({ st with w := { st.w with root := e, cache := mkCache e }, pf := pf, ns := {} }, s!"ok {size e}")
    | _ => (st, "bad-op")
  | ["table", spec, fb] => ({ st with w := { st.w with table := parseTable spec fb }, ns := {} }, "ok")
  | ["tableload", spec, fb] =>
    match parseMapping spec, (if fb == "none" then some none else (parseClass fb).map some) with
    | some m, some f => ({ st with w := { st.w with table := Table.load m f }, ns := {} }, "ok")
    | _, _ => (st, "bad-op")
  | ["accepts"] => (st, "ok " ++ ",".intercalate (st.w.table.accepts.map l2s))
  | ["canresolve", sym] => (st, toString (st.w.table.canResolve (s2l sym)))
  | ["pathfy"] => (st, "|".intercalate (st.pf.map fun kv => s!"{l2s kv.1}:{digest kv.2}"))
  | ["pluck", p] =>
    let p := s2l p
    match pluckS st.w.root p with
    | .ok e =>
      let rel := match dictGet? st.pf p with
        | some e' => if e == e' then "same" else "other"
        | none => "absent"
      (st, s!"ok {digest e} {rel}")
    | .error er => (st, err er)
  | ["id", p] => (st, toString (st.w.cache.indexOf (s2l p)))
  | ["exists", p] => (st, toString (st.w.cache.exists_ (s2l p)))
  | ["children", p] => query st (.children (s2l p)) false
  | ["siblings", p] => query st (.siblings (s2l p)) false
  | ["parent", p] => query st (.parent (s2l p)) false
  | ["ancestor", p, tag] => query st (.ancestor (s2l p) (s2l tag)) false
  | ["by", p] => query st (.by_ (s2l p)) false true
  | ["classof", p] =>
    match (st.w.cache.by_ (s2l p)).bind (fun e => classOf st.w e.name (s2l p)) with
    | .ok c => (st, s!"ok {l2s c}")
    | .error er => (st, err er)
  | ["childrenp", p] =>
    match childrenPaths st.w (s2l p) with
    | .ok ps => (st, "ok " ++ ",".intercalate (ps.map l2s))
    | .error er => (st, err er)
  | ["siblingsp", p] =>
    match siblingsPaths st.w (s2l p) with
    | .ok ps => (st, "ok " ++ ",".intercalate (ps.map l2s))
    | .error er => (st, err er)
  | ["parentp", p] =>
    match parentPath st.w (s2l p) with
    | .ok q => (st, "ok " ++ l2s q)
    | .error er => (st, err er)
  | ["ancestorp", p, tag] =>
    match ancestorPath st.w (s2l p) (s2l tag) with
    | .ok q => (st, "ok " ++ l2s q)
    | .error er => (st, err er)
  | ["expand", p] => query st (.expand (s2l p)) false
  | ["expandp", p] =>
    match expandPaths st.w (s2l p) with
    | .ok ps => (st, "ok " ++ ",".intercalate (ps.map l2s))
    | .error er => (st, err er)
  | ["values", p] => query st (.values (s2l p)) false
  | ["groupby", p, d] =>
    match d.toInt? with
    | none => (st, "bad-op")
    | some depth =>
      match st.w.cache.groupByAll (s2l p) depth with
      | .ok g => (st, "ok " ++ ",".intercalate (g.map fun kv => l2s kv.1))
      | .error er => (st, err er)
  | ["expandsafe", p] =>
    match (pathfy st.w.root [⟨st.w.root.name, none⟩]).find? (fun pe => encodePath pe.1 == s2l p) with
    | some (q, x) =>
      let b := decide (RelativefySafe q x)
      let c := decide (expandOf st.w.table.canResolve 3 x q = expandFullOf st.w.table.canResolve x q)
      (st, s!"ok {b} {c}")
    | none => (st, "Errors.NodeNotFound")
  | ["find", via, d, tst] =>
    match d.toInt?, parseTester tst with
    | some depth, some tester =>
      match findS st.w.root (s2l via) tester depth with
      | .ok l => (st, "ok " ++ showKVs l)
      | .error er => (st, err er)
    | _, _ => (st, "bad-op")
  | ["fexists", p] =>
    match finderExists st.w.root (s2l p) with
    | .ok b => (st, toString b)
    | .error er => (st, err er)
  | ["pathfyd", p, d] =>
    match d.toInt? with
    | some depth => (st, showKVs (fullPathfyD st.w.root (unhexD p) depth))
    | none => (st, "bad-op")
  | ["dsn.left", d, p, k] =>
    match k.toInt? with
    | some k => if unhexD d == ['.'] then (st, "ok " ++ Str.hex (dsnLeft (unhexD p) k)) else
      (match dsnLeftBy (unhexD d) (unhexD p) k with | .ok r => (st, "ok " ++ Str.hex r) | .error er => (st, err er))
    | none => (st, "bad-op")
  | ["dsn.right", d, p, k] =>
    match k.toInt? with
    | some k => if unhexD d == ['.'] then (st, "ok " ++ Str.hex (dsnRight (unhexD p) k)) else
      (match dsnRightBy (unhexD d) (unhexD p) k with | .ok r => (st, "ok " ++ Str.hex r) | .error er => (st, err er))
    | none => (st, "bad-op")
  | ["dsn.shift", d, p, k] =>
    match k.toInt? with
    | some k => if unhexD d == ['.'] then (st, "ok " ++ Str.hex (dsnShift (unhexD p) k)) else
      (match dsnShiftBy (unhexD d) (unhexD p) k with | .ok r => (st, "ok " ++ Str.hex r) | .error er => (st, err er))
    | none => (st, "bad-op")
  | ["dsn.root", d, p] =>
    match (if unhexD d == ['.'] then dsnRoot (unhexD p) else dsnRootBy (unhexD d) (unhexD p)) with
    | .ok r => (st, "ok " ++ Str.hex r)
    | .error er => (st, err er)
  | ["dsn.parent", d, p] =>
    match (if unhexD d == ['.'] then dsnParent (unhexD p) else dsnParentBy (unhexD d) (unhexD p)) with
    | .ok r => (st, "ok " ++ Str.hex r)
    | .error er => (st, err er)
  | ["dsn.elements", d, p] =>
    match (if unhexD d == ['.'] then .ok (dsnElements (unhexD p)) else dsnElementsBy (unhexD d) (unhexD p)) with
    | .ok es => (st, "ok " ++ ",".intercalate (es.map Str.hex))
    | .error er => (st, err er)
  | ["dsn.count", d, p] =>
    (st, toString (if unhexD d == ['.'] then dsnElemCounts (unhexD p) else dsnElemCountsBy (unhexD d) (unhexD p)))
  | ["dsn.join", d, ps] =>
    let parts := (ps.splitOn ",").map unhexD
    (st, Str.hex (if unhexD d == ['.'] then dsnJoin parts else dsnJoinBy (unhexD d) parts))
  | ["conforms"] => (st, toString (conformsB (relOf Generated.GrammarChildren.kids) st.w.root))
  | ["uheight", p] =>
    match (pathfy st.w.root [⟨st.w.root.name, none⟩]).find? (fun pe => encodePath pe.1 == s2l p) with
    | some (_, x) => (st, s!"ok {uheight st.w.table.canResolve x}")
    | none => (st, "Errors.NodeNotFound")
  | ["chainfree"] => (st, toString (chainFreeB Generated.GrammarChildren.kids st.w.table.canResolve))
  | ["ep.valid", p] => (st, toString (EP.valid (unhexD p)))
  | ["ep.joined", p, r] => (st, Str.hex (EP.joined (unhexD p) (unhexD r)))
  | ["ep.identify", p, t, i] =>
    match i.toInt? with
    | some k => (st, Str.hex (EP.identify (unhexD p) (unhexD t) k))
    | none => (st, "bad-op")
  | ["ep.first", p] =>
    match EP.first (unhexD p) with
    | .ok (t, i) => (st, s!"ok {Str.hex t} {i}")
    | .error er => (st, err er)
  | ["ep.last", p] =>
    match EP.last (unhexD p) with
    | .ok (t, i) => (st, s!"ok {Str.hex t} {i}")
    | .error er => (st, err er)
  | ["ep.shift", p, k] =>
    match k.toInt? with
    | some k => (st, Str.hex (EP.shift (unhexD p) k))
    | none => (st, "bad-op")
  | ["ep.parenttag", p] =>
    match EP.parentTag (unhexD p) with
    | .ok t => (st, s!"ok {Str.hex t}")
    | .error er => (st, err er)
  | ["ep.deidentify", p] => (st, Str.hex (EP.deIdentify (unhexD p)))
  | ["ep.elements", p] => (st, ",".intercalate ((dsnElements (unhexD p)).map Str.hex))
  | ["ep.contains", p, t] => (st, toString (EP.contains (unhexD p) (unhexD t)))
  | ["ep.only", p, ts] => (st, toString (EP.consistsOfOnly (unhexD p) ((ts.splitOn ",").map unhexD)))
  | ["ep.escaped", p] => (st, Str.hex (EP.escaped (unhexD p)))
  | ["ep.relativefy", p, q] =>
    match EP.relativefy (unhexD p) (unhexD q) with
    | .ok r => (st, s!"ok {Str.hex r}")
    | .error er => (st, err er)
  | ["clear"] => ({ st with ns := {} }, "ok")
  | _ => (st, "bad-op")

def run : IO Unit := runFamily step ({} : St)

end Tranp.Driver.Tree
