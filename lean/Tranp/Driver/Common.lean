/-
  Line-protocol plumbing shared by all driver families. One op per line, tokens separated by TAB,
  arbitrary strings hex-escaped (`Str.hex`/`Str.unhex`, "-" = empty).
-/
import Tranp.Str

namespace Tranp.Driver
open Tranp

def toks (line : String) : List String := (line.splitOn "\t")

def s2l (s : String) : Str := s.toList
def l2s (s : Str) : String := String.ofList s

def unhexD (s : String) : Str := (Str.unhex s).getD ("<bad-hex>".toList)

/-- generic stdin loop: `step` returns the new state and the single output line. -/
partial def loop {σ : Type} (h : IO.FS.Stream) (out : IO.FS.Stream) (step : σ → List String → σ × String) (st : σ) : IO Unit := do
  let line ← h.getLine
  if line.isEmpty then return ()
  let line := if line.endsWith "\n" then (line.dropEnd 1).toString else line
  let (st', o) := step st (toks line)
  out.putStrLn o
  loop h out step st'

def runFamily {σ : Type} (step : σ → List String → σ × String) (init : σ) : IO Unit := do
  let stdin ← IO.getStdin
  let stdout ← IO.getStdout
  loop stdin stdout step init
  stdout.flush

end Tranp.Driver
