/-
  Driver family `cachefs` (property C05): one persistent world, ops of a history.

    init <grammarMtime> <enabled 0|1>                 → ok
    lib <key>                                         → ok          (declares a LibraryPaths entry)
    mod <key> <srchex> <mtime> <target 0|1>           → ok          (initial file with a given mtime; clock := max clock (mtime+1))
    edit <key> <srchex>                               → <obs>       (Op.edit: fresh mtime from the clock)
    run <force 0|1>                                   → <obs>
    preload                                           → <obs>       (`Modules.libralies()` in a fresh process)
    grammar <pathhex>                                 → <obs>       (Op.grammar: another grammar file, fresh mtime)
    setting <pathhex> <starthex> <algohex>            → <obs>       (Op.setting: ParserSetting changed, grammar mtime unchanged)
    clear | enable <0|1>                              → <obs>
    delete #<i> | trunc #<i> <k>                      → <obs>       (i = index into the canonical listing)

  <obs> = status TAB listing TAB reads TAB writes TAB unlinks, paths comma-separated; listing sorted by (stem, ext).
  Source text of the toy semantics: `imp1,imp2;variant`; tree = `{src}`; table = `{key=variant|view1,view2}`.
-/
import Tranp.Driver.Common
import Tranp.Model.CacheFS

namespace Tranp.Driver.CacheFS
open Tranp Tranp.CacheFS Tranp.Driver

def inner (t : Str) : Str := (t.drop 1).dropLast

/-- the toy decoder: one top-level `{…}` whose braces balance exactly at the last character -/
def balanced : Nat → Str → Bool
  | _, [] => false
  | d, [c] => c == '}' && d == 1
  | d, c :: rest => if c == '{' then balanced (d + 1) rest else if c == '}' then (d > 1 && balanced (d - 1) rest) else (d > 0 && balanced d rest)

def toySem : Sem where
  treeIdent gp st al g t ch := s2l ("T" ++ ((Str.hex (gp ++ ['|'] ++ st ++ ['|'] ++ al)).replace "-" "e") ++ s!"g{g}m{t}") ++ (if ch.isEmpty then [] else 'c' :: ch)
  parserIdent gp st al g := s2l ("P" ++ ((Str.hex (gp ++ ['|'] ++ st ++ ['|'] ++ al)).replace "-" "e") ++ s!"m{g}")
  hash s := s2l ("H" ++ (Str.hex s).replace "-" "e")
  identL hs := 'L' :: Str.join ['x'] hs
  entry p h := s2l ((Str.hex p).replace "-" "e") ++ 'y' :: h
  parserBlob _ _ _ g := s2l ("{" ++ s!"lark{g}" ++ "}")
  parse _ src := '{' :: (src ++ ['}'])
  importsOf tree := ((Str.splitOn ';' (inner tree)).headD []) |> Str.splitOn ',' |>.filter (· ≠ [])
  analyse key tree views := '{' :: (key ++ '=' :: (((Str.splitOn ';' (inner tree)).getD 1 []) ++ '|' :: (Str.join [','] views ++ ['}'])))
  encTab t := t
  decTab t := if balanced 0 t then some t else none
  view t := t
  render key tree db := key ++ ':' :: tree ++ Str.join [';'] (db.map (·.2))
  valid d := balanced 0 d

def extOf (p : Str) : Str := if Str.endsWith p binExt then binExt else if Str.endsWith p jsonExt then jsonExt else []

/-- sort key of a cache file: path without its digest -/
def sortKey (p : Str) : Str := basepathOf p ++ extOf p

def insertSorted (p : Str) : List Str → List Str
  | [] => [p]
  | q :: qs => if strLt (sortKey p) (sortKey q) then p :: q :: qs else q :: insertSorted p qs

def listing (w : World) : List Str := w.cache.paths.foldl (fun acc p => insertSorted p acc) []

def uniq (l : List Str) : List Str := l.foldl (fun acc p => if acc.contains p then acc else acc ++ [p]) []

def csv (l : List Str) : String := ",".intercalate (l.map l2s)

def obs (w : World) (status : String) (log : List Event) : String :=
  let pick (k : Char) := uniq ((log.filter (·.1 == k)).map (·.2))
  s!"{status}\t{csv (listing w)}\t{csv (pick 'r')}\t{csv (pick 'w')}\t{csv (pick 'd')}"

def parseIdx (s : String) : Option Nat := if s.startsWith "#" then (s.drop 1).toString.toNat? else none

def bool01 (s : String) : Option Bool := if s == "1" then some true else if s == "0" then some false else none

def step' (w : World) : List String → World × String
  | ["init", g, e] =>
    match g.toNat?, bool01 e with
    | some g, some e =>
      let w0 : World := { grammarMtime := g, enabled := e, clock := g + 1 }
      ({ w0 with grammar := s2l "grammar.lark", start := s2l "file_input", algo := s2l "lalr" }, "ok")
    | _, _ => (w, "bad-op")
  | ["lib", key] => ({ w with libs := w.libs ++ [s2l key] }, "ok")
  | ["mod", key, src, t, target] =>
    match Str.unhex src, t.toNat?, bool01 target with
    | some src, some t, some target =>
      ({ w with srcs := w.srcs.put (s2l key) ⟨src, t⟩, clock := max w.clock (t + 1),
                order := if target then w.order ++ [s2l key] else w.order }, "ok")
    | _, _, _ => (w, "bad-op")
  | ["edit", key, src] =>
    match Str.unhex src with
    | some src => let w := step toySem w (.edit (s2l key) src); (w, obs w "ok" [])
    | none => (w, "bad-op")
  | ["run", f] =>
    match bool01 f with
    | some f =>
      let s := run toySem w f
      (s.w, obs s.w (match s.err with | none => "ok" | some e => "err:" ++ e.toString) s.log)
    | none => (w, "bad-op")
  | ["preload"] =>
    -- `Modules.libralies()` in a fresh process
    let s := w.libs.foldl (loadMod toySem (fuelOf w)) ({ w := w } : Sess)
    (s.w, obs s.w (match s.err with | none => "ok" | some e => "err:" ++ e.toString) s.log)
  | ["grammar", path] =>
    match Str.unhex path with
    | some path => let w := step toySem w (.grammar path); (w, obs w "ok" [])
    | none => (w, "bad-op")
  | ["setting", gp, st, al] =>
    match Str.unhex gp, Str.unhex st, Str.unhex al with
    | some gp, some st, some al => let w := step toySem w (.setting gp st al); (w, obs w "ok" [])
    | _, _, _ => (w, "bad-op")
  | ["clear"] => let w := step toySem w .clear; (w, obs w "ok" [])
  | ["enable", b] =>
    match bool01 b with
    | some b => let w := step toySem w (.enable b); (w, obs w "ok" [])
    | none => (w, "bad-op")
  | ["delete", i] =>
    match (parseIdx i).bind (fun i => (listing w)[i]?) with
    | some p => let w := step toySem w (.delete p); (w, obs w "ok" [])
    | none => (w, "bad-op")
  | ["trunc", i, k] =>
    match (parseIdx i).bind (fun i => (listing w)[i]?), k.toNat? with
    | some p, some k => let w := step toySem w (.trunc p k); (w, obs w "ok" [])
    | _, _ => (w, "bad-op")
  | _ => (w, "bad-op")

def run : IO Unit := runFamily step' ({} : World)

end Tranp.Driver.CacheFS
