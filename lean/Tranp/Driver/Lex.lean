/-
  Driver family `lex` (property C13): the tokenizer model over the generated definitions.

    def py|gram                               select the definition (TokenDefinition() | gram_tokenizer())   → ok
    impl <src>                                Lexer.parse_impl                                               → ok tok tok … / <error>
    lex <src>                                 Lexer.parse (parse_impl, post_filter, EOF)
    tok <src>                                 Tokenizer.parse
    domain <src> <begin>                      Lexer.analyze_domain                                           → ok <domain value>
    p.ws|p.comment|p.quote|p.number|p.ident|p.symbol <src> <begin>                                           → ok <end> tok
    map <src> <begin> <end>                   Token.SourceMap.make                                           → ok bl,bc,el,ec
    filter <tok;tok;…>                        Lexer.post_filter on an arbitrary token list
    rebuild <tok;tok;…>                       Tokenizer._rebuild on an arbitrary token list
    lay.blank <src> <pos> <w>                 the checker of C13.layout_blank_by_position (blankInsertOK)               → true|false
    lay.comment <src> <pos> <w> <body>        commentInsertOK with the definition's first comment pair                → true|false
    lay.cline <src> <pos> <ind> <body>        commentLineInsertOK                                                      → true|false
    lay.tcomment <src> <pos> <body>           commentTightOK (comment directly after a token), first comment pair        → true|false
    lay.lead <pre> <s>                        leadOK (white space / one comment line in front of the first token)        → true|false
    lay.tail <a> <run> <run'>                 the checker of C13.layout_tail_by_position (tailOK for both tails)        → true|false

  tok = <type value>:<hex string>:<bl>,<bc>,<el>,<ec>
-/
import Tranp.Driver.Common
import Tranp.Model.Lexer
import Tranp.Generated.TokenDef
import Tranp.Lemmas.Lexer
import Tranp.Lemmas.LexerTail
import Tranp.Lemmas.LexerLead
import Tranp.Lemmas.LexerTight

namespace Tranp.Driver.Lex
open Tranp Tranp.Lexer Tranp.Driver

structure St where
  gram : Bool := false

def St.d (st : St) : TokenDef := if st.gram then Tranp.Generated.TokenDef.gramDef else Tranp.Generated.TokenDef.pyDef

def showMap (m : SourceMap) : String := s!"{m.bl},{m.bc},{m.el},{m.ec}"

def showTok (t : Token) : String := s!"{t.type}:{Str.hex t.string}:{showMap t.map}"

def showToks (ts : List Token) : String := " ".intercalate ("ok" :: ts.map showTok)

def showRes (r : Except Err (List Token)) : String :=
  match r with
  | .ok ts => showToks ts
  | .error e => e.toString

def showStep (r : Except Err (Nat × Token)) : String :=
  match r with
  | .ok (e, t) => s!"ok {e} {showTok t}"
  | .error e => e.toString

def parseTok (s : String) : Option Token :=
  match s.splitOn ":" with
  | [ty, str, m] =>
    match ty.toNat?, Str.unhex str, (m.splitOn ",").map String.toInt? with
    | some ty, some str, [some a, some b, some c, some d] => some ⟨ty, str, ⟨a, b, c, d⟩⟩
    | _, _, _ => none
  | _ => none

def parseToks (s : String) : Option (List Token) :=
  if s = "-" then some [] else (s.splitOn ";").mapM parseTok

def step (st : St) : List String → St × String
  | ["def", "py"] => ({ st with gram := false }, "ok")
  | ["def", "gram"] => ({ st with gram := true }, "ok")
  | ["impl", src] =>
    match Str.unhex src with
    | some s => (st, showRes (parseImpl st.d s))
    | none => (st, "bad-op")
  | ["lex", src] =>
    match Str.unhex src with
    | some s => (st, showRes (lexParse st.d s))
    | none => (st, "bad-op")
  | ["tok", src] =>
    match Str.unhex src with
    | some s => (st, showRes (tokenize st.d s))
    | none => (st, "bad-op")
  | ["domain", src, b] =>
    match Str.unhex src, b.toNat? with
    | some s, some b =>
      match analyzeDomain st.d s b with
      | .ok dom => (st, s!"ok {dom}")
      | .error e => (st, e.toString)
    | _, _ => (st, "bad-op")
  | ["map", src, b, e] =>
    match Str.unhex src, b.toNat?, e.toNat? with
    | some s, some b, some e => (st, s!"ok {showMap (mkMap s b e)}")
    | _, _, _ => (st, "bad-op")
  | ["lay.lead", pre, src] =>
    match Str.unhex pre, Str.unhex src, st.d.comment.head? with
    | some pre, some s, some pair => (st, toString (leadOK st.d pre s pair))
    | _, _, _ => (st, "bad-op")
  | [op, src, b] =>
    match Str.unhex src, b.toNat? with
    | some s, some b =>
      if op = "p.ws" then (st, showStep (parseWhiteSpace st.d s b))
      else if op = "p.comment" then (st, showStep (parseComment st.d s b))
      else if op = "p.quote" then (st, showStep (parseQuote st.d s b))
      else if op = "p.number" then (st, showStep (parseNumber st.d s b))
      else if op = "p.ident" then (st, showStep (parseIdentifier st.d s b))
      else if op = "p.symbol" then (st, showStep (parseSymbol st.d s b))
      else (st, "bad-op")
    | _, _ => (st, "bad-op")
  | ["lay.blank", src, pos, w] =>
    match Str.unhex src, pos.toNat?, Str.unhex w with
    | some s, some p, some w => (st, toString (blankInsertOK st.d s p w))
    | _, _, _ => (st, "bad-op")
  | ["lay.comment", src, pos, w, body] =>
    match Str.unhex src, pos.toNat?, Str.unhex w, Str.unhex body, st.d.comment.head? with
    | some s, some p, some w, some b, some pair => (st, toString (commentInsertOK st.d s p w b pair))
    | _, _, _, _, _ => (st, "bad-op")
  | ["lay.tcomment", src, pos, body] =>
    match Str.unhex src, pos.toNat?, Str.unhex body, st.d.comment.head? with
    | some s, some p, some b, some pair => (st, toString (commentTightOK st.d s p b pair))
    | _, _, _, _ => (st, "bad-op")
  | ["lay.tail", a, run, run'] =>
    match Str.unhex a, Str.unhex run, Str.unhex run' with
    | some a, some r, some r' => (st, toString (tailOK st.d a r && tailOK st.d a r'))
    | _, _, _ => (st, "bad-op")
  | ["lay.cline", src, pos, ind, body] =>
    match Str.unhex src, pos.toNat?, Str.unhex ind, Str.unhex body, st.d.comment.head? with
    | some s, some p, some i, some b, some pair => (st, toString (commentLineInsertOK st.d s p i b pair))
    | _, _, _, _, _ => (st, "bad-op")
  | ["filter", ts] =>
    match parseToks ts with
    | some ts => (st, showToks (postFilter st.d ts))
    | none => (st, "bad-op")
  | ["rebuild", ts] =>
    match parseToks ts with
    | some ts => (st, showRes (rebuild ts))
    | none => (st, "bad-op")
  | _ => (st, "bad-op")

def run : IO Unit := runFamily step ({} : St)

end Tranp.Driver.Lex
