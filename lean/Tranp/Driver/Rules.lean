/-
  Driver family `rules` (property C12): rule (de)serialisation.

    make <hex>                          Pattern.make                     → ok <pat> / <error>
    fromast <tentry-sexp>               Rules.from_ast                   → ok <key>=<pat>;… / <error>
    pretty <tentry-sexp>                Rules.from_ast(...).pretty()     → ok <hex> / <error>
    toast <tentry-sexp>                 toAst (fromAst t) (spec side)    → ok <tentry-sexp> / <error>
    canon <tentry-sexp>                 Canon (fromAst t)                → ok true|false / <error>
    render <filenamehex> <tentry-sexp>  gram_check.App.render_rules      → ok <hex>
    textrt <tentry-sexp>                print → gram lexer model → classes → engine → from_ast == rule set   → ok true|false / <error of from_ast>
    reload <texthex>                    gram lexer model → classes → engine → from_ast on any text            → ok <rules> / lex-error / Errors.Syntax / <error>
    gramclass <hex>                     regexp class of a token string under gram_rules() (GramClass)       → <nat>
    compile <sourcehex> <tokens>        parse with the built-in gram rules, entry `entry` → ok <tentry-sexp> / Errors.Syntax <hex> / <error>

  <pat> (space separated): `p:<exprhex>:<S|T>:<N|R|E>` | `( G:<and|or>:<rep> child … )`.
-/
import Tranp.Driver.Engine
import Tranp.Model.TextRt

namespace Tranp.Driver.Rules
open Tranp Tranp.Engine Tranp.RulesAst Tranp.Driver Tranp.Driver.Engine

def showRep : Rep → String
  | .overZero => "*" | .overOne => "+" | .oneOrZero => "?" | .oneOrEmpty => "[]" | .noRepeat => "off"

partial def showPat : Pat → String
  | .pattern e role comp =>
    let r := match role with | .symbol => "S" | .terminal => "T"
    let c := match comp with | .noComp => "N" | .regexp => "R" | .equals => "E"
    s!"p:{Str.hex e}:{r}:{c}"
  | .group es op rep =>
    let o := match op with | .and => "and" | .or => "or"
    s!"( G:{o}:{showRep rep}" ++ String.join (es.map fun e => " " ++ showPat e) ++ " )"

def showRules (R : Rules) : String := ";".intercalate (R.map fun kv => Str.hex kv.1 ++ "=" ++ showPat kv.2)

partial def astOfTEntry : TEntry → Ast
  | .token n v => .token n ⟨v, 0, ⟨0, 0, 0, 0⟩⟩
  | .tree n cs => .tree n (cs.map astOfTEntry)

def step (st : Unit) : List String → Unit × String
  | ["make", h] =>
    match Str.unhex h with
    | some s => match make s with
      | .ok p => (st, "ok " ++ showPat p)
      | .error e => (st, e.toString)
    | none => (st, "bad-op")
  | ["fromast", sx] =>
    match readTEntry sx with
    | some t => match fromAst t with
      | .ok R => (st, "ok " ++ showRules R)
      | .error e => (st, e.toString)
    | none => (st, "bad-op")
  | ["pretty", sx] =>
    match readTEntry sx with
    | some t => match fromAst t with
      | .ok R => (st, "ok " ++ Str.hex (pretty R))
      | .error e => (st, e.toString)
    | none => (st, "bad-op")
  | ["toast", sx] =>
    match readTEntry sx with
    | some t => match fromAst t with
      | .ok R => (st, "ok " ++ showTEntry (toAst R))
      | .error e => (st, e.toString)
    | none => (st, "bad-op")
  | ["canon", sx] =>
    match readTEntry sx with
    | some t => match fromAst t with
      | .ok R => (st, "ok " ++ toString (decide (Canon R)))
      | .error e => (st, e.toString)
    | none => (st, "bad-op")
  | ["render", fn, sx] =>
    match Str.unhex fn, readTEntry sx with
    | some f, some t => (st, "ok " ++ Str.hex (renderRules f (astOfTEntry t)))
    | _, _ => (st, "bad-op")
  | ["textrt", sx] =>
    match readTEntry sx with
    | some t => match fromAst t with
      | .ok R => (st, "ok " ++ toString (TextRt.textRt R))
      | .error e => (st, e.toString)
    | none => (st, "bad-op")
  | ["reload", h] =>
    match Str.unhex h with
    | some text =>
      match TextRt.reload text with
      | none => (st, "lex-error")
      | some (.ok R) => (st, "ok " ++ showRules R)
      | some (.error (.syntax _)) => (st, "Errors.Syntax")
      | some (.error e) => (st, e.toString)
    | none => (st, "bad-op")
  | ["gramclass", h] =>
    match Str.unhex h with
    | some s => (st, toString (GramClass.gramClass s))
    | none => (st, "bad-op")
  | ["compile", src, toks] =>
    match Str.unhex src, parseToks toks with
    | some source, some ts =>
      match parse Generated.gramEnv (driverFuel ts.length) source ts nEntry with
      | .ok t => (st, "ok " ++ showTEntry t.simplify)
      | .error (.syntax msg) => (st, "Errors.Syntax " ++ Str.hex msg)
      | .error er => (st, er.toString)
    | _, _ => (st, "bad-op")
  | _ => (st, "bad-op")

def run : IO Unit := runFamily step ()

end Tranp.Driver.Rules
