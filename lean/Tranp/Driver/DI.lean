/-
  Driver family `di` (property C19): op sequences over a heap of DI / LazyDI containers.

    reset                                            → ok            (new case: empty heap, instance counter 0)
    new di | new lazy <defs>                         → c<k> / <error>
    bind <c> <sym> <factory> | rebind <c> <sym> <factory> | unbind <c> <sym>     → ok / <error>
    resolve <c> <sym>                                → i<id>:f<fid>(<args>) / <error>
    can <c> <sym>                                    → true | false
    invoke <c> <factory> <args>                      → i<id>:f<fid>(<args>) / <error>
    clone <c> | combine <a> <b>                      → c<k> / <error>

    <sym>      s<k> | g<k>                 (g = subscripted form of a generic class)
    <factory>  f<fid>/<aid>/<params> (r<fid>/… = the body raises)   aid = identity of the annotated callable; params: `,`-separated `_` (unannotated) | <sym>, `-` = none
    <defs>     `;`-separated s<k>=<inj>, `-` = none;  <inj> = <factory> | n<name>@<factory> | n<name>!attr | n<name>!mod
    <args>     `,`-separated x<id>:<ty>, `-` = none
-/
import Tranp.Driver.Common
import Tranp.Model.DI

namespace Tranp.Driver.DI
open Tranp Tranp.DI Tranp.Driver

def fuel : Nat := 200

def natOf (s : String) : Option Nat := s.toNat?

def parseSym (s : String) : Option SymRef :=
  if s.startsWith "s" then (natOf (s.drop 1).toString).map (fun n => ⟨n, false⟩)
  else if s.startsWith "g" then (natOf (s.drop 1).toString).map (fun n => ⟨n, true⟩)
  else none

def parseParams (s : String) : Option (List (Option SymRef)) :=
  if s == "-" then some [] else
  (s.splitOn ",").mapM (fun p => if p == "_" then some none else (parseSym p).map some)

def parseFactory (s : String) : Option Factory :=
  match s.splitOn "/" with
  | [f, q, ps] =>
    if !(f.startsWith "f" || f.startsWith "r") then none else
    match natOf (f.drop 1).toString, natOf q, parseParams ps with
    | some fid, some aid, some params => some ⟨fid, aid, params, f.startsWith "r"⟩
    | _, _, _ => none
  | _ => none

def parseInj (s : String) : Option Injector :=
  if s.startsWith "n" then
    match s.splitOn "@" with
    | [n, f] => match natOf (n.drop 1).toString, parseFactory f with
      | some name, some fac => some (.named name fac)
      | _, _ => none
    | _ => match s.splitOn "!" with
      | [n, e] => match natOf (n.drop 1).toString with
        | some name =>
          if e == "attr" then some (.broken name .noAttribute)
          else if e == "mod" then some (.broken name .noModule)
          else none
        | none => none
      | _ => none
  else (parseFactory s).map .direct

def parseDefs (s : String) : Option (List (Nat × Injector)) :=
  if s == "-" then some [] else
  (s.splitOn ";").mapM (fun item =>
    match item.splitOn "=" with
    | [k, v] => match parseSym k, parseInj v with
      | some r, some inj => some (symbolize r, inj)
      | _, _ => none
    | _ => none)

def parseArgs (s : String) : Option (List Arg) :=
  if s == "-" then some [] else
  (s.splitOn ",").mapM (fun a =>
    match a.splitOn ":" with
    | [x, t] =>
      if !x.startsWith "x" then none else
      match natOf (x.drop 1).toString, natOf t with
      | some i, some ty => some ⟨i, ty⟩
      | _, _ => none
    | _ => none)

def parseOp : List String → Option Op
  | ["new", "di"] => some .newDI
  | ["new", "lazy", defs] => (parseDefs defs).map .newLazy
  | ["bind", c, s, f] => do some (.on (← natOf c) (.bind (← parseSym s) (← parseFactory f)))
  | ["rebind", c, s, f] => do some (.on (← natOf c) (.rebind (← parseSym s) (← parseFactory f)))
  | ["unbind", c, s] => do some (.on (← natOf c) (.unbind (← parseSym s)))
  | ["resolve", c, s] => do some (.on (← natOf c) (.resolve (← parseSym s)))
  | ["can", c, s] => do some (.on (← natOf c) (.can (← parseSym s)))
  | ["invoke", c, f, a] => do some (.on (← natOf c) (.invoke (← parseFactory f) (← parseArgs a)))
  | ["clone", c] => do some (.clone (← natOf c))
  | ["combine", a, b] => do some (.combine (← natOf a) (← natOf b))
  | _ => none

def showVal : Val → String
  | .inst i => s!"i{i}"
  | .ext i => s!"x{i}"

def showObj (o : Obj) : String := s!"i{o.id}:f{o.fid}({",".intercalate (o.args.map showVal)})"

def showOut : Out → String
  | .ok => "ok"
  | .bool b => if b then "true" else "false"
  | .obj o => showObj o
  | .cont k => s!"c{k}"
  | .err e => e.toString
  | .bad => "bad-op"

def stepLine (σ : State) : List String → State × String
  | ["reset"] => (State.init, "ok")
  | toks =>
    match parseOp toks with
    | none => (σ, "bad-op")
    | some op =>
      let (σ', out) := step fuel σ op
      (σ', showOut out)

def run : IO Unit := runFamily stepLine State.init

end Tranp.Driver.DI
