/-
  Driver family `di` (property C19): op sequences over a heap of DI / LazyDI containers.

    reset                                            → ok            (new case: empty heap, instance counter 0)
    new di | new lazy <defs>                         → c<k> / <error>
    bind <c> <sym> <factory> | rebind <c> <sym> <factory> | unbind <c> <sym>     → ok / <error>
    resolve <c> <sym>                                → i<id>:f<fid>(<args>) / <error>
    can <c> <sym>                                    → true | false
    invoke <c> <factory> <args>                      → i<id>:f<fid>(<args>) / <error>
    clone <c> | combine <a> <b>                      → c<k> / <error>

    <sym>      s<k> | g<k>                 (g = subscripted form of a generic class)
    <factory>  f<fid>/<aid>/<params> (r<fid>/… = the body raises, z<fid>/… = the factory returns None)
               aid = identity of the annotated callable; params: `,`-separated `_` (unannotated) | <sym>, `-` = none
    <defs>     `;`-separated s<k>=<inj>, `-` = none;  <inj> = <factory> | n<name>@<factory> | n<name>!attr | n<name>!mod
    <args>     `,`-separated x<id>:<ty>, `-` = none

  A factory that returns None is, for the container, a factory like any other: di.py stores what the call returned and
  tests `found_symbol not in self.__instances` (di.py:98), so the stored None is the instance of that binding generation.
  The model keeps the creation event (fresh id) as it does for every call; only the *display* differs, because Python's
  None has no identity of its own: an instance made by a `z` factory prints as `none/n<k>` where `k` is the number of
  factory calls that returned so far (so a factory that is run again shows up at once), and as `none` where it is an
  argument of another instance.
-/
import Tranp.Driver.Common
import Tranp.Model.DI

namespace Tranp.Driver.DI
open Tranp Tranp.DI Tranp.Driver

def fuel : Nat := 200

def natOf (s : String) : Option Nat := s.toNat?

def parseSym (s : String) : Option SymRef :=
  if s.startsWith "s" then (natOf (s.drop 1).toString).map (fun n => ⟨n, false⟩)
  else if s.startsWith "g" then (natOf (s.drop 1).toString).map (fun n => ⟨n, true⟩)
  else none

def parseParams (s : String) : Option (List (Option SymRef)) :=
  if s == "-" then some [] else
  (s.splitOn ",").mapM (fun p => if p == "_" then some none else (parseSym p).map some)

def parseFactory (s : String) : Option Factory :=
  match s.splitOn "/" with
  | [f, q, ps] =>
    if !(f.startsWith "f" || f.startsWith "r" || f.startsWith "z") then none else
    match natOf (f.drop 1).toString, natOf q, parseParams ps with
    | some fid, some aid, some params => some ⟨fid, aid, params, f.startsWith "r"⟩
    | _, _, _ => none
  | _ => none

def parseInj (s : String) : Option Injector :=
  if s.startsWith "n" then
    match s.splitOn "@" with
    | [n, f] => match natOf (n.drop 1).toString, parseFactory f with
      | some name, some fac => some (.named name fac)
      | _, _ => none
    | _ => match s.splitOn "!" with
      | [n, e] => match natOf (n.drop 1).toString with
        | some name =>
          if e == "attr" then some (.broken name .noAttribute)
          else if e == "mod" then some (.broken name .noModule)
          else none
        | none => none
      | _ => none
  else (parseFactory s).map .direct

def parseDefs (s : String) : Option (List (Nat × Injector)) :=
  if s == "-" then some [] else
  (s.splitOn ";").mapM (fun item =>
    match item.splitOn "=" with
    | [k, v] => match parseSym k, parseInj v with
      | some r, some inj => some (symbolize r, inj)
      | _, _ => none
    | _ => none)

def parseArgs (s : String) : Option (List Arg) :=
  if s == "-" then some [] else
  (s.splitOn ",").mapM (fun a =>
    match a.splitOn ":" with
    | [x, t] =>
      if !x.startsWith "x" then none else
      match natOf (x.drop 1).toString, natOf t with
      | some i, some ty => some ⟨i, ty⟩
      | _, _ => none
    | _ => none)

def parseOp : List String → Option Op
  | ["new", "di"] => some .newDI
  | ["new", "lazy", defs] => (parseDefs defs).map .newLazy
  | ["bind", c, s, f] => do some (.on (← natOf c) (.bind (← parseSym s) (← parseFactory f)))
  | ["rebind", c, s, f] => do some (.on (← natOf c) (.rebind (← parseSym s) (← parseFactory f)))
  | ["unbind", c, s] => do some (.on (← natOf c) (.unbind (← parseSym s)))
  | ["resolve", c, s] => do some (.on (← natOf c) (.resolve (← parseSym s)))
  | ["can", c, s] => do some (.on (← natOf c) (.can (← parseSym s)))
  | ["invoke", c, f, a] => do some (.on (← natOf c) (.invoke (← parseFactory f) (← parseArgs a)))
  | ["clone", c] => do some (.clone (← natOf c))
  | ["combine", a, b] => do some (.combine (← natOf a) (← natOf b))
  | _ => none

/-- display state: the factory ids declared with `z` (return None) and the ids of the instances they made -/
structure DState where
  σ : State := State.init
  noneF : List Nat := []
  noneI : List Nat := []

/-- the `z<fid>/` factory texts of an op line -/
def noneFidsOf (toks : List String) : List Nat :=
  toks.flatMap (fun t =>
    (t.split (fun c => c == ';' || c == '=' || c == '@')).toList.filterMap (fun piece =>
      let p := piece.toString
      if p.startsWith "z" then
        match (p.drop 1).toString.splitOn "/" with
        | n :: _ :: _ => natOf n
        | _ => none
      else none))

def showVal (noneI : List Nat) : Val → String
  | .inst i => if noneI.contains i then "none" else s!"i{i}"
  | .ext i => s!"x{i}"

def showObj (d : DState) (o : Obj) : String :=
  if d.noneF.contains o.fid then s!"none/n{d.σ.next}"
  else s!"i{o.id}:f{o.fid}({",".intercalate (o.args.map (showVal d.noneI))})"

def showOut (d : DState) : Out → String
  | .ok => "ok"
  | .bool b => if b then "true" else "false"
  | .obj o => showObj d o
  | .cont k => s!"c{k}"
  | .err e => e.toString
  | .bad => "bad-op"

/-- ids of the instances made by `z` factories: whatever a resolve creates is stored in the container it was created in
    (di.py:100) before the op returns, an invoke hands its product out directly -/
def noteNone (noneF : List Nat) (σ : State) (out : Out) (acc : List Nat) : List Nat :=
  if noneF.isEmpty then acc else
  let stored := σ.conts.flatMap (fun c => c.instances.items.filterMap (fun kv =>
    if noneF.contains kv.2.fid && !acc.contains kv.2.id then some kv.2.id else none))
  let direct := match out with
    | .obj o => if noneF.contains o.fid && !acc.contains o.id then [o.id] else []
    | _ => []
  acc ++ (stored ++ direct).eraseDups

def stepLine (d : DState) : List String → DState × String
  | ["reset"] => ({}, "ok")
  | toks =>
    match parseOp toks with
    | none => (d, "bad-op")
    | some op =>
      let (σ', out) := step fuel d.σ op
      let noneF := (d.noneF ++ (noneFidsOf toks).filter (fun n => !d.noneF.contains n)).eraseDups
      let d' : DState := { σ := σ', noneF := noneF, noneI := noteNone noneF σ' out d.noneI }
      (d', showOut d' out)

def run : IO Unit := runFamily stepLine ({} : DState)

end Tranp.Driver.DI
