/-
  Driver family `proc` (property C09): a table of exported nodes, a handler table, and one procedure whose
  stack-of-stacks persists across `exec` ops (like one real `Procedure` object).

    node <slot> <nid> <clshex> <T|N> <props> <under>        → ok        (children are earlier slots; slot = next index)
        props  = - | keyhex:<ann L|S><value L|S>:<slots|->;…             (ann = return annotation, value = run-time shape)
        under  = - | slot,slot,…
    hs <fallback beh|none> <clshex=beh;…|->                  → ok
        beh    = sig | id | mut | nil | strict0 | raise:<Exc> | nest:<slot> | try:<slot>
    exec <slot>                                              → <ok result | Err> | <frame sizes, newest first>
    denote <slot>                                            → <ok result | Err>      (reference semantics)
    procedural <slot>                                        → nid,nid,…
    wf <slot>                                                → ok | nid:clause+clause,…   (visited nodes violating WFNode)
    reset                                                    → ok        (drops nodes, handlers and stacks)

  the handler table as a history of registrations on the instance (Model/ProcedureHistory.lean):
    h.on <actionhex> <callback id> <beh>                     → ok        (Middleware.on; the table `exec` sees follows;
                                                                          beh also chain | chain0 | chain2: a callback declaring `next`
                                                                          that runs the rest of the chain once / never / twice)
    h.off <actionhex> <callback id>                          → ok | ValueError
    h.clear                                                  → ok

  `Node.prop_keys` cache over a class table (Model/PropKeys.lean):
    pk.reset                                                 → ok        (drops table and cache)
    pk.cls <id> <namehex> <pathhex> <mro ids, class first>   → ok        (id = next index)
    pk.node <id>                                             → ok        (which id is `Node` itself)
    pk.meta <pathhex> <key,key,…|->                          → ok        (expandable method names of a class path, in order)
    pk.q <id>                                                → key,key,…|-   (one `cls.prop_keys()` call, cache threaded)
    pk.pure <id>                                             → key,key,…|-   (cache-free computation)
    gs.name <id>                                             → class name at that id of Generated/NodeClasses.table
    gs.row <id>                                              → key:L|O,…|-   (Generated/GetterShapes row: key and annotation flag, prop_keys() order)
    gs.shape <id> <keyhex>                                   → L|O           (shape of the getter body: list / one node)
-/
import Tranp.Driver.Common
import Tranp.Model.Procedure
import Tranp.Model.PropKeys
import Tranp.Model.ProcedureHistory
import Tranp.Generated.NodeClasses
import Tranp.Generated.GetterShapes

namespace Tranp.Driver.Proc
open Tranp Tranp.Procedure Tranp.Driver

/-- nesting budget of the driver's procedure (the harness never nests deeper than 8) -/
def fuel : Nat := 24

structure DSt where
  nodes : Array PNode := #[]
  hs : Handlers String := ⟨fun _ => none, none⟩
  stacks : St String := []
  em : Emitter String := []
  pk : PropKeys.Table := ⟨[], 0, []⟩
  pkCache : PropKeys.Cache := []

def evVal : EvVal String → String
  | .one r => r
  | .many rs => "[" ++ ";".intercalate rs ++ "]"

/-- the full-information result: label and the event as received, in dict order -/
def sig (n : PNode) (ev : Event String) : String :=
  s!"{n.id}(" ++ ",".intercalate (ev.map fun kv => l2s kv.1 ++ "=" ++ evVal kv.2) ++ ")"

def errOf (name : String) : Err :=
  if name == "TypeError" then .typeError
  else if name == "IndexError" then .indexError
  else if name == "RecursionError" then .recursionError
  else if name.startsWith "Errors." then .tranp (s2l (name.drop 7).toString)
  else .other (s2l name)

def resStr : Except Err String → String
  | .ok r => "ok " ++ r
  | .error e => e.toString

def mkHandler (nodes : Array PNode) (beh : String) : Option (Handler String) :=
  match beh.splitOn ":" with
  | ["sig"] => some fun n ev => .ret (sig n ev)
  | ["id"] => some fun n _ => .ret (toString n.id)
  -- `mut`: the real handler edits the lists it received in place after reading them; lists are values of one event, so = `sig`
  | ["mut"] => some fun n ev => .ret (sig n ev)
  -- `nil`: the real handler returns None (rendered "None"); a result like any other
  | ["nil"] => some fun _ _ => .ret "None"
  | ["strict0"] => some fun n ev => if ev.isEmpty then .ret (sig n ev) else .fail .typeError
  | ["raise", x] => some fun _ _ => .fail (errOf x)
  | ["nest", s] =>
    match s.toNat? with
    | some i => match nodes[i]? with
      | some t => some fun n ev => .call t fun r => .ret (sig n ev ++ "+<" ++ r ++ ">")
      | none => none
    | none => none
  | ["try", s] =>
    match s.toNat? with
    | some i => match nodes[i]? with
      | some t => some fun n ev => .tryCall t fun x => .ret (sig n ev ++ "+<" ++ (match x with
        | .ok r => r
        | .error e => "!" ++ e.toString) ++ ">")
      | none => none
    | none => none
  | _ => none

def parseSlots (nodes : Array PNode) (s : String) : Option (List PNode) :=
  if s == "-" then some []
  else (s.splitOn ",").mapM fun t => t.toNat?.bind fun i => nodes[i]?

def parseProp (nodes : Array PNode) (s : String) : Option PProp :=
  match s.splitOn ":" with
  | [k, flags, slots] =>
    match Str.unhex k, parseSlots nodes slots with
    | some key, some cs =>
      let ann := flags.startsWith "L"
      if flags == "LL" || flags == "SL" then some (.many key ann cs)
      else if flags == "LS" || flags == "SS" then
        match cs with
        | [c] => some (.one key ann c)
        | _ => none
      else none
    | _, _ => none
  | _ => none

def parseProps (nodes : Array PNode) (s : String) : Option (List PProp) :=
  if s == "-" then some [] else (s.splitOn ";").mapM (parseProp nodes)

def parseSpecific (nodes : Array PNode) (s : String) : Option (List (Str × Handler String)) :=
  if s == "-" then some []
  else (s.splitOn ";").mapM fun item =>
    match item.splitOn "=" with
    | [c, beh] =>
      match Str.unhex c, mkHandler nodes beh with
      | some cls, some h => some (cls, h)
      | _, _ => none
    | _ => none

def step (st : DSt) : List String → DSt × String
  | ["node", slot, nid, cls, term, props, under] =>
    match slot.toNat?, nid.toNat?, Str.unhex cls, parseProps st.nodes props, parseSlots st.nodes under with
    | some i, some id, some c, some ps, some us =>
      if i != st.nodes.size || (term != "T" && term != "N") then (st, "bad-op")
      else ({ st with nodes := st.nodes.push (.mk id c (term == "T") ps us) }, "ok")
    | _, _, _, _, _ => (st, "bad-op")
  | ["hs", fbk, spec] =>
    let fb : Option (Option (Handler String)) := if fbk == "none" then some none else (mkHandler st.nodes fbk).map some
    match fb, parseSpecific st.nodes spec with
    | some f, some tbl =>
      ({ st with hs := ⟨fun c => (tbl.find? fun kv => kv.1 == c).map (·.2), f⟩ }, "ok")
    | _, _ => (st, "bad-op")
  | ["exec", slot] =>
    match slot.toNat?.bind fun i => st.nodes[i]? with
    | some root =>
      let (stacks, res) := exec st.hs fuel st.stacks root
      ({ st with stacks := stacks }, resStr res ++ " | " ++ ",".intercalate (stacks.map fun f => toString f.length))
    | none => (st, "bad-op")
  | ["denote", slot] =>
    match slot.toNat?.bind fun i => st.nodes[i]? with
    | some root => (st, resStr (denoteF st.hs fuel root))
    | none => (st, "bad-op")
  | ["procedural", slot] =>
    match slot.toNat?.bind fun i => st.nodes[i]? with
    | some root => (st, ",".intercalate ((procedural root).map fun n => toString n.id))
    | none => (st, "bad-op")
  | ["wf", slot] =>
    match slot.toNat?.bind fun i => st.nodes[i]? with
    | some root =>
      let bad := (visited root).filterMap fun n =>
        match wfViolations n with
        | [] => none
        | vs => some (s!"{n.id}:" ++ "+".intercalate vs)
      (st, if bad.isEmpty then "ok" else ",".intercalate bad)
    | none => (st, "bad-op")
  | ["reset"] => ({ st with nodes := #[], hs := ⟨fun _ => none, none⟩, stacks := [], em := [] }, "ok")
  | ["h.on", action, id, beh] =>
    let cb : Option (CB String) :=
      if beh == "chain" then some (.chained fun n ev nxt => nxt.bind fun r => .ret (sig n ev ++ "^" ++ r))
      else if beh == "chain0" then some (.chained fun n ev _ => .ret (sig n ev ++ "^"))
      else if beh == "chain2" then some (.chained fun n ev nxt => nxt.bind fun r1 => nxt.bind fun r2 => .ret (sig n ev ++ "^" ++ r1 ++ "^" ++ r2))
      else (mkHandler st.nodes beh).map .plain
    match Str.unhex action, id.toNat?, cb with
    | some a, some i, some h =>
      let em := st.em.on a i h
      ({ st with em := em, hs := em.table }, "ok")
    | _, _, _ => (st, "bad-op")
  | ["h.off", action, id] =>
    match Str.unhex action, id.toNat? with
    | some a, some i =>
      match st.em.off a i with
      | .ok em => ({ st with em := em, hs := em.table }, "ok")
      | .error e => (st, e.toString)
    | _, _ => (st, "bad-op")
  | ["h.clear"] => ({ st with em := [], hs := Emitter.table ([] : Emitter String) }, "ok")
  | ["pk.reset"] => ({ st with pk := ⟨[], 0, []⟩, pkCache := [] }, "ok")
  | ["pk.cls", id, name, path, mro] =>
    match id.toNat?, Str.unhex name, Str.unhex path, (mro.splitOn ",").mapM (·.toNat?) with
    | some i, some n, some p, some m =>
      if i != st.pk.classes.length then (st, "bad-op")
      else ({ st with pk := { st.pk with classes := st.pk.classes ++ [⟨n, p, m⟩] } }, "ok")
    | _, _, _, _ => (st, "bad-op")
  | ["pk.node", id] =>
    match id.toNat? with
    | some i => ({ st with pk := { st.pk with nodeId := i } }, "ok")
    | none => (st, "bad-op")
  | ["pk.meta", path, keys] =>
    match Str.unhex path with
    | some p =>
      let ks := if keys == "-" then [] else (keys.splitOn ",").map s2l
      ({ st with pk := { st.pk with metas := st.pk.metas ++ [(p, ks)] } }, "ok")
    | none => (st, "bad-op")
  | ["pk.q", id] =>
    match id.toNat? with
    | some i =>
      if i < st.pk.classes.length then
        let (cache, v) := PropKeys.query st.pk st.pkCache i
        ({ st with pkCache := cache }, if v.isEmpty then "-" else ",".intercalate (v.map l2s))
      else (st, "bad-op")
    | none => (st, "bad-op")
  | ["pk.pure", id] =>
    match id.toNat? with
    | some i =>
      if i < st.pk.classes.length then
        let v := st.pk.pure i
        (st, if v.isEmpty then "-" else ",".intercalate (v.map l2s))
      else (st, "bad-op")
    | none => (st, "bad-op")
  | ["gs.name", id] =>
    match id.toNat? with
    | some i =>
      match Generated.NodeClasses.table.classes[i]? with
      | some c => (st, l2s c.name)
      | none => (st, "bad-op")
    | none => (st, "bad-op")
  | ["gs.row", id] =>
    match id.toNat? with
    | some i =>
      match Generated.GetterShapes.shapes[i]? with
      | some row => (st, if row.isEmpty then "-" else ",".intercalate (row.map fun e => l2s e.1 ++ ":" ++ (if e.2.1 then "L" else "O")))
      | none => (st, "bad-op")
    | none => (st, "bad-op")
  | ["gs.shape", id, key] =>
    match id.toNat?, Str.unhex key with
    | some i, some k =>
      match (Generated.GetterShapes.shapes[i]?).bind (fun row => row.find? (fun e => e.1 == k)) with
      | some e => (st, if e.2.2 then "L" else "O")
      | none => (st, "bad-op")
    | _, _ => (st, "bad-op")
  | _ => (st, "bad-op")

def run : IO Unit := runFamily step ({} : DSt)

end Tranp.Driver.Proc
