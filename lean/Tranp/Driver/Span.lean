/-
  Driver family `span` (property C16): ops over one current lark entry and one current file.

    tree <sexp>                          (sexp as in family `entry`)                      → ok <entries>
    restore                              replace the current entry by what EntryStored.save → load restores (C16.restore)  → ok | <error>
    file <exists 0|1> <pathhex> <contenthex>                                              → ok <lines>
    smat <pathhex>                       Nodes.source_map(full_path)                      → ok l,c,el,ec | <error>
    quoteat <pathhex>                    quotation ErrorRender prints for the node        → ok <hex of "\n".join(lines)> | ok [] | <error>
    renderat <pathhex> <tracehex,tracehex,…> <namehex> <messagehex>    the whole ErrorRender.render() text              → ok <hex> | <error>
    quote <l,c,el,ec>                    the same for an explicit source map (N = None)
    quoteraw <l,c,el,ec>                 Quotation(filepath, span − 1).build() directly (no exists/no-position guard)
    hull <span;span;…>                   span = bl,bc,el,ec ; hull of a token run          → ok bl,bc,el,ec | none
    chain <span;span;…>                  ordered and non-overlapping?                      → true | false
    toks <s,e;s,e;…>                     lexer tokens by character offsets (into the current file content)         → ok <n> <offchain true|false>
    tokpos <i>                           (line,col)..(line,col) of token i by own line/column arithmetic           → ok bl,bc,el,ec | none
    ispan <lo> <hi>                      span of a tree that consumed tokens [lo, hi)                                → ok bl,bc,el,ec | none
    tokswf                               every current token non-empty and inside the current file content (tokensInText) → true | false
    iregion <lo> <hi>                    offsets of the characters whose (line, col) lies in the span of a tree over tokens [lo, hi)
                                                                                          → ok <first> <count> <consecutive true|false> | none
    itoks <lo> <hi>                      indices of the current tokens whose spans lie inside that span             → ok <first> <count> <consecutive true|false> | none
    iwf <itree>                          itree tokens: ( lo hi child … )  — the interface hypothesis                → true | false
    collect <steps> <span;span;…>        ErrorCollector._quotation_lines on the current file content (0-based token spans)
                                                                                          → ok <hex of "\n".join(lines)> | <error>
-/
import Tranp.Driver.Common
import Tranp.Driver.Entry
import Tranp.Model.Quotation
import Tranp.Model.JsonCodec
import Tranp.Model.Hull

namespace Tranp.Driver.Span
open Tranp Tranp.Lark Tranp.Quote Tranp.Driver

structure St where
  t : LarkEntry := .empty
  v : View := view .empty
  paths : List (Str × View) := []
  fileExists : Bool := false
  filepath : Str := []
  content : Str := []
  toks : List Hull.OTok := []
  spans : List Hull.TSpan := []
  tab : List Hull.P := []

instance : Inhabited St := ⟨{}⟩

def parseInts (s : String) : Option (List Int) := (s.splitOn ",").mapM String.toInt?

def parseSpans (s : String) : Option (List Quote.Span) :=
  if s == "-" then some [] else
  (s.splitOn ";").mapM fun item =>
    match parseInts item with
    | some [a, b, c, d] => some ⟨a, b, c, d⟩
    | _ => none

def toT (s : Quote.Span) : Hull.TSpan := ⟨⟨s.bl, s.bc⟩, ⟨s.el, s.ec⟩⟩

partial def parseITree : List String → Option (Hull.ITree × List String)
  | "(" :: lo :: hi :: rest =>
    let rec kids (acc : List Hull.ITree) (ts : List String) : Option (List Hull.ITree × List String) :=
      match ts with
      | ")" :: rest' => some (acc.reverse, rest')
      | [] => none
      | ts' => match parseITree ts' with
        | some (e, rest') => kids (e :: acc) rest'
        | none => none
    match lo.toNat?, hi.toNat?, kids [] rest with
    | some l, some h, some (cs, rest') => some (.node l h cs, rest')
    | _, _, _ => none
  | _ => none

def showT (s : Hull.TSpan) : String := s!"{s.b.line},{s.b.col},{s.e.line},{s.e.col}"

def showLines : Except Err (List Str) → String
  | .ok [] => "ok []"
  | .ok ls => "ok " ++ Str.hex (Str.join ['\n'] ls)
  | .error e => e.toString

def step (st : St) : List String → St × String
  | ["tree", sx] =>
    match Entry.parseSexp (sx.splitOn " ") with
    | some (e, []) =>
      let v := view e
      ({ st with t := e, v := v, paths := entryCache v }, s!"ok {Entry.sizeOfEntry e}")
    | _ => (st, "bad-op")
  | ["restore"] =>
    match storeLoadText st.t with
    | .ok t' =>
      let v := view t'
      ({ st with t := t', v := v, paths := entryCache v }, "ok")
    | .error e => (st, e.toString)
  | ["file", ex, p, c] =>
    match Str.unhex p, Str.unhex c with
    | some p', some c' => ({ st with fileExists := ex == "1", filepath := p', content := c' }, s!"ok {(readlines c').length}")
    | _, _ => (st, "bad-op")
  | ["smat", p] =>
    match Str.unhex p with
    | some p' => (st, match nodeSourceMapIn st.paths p' with
      | .ok sm => "ok " ++ Entry.showSM (.ok sm)
      | .error e => e.toString)
    | none => (st, "bad-op")
  | ["quoteat", p] =>
    match Str.unhex p with
    | some p' => (st, showLines (nodeQuotationIn st.paths p' st.fileExists st.filepath st.content))
    | none => (st, "bad-op")
  | ["renderat", p, tr, nm, msg] =>
    match Str.unhex p, (tr.splitOn ",").mapM Str.unhex, Str.unhex nm, Str.unhex msg with
    | some p', some traces, some nm', some msg' =>
      (st, match nodeRenderIn st.paths p' st.fileExists st.filepath st.content traces nm' msg' with
        | .ok t => "ok " ++ Str.hex t
        | .error e => e.toString)
    | _, _, _, _ => (st, "bad-op")
  | ["quote", sm] =>
    match (sm.splitOn ",").mapM Entry.parsePos with
    | some [a, b, c, d] => (st, showLines (buildQuotation st.fileExists st.filepath st.content (.ok ⟨a, b, c, d⟩)))
    | _ => (st, "bad-op")
  | ["quoteraw", sm] =>
    match (sm.splitOn ",").mapM Entry.parsePos with
    | some [a, b, c, d] => (st, showLines ((shift ⟨a, b, c, d⟩).bind (quotationBuild st.filepath st.content)))
    | _ => (st, "bad-op")
  | ["hull", spans] =>
    match parseSpans spans with
    | some ss => (st, match Hull.hullOf (ss.map toT) with
      | some h => s!"ok {h.b.line},{h.b.col},{h.e.line},{h.e.col}"
      | none => "none")
    | none => (st, "bad-op")
  | ["chain", spans] =>
    match parseSpans spans with
    | some ss => (st, if decide (Hull.Chain (ss.map toT)) then "true" else "false")
    | none => (st, "bad-op")
  | ["toks", spec] =>
    let parsed : Option (List Hull.OTok) :=
      if spec == "-" then some [] else
      (spec.splitOn ";").mapM fun item =>
        match (item.splitOn ",").mapM String.toNat? with
        | some [a, b] => some ⟨a, b⟩
        | _ => none
    match parsed with
    | some ts =>
      let tab := (Hull.posScan ⟨1, 1⟩ st.content).toArray
      let posAt (o : Nat) : Hull.P := (tab[o]?).getD (Hull.posOf st.content o)   -- = posOf (Lemmas: posScan_get)
      ({ st with toks := ts, tab := tab.toList, spans := ts.map fun t => ⟨posAt t.s, posAt t.e⟩ },
        s!"ok {ts.length} {if decide (Hull.OffChain ts) then "true" else "false"}")
    | none => (st, "bad-op")
  | ["tokpos", i] =>
    match i.toNat? with
    | some k => (st, match st.spans[k]? with
      | some sp => "ok " ++ showT sp
      | none => "none")
    | none => (st, "bad-op")
  | ["ispan", lo, hi] =>
    match lo.toNat?, hi.toNat? with
    | some l, some h => (st, match Hull.spanOf st.spans l h with
      | some sp => "ok " ++ showT sp
      | none => "none")
    | _, _ => (st, "bad-op")
  | ["tokswf"] => (st, if Hull.tokensInText st.content st.toks then "true" else "false")
  | ["iregion", lo, hi] =>
    match lo.toNat?, hi.toNat? with
    | some l, some h => (st, match Hull.spanOf st.spans l h with
      | some sp => let (f, n, c) := Hull.regionOfTable st.tab sp; s!"ok {f} {n} {if c then "true" else "false"}"
      | none => "none")
    | _, _ => (st, "bad-op")
  | ["itoks", lo, hi] =>
    match lo.toNat?, hi.toNat? with
    | some l, some h => (st, match Hull.spanOf st.spans l h with
      | some sp => let (f, n, c) := Hull.tokensInSpan st.spans sp; s!"ok {f} {n} {if c then "true" else "false"}"
      | none => "none")
    | _, _ => (st, "bad-op")
  | ["iwf", spec] =>
    match parseITree (spec.splitOn " ") with
    | some (t, []) => (st, if t.wf then "true" else "false")
    | _ => (st, "bad-op")
  | ["collect", steps, spans] =>
    match steps.toInt?, parseSpans spans with
    | some n, some ss => (st, showLines (collectorLines st.content ss n))
    | _, _ => (st, "bad-op")
  | _ => (st, "bad-op")

def run : IO Unit := runFamily step ({} : St)

end Tranp.Driver.Span
