/-
  Driver family `span` (property C16): ops over one current lark entry and one current file.

    tree <sexp>                          (sexp as in family `entry`)                      → ok <entries>
    file <exists 0|1> <pathhex> <contenthex>                                              → ok <lines>
    smat <pathhex>                       Nodes.source_map(full_path)                      → ok l,c,el,ec | <error>
    quoteat <pathhex>                    quotation ErrorRender prints for the node        → ok <hex of "\n".join(lines)> | ok [] | <error>
    quote <l,c,el,ec>                    the same for an explicit source map (N = None)
    quoteraw <l,c,el,ec>                 Quotation(filepath, span − 1).build() directly (no exists/no-position guard)
    hull <span;span;…>                   span = bl,bc,el,ec ; hull of a token run          → ok bl,bc,el,ec | none
    chain <span;span;…>                  ordered and non-overlapping?                      → true | false
    collect <steps> <span;span;…>        ErrorCollector._quotation_lines on the current file content (0-based token spans)
                                                                                          → ok <hex of "\n".join(lines)> | <error>
-/
import Tranp.Driver.Common
import Tranp.Driver.Entry
import Tranp.Model.Quotation
import Tranp.Model.Hull

namespace Tranp.Driver.Span
open Tranp Tranp.Lark Tranp.Quote Tranp.Driver

structure St where
  v : View := view .empty
  paths : List (Str × View) := []
  fileExists : Bool := false
  filepath : Str := []
  content : Str := []

instance : Inhabited St := ⟨{}⟩

def parseInts (s : String) : Option (List Int) := (s.splitOn ",").mapM String.toInt?

def parseSpans (s : String) : Option (List Quote.Span) :=
  if s == "-" then some [] else
  (s.splitOn ";").mapM fun item =>
    match parseInts item with
    | some [a, b, c, d] => some ⟨a, b, c, d⟩
    | _ => none

def toT (s : Quote.Span) : Hull.TSpan := ⟨⟨s.bl, s.bc⟩, ⟨s.el, s.ec⟩⟩

def showLines : Except Err (List Str) → String
  | .ok [] => "ok []"
  | .ok ls => "ok " ++ Str.hex (Str.join ['\n'] ls)
  | .error e => e.toString

def step (st : St) : List String → St × String
  | ["tree", sx] =>
    match Entry.parseSexp (sx.splitOn " ") with
    | some (e, []) =>
      let v := view e
      ({ st with v := v, paths := entryCache v }, s!"ok {Entry.sizeOfEntry e}")
    | _ => (st, "bad-op")
  | ["file", ex, p, c] =>
    match Str.unhex p, Str.unhex c with
    | some p', some c' => ({ st with fileExists := ex == "1", filepath := p', content := c' }, s!"ok {(readlines c').length}")
    | _, _ => (st, "bad-op")
  | ["smat", p] =>
    match Str.unhex p with
    | some p' => (st, match nodeSourceMapIn st.paths p' with
      | .ok sm => "ok " ++ Entry.showSM (.ok sm)
      | .error e => e.toString)
    | none => (st, "bad-op")
  | ["quoteat", p] =>
    match Str.unhex p with
    | some p' => (st, showLines (nodeQuotationIn st.paths p' st.fileExists st.filepath st.content))
    | none => (st, "bad-op")
  | ["quote", sm] =>
    match (sm.splitOn ",").mapM Entry.parsePos with
    | some [a, b, c, d] => (st, showLines (buildQuotation st.fileExists st.filepath st.content (.ok ⟨a, b, c, d⟩)))
    | _ => (st, "bad-op")
  | ["quoteraw", sm] =>
    match (sm.splitOn ",").mapM Entry.parsePos with
    | some [a, b, c, d] => (st, showLines ((shift ⟨a, b, c, d⟩).bind (quotationBuild st.filepath st.content)))
    | _ => (st, "bad-op")
  | ["hull", spans] =>
    match parseSpans spans with
    | some ss => (st, match Hull.hullOf (ss.map toT) with
      | some h => s!"ok {h.b.line},{h.b.col},{h.e.line},{h.e.col}"
      | none => "none")
    | none => (st, "bad-op")
  | ["chain", spans] =>
    match parseSpans spans with
    | some ss => (st, if decide (Hull.Chain (ss.map toT)) then "true" else "false")
    | none => (st, "bad-op")
  | ["collect", steps, spans] =>
    match steps.toInt?, parseSpans spans with
    | some n, some ss => (st, showLines (collectorLines st.content ss n))
    | _, _ => (st, "bad-op")
  | _ => (st, "bad-op")

def run : IO Unit := runFamily step ({} : St)

end Tranp.Driver.Span
