/-
  Driver family `errors` (property C07): stateless ops over the exception-flow model (Tranp/Model/Errors.lean).

  class spec (space separated, prefix form):   E <ErrName> | B <Builtin> | U <namehex> <ctor1 0|1> <k> <class spec>*k
  exc spec:                                     <none|node|other> <class spec>
  outcome:                                      ok | raise <display> <E|-> <arg0>        (E: member of the Errors.Error hierarchy)

    isa   <class spec> <E x | B y>                         → true | false
    mro   <E x | B y>                                      → name,name,…
    proc  <ok | exc spec> <ev> <ev> …                      → outcome            ev = <own|fallback|missing>|<props>|<ok | exc spec>
                                                                               props = - | item;item;…   item = s | l<n> | r <exc spec>
    parse <disk|mem> <cached 0|1> <ok | exc spec>          → outcome            (mem: the generated `parserMemHandlers`)
    loadsrc <hex>                                          → <hex>              (the text handed to lark)
    modload <registered 0|1> <registered-after-libs 0|1> <libs> <load> <body> <unload>   (each ok | exc spec)   → outcome
    unloadg <graph> <libs> <registry> <module>             → ok <registry> <loader.unload order> | out-of-fuel   (graph a:b,c;b:a  lists a,b  - = empty)
    loadg <graph> <libs> <registry> <module> <fuel>        → ok <registry> <loader.load order> | out-of-fuel
    strace <rootdirhex> <texthex>|<- or pathhex,linehex,funchex> …   → ok <hex>|… | raise <display>
    render <rootdirhex> <namehex> <quotation: ok | ok hex|… | x:<exc spec>> <k> <entry>*k <arg>…   → ok <hex> | raise <display>
    main  <render: ok | exc spec> <load>|<transpile>|<write> …        → done <n> | reported <display> | crashed <display>
    turn  <unload> <load> <transpile> <render>   (each ok | exc spec)   → running | quit | died <display>
    wflush <mkdir> <first _flush> <second _flush>   (each ok | exc spec)   → outcome
    loop  <in> <in> …                                      → <running|quit|died <display>> <consumed>
                                                                               in = exit | interrupt | code|<ok | exc spec>|<ok | exc spec>
    loopreq <rq> <rq> …                                    → <running|quit|died <display>> <consumed>      (the generated quit test)
                                                                               rq = interrupt | raise|<exc spec> | req|<lines>|<ok | exc spec>|<ok | exc spec>      lines = ~ (no line) | hex,hex,…
    tty   <keyhex> …                                       → req <lines> <keys left> | waiting
    keys  <k> <lines>|<result>|<render> *k <keyhex> …      → <status> <tty calls> | no-outcome     (k outcomes by request; a request without an entry: no-outcome)
    msg   <arg> <arg> …                                    → ok <hex> | raise <display>      arg = s:<hex> | o:<hex> | x:<reprhex>:<exc spec>
    quote <arg0> <exists 0|1> <pathhex> <bl> <bc> <el> <ec> <linehex> …   → ok <hex>|<hex>|… | raise <display>   (1-based lark source map)
-/
import Tranp.Driver.Common
import Tranp.Model.Errors
import Tranp.Model.ErrorsRun

namespace Tranp.Driver.Errors
open Tranp Tranp.Errors Tranp.Generated.ErrorsTable Tranp.Driver

def errOf? (s : String) : Option ErrName := ErrName.all.find? (fun n => n.toString == s)
def biOf? (s : String) : Option Builtin := Builtin.all.find? (fun b => b.toString == s)

def atomOf? : List String → Option Atom
  | ["E", n] => (errOf? n).map .err
  | ["B", b] => (biOf? b).map .bi
  | _ => none

/-- parse one class spec from a token list, returning the rest -/
partial def parseCls : List String → Option (Cls × List String)
  | "E" :: n :: rest => (errOf? n).map (fun e => (.atom (.err e), rest))
  | "B" :: b :: rest => (biOf? b).map (fun e => (.atom (.bi e), rest))
  | "U" :: name :: c1 :: k :: rest =>
    match Str.unhex name, k.toNat? with
    | some nm, some kk =>
      let rec bases (n : Nat) (acc : List Cls) (ts : List String) : Option (List Cls × List String) :=
        match n with
        | 0 => some (acc.reverse, ts)
        | n + 1 => match parseCls ts with
          | some (c, ts') => bases n (c :: acc) ts'
          | none => none
      match bases kk [] rest with
      | some (bs, rest') => if c1 == "0" || c1 == "1" then some (.user nm bs (c1 == "1"), rest') else none
      | none => none
    | _, _ => none
  | _ => none

def arg0Of? : String → Option Arg0
  | "none" => some .none
  | "node" => some .node
  | "other" => some .other
  | _ => none

def arg0Str : Arg0 → String
  | .none => "none"
  | .node => "node"
  | .other => "other"

def parseExc (s : String) : Option Exc :=
  match s.splitOn " " with
  | a :: rest =>
    match arg0Of? a, parseCls rest with
    | some a0, some (c, []) => some ⟨c, a0⟩
    | _, _ => none
  | [] => none

/-- `ok` or an exc spec -/
def parseResult (s : String) : Option (Except Exc Unit) :=
  if s == "ok" then some (.ok ()) else (parseExc s).map .error

def showExc (x : Exc) : String :=
  s!"{x.cls.display} {if x.inHierarchy then "E" else "-"} {arg0Str x.arg0}"

def showOutcome : Except Exc Unit → String
  | .ok _ => "ok"
  | .error x => "raise " ++ showExc x

def parseProp (s : String) : Option PropSpec :=
  if s == "s" then some .single
  else if s.startsWith "l" then ((s.drop 1).toString.toNat?).map .list
  else if s.startsWith "r " then (parseExc (s.drop 2).toString).map .raises
  else none

def parseProps (s : String) : Option (List PropSpec) :=
  if s == "-" then some [] else (s.splitOn ";").mapM parseProp

def parseEv (s : String) : Option NodeEv :=
  match s.splitOn "|" with
  | [h, ps, r] =>
    let hk : Option HandlerKind := if h == "own" then some .own else if h == "fallback" then some .fallback else if h == "missing" then some .missing else none
    match hk, parseProps ps, parseResult r with
    | some k, some p, some res => some ⟨k, p, res⟩
    | _, _, _ => none
  | _ => none

def parseInput (s : String) : Option Input :=
  if s == "exit" then some .exit
  else if s == "interrupt" then some .interrupt
  else match s.splitOn "|" with
    | ["code", r, rd] =>
      match parseResult r, parseResult rd with
      | some a, some b => some (.code a b)
      | _, _ => none
    | _ => none

def parseArg (s : String) : Option Arg :=
  if s.startsWith "s:" then (Str.unhex (s.drop 2).toString).map .str
  else if s.startsWith "o:" then (Str.unhex (s.drop 2).toString).map (fun t => .obj (.ok t) t)
  else if s.startsWith "x:" then
    match (s.drop 2).toString.splitOn ":" with
    | [r, e] => match Str.unhex r, parseExc e with
      | some rr, some x => some (.obj (.error x) rr)
      | _, _ => none
    | _ => none
  else none

/-- `~` = no line at all, else comma separated hex (`-` = the empty line) -/
def parseReqLines (s : String) : Option (List Str) :=
  if s == "~" then some [] else (s.splitOn ",").mapM Str.unhex

def showReqLines (ls : List Str) : String :=
  if ls.isEmpty then "~" else ",".intercalate (ls.map Str.hex)

def parseRequest (s : String) : Option Request :=
  if s == "interrupt" then some .interrupt
  else match s.splitOn "|" with
    | ["raise", x] =>
      match parseResult x with
      | some (.error e) => some (.raises e)
      | _ => none
    | ["req", ls, r, rd] =>
      match parseReqLines ls, parseResult r, parseResult rd with
      | some l, some a, some b => some (.lines l a b)
      | _, _, _ => none
    | _ => none

def parseOutcomeEntry (s : String) : Option (List Str × Except Exc Unit × Except Exc Unit) :=
  match s.splitOn "|" with
  | [ls, r, rd] =>
    match parseReqLines ls, parseResult r, parseResult rd with
    | some l, some a, some b => some (l, a, b)
    | _, _, _ => none
  | _ => none

/-- the requests the model's `tty` splits a transcript into, up to the quit command (driver-side check of the outcome table) -/
def requestsOf : Nat → List Str → List (List Str)
  | 0, _ => []
  | f + 1, keys =>
    match tty keys with
    | none => []
    | some (req, rest) => if req == ttyQuitResult then [] else req :: requestsOf f rest

def showStatus : Status → String
  | .running => "running"
  | .quit => "quit"
  | .died x => "died " ++ x.cls.display

/-- `a:b,c;b:a` (plain ASCII module names; `-` = empty) -/
def parseGraph (s : String) : Graph :=
  if s == "-" then [] else
  (s.splitOn ";").filterMap fun item =>
    match item.splitOn ":" with
    | [m, is] => some (s2l m, if is == "" then [] else (is.splitOn ",").map s2l)
    | _ => none

def parseNames (s : String) : List Str := if s == "-" then [] else (s.splitOn ",").map s2l
def showNames (xs : List Str) : String := if xs.isEmpty then "-" else ",".intercalate (xs.map l2s)

def showWalk : Option (List Str × List Str) → String
  | none => "out-of-fuel"
  | some (reg, trace) => s!"ok {showNames reg} {showNames trace}"

def parseFrame (s : String) : Option (Option (Str × Str × Str)) :=
  if s == "-" then some none else
  match s.splitOn "," with
  | [a, b, c] => match Str.unhex a, Str.unhex b, Str.unhex c with
    | some x, some y, some z => some (some (x, y, z))
    | _, _, _ => none
  | _ => none

def parseEntry (s : String) : Option TraceEntry :=
  match s.splitOn "|" with
  | [t, f] => match Str.unhex t, parseFrame f with
    | some tt, some ff => some ⟨tt, ff⟩
    | _, _ => none
  | _ => none

def showLines : Except Exc (List Str) → String
  | .ok out => if out.isEmpty then "ok" else "ok " ++ "|".intercalate (out.map Str.hex)
  | .error x => "raise " ++ x.cls.display

/-- `ok`, `ok hex|hex…` or `x:<exc spec>` -/
def parseLinesResult (s : String) : Option (Except Exc (List Str)) :=
  if s == "ok" then some (.ok [])
  else if s.startsWith "ok " then ((s.drop 3).toString.splitOn "|").mapM Str.unhex |>.map .ok
  else if s.startsWith "x:" then (parseExc (s.drop 2).toString).map .error
  else none

def parseTarget (s : String) : Option Target :=
  match s.splitOn "|" with
  | [a, b, c] => match parseResult a, parseResult b, parseResult c with
    | some x, some y, some z => some ⟨x, y, z⟩
    | _, _, _ => none
  | _ => none

def step (_ : Unit) : List String → Unit × String
  | ["isa", c, t] =>
    match parseCls (c.splitOn " "), atomOf? (t.splitOn " ") with
    | some (cls, []), some a => ((), toString (cls.isA a))
    | _, _ => ((), "bad-op")
  | ["mro", t] =>
    match atomOf? (t.splitOn " ") with
    | some a => ((), ",".intercalate (a.mro.map Atom.toString))
    | none => ((), "bad-op")
  | "proc" :: p :: evs =>
    match parseResult p, evs.mapM parseEv with
    | some pr, some es => ((), showOutcome (execImpl pr es))
    | _, _ => ((), "bad-op")
  | ["parse", branch, cached, r] =>
    match parseResult r with
    | some res =>
      if (branch == "disk" || branch == "mem") && (cached == "0" || cached == "1") then
        ((), showOutcome (loadEntry parserMemHandlers (branch == "disk") (cached == "1") res))
      else ((), "bad-op")
    | none => ((), "bad-op")
  | ["loadsrc", h] =>
    match Str.unhex h with
    | some t => ((), Str.hex (loadSource t))
    | none => ((), "bad-op")
  | ["modload", reg, regAfter, libs, load, body, unload] =>
    match parseResult libs, parseResult load, parseResult body, parseResult unload with
    | some a, some b, some c, some d =>
      if (reg == "0" || reg == "1") && (regAfter == "0" || regAfter == "1") then
        ((), showOutcome (modulesLoad (reg == "1") (regAfter == "1") a b c d))
      else ((), "bad-op")
    | _, _, _, _ => ((), "bad-op")
  | ["unloadg", g, libs, reg, p] =>
    let r := parseNames reg
    ((), showWalk (unloadCurrent (parseGraph g) (parseNames libs) (r.length + 1) r (s2l p)))
  | ["loadg", g, libs, reg, p, fuel] =>
    match fuel.toNat? with
    | some f => ((), showWalk (loadFuel (parseGraph g) (parseNames libs) modulesLoadRechecks f (parseNames reg, []) (s2l p)))
    | none => ((), "bad-op")
  | "strace" :: root :: entries =>
    match Str.unhex root, entries.mapM parseEntry with
    | some r, some es => ((), showLines (buildStacktrace r es))
    | _, _ => ((), "bad-op")
  | "render" :: root :: name :: quot :: n :: rest =>
    match Str.unhex root, Str.unhex name, parseLinesResult quot, n.toNat? with
    | some r, some nm, some q, some k =>
      match (rest.take k).mapM parseEntry, (rest.drop k).mapM parseArg with
      | some es, some as =>
        match renderWith messageStrFallback r es q nm as with
        | .ok t => ((), "ok " ++ Str.hex t)
        | .error x => ((), "raise " ++ x.cls.display)
      | _, _ => ((), "bad-op")
    | _, _, _, _ => ((), "bad-op")
  | "main" :: render :: targets =>
    match parseResult render, targets.mapM parseTarget with
    | some rd, some ts =>
      match mainRun ts (fun _ => rd) with
      | .done n => ((), s!"done {n}")
      | .reported x => ((), "reported " ++ x.cls.display)
      | .crashed x => ((), "crashed " ++ x.cls.display)
    | _, _ => ((), "bad-op")
  | ["turn", u, l, t, r] =>
    match parseResult u, parseResult l, parseResult t, parseResult r with
    | some a, some b, some c, some d => ((), showStatus (Tranp.Errors.step (Input.code (interactiveTurn a b c) d)))
    | _, _, _, _ => ((), "bad-op")
  | ["wflush", m, a, b] =>
    match parseResult m, parseResult a, parseResult b with
    | some x, some y, some z => ((), showOutcome (writerFlush x y z))
    | _, _, _ => ((), "bad-op")
  | "loop" :: ins =>
    match ins.mapM parseInput with
    | some is => let r := run is; ((), s!"{showStatus r.1} {r.2}")
    | none => ((), "bad-op")
  | "loopreq" :: rqs =>
    match rqs.mapM parseRequest with
    | some qs => let r := runRequests interactiveQuitTest qs; ((), s!"{showStatus r.1} {r.2}")
    | none => ((), "bad-op")
  | "tty" :: keys =>
    match keys.mapM Str.unhex with
    | some ks =>
      match tty ks with
      | some (req, rest) => ((), s!"req {showReqLines req} {rest.length}")
      | none => ((), "waiting")
    | none => ((), "bad-op")
  | "keys" :: k :: rest =>
    match k.toNat? with
    | some n =>
      match (rest.take n).mapM parseOutcomeEntry, (rest.drop n).mapM Str.unhex with
      | some table, some ks =>
        -- a request the table does not list is reported, never defaulted
        let oc : List (List Str) → List Str → Except Exc Unit × Except Exc Unit := fun _ req =>
          match table.find? (fun e => e.1 == req) with
          | some e => e.2
          | none => (.ok (), .ok ())
        if (requestsOf (ks.length + 1) ks).all (fun req => table.any (fun e => e.1 == req)) then
          let r := runKeys interactiveQuitTest oc ks
          ((), s!"{showStatus r.1} {r.2}")
        else ((), "no-outcome")
      | _, _ => ((), "bad-op")
    | none => ((), "bad-op")
  | "msg" :: args =>
    match args.mapM parseArg with
    | some as =>
      match buildMessage as with
      | .ok s => ((), "ok " ++ Str.hex s)
      | .error x => ((), "raise " ++ x.cls.display)
    | none => ((), "bad-op")
  | "quote" :: a0 :: ex :: path :: bl :: bc :: el :: ec :: lines =>
    match arg0Of? a0, Str.unhex path, bl.toInt?, bc.toInt?, el.toInt?, ec.toInt?, lines.mapM Str.unhex with
    | some a, some p, some b1, some b2, some e1, some e2, some ls =>
      if ex == "0" || ex == "1" then
        match buildQuotation a (ex == "1") p ls ⟨b1, b2, e1, e2⟩ with
        | .ok out => ((), if out.isEmpty then "ok" else "ok " ++ "|".intercalate (out.map Str.hex))
        | .error x => ((), "raise " ++ x.cls.display)
      else ((), "bad-op")
    | _, _, _, _, _, _, _ => ((), "bad-op")
  | _ => ((), "bad-op")

def run : IO Unit := runFamily step ()

end Tranp.Driver.Errors
