/-
  Driver family `runner` (property C06). One op per line, TAB-separated; strings hex-escaped (`-` = empty).
  Lists of strings: hex items joined by `,`; `[]` = the empty list.
  JSON value spec (one TAB token, items separated by blanks, prefix order):
      N | T | F | I<int> | S<hex> | A<n> v1 … vn | O<n> S<hex k1> v1 … S<hex kn> vn

  pure ops
    find <s> <sub> <start>                 → int               str.find(sub, start)
    rfind <s> <c> <start> <stop>           → int               str.rfind(c, start, stop), one-character c
    slice <s> <a> <b>                      → hex               s[a:b]
    join <a> <b>                           → hex               os.path.join
    normpath <p>                           → hex
    dumps <json>                           → hex               json.dumps(v, separators=(',', ':'))
    loadsm <text>                          → ok <hex of dumps(value)> | ValueError     the model's json.loads (`loadsCodec`)
    header <appver> <module json> <transpiler json> <version json | ->   → hex of to_header_str()
    parse <appver> <content>               → none | <Err> slice=<hex> | ok slice=<hex> json=<hex of to_json()>
    eq <appver> <m1> <t1> <v1> <m2> <t2> <v2>   → True | False      (identity comparison)
    eqother                                → Errors.Never
    path <cwd> <lang> <dirs> <module>      → ok <hex> | <Err>
    overlap <cwd> <lang> <dirs> <modules>  → True | False      (NoOverlap)
    wwrite <path> <content>                → ok <hex file content after World.write> (the Writer alone)
    metafile <path:language items> <module> → ok <hex file whose md5 module_meta_factory records> | ValueError

  runner ops (state: one world); every one answers `<status>|<reads>|<writes>|<listing>`
    init <appver> <tver> <tmodule> <cwd> <lang> <dirs> <none|true|false>
    mod <module> <source token> <imports>
    edit <module> <source token>
    run <0|1>
    rm <module>
    setdirs <dirs>
    setforce <none|true|false>
    put <module> <content>                 (foreign content at the module's output path)
    setver <app|py2cpp> <version>          (Versions.app / Versions.py2cpp as seen by later runs; the model's Op.setVer)
  listing = `hexpath:hexfirstline` of every existing output, sorted by path, joined by `,`.

  The JSON *parser* below belongs to the driver, not to the model (the model takes `json.loads` as a parameter); it is tied to
  CPython's by the `parse` stream. Floats, NaN/Infinity and lone surrogates answer `out-of-model`.
-/
import Tranp.Driver.Common
import Tranp.Model.Runner
import Tranp.Model.RunnerLoads

namespace Tranp.Driver.Runner
open Tranp Tranp.Runner Tranp.Driver

/-! ### JSON text → value (CPython json.decoder semantics on the supported subset) -/

def isWs (c : Char) : Bool := c == ' ' || c == '\t' || c == '\n' || c == '\r'

def skipWs : Str → Str
  | c :: cs => if isWs c then skipWs cs else c :: cs
  | [] => []

def hex4? : Str → Option (Nat × Str)
  | a :: b :: c :: d :: rest =>
    match Str.hexVal a, Str.hexVal b, Str.hexVal c, Str.hexVal d with
    | some x, some y, some z, some w => some (x * 4096 + y * 256 + z * 16 + w, rest)
    | _, _, _, _ => none
  | _ => none

/-- after the opening quote; returns the decoded string and the rest after the closing quote -/
partial def parseString (acc : Str) : Str → Except Err (Str × Str)
  | [] => .error .valueError
  | '"' :: rest => .ok (acc.reverse, rest)
  | '\\' :: rest =>
    match rest with
    | [] => .error .valueError
    | 'u' :: r =>
      match hex4? r with
      | none => .error .valueError
      | some (n, r') =>
        if 55296 ≤ n ∧ n ≤ 56319 then
          match r' with
          | '\\' :: 'u' :: r2 =>
            match hex4? r2 with
            | some (n2, r3) =>
              if 56320 ≤ n2 ∧ n2 ≤ 57343 then
                parseString (Char.ofNat (65536 + (n - 55296) * 1024 + (n2 - 56320)) :: acc) r3
              else .error .unsupported
            | none => .error .unsupported   -- lone high surrogate, then a malformed escape
          | _ => .error .unsupported
        else if 56320 ≤ n ∧ n ≤ 57343 then .error .unsupported
        else parseString (Char.ofNat n :: acc) r'
    | e :: r =>
      let m : Option Char :=
        if e = '"' then some '"' else if e = '\\' then some '\\' else if e = '/' then some '/'
        else if e = 'b' then some (Char.ofNat 8) else if e = 'f' then some (Char.ofNat 12)
        else if e = 'n' then some '\n' else if e = 'r' then some '\r' else if e = 't' then some '\t' else none
      match m with
      | some c => parseString (c :: acc) r
      | none => .error .valueError
  | c :: rest => if c.toNat < 32 then .error .valueError else parseString (c :: acc) rest

def takeDigits : Str → Str × Str
  | c :: cs => if c.isDigit then let (d, r) := takeDigits cs; (c :: d, r) else ([], c :: cs)
  | [] => ([], [])

/-- dict semantics: a repeated key keeps its first position and takes the last value -/
def dictSet (kvs : List (Str × Json)) (k : Str) (v : Json) : List (Str × Json) :=
  if kvs.any (fun kv => kv.1 == k) then kvs.map (fun kv => if kv.1 == k then (k, v) else kv) else kvs ++ [(k, v)]

mutual
  partial def parseValue (s : Str) : Except Err (Json × Str) :=
    match s with
    | '"' :: r => do let (t, r') ← parseString [] r; pure (.str t, r')
    | '{' :: r =>
      match skipWs r with
      | '}' :: r' => .ok (.obj [], r')
      | r' => parseMembers [] r'
    | '[' :: r =>
      match skipWs r with
      | ']' :: r' => .ok (.arr [], r')
      | r' => parseElems [] r'
    | 'n' :: 'u' :: 'l' :: 'l' :: r => .ok (.null, r)
    | 't' :: 'r' :: 'u' :: 'e' :: r => .ok (.bool true, r)
    | 'f' :: 'a' :: 'l' :: 's' :: 'e' :: r => .ok (.bool false, r)
    | 'N' :: 'a' :: 'N' :: _ => .error .unsupported
    | 'I' :: 'n' :: 'f' :: 'i' :: 'n' :: 'i' :: 't' :: 'y' :: _ => .error .unsupported
    | '-' :: 'I' :: 'n' :: 'f' :: 'i' :: 'n' :: 'i' :: 't' :: 'y' :: _ => .error .unsupported
    | _ =>
      let (neg, r) := match s with
        | '-' :: r => (true, r)
        | r => (false, r)
      match r with
      | [] => .error .valueError
      | c :: cs =>
        if !c.isDigit then .error .valueError else
        let (ds, rest) := if c = '0' then (['0'], cs) else takeDigits (c :: cs)
        -- a fraction or an exponent makes it a float
        let isFloat := match rest with
          | '.' :: d :: _ => d.isDigit
          | e :: d :: rest' =>
            (e = 'e' || e = 'E') && (d.isDigit || ((d = '+' || d = '-') && (match rest' with | d' :: _ => d'.isDigit | [] => false)))
          | _ => false
        if isFloat then .error .unsupported else
        match Str.decToNat? ds with
        | some n => .ok (.num (if neg then - (n : Int) else (n : Int)), rest)
        | none => .error .valueError
  /-- positioned at the first character of a member (after `{` or `,` and white space) -/
  partial def parseMembers (acc : List (Str × Json)) (s : Str) : Except Err (Json × Str) :=
    match s with
    | '"' :: r => do
      let (k, r1) ← parseString [] r
      match skipWs r1 with
      | ':' :: r2 => do
        let (v, r3) ← parseValue (skipWs r2)
        let acc' := dictSet acc k v
        match skipWs r3 with
        | ',' :: r4 => parseMembers acc' (skipWs r4)
        | '}' :: r4 => pure (.obj acc', r4)
        | _ => .error .valueError
      | _ => .error .valueError
    | _ => .error .valueError
  partial def parseElems (acc : List Json) (s : Str) : Except Err (Json × Str) := do
    let (v, r) ← parseValue s
    match skipWs r with
    | ',' :: r' => parseElems (v :: acc) (skipWs r')
    | ']' :: r' => pure (.arr (v :: acc).reverse, r')
    | _ => .error .valueError
end

/-- `json.loads(text)` -/
def loads (text : Str) : Except Err Json :=
  match parseValue (skipWs text) with
  | .error e => .error e
  | .ok (v, rest) => if skipWs rest = [] then .ok v else .error .valueError

/-! ### protocol decoding -/

def parseList (s : String) : List Str :=
  if s == "[]" then [] else (s.splitOn ",").map unhexD

def parseForce (s : String) : Option (Option Bool) :=
  if s == "none" then some none else if s == "true" then some (some true) else if s == "false" then some (some false) else none

partial def parseSpec : List String → Option (Json × List String)
  | [] => none
  | tok :: rest =>
    match tok.toList with
    | ['N'] => some (.null, rest)
    | ['T'] => some (.bool true, rest)
    | ['F'] => some (.bool false, rest)
    | 'I' :: ds => (String.ofList ds).toInt?.map (fun i => (.num i, rest))
    | 'S' :: hs => (Str.unhex (String.ofList hs)).map (fun t => (.str t, rest))
    | 'A' :: ds =>
      match (String.ofList ds).toNat? with
      | none => none
      | some n =>
        let rec items (k : Nat) (acc : List Json) (ts : List String) : Option (List Json × List String) :=
          if k = 0 then some (acc.reverse, ts) else
          match parseSpec ts with
          | some (v, ts') => items (k - 1) (v :: acc) ts'
          | none => none
        (items n [] rest).map (fun (xs, ts) => (.arr xs, ts))
    | 'O' :: ds =>
      match (String.ofList ds).toNat? with
      | none => none
      | some n =>
        let rec members (k : Nat) (acc : List (Str × Json)) (ts : List String) : Option (List (Str × Json) × List String) :=
          if k = 0 then some (acc.reverse, ts) else
          match parseSpec ts with
          | some (.str key, ts') =>
            match parseSpec ts' with
            | some (v, ts'') => members (k - 1) ((key, v) :: acc) ts''
            | none => none
          | _ => none
        (members n [] rest).map (fun (kvs, ts) => (.obj kvs, ts))
    | _ => none

def spec? (s : String) : Option Json :=
  match parseSpec ((s.splitOn " ").filter (· ≠ "")) with
  | some (v, []) => some v
  | _ => none

def hexList (xs : List Str) : String := if xs.isEmpty then "[]" else ",".intercalate (xs.map Str.hex)

/-! ### the world of the runner ops -/

structure St where
  w : World Str := ⟨[], fun _ => [], fun _ => none, ⟨[], [], none, []⟩, 0, ⟨[], []⟩, fun _ => none⟩
  imports : List (Str × List Str) := []
  known : List Str := []      -- every path ever written (for the listing)
  tModule : Str := []

partial def closure (imports : List (Str × List Str)) (todo : List Str) (seen : List Str) : List Str :=
  match todo with
  | [] => seen.reverse
  | m :: rest =>
    if seen.contains m then closure imports rest seen
    else closure imports (((imports.lookup m).getD []) ++ rest) (m :: seen)

/-- toy transpiler body: the sources of the module's import closure (what the real output may depend on) -/
def toyOut (imports : List (Str × List Str)) (src : Str → Str) (m : Str) : Except Err Text :=
  .ok ("#pragma once\n".toList ++ (closure imports [m] []).flatMap (fun d => d ++ ('=' :: src d) ++ ['\n']))

def St.env (st : St) : Env Str :=
  { hash := id, md5 := id, loads := loads, out := toyOut st.imports, tModule := st.tModule }

def firstLine (t : Text) : Str := t.takeWhile (· ≠ '\n')

def strLt (a b : Str) : Bool := String.ofList a < String.ofList b

def St.listing (st : St) : String :=
  let ps := (st.known.eraseDups.filter (fun p => (st.w.files p).isSome)).toArray.qsort strLt |>.toList
  ",".intercalate (ps.map fun p => match st.w.files p with
    | some f => s!"{Str.hex p}:{Str.hex (firstLine f.content)}"
    | none => "")

/-- the output files `can_transpile` loads during target selection, in order, up to the first exception -/
def readsOf (E : Env Str) (w : World Str) : List Str → List Str
  | [] => []
  | m :: ms =>
    match outputFilepath w.cfg m with
    | .error _ => []
    | .ok p => match w.files p with
      | none => readsOf E w ms
      | some f => match tryFromContent E.loads w.ver.app f.content with
        | .error _ => [p]
        | .ok _ => p :: readsOf E w ms

def obs (st : St) (status : String) (reads writes : List Str) : String :=
  s!"{status}|{hexList reads}|{hexList writes}|{st.listing}"

def errS (e : Option Err) : String := match e with
  | none => "ok"
  | some e => e.toString

def step (st : St) : List String → St × String
  -- pure ops
  | ["find", s, sub, start] =>
    match start.toInt? with
    | some i => (st, toString (pyFind (unhexD s) (unhexD sub) i))
    | none => (st, "bad-op")
  | ["rfind", s, c, start, stop] =>
    match unhexD c, start.toInt?, stop.toInt? with
    | [ch], some a, some b => (st, toString (pyRfindChar (unhexD s) ch a b))
    | _, _, _ => (st, "bad-op")
  | ["slice", s, a, b] =>
    match a.toInt?, b.toInt? with
    | some a, some b => (st, Str.hex (pySlice (unhexD s) a b))
    | _, _ => (st, "bad-op")
  | ["join", a, b] => (st, Str.hex (osJoin (unhexD a) (unhexD b)))
  | ["normpath", p] => (st, Str.hex (normpath (unhexD p)))
  | ["dumps", j] =>
    match spec? j with
    | some v => (st, Str.hex (dumps v))
    | none => (st, "bad-op")
  | ["loadsm", text] =>
    -- the MODEL's json.loads (Model/RunnerLoads.lean: `loadsCodec`, the decoder `C06.header_rt_codec` is proved for)
    match loadsCodec (unhexD text) with
    | .ok v => (st, s!"ok {Str.hex (dumps v)}")
    | .error e => (st, e.toString)
  | ["header", av, m, t, v] =>
    match spec? m, spec? t, (if v == "-" then some none else (spec? v).map some) with
    | some m, some t, some v => (st, Str.hex (Header.make (unhexD av) m t v).toHeaderStr)
    | _, _, _ => (st, "bad-op")
  | ["parse", av, content] =>
    let c := unhexD content
    match headerSlice c with
    | none => (st, "none")
    | some text =>
      match fromJson loads (unhexD av) text with
      | .ok h => (st, s!"ok slice={Str.hex text} json={Str.hex h.toJson}")
      | .error e => (st, s!"{e.toString} slice={Str.hex text}")
  | ["eq", av, m1, t1, v1, m2, t2, v2] =>
    let ver (v : String) : Option (Option Json) := if v == "-" then some none else (spec? v).map some
    match spec? m1, spec? t1, ver v1, spec? m2, spec? t2, ver v2 with
    | some m1, some t1, some v1, some m2, some t2, some v2 =>
      match (Header.make (unhexD av) m1 t1 v1).pyEq id (.header (Header.make (unhexD av) m2 t2 v2)) with
      | .ok b => (st, if b then "True" else "False")
      | .error e => (st, e.toString)
    | _, _, _, _, _, _ => (st, "bad-op")
  | ["eqother"] =>
    match (Header.make [] .null .null none).pyEq id .notHeader with
    | .ok b => (st, toString b)
    | .error e => (st, e.toString)
  | ["path", cwd, lang, dirs, m] =>
    match outputFilepath ⟨parseList dirs, unhexD lang, none, unhexD cwd⟩ (unhexD m) with
    | .ok p => (st, s!"ok {Str.hex p}")
    | .error e => (st, e.toString)
  | ["overlap", cwd, lang, dirs, ms] =>
    let cfg : Cfg := ⟨parseList dirs, unhexD lang, none, unhexD cwd⟩
    let guarded := (parseList ms).any fun m => match outputFilepath cfg m with
      | .error .unsupported => true
      | _ => false
    (st, if guarded then "out-of-model" else if noOverlapFrom cfg (parseList ms) then "True" else "False")
  -- runner ops
  | ["init", av, tv, tm, cwd, lang, dirs, force] =>
    match parseForce force with
    | some f =>
      let st' : St := { tModule := unhexD tm,
                        w := ⟨[], fun _ => [], fun _ => none, ⟨parseList dirs, unhexD lang, f, unhexD cwd⟩, 0, ⟨unhexD av, unhexD tv⟩, fun _ => none⟩ }
      (st', obs st' "ok" [] [])
    | none => (st, "bad-op")
  | ["mod", m, tok, imps] =>
    let m := unhexD m
    let tok := unhexD tok
    let st' := { st with w := { st.w with mods := st.w.mods ++ [m], src := fun q => if q = m then tok else st.w.src q },
                         imports := st.imports ++ [(m, parseList imps)] }
    (st', obs st' "ok" [] [])
  | ["edit", m, tok] =>
    let st' := { st with w := Tranp.Runner.step st.env st.w (.edit (unhexD m) (unhexD tok)) }
    (st', obs st' "ok" [] [])
  | ["run", f] =>
    if f != "0" && f != "1" then (st, "bad-op") else
    let argForce := f == "1"
    let E := st.env
    let reads := if effForce st.w.cfg argForce then [] else readsOf E st.w st.w.mods
    let r := runStep E st.w argForce
    let st' := { st with w := r.world, known := st.known ++ r.written }
    (st', obs st' (errS r.status) reads r.written)
  | ["rm", m] =>
    let st' := { st with w := Tranp.Runner.step st.env st.w (.rmOutput (unhexD m)) }
    (st', obs st' "ok" [] [])
  | ["put", m, content] =>
    -- a foreign write at the module's output path (not one of the model's `Op`s: exercises `runStep` on arbitrary file contents)
    match outputFilepath st.w.cfg (unhexD m) with
    | .error _ => (st, obs st "ok" [] [])
    | .ok p =>
      let st' := { st with w := st.w.write p (unhexD content), known := st.known ++ [p] }
      (st', obs st' "ok" [] [])
  | ["wwrite", p, content] =>
    -- `Writer(p).put(…).flush()` alone: the model's write op on the file map; answers the file content afterwards
    let st' := { st with w := st.w.write (unhexD p) (unhexD content), known := st.known ++ [unhexD p] }
    (st', match st'.w.files (unhexD p) with
      | some f => s!"ok {Str.hex f.content}"
      | none => "absent")
  | ["setdirs", dirs] =>
    let st' := { st with w := Tranp.Runner.step st.env st.w (.setDirs (parseList dirs)) }
    (st', obs st' "ok" [] [])
  | ["setver", which, v] =>
    -- the application / transpiler version compiled into the program changes (Versions.app / Versions.py2cpp) for later runs
    if which == "app" then
      let st' := { st with w := Tranp.Runner.step st.env st.w (.setVer { st.w.ver with app := unhexD v }) }
      (st', obs st' "ok" [] [])
    else if which == "py2cpp" then
      let st' := { st with w := Tranp.Runner.step st.env st.w (.setVer { st.w.ver with py2cpp := unhexD v }) }
      (st', obs st' "ok" [] [])
    else (st, "bad-op")
  | ["metafile", mps, m] =>
    -- which file module_meta_factory hashes: <mps> = list of `path:language` items
    let items := (parseList mps).map fun it => match Str.splitOn ':' it with
      | [a, b] => (⟨a, b⟩ : ModPath)
      | _ => ⟨it, []⟩
    match metaFile items (unhexD m) with
    | .ok f => (st, s!"ok {Str.hex f}")
    | .error e => (st, e.toString)
  | ["setforce", force] =>
    match parseForce force with
    | some f =>
      let st' := { st with w := Tranp.Runner.step st.env st.w (.setForce f) }
      (st', obs st' "ok" [] [])
    | none => (st, "bad-op")
  | _ => (st, "bad-op")

def run : IO Unit := runFamily step ({} : St)

end Tranp.Driver.Runner
