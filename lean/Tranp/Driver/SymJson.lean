/-
  Driver family `symjson` (property C14). Strings are hex-escaped, forests are s-expressions
  `( keyhex child … ) …` with blanks between tokens (`-` = empty forest), index paths are dotted decimals,
  flat dicts are `path=keyhex,…` (`-` = empty), entries of the lookup / skeleton tables are separated by `;`.

    expand <forest>                                   → flat
    flatten <forest>                                  → flat (the pre-order specification)
    rebuild <key=typeskey=forest;…> <flat>            → ok <observable forest> | <own forest>   / <error>
    serialize <types> <node> <decl> <via> <nodeIsClassDef 0|1> <typesFullyname> <forest>
                                                      → S <types> <flat> | R <node> <decl> <origin> <via> <flat>
    order <module|None> <key=typeskey=forest;…>       → keyhex,…
    t.reset                                           → ok
    t.node <dsn> <known><classdef><decl> <fullyname>  → ok        (what the entrypoints know)
    t.set <key> <types> <node> <decl> <via> <forest>  → ok
    t.export <module|None>                            → ok <rows> / <error>      rows: key>S>types>flat | key>R>node>decl>origin>via>flat joined by `|`
    t.import <rows>                                   → ok / <error>  (the table keeps the rows imported before the error, like the real loop)
    expandi <iforest>                                 → flat            iforest: ( id:keyhex child … ) …, the same id = the same object
    temp <inode> <n>                                  → <inode>         to_temporary with new object ids n, n+1, …
    write <inode> <n> <path> <inode value>            → E <inode> T <inode> / IndexError   seqs.update(temp.attrs, path, value, 'attrs') seen on the entry and the copy
    t.text <rows>                                     → hex             json.dumps(rows, separators=(',', ':'))  (persistent.py:160-162)
    t.read <text hex>                                 → ok <rows> / JSONDecodeError / bad-rows   json.loads, read the way deserialize reads a row
    t.inv <module> <keyhex=rank,…|->                  → Loaded=<bool> SymOK=<bool> ViaOK=<bool>   the hypotheses of C14.order / C14.rt / C14.rt_exact, evaluated by their Lean definitions
    dsn.join <delim char hex> <part;part;…>           → hex             DSN.join
    dsn.full <dsn> <elem;elem;…>                      → hex             ModuleDSN.full_joined
    dsn.parsed <dsn>                                  → hex hex         ModuleDSN.parsed
    t.unload <module> | t.complete <module> (on_complete) | t.completed <module> | t.has <module> | t.keys | t.get <key>
-/
import Tranp.Driver.Common
import Tranp.Model.SymbolJson
import Tranp.Lemmas.SymbolJson
import Tranp.Lemmas.SymbolJsonExact
import Tranp.Model.SymbolJsonText

namespace Tranp.Driver.SymJson
open Tranp Tranp.SymbolJson Tranp.Driver

partial def parseNodes : List String → List Attr → Option (List Attr × List String)
  | [], acc => some (acc.reverse, [])
  | ")" :: rest, acc => some (acc.reverse, ")" :: rest)
  | "(" :: k :: rest, acc =>
    match Str.unhex k with
    | none => none
    | some key =>
      match parseNodes rest [] with
      | some (cs, ")" :: rest') => parseNodes rest' (.mk key cs :: acc)
      | _ => none
  | _, _ => none

def parseForest (s : String) : Option Forest :=
  if s == "-" then some [] else
  match parseNodes ((s.splitOn " ").filter (· ≠ "")) [] with
  | some (f, []) => some f
  | _ => none

mutual
partial def showAttr : Attr → String
  | .mk k cs => if cs.isEmpty then s!"( {Str.hex k} )" else s!"( {Str.hex k} {showForest' cs} )"
partial def showForest' (f : List Attr) : String := " ".intercalate (f.map showAttr)
end

def showForest (f : Forest) : String := if f.isEmpty then "-" else showForest' f

mutual
partial def ownAttr : RNode → Attr
  | .mk k own _ => .mk k (own.map ownAttr)
end


partial def parseINodes : List String → List IAttr → Option (List IAttr × List String)
  | [], acc => some (acc.reverse, [])
  | ")" :: rest, acc => some (acc.reverse, ")" :: rest)
  | "(" :: ik :: rest, acc =>
    match ik.splitOn ":" with
    | [i, k] =>
      match i.toNat?, Str.unhex k with
      | some i, some key =>
        match parseINodes rest [] with
        | some (cs, ")" :: rest') => parseINodes rest' (.mk i key cs :: acc)
        | _ => none
      | _, _ => none
    | _ => none
  | _, _ => none

def parseIForest (s : String) : Option IForest :=
  if s == "-" then some [] else
  match parseINodes ((s.splitOn " ").filter (· ≠ "")) [] with
  | some (f, []) => some f
  | _ => none

mutual
partial def showIAttr : IAttr → String
  | .mk i k cs => if cs.isEmpty then s!"( {i}:{Str.hex k} )" else s!"( {i}:{Str.hex k} {showIForest' cs} )"
partial def showIForest' (f : List IAttr) : String := " ".intercalate (f.map showIAttr)
end

def iattrs : IAttr → List IAttr
  | .mk _ _ cs => cs

def iid : IAttr → Nat
  | .mk i _ _ => i

/-- canonical decimal path only (what `str(index)` produces): no empty parts, no leading zeros -/
def parsePath (s : String) : Option Path :=
  match decPath (s2l s) with
  | some p => if l2s (encPath p) == s then some p else none
  | none => none

def parseFlat (s : String) : Option Flat :=
  if s == "-" then some [] else
  (s.splitOn ",").foldlM (fun (acc : Flat) item =>
    match item.splitOn "=" with
    | [p, k] => do
      let p ← parsePath p
      let k ← Str.unhex k
      -- a Python dict: a repeated key overwrites
      pure (dictInsert acc p k)
    | _ => none) []

def showFlat (fl : Flat) : String :=
  if fl.isEmpty then "-" else ",".intercalate (fl.map fun pk => s!"{l2s (encPath pk.1)}={Str.hex pk.2}")

def parseEntries (s : String) : Option (List (Str × Str × Forest)) :=
  if s == "-" then some [] else
  (s.splitOn ";").foldlM (fun acc item =>
    match item.splitOn "=" with
    | [k, tk, f] => do
      let k ← Str.unhex k
      let tk ← Str.unhex tk
      let f ← parseForest f
      pure (acc ++ [(k, tk, f)])
    | _ => none) []

def parseMod (s : String) : Option (Option Str) :=
  if s == "None" then some none else (Str.unhex s).map some

def idWorld : World := { known := fun _ => true, isClassDef := fun _ => false, isDecl := fun _ => true, fullyname := id }

structure NodeInfo where
  known : Bool
  cls : Bool
  decl : Bool
  fullyname : Str

structure St where
  nodes : List (Str × NodeInfo) := []
  tbl : Table := {}

def St.world (st : St) : World :=
  let info := fun d => dictGet? st.nodes d
  { known := fun d => match info d with | some i => i.known | none => false
    isClassDef := fun d => match info d with | some i => i.cls | none => false
    isDecl := fun d => match info d with | some i => i.decl | none => false
    fullyname := fun d => match info d with | some i => i.fullyname | none => [] }

def showRow (k : Str) : Row → String
  | .symbol ty fl => s!"{Str.hex k}>S>{Str.hex ty}>{showFlat fl}"
  | .reflection nd dc o v fl => s!"{Str.hex k}>R>{Str.hex nd}>{Str.hex dc}>{Str.hex o}>{Str.hex v}>{showFlat fl}"

def parseRow (s : String) : Option (Str × Row) :=
  match s.splitOn ">" with
  | [k, "S", ty, fl] => do pure ((← Str.unhex k), .symbol (← Str.unhex ty) (← parseFlat fl))
  | [k, "R", nd, dc, o, v, fl] => do
    pure ((← Str.unhex k), .reflection (← Str.unhex nd) (← Str.unhex dc) (← Str.unhex o) (← Str.unhex v) (← parseFlat fl))
  | _ => none

def parseRows (s : String) : Option (List (Str × Row)) :=
  if s == "-" then some [] else (s.splitOn "|").mapM parseRow

/-- like `importJson`, but keeps the table reached when a row fails (the real loop mutates in place) -/
def importKeep (W : World) : Table → List (Str × Row) → Table × Option Err
  | t, [] => (t, none)
  | t, (k, row) :: rest =>
    match deserialize W t row with
    | .error e => (t, some e)
    | .ok s => importKeep W ((t.set k s).onComplete (modOf k)) rest

def showSym (s : Sym) : String :=
  s!"{Str.hex s.types} {Str.hex s.node} {Str.hex s.decl} {Str.hex s.via} {showForest s.attrs}"

def step (st : St) : List String → St × String
  | ["expand", f] =>
    match parseForest f with
    | some f => (st, showFlat (expand f))
    | none => (st, "bad-op")
  | ["expandi", f] =>
    match parseIForest f with
    | some f => (st, showFlat (expandI f))
    | none => (st, "bad-op")
  | ["temp", a, n] =>
    match parseIForest a, n.toNat? with
    | some [a], some n => (st, showIAttr (toTemp a n).1)
    | _, _ => (st, "bad-op")
  | ["write", a, n, p, v] =>
    match parseIForest a, n.toNat?, parsePath p, parseIForest v with
    | some [a], some n, some p, some [v] =>
      let t := (toTemp a n).1
      let j := p.getLast!
      let container : Option IAttr := if p.length == 1 then some t else objectAt (iattrs t) p.dropLast
      match container with
      | some c =>
        if j < (iattrs c).length then
          (st, s!"E {showIAttr (setSlot (iid c) j v a)} T {showIAttr (setSlot (iid c) j v t)}")
        else (st, "IndexError")
      | none => (st, "IndexError")
    | _, _, _, _ => (st, "bad-op")
  | ["flatten", f] =>
    match parseForest f with
    | some f => (st, showFlat (flatten f))
    | none => (st, "bad-op")
  | ["rebuild", ents, fl] =>
    match parseEntries ents, parseFlat fl with
    | some ents, some fl =>
      let look : Lookup := fun k => dictGet? ents k
      match rebuild look fl with
      | .ok rs => (st, s!"ok {showForest (obsList rs)} | {showForest (rs.map ownAttr)}")
      | .error e => (st, e.toString)
    | _, _ => (st, "bad-op")
  | ["serialize", ty, nd, dc, via, cls, fn, f] =>
    match Str.unhex ty, Str.unhex nd, Str.unhex dc, Str.unhex via, Str.unhex fn, parseForest f with
    | some ty, some nd, some dc, some via, some fn, some f =>
      if cls != "0" && cls != "1" then (st, "bad-op") else
      let W : World := { known := fun _ => true, isClassDef := fun _ => cls == "1", isDecl := fun _ => true, fullyname := fun _ => fn }
      match serialize W { types := ty, node := nd, decl := dc, via := via, attrs := f } with
      | .symbol t fl => (st, s!"S {Str.hex t} {showFlat fl}")
      | .reflection n d o v fl => (st, s!"R {Str.hex n} {Str.hex d} {Str.hex o} {Str.hex v} {showFlat fl}")
    | _, _, _, _, _, _ => (st, "bad-op")
  | ["order", m, ents] =>
    match parseMod m, parseEntries ents with
    | some fm, some ents =>
      let t : Table := { items := ents.foldl (fun acc e => dictInsert acc e.1 { types := e.2.1, node := [], decl := [], via := [], attrs := e.2.2 }) [] }
      (st, ",".intercalate ((orderKeys idWorld t fm).map Str.hex))
    | _, _ => (st, "bad-op")
  | ["t.reset"] => ({}, "ok")
  | ["t.node", d, flags, fn] =>
    match Str.unhex d, flags.toList, Str.unhex fn with
    | some d, [a, b, c], some fn =>
      if [a, b, c].all (fun x => x == '0' || x == '1') then
        ({ st with nodes := dictInsert st.nodes d { known := a == '1', cls := b == '1', decl := c == '1', fullyname := fn } }, "ok")
      else (st, "bad-op")
    | _, _, _ => (st, "bad-op")
  | ["t.set", k, ty, nd, dc, via, f] =>
    match Str.unhex k, Str.unhex ty, Str.unhex nd, Str.unhex dc, Str.unhex via, parseForest f with
    | some k, some ty, some nd, some dc, some via, some f =>
      ({ st with tbl := st.tbl.set k { types := ty, node := nd, decl := dc, via := via, attrs := f } }, "ok")
    | _, _, _, _, _, _ => (st, "bad-op")
  | ["t.export", m] =>
    match parseMod m with
    | some fm =>
      match toJson st.world st.tbl fm with
      | .ok rows => (st, if rows.isEmpty then "ok -" else "ok " ++ "|".intercalate (rows.map fun kr => showRow kr.1 kr.2))
      | .error e => (st, e.toString)
    | none => (st, "bad-op")
  | ["t.import", rows] =>
    match parseRows rows with
    | some rows =>
      match importKeep st.world st.tbl rows with
      | (t, none) => ({ st with tbl := t }, "ok")
      | (t, some e) => ({ st with tbl := t }, e.toString)
    | none => (st, "bad-op")
  | ["t.text", rows] =>
    match parseRows rows with
    | some rows => (st, Str.hex (writeText rows))
    | none => (st, "bad-op")
  | ["t.read", text] =>
    match Str.unhex text with
    | some text =>
      match Tranp.Lark.parseJson text with
      | none => (st, "JSONDecodeError")
      | some j =>
        match jsonToRows j with
        | some rows => (st, if rows.isEmpty then "ok -" else "ok " ++ "|".intercalate (rows.map fun kr => showRow kr.1 kr.2))
        | none => (st, "bad-rows")
    | none => (st, "bad-op")
  | ["t.inv", m, ranks] =>
    match Str.unhex m with
    | some m =>
      let rk : Option (List (Str × Nat)) :=
        if ranks == "-" then some [] else
        (ranks.splitOn ",").mapM (fun item => match item.splitOn "=" with
          | [k, n] => do pure ((← Str.unhex k), (← n.toNat?))
          | _ => none)
      match rk with
      | some rk =>
        let rank : Str → Nat := fun k => match dictGet? rk k with | some r => r | none => 0
        let W := st.world
        let l := decide (Loaded W st.tbl m rank)
        let o := st.tbl.items.all (fun ks => modOf ks.1 != m || symOKb W st.tbl ks.2)
        let v := st.tbl.items.all (fun ks => modOf ks.1 != m || viaOKb W st.tbl ks.2)
        (st, s!"Loaded={l} SymOK={o} ViaOK={v}")
      | none => (st, "bad-op")
    | none => (st, "bad-op")
  | ["dsn.join", d, parts] =>
    match Str.unhex d, (if parts == "" then some [] else (parts.splitOn ";").mapM Str.unhex) with
    | some [c], some ps => (st, Str.hex (dsnJoin c ps))
    | _, _ => (st, "bad-op")
  | ["dsn.full", d, elems] =>
    match Str.unhex d, (if elems == "" then some [] else (elems.splitOn ";").mapM Str.unhex) with
    | some d, some es => (st, Str.hex (fullJoined d es))
    | _, _ => (st, "bad-op")
  | ["dsn.parsed", d] =>
    match Str.unhex d with
    | some d => (st, s!"{Str.hex (dsnParsed d).1} {Str.hex (dsnParsed d).2}")
    | none => (st, "bad-op")
  | ["t.unload", m] =>
    match Str.unhex m with
    | some m => ({ st with tbl := st.tbl.unload m }, "ok")
    | none => (st, "bad-op")
  | ["t.complete", m] =>
    match Str.unhex m with
    | some m => ({ st with tbl := st.tbl.onComplete m }, "ok")
    | none => (st, "bad-op")
  | ["t.completed", m] =>
    match Str.unhex m with
    | some m => (st, toString (st.tbl.isCompleted m))
    | none => (st, "bad-op")
  | ["t.has", m] =>
    match Str.unhex m with
    | some m => (st, toString (st.tbl.hasModule m))
    | none => (st, "bad-op")
  | ["t.keys"] => (st, ",".intercalate (st.tbl.items.map fun ks => Str.hex ks.1))
  | ["t.get", k] =>
    match Str.unhex k with
    | some k =>
      match st.tbl.get k with
      | .ok s => (st, "ok " ++ showSym s)
      | .error e => (st, e.toString)
    | none => (st, "bad-op")
  | _ => (st, "bad-op")

def run : IO Unit := runFamily step ({} : St)

end Tranp.Driver.SymJson
