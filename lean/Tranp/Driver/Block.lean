/-
  Driver family `block` (property C18): one helper call per line, every string argument hex-escaped.

    skip <pairs> <text> <begin>          _skip_other_block(text, pairs, begin); <pairs> = joined two-character pairs → <index>
    sep <text> <delimiter>               break_separator        → ok <hex>,<hex>,…   | <error>
    last <text> <brackets>               break_last_block       → ok <hex> <hex>     | <error>
    analyze <text> <brackets> <delimiter> <begin>   _analyze_entry → block b i | element b i | end i | <error>
    parse <text> <brackets> <delimiter>  parse                  → ok <tree>          | <error>     tree = (b,e,d,K[tree…])
    bracket <text> <brackets>            parse_bracket          → ok <hex>,…         | <error>
    pair <text> <brackets> <delimiter>   parse_pair             → ok <hex>:<hex>,…   | <error>
    deco <text>                          DecoratorHelper._parse → ok <path> <k>=<v>;… <join_args>
    param <text>                         Param.parse            → ok <type> <symbol> <default> | <error>
    pluck <text> | indexer <text> | cvarnew <text>     PatternParser.pluck_func_call_arguments / break_indexer / pluck_cvar_new
    callsplit <call> <args_num>          break_separator(pluck_func_call_arguments(call), ',') unpacked (former proc_for_range; no production site) → ok <a> <b> <c>
    initcall <value> <var_type>          Py2Cpp.is_initializer_call → ok true|false
    throw <throws>                       Py2Cpp.on_throw        → ok <calls> <hex>,…
    dictcomp <projection>                Py2Cpp.on_dict_comp    → ok <key> <value>
    dany <deco> <path,…> | danyargs <deco> <subject>   DecoratorHelper.any / any_args → ok true|false
    qany <deco,…> <path,…> | qanyargs <deco,…> <subject> | qcontains <deco,…> <path,…>   DecoratorQuery
    iql <string> <quote>                 is_quoted_literal      → ok true|false
    vorigin <var_type>                   Param(var_type, …).var_type_origin → ok <hex> | TypeError
    format <text> <brackets> <delimiter> parse_to_formatter(…).format()     → ok <hex> | <error>
-/
import Tranp.Driver.Common
import Tranp.Model.Block
import Tranp.Model.BlockView

namespace Tranp.Driver.Block
open Tranp Tranp.Block Tranp.Driver

def err (e : Err) : String := e.toString

/-- joined pairs → pair list; `none` for an odd number of characters -/
def toPairs : Str → Option (List (Char × Char))
  | [] => some []
  | [_] => none
  | a :: b :: rest => (toPairs rest).map ((a, b) :: ·)

def hexList (xs : List Str) : String := ",".intercalate (xs.map Str.hex)

def kindStr : Kinds → String
  | .Element => "E" | .Block => "B" | .End => "X"

partial def entryStr (e : Entry) : String :=
  s!"({e.begin},{e.end_},{e.depth},{kindStr e.kind}[{"".intercalate (e.entries.map entryStr)}])"

def unhex? (s : String) : Option Str := Str.unhex s

/-- comma-separated hex strings; `.` = the empty list -/
def unhexList (s : String) : Option (List Str) :=
  if s = "." then some [] else (s.splitOn ",").mapM Str.unhex

def step (_ : Unit) : List String → Unit × String
  | ["skip", ps, t, b] =>
    match unhex? ps, unhex? t, b.toNat? with
    | some ps, some t, some b =>
      match toPairs ps with
      | some pairs => ((), toString (skipOther pairs t b))
      | none => ((), "bad-op")
    | _, _, _ => ((), "bad-op")
  | ["sep", t, d] =>
    match unhex? t, unhex? d with
    | some t, some d =>
      match breakSeparator t d with
      | .ok ps => ((), "ok " ++ hexList ps)
      | .error e => ((), err e)
    | _, _ => ((), "bad-op")
  | ["last", t, b] =>
    match unhex? t, unhex? b with
    | some t, some b =>
      match breakLastBlock t b with
      | .ok (p, i) => ((), s!"ok {Str.hex p} {Str.hex i}")
      | .error e => ((), err e)
    | _, _ => ((), "bad-op")
  | ["analyze", t, b, d, i] =>
    match unhex? t, unhex? b, unhex? d, i.toNat? with
    | some t, some b, some d, some i =>
      match analyzeEntry t b d i with
      | .ok (.block eb k) => ((), s!"block {eb} {k}")
      | .ok (.element eb k) => ((), s!"element {eb} {k}")
      | .ok (.fin k) => ((), s!"end {k}")
      | .error e => ((), err e)
    | _, _, _, _ => ((), "bad-op")
  | ["parse", t, b, d] =>
    match unhex? t, unhex? b, unhex? d with
    | some t, some b, some d =>
      match parse t b d with
      | .ok e => ((), "ok " ++ entryStr e)
      | .error e => ((), err e)
    | _, _, _ => ((), "bad-op")
  | ["bracket", t, b] =>
    match unhex? t, unhex? b with
    | some t, some b =>
      match parseBracket t b with
      | .ok ps => ((), "ok " ++ hexList ps)
      | .error e => ((), err e)
    | _, _ => ((), "bad-op")
  | ["pair", t, b, d] =>
    match unhex? t, unhex? b, unhex? d with
    | some t, some b, some d =>
      match parsePair t b d with
      | .ok kvs => ((), "ok " ++ ",".intercalate (kvs.map fun kv => s!"{Str.hex kv.1}:{Str.hex kv.2}"))
      | .error e => ((), err e)
    | _, _, _ => ((), "bad-op")
  | ["deco", t] =>
    match unhex? t with
    | some t =>
      match decoParse t with
      | .ok (path, args, joinArgs) =>
        ((), s!"ok {Str.hex path} {";".intercalate (args.map fun kv => s!"{Str.hex kv.1}={Str.hex kv.2}")} {Str.hex joinArgs}")
      | .error e => ((), err e)
    | none => ((), "bad-op")
  | ["param", t] =>
    match unhex? t with
    | some t =>
      match paramParse t with
      | .ok (ty, sym, dv) => ((), s!"ok {Str.hex ty} {Str.hex sym} {Str.hex dv}")
      | .error e => ((), err e)
    | none => ((), "bad-op")
  | ["pluck", t] =>
    match unhex? t with
    | some t => match pluckFuncCallArguments t with
      | .ok a => ((), s!"ok {Str.hex a}")
      | .error e => ((), err e)
    | none => ((), "bad-op")
  | ["indexer", t] =>
    match unhex? t with
    | some t => match breakIndexer t with
      | .ok (a, b) => ((), s!"ok {Str.hex a} {Str.hex b}")
      | .error e => ((), err e)
    | none => ((), "bad-op")
  | ["cvarnew", t] =>
    match unhex? t with
    | some t => match pluckCvarNew t with
      | .ok (a, b) => ((), s!"ok {Str.hex a} {Str.hex b}")
      | .error e => ((), err e)
    | none => ((), "bad-op")
  | ["callsplit", t, n] =>
    match unhex? t, n.toNat? with
    | some t, some n => match splitCallArguments t n with
      | .ok (a, b, c) => ((), s!"ok {Str.hex a} {Str.hex b} {Str.hex c}")
      | .error e => ((), err e)
    | _, _ => ((), "bad-op")
  | ["initcall", t, v] =>
    match unhex? t, unhex? v with
    | some t, some v => match isInitializerCall t v with
      | .ok b => ((), s!"ok {b}")
      | .error e => ((), err e)
    | _, _ => ((), "bad-op")
  | ["throw", t] =>
    match unhex? t with
    | some t => match throwParts t with
      | .ok (c, args) => ((), s!"ok {Str.hex c} {hexList args}")
      | .error e => ((), err e)
    | none => ((), "bad-op")
  | ["dictcomp", t] =>
    match unhex? t with
    | some t => match dictCompProjection t with
      | .ok (a, b) => ((), s!"ok {Str.hex a} {Str.hex b}")
      | .error e => ((), err e)
    | none => ((), "bad-op")
  | ["dany", t, ps] =>
    match unhex? t, unhexList ps with
    | some t, some ps => match decoAny t ps with
      | .ok b => ((), s!"ok {b}")
      | .error e => ((), err e)
    | _, _ => ((), "bad-op")
  | ["danyargs", t, sub] =>
    match unhex? t, unhex? sub with
    | some t, some sub => match decoAnyArgs t sub with
      | .ok b => ((), s!"ok {b}")
      | .error e => ((), err e)
    | _, _ => ((), "bad-op")
  | ["qany", ds, ps] =>
    match unhexList ds, unhexList ps with
    | some ds, some ps => match queryAny ds ps with
      | .ok r => ((), "ok " ++ hexList r)
      | .error e => ((), err e)
    | _, _ => ((), "bad-op")
  | ["qanyargs", ds, sub] =>
    match unhexList ds, unhex? sub with
    | some ds, some sub => match queryAnyArgs ds sub with
      | .ok r => ((), "ok " ++ hexList r)
      | .error e => ((), err e)
    | _, _ => ((), "bad-op")
  | ["qcontains", ds, ps] =>
    match unhexList ds, unhexList ps with
    | some ds, some ps => match queryContains ds ps with
      | .ok b => ((), s!"ok {b}")
      | .error e => ((), err e)
    | _, _ => ((), "bad-op")
  | ["iql", t, q] =>
    match unhex? t, unhex? q with
    | some t, some q => match isQuotedLiteral t q with
      | .ok b => ((), s!"ok {b}")
      | .error e => ((), err e)
    | _, _ => ((), "bad-op")
  | ["vorigin", t] =>
    match unhex? t with
    | some t => match varTypeOrigin t with
      | .ok r => ((), s!"ok {Str.hex r}")
      | .error e => ((), e.toString)
    | none => ((), "bad-op")
  | ["format", t, b, d] =>
    match unhex? t, unhex? b, unhex? d with
    | some t, some b, some d => match parseToFormatterFormat t b d with
      | .ok r => ((), s!"ok {Str.hex r}")
      | .error e => ((), err e)
    | _, _, _ => ((), "bad-op")
  | _ => ((), "bad-op")

def run : IO Unit := runFamily step ()

end Tranp.Driver.Block
