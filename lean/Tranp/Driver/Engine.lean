/-
  Driver family `engine` (property C11): the self-hosted matcher on a current rule set.

    rules py | rules gram                                   generated tables (rules + regexp classification)   → ok <n>
    rules ast <tentry-sexp> <rxspec>                        rule set via the model's from_ast; rxspec = <regexphex>=c,c;… | -  → ok <n> / <error>
    keywords                                                → <hex>,<hex>,…
    parse <entryhex> <sourcehex> <tokens>                   tokens = <strhex>:<cls>:<bl>:<bc>:<el>:<ec>,… | -
                                                            → ok <tentry-sexp> / Errors.Syntax <summaryhex> / <error>
    summary <sourcehex> <tokens> <steps>                    ErrorCollector.summary → ok <hex> / <error>

  tentry-sexp (space separated): `( <namehex> child … )` for trees, `t:<namehex>:<valuehex>` for tokens.
-/
import Tranp.Driver.Common
import Tranp.Model.RulesAst
import Tranp.Generated.PyRules
import Tranp.Generated.GramRules

namespace Tranp.Driver.Engine
open Tranp Tranp.Engine Tranp.Driver

partial def parseTEntry : List String → Option (TEntry × List String)
  | "(" :: name :: rest =>
    let rec kids (acc : List TEntry) (ts : List String) : Option (List TEntry × List String) :=
      match ts with
      | ")" :: rest' => some (acc.reverse, rest')
      | [] => none
      | ts' => match parseTEntry ts' with
        | some (e, rest') => kids (e :: acc) rest'
        | none => none
    match Str.unhex name, kids [] rest with
    | some n, some (cs, rest') => some (.tree n cs, rest')
    | _, _ => none
  | tok :: rest =>
    match tok.splitOn ":" with
    | ["t", n, v] =>
      match Str.unhex n, Str.unhex v with
      | some n', some v' => some (.token n' v', rest)
      | _, _ => none
    | _ => none
  | [] => none

def readTEntry (s : String) : Option TEntry :=
  match parseTEntry (s.splitOn " ") with
  | some (e, []) => some e
  | _ => none

partial def showTEntry : TEntry → String
  | .token n v => s!"t:{Str.hex n}:{Str.hex v}"
  | .tree n cs => "( " ++ Str.hex n ++ String.join (cs.map fun c => " " ++ showTEntry c) ++ " )"

def parseInt? (s : String) : Option Int := Str.decToInt? s.toList

def parseTok (s : String) : Option Tok :=
  match s.splitOn ":" with
  | [str, cls, bl, bc, el, ec] => do
    let str' ← Str.unhex str
    let cls' ← cls.toNat?
    let bl' ← parseInt? bl
    let bc' ← parseInt? bc
    let el' ← parseInt? el
    let ec' ← parseInt? ec
    pure ⟨str', cls', ⟨bl', bc', el', ec'⟩⟩
  | _ => none

def parseToks (s : String) : Option (List Tok) :=
  if s == "-" then some [] else (s.splitOn ",").mapM parseTok

def parseRxSpec (s : String) : Option (List (Str × List Nat)) :=
  if s == "-" then some [] else
  (s.splitOn ";").mapM fun item =>
    match item.splitOn "=" with
    | [rx, cs] => do
      let rx' ← Str.unhex rx
      let cs' ← if cs == "" then some [] else (cs.splitOn ",").mapM String.toNat?
      pure (rx', cs')
    | _ => none

structure St where
  env : Env := Generated.pyEnv

/-- generous fuel for driver runs; C11.T1 gives the bound that provably suffices for well-formed rule sets -/
def driverFuel (n : Nat) : Nat := 1000 * (n + 2)

def err (e : Err) : String := e.toString

def step (st : St) : List String → St × String
  | ["rules", "py"] => ({ st with env := Generated.pyEnv }, s!"ok {Generated.pyRules.length}")
  | ["rules", "gram"] => ({ st with env := Generated.gramEnv }, s!"ok {Generated.gramRules.length}")
  | ["rules", "ast", sx, rxs] =>
    match readTEntry sx, parseRxSpec rxs with
    | some t, some tbl =>
      match RulesAst.fromAst t with
      | .ok R => ({ st with env := Env.of R (rxOfTable tbl) }, s!"ok {R.length}")
      | .error e => (st, err e)
    | _, _ => (st, "bad-op")
  | ["keywords"] => (st, ",".intercalate (st.env.kw.map Str.hex))
  | ["parse", entry, src, toks] =>
    match Str.unhex entry, Str.unhex src, parseToks toks with
    | some e, some source, some ts =>
      match parse st.env (driverFuel ts.length) source ts e with
      | .ok t => (st, "ok " ++ showTEntry t.simplify)
      | .error (.syntax msg) => (st, "Errors.Syntax " ++ Str.hex msg)
      | .error er => (st, err er)
    | _, _, _ => (st, "bad-op")
  | ["summary", src, toks, steps] =>
    match Str.unhex src, parseToks toks, steps.toNat? with
    | some source, some ts, some n =>
      match summary source ts n with
      | .ok msg => (st, "ok " ++ Str.hex msg)
      | .error er => (st, err er)
    | _, _, _ => (st, "bad-op")
  | _ => (st, "bad-op")

def run : IO Unit := runFamily step ({} : St)

end Tranp.Driver.Engine
