/-
  Tranp.Prec — precedence tables, printing with parentheses, precedence-climbing parsing (DESIGN.md §4).
  Shared by C01 (C++ re-grouping of emitted operators), C02 (grammar ladder vs CPython) and C11.
  No imports: executable model, usable from the driver. Theorems are in `Tranp/Lemmas/Prec.lean`.

  ## API summary

  Data
    `Tok`      = `atom n | op o | lp | rp`          tokens (operators and atoms are `Nat` codes)
    `Expr`     = `atom n | bin o l r | pre o e | paren e`   (`paren` = a pair of parentheses that is really there)
    `Ops`      = `{ bin : Nat → Option Nat, pre : Nat → Option Nat }`   level of `o` as infix-left / as prefix operator
                 (larger level = binds tighter; the same code may be both, like `-`)
    `Fixity`   = `infixl | chain | prefix`,  `Level = { fix, ops }`,  `Table = List Level` (index 0 binds loosest);
                 `Table.ops : Table → Ops`, `Table.heads : Table → List Head`  (`chain` — comparison chains — groups like `infixl`; n-ary folding is the client's business)
    `Head`     = `bin o | pre o | leaf`, `head : Expr → Head`;  `Side = left | right | operand`
  Functions
    `print : Expr → List Tok`             prints exactly the parentheses present as `paren` nodes
    `normalize L : Expr → Expr`           adds a `paren` exactly at the child positions where `L` needs one (keeps existing ones)
    `printMin L e = print (normalize L e)`    minimal parentheses for a paren-free `e`
    `strip : Expr → Expr`                 removes every `paren`
    `parse L : List Tok → Option Expr`    precedence climbing (`parsePrimary/parseExpr/parseLoop`, fuel `2·length+1`)
    `okAt L m h` / `okL L k h`            may head `h` stand bare where minimal level `m` is required / as left operand of a level-`k` infix
    `slotOk L p s c`                      may a child with head `c` stand bare at side `s` of a parent with head `p`
    `nf L e : Bool`                       normal form: every parent/child slot of `e` is `slotOk` (operators unknown to `L` are never ok)
    `pairs e : List (Head × Side × Head)` the parent/child slots occurring in `e`;  `known L e`: all operators of `e` are in `L`
    `tablesCompat L' L hs : Bool`         over the head vocabulary `hs`: every slot bare-able in `L'` is bare-able in `L`
    `witness p s c a b d : Expr`          the minimal two-operator term exercising slot `(p, s, c)`
  Theorems (Lemmas/Prec.lean; all unbounded, fuel-free statements)
    `parseExpr_fuel_mono` …               more fuel never changes a result
    `parse_print_NF     : nf L e → parse L (print e) = some e`
    `parse_eq_some_iff  : parse L ts = some e ↔ ts = print e ∧ nf L e`      (parse is the inverse of print exactly on NF)
    `parse_print_iff    : parse L (print e) = some e ↔ nf L e`
    `nf_iff_pairs       : nf L e ↔ ∀ x ∈ pairs e, slotOk L x.1 x.2.1 x.2.2`
    `nf_normalize       : known L e → nf L (normalize L e)`;  `strip_normalize`, `normalize_of_nf : nf L e → normalize L e = e`
    `parse_printMin     : known L e → parse L (printMin L e) = some (normalize L e)`
    `parse_printMin_strip : known L e → (parse L (printMin L e)).map strip = some (strip e)`
    `parse_printMin_cross : parse L (printMin L' e) = some (normalize L' e) ↔ nf L (normalize L' e)`
    `nf_of_tablesCompat : tablesCompat L' L hs → (∀ h ∈ heads e, h ∈ hs) → nf L' e → nf L e`
    `witness_nf / witness_not_reparsed : slotOk L' p s c → ¬ slotOk L p s c → nf L' w ∧ parse L (print w) ≠ some w`
    `regroup_left / regroup_right / regroup_pre_bin / regroup_bin_pre` : the concrete regrouped parse of each witness
-/
namespace Tranp.Prec

/-- tokens: atoms and operators are abstract `Nat` codes -/
inductive Tok where
  | atom (n : Nat)
  | op (o : Nat)
  | lp
  | rp
deriving DecidableEq, Repr, Inhabited

/-- expressions with explicit parenthesis nodes -/
inductive Expr where
  | atom (n : Nat)
  | bin (o : Nat) (l r : Expr)
  | pre (o : Nat) (e : Expr)
  | paren (e : Expr)
deriving DecidableEq, Repr, Inhabited

/-- level functions of an operator table: `bin o` = level of `o` as left-associative infix operator,
    `pre o` = level of `o` as prefix operator (`none` = not such an operator). Larger = binds tighter. -/
structure Ops where
  bin : Nat → Option Nat
  pre : Nat → Option Nat

inductive Fixity where
  | infixl
  | chain
  | prefix
deriving DecidableEq, Repr, Inhabited

structure Level where
  fix : Fixity
  ops : List Nat
deriving DecidableEq, Repr, Inhabited

/-- an operator table: list of levels, index 0 binds loosest -/
abbrev Table := List Level

def Table.find (p : Fixity → Bool) : List Level → Nat → Nat → Option Nat
  | [], _, _ => none
  | l :: ls, i, o => if p l.fix && l.ops.contains o then some i else Table.find p ls (i + 1) o

/-- level functions of a table (`chain` levels group like `infixl`) -/
def Table.ops (T : Table) : Ops :=
  ⟨Table.find (fun f => f != Fixity.prefix) T 0, Table.find (fun f => f == Fixity.prefix) T 0⟩

/-! ## printing -/

/-- prints exactly the parentheses that are present as `paren` nodes -/
def print : Expr → List Tok
  | .atom n => [.atom n]
  | .bin o l r => print l ++ .op o :: print r
  | .pre o e => .op o :: print e
  | .paren e => .lp :: (print e ++ [.rp])

def strip : Expr → Expr
  | .atom n => .atom n
  | .bin o l r => .bin o (strip l) (strip r)
  | .pre o e => .pre o (strip e)
  | .paren e => strip e

/-! ## heads, slots, normal form -/

inductive Head where
  | bin (o : Nat)
  | pre (o : Nat)
  | leaf
deriving DecidableEq, Repr, Inhabited

inductive Side where
  | left
  | right
  | operand
deriving DecidableEq, Repr, Inhabited

def head : Expr → Head
  | .bin o _ _ => .bin o
  | .pre o _ => .pre o
  | _ => .leaf

/-- the operator heads a table defines (vocabulary for `tablesCompat` / `badSlots`) -/
def Table.heads (T : Table) : List Head :=
  T.flatMap fun l => l.ops.map fun o => if l.fix == Fixity.prefix then Head.pre o else Head.bin o

/-- a term with head `h` may stand without parentheses where the minimal level `m` is required
    (right operand of a level `m-1` infix, operand of a level-`m` prefix, top level `m = 0`) -/
def okAt (L : Ops) (m : Nat) : Head → Bool
  | .bin o => match L.bin o with
    | some k => decide (m ≤ k)
    | none => false
  | .pre o => match L.pre o with
    | some k => decide (m ≤ k)
    | none => false
  | .leaf => true

/-- a term with head `h` may stand without parentheses as the LEFT operand of a level-`k` infix operator -/
def okL (L : Ops) (k : Nat) : Head → Bool
  | .bin o => match L.bin o with
    | some k' => decide (k ≤ k')
    | none => false
  | .pre o => match L.pre o with
    | some k' => decide (k < k')
    | none => false
  | .leaf => true

/-- may a child with head `c` stand without parentheses at side `s` of a parent with head `p`? -/
def slotOk (L : Ops) : Head → Side → Head → Bool
  | .bin p, .left, c => match L.bin p with
    | some k => okL L k c
    | none => false
  | .bin p, .right, c => match L.bin p with
    | some k => okAt L (k + 1) c
    | none => false
  | .pre q, .operand, c => match L.pre q with
    | some k => okAt L k c
    | none => false
  | _, _, _ => false

/-- normal form w.r.t. `L`: parentheses are present wherever `L` needs them (extra ones are allowed anywhere) -/
def nf (L : Ops) : Expr → Bool
  | .atom _ => true
  | .paren e => nf L e
  | .bin o l r => slotOk L (.bin o) .left (head l) && slotOk L (.bin o) .right (head r) && nf L l && nf L r
  | .pre o e => slotOk L (.pre o) .operand (head e) && nf L e

/-- the parent/child slots occurring in `e` -/
def pairs : Expr → List (Head × Side × Head)
  | .atom _ => []
  | .paren e => pairs e
  | .bin o l r => (.bin o, .left, head l) :: (.bin o, .right, head r) :: (pairs l ++ pairs r)
  | .pre o e => (.pre o, .operand, head e) :: pairs e

/-- operator heads occurring in `e` -/
def heads : Expr → List Head
  | .atom _ => []
  | .paren e => heads e
  | .bin o l r => .bin o :: (heads l ++ heads r)
  | .pre o e => .pre o :: heads e

def knownHead (L : Ops) : Head → Bool
  | .bin o => (L.bin o).isSome
  | .pre o => (L.pre o).isSome
  | .leaf => true

/-- every operator of `e` is in the table -/
def known (L : Ops) : Expr → Bool
  | .atom _ => true
  | .paren e => known L e
  | .bin o l r => (L.bin o).isSome && known L l && known L r
  | .pre o e => (L.pre o).isSome && known L e

/-! ## minimal parenthesisation -/

def wrapIf (ok : Bool) (e : Expr) : Expr := if ok then e else .paren e

/-- add a `paren` at exactly the child positions that are not `slotOk` (existing ones are kept) -/
def normalize (L : Ops) : Expr → Expr
  | .atom n => .atom n
  | .paren e => .paren (normalize L e)
  | .bin o l r =>
    .bin o (wrapIf (slotOk L (.bin o) .left (head l)) (normalize L l))
           (wrapIf (slotOk L (.bin o) .right (head r)) (normalize L r))
  | .pre o e => .pre o (wrapIf (slotOk L (.pre o) .operand (head e)) (normalize L e))

def printMin (L : Ops) (e : Expr) : List Tok := print (normalize L e)

/-! ## precedence climbing -/

mutual
/-- atom, parenthesised expression, or prefix operator (only where its level is admissible: `m ≤ level`) -/
def parsePrimary (L : Ops) (fuel : Nat) (m : Nat) (ts : List Tok) : Option (Expr × List Tok) :=
  match fuel with
  | 0 => none
  | fuel + 1 =>
    match ts with
    | .atom n :: rest => some (.atom n, rest)
    | .lp :: rest =>
      match parseExpr L fuel 0 rest with
      | some (e, .rp :: rest') => some (.paren e, rest')
      | _ => none
    | .op o :: rest =>
      match L.pre o with
      | some k =>
        if m ≤ k then
          match parseExpr L fuel k rest with
          | some (e, rest') => some (.pre o e, rest')
          | none => none
        else none
      | none => none
    | _ => none
/-- an expression all of whose bare operators have level ≥ `m` -/
def parseExpr (L : Ops) (fuel : Nat) (m : Nat) (ts : List Tok) : Option (Expr × List Tok) :=
  match fuel with
  | 0 => none
  | fuel + 1 =>
    match parsePrimary L fuel m ts with
    | some (l, rest) => parseLoop L fuel m l rest
    | none => none
/-- absorb `op r` pairs of level ≥ `m` into the accumulated left operand -/
def parseLoop (L : Ops) (fuel : Nat) (m : Nat) (acc : Expr) (ts : List Tok) : Option (Expr × List Tok) :=
  match fuel with
  | 0 => none
  | fuel + 1 =>
    match ts with
    | .op o :: rest =>
      match L.bin o with
      | some k =>
        if m ≤ k then
          match parseExpr L fuel (k + 1) rest with
          | some (r, rest') => parseLoop L fuel m (.bin o acc r) rest'
          | none => none
        else some (acc, ts)
      | none => some (acc, ts)
    | _ => some (acc, ts)
end

/-- parse a whole token list (fuel = 2·length + 1 always suffices: `parse_print_NF`) -/
def parse (L : Ops) (ts : List Tok) : Option Expr :=
  match parseExpr L (2 * ts.length + 1) 0 ts with
  | some (e, []) => some e
  | _ => none

/-! ## table comparison -/

def allSides : List Side := [.left, .right, .operand]

/-- over the head vocabulary `hs`: every slot that may stay bare under `L'` may stay bare under `L`
    (so text printed with `L'`-minimal parentheses is regrouped identically by `L`) -/
def tablesCompat (L' L : Ops) (hs : List Head) : Bool :=
  hs.all fun p => allSides.all fun s => (Head.leaf :: hs).all fun c => !slotOk L' p s c || slotOk L p s c

/-- the slots on which the two tables disagree in the harmful direction -/
def badSlots (L' L : Ops) (hs : List Head) : List (Head × Side × Head) :=
  hs.flatMap fun p => allSides.flatMap fun s => (Head.leaf :: hs).filterMap fun c =>
    if slotOk L' p s c && !slotOk L p s c then some (p, s, c) else none

/-- a term with head `c` over atoms `a b` -/
def mkChild (c : Head) (a b : Nat) : Expr :=
  match c with
  | .bin o => .bin o (.atom a) (.atom b)
  | .pre o => .pre o (.atom a)
  | .leaf => .atom a

/-- the minimal two-operator term exercising slot `(p, s, c)` -/
def witness (p : Head) (s : Side) (c : Head) (a b d : Nat) : Expr :=
  match p, s with
  | .bin o, .left => .bin o (mkChild c a b) (.atom d)
  | .bin o, .right => .bin o (.atom a) (mkChild c b d)
  | .pre o, .operand => .pre o (mkChild c a b)
  | _, _ => .atom a

end Tranp.Prec
